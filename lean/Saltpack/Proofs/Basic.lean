/-
  Proofs about the model of package `basic` (Model/Basic.lean):

    A  `kidToPublicKey`: always 32 bytes; identity on 32 bytes; zero padding of
       short kids, truncation of long ones
    B  the association list is a map (`mapGet`/`mapInsert` laws, key uniqueness
       as an invariant of every sequence of imports, last import wins)
    C  `LookupBoxSecretKey`: the first kid whose 32-byte copy is a key of the map
    D  for HONEST keyrings (every stored public key is the public key of its
       secret) and 32-byte kids the abstract keyring `Basic.Keyring.toRing k order`
       answers exactly like `faithfulKeyring P (order.map sec)` — for EVERY
       iteration order `order` of the map
    E  the receivers consult a keyring only at a few arguments: congruence
       lemmas for `Decrypt.openStream/openAll`, `Signcrypt.openStream/openAll`
    F  hence the ring round-trip theorems (Props/C01, C03) hold for basic keyrings
    G  `EphemeralKeyCreator` / `generateBoxKey`: 32 bytes, fail closed
-/
import Saltpack.Model.Basic
import Saltpack.Proofs.RingRT
import Saltpack.Proofs.Rand

namespace Saltpack.Proofs.BasicRing
open Saltpack Saltpack.Basic Saltpack.Proofs.RTSig

/-! ## A. kidToPublicKey -/

theorem kid_length (kid : Bytes) : (kidToPublicKey kid).length = 32 := by
  simp [kidToPublicKey, zeros]

theorem kid_of_len32 {kid : Bytes} (h : kid.length = 32) : kidToPublicKey kid = kid := by
  unfold kidToPublicKey
  rw [List.take_append_of_le_length (by omega), List.take_of_length_le (by omega)]

theorem kid_idem (kid : Bytes) : kidToPublicKey (kidToPublicKey kid) = kidToPublicKey kid :=
  kid_of_len32 (kid_length kid)

/-- a kid that is too short is zero padded -/
theorem kid_short {kid : Bytes} (h : kid.length ≤ 32) :
    kidToPublicKey kid = kid ++ zeros (32 - kid.length) := by
  unfold kidToPublicKey zeros
  rw [List.take_append, List.take_of_length_le (by omega), List.take_replicate, Nat.min_eq_left (by omega)]

/-- a kid that is too long is truncated -/
theorem kid_long {kid : Bytes} (h : 32 ≤ kid.length) : kidToPublicKey kid = kid.take 32 := by
  unfold kidToPublicKey
  rw [List.take_append_of_le_length h]

/-- two kids name the same key iff their 32-byte copies agree: e.g. a key and
    the key followed by arbitrary bytes -/
theorem kid_append_of_len32 {key : Bytes} (h : key.length = 32) (extra : Bytes) :
    kidToPublicKey (key ++ extra) = key := by
  unfold kidToPublicKey
  rw [List.append_assoc, List.take_append_of_le_length (by omega), List.take_of_length_le (by omega)]

/-! ## B. the association list is a map -/

/-- keys of the map are pairwise distinct -/
def MapWF (m : List SecretKey) : Prop := (m.map (·.pub)).Nodup

theorem mapWF_nil : MapWF [] := by simp [MapWF]

theorem mapInsert_mem {m : List SecretKey} {nk e : SecretKey} (h : e ∈ mapInsert m nk) : e = nk ∨ e ∈ m := by
  induction m with
  | nil => simp [mapInsert] at h; exact Or.inl h
  | cons a rest ih =>
    unfold mapInsert at h
    split at h
    · rcases List.mem_cons.1 h with h | h
      · exact Or.inl h
      · exact Or.inr (List.mem_cons_of_mem _ h)
    · rcases List.mem_cons.1 h with h | h
      · exact Or.inr (h ▸ List.mem_cons_self)
      · rcases ih h with h | h
        · exact Or.inl h
        · exact Or.inr (List.mem_cons_of_mem _ h)

theorem mapInsert_pub_mem {m : List SecretKey} {nk : SecretKey} {p : Bytes}
    (h : p ∈ (mapInsert m nk).map (·.pub)) : p = nk.pub ∨ p ∈ m.map (·.pub) := by
  obtain ⟨e, he, rfl⟩ := List.mem_map.1 h
  rcases mapInsert_mem he with rfl | h
  · exact Or.inl rfl
  · exact Or.inr (List.mem_map.2 ⟨e, h, rfl⟩)

theorem mapInsert_wf {m : List SecretKey} (nk : SecretKey) (h : MapWF m) : MapWF (mapInsert m nk) := by
  induction m with
  | nil => simp [mapInsert, MapWF]
  | cons a rest ih =>
    unfold MapWF at h ih ⊢
    rw [List.map_cons, List.nodup_cons] at h
    unfold mapInsert
    split
    · rename_i heq
      have heq : a.pub = nk.pub := beq_iff_eq.1 heq
      rw [List.map_cons, List.nodup_cons, ← heq]
      exact h
    · rename_i hne
      have hne : a.pub ≠ nk.pub := by simpa using hne
      rw [List.map_cons, List.nodup_cons]
      refine ⟨?_, ih h.2⟩
      intro hmem
      rcases mapInsert_pub_mem hmem with h' | h'
      · exact hne h'
      · exact h.1 h'

/-- `m[k] = v; m[k]` -/
theorem mapGet_insert_same (m : List SecretKey) (nk : SecretKey) : mapGet (mapInsert m nk) nk.pub = some nk := by
  induction m with
  | nil => simp [mapInsert, mapGet]
  | cons a rest ih =>
    unfold mapInsert
    split
    · simp [mapGet]
    · rename_i hne
      unfold mapGet at ih ⊢
      rw [List.find?_cons]
      simp only [hne]
      exact ih

/-- `m[k] = v; m[k']` for `k' ≠ k` -/
theorem mapGet_insert_other (m : List SecretKey) (nk : SecretKey) {p : Bytes} (h : p ≠ nk.pub) :
    mapGet (mapInsert m nk) p = mapGet m p := by
  induction m with
  | nil =>
    have : (nk.pub == p) = false := by simpa using Ne.symm h
    simp [mapInsert, mapGet, this]
  | cons a rest ih =>
    unfold mapInsert
    split
    · rename_i heq
      have heq : a.pub = nk.pub := beq_iff_eq.1 heq
      have h1 : (nk.pub == p) = false := by simpa using Ne.symm h
      have h2 : (a.pub == p) = false := by rw [heq]; exact h1
      simp [mapGet, h1, h2]
    · unfold mapGet at ih ⊢
      rw [List.find?_cons, List.find?_cons, ih]

theorem mapGet_mem {m : List SecretKey} {p : Bytes} {e : SecretKey} (h : mapGet m p = some e) : e ∈ m ∧ e.pub = p := by
  unfold mapGet at h
  have := List.find?_some h
  exact ⟨List.mem_of_find?_eq_some h, beq_iff_eq.1 this⟩

/-- in a well-formed map an entry is found under its key, and only there -/
theorem mapGet_of_mem {m : List SecretKey} (hwf : MapWF m) {e : SecretKey} (he : e ∈ m) : mapGet m e.pub = some e := by
  induction m with
  | nil => cases he
  | cons a rest ih =>
    unfold MapWF at hwf ih
    rw [List.map_cons, List.nodup_cons] at hwf
    unfold mapGet
    rw [List.find?_cons]
    rcases List.mem_cons.1 he with rfl | he'
    · simp
    · have hne : (a.pub == e.pub) = false := by
        have : a.pub ≠ e.pub := fun h => hwf.1 (h ▸ List.mem_map.2 ⟨e, he', rfl⟩)
        simpa using this
      simp only [hne]
      exact ih hwf.2 he'

theorem mapGet_eq_some_iff {m : List SecretKey} (hwf : MapWF m) {p : Bytes} {e : SecretKey} :
    mapGet m p = some e ↔ e ∈ m ∧ e.pub = p :=
  ⟨mapGet_mem, fun ⟨he, hp⟩ => hp ▸ mapGet_of_mem hwf he⟩

theorem mapGet_eq_none_iff {m : List SecretKey} {p : Bytes} : mapGet m p = none ↔ ∀ e ∈ m, e.pub ≠ p := by
  unfold mapGet
  rw [List.find?_eq_none]
  constructor
  · intro h e he heq; exact h e he (by simp [heq])
  · intro h e he; simpa using h e he

/-- the keyring invariant: public keys in `encKeys` are pairwise distinct -/
def WF (k : Basic.Keyring) : Prop := MapWF k.encKeys

theorem empty_wf : WF Basic.Keyring.empty := mapWF_nil

theorem importBoxKey_wf {k : Basic.Keyring} (pub sec : Bytes) (h : WF k) : WF (k.importBoxKey pub sec) :=
  mapInsert_wf _ h

theorem importAll_wf {k : Basic.Keyring} (es : List SecretKey) (h : WF k) : WF (k.importAll es) := by
  induction es generalizing k with
  | nil => exact h
  | cons e rest ih => exact ih (importBoxKey_wf e.pub e.sec h)

/-- every keyring that imports ever build is well formed -/
theorem importAll_empty_wf (es : List SecretKey) : WF (Basic.Keyring.empty.importAll es) := importAll_wf es empty_wf

/-- **last import wins**: after a sequence of `ImportBoxKey` calls the entry under
    a public key is the LAST one imported with that key (else what was there) -/
theorem mapGet_importAll (k : Basic.Keyring) (es : List SecretKey) (p : Bytes) :
    mapGet (k.importAll es).encKeys p =
      match es.reverse.find? (fun e => e.pub == p) with
      | some e => some e
      | none => mapGet k.encKeys p := by
  induction es generalizing k with
  | nil => simp [Basic.Keyring.importAll]
  | cons e rest ih =>
    rw [Basic.Keyring.importAll, ih, List.reverse_cons, List.find?_append]
    cases hf : rest.reverse.find? (fun e => e.pub == p) with
    | some e' => simp
    | none =>
      simp only [Option.none_or, List.find?_cons, List.find?_nil]
      by_cases hp : e.pub = p
      · subst hp
        have : mapGet (k.importBoxKey e.pub e.sec).encKeys e.pub = some e :=
          mapGet_insert_same k.encKeys ⟨e.pub, e.sec⟩
        simp [this]
      · have hb : (e.pub == p) = false := by simpa using hp
        simp only [hb]
        exact mapGet_insert_other k.encKeys ⟨e.pub, e.sec⟩ (fun h => hp h.symm)

/-- an imported key is in the keyring as long as its public key is not imported
    again afterwards -/
theorem mem_importAll (k : Basic.Keyring) (pre post : List SecretKey) (e : SecretKey)
    (hpost : ∀ e' ∈ post, e'.pub ≠ e.pub) : e ∈ (k.importAll (pre ++ e :: post)).encKeys := by
  have h := mapGet_importAll k (pre ++ e :: post) e.pub
  have hfind : (pre ++ e :: post).reverse.find? (fun e' => e'.pub == e.pub) = some e := by
    rw [List.reverse_append, List.reverse_cons, List.append_assoc, List.find?_append]
    have : post.reverse.find? (fun e' => e'.pub == e.pub) = none := by
      rw [List.find?_eq_none]
      intro e' he'
      simpa using hpost e' (List.mem_reverse.1 he')
    simp [this]
  rw [hfind] at h
  exact (mapGet_mem h).1

/-! ## C. LookupBoxSecretKey -/

/-- **what `LookupBoxSecretKey` returns**: the index `idx` of the FIRST kid whose
    32-byte copy is a key of the map together with that entry, or `(-1, nil)`
    when no kid's copy is a key (also for the empty list) -/
theorem lookupFrom_spec (k : Basic.Keyring) (kids : List Bytes) (o : Nat) :
    (∃ (idx : Nat) (sk : SecretKey), ∃ (h : idx < kids.length),
        mapGet k.encKeys (kidToPublicKey kids[idx]) = some sk ∧
        (∀ j (hj : j < idx), mapGet k.encKeys (kidToPublicKey (kids[j]'(by omega))) = none) ∧
        k.lookupFrom kids o = (((o + idx : Nat) : Int), some sk)) ∨
    ((∀ kid ∈ kids, mapGet k.encKeys (kidToPublicKey kid) = none) ∧ k.lookupFrom kids o = (-1, none)) := by
  induction kids generalizing o with
  | nil => right; exact ⟨(by intro _ h; cases h), rfl⟩
  | cons kid rest ih =>
    cases hg : mapGet k.encKeys (kidToPublicKey kid) with
    | some sk =>
      left
      refine ⟨0, sk, by simp, by simpa using hg, by intro j hj; omega, ?_⟩
      simp [Basic.Keyring.lookupFrom, hg]
    | none =>
      have hstep : k.lookupFrom (kid :: rest) o = k.lookupFrom rest (o + 1) := by
        simp [Basic.Keyring.lookupFrom, hg]
      rcases ih (o + 1) with ⟨idx, sk, h, h1, h2, h3⟩ | ⟨h1, h2⟩
      · left
        refine ⟨idx + 1, sk, by simp; omega, by simpa using h1, ?_, ?_⟩
        · intro j hj
          cases j with
          | zero => simpa using hg
          | succ j => simpa using h2 j (by omega)
        · rw [hstep, h3, show o + 1 + idx = o + (idx + 1) by omega]
      · right
        refine ⟨?_, by rw [hstep, h2]⟩
        intro kid' hk
        rcases List.mem_cons.1 hk with rfl | hk
        · exact hg
        · exact h1 kid' hk

theorem lookup_spec (k : Basic.Keyring) (kids : List Bytes) :
    (∃ (idx : Nat) (sk : SecretKey), ∃ (h : idx < kids.length),
        mapGet k.encKeys (kidToPublicKey kids[idx]) = some sk ∧
        (∀ j (hj : j < idx), mapGet k.encKeys (kidToPublicKey (kids[j]'(by omega))) = none) ∧
        k.lookupBoxSecretKey kids = ((idx : Int), some sk)) ∨
    ((∀ kid ∈ kids, mapGet k.encKeys (kidToPublicKey kid) = none) ∧ k.lookupBoxSecretKey kids = (-1, none)) := by
  have := lookupFrom_spec k kids 0
  simpa [Basic.Keyring.lookupBoxSecretKey] using this

/-! ## D. honest keyrings answer like the faithful keyring -/

/-- every stored public key is the public key of its secret (true of every key
    made by `GenerateBoxKey`; for `ImportBoxKey` it is the caller's business) -/
def Honest (P : Prims) (k : Basic.Keyring) : Prop := ∀ e ∈ k.encKeys, e.pub = P.boxPub e.sec

theorem empty_honest (P : Prims) : Honest P Basic.Keyring.empty := by intro e h; cases h

theorem importBoxKey_honest {P : Prims} {k : Basic.Keyring} (h : Honest P k) (sec : Bytes) :
    Honest P (k.importBoxKey (P.boxPub sec) sec) := by
  intro e he
  rcases mapInsert_mem he with rfl | he
  · rfl
  · exact h e he

theorem importAll_honest {P : Prims} {k : Basic.Keyring} (h : Honest P k) (es : List SecretKey)
    (hes : ∀ e ∈ es, e.pub = P.boxPub e.sec) : Honest P (k.importAll es) := by
  induction es generalizing k with
  | nil => exact h
  | cons e rest ih =>
    apply ih _ (fun e' he' => hes e' (List.mem_cons_of_mem _ he'))
    have := hes e List.mem_cons_self
    intro e' he'
    rcases mapInsert_mem he' with rfl | he'
    · exact this
    · exact h e' he'

theorem find?_congr_mem {α : Type} {l : List α} {p q : α → Bool} (h : ∀ a ∈ l, p a = q a) :
    l.find? p = l.find? q := by
  induction l with
  | nil => rfl
  | cons a rest ih =>
    rw [List.find?_cons, List.find?_cons, h a List.mem_cons_self,
      ih (fun b hb => h b (List.mem_cons_of_mem _ hb))]

/-- `find?` by key does not depend on the order of a list with distinct keys -/
theorem find_perm {m order : List SecretKey} (hwf : MapWF m) (hperm : order.Perm m) (p : Bytes) :
    order.find? (fun e => e.pub == p) = m.find? (fun e => e.pub == p) := by
  cases hf : order.find? (fun e => e.pub == p) with
  | some a =>
    have ha : a ∈ m := hperm.mem_iff.1 (List.mem_of_find?_eq_some hf)
    have hp : a.pub = p := by
      have := List.find?_some hf
      exact beq_iff_eq.1 this
    exact ((mapGet_eq_some_iff hwf).2 ⟨ha, hp⟩).symm
  | none =>
    symm
    rw [List.find?_eq_none] at hf ⊢
    intro e he
    exact hf e (hperm.mem_iff.2 he)

/-- one kid of 32 bytes: the map entry = the faithful keyring's search through
    the secrets in ANY iteration order -/
theorem get_eq_find (P : Prims) {k : Basic.Keyring} (hwf : WF k) (hh : Honest P k) {order : List SecretKey}
    (hperm : order.Perm k.encKeys) {kid : Bytes} (hk : kid.length = 32) :
    (mapGet k.encKeys (kidToPublicKey kid)).map (·.sec) =
      (order.map (·.sec)).find? (fun s => P.boxPub s == kid) := by
  rw [kid_of_len32 hk, List.find?_map]
  have h1 : order.find? ((fun s => P.boxPub s == kid) ∘ (·.sec)) = order.find? (fun e => e.pub == kid) := by
    apply find?_congr_mem
    intro e he
    have := hh e (hperm.mem_iff.1 he)
    simp [this]
  rw [h1, find_perm hwf hperm kid]
  rfl

theorem lookupFrom_eq_faithful (P : Prims) {k : Basic.Keyring} (hwf : WF k) (hh : Honest P k) {order : List SecretKey}
    (hperm : order.Perm k.encKeys) (kids : List Bytes) (hk : ∀ kid ∈ kids, kid.length = 32) (o : Nat) :
    ((k.lookupFrom kids o).1, (k.lookupFrom kids o).2.map (·.sec)) =
      match (lookupList P (order.map (·.sec)) kids o).head? with
      | some (i, s) => (i, some s)
      | none => (-1, none) := by
  induction kids generalizing o with
  | nil => simp [Basic.Keyring.lookupFrom, lookupList]
  | cons kid rest ih =>
    have hget := get_eq_find P hwf hh hperm (hk kid List.mem_cons_self)
    unfold lookupList
    rw [List.zipIdx_cons, List.filterMap_cons]
    cases hg : mapGet k.encKeys (kidToPublicKey kid) with
    | some sk =>
      rw [hg] at hget
      simp only [Option.map_some] at hget
      simp [Basic.Keyring.lookupFrom, hg, ← hget]
    | none =>
      rw [hg] at hget
      simp only [Option.map_none] at hget
      simp only [← hget, Option.map_none]
      have hstep : k.lookupFrom (kid :: rest) o = k.lookupFrom rest (o + 1) := by
        simp [Basic.Keyring.lookupFrom, hg]
      rw [hstep]
      exact ih (fun kid' h' => hk kid' (List.mem_cons_of_mem _ h')) (o + 1)

/-- **the basic keyring's `LookupBoxSecretKey` = the faithful keyring's**, on
    32-byte kids, for every iteration order of the map -/
theorem toRing_lookup_eq (P : Prims) {k : Basic.Keyring} (hwf : WF k) (hh : Honest P k) {order : List SecretKey}
    (hperm : order.Perm k.encKeys) (kids : List Bytes) (hk : ∀ kid ∈ kids, kid.length = 32) :
    (k.toRing order).lookupBoxSecretKey kids = (faithfulKeyring P (order.map (·.sec))).lookupBoxSecretKey kids := by
  rw [fk_lookup]
  exact lookupFrom_eq_faithful P hwf hh hperm kids hk 0

theorem toRing_import (k : Basic.Keyring) (order : List SecretKey) {kid : Bytes} (h : kid.length = 32) :
    (k.toRing order).importBoxEphemeralKey kid = some kid := by
  simp [Basic.Keyring.toRing, Basic.Keyring.importBoxEphemeralKey, kid_of_len32 h]

theorem toRing_lookupPub (k : Basic.Keyring) (order : List SecretKey) {kid : Bytes} (h : kid.length = 32) :
    (k.toRing order).lookupBoxPublicKey kid = some kid := by
  simp [Basic.Keyring.toRing, Basic.Keyring.lookupBoxPublicKey, kid_of_len32 h]

theorem toRing_lookupSig (k : Basic.Keyring) (order : List SecretKey) {kid : Bytes} (h : kid.length = 32) :
    (k.toRing order).lookupSigningPublicKey kid = some kid := by
  simp [Basic.Keyring.toRing, Basic.Keyring.lookupSigningPublicKey, kid_of_len32 h]

/-- the three pure lookups never return nil -/
theorem toRing_never_nil (k : Basic.Keyring) (order : List SecretKey) (kid : Bytes) :
    (k.toRing order).lookupBoxPublicKey kid ≠ none ∧ (k.toRing order).importBoxEphemeralKey kid ≠ none ∧
    (k.toRing order).lookupSigningPublicKey kid ≠ none := by
  simp [Basic.Keyring.toRing]


/-! ## E. the receivers consult a keyring only at a few arguments -/

theorem tryVisible_congr (P : Prims) (kr1 kr2 : Saltpack.Keyring) (h : EncHeader) (eph : Bytes)
    (hl : kr1.lookupBoxSecretKey ((Decrypt.visibleIndices h.receivers).map (fun i => Decrypt.kidOf (h.receivers.getD i default))) =
          kr2.lookupBoxSecretKey ((Decrypt.visibleIndices h.receivers).map (fun i => Decrypt.kidOf (h.receivers.getD i default)))) :
    Decrypt.tryVisible P kr1 h eph = Decrypt.tryVisible P kr2 h eph := by
  unfold Decrypt.tryVisible
  simp only [hl]

/-- **`decryptStream.processHeader` sees a keyring only through**
    `ImportBoxEphemeralKey(header.Ephemeral)`, `LookupBoxSecretKey(the visible key ids)`,
    `GetAllBoxSecretKeys()` and `LookupBoxPublicKey` of a 32-BYTE sender key
    (`rawBoxKeyFromSlice` has refused other lengths before the lookup) -/
theorem processHeader_congr (P : Prims) (valid : Validator) (kr1 kr2 : Saltpack.Keyring) (hh : Bytes) (h : EncHeader)
    (hi : kr1.importBoxEphemeralKey h.ephemeral = kr2.importBoxEphemeralKey h.ephemeral)
    (hl : kr1.lookupBoxSecretKey ((Decrypt.visibleIndices h.receivers).map (fun i => Decrypt.kidOf (h.receivers.getD i default))) =
          kr2.lookupBoxSecretKey ((Decrypt.visibleIndices h.receivers).map (fun i => Decrypt.kidOf (h.receivers.getD i default))))
    (ha : kr1.getAllBoxSecretKeys = kr2.getAllBoxSecretKeys)
    (hp : ∀ k, k.length = 32 → kr1.lookupBoxPublicKey k = kr2.lookupBoxPublicKey k) :
    Decrypt.processHeader P valid kr1 hh h = Decrypt.processHeader P valid kr2 hh h := by
  unfold Decrypt.processHeader
  rw [hi, ha]
  cases Decrypt.validate valid h with
  | error e => rfl
  | ok u =>
    simp only []
    cases kr2.importBoxEphemeralKey h.ephemeral with
    | none => rfl
    | some eph =>
      simp only [tryVisible_congr P kr1 kr2 h eph hl]
      generalize Decrypt.tryVisible P kr2 h eph = tv
      obtain ⟨log1, vis⟩ := tv
      cases vis with
      | error e => rfl
      | ok vis =>
        cases vis with
        | some r =>
          obtain ⟨sk, pk, pos⟩ := r
          simp only []
          cases P.sbOpen pk Nonce.senderKeySecretBox h.senderSecretbox with
          | none => rfl
          | some senderKey =>
            simp only []
            by_cases hlen : senderKey.length = 32
            · rw [hp senderKey hlen]
            · have : (senderKey.length != 32) = true := by simpa using hlen
              simp only [this, if_true]
        | none =>
          simp only []
          generalize Decrypt.tryHidden P h eph kr2.getAllBoxSecretKeys = th
          obtain ⟨log2, hid⟩ := th
          cases hid with
          | error e => rfl
          | ok o =>
            cases o with
            | none => rfl
            | some t =>
              obtain ⟨sk, pk, pos⟩ := t
              simp only []
              cases P.sbOpen pk Nonce.senderKeySecretBox h.senderSecretbox with
              | none => rfl
              | some senderKey =>
                simp only []
                by_cases hlen : senderKey.length = 32
                · rw [hp senderKey hlen]
                · have : (senderKey.length != 32) = true := by simpa using hlen
                  simp only [this, if_true]

/-- a header whose ephemeral key and visible key ids are 32 bytes long (every
    header a basic-key sender writes; any other field, and the packets, may be
    anything) -/
def Hdr32 (h : EncHeader) : Prop :=
  h.ephemeral.length = 32 ∧
  ∀ kid ∈ (Decrypt.visibleIndices h.receivers).map (fun i => Decrypt.kidOf (h.receivers.getD i default)), kid.length = 32

/-- **Decryption with an honest basic keyring = decryption with the faithful
    keyring of its secrets**, whatever order Go's map iteration takes, on EVERY
    header with 32-byte ephemeral key and key ids and EVERY packet stream
    (genuine or hostile): released bytes, error, key info, call log. -/
theorem dec_openStream_eq (P : Prims) {k : Basic.Keyring} (hwf : WF k) (hh : Honest P k) {order : List SecretKey}
    (hperm : order.Perm k.encKeys) (valid : Validator) (hr : HeaderRead EncHeader) (ps : PStream EncBlock)
    (h32 : ∀ hb h, hr = .ok hb h → Hdr32 h) :
    Decrypt.openStream P valid (k.toRing order) hr ps =
      Decrypt.openStream P valid (faithfulKeyring P (order.map (·.sec))) hr ps := by
  cases hr with
  | unreadable => rfl
  | undecodable b => rfl
  | ok hb h =>
    obtain ⟨he, hk⟩ := h32 hb h rfl
    unfold Decrypt.openStream
    simp only []
    rw [processHeader_congr P valid (k.toRing order) (faithfulKeyring P (order.map (·.sec))) (P.hash hb) h
      (by rw [toRing_import k order he]; rfl)
      (toRing_lookup_eq P hwf hh hperm _ hk)
      rfl
      (fun kid hkid => by rw [toRing_lookupPub k order hkid]; rfl)]

theorem dec_openAll_eq (P : Prims) {k : Basic.Keyring} (hwf : WF k) (hh : Honest P k) {order : List SecretKey}
    (hperm : order.Perm k.encKeys) (valid : Validator) (hr : HeaderRead EncHeader) (ps : PStream EncBlock)
    (h32 : ∀ hb h, hr = .ok hb h → Hdr32 h) :
    Decrypt.openAll P valid (k.toRing order) hr ps =
      Decrypt.openAll P valid (faithfulKeyring P (order.map (·.sec))) hr ps := by
  unfold Decrypt.openAll
  rw [dec_openStream_eq P hwf hh hperm valid hr ps h32]

/-- the header `Seal` writes for recipients whose VISIBLE key ids are 32 bytes -/
theorem hdr32_of_header (P : Prims) (hP : P.Lawful) {v : Version} (hv : v = v1 ∨ v = v2) (sender : Option Bytes)
    (eph pk : Bytes) (rs : List Encrypt.Recipient) (h : EncHeader)
    (hhdr : Encrypt.header P v sender eph pk rs = .ok h)
    (hlen : ∀ r ∈ rs, r.hidden = false → r.pub.length = 32) : Hdr32 h := by
  obtain ⟨_, _, _, he, _, _, _, hkids⟩ := header_spec P hv sender eph pk rs h hhdr
  refine ⟨by rw [he]; exact hP.pub_len eph, ?_⟩
  intro kid hkid
  rw [named_eq, hkids] at hkid
  simp only [List.mem_map, List.mem_filter] at hkid
  obtain ⟨o, ⟨⟨r, hr, rfl⟩, hvis⟩, rfl⟩ := hkid
  cases hhid : r.hidden with
  | true => simp [kidSpec, hhid, visK] at hvis
  | false => simpa [kidSpec, hhid] using hlen r hr hhid

theorem hdr32_of_sealPackets (P : Prims) (hP : P.Lawful) (bs : Nat) {v : Version} (hv : v = v1 ∨ v = v2)
    (sender : Option Bytes) (rs : List Encrypt.Recipient) (eph pk pt : Bytes) (h : EncHeader) (hb : Bytes)
    (blks : List EncBlock) (hseal : Encrypt.sealPackets P bs v sender rs eph pk pt = .ok (h, hb, blks))
    (hlen : ∀ r ∈ rs, r.hidden = false → r.pub.length = 32) : Hdr32 h := by
  obtain ⟨_, hhdr, _⟩ := sealPackets_inv P bs v sender rs eph pk pt h hb blks hseal
  exact hdr32_of_header P hP hv sender eph pk rs h hhdr hlen

/-! ### signcryption -/

theorem scFindKey_congr (P : Prims) (kr1 kr2 : Saltpack.Keyring) (res : Signcrypt.Resolver) (h : EncHeader) (eph : Bytes)
    (ha : kr1.getAllBoxSecretKeys = kr2.getAllBoxSecretKeys) :
    scFindKey P kr1 res h eph = scFindKey P kr2 res h eph := by
  unfold scFindKey
  rw [ha]

/-- **`signcryptOpenStream.processHeader` sees a keyring only through**
    `ImportBoxEphemeralKey(header.Ephemeral)`, `GetAllBoxSecretKeys()` and
    `LookupSigningPublicKey(sender key)` (of whatever length the sender
    secretbox held).  Transfer form: if `kr2` processes the header to `(log, r)`
    and `kr1` gives the same answer for the sender key `r` names (if any), `kr1`
    processes it to `(log, r)` too. -/
theorem sc_processHeader_transfer (P : Prims) (kr1 kr2 : Saltpack.Keyring) (res : Signcrypt.Resolver) (hh : Bytes)
    (h : EncHeader)
    (hi : kr1.importBoxEphemeralKey h.ephemeral = kr2.importBoxEphemeralKey h.ephemeral)
    (ha : kr1.getAllBoxSecretKeys = kr2.getAllBoxSecretKeys)
    (h2 : ∀ k, kr2.lookupSigningPublicKey k = some k)
    (log : List KeyCall) (r : Except Err Signcrypt.State)
    (hph : Signcrypt.processHeader P kr2 res hh h = (log, r))
    (h1 : ∀ st k, r = .ok st → st.sender = some k → kr1.lookupSigningPublicKey k = some k) :
    Signcrypt.processHeader P kr1 res hh h = (log, r) := by
  cases hv : Signcrypt.validate h with
  | error e =>
    unfold Signcrypt.processHeader at hph ⊢
    rw [hv] at hph ⊢
    exact hph
  | ok u =>
    cases hie : kr2.importBoxEphemeralKey h.ephemeral with
    | none =>
      unfold Signcrypt.processHeader at hph ⊢
      rw [hv] at hph ⊢
      simp only [] at hph ⊢
      rw [hi, hie]
      rw [hie] at hph
      exact hph
    | some eph =>
      rw [sc_processHeader_eq P kr2 res hh h hv eph hie] at hph
      rw [sc_processHeader_eq P kr1 res hh h hv eph (hi.trans hie), scFindKey_congr P kr1 kr2 res h eph ha, ha]
      unfold scHeaderTail at hph ⊢
      cases hf : scFindKey P kr2 res h eph with
      | error e => rw [hf] at hph; exact hph
      | ok o =>
        rw [hf] at hph
        cases o with
        | none => exact hph
        | some pk =>
          simp only [] at hph ⊢
          cases hs : P.sbOpen pk Nonce.senderKeySecretBox h.senderSecretbox with
          | none => rw [hs] at hph; exact hph
          | some senderKey =>
            rw [hs] at hph
            simp only [] at hph ⊢
            by_cases hz : senderKey.all (· == 0) = true
            · simp only [hz, if_true] at hph ⊢
              exact hph
            · simp only [hz, if_false, h2 senderKey] at hph ⊢
              have hr : r = .ok ⟨pk, hh, some senderKey⟩ := by
                have := congrArg Prod.snd hph
                exact this.symm
              rw [h1 ⟨pk, hh, some senderKey⟩ senderKey hr rfl]
              exact hph

/-- a successful `SigncryptOpen` transfers from `kr2` (which returns every
    sender key as it is) to any `kr1` that agrees on the ephemeral key, the box
    secret keys and the sender key that was reported -/
theorem sc_openAll_transfer (P : Prims) (kr1 kr2 : Saltpack.Keyring) (res : Signcrypt.Resolver)
    (hr : HeaderRead EncHeader) (ps : PStream SigncryptBlock)
    (hi : ∀ hb h, hr = .ok hb h → kr1.importBoxEphemeralKey h.ephemeral = kr2.importBoxEphemeralKey h.ephemeral)
    (ha : kr1.getAllBoxSecretKeys = kr2.getAllBoxSecretKeys)
    (h2 : ∀ k, kr2.lookupSigningPublicKey k = some k)
    (s : Option Bytes) (pt : Bytes)
    (h1 : ∀ k, s = some k → kr1.lookupSigningPublicKey k = some k)
    (hopen : Signcrypt.openAll P kr2 res hr ps = .ok (s, pt)) :
    Signcrypt.openAll P kr1 res hr ps = .ok (s, pt) := by
  cases hr with
  | unreadable => exact hopen
  | undecodable b => exact hopen
  | ok hb h =>
    cases hph : Signcrypt.processHeader P kr2 res (P.hash hb) h with
    | mk log r =>
      cases r with
      | error e =>
        simp [Signcrypt.openAll, Signcrypt.openStream, hph] at hopen
      | ok st =>
        have hopen' := hopen
        simp only [Signcrypt.openAll, Signcrypt.openStream, hph] at hopen'
        have hsnd : st.sender = s := by
          split at hopen'
          · simp only [Except.ok.injEq, Prod.mk.injEq] at hopen'
            exact hopen'.1
          · cases hopen'
        have := sc_processHeader_transfer P kr1 kr2 res (P.hash hb) h (hi hb h rfl) ha h2 log (.ok st) hph
          (by
            intro st' k' hst hk'
            cases hst
            exact h1 k' (hsnd ▸ hk'))
        simp only [Signcrypt.openAll, Signcrypt.openStream, this]
        simp only [Signcrypt.openAll, Signcrypt.openStream, hph] at hopen
        exact hopen

end Saltpack.Proofs.BasicRing
