/-
  The armor reader stack, stage 4: the BaseX decoder stream (`dRead`) over the
  filtering reader, and `readAll`.

  Meaning of a decoder state: the pending output, then the strict decoding of
  the buffered characters followed by the characters the filter will still
  deliver — or `none` when an error will be reported.

  Core Lean only.
-/
import Saltpack.Proofs.StackFilter
import Saltpack.Proofs.StackBasex

namespace Saltpack.Proofs
open Saltpack Saltpack.Stream

/-! ## small helpers -/

theorem cblock_le {e : Basex.Enc} (he : e.WF) : e.charBlockLen ≤ 8 * e.blockLen := by
  have h := (he.enc_least e.blockLen (Nat.le_refl _)).2
  rw [he.enc_full] at h
  rcases h with h | h
  · omega
  · have h1 : 2 ^ (e.charBlockLen - 1) ≤ e.base ^ (e.charBlockLen - 1) :=
      Nat.pow_le_pow_left he.base_gt _
    have h2 : (256 : Nat) ^ e.blockLen = 2 ^ (8 * e.blockLen) := by
      rw [show (256 : Nat) = 2 ^ 8 from rfl, ← Nat.pow_mul]
    rw [h2] at h
    have := (Nat.pow_lt_pow_iff_right (a := 2) (by omega)).mp (Nat.lt_of_le_of_lt h1 h)
    omega

theorem basexErr_err (x : Basex.Err) : ∃ z, basexErr x = .err z := by
  cases x with
  | corrupt p => exact ⟨_, rfl⟩
  | badLen => exact ⟨_, rfl⟩

/-- the number of characters a `Read(p)` with `len(p) = cap` asks for at most -/
def nnOf (par : Armor.Params) (cap : Nat) : Nat :=
  let nn0 := cap / par.enc.blockLen * par.enc.charBlockLen
  let nn1 := if nn0 < par.enc.charBlockLen then par.enc.charBlockLen else nn0
  if nn1 > dBufSize par.enc then dBufSize par.enc else nn1

theorem nnOf_ge (par : Armor.Params) (he : par.enc.WF) (cap : Nat) : par.enc.charBlockLen ≤ nnOf par cap := by
  have := cblock_le he
  unfold nnOf dBufSize
  simp only
  split <;> split <;> omega

/-! ## the blocks of `dRead` -/

/-- decode `nDec` buffered characters and hand out the result -/
def dEmit (par : Armor.Params) (cap : Nat) (d2 : DState) (nDec : Nat) : Bytes × Option RErr × DState :=
  let nOut := par.enc.decLen nDec
  let (dec, de) := Basex.decodePrefix par.enc (nDec + 1) (d2.buf.take nDec)
  let err' : Option RErr := de.map basexErr
  let rest := d2.buf.drop nDec
  if nOut > cap then
    let ret := dec.take cap
    let d3 := { d2 with err := err', out := dec.drop cap, buf := rest }
    if ret.isEmpty && err'.isNone && cap != 0 then ([], some .eof, d3) else (ret, err', d3)
  else
    let d3 := { d2 with err := err', buf := rest }
    if dec.isEmpty && err'.isNone && cap != 0 then ([], some .eof, d3) else (dec, err', d3)

/-- what `dRead` does after filling its buffer -/
def dDecode (par : Armor.Params) (cap : Nat) (d1 : DState) : Bytes × Option RErr × DState :=
  let (eof, d2) : Bool × DState := match d1.err with
    | some .eof => (true, { d1 with err := none })
    | _ => (false, d1)
  if eof && d2.buf.isEmpty then ([], some .eof, { d2 with err := some .eof })
  else match d2.err with
  | some e => ([], some e, d2)
  | none => dEmit par cap d2 (if eof then d2.buf.length else d2.buf.length / par.enc.charBlockLen * par.enc.charBlockLen)

theorem dRead_out (par : Armor.Params) (expect : Armor.Expect) (cap : Nat) (d : DState) (he : d.err = none)
    (ho : d.out ≠ []) : dRead par expect cap d = (d.out.take cap, none, { d with out := d.out.drop cap }) := by
  unfold dRead
  rw [he]
  have : (!d.out.isEmpty) = true := by simp [ho]
  simp only [this, if_true]

theorem dRead_fill (par : Armor.Params) (expect : Armor.Expect) (cap : Nat) (d : DState) (he : d.err = none)
    (ho : d.out = []) :
    dRead par expect cap d = dDecode par cap (dFill par expect (nnOf par cap) (nnOf par cap + 2) d) := by
  unfold dRead
  rw [he]
  have : ¬ (!d.out.isEmpty) = true := by simp [ho]
  simp only [this]
  rfl

theorem dDecode_none (par : Armor.Params) (cap : Nat) (d1 : DState) (h : d1.err = none) :
    dDecode par cap d1 = dEmit par cap d1 (d1.buf.length / par.enc.charBlockLen * par.enc.charBlockLen) := by
  unfold dDecode
  rw [h]
  simp only [Bool.false_and, Bool.false_eq_true, if_false, h]

theorem dDecode_err (par : Armor.Params) (cap : Nat) (d1 : DState) (z : Err) (h : d1.err = some (.err z)) :
    dDecode par cap d1 = ([], some (.err z), d1) := by
  unfold dDecode
  rw [h]
  simp only [Bool.false_and, Bool.false_eq_true, if_false, h]

theorem dDecode_eof_empty (par : Armor.Params) (cap : Nat) (d1 : DState) (h : d1.err = some .eof) (hb : d1.buf = []) :
    dDecode par cap d1 = ([], some .eof, { d1 with err := some .eof }) := by
  unfold dDecode
  rw [h]
  simp [hb]

theorem dDecode_eof (par : Armor.Params) (cap : Nat) (d1 : DState) (h : d1.err = some .eof) (hb : d1.buf ≠ []) :
    dDecode par cap d1 = dEmit par cap { d1 with err := none } d1.buf.length := by
  unfold dDecode
  rw [h]
  simp [hb]

/-! ## meaning of a decoder state -/

/-- invariant of the states between calls (until a condition is reported) -/
structure DInv (par : Armor.Params) (d : DState) : Prop where
  fil : FInv d.fil.f
  buf : AllDig par.enc d.buf
  err : d.err = none

/-- decode what is buffered and what the filter will deliver -/
def dOf (par : Armor.Params) (buf out : Bytes) (q : Bytes × FInfo) : Option (Bytes × FInfo) :=
  (decS par.enc (buf ++ q.1)).map (fun y => (out ++ y, q.2))

def dSem (par : Armor.Params) (expect : Armor.Expect) (d : DState) : Option (Bytes × FInfo) :=
  (filSem par expect d.fil).bind (dOf par d.buf d.out)

/-- the measure: pending output, buffered characters, raw text left -/
def dM (d : DState) : Nat := d.out.length + d.buf.length + fRaw d.fil.f

theorem dOf_pre (par : Armor.Params) (buf out xs : Bytes) (m : Option (Bytes × FInfo)) :
    (m.map (preB xs)).bind (dOf par buf out) = m.bind (dOf par (buf ++ xs) out) := by
  cases m with
  | none => rfl
  | some q => simp [dOf, preB, List.append_assoc]

theorem dOf_out (par : Armor.Params) (buf a b : Bytes) (m : Option (Bytes × FInfo)) :
    m.bind (dOf par buf (a ++ b)) = (m.bind (dOf par buf b)).map (preB a) := by
  cases m with
  | none => rfl
  | some q =>
    simp only [Option.bind_some, dOf]
    cases decS par.enc (buf ++ q.1) with
    | none => rfl
    | some y => simp [preB, List.append_assoc]

/-- decoding `k` whole blocks `A` off the front of the buffer -/
theorem dOf_split (par : Armor.Params) (hN : 0 < par.enc.charBlockLen) (k : Nat) (A rest x out' y : Bytes)
    (hA : A.length = k * par.enc.charBlockLen) (hy : decS par.enc A = some y) (hxy : y = x ++ out')
    (m : Option (Bytes × FInfo)) :
    m.bind (dOf par (A ++ rest) []) = (m.bind (dOf par rest out')).map (preB x) := by
  cases m with
  | none => rfl
  | some q =>
    simp only [Option.bind_some, dOf, List.append_assoc]
    rw [decS_append par.enc hN k A (rest ++ q.1) hA, hy]
    simp only [Option.bind_some]
    cases decS par.enc (rest ++ q.1) with
    | none => rfl
    | some w => simp [preB, hxy, List.append_assoc]

theorem dOf_split_bad (par : Armor.Params) (hN : 0 < par.enc.charBlockLen) (k : Nat) (A rest out : Bytes)
    (hA : A.length = k * par.enc.charBlockLen) (hy : decS par.enc A = none) (m : Option (Bytes × FInfo)) :
    m.bind (dOf par (A ++ rest) out) = none := by
  cases m with
  | none => rfl
  | some q =>
    simp only [Option.bind_some, dOf, List.append_assoc]
    rw [decS_append par.enc hN k A (rest ++ q.1) hA, hy]
    rfl

theorem filSem_end (par : Armor.Params) (expect : Armor.Expect) (s : FilState) (h : s.f.phase = .endOfStream) :
    filSem par expect s = some ([], (s.f.hdr, s.f.brand, s.f.ftr)) := by
  simp [filSem, fSem, h, filOf, Basex.filterSkip]

/-! ## `dEmit` -/

theorem dEmit_spec (par : Armor.Params) (he : par.enc.WF) (cap : Nat) (hcap : 0 < cap) (d2 : DState) (nDec : Nat)
    (hb : AllDig par.enc d2.buf) (hn0 : 0 < nDec) (hn : nDec ≤ d2.buf.length) (_herr : d2.err = none)
    (hout : d2.out = []) :
    (decS par.enc (d2.buf.take nDec) = none → ∃ x z d3, dEmit par cap d2 nDec = (x, some (.err z), d3)) ∧
    (∀ y, decS par.enc (d2.buf.take nDec) = some y →
      ∃ x out' d3, dEmit par cap d2 nDec = (x, none, d3) ∧ x ≠ [] ∧ y = x ++ out' ∧
        d3.fil = d2.fil ∧ d3.err = none ∧ d3.buf = d2.buf.drop nDec ∧ d3.out = out') := by
  have hA : AllDig par.enc (d2.buf.take nDec) := allDig_take _ hb
  have hAl : (d2.buf.take nDec).length = nDec := by rw [List.length_take]; omega
  obtain ⟨p1, p2⟩ := decodePrefix_spec par.enc he.cblock_pos (nDec + 1) (d2.buf.take nDec) hA (by omega)
  have hAne : d2.buf.take nDec ≠ [] := by
    intro h; rw [h] at hAl; simp at hAl; omega
  constructor
  · intro hnone
    obtain ⟨pr, x, hp⟩ := p2 hnone
    obtain ⟨z, hz⟩ := basexErr_err x
    unfold dEmit
    rw [hp]
    simp only [Option.map_some, hz, Option.isNone_some, Bool.and_false, Bool.false_and, Bool.false_eq_true, if_false]
    split
    · exact ⟨_, _, _, rfl⟩
    · exact ⟨_, _, _, rfl⟩
  · intro y hy
    have hyne : y ≠ [] := decS_ne_nil he _ hA hAne y hy
    have hcap' : (cap != 0) = true := by simp; omega
    unfold dEmit
    rw [p1 y hy]
    simp only [Option.map_none, Option.isNone_none, Bool.and_true, hcap']
    by_cases hgt : par.enc.decLen nDec > cap
    · rw [if_pos hgt]
      have htk : y.take cap ≠ [] := take_ne_nil y cap hcap hyne
      have : (y.take cap).isEmpty = false := by
        cases h : y.take cap with
        | nil => exact absurd h htk
        | cons _ _ => rfl
      simp only [this, Bool.false_eq_true, if_false]
      exact ⟨_, _, _, rfl, htk, (List.take_append_drop cap y).symm, rfl, rfl, rfl, rfl⟩
    · rw [if_neg hgt]
      have : y.isEmpty = false := by
        cases h : y with
        | nil => exact absurd h hyne
        | cons _ _ => rfl
      simp only [this, Bool.false_eq_true, if_false]
      exact ⟨y, [], _, rfl, hyne, by simp, rfl, rfl, rfl, hout⟩

/-! ## `dFill` -/

theorem dFill_stop (par : Armor.Params) (expect : Armor.Expect) (nn fuel : Nat) (d : DState)
    (h : ¬ (d.buf.length < par.enc.charBlockLen ∧ d.err.isNone = true)) : dFill par expect nn fuel d = d := by
  cases fuel with
  | zero => rfl
  | succ f => rw [dFill, if_neg h]

theorem dFill_go (par : Armor.Params) (expect : Armor.Expect) (nn fuel : Nat) (d : DState)
    (h : d.buf.length < par.enc.charBlockLen ∧ d.err.isNone = true) :
    dFill par expect nn (fuel + 1) d =
      dFill par expect nn fuel
        { d with fil := (filRead par expect (nn - d.buf.length) (fuelOf d.fil.f.p + 4) d.fil).2.2,
                 buf := d.buf ++ (filRead par expect (nn - d.buf.length) (fuelOf d.fil.f.p + 4) d.fil).1,
                 err := (filRead par expect (nn - d.buf.length) (fuelOf d.fil.f.p + 4) d.fil).2.1 } := by
  rw [dFill, if_pos h]

/-- the outcome of the fill loop -/
def FillOK (par : Armor.Params) (expect : Armor.Expect) (d d1 : DState) : Prop :=
  d1.out = d.out ∧
  ((d1.err = none ∧ par.enc.charBlockLen ≤ d1.buf.length ∧ FInv d1.fil.f ∧
      ∃ xs, d1.buf = d.buf ++ xs ∧ AllDig par.enc xs ∧ fRaw d1.fil.f + xs.length ≤ fRaw d.fil.f ∧
        filSem par expect d.fil = (filSem par expect d1.fil).map (preB xs)) ∨
   (d1.err = some .eof ∧ d1.fil.f.phase = .endOfStream ∧ FInv d1.fil.f ∧
      ∃ xs, d1.buf = d.buf ++ xs ∧ AllDig par.enc xs ∧ fRaw d1.fil.f + xs.length ≤ fRaw d.fil.f ∧
        filSem par expect d.fil = some (xs, (d1.fil.f.hdr, d1.fil.f.brand, d1.fil.f.ftr))) ∨
   (∃ z, d1.err = some (.err z) ∧ filSem par expect d.fil = none))

theorem dFill_spec (par : Armor.Params) (expect : Armor.Expect) (nn : Nat) (hnn : par.enc.charBlockLen ≤ nn) :
    ∀ (fuel : Nat) (d : DState), FInv d.fil.f → AllDig par.enc d.buf → d.err = none →
    par.enc.charBlockLen < fuel + d.buf.length →
    FillOK par expect d (dFill par expect nn fuel d) := by
  intro fuel
  induction fuel with
  | zero =>
    intro d hi hb he hf
    rw [dFill_stop par expect nn 0 d (by omega)]
    exact ⟨rfl, Or.inl ⟨he, by omega, hi, [], by simp, allDig_nil _, by simp, (pre_nil _).symm⟩⟩
  | succ fuel ih =>
    intro d hi hb he hf
    by_cases hc : d.buf.length < par.enc.charBlockLen ∧ d.err.isNone = true
    · rw [dFill_go par expect nn fuel d hc]
      rcases hr : filRead par expect (nn - d.buf.length) (fuelOf d.fil.f.p + 4) d.fil with ⟨x, e, s'⟩
      have hstep := filRead_step' par expect (nn - d.buf.length) (by omega) d.fil hi x e s' hr
      simp only
      rcases hstep with ⟨rfl, a2, a3, a4, a5, a6⟩ | ⟨rfl, a2, a3, a4, a5, a6⟩ | ⟨z, rfl, a2⟩
      · -- more characters
        have hxpos : 0 < x.length := List.length_pos_iff.mpr a2
        have := ih { d with fil := s', buf := d.buf ++ x, err := none } a4 (allDig_append hb a3) rfl
          (by simp only [List.length_append]; omega)
        obtain ⟨o1, o2⟩ := this
        refine ⟨o1, ?_⟩
        rcases o2 with ⟨b1, b2, b3, xs, b4, b5, b6, b7⟩ | ⟨b1, b2, b3, xs, b4, b5, b6, b7⟩ | ⟨z, b1, b2⟩
        · refine Or.inl ⟨b1, b2, b3, x ++ xs, by rw [b4, List.append_assoc], allDig_append a3 b5, ?_, ?_⟩
          · simp only [List.length_append] at b6 ⊢; omega
          · rw [a6, b7, pre_pre]
        · refine Or.inr (Or.inl ⟨b1, b2, b3, x ++ xs, by rw [b4, List.append_assoc], allDig_append a3 b5, ?_, ?_⟩)
          · simp only [List.length_append] at b6 ⊢; omega
          · rw [a6, b7]; rfl
        · exact Or.inr (Or.inr ⟨z, b1, by rw [a6, b2]; rfl⟩)
      · -- clean EOF
        subst a2
        rw [dFill_stop par expect nn fuel _ (by simp)]
        refine ⟨rfl, Or.inr (Or.inl ⟨rfl, a5, a3, [], rfl, allDig_nil _, by simpa using a4, a6⟩)⟩
      · -- error
        rw [dFill_stop par expect nn fuel _ (by simp)]
        exact ⟨rfl, Or.inr (Or.inr ⟨z, rfl, a2⟩)⟩
    · rw [dFill_stop par expect nn (fuel + 1) d hc]
      have : par.enc.charBlockLen ≤ d.buf.length := by
        rw [he] at hc; simp at hc; exact hc
      exact ⟨rfl, Or.inl ⟨he, this, hi, [], by simp, allDig_nil _, by simp, (pre_nil _).symm⟩⟩

/-! ## one call -/

/-- what one `Read` of the decoder may do to the meaning of the state -/
def DStepOK (par : Armor.Params) (expect : Armor.Expect) (d : DState) (x : Bytes) (e : Option RErr) (d' : DState) : Prop :=
  (e = none ∧ x ≠ [] ∧ DInv par d' ∧ dM d' < dM d ∧ dSem par expect d = (dSem par expect d').map (preB x)) ∨
  (e = some .eof ∧ x = [] ∧ d'.fil.f.phase = .endOfStream ∧
      dSem par expect d = some ([], (d'.fil.f.hdr, d'.fil.f.brand, d'.fil.f.ftr))) ∨
  (∃ z, e = some (.err z) ∧ dSem par expect d = none)

theorem dRead_step_out (par : Armor.Params) (expect : Armor.Expect) (cap : Nat) (hcap : 0 < cap) (d : DState)
    (hi : DInv par d) (ho : d.out ≠ []) (x : Bytes) (e : Option RErr) (d' : DState)
    (h : dRead par expect cap d = (x, e, d')) : DStepOK par expect d x e d' := by
  rw [dRead_out par expect cap d hi.err ho] at h
  simp only [Prod.mk.injEq] at h
  obtain ⟨rfl, rfl, rfl⟩ := h
  have hpos : 0 < d.out.length := List.length_pos_iff.mpr ho
  refine Or.inl ⟨rfl, take_ne_nil _ _ hcap ho, ⟨hi.fil, hi.buf, hi.err⟩, ?_, ?_⟩
  · simp only [dM, List.length_drop]; omega
  · simp only [dSem]
    rw [← dOf_out]
    rw [List.take_append_drop]

theorem dRead_step_fill (par : Armor.Params) (he : par.enc.WF) (expect : Armor.Expect) (cap : Nat) (hcap : 0 < cap)
    (d : DState) (hi : DInv par d) (ho : d.out = []) (x : Bytes) (e : Option RErr) (d' : DState)
    (h : dRead par expect cap d = (x, e, d')) : DStepOK par expect d x e d' := by
  rw [dRead_fill par expect cap d hi.err ho] at h
  have hnn := nnOf_ge par he cap
  have hfill := dFill_spec par expect (nnOf par cap) hnn (nnOf par cap + 2) d hi.fil hi.buf hi.err (by omega)
  generalize dFill par expect (nnOf par cap) (nnOf par cap + 2) d = d1 at h hfill
  have hN := he.cblock_pos
  obtain ⟨o1, o2⟩ := hfill
  have hsem0 : dSem par expect d = (filSem par expect d.fil).bind (dOf par d.buf []) := by
    simp only [dSem]; rw [ho]
  rcases o2 with ⟨b1, b2, b3, xs, b4, b5, b6, b7⟩ | ⟨b1, b2, b3, xs, b4, b5, b6, b7⟩ | ⟨z, b1, b2⟩
  · -- at least one whole block buffered
    rw [dDecode_none par cap d1 b1] at h
    have hbuf : AllDig par.enc d1.buf := by rw [b4]; exact allDig_append hi.buf b5
    have hk : 0 < d1.buf.length / par.enc.charBlockLen := Nat.div_pos b2 hN
    have hn0 : 0 < d1.buf.length / par.enc.charBlockLen * par.enc.charBlockLen := Nat.mul_pos hk hN
    have hn : d1.buf.length / par.enc.charBlockLen * par.enc.charBlockLen ≤ d1.buf.length := Nat.div_mul_le_self _ _
    obtain ⟨g1, g2⟩ := dEmit_spec par he cap hcap d1 _ hbuf hn0 hn b1 (by rw [o1, ho])
    have hAl : (d1.buf.take (d1.buf.length / par.enc.charBlockLen * par.enc.charBlockLen)).length =
        d1.buf.length / par.enc.charBlockLen * par.enc.charBlockLen := by rw [List.length_take]; omega
    have hsem1 : dSem par expect d = (filSem par expect d1.fil).bind (dOf par d1.buf []) := by
      rw [hsem0, b7, dOf_pre, b4]
    have hsplit := List.take_append_drop (d1.buf.length / par.enc.charBlockLen * par.enc.charBlockLen) d1.buf
    cases hdec : decS par.enc (d1.buf.take (d1.buf.length / par.enc.charBlockLen * par.enc.charBlockLen)) with
    | none =>
      obtain ⟨x', z, d3, e3⟩ := g1 hdec
      rw [e3] at h
      simp only [Prod.mk.injEq] at h
      obtain ⟨rfl, rfl, rfl⟩ := h
      refine Or.inr (Or.inr ⟨z, rfl, ?_⟩)
      rw [hsem1, ← hsplit]
      exact dOf_split_bad par hN _ _ _ _ hAl hdec _
    | some y =>
      obtain ⟨x', out', d3, e3, q1, q2, q3, q4, q5, q6⟩ := g2 y hdec
      rw [e3] at h
      simp only [Prod.mk.injEq] at h
      obtain ⟨rfl, rfl, rfl⟩ := h
      have hylen := decS_length_le he _ (allDig_take _ hbuf) y hdec
      refine Or.inl ⟨rfl, q1, ⟨by rw [q3]; exact b3, by rw [q5]; exact allDig_drop _ hbuf, q4⟩, ?_, ?_⟩
      · have hx : 0 < x'.length := List.length_pos_iff.mpr q1
        have hyl : y.length = x'.length + out'.length := by rw [q2, List.length_append]
        have hbl : d1.buf.length = d.buf.length + xs.length := by rw [b4, List.length_append]
        simp only [dM, q3, q5, q6, ho, List.length_drop, List.length_nil]
        omega
      · rw [hsem1]
        simp only [dSem, q3, q5, q6]
        conv => lhs; rw [← hsplit]
        exact dOf_split par hN _ _ _ _ _ y hAl hdec q2 _
  · -- the filter reported a clean EOF
    have hbuf : AllDig par.enc d1.buf := by rw [b4]; exact allDig_append hi.buf b5
    have hsem1 : dSem par expect d = (decS par.enc d1.buf).map
        (fun y => (y, (d1.fil.f.hdr, d1.fil.f.brand, d1.fil.f.ftr))) := by
      rw [hsem0, b7]
      simp only [Option.bind_some, dOf, ← b4, List.nil_append]
    by_cases hb0 : d1.buf = []
    · rw [dDecode_eof_empty par cap d1 b1 hb0] at h
      simp only [Prod.mk.injEq] at h
      obtain ⟨rfl, rfl, rfl⟩ := h
      refine Or.inr (Or.inl ⟨rfl, rfl, b2, ?_⟩)
      rw [hsem1, hb0, decS_nil]
      rfl
    · rw [dDecode_eof par cap d1 b1 hb0] at h
      have hlen : 0 < d1.buf.length := List.length_pos_iff.mpr hb0
      obtain ⟨g1, g2⟩ := dEmit_spec par he cap hcap { d1 with err := none } d1.buf.length hbuf hlen
        (Nat.le_refl _) rfl (by show d1.out = []; rw [o1, ho])
      have htk : ({ d1 with err := none } : DState).buf.take d1.buf.length = d1.buf := List.take_length
      rw [htk] at g1 g2
      cases hdec : decS par.enc d1.buf with
      | none =>
        obtain ⟨x', z, d3, e3⟩ := g1 hdec
        rw [e3] at h
        simp only [Prod.mk.injEq] at h
        obtain ⟨rfl, rfl, rfl⟩ := h
        exact Or.inr (Or.inr ⟨z, rfl, by rw [hsem1, hdec]; rfl⟩)
      | some y =>
        obtain ⟨x', out', d3, e3, q1, q2, q3, q4, q5, q6⟩ := g2 y hdec
        rw [e3] at h
        simp only [Prod.mk.injEq] at h
        obtain ⟨rfl, rfl, rfl⟩ := h
        have hylen := decS_length_le he _ hbuf y hdec
        have hd3buf : d3.buf = [] := by rw [q5]; exact List.drop_length
        have hfil3 : d3.fil = d1.fil := q3
        refine Or.inl ⟨rfl, q1, ⟨by rw [hfil3]; exact b3, by rw [hd3buf]; exact allDig_nil _, q4⟩, ?_, ?_⟩
        · have hx : 0 < x'.length := List.length_pos_iff.mpr q1
          have hyl : y.length = x'.length + out'.length := by rw [q2, List.length_append]
          have hbl : d1.buf.length = d.buf.length + xs.length := by rw [b4, List.length_append]
          simp only [dM, hfil3, hd3buf, q6, ho, List.length_nil]
          omega
        · rw [hsem1, hdec]
          simp only [dSem, hfil3, hd3buf, q6]
          rw [filSem_end par expect d1.fil b2]
          simp [dOf, decS_nil, preB, q2]
  · -- the filter reported an error
    rw [dDecode_err par cap d1 z b1] at h
    simp only [Prod.mk.injEq] at h
    obtain ⟨rfl, rfl, rfl⟩ := h
    exact Or.inr (Or.inr ⟨z, rfl, by rw [hsem0, b2]; rfl⟩)

/-- **one `decoder.Read`** with any positive buffer size -/
theorem dRead_step (par : Armor.Params) (he : par.enc.WF) (expect : Armor.Expect) (cap : Nat) (hcap : 0 < cap)
    (d : DState) (hi : DInv par d) (x : Bytes) (e : Option RErr) (d' : DState)
    (h : dRead par expect cap d = (x, e, d')) : DStepOK par expect d x e d' := by
  by_cases ho : d.out = []
  · exact dRead_step_fill par he expect cap hcap d hi ho x e d' h
  · exact dRead_step_out par expect cap hcap d hi ho x e d' h

/-! ## reading to the end -/

theorem readAll_succ (par : Armor.Params) (expect : Armor.Expect) (caps : List Nat) (fuel k : Nat) (d : DState)
    (acc : Bytes) :
    readAll par expect caps (fuel + 1) k d acc =
      match (dRead par expect (caps.getD (k % caps.length) 1) d).2.1 with
      | none => readAll par expect caps fuel (k + 1) (dRead par expect (caps.getD (k % caps.length) 1) d).2.2
          (acc ++ (dRead par expect (caps.getD (k % caps.length) 1) d).1)
      | some .eof => (acc ++ (dRead par expect (caps.getD (k % caps.length) 1) d).1, none,
          (dRead par expect (caps.getD (k % caps.length) 1) d).2.2)
      | some (.err z) => (acc ++ (dRead par expect (caps.getD (k % caps.length) 1) d).1, some z,
          (dRead par expect (caps.getD (k % caps.length) 1) d).2.2) := by
  rw [readAll]
  rcases dRead par expect (caps.getD (k % caps.length) 1) d with ⟨x, e, d1⟩
  rfl

/-- **reading the decoder to the end** with any positive buffer sizes (cycled
    from any position `k`): a state that means `(y, info)` yields exactly `y` and
    a clean EOF, and ends with that frame information; a state that means an
    error yields an error.  The result is the same for every fuel above the
    measure `dM d` (so the reported error is never the fuel running out). -/
theorem readAll_sem (par : Armor.Params) (he : par.enc.WF) (expect : Armor.Expect) (caps : List Nat)
    (hpos : ∀ c ∈ caps, 0 < c) :
    ∀ (n : Nat) (d : DState), DInv par d → dM d ≤ n → ∀ (k : Nat) (acc : Bytes),
    (∀ y i, dSem par expect d = some (y, i) →
      ∃ d', (∀ fuel, n < fuel → readAll par expect caps fuel k d acc = (acc ++ y, none, d')) ∧
        d'.fil.f.phase = .endOfStream ∧ i = (d'.fil.f.hdr, d'.fil.f.brand, d'.fil.f.ftr)) ∧
    (dSem par expect d = none →
      ∃ r z d', ∀ fuel, n < fuel → readAll par expect caps fuel k d acc = (r, some z, d')) := by
  intro n
  induction n with
  | zero =>
    intro d hi hm k acc
    have hcap := capsGetD_pos caps hpos (k % caps.length)
    rcases hr : dRead par expect (caps.getD (k % caps.length) 1) d with ⟨x, e, d1⟩
    have hstep := dRead_step par he expect _ hcap d hi x e d1 hr
    rcases hstep with ⟨_, _, _, a4, _⟩ | ⟨rfl, rfl, a3, a4⟩ | ⟨z, rfl, a2⟩
    · omega
    · constructor
      · intro y i hs
        rw [a4] at hs
        simp only [Option.some.injEq, Prod.mk.injEq] at hs
        obtain ⟨rfl, rfl⟩ := hs
        refine ⟨d1, ?_, a3, rfl⟩
        intro fuel hf
        cases fuel with
        | zero => omega
        | succ f => rw [readAll_succ, hr]
      · intro hs; rw [a4] at hs; simp at hs
    · constructor
      · intro y i hs; rw [a2] at hs; simp at hs
      · intro _
        refine ⟨acc ++ x, z, d1, ?_⟩
        intro fuel hf
        cases fuel with
        | zero => omega
        | succ f => rw [readAll_succ, hr]
  | succ n ih =>
    intro d hi hm k acc
    have hcap := capsGetD_pos caps hpos (k % caps.length)
    rcases hr : dRead par expect (caps.getD (k % caps.length) 1) d with ⟨x, e, d1⟩
    have hstep := dRead_step par he expect _ hcap d hi x e d1 hr
    rcases hstep with ⟨rfl, _, a3, a4, a5⟩ | ⟨rfl, rfl, a3, a4⟩ | ⟨z, rfl, a2⟩
    · obtain ⟨i1, i2⟩ := ih d1 a3 (by omega) (k + 1) (acc ++ x)
      constructor
      · intro y i hs
        rw [a5] at hs
        cases hd1 : dSem par expect d1 with
        | none => rw [hd1] at hs; simp at hs
        | some q =>
          obtain ⟨y1, i'⟩ := q
          rw [hd1] at hs
          simp only [Option.map_some, preB, Option.some.injEq, Prod.mk.injEq] at hs
          obtain ⟨rfl, rfl⟩ := hs
          obtain ⟨d', f1, f2, f3⟩ := i1 y1 i' hd1
          refine ⟨d', ?_, f2, f3⟩
          intro fuel hf
          cases fuel with
          | zero => omega
          | succ f =>
            rw [readAll_succ, hr]
            simp only
            rw [f1 f (by omega), List.append_assoc]
      · intro hs
        rw [a5] at hs
        have hd1 : dSem par expect d1 = none := by
          cases h : dSem par expect d1 with
          | none => rfl
          | some q => rw [h] at hs; simp at hs
        obtain ⟨r, z, d', f1⟩ := i2 hd1
        refine ⟨r, z, d', ?_⟩
        intro fuel hf
        cases fuel with
        | zero => omega
        | succ f =>
          rw [readAll_succ, hr]
          simp only
          exact f1 f (by omega)
    · constructor
      · intro y i hs
        rw [a4] at hs
        simp only [Option.some.injEq, Prod.mk.injEq] at hs
        obtain ⟨rfl, rfl⟩ := hs
        refine ⟨d1, ?_, a3, rfl⟩
        intro fuel hf
        cases fuel with
        | zero => omega
        | succ f => rw [readAll_succ, hr]
      · intro hs; rw [a4] at hs; simp at hs
    · constructor
      · intro y i hs; rw [a2] at hs; simp at hs
      · intro _
        refine ⟨acc ++ x, z, d1, ?_⟩
        intro fuel hf
        cases fuel with
        | zero => omega
        | succ f => rw [readAll_succ, hr]

/-! ## concrete checks -/

/-- "h.0", then `n` empty deliveries, then "0.f." -/
def exEmpties (n : Nat) : Source := [([104, 46, 48], none)] ++ List.replicate n ([], none) ++ [([48, 46, 102, 46], none)]

-- a few empty deliveries inside the BODY are harmless …
example : (readAll Armor.params62 none [1] 60 0 (newDecoder (exEmpties 3)) []).1 = [0] ∧
    (readAll Armor.params62 none [1] 60 0 (newDecoder (exEmpties 3)) []).2.1 = none := by decide
-- … but 45 of them exhaust the loop bound `nn + 2` of the MODEL's `dFill` (the Go loop is
-- unbounded): the model then reports a clean EOF with nothing released.  A limitation of the
-- model, outside `SrcOK`.
example : (readAll Armor.params62 none [1] 60 0 (newDecoder (exEmpties 45)) []).1 = [] ∧
    (readAll Armor.params62 none [1] 60 0 (newDecoder (exEmpties 45)) []).2.1 = none := by decide

end Saltpack.Proofs
