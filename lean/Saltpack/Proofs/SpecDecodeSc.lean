/-
  The strict reference decoder against the reference SENDER, signcryption.
  The oracle is handed ONE recipient's key (box secret or symmetric key), so the
  cryptographic layer ties that recipient's entry, the sender secretbox and
  every payload packet to the reference sender; the other recipient entries
  are covered by layer W only (shape, lengths).
-/
import Saltpack.Proofs.SpecDecodeOracle

namespace Saltpack.Proofs.SDW
open Saltpack Saltpack.Msgpack Saltpack.SpecDecode Saltpack.Proofs
open Saltpack.Spec hiding encode

section
variable (P : Prims)

def specScRecv (eph pk : Bytes) (i : Nat) : Signcrypt.Recipient → ScRecv
  | .box pub =>
    let bx := P.box eph pub sNonceDerived (zeros 32)
    let dk := bx.drop (bx.length - 32)
    ⟨(P.hmac sCtxBoxKeyIdentifier (dk ++ sNonceRecip i)).take 32, P.sbSeal dk (sNonceRecip i) pk⟩
  | .sym key ident =>
    ⟨ident, P.sbSeal ((P.hmac sCtxSymmetricKey (P.boxPub eph ++ key)).take 32) (sNonceRecip i) pk⟩

def specScSig (sender : Option Bytes) (hh : Bytes) (i : Nat) (c : Bytes) (f : Bool) : Bytes :=
  match sender with
  | none => zeros 64
  | some s => P.sign s (scSigInput P hh i f c)

def specScPkt (sender : Option Bytes) (pk hh : Bytes) (i : Nat) (c : Bytes) (f : Bool) : ScPkt :=
  ⟨P.sbSeal pk (sHashNonce hh f i) (specScSig P sender hh i c f ++ c), f⟩

def specScSenderPub (sender : Option Bytes) : Bytes :=
  match sender with | none => zeros 32 | some s => P.sigPub s

def specScHdr (sender : Option Bytes) (rs : List Signcrypt.Recipient) (eph pk : Bytes) : ScMsg :=
  ⟨P.boxPub eph, P.sbSeal pk sNonceSenderKey (specScSenderPub P sender),
   rs.zipIdx.map (fun (r, i) => specScRecv P eph pk i r), []⟩

def specScMsg (sender : Option Bytes) (rs : List Signcrypt.Recipient) (eph pk : Bytes) (pl : List (Bytes × Bool)) : ScMsg :=
  let m0 := specScHdr P sender rs eph pk
  { m0 with pkts := pl.zipIdx.map (fun (cf, i) => specScPkt P sender pk (P.hash m0.headerBytes) i cf.1 cf.2) }

theorem specScRecv_toVal (eph pk : Bytes) (i : Nat) (r : Signcrypt.Recipient) :
    (specScRecv P eph pk i r).toVal = scRecipientVal P {} eph pk i r := by
  cases r <;> simp [specScRecv, ScRecv.toVal, scRecipientVal]

theorem specScPkt_encode (sender : Option Bytes) (pk hh : Bytes) (i : Nat) (c : Bytes) (f : Bool) :
    Msgpack.encode (specScPkt P sender pk hh i c f).toVal = scPacket P {} sender pk hh i c f := by
  cases sender <;> simp [specScPkt, ScPkt.toVal, scPacket, specScSig, scSigInput]

/-- the reference sender's signcryption message is the reference encoding of explicit wire fields -/
theorem spec_signcryptPlan_render (sender : Option Bytes) (rs : List Signcrypt.Recipient) (eph pk : Bytes)
    (pl : List (Bytes × Bool)) :
    Spec.signcryptPlan P {} sender rs eph pk pl = (specScMsg P sender rs eph pk pl).render := by
  have hf : (specScHdr P sender rs eph pk).fields =
      [.str sFormatName, versionVal 2 {}, .int sModeSigncryption, .bin (P.boxPub eph),
       .bin (P.sbSeal pk sNonceSenderKey (specScSenderPub P sender)),
       .arr (rs.zipIdx.map (fun x => scRecipientVal P {} eph pk x.2 x.1))] := by
    simp only [specScHdr, ScMsg.fields, commonVals, versionVal, List.map_map, List.cons_append, List.nil_append]
    congr 6
    congr 1
    apply List.map_congr_left
    intro a _
    exact specScRecv_toVal P eph pk a.2 a.1
  unfold ScMsg.render joinMsg
  have hfields : (specScMsg P sender rs eph pk pl).fields = (specScHdr P sender rs eph pk).fields := rfl
  rw [hfields]
  unfold signcryptPlan
  simp only [List.append_nil, Option.getD_none]
  have key : ∀ A : List Val, A = (specScHdr P sender rs eph pk).fields →
      encBin (Msgpack.encode (.arr A)) ++
        pl.zipIdx.flatMap (fun x => scPacket P {} sender pk (P.hash (Msgpack.encode (.arr A))) x.2 x.1.1 x.1.2) =
      encBin (Msgpack.encode (.arr (specScHdr P sender rs eph pk).fields)) ++
        (specScMsg P sender rs eph pk pl).packets.flatMap Msgpack.encode := by
    intro A hA
    subst hA
    refine congrArg (fun t => encBin (Msgpack.encode (.arr (specScHdr P sender rs eph pk).fields)) ++ t) ?_
    simp only [ScMsg.packets, specScMsg, List.flatMap_map]
    apply flatMap_congr'
    intro a _
    obtain ⟨⟨c, f⟩, i⟩ := a
    exact (specScPkt_encode P sender pk _ i c f).symm
  have hf' := hf.symm
  cases sender <;> exact key _ hf'

/-! ### completeness -/

/-- the key handed to the oracle belongs to the recipient at the opener's index -/
def ScKeyFor (key : ScKey) : Option Signcrypt.Recipient → Prop
  | some (.box pub) => ∃ sk, key = .box sk ∧ pub = P.boxPub sk
  | some (.sym k _) => key = .sym k
  | none => False

theorem scRecvKey_spec (hL : P.Lawful) (eph pk : Bytes) (i : Nat) (r : Signcrypt.Recipient) (key : ScKey)
    (hk : ScKeyFor P key (some r)) :
    scRecvKey P (P.boxPub eph) i (specScRecv P eph pk i r) key = .ok pk := by
  cases r with
  | box pub =>
    obtain ⟨sk, rfl, rfl⟩ := hk
    simp only [scRecvKey, specScRecv]
    have hb : P.box sk (P.boxPub eph) sNonceDerived (zeros 32) = P.box eph (P.boxPub sk) sNonceDerived (zeros 32) := by
      unfold Prims.box; rw [hL.dh_comm]
    rw [hb]
    simp [hL.sb_open_seal]
  | sym k ident =>
    simp only [ScKeyFor] at hk
    subst hk
    simp [scRecvKey, specScRecv, hL.sb_open_seal]

theorem zeros_length (n : Nat) : (zeros n).length = n := by simp [zeros]

theorem scPkts_spec (hL : P.Lawful) (sender : Option Bytes) (hs : ∀ s, sender = some s → P.sigPub s ≠ zeros 32)
    (pk hh : Bytes) : ∀ (pl : List (Bytes × Bool)) (k : Nat), PlanOK 2 k pl →
    scPkts P pk hh (specScSenderPub P sender) (isAnon (specScSenderPub P sender)) k
      ((pl.zipIdx k).map (fun (cf, i) => specScPkt P sender pk hh i cf.1 cf.2)) = .ok (pl.map (·.1)) := by
  intro pl
  induction pl with
  | nil => intro k _; rfl
  | cons x xs ih =>
    intro k hp
    obtain ⟨c, f⟩ := x
    obtain ⟨h1, h2, h3⟩ := hp
    simp only [show ¬ ((2:Nat) = 1) by decide, if_false] at h2
    obtain ⟨h2a, h2b⟩ := h2
    simp only [List.zipIdx_cons, List.map_cons, scPkts]
    have hlast : (List.map (fun (x : (Bytes × Bool) × Nat) => specScPkt P sender pk hh x.2 x.1.1 x.1.2) (xs.zipIdx (k + 1))).isEmpty
        = xs.isEmpty := by
      cases xs <;> simp
    rw [hlast]
    have hfl : f = xs.isEmpty := by
      cases f <;> cases xs <;> simp_all
    have hsl : (specScSig P sender hh k c f).length = 64 := by
      cases sender with
      | none => exact zeros_length 64
      | some s => exact hL.sig_len _ _
    have hv : scPkt P pk hh (specScSenderPub P sender) (isAnon (specScSenderPub P sender)) k xs.isEmpty
        (specScPkt P sender pk hh k c f) = .ok c := by
      unfold scPkt
      have e1 : (specScPkt P sender pk hh k c f).final = f := rfl
      have e2 : (specScPkt P sender pk hh k c f).ct = P.sbSeal pk (sHashNonce hh f k) (specScSig P sender hh k c f ++ c) := rfl
      rw [e1, e2, if_neg (by rw [hfl]; simp), hL.sb_open_seal]
      simp only
      rw [if_neg (by rw [List.length_append, hsl]; omega)]
      have t1 : (specScSig P sender hh k c f ++ c).take 64 = specScSig P sender hh k c f := by
        rw [List.take_append_of_le_length (by omega), List.take_of_length_le (by omega)]
      have t2 : (specScSig P sender hh k c f ++ c).drop 64 = c := by
        rw [List.drop_append_of_le_length (by omega), List.drop_of_length_le (by omega)]
        rfl
      rw [t1, t2]
      have hrule : chunkRule 2 k xs.isEmpty f c = .ok () := by
        rw [chunkRule_ok_iff]
        refine ⟨h1, ?_⟩
        simp only [show ¬ ((2:Int) = 1) by decide, if_false]
        exact ⟨hfl, fun hc => ⟨(h2b hc).1, by rw [(h2b hc).2]; rfl⟩⟩
      cases sender with
      | none =>
        have : isAnon (specScSenderPub P none) = true := by simp [isAnon, specScSenderPub]
        rw [this]
        simp only [specScSig, ne_eq, not_true_eq_false, and_false, if_false, Bool.true_eq_false, false_and]
        rw [hrule]
      | some s =>
        have : isAnon (specScSenderPub P (some s)) = false := by
          simp only [isAnon, specScSenderPub, beq_eq_false_iff_ne]
          exact hs s rfl
        rw [this]
        simp only [specScSig, specScSenderPub, hL.verify_sign, Bool.false_eq_true, false_and, if_false,
          not_true_eq_false, and_false]
        rw [hrule]
    rw [hv]
    simp only
    rw [ih (k + 1) h3]

theorem getElem?_zipIdx_map {α β : Type} (l : List α) (g : α × Nat → β) (idx : Nat) :
    ((l.zipIdx 0).map g)[idx]? = (l[idx]?).map (fun a => g (a, idx)) := by
  simp [List.getElem?_map, List.getElem?_zipIdx]
  rfl

/-- **completeness of the cryptographic layer, signcryption** -/
theorem sc_check_complete (hL : P.Lawful) (sender : Option Bytes)
    (hs : ∀ s, sender = some s → P.sigPub s ≠ zeros 32)
    (rs : List Signcrypt.Recipient) (eph pk : Bytes) (pl : List (Bytes × Bool))
    (hpl : PlanOK 2 0 pl) (hpl0 : pl ≠ []) (idx : Nat) (key : ScKey) (hkey : ScKeyFor P key (rs[idx]?)) :
    (specScMsg P sender rs eph pk pl).check P idx key =
      .ok ⟨pk, (match sender with | none => zeros 32 | some s => P.sigPub s), pl.map (·.1)⟩ := by
  unfold ScMsg.check
  have hr : (specScMsg P sender rs eph pk pl).recvs[idx]? =
      (rs[idx]?).map (fun r => specScRecv P eph pk idx r) := getElem?_zipIdx_map rs _ idx
  rw [hr]
  cases hri : rs[idx]? with
  | none => rw [hri] at hkey; exact absurd hkey (by simp [ScKeyFor])
  | some r =>
    rw [hri] at hkey
    simp only [Option.map_some]
    have he : (specScMsg P sender rs eph pk pl).eph = P.boxPub eph := rfl
    have hss : (specScMsg P sender rs eph pk pl).ssb = P.sbSeal pk sNonceSenderKey (specScSenderPub P sender) := rfl
    rw [he, scRecvKey_spec P hL eph pk idx r key hkey]
    simp only
    rw [hss, hL.sb_open_seal]
    simp only
    have hlen : (specScSenderPub P sender).length = 32 := by
      cases sender with
      | none => exact zeros_length 32
      | some s => exact hL.sigPub_len s
    rw [if_neg (by simp [hlen])]
    have hp : (specScMsg P sender rs eph pk pl).pkts ≠ [] := by
      obtain ⟨y, ys, rfl⟩ := List.exists_cons_of_ne_nil hpl0
      simp [specScMsg]
    rw [if_neg hp]
    have := scPkts_spec P hL sender hs pk (P.hash (specScHdr P sender rs eph pk).headerBytes) pl 0 hpl
    have hhb : (specScMsg P sender rs eph pk pl).headerBytes = (specScHdr P sender rs eph pk).headerBytes := rfl
    rw [hhb]
    simp only [specScMsg] at this ⊢
    rw [this]
    cases sender <;> rfl

/-! ### soundness -/

/-- the opener's recipient entry is the reference sender's for that key and payload key -/
def ScRecvFor (eph : Bytes) (i : Nat) (r : ScRecv) (key : ScKey) (pk : Bytes) : Prop :=
  match key with
  | .box sk =>
    let b := P.box sk eph sNonceDerived (zeros 32)
    let dk := b.drop (b.length - 32)
    r.ident = (P.hmac sCtxBoxKeyIdentifier (dk ++ sNonceRecip i)).take 32 ∧ r.box = P.sbSeal dk (sNonceRecip i) pk
  | .sym k => r.box = P.sbSeal ((P.hmac sCtxSymmetricKey (eph ++ k)).take 32) (sNonceRecip i) pk

/-- every payload packet is the reference sender's packet for its chunk and a
    64-byte signature that is all zero (anonymous sender) or verifies under the
    sender key on exactly the specified input -/
def ScPktsOK (pk hh senderPub : Bytes) : Nat → List ScPkt → List Bytes → Prop
  | _, [], [] => True
  | i, p :: ps, c :: cs =>
    (∃ sg, sg.length = 64 ∧ p.ct = P.sbSeal pk (sHashNonce hh p.final i) (sg ++ c) ∧
      (isAnon senderPub = true → sg = zeros 64) ∧
      (isAnon senderPub = false → P.verify senderPub (scSigInput P hh i p.final c) sg = true)) ∧
    ScPktsOK pk hh senderPub (i + 1) ps cs
  | _, _, _ => False

theorem scPkts_sound (hC : OpenCanonical P) (pk hh senderPub : Bytes) :
    ∀ (pkts : List ScPkt) (k : Nat) (chunks : List Bytes),
    scPkts P pk hh senderPub (isAnon senderPub) k pkts = .ok chunks →
    ScPktsOK P pk hh senderPub k pkts chunks ∧
      PlanOK 2 k (List.zipWith (fun c (p : ScPkt) => (c, p.final)) chunks pkts) ∧ chunks.length = pkts.length := by
  intro pkts
  induction pkts with
  | nil => intro k chunks h; simp [scPkts] at h; subst h; simp [ScPktsOK, PlanOK]
  | cons p ps ih =>
    intro k chunks h
    rw [scPkts] at h
    split at h
    · cases h
    · rename_i c hc
      split at h
      · cases h
      · rename_i cs hcs
        injection h with h
        subst h
        obtain ⟨i1, i2, i3⟩ := ih (k + 1) cs hcs
        unfold scPkt at hc
        split at hc
        · cases hc
        · rename_i hfl
          simp only [ne_eq, Decidable.not_not] at hfl
          split at hc
          · cases hc
          · rename_i att hatt
            split at hc
            · cases hc
            · rename_i hlen
              dsimp only at hc
              split at hc
              · cases hc
              · rename_i ha
                split at hc
                · cases hc
                · rename_i hv
                  split at hc
                  · cases hc
                  · rename_i u hu
                    injection hc with hc
                    subst hc
                    have hct := hC _ _ _ _ hatt
                    have hemp : (List.zipWith (fun c (p : ScPkt) => (c, p.final)) cs ps = []) ↔ ps = [] := by
                      cases ps with
                      | nil => simp
                      | cons q qs =>
                        cases cs with
                        | nil => simp at i3
                        | cons _ _ => simp
                    refine ⟨⟨⟨att.take 64, ?_, ?_, ?_, ?_⟩, i1⟩, ?_, by simp [i3]⟩
                    · rw [List.length_take]; omega
                    · rw [List.take_append_drop]; exact hct
                    · intro han
                      simp only [han, true_and, ne_eq, Decidable.not_not] at ha
                      exact ha
                    · intro han
                      simp only [han, Bool.false_eq_true, not_false_eq_true, true_and, Bool.not_eq_true,
                        Bool.not_eq_false] at hv
                      exact hv
                    · simp only [List.zipWith_cons_cons, PlanOK]
                      have hu' := hu
                      rw [chunkRule_ok_iff] at hu'
                      obtain ⟨r1, r2⟩ := hu'
                      simp only [show ¬ ((2:Int) = 1) by decide, if_false] at r2
                      refine ⟨r1, ?_, i2⟩
                      simp only [show ¬ ((2:Nat) = 1) by decide, if_false]
                      rw [hemp]
                      constructor
                      · rw [hfl]; cases ps <;> simp
                      · intro hc0
                        obtain ⟨a, b⟩ := r2.2 hc0
                        exact ⟨a, List.isEmpty_iff.1 b⟩

/-- **soundness of the cryptographic layer, signcryption** (partial: one recipient's key) -/
theorem sc_check_sound (hC : OpenCanonical P) (m : ScMsg) (idx : Nat) (key : ScKey) (o : ScOpened)
    (h : m.check P idx key = .ok o) :
    m.ssb = P.sbSeal o.payloadKey sNonceSenderKey o.senderPub ∧ o.senderPub.length = 32 ∧
      (∃ r, m.recvs[idx]? = some r ∧ ScRecvFor P m.eph idx r key o.payloadKey) ∧
      ScPktsOK P o.payloadKey (P.hash m.headerBytes) o.senderPub 0 m.pkts o.chunks ∧
      PlanOK 2 0 (List.zipWith (fun c (p : ScPkt) => (c, p.final)) o.chunks m.pkts) := by
  unfold ScMsg.check at h
  split at h
  · cases h
  · rename_i r hr
    split at h
    · cases h
    · rename_i pk hpk
      split at h
      · cases h
      · rename_i senderPub hsp
        split at h
        · cases h
        · rename_i hlen
          split at h
          · cases h
          · split at h
            · cases h
            · rename_i chunks hch
              injection h with h
              subst h
              obtain ⟨a1, a2, _⟩ := scPkts_sound P hC pk _ senderPub _ _ _ hch
              refine ⟨hC _ _ _ _ hsp, by simpa using hlen, ⟨r, hr, ?_⟩, a1, a2⟩
              unfold ScRecvFor
              cases key with
              | box sk =>
                simp only [scRecvKey] at hpk
                split at hpk
                · cases hpk
                · rename_i hid
                  split at hpk
                  · rename_i k hk
                    injection hpk with hpk
                    subst hpk
                    simp only [ne_eq, Decidable.not_not] at hid
                    exact ⟨hid, hC _ _ _ _ hk⟩
                  · cases hpk
              | sym k =>
                simp only [scRecvKey] at hpk
                split at hpk
                · rename_i k' hk
                  injection hpk with hpk
                  subst hpk
                  exact hC _ _ _ _ hk
                · cases hpk

end
end Saltpack.Proofs.SDW
