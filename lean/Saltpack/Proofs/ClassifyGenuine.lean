/-
  The armored classifier on genuine messages once the first block is shown
  (behind `C16_armored_genuine_prefix_stable`, audit finding #11): a text that
  begins with a genuine frame line, its period, and alphanumerics-or-spaces `w`
  showing exactly the 43 characters of the first base62 block of a message whose
  first 32 bytes the binary classifier classifies, meets the hypotheses of
  `arm_ok_stable` — so that text and EVERY extension of it are classified with
  that mode, version and brand.
-/
import Saltpack.Proofs.ClassifyStable
import Saltpack.Proofs.ClassifyLemmas

namespace Saltpack.Proofs.ClsStable
open Saltpack Saltpack.Classify Saltpack.Msgpack Saltpack.Armor ClsAux

/-- the frame, its period and alphanumerics-or-spaces `w`: the header expression
    matches the normal form, with the genuine brand and frame type, and captures
    a run showing exactly the non-space characters of `w` -/
theorem frame_block_match (typ : Int) (ht : Armorable typ) (brand : Bytes) (hb : BrandOK brand) (w : Bytes)
    (hw : ∀ c ∈ w, isAlnum c = true ∨ c = Armor.space) :
    ∃ sffx Z, typeString typ = some sffx ∧
      matchHeader (trimSpace (collapse (Armor.header typ brand ++ [Armor.period] ++ w))) = some (brand, sffx, Z) ∧
      charsOf Z = w.filter (· != Armor.space) ∧
      (∀ c ∈ Armor.header typ brand ++ [Armor.period] ++ w, c < 128) := by
  obtain ⟨sffx, hts, hs⟩ := (armorable_sffx typ ht).2
  have hcan := frame_canon _ headerMarker_ok (by decide) typ ht brand hb
  have hF : makeFrame Gen.c_sp_headerMarker typ brand = header typ brand := rfl
  rw [hF] at hcan
  have hcol : collapse (header typ brand ++ [period] ++ w) =
      (header typ brand ++ [period]) ++ collapseAux false w := by
    unfold collapse
    rw [List.append_assoc, collapseAux_append, hcan.2.1 false]
    have hp : isFrameSpace period = false := by decide
    simp [collapseAux, hp]
  have hW : ∀ c ∈ collapseAux false w, isAlnum c = true ∨ c = space := by
    intro c hc
    rcases collapseAux_mem w false c hc with h | h
    · exact hw c h
    · exact Or.inr h
  have hWf : (collapseAux false w).filter (· != space) = w.filter (· != space) :=
    collapseAux_filter w hw false
  obtain ⟨hZ, hZf⟩ := rtrim_facts _ hW
  have hhead : ∀ c ∈ (header typ brand ++ [period]).head?, isTrimSpace c = false := by
    rw [(header_shape typ sffx hts brand).1]
    split <;> (intro c hc; simp [Gen.c_sp_headerMarker] at hc; subst hc; decide)
  have hasc1 : ∀ c ∈ header typ brand ++ [period], c < 128 := by
    intro c hc
    rcases List.mem_append.mp hc with hc | hc
    · exact valid_lt c (hcan.1 c hc)
    · rw [List.mem_singleton] at hc; subst hc; decide
  have htrim := trim_tail (header typ brand ++ [period]) (collapseAux false w) hhead
    (by intro c hc; simp at hc; subst hc; decide) (by simp)
    (by
      intro c hc
      rcases List.mem_append.mp hc with hc | hc
      · exact hasc1 c hc
      · rcases hW c hc with h | h
        · exact alnum_lt c h
        · subst h; decide)
  refine ⟨sffx, rtrim (collapseAux false w), hts, ?_, ?_, ?_⟩
  · rw [hcol, htrim, List.append_assoc, List.singleton_append]
    exact matchHeader_frame typ sffx hts hs brand hb _ hZ
  · unfold charsOf; rw [hZf, hWf]
  · intro c hc
    rcases List.mem_append.mp hc with hc | hc
    · exact hasc1 c hc
    · rcases hw c hc with h | h
      · exact alnum_lt c h
      · subst h; decide

/-- the 43 characters of one full block decode to that block -/
theorem block_chars (M32 : Bytes) (Z : Bytes) (hc : charsOf Z = Basex.encode Gen.base62Std.strict M32)
    (hlen : M32.length = 32) :
    firstBlockOf Z = M32 ∧ 32 ≤ (decOf Z).length := by
  have hwf : Gen.base62Std.strict.WF := Saltpack.Proofs.strict_wf wf62
  have h43 : (Basex.encode Gen.base62Std.strict M32).length = 43 := by
    rw [Saltpack.Proofs.encode_length _ hwf]
    rw [hlen]; decide
  have hfb : firstBlockOf Z = M32 := by
    unfold firstBlockOf
    rw [hc, List.take_of_length_le (by omega), Saltpack.Proofs.decode_encode _ hwf]
  refine ⟨hfb, ?_⟩
  unfold decOf
  rw [decodePrefix_first _ _ (by rw [hc]; omega), hc, List.take_of_length_le (by omega), Saltpack.Proofs.decode_encode _ hwf]
  simp only [List.length_append]
  omega

/-- **a genuine frame, its period and the first block**: the text and every
    extension are classified with what the binary classifier says on the first
    32 bytes, under the genuine brand and frame label -/
theorem arm_genuine_block (typ : Int) (ht : Armorable typ) (brand : Bytes) (hb : BrandOK brand) (w q : Bytes)
    (hw : ∀ c ∈ w, isAlnum c = true ∨ c = Armor.space)
    (M32 : Bytes) (hlen : M32.length = 32)
    (hchars : w.filter (· != Armor.space) = Basex.encode Gen.base62Std.strict M32)
    (r : Int × Version) (hok : binarySlice M32 = .ok r) :
    ∃ sffx, typeString typ = some sffx ∧
      armoredPrefix (Armor.header typ brand ++ [Armor.period] ++ w ++ q) = conclude brand sffx (.ok r) ∧
      armoredPrefix (Armor.header typ brand ++ [Armor.period] ++ w) = conclude brand sffx (.ok r) := by
  obtain ⟨sffx, Z, hts, hm, hcz, hasc⟩ := frame_block_match typ ht brand hb w hw
  obtain ⟨hfb, h32⟩ := block_chars M32 Z (by rw [hcz, hchars]) hlen
  exact ⟨sffx, hts, arm_ok_stable _ q hasc brand sffx Z hm h32 r (by rw [hfb]; exact hok)⟩


/-! ### the beginning of `Armor.seal62` -/

theorem digit62_alnum : ∀ c : UInt8, (Gen.base62Std.digit? c).isSome = true → isAlnum c = true := by
  apply u8_forall
  decide +kernel

theorem filter_alnum (l : Bytes) (h : ∀ c ∈ l, isAlnum c = true) : l.filter (· != Armor.space) = l := by
  rw [List.filter_eq_self]
  intro c hc
  have := h c hc
  have hs : isAlnum Armor.space = false := by decide
  by_cases hcs : c = Armor.space
  · subst hcs; rw [hs] at this; cases this
  · simpa using hcs

theorem encode62_split (M : Bytes) (h : 32 ≤ M.length) :
    Basex.encode params62.enc M = Basex.encode params62.enc (M.take 32) ++ Basex.encode params62.enc (M.drop 32) := by
  have hl : (M.take 32).length = params62.enc.blockLen := by
    rw [List.length_take]; show min 32 M.length = 32; omega
  have h1 := Saltpack.Proofs.encode_append params62.enc wf62 (M.take 32) (M.drop 32) hl
  have h2 := Saltpack.Proofs.encode_append params62.enc wf62 (M.take 32) [] hl
  rw [List.take_append_drop] at h1
  rw [List.append_nil] at h2
  have h0 : Basex.encode params62.enc [] = [] := rfl
  rw [h0, List.append_nil] at h2
  rw [h1, h2]

/-- the first word of a non-empty character string that starts with `c` (shorter than a word) -/
theorem chunks_head_prefix (c R : Bytes) (hc : c.length ≤ 15) (hne : c ++ R ≠ []) :
    ∃ x ws, chunks 15 (c ++ R) = (c ++ x) :: ws := by
  by_cases hl : (c ++ R).length ≤ 15
  · exact ⟨R, [], chunks_short 15 _ hne hl⟩
  · refine ⟨R.take (15 - c.length), chunks 15 ((c ++ R).drop 15), ?_⟩
    rw [chunks_long 15 (by decide) _ (by omega), List.take_append]
    rw [List.take_of_length_le hc]

theorem spaceWords_head (par : Params) (k : Nat) (w : Bytes) (ws : List Bytes) :
    ∃ y, spaceWords par k (w :: ws) = w ++ y := by
  cases ws with
  | nil => exact ⟨[], by simp [spaceWords]⟩
  | cons v vs =>
    exact ⟨[if (k + 1) % par.wordsPerLine = 0 then newline else space] ++ spaceWords par (k + 1) (v :: vs), by
      rw [← List.append_assoc]; rfl⟩

/-- **how every genuine armored message begins**: the frame line, its period,
    then — separated by single spaces — exactly the 43 characters of the first
    base62 block, then the rest -/
theorem seal62_begins (typ : Int) (brand M : Bytes) (h : 32 ≤ M.length) :
    ∃ w rest, Armor.seal62 typ brand M = Armor.header typ brand ++ [Armor.period] ++ w ++ rest ∧
      (∀ c ∈ w, isAlnum c = true ∨ c = Armor.space) ∧
      w.filter (· != Armor.space) = Basex.encode Gen.base62Std.strict (M.take 32) := by
  have hwf := wf62
  have hA : (M.take 32).length = 32 := by rw [List.length_take]; omega
  have h43 : (Basex.encode params62.enc (M.take 32)).length = 43 := by
    rw [Saltpack.Proofs.encode_length _ hwf, hA]; decide
  have hal : ∀ c ∈ Basex.encode params62.enc (M.take 32), isAlnum c = true :=
    fun c hc => digit62_alnum c (encode_chars params62.enc hwf _ c hc)
  generalize hc43 : Basex.encode params62.enc (M.take 32) = c43 at h43 hal
  generalize hR : Basex.encode params62.enc (M.drop 32) = R
  have hchars : Basex.encode params62.enc M = c43.take 15 ++ ((c43.drop 15).take 15 ++ (c43.drop 30 ++ R)) := by
    rw [encode62_split M h, hc43, hR]
    have : c43 = c43.take 15 ++ ((c43.drop 15).take 15 ++ c43.drop 30) := by
      rw [show c43.drop 30 = (c43.drop 15).drop 15 by rw [List.drop_drop], List.take_append_drop, List.take_append_drop]
    conv => lhs; rw [this]
    simp only [List.append_assoc]
  have hla : (c43.take 15).length = 15 := by rw [List.length_take]; omega
  have hlb : ((c43.drop 15).take 15).length = 15 := by rw [List.length_take, List.length_drop]; omega
  have hlc : (c43.drop 30).length = 13 := by rw [List.length_drop]; omega
  obtain ⟨x, ws, hch⟩ := chunks_head_prefix (c43.drop 30) R (by omega) (by
    intro h0
    have := congrArg List.length h0
    rw [List.length_append, hlc] at this
    simp at this)
  have hwords : chunks 15 (Basex.encode params62.enc M) =
      c43.take 15 :: (c43.drop 15).take 15 :: (c43.drop 30 ++ x) :: ws := by
    rw [hchars, chunks_append 15 (by decide) _ _ hla, chunks_append 15 (by decide) _ _ hlb, hch]
  obtain ⟨y, hy⟩ := spaceWords_head params62 2 (c43.drop 30 ++ x) ws
  have hsw : spaceWords params62 0 (chunks 15 (Basex.encode params62.enc M)) =
      c43.take 15 ++ [Armor.space] ++ ((c43.drop 15).take 15 ++ [Armor.space] ++ (c43.drop 30 ++ x ++ y)) := by
    rw [hwords]
    show c43.take 15 ++ [Armor.space] ++ ((c43.drop 15).take 15 ++ [Armor.space] ++
      spaceWords params62 2 ((c43.drop 30 ++ x) :: ws)) = _
    rw [hy]
  refine ⟨[Armor.space] ++ c43.take 15 ++ [Armor.space] ++ (c43.drop 15).take 15 ++ [Armor.space] ++ c43.drop 30, ?_, ?_, ?_, ?_⟩
  · exact x ++ y ++ (let words := chunks 15 (Basex.encode params62.enc M)
      let lastLen := (words.getLast?.getD []).length
      let nWords := if words.isEmpty then 1 else words.length
      (if lastLen = 15 then (if nWords % 200 = 0 then [newline] else [space]) else [])) ++
        [period, space] ++ footer typ brand ++ [period, newline]
  · unfold seal62 sealText
    show header typ brand ++ [period, space] ++ spaceWords params62 0 (chunks 15 (Basex.encode params62.enc M)) ++ _ ++
      [period, space] ++ footer typ brand ++ [period, newline] = _
    rw [hsw]
    simp only [List.append_assoc, List.cons_append, List.nil_append]
    rfl
  · intro c hc
    simp only [List.mem_append, List.mem_singleton] at hc
    rcases hc with ((((h1 | h1) | h1) | h1) | h1) | h1
    · exact Or.inr h1
    · exact Or.inl (hal c (List.mem_of_mem_take h1))
    · exact Or.inr h1
    · exact Or.inl (hal c (List.mem_of_mem_drop (List.mem_of_mem_take h1)))
    · exact Or.inr h1
    · exact Or.inl (hal c (List.mem_of_mem_drop h1))
  · have hs : [Armor.space].filter (· != Armor.space) = [] := by decide
    simp only [List.filter_append, hs, List.nil_append, List.append_nil]
    rw [filter_alnum _ (fun c hc => hal c (List.mem_of_mem_take hc)),
      filter_alnum _ (fun c hc => hal c (List.mem_of_mem_drop (List.mem_of_mem_take hc))),
      filter_alnum _ (fun c hc => hal c (List.mem_of_mem_drop hc))]
    rw [← hc43]
    show _ = Basex.encode params62.enc (M.take 32)
    rw [hc43]
    rw [show c43.drop 30 = (c43.drop 15).drop 15 by rw [List.drop_drop], List.append_assoc, List.take_append_drop,
      List.take_append_drop]


/-- the frame type a sender armors mode `t` with (`Armor62Seal` callers:
    encryption and signcryption → ENCRYPTED MESSAGE, attached → SIGNED MESSAGE,
    detached → DETACHED SIGNATURE) -/
def armorTypeOf (t : Int) : Int :=
  if t = mtAttached then mtAttached else if t = mtDetached then mtDetached else mtEncryption

theorem conclude_genuine (brand : Bytes) (t : Int) (v : Version) (hm : isMode t = true) (sffx : Bytes)
    (hs : typeString (armorTypeOf t) = some sffx) : conclude brand sffx (.ok (t, v)) = .ok (brand, t, v) := by
  rcases isMode_cases t hm with rfl | rfl | rfl | rfl
  all_goals
    have : sffx = _ := (Option.some.inj hs).symm
    subst this
    rfl

/-- **every genuine armored message, every prefix from the first block on, every
    extension**: `Armor.seal62` (frame type of the mode, any brand of ≤ 128
    alphanumerics) of a binary message with a spec-following header start (as in
    `bin_correct`) and at least 32 bytes -/
theorem arm_genuine_prefix_stable (brand : Bytes) (hb : BrandOK brand)
    (btag atag tail : Bytes) (hbt : IsBinTag btag) (hat : IsArrTag atag)
    (ma mi t : Nat) (hma : ma < 128) (hmi : mi < 128) (ht : isMode (t : Int) = true)
    (hlen : 32 ≤ (btag ++ atag ++ encode (.str Gen.c_sp_FormatName) ++ encode (.arr [.int ma, .int mi]) ++ encode (.int t) ++ tail).length) :
    let M := btag ++ atag ++ encode (.str Gen.c_sp_FormatName) ++ encode (.arr [.int ma, .int mi]) ++ encode (.int t) ++ tail
    let text := Armor.seal62 (armorTypeOf t) brand M
    ∃ w rest sffx payload,
      text = Armor.header (armorTypeOf t) brand ++ [Armor.period] ++ w ++ rest ∧
      (w.filter (· != Armor.space)).length = 43 ∧
      -- the shortest prefix showing the first block meets the hypotheses of `arm_ok_stable`
      (∀ c ∈ Armor.header (armorTypeOf t) brand ++ [Armor.period] ++ w, c < 128) ∧
      matchHeader (trimSpace (collapse (Armor.header (armorTypeOf t) brand ++ [Armor.period] ++ w))) =
        some (brand, sffx, payload) ∧
      32 ≤ (decOf payload).length ∧
      binarySlice (firstBlockOf payload) = .ok ((t : Int), ⟨ma, mi⟩) ∧
      -- every prefix that contains it, and every extension of such a prefix by arbitrary bytes
      (∀ k, (Armor.header (armorTypeOf t) brand ++ [Armor.period] ++ w).length ≤ k → ∀ q,
        armoredPrefix (text.take k ++ q) = .ok (brand, (t : Int), ⟨ma, mi⟩)) := by
  intro M text
  have hty : Armorable (armorTypeOf t) := by
    unfold armorTypeOf Armorable
    split
    · exact Or.inr (Or.inl rfl)
    · split
      · exact Or.inr (Or.inr rfl)
      · exact Or.inl rfl
  obtain ⟨w, rest, htext, hw, hchars⟩ := seal62_begins (armorTypeOf t) brand M hlen
  have hlenM : 32 ≤ M.length := hlen
  have h32 : (M.take 32).length = 32 := by rw [List.length_take]; omega
  have hok : binarySlice (M.take 32) = .ok ((t : Int), ⟨ma, mi⟩) :=
    bin_correct_prefix btag atag tail hbt hat ma mi t hma hmi ht 32 (by omega) (by omega)
  obtain ⟨sffx, Z, hts, hm, hcz, hasc⟩ := frame_block_match (armorTypeOf t) hty brand hb w hw
  obtain ⟨hfb, hd32⟩ := block_chars (M.take 32) Z (by rw [hcz, hchars]) h32
  have hwf : Gen.base62Std.strict.WF := Saltpack.Proofs.strict_wf wf62
  refine ⟨w, rest, sffx, Z, htext, ?_, hasc, hm, hd32, by rw [hfb]; exact hok, ?_⟩
  · rw [hchars, Saltpack.Proofs.encode_length _ hwf, h32]; decide
  · intro k hk q
    have hp : text.take k = (Armor.header (armorTypeOf t) brand ++ [Armor.period] ++ w) ++ rest.take (k - (Armor.header (armorTypeOf t) brand ++ [Armor.period] ++ w).length) := by
      show (Armor.seal62 (armorTypeOf t) brand M).take k = _
      rw [htext, List.take_append, List.take_of_length_le hk]
    rw [hp, List.append_assoc]
    have := (arm_ok_stable _ (rest.take (k - (Armor.header (armorTypeOf t) brand ++ [Armor.period] ++ w).length) ++ q)
      hasc brand sffx Z hm hd32 ((t : Int), ⟨ma, mi⟩) (by rw [hfb]; exact hok)).1
    rw [this]
    exact conclude_genuine brand t ⟨ma, mi⟩ ht sffx hts

end Saltpack.Proofs.ClsStable
