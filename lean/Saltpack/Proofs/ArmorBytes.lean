/-
  Helper lemmas for Proofs/ArmorRT: byte classes of the base62 armor alphabet
  (256-case kernel evaluations).
-/
import Saltpack.Model.Armor
import Saltpack.Proofs.Basex
import Saltpack.Proofs.Digits

namespace Saltpack.Proofs
open Saltpack Saltpack.Armor

/-! ### byte classes -/

theorem u8_forall (P : UInt8 → Prop) (h : ∀ n, n < 256 → P (UInt8.ofNat n)) (c : UInt8) : P c := by
  have := h c.toNat (UInt8.toNat_lt c)
  simpa using this

theorem period_invalid : validByte params62 period = false := by decide

theorem space_valid : validByte params62 space = true := by decide
theorem newline_valid : validByte params62 newline = true := by decide

/-- the frame-space characters are exactly the skip characters of base62Std, and
    none of them is in the alphabet -/
theorem frameSpace_iff_skip (c : UInt8) : isFrameSpace c = params62.enc.isSkip c := by
  revert c
  apply u8_forall
  decide +kernel

theorem skip_not_digit (c : UInt8) (h : params62.enc.isSkip c = true) : params62.enc.digit? c = none := by
  revert c
  apply u8_forall
  decide +kernel

theorem frameSpace_valid (c : UInt8) (h : isFrameSpace c = true) : validByte params62 c = true := by
  unfold validByte
  rw [← frameSpace_iff_skip, h, Bool.or_true]

/-- among the valid bytes, ASCII white space is frame space (VT and FF are not valid) -/
theorem valid_trim_frame (c : UInt8) (hv : validByte params62 c = true) (ht : isTrimSpace c = true) :
    isFrameSpace c = true := by
  revert c
  apply u8_forall
  decide +kernel

/-- alphanumeric bytes (brand characters) are alphabet characters, hence valid
    and neither frame space nor white space -/
theorem alnum_facts (c : UInt8)
    (h : (48 ≤ c ∧ c ≤ 57) ∨ (65 ≤ c ∧ c ≤ 90) ∨ (97 ≤ c ∧ c ≤ 122)) :
    (params62.enc.digit? c).isSome = true ∧ isFrameSpace c = false ∧ isTrimSpace c = false ∧
      (c == space) = false := by
  revert c
  apply u8_forall
  decide +kernel

theorem digit_facts (c : UInt8) (h : (params62.enc.digit? c).isSome = true) :
    validByte params62 c = true ∧ isFrameSpace c = false ∧ isTrimSpace c = false ∧
      (c == space) = false ∧ params62.enc.isSkip c = false := by
  revert c
  apply u8_forall
  decide +kernel

/-- valid armor bytes (alphabet and skip characters) are ASCII -/
theorem valid_lt (c : UInt8) (hv : validByte params62 c = true) : c < 128 := by
  revert c
  apply u8_forall
  decide +kernel

theorem digit_lt (c : UInt8) (h : (params62.enc.digit? c).isSome = true) : c < 128 := by
  revert c
  apply u8_forall
  decide +kernel

end Saltpack.Proofs
