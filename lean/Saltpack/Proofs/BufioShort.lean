/-
  The bufio machine on a SHORT stream that ends in EOF (Model/Bufio.lean).

  `Peek(size)` on a stream shorter than the buffer reports `io.EOF` together
  with all the bytes and FORGETS the condition (`readErr`); the next `Peek`
  (`IsSaltpackBinary` after `IsSaltpackArmored`) and the later `Read`s ask the
  underlying reader again.  What they get depends on the reader: the theorems
  need the script to be EOF-STICKY (`EofSticky`: after a delivery that carries
  `io.EOF` every later read is `(0, io.EOF)`, as for every reader that keeps
  answering EOF at its end — a script that simply ends is such a reader, the
  exhausted script answers `(0, EOF)` forever).  A machine-checked
  counterexample without that hypothesis is in Props/C16More.lean.

  Behind Props/C16More.lean.
-/
import Saltpack.Proofs.Bufio

namespace Saltpack.Proofs.BufioP
open Saltpack Saltpack.Stream Saltpack.Bufio Saltpack.Classify

/-- every scripted read is `(0, io.EOF)` -/
def AllEof (src : Source) : Prop := ∀ p ∈ src, p = (([] : Bytes), some RErr.eof)

/-- `io.EOF` is sticky in the script: once a delivery carried it, all later
    reads are `(0, io.EOF)` (errors other than EOF may be transient) -/
def EofSticky : Source → Prop
  | [] => True
  | (_, some .eof) :: rest => AllEof rest
  | (_, _) :: rest => EofSticky rest

theorem allEof_sticky : ∀ (src : Source), AllEof src → EofSticky src := by
  intro src
  induction src with
  | nil => intro _; trivial
  | cons p rest ih =>
    intro h
    have hp := h p (by simp)
    have hr : AllEof rest := fun q hq => h q (List.mem_cons_of_mem _ hq)
    subst hp
    exact hr

theorem allEof_total (src : Source) (h : AllEof src) : total src = ([], .eof) := by
  cases src with
  | nil => rfl
  | cons p rest =>
    have hp := h p (by simp)
    subst hp
    rfl

theorem sticky_tail (d : Bytes) (e : Option RErr) (rest : Source) (h : EofSticky ((d, e) :: rest)) :
    EofSticky rest ∧ (e = some .eof → AllEof rest) := by
  cases e with
  | none => exact ⟨h, fun h0 => by cases h0⟩
  | some x =>
    cases x with
    | eof => exact ⟨allEof_sticky rest h, fun _ => h⟩
    | err z => exact ⟨h, fun h0 => by cases h0⟩

theorem sticky_head (d d' : Bytes) (e : Option RErr) (rest : Source) (h : EofSticky ((d, e) :: rest)) :
    EofSticky ((d', e) :: rest) := by
  cases e with
  | none => exact h
  | some x =>
    cases x with
    | eof => exact h
    | err z => exact h

/-- one underlying read keeps the script EOF-sticky; a read that reports EOF
    leaves only `(0, EOF)` reads -/
theorem srcRead_sticky (cap : Nat) (src : Source) (hs : EofSticky src)
    (d : Bytes) (e : Option RErr) (src' : Source) (h : srcRead cap src = (d, e, src')) :
    EofSticky src' ∧ (e = some .eof → AllEof src') := by
  cases src with
  | nil =>
    simp only [srcRead, Prod.mk.injEq] at h
    obtain ⟨_, _, rfl⟩ := h
    exact ⟨trivial, fun _ p hp => by cases hp⟩
  | cons hd rest =>
    obtain ⟨D, E⟩ := hd
    by_cases hl : D.length ≤ cap
    · simp only [srcRead, hl, if_true, Prod.mk.injEq] at h
      obtain ⟨_, rfl, rfl⟩ := h
      exact sticky_tail D E rest hs
    · simp only [srcRead, hl, if_false, Prod.mk.injEq] at h
      obtain ⟨_, rfl, rfl⟩ := h
      exact ⟨sticky_head D _ E rest hs, fun h0 => by cases h0⟩

/-- the part of the machine state the stickiness argument needs -/
def StickyInv (s : BState) : Prop :=
  EofSticky s.src ∧ (s.err = some (.src .eof) → AllEof s.src)

theorem fillLoop_sticky : ∀ (i : Nat) (s : BState), s.err = none → EofSticky s.src → StickyInv (fillLoop i s) := by
  intro i
  induction i with
  | zero => intro s _ hs; exact ⟨hs, fun h => by simp [fillLoop] at h⟩
  | succ i ih =>
    intro s he hs
    rw [fillLoop]
    generalize hsr : srcRead (s.size - s.buf.length) s.src = res
    obtain ⟨d, e, src'⟩ := res
    obtain ⟨h1, h2⟩ := srcRead_sticky _ s.src hs d e src' hsr
    simp only
    cases e with
    | some x =>
      simp only
      refine ⟨h1, fun hx => ?_⟩
      simp only [Option.some.injEq, BErr.src.injEq] at hx
      exact h2 (by rw [hx])
    | none =>
      simp only
      split
      · exact ⟨h1, fun hx => by simp [he] at hx⟩
      · exact ih _ he h1

theorem peekLoop_sticky (n : Nat) : ∀ (fuel : Nat) (s : BState), StickyInv s → StickyInv (peekLoop n fuel s) := by
  intro fuel
  induction fuel with
  | zero => intro s h; exact h
  | succ fuel ih =>
    intro s h
    rw [peekLoop]
    split
    · rename_i hc
      exact ih _ (fillLoop_sticky _ s hc.2.2 h.1)
    · exact h

/-- `Peek` keeps the stickiness invariant; when it REPORTS `io.EOF` only
    `(0, EOF)` reads are left in the script -/
theorem peek_sticky (n : Nat) (s : BState) (hs : StickyInv s)
    (out : Bytes) (e : Option BErr) (s' : BState) (h : peek n s = (out, e, s')) :
    StickyInv s' ∧ (e = some (.src .eof) → AllEof s'.src) := by
  have h1 := peekLoop_sticky n (s.size + 1) s hs
  unfold peek at h
  simp only at h
  split at h
  · simp only [Prod.mk.injEq] at h
    obtain ⟨_, rfl, rfl⟩ := h
    exact ⟨h1, fun h0 => by cases h0⟩
  · split at h
    · simp only [Prod.mk.injEq] at h
      obtain ⟨_, rfl, rfl⟩ := h
      refine ⟨⟨h1.1, fun h0 => by cases h0⟩, fun h0 => ?_⟩
      apply h1.2
      cases he : (peekLoop n (s.size + 1) s).err with
      | none => rw [he] at h0; simp at h0
      | some x => rw [he] at h0; simpa using h0
    · simp only [Prod.mk.injEq] at h
      obtain ⟨_, rfl, rfl⟩ := h
      exact ⟨h1, fun h0 => by cases h0⟩

theorem sticky_new (src : Source) (size : Nat) (h : EofSticky src) : StickyInv (newReaderSize src size) :=
  ⟨h, fun h0 => by simp [newReaderSize] at h0⟩

/-- a `Peek(n)` with `n ≤ size` on a stream that ends in EOF before `n` bytes:
    all the bytes and EOF are returned, the condition is forgotten, and the view
    is what it was -/
theorem peek_short_eof (n : Nat) (s : BState) (hi : Inv s) (hs : StickyInv s) (all : Bytes)
    (hv : view s = (all, .src .eof)) (hshort : all.length < n) (hn : n ≤ s.size)
    (out : Bytes) (e : Option BErr) (s' : BState) (h : peek n s = (out, e, s')) :
    out = all ∧ e = some (.src .eof) ∧ Inv s' ∧ StickyInv s' ∧ s'.size = s.size ∧ view s' = view s := by
  obtain ⟨hi1, hs1, hnone, hfullc, hcond⟩ := peek_view n s hi out e s' h
  obtain ⟨hst, hall⟩ := peek_sticky n s hs out e s' h
  cases e with
  | none =>
    exfalso
    obtain ⟨ho, hl, _, _⟩ := hnone rfl
    rw [hv] at ho
    have := congrArg List.length ho
    rw [List.length_take] at this
    simp only at this
    omega
  | some x =>
    cases x with
    | bufferFull => exfalso; have := (hfullc rfl).1; omega
    | noProgress =>
      exfalso
      obtain ⟨hv', _⟩ := hcond _ rfl (by simp)
      rw [hv] at hv'
      simp at hv'
    | src y =>
      obtain ⟨hv', herr, hbuf, _, _⟩ := hcond _ rfl (by simp)
      rw [hv] at hv'
      simp only [Prod.mk.injEq, BErr.src.injEq] at hv'
      obtain ⟨rfl, rfl⟩ := hv'
      refine ⟨rfl, rfl, hi1, hst, hs1, ?_⟩
      rw [hv]
      simp only [view, herr, hbuf, allEof_total s'.src (hall rfl), List.append_nil]

/-- **machine = pure function on a short stream ending in EOF, nothing
    consumed**: `ClassifyStream` answers what the pure `classifyStream size`
    answers on the bytes of the stream, and afterwards the reader still delivers
    exactly those bytes and EOF -/
theorem classify_short_eof (s : BState) (hi : Inv s) (hs : StickyInv s) (all : Bytes)
    (hv : view s = (all, .src .eof)) (hshort : all.length < s.size) :
    Inv (classifyStreamM s).2 ∧ StickyInv (classifyStreamM s).2 ∧ view (classifyStreamM s).2 = view s ∧
    (classifyStreamM s).1 = .v (classifyStream s.size all) := by
  rw [classifyStreamM_eq]
  -- the armored peek: everything, with EOF
  have harm : ∃ s1, isSaltpackArmored s =
      ((if all.isEmpty then MVerdict.v Verdict.eof else .v (armoredPrefix all)), s1) ∧
      Inv s1 ∧ StickyInv s1 ∧ s1.size = s.size ∧ view s1 = view s := by
    unfold isSaltpackArmored
    generalize hpk : peek s.size s = res
    obtain ⟨out, e, s1⟩ := res
    obtain ⟨rfl, rfl, hi1, hst1, hs1, hv1⟩ := peek_short_eof s.size s hi hs all hv hshort (Nat.le_refl _) out e s1 hpk
    simp only
    refine ⟨s1, ?_, hi1, hst1, hs1, hv1⟩
    by_cases he : out.isEmpty = true
    · simp [he]
    · simp [he]
  obtain ⟨s1, ha, hi1, hst1, hs1, hv1⟩ := harm
  rw [ha]
  have htake : all.take s.size = all := List.take_of_length_le (by omega)
  -- the binary continuation
  have hbin : Inv (binCont s1).2 ∧ StickyInv (binCont s1).2 ∧ view (binCont s1).2 = view s ∧
      (binCont s1).1 = .v (if s.size < minLen then .short else if all.length < minLen then .eof else
        match binarySlice (all.take minLen) with
        | .ok (t, v) => .ok (false, [], t, v)
        | .short => .short
        | .eof => .eof
        | .notSaltpack => .notSaltpack
        | .unmodelled w => .unmodelled w) := by
    unfold binCont isSaltpackBinary
    generalize hpk : peek minLen s1 = res
    obtain ⟨out, e, s2⟩ := res
    obtain ⟨hi2, hs2, hnone, hfullc, hcond⟩ := peek_view minLen s1 hi1 out e s2 hpk
    obtain ⟨hst2, _⟩ := peek_sticky minLen s1 hst1 out e s2 hpk
    simp only
    cases e with
    | none =>
      obtain ⟨ho, hl, hv2, hle⟩ := hnone rfl
      rw [hv1, hv] at ho
      simp only at ho
      have hlen : ¬ all.length < minLen := by
        have := congrArg List.length ho
        rw [List.length_take, hl] at this
        omega
      simp only
      rw [if_neg (by omega), if_neg hlen, ho]
      refine ⟨?_, ?_, ?_, ?_⟩
      · cases binarySlice (all.take minLen) <;> first | exact hi2 | (rename_i x; cases x; exact hi2)
      · cases binarySlice (all.take minLen) <;> first | exact hst2 | (rename_i x; cases x; exact hst2)
      · cases binarySlice (all.take minLen) <;> first | (rw [hv2, hv1]) | (rename_i x; cases x; rw [hv2, hv1])
      · cases binarySlice (all.take minLen) <;> first | rfl | (rename_i x; cases x; rfl)
    | some x =>
      cases x with
      | bufferFull =>
        obtain ⟨hn, hv2, _⟩ := hfullc rfl
        simp only
        rw [if_pos (by omega)]
        exact ⟨hi2, hst2, by rw [hv2, hv1], rfl⟩
      | noProgress =>
        exfalso
        obtain ⟨hv', _⟩ := hcond _ rfl (by simp)
        rw [hv1, hv] at hv'
        simp at hv'
      | src y =>
        obtain ⟨hv', _, _, hlt, hle⟩ := hcond _ rfl (by simp)
        rw [hv1, hv] at hv'
        simp only [Prod.mk.injEq, BErr.src.injEq] at hv'
        obtain ⟨rfl, rfl⟩ := hv'
        obtain ⟨_, _, _, _, _, hv2⟩ := peek_short_eof minLen s1 hi1 hst1 all (by rw [hv1, hv]) hlt hle all _ s2 hpk
        simp only [ofCond]
        rw [if_neg (by omega), if_pos hlt]
        exact ⟨hi2, hst2, by rw [hv2, hv1], rfl⟩
  unfold classifyStream
  simp only [htake]
  by_cases hemp : all.isEmpty = true
  · simp only [hemp, if_true]
    refine ⟨hbin.1, hbin.2.1, hbin.2.2.1, ?_⟩
    rw [hbin.2.2.2]
    by_cases h1 : s.size < minLen
    · simp [h1]
    · by_cases h2 : all.length < minLen
      · simp [h1, h2]
      · simp only [h1, h2, if_false]
        cases binarySlice (all.take minLen) <;> first | rfl | (rename_i x; cases x; rfl)
  · simp only [hemp, Bool.false_eq_true, if_false]
    cases harmv : armoredPrefix all with
    | ok x => obtain ⟨b, t, v⟩ := x; exact ⟨hi1, hst1, hv1, rfl⟩
    | short => exact ⟨hi1, hst1, hv1, rfl⟩
    | unmodelled w => exact ⟨hi1, hst1, hv1, rfl⟩
    | eof => exact absurd harmv (armoredPrefix_ne_eof _)
    | notSaltpack =>
      refine ⟨hbin.1, hbin.2.1, hbin.2.2.1, ?_⟩
      rw [hbin.2.2.2]
      by_cases h1 : s.size < minLen
      · simp [h1]
      · by_cases h2 : all.length < minLen
        · simp [h1, h2]
        · simp only [h1, h2, if_false]
          cases binarySlice (all.take minLen) <;> first | rfl | (rename_i x; cases x; rfl)

/-- **every stream that ends in EOF, short or long**: fresh
    `NewReaderSize(src, size)`, any EOF-sticky script without `(0, nil)` reads
    whose first condition is EOF, any read size: the verdict is the pure function
    of the source's bytes, and draining afterwards yields EXACTLY those bytes and
    EOF -/
theorem classify_then_drain_eof (src : Source) (size cap fuel : Nat) (hp : Progress src) (hst : EofSticky src)
    (heof : (total src).2 = .eof) (hcap : 0 < cap) (hfuel : (total src).1.length + 1 ≤ fuel) :
    let r := classifyStreamM (newReaderSize src size)
    r.1 = .v (classifyStream (max size minReadBufferSize) (total src).1) ∧
    (drain cap fuel r.2 []).1 = (total src).1 ∧
    (drain cap fuel r.2 []).2.1 = some (.src .eof) := by
  by_cases hfull : max size minReadBufferSize ≤ (total src).1.length
  · have := classify_then_drain src size cap fuel hp hcap hfull hfuel
    rw [heof] at this
    exact this
  · have hi := inv_new src size hp
    have hvw := view_new src size
    rw [heof] at hvw
    have hsz : (newReaderSize src size).size = max size minReadBufferSize := rfl
    obtain ⟨hi1, _, hv1, hr⟩ := classify_short_eof (newReaderSize src size) hi (sticky_new src size hst)
      (total src).1 hvw (by rw [hsz]; omega)
    rw [hsz] at hr
    obtain ⟨a, b⟩ := drain_view cap hcap fuel (classifyStreamM (newReaderSize src size)).2 [] hi1
      (by rw [hv1, hvw]; exact hfuel)
    rw [hv1, hvw] at a b
    exact ⟨hr, by simpa using a, b⟩

end Saltpack.Proofs.BufioP
