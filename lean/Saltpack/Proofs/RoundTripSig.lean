/-
  Round trips at packet level for attached / detached signatures (behind
  Props/C05, C07) and signcryption (behind Props/C03).
-/
import Saltpack.Model.Sign
import Saltpack.Model.Signcrypt
import Saltpack.Proofs.ChunkPlan
import Saltpack.Proofs.Receiver
import Saltpack.Proofs.RoundTripEnc

namespace Saltpack.Proofs
open Saltpack Saltpack.Encrypt

/-! Helper lemmas live in `Saltpack.Proofs.RTSig`; the eight statements of this
  file are in `Saltpack.Proofs`. -/
namespace RTSig

/-! ## generic: a run over blocks that match a plan position by position -/

theorem grun_zip {β : Type} (step : β → Nat → Except Err Bytes) (fin : β → Bool) :
    ∀ (blks : List β) (plan : List (Bytes × Bool)) (n : Nat),
      blks.length = plan.length → plan ≠ [] →
      (∀ k b p, blks[k]? = some b → plan[k]? = some p → step b (n + k) = .ok p.1 ∧ fin b = p.2) →
      (∀ k p, plan[k]? = some p → (p.2 = true ↔ k + 1 = plan.length)) →
      grun step fin (blks.map some) .eof n = ⟨(plan.map (·.1)).flatten, none⟩ := by
  intro blks
  induction blks with
  | nil =>
    intro plan n hl hne
    cases plan with
    | nil => exact absurd rfl hne
    | cons p pt => simp at hl
  | cons b bt ih =>
    intro plan n hl hne hstep hfin
    cases plan with
    | nil => exact absurd rfl hne
    | cons p pt =>
      have h0 := hstep 0 b p rfl rfl
      have hf0 := hfin 0 p rfl
      simp only [List.length_cons, Nat.add_right_cancel_iff] at hl
      by_cases hpt : pt = []
      · subst hpt
        have hbt : bt = [] := List.length_eq_zero_iff.mp hl
        subst hbt
        have hf : fin b = true := by rw [h0.2]; exact hf0.2 rfl
        show grun step fin (some b :: []) .eof n = _
        rw [grun_final step fin b [] .eof n p.1 h0.1 hf]
        simp [Decrypt.endOfStream]
      · have hlen : 0 < pt.length := List.length_pos_iff.mpr hpt
        have hf : fin b = false := by
          rw [h0.2]
          cases h2 : p.2 with
          | false => rfl
          | true =>
            have := hf0.1 h2
            simp only [List.length_cons] at this
            omega
        show grun step fin (some b :: bt.map some) .eof n = _
        rw [grun_more step fin b _ .eof n p.1 h0.1 hf]
        rw [ih pt (n + 1) hl hpt ?_ ?_]
        · simp
        · intro k b' p' hb' hp'
          have := hstep (k + 1) b' p' (by simpa using hb') (by simpa using hp')
          rw [show n + 1 + k = n + (k + 1) by omega]
          exact this
        · intro k p' hp'
          have := hfin (k + 1) p' (by simpa using hp')
          simp only [List.length_cons] at this
          rw [this]
          omega

/-- index form of `chunkPlan_final` -/
theorem chunkPlan_final_idx (v : Version) (bs : Nat) (pt : Bytes) :
    ∀ k p, (chunkPlan v bs pt)[k]? = some p → (p.2 = true ↔ k + 1 = (chunkPlan v bs pt).length) := by
  obtain ⟨pre, c, h, hpre⟩ := chunkPlan_final v bs pt
  rw [h]
  intro k p hk
  by_cases hlt : k < pre.length
  · rw [List.getElem?_append_left hlt] at hk
    have hm : p ∈ pre := List.mem_of_getElem? hk
    have := hpre p hm
    simp [this]
    omega
  · rw [List.getElem?_append_right (by omega)] at hk
    have hk0 : k - pre.length = 0 := by
      by_cases h0 : k - pre.length = 0
      · exact h0
      · rw [List.getElem?_eq_none (by simp; omega)] at hk
        cases hk
    rw [hk0] at hk
    simp at hk
    subst hk
    simp
    omega

theorem chunkPlan_ne_nil (v : Version) (bs : Nat) (pt : Bytes) : chunkPlan v bs pt ≠ [] := by
  obtain ⟨pre, c, h, _⟩ := chunkPlan_final v bs pt
  rw [h]; simp


/-! ## attached signatures -/

theorem attachedInput_ok (P : Prims) (v : Version) (hv : v = v1 ∨ v = v2) (hh c : Bytes) (i : Nat) (f : Bool) :
    ∃ inp, attachedSignatureInput P v hh c i f = .ok inp := by
  rcases hv with rfl | rfl <;> simp [attachedSignatureInput, v1, v2]

theorem sign_blockStructs_spec (P : Prims) (v : Version) (signer hh : Bytes) :
    ∀ (plan : List (Bytes × Bool)) (i : Nat) (blks : List SigBlock),
      Sign.blockStructs P v signer hh plan i = .ok blks →
      blks.length = plan.length ∧
      ∀ k b p, blks[k]? = some b → plan[k]? = some p →
        ∃ inp, attachedSignatureInput P v hh p.1 (i + k) p.2 = .ok inp ∧
          b = ⟨P.sign signer inp, p.1, p.2⟩ := by
  intro plan
  induction plan with
  | nil =>
    intro i blks h
    simp only [Sign.blockStructs, Except.ok.injEq] at h
    subst h
    simp
  | cons p pt ih =>
    intro i blks h
    obtain ⟨c, f⟩ := p
    simp only [Sign.blockStructs] at h
    split at h
    · rename_i b bs' hb hbs'
      simp only [Except.ok.injEq] at h
      subst h
      obtain ⟨hl, hk⟩ := ih (i + 1) bs' hbs'
      refine ⟨by simp [hl], ?_⟩
      intro k b' p' hb' hp'
      cases k with
      | zero =>
        simp only [List.getElem?_cons_zero, Option.some.injEq] at hb' hp'
        subst hb' hp'
        unfold Sign.blockStruct at hb
        split at hb
        · cases hb
        · rename_i inp hinp
          simp only [Except.ok.injEq] at hb
          exact ⟨inp, hinp, hb.symm⟩
      | succ k =>
        simp only [List.getElem?_cons_succ] at hb' hp'
        have := hk k b' p' hb' hp'
        rw [show i + (k + 1) = i + 1 + k by omega]
        exact this
    · cases h
    · cases h

theorem sign_blockStructs_ok (P : Prims) (v : Version) (hv : v = v1 ∨ v = v2) (signer hh : Bytes) :
    ∀ (plan : List (Bytes × Bool)) (i : Nat), ∃ blks, Sign.blockStructs P v signer hh plan i = .ok blks := by
  intro plan
  induction plan with
  | nil => intro i; exact ⟨[], rfl⟩
  | cons p pt ih =>
    intro i
    obtain ⟨c, f⟩ := p
    obtain ⟨blks, hb⟩ := ih (i + 1)
    obtain ⟨inp, hinp⟩ := attachedInput_ok P v hv hh c i f
    refine ⟨⟨P.sign signer inp, c, f⟩ :: blks, ?_⟩
    simp [Sign.blockStructs, Sign.blockStruct, hinp, hb]

/-- the verifier accepts the signer's block at its position -/
theorem ver_step_ok (P : Prims) (hP : P.Lawful) (v : Version) (hv : v = v1 ∨ v = v2)
    (signer hh c : Bytes) (f : Bool) (k : Nat) (inp : Bytes)
    (hinp : attachedSignatureInput P v hh c k f = .ok inp)
    (h1 : v = v1 → (c = [] ↔ f = true))
    (h2 : v = v2 → c = [] → k = 0 ∧ f = true) :
    Ver.step P ⟨v, hh, P.sigPub signer⟩ ⟨P.sign signer inp, c, f⟩ (1 + k) = .ok c ∧
    Sign.blockFinal v ⟨P.sign signer inp, c, f⟩ = f := by
  have hfin : Sign.blockFinal v ⟨P.sign signer inp, c, f⟩ = f := by
    rcases hv with rfl | rfl
    · simp only [Sign.blockFinal, v1, if_true]
      have := h1 rfl
      cases c with
      | nil => simp at this; simp [this]
      | cons a t => simp at this; simp [this]
    · simp [Sign.blockFinal, v2]
  refine ⟨?_, hfin⟩
  have hpb : Sign.processBlock P ⟨v, hh, P.sigPub signer⟩ ⟨P.sign signer inp, c, f⟩ f (1 + k) = .ok () := by
    unfold Sign.processBlock
    simp only [Nat.add_sub_cancel_left]
    rw [hinp]
    simp [hP.verify_sign]
  have hck : checkChunkState v c.length k f = .ok () := by
    rcases hv with rfl | rfl
    · have := h1 rfl
      cases c with
      | nil => simp at this; simp [checkChunkState, v1, this]
      | cons a t => simp at this; simp [checkChunkState, v1, this]
    · have := h2 rfl
      cases c with
      | nil => simp at this; simp [checkChunkState, v2, this]
      | cons a t => simp [checkChunkState, v2]
  unfold Ver.step
  simp only [hfin, hpb, Nat.add_sub_cancel_left, hck]

theorem attachedPackets_inv (P : Prims) (bs : Nat) (v : Version) (signer nonce msg : Bytes)
    (h : SigHeader) (hb : Bytes) (blks : List SigBlock)
    (hs : Sign.attachedPackets P bs v signer nonce msg = .ok (h, hb, blks)) :
    h = Sign.header v (P.sigPub signer) mtAttached nonce ∧ hb = Msgpack.encode h.toVal ∧
    Sign.blockStructs P v signer (P.hash hb) (chunkPlan v bs msg) 0 = .ok blks := by
  unfold Sign.attachedPackets at hs
  split at hs
  · cases hs
  · simp only [] at hs
    split at hs
    · cases hs
    · rename_i blks' hb'
      simp only [Except.ok.injEq, Prod.mk.injEq] at hs
      obtain ⟨h1, h2, h3⟩ := hs
      subst h1 h2 h3
      exact ⟨rfl, rfl, hb'⟩

theorem sign_validate_ok (v : Version) (hv : v = v1 ∨ v = v2) (pk nonce : Bytes) (typ : Int)
    (ht : typ = mtAttached ∨ typ = mtDetached) :
    Sign.validate knownMajor (Sign.header v pk typ nonce) typ = .ok () := by
  have hkm : knownMajor v = true := by rcases hv with rfl | rfl <;> decide
  have ht' : (typ != mtAttached && typ != mtDetached) = false := by
    rcases ht with rfl | rfl <;> decide
  simp [Sign.validate, Sign.header, hkm, ht']

end RTSig
open RTSig

theorem sign_roundtrip (P : Prims) (hP : P.Lawful) (bs : Nat) (hbs : 0 < bs)
    (v : Version) (hv : v = v1 ∨ v = v2) (signer nonce msg : Bytes)
    (kr : Keyring) (hk : kr.lookupSigningPublicKey (P.sigPub signer) = some (P.sigPub signer))
    (h : SigHeader) (hb : Bytes) (blks : List SigBlock)
    (hs : Sign.attachedPackets P bs v signer nonce msg = .ok (h, hb, blks)) :
    Sign.verifyAll P knownMajor kr (.ok hb h) ⟨blks.map some, .eof⟩ = .ok (P.sigPub signer, msg) := by
  obtain ⟨hh, _, hblk⟩ := attachedPackets_inv P bs v signer nonce msg h hb blks hs
  obtain ⟨hlen, hspec⟩ := sign_blockStructs_spec P v signer (P.hash hb) _ 0 blks hblk
  have hval := sign_validate_ok v hv (P.sigPub signer) nonce mtAttached (Or.inl rfl)
  have hmaj : (v.major != 1 && v.major != 2) = false := by rcases hv with rfl | rfl <;> decide
  have hrun : Sign.run P ⟨v, P.hash hb, P.sigPub signer⟩ (blks.map some) .eof 1 = ⟨msg, none⟩ := by
    rw [Ver.run_eq]
    have := grun_zip (Ver.step P ⟨v, P.hash hb, P.sigPub signer⟩) (Sign.blockFinal v) blks
      (chunkPlan v bs msg) 1 hlen (chunkPlan_ne_nil v bs msg) ?_ (chunkPlan_final_idx v bs msg)
    · rw [this, chunkPlan_flatten]
    · intro k b p hb' hp'
      obtain ⟨inp, hinp, rfl⟩ := hspec k b p hb' hp'
      rw [Nat.zero_add] at hinp
      have hm : p ∈ chunkPlan v bs msg := List.mem_of_getElem? hp'
      apply ver_step_ok P hP v hv signer (P.hash hb) p.1 p.2 k inp hinp
      · intro e; subst e
        exact chunkPlan_empty_v1 bs hbs msg p hm
      · intro e he; subst e
        have hmsg := (chunkPlan_empty_v2 bs hbs msg).1 p hm he
        have hpl := (chunkPlan_empty_v2 bs hbs msg).2 hmsg
        rw [hpl] at hp'
        cases k with
        | zero => simp at hp'; subst hp'; exact ⟨rfl, rfl⟩
        | succ k => simp at hp'
  subst hh
  unfold Sign.verifyAll Sign.verifyStream
  simp only [hval]
  simp only [Sign.header, hk, hmaj, hrun]
  rfl

theorem sign_no_key (P : Prims) (bs : Nat)
    (v : Version) (hv : v = v1 ∨ v = v2) (signer nonce msg : Bytes)
    (kr : Keyring) (hk : kr.lookupSigningPublicKey (P.sigPub signer) = none)
    (h : SigHeader) (hb : Bytes) (blks : List SigBlock)
    (hs : Sign.attachedPackets P bs v signer nonce msg = .ok (h, hb, blks)) :
    Sign.verifyAll P knownMajor kr (.ok hb h) ⟨blks.map some, .eof⟩ = .error .noSenderKey ∧
    (Sign.verifyStream P knownMajor kr (.ok hb h) ⟨blks.map some, .eof⟩).released = [] := by
  obtain ⟨hh, _, _⟩ := attachedPackets_inv P bs v signer nonce msg h hb blks hs
  have hval := sign_validate_ok v hv (P.sigPub signer) nonce mtAttached (Or.inl rfl)
  subst hh
  have hvs : Sign.verifyStream P knownMajor kr (.ok hb (Sign.header v (P.sigPub signer) mtAttached nonce))
      ⟨blks.map some, .eof⟩ = ⟨none, [], some .noSenderKey⟩ := by
    unfold Sign.verifyStream
    simp only [hval]
    simp only [Sign.header, hk]
  unfold Sign.verifyAll
  rw [hvs]
  exact ⟨rfl, rfl⟩

theorem attachedPackets_ok (P : Prims) (bs : Nat) (v : Version) (hv : v = v1 ∨ v = v2)
    (signer nonce msg : Bytes) :
    ∃ h hb blks, Sign.attachedPackets P bs v signer nonce msg = .ok (h, hb, blks) ∧
      blks.length = (chunkPlan v bs msg).length := by
  have hkv : knownVersion v = true := by rcases hv with rfl | rfl <;> decide
  obtain ⟨blks, hblk⟩ := sign_blockStructs_ok P v hv signer
    (P.hash (Msgpack.encode (Sign.header v (P.sigPub signer) mtAttached nonce).toVal)) (chunkPlan v bs msg) 0
  refine ⟨Sign.header v (P.sigPub signer) mtAttached nonce,
    Msgpack.encode (Sign.header v (P.sigPub signer) mtAttached nonce).toVal, blks, ?_,
    (sign_blockStructs_spec P v signer _ _ 0 blks hblk).1⟩
  unfold Sign.attachedPackets
  simp only [hkv, Bool.not_true, Bool.false_eq_true, if_false, hblk]

/-! ## detached signatures -/

theorem detached_roundtrip (P : Prims) (hP : P.Lawful)
    (v : Version) (hv : v = v1 ∨ v = v2) (signer nonce msg : Bytes)
    (kr : Keyring) (hk : kr.lookupSigningPublicKey (P.sigPub signer) = some (P.sigPub signer)) :
    let h := Sign.header v (P.sigPub signer) mtDetached nonce
    let hb := Msgpack.encode h.toVal
    Sign.verifyDetached P knownMajor kr (.ok hb h)
        (.sig (P.sign signer (detachedSignatureInput P (P.hash hb) msg))) msg = .ok (P.sigPub signer) := by
  intro h hb
  have hval := sign_validate_ok v hv (P.sigPub signer) nonce mtDetached (Or.inr rfl)
  unfold Sign.verifyDetached
  simp only [h, hval]
  simp only [Sign.header, hk, hP.verify_sign, if_true]

/-- a detached verification can succeed only through a signature check on
    exactly `domain_detached ‖ hash(hash(header bytes) ‖ message)` under the key
    the keyring returned for the header's signer field, with the header saying
    "saltpack", an admitted version and detached mode -/
theorem detached_sound (P : Prims) (valid : Validator) (kr : Keyring)
    (hr : HeaderRead SigHeader) (sr : Sign.SigRead) (msg k : Bytes)
    (hok : Sign.verifyDetached P valid kr hr sr msg = .ok k) :
    ∃ hb h sg, hr = .ok hb h ∧ sr = .sig sg ∧
      h.formatName = Gen.c_sp_FormatName ∧ valid h.version = true ∧ h.typ = mtDetached ∧
      kr.lookupSigningPublicKey h.senderPublic = some k ∧
      P.verify k (Gen.c_sp_signatureDetachedString ++ P.hash (P.hash hb ++ msg)) sg = true := by
  unfold Sign.verifyDetached at hok
  split at hok
  · cases hok
  · cases hok
  · rename_i hb h
    split at hok
    · cases hok
    · rename_i hval
      split at hok
      · cases hok
      · rename_i sg
        split at hok
        · cases hok
        · rename_i pk hpk
          split at hok
          · rename_i hver
            simp only [Except.ok.injEq] at hok
            subst hok
            refine ⟨hb, h, sg, rfl, rfl, ?_, ?_, ?_, hpk, hver⟩
            all_goals
              unfold Sign.validate at hval
              split at hval
              · cases hval
              · split at hval
                · cases hval
                · split at hval
                  · cases hval
                  · simp_all
          · cases hok

/-! ## signcryption -/

namespace RTSig

section signcryption
open Signcrypt

theorem sc_sealPackets_inv (P : Prims) (bs : Nat) (sender : Option Bytes) (rs : List Signcrypt.Recipient)
    (eph payloadKey pt : Bytes) (h : EncHeader) (hb : Bytes) (blks : List SigncryptBlock)
    (hseal : Signcrypt.sealPackets P bs sender rs eph payloadKey pt = .ok (h, hb, blks)) :
    h = Signcrypt.header P sender eph payloadKey rs ∧ hb = Msgpack.encode h.toVal ∧
    Signcrypt.blockStructs P sender payloadKey (P.hash hb) (chunkPlan v2 bs pt) 0 = .ok blks := by
  unfold Signcrypt.sealPackets at hseal
  split at hseal
  · cases hseal
  · simp only [] at hseal
    split at hseal
    · cases hseal
    · rename_i blks' hb'
      simp only [Except.ok.injEq, Prod.mk.injEq] at hseal
      obtain ⟨h1, h2, h3⟩ := hseal
      subst h1 h2 h3
      exact ⟨rfl, rfl, hb'⟩

theorem receiverEntries_length (P : Prims) (eph pk : Bytes) :
    ∀ (rs : List Signcrypt.Recipient) (n : Nat), (Signcrypt.receiverEntries P eph pk rs n).length = rs.length := by
  intro rs
  induction rs with
  | nil => intro n; rfl
  | cons r rt ih => intro n; simp [Signcrypt.receiverEntries, ih]

theorem receiverEntries_getElem? (P : Prims) (eph pk : Bytes) :
    ∀ (rs : List Signcrypt.Recipient) (n j : Nat),
      (Signcrypt.receiverEntries P eph pk rs n)[j]? = (rs[j]?).map (Signcrypt.receiverEntry P eph pk (n + j)) := by
  intro rs
  induction rs with
  | nil => intro n j; simp [Signcrypt.receiverEntries]
  | cons r rt ih =>
    intro n j
    cases j with
    | zero => simp [Signcrypt.receiverEntries]
    | succ j =>
      simp only [Signcrypt.receiverEntries, List.getElem?_cons_succ, ih]
      rw [show n + 1 + j = n + (j + 1) by omega]

theorem derivedKey_comm (P : Prims) (hP : P.Lawful) (a b : Bytes) :
    Signcrypt.derivedKeyFromBoxKeys P (P.boxPub a) b = Signcrypt.derivedKeyFromBoxKeys P (P.boxPub b) a := by
  unfold Signcrypt.derivedKeyFromBoxKeys Prims.box
  rw [hP.dh_comm]

/-! ### sender blocks, receiver step -/

/-- the signature the sender puts in front of chunk `k` -/
def scSig (P : Prims) (sender : Option Bytes) (hh : Bytes) (k : Nat) (c : Bytes) (f : Bool) : Bytes :=
  match sender with
  | none => zeros 64
  | some s => P.sign s (signcryptionSignatureInput P hh (Nonce.chunkSigncryption hh f k) f c)

theorem scSig_length (P : Prims) (hP : P.Lawful) (sender : Option Bytes) (hh : Bytes) (k : Nat) (c : Bytes) (f : Bool) :
    (scSig P sender hh k c f).length = 64 := by
  cases sender with
  | none => simp [scSig, zeros]
  | some s => simp [scSig, hP.sig_len]

theorem sc_blockStructs_spec (P : Prims) (sender : Option Bytes) (pk hh : Bytes) :
    ∀ (plan : List (Bytes × Bool)) (i : Nat) (blks : List SigncryptBlock),
      Signcrypt.blockStructs P sender pk hh plan i = .ok blks →
      blks.length = plan.length ∧
      ∀ k b p, blks[k]? = some b → plan[k]? = some p →
        b = (⟨P.sbSeal pk (Nonce.chunkSigncryption hh p.2 (i + k)) (scSig P sender hh (i + k) p.1 p.2 ++ p.1), p.2⟩ : SigncryptBlock) := by
  intro plan
  induction plan with
  | nil =>
    intro i blks h
    simp only [Signcrypt.blockStructs, Except.ok.injEq] at h
    subst h
    simp
  | cons p pt ih =>
    intro i blks h
    obtain ⟨c, f⟩ := p
    simp only [Signcrypt.blockStructs] at h
    split at h
    · rename_i b bs' hb hbs'
      simp only [Except.ok.injEq] at h
      subst h
      obtain ⟨hl, hk⟩ := ih (i + 1) bs' hbs'
      refine ⟨by simp [hl], ?_⟩
      intro k b' p' hb' hp'
      cases k with
      | zero =>
        simp only [List.getElem?_cons_zero, Option.some.injEq] at hb' hp'
        subst hb' hp'
        unfold Signcrypt.blockStruct at hb
        split at hb
        · cases hb
        · simp only [Except.ok.injEq] at hb
          rw [← hb]
          rfl
      | succ k =>
        simp only [List.getElem?_cons_succ] at hb' hp'
        have := hk k b' p' hb' hp'
        rw [show i + (k + 1) = i + 1 + k by omega]
        exact this
    · cases h
    · cases h

theorem sc_step_ok (P : Prims) (hP : P.Lawful) (sender : Option Bytes) (pk hh c : Bytes) (f : Bool) (k : Nat)
    (hk : blockNumberOK k = true) (hc : c = [] → k = 0 ∧ f = true) :
    Sc.step P ⟨pk, hh, sender.map P.sigPub⟩
      ⟨P.sbSeal pk (Nonce.chunkSigncryption hh f k) (scSig P sender hh k c f ++ c), f⟩ (1 + k) = .ok c := by
  have hlen := scSig_length P hP sender hh k c f
  have hpb : Signcrypt.processBlock P ⟨pk, hh, sender.map P.sigPub⟩
      ⟨P.sbSeal pk (Nonce.chunkSigncryption hh f k) (scSig P sender hh k c f ++ c), f⟩ (1 + k) = .ok c := by
    unfold Signcrypt.processBlock
    simp only [Nat.add_sub_cancel_left, hk, hP.sb_open_seal, Bool.not_true, Bool.false_eq_true, if_false]
    have hl : ¬ ((scSig P sender hh k c f ++ c).length < 64) := by
      rw [List.length_append]; omega
    simp only [hl, if_false, List.take_left' hlen, List.drop_left' hlen]
    cases sender with
    | none => rfl
    | some s =>
      simp only [Option.map_some, scSig, hP.verify_sign, if_true]
  have hck : checkChunkState v2 c.length k f = .ok () := by
    cases c with
    | nil => have := hc rfl; simp [checkChunkState, v2, this]
    | cons a t => simp [checkChunkState, v2]
  unfold Sc.step
  simp only [hpb, Nat.add_sub_cancel_left, hck]

theorem sc_run_ok (P : Prims) (hP : P.Lawful) (bs : Nat) (hbs : 0 < bs) (sender : Option Bytes)
    (pk hh pt : Bytes) (hblocks : (chunkPlan v2 bs pt).length < 2 ^ 64 - 1) (blks : List SigncryptBlock)
    (hblk : Signcrypt.blockStructs P sender pk hh (chunkPlan v2 bs pt) 0 = .ok blks) :
    Signcrypt.run P ⟨pk, hh, sender.map P.sigPub⟩ (blks.map some) .eof 1 = ⟨pt, none⟩ := by
  obtain ⟨hlen, hspec⟩ := sc_blockStructs_spec P sender pk hh _ 0 blks hblk
  rw [Sc.run_eq]
  have := grun_zip (Sc.step P ⟨pk, hh, sender.map P.sigPub⟩) (·.final) blks
    (chunkPlan v2 bs pt) 1 hlen (chunkPlan_ne_nil v2 bs pt) ?_ (chunkPlan_final_idx v2 bs pt)
  · rw [this, chunkPlan_flatten]
  · intro k b p hb' hp'
    have hb := hspec k b p hb' hp'
    rw [Nat.zero_add] at hb
    subst hb
    have hm : p ∈ chunkPlan v2 bs pt := List.mem_of_getElem? hp'
    have hklt : k < (chunkPlan v2 bs pt).length := by
      by_cases hlt : k < (chunkPlan v2 bs pt).length
      · exact hlt
      · rw [List.getElem?_eq_none (by omega)] at hp'; cases hp'
    refine ⟨sc_step_ok P hP sender pk hh p.1 p.2 k ?_ ?_, rfl⟩
    · simp only [blockNumberOK, decide_eq_true_eq]; omega
    · intro he
      have hmsg := (chunkPlan_empty_v2 bs hbs pt).1 p hm he
      have hpl := (chunkPlan_empty_v2 bs hbs pt).2 hmsg
      rw [hpl] at hp'
      cases k with
      | zero => simp at hp'; subst hp'; exact ⟨rfl, rfl⟩
      | succ k => simp at hp'

end signcryption

section signcryption_header
open Signcrypt

/-- the payload-key search of `processHeader` -/
def scFindKey (P : Prims) (kr : Keyring) (res : Signcrypt.Resolver) (h : EncHeader) (eph : Bytes) :
    Except Err (Option Bytes) :=
  match Signcrypt.tryBox P (kr.getAllBoxSecretKeys.map (fun sk => Signcrypt.derivedKeyFromBoxKeys P eph sk))
      h.receivers.zipIdx with
  | .error e => .error e
  | .ok (some pk) => .ok (some pk)
  | .ok none => Signcrypt.trySym P res h eph

/-- what `processHeader` does once the search has ended -/
def scHeaderTail (P : Prims) (kr : Keyring) (headerHash : Bytes) (h : EncHeader) (log : List KeyCall)
    (pk? : Except Err (Option Bytes)) : Decrypt.Logged Signcrypt.State :=
  match pk? with
  | .error e => (log, .error e)
  | .ok none => (log, .error .noDecryptionKey)
  | .ok (some pk) =>
    match P.sbOpen pk Nonce.senderKeySecretBox h.senderSecretbox with
    | none => (log, .error .badSenderKeySecretbox)
    | some senderKey =>
      if senderKey.all (· == 0) then (log, .ok ⟨pk, headerHash, none⟩)
      else match kr.lookupSigningPublicKey senderKey with
        | none => (log, .error .noSenderKey)
        | some spk => (log, .ok ⟨pk, headerHash, some spk⟩)

theorem sc_processHeader_eq (P : Prims) (kr : Keyring) (res : Signcrypt.Resolver) (hh : Bytes) (h : EncHeader)
    (hv : Signcrypt.validate h = .ok ()) (eph : Bytes) (hi : kr.importBoxEphemeralKey h.ephemeral = some eph) :
    Signcrypt.processHeader P kr res hh h =
      scHeaderTail P kr hh h
        (kr.getAllBoxSecretKeys.map (fun sk => KeyCall.box sk eph Nonce.derivedSharedKey (zeros 32)))
        (scFindKey P kr res h eph) := by
  unfold Signcrypt.processHeader
  rw [hv]
  simp only []
  rw [hi]
  rfl

theorem sc_validate_header (P : Prims) (sender : Option Bytes) (eph pk : Bytes) (rs : List Signcrypt.Recipient) :
    Signcrypt.validate (Signcrypt.header P sender eph pk rs) = .ok () := by
  simp [Signcrypt.validate, Signcrypt.header, v2]

theorem zeros_all_zero (n : Nat) : (zeros n).all (· == 0) = true := by
  simp [zeros]

/-- header processing after the payload key has been recovered -/
theorem sc_processHeader_found (P : Prims) (hP : P.Lawful) (sks : List Bytes) (res : Signcrypt.Resolver)
    (hh : Bytes) (sender : Option Bytes) (eph pk : Bytes) (rs : List Signcrypt.Recipient)
    (hsender : ∀ s, sender = some s → ¬ ((P.sigPub s).all (· == 0)))
    (hfind : scFindKey P (faithfulKeyring P sks) res (Signcrypt.header P sender eph pk rs) (P.boxPub eph) = .ok (some pk)) :
    ∃ log, Signcrypt.processHeader P (faithfulKeyring P sks) res hh (Signcrypt.header P sender eph pk rs) =
      (log, .ok ⟨pk, hh, sender.map P.sigPub⟩) := by
  refine ⟨(faithfulKeyring P sks).getAllBoxSecretKeys.map
    (fun sk => KeyCall.box sk (P.boxPub eph) Nonce.derivedSharedKey (zeros 32)), ?_⟩
  rw [sc_processHeader_eq P _ res hh _ (sc_validate_header P sender eph pk rs) (P.boxPub eph) rfl, hfind]
  unfold scHeaderTail
  simp only [Signcrypt.header, hP.sb_open_seal]
  cases sender with
  | none => simp only [zeros_all_zero, if_true, Option.map_none]
  | some s =>
    have := hsender s rfl
    simp only [this, faithfulKeyring, Option.map_some, Bool.false_eq_true, if_false]

theorem sc_processHeader_none (P : Prims) (sks : List Bytes) (res : Signcrypt.Resolver)
    (hh : Bytes) (sender : Option Bytes) (eph pk : Bytes) (rs : List Signcrypt.Recipient)
    (hfind : scFindKey P (faithfulKeyring P sks) res (Signcrypt.header P sender eph pk rs) (P.boxPub eph) = .ok none) :
    ∃ log, Signcrypt.processHeader P (faithfulKeyring P sks) res hh (Signcrypt.header P sender eph pk rs) =
      (log, .error .noDecryptionKey) := by
  refine ⟨(faithfulKeyring P sks).getAllBoxSecretKeys.map
    (fun sk => KeyCall.box sk (P.boxPub eph) Nonce.derivedSharedKey (zeros 32)), ?_⟩
  rw [sc_processHeader_eq P _ res hh _ (sc_validate_header P sender eph pk rs) (P.boxPub eph) rfl, hfind]
  rfl

/-- header + blocks once the payload-key search succeeds -/
theorem sc_open_found (P : Prims) (hP : P.Lawful) (bs : Nat) (hbs : 0 < bs)
    (sender : Option Bytes) (rs : List Signcrypt.Recipient) (eph payloadKey pt : Bytes)
    (hsender : ∀ s, sender = some s → ¬ ((P.sigPub s).all (· == 0)))
    (hblocks : (chunkPlan v2 bs pt).length < 2 ^ 64 - 1)
    (h : EncHeader) (hb : Bytes) (blks : List SigncryptBlock)
    (hseal : Signcrypt.sealPackets P bs sender rs eph payloadKey pt = .ok (h, hb, blks))
    (sks : List Bytes) (res : Signcrypt.Resolver)
    (hfind : scFindKey P (faithfulKeyring P sks) res (Signcrypt.header P sender eph payloadKey rs) (P.boxPub eph)
      = .ok (some payloadKey)) :
    Signcrypt.openAll P (faithfulKeyring P sks) res (.ok hb h) ⟨blks.map some, .eof⟩ =
      .ok (sender.map P.sigPub, pt) := by
  obtain ⟨hh, _, hblk⟩ := sc_sealPackets_inv P bs sender rs eph payloadKey pt h hb blks hseal
  subst hh
  obtain ⟨log, hph⟩ := sc_processHeader_found P hP sks res (P.hash hb) sender eph payloadKey rs hsender hfind
  have hrun := sc_run_ok P hP bs hbs sender payloadKey (P.hash hb) pt hblocks blks hblk
  unfold Signcrypt.openAll Signcrypt.openStream
  simp only [hph, hrun]

end signcryption_header

section signcryption_search
open Signcrypt

theorem tryBox_nil (P : Prims) : ∀ l : List (RecvKeys × Nat), Signcrypt.tryBox P [] l = .ok none := by
  intro l
  induction l with
  | nil => rfl
  | cons x t ih =>
    obtain ⟨r, i⟩ := x
    simp only [Signcrypt.tryBox, Signcrypt.tryBoxOne, ih]

theorem tryBox_found (P : Prims) (dks : List Bytes) (pk : Bytes) :
    ∀ (l : List RecvKeys) (n i : Nat),
      (∀ j r, j < i → l[j]? = some r → Signcrypt.tryBoxOne P dks r (n + j) = none) →
      (∃ r, l[i]? = some r ∧ Signcrypt.tryBoxOne P dks r (n + i) = some (.ok pk)) →
      Signcrypt.tryBox P dks (l.zipIdx n) = .ok (some pk) := by
  intro l
  induction l with
  | nil => intro n i _ ⟨r, hr, _⟩; simp at hr
  | cons a t ih =>
    intro n i hlt ⟨r, hr, hrr⟩
    rw [List.zipIdx_cons]
    cases i with
    | zero =>
      simp only [List.getElem?_cons_zero, Option.some.injEq] at hr
      subst hr
      rw [Nat.add_zero] at hrr
      simp only [Signcrypt.tryBox, hrr]
    | succ i =>
      have h0 := hlt 0 a (by omega) rfl
      rw [Nat.add_zero] at h0
      simp only [Signcrypt.tryBox, h0]
      apply ih (n + 1) i
      · intro j r' hj hr'
        have := hlt (j + 1) r' (by omega) (by simpa using hr')
        rw [show n + 1 + j = n + (j + 1) by omega]
        exact this
      · refine ⟨r, by simpa using hr, ?_⟩
        rw [show n + 1 + i = n + (i + 1) by omega]
        exact hrr

theorem trySym_go_found (P : Prims) (ephPub pk : Bytes) (hpk : pk.length = 32) :
    ∀ (keys : List (Option Bytes)) (l : List RecvKeys) (n : Nat),
      keys.length = l.length →
      (∃ (j : Nat) (k : Bytes), keys[j]? = some (some k)) →
      (∀ j k r, keys[j]? = some (some k) → l[j]? = some r →
        P.sbOpen (Signcrypt.symDerivedKey P ephPub k) (Nonce.payloadKeyBoxV2 (n + j)) r.box = some pk) →
      Signcrypt.trySym.go P ephPub (keys.zip (l.zipIdx n)) = .ok (some pk) := by
  intro keys
  induction keys with
  | nil => intro l n _ ⟨j, k, hjk⟩; simp at hjk
  | cons a t ih =>
    intro l n hl hex hopen
    cases l with
    | nil => simp at hl
    | cons r lt =>
      rw [List.zipIdx_cons, List.zip_cons_cons]
      cases a with
      | none =>
        simp only [Signcrypt.trySym.go]
        apply ih lt (n + 1) (by simpa using hl)
        · obtain ⟨j, k, hjk⟩ := hex
          cases j with
          | zero => simp at hjk
          | succ j => exact ⟨j, k, by simpa using hjk⟩
        · intro j k r' hk hr'
          have := hopen (j + 1) k r' (by simpa using hk) (by simpa using hr')
          rw [show n + 1 + j = n + (j + 1) by omega]
          exact this
      | some k =>
        have := hopen 0 k r rfl rfl
        rw [Nat.add_zero] at this
        simp [Signcrypt.trySym.go, this, hpk]

theorem trySym_go_none (P : Prims) (ephPub : Bytes) :
    ∀ (keys : List (Option Bytes)) (l : List (RecvKeys × Nat)),
      (∀ x ∈ keys, x = none) →
      Signcrypt.trySym.go P ephPub (keys.zip l) = .ok none := by
  intro keys
  induction keys with
  | nil => intro l _; simp [Signcrypt.trySym.go]
  | cons a t ih =>
    intro l hall
    cases l with
    | nil => simp [Signcrypt.trySym.go]
    | cons x lt =>
      have ha : a = none := hall a (by simp)
      subst ha
      obtain ⟨r, i⟩ := x
      rw [List.zip_cons_cons]
      simp only [Signcrypt.trySym.go]
      exact ih lt (fun y hy => hall y (by simp [hy]))

theorem sc_header_receivers (P : Prims) (sender : Option Bytes) (eph pk : Bytes) (rs : List Signcrypt.Recipient) :
    (Signcrypt.header P sender eph pk rs).receivers = Signcrypt.receiverEntries P eph pk rs 0 := rfl

end signcryption_search

end RTSig

open Signcrypt in
/-- box-key recipient at position `i`; `NoIdentifierCollision`: the opener's
    derived key does not produce the identifier of an earlier entry -/
theorem sc_roundtrip_box (P : Prims) (hP : P.Lawful) (bs : Nat) (hbs : 0 < bs)
    (sender : Option Bytes) (rs : List Signcrypt.Recipient) (eph payloadKey pt : Bytes)
    (hpk : payloadKey.length = 32)
    (hsender : ∀ s, sender = some s → ¬ ((P.sigPub s).all (· == 0)))
    (hblocks : (chunkPlan v2 bs pt).length < 2 ^ 64 - 1)
    (i : Nat) (hi : i < rs.length) (sk : Bytes) (hsk : rs.getD i default = .box (P.boxPub sk))
    (h : EncHeader) (hb : Bytes) (blks : List SigncryptBlock)
    (hseal : Signcrypt.sealPackets P bs sender rs eph payloadKey pt = .ok (h, hb, blks))
    (hnc : ∀ j, j < i → Signcrypt.keyIdentifier P (Signcrypt.derivedKeyFromBoxKeys P (P.boxPub eph) sk) j ≠
        Decrypt.kidOf (h.receivers.getD j default)) :
    Signcrypt.openAll P (faithfulKeyring P [sk]) none (.ok hb h) ⟨blks.map some, .eof⟩ =
      .ok (sender.map P.sigPub, pt) := by
  apply sc_open_found P hP bs hbs sender rs eph payloadKey pt hsender hblocks h hb blks hseal
  obtain ⟨hh, _, _⟩ := sc_sealPackets_inv P bs sender rs eph payloadKey pt h hb blks hseal
  subst hh
  have hrsi : rs[i]? = some (.box (P.boxPub sk)) := by
    rw [← hsk, List.getD_eq_getElem?_getD, List.getElem?_eq_getElem hi]; rfl
  have htb : Signcrypt.tryBox P [Signcrypt.derivedKeyFromBoxKeys P (P.boxPub eph) sk]
      ((Signcrypt.receiverEntries P eph payloadKey rs 0).zipIdx 0) = .ok (some payloadKey) := by
    apply tryBox_found P _ payloadKey _ 0 i
    · intro j r hj hr
      have := hnc j hj
      rw [sc_header_receivers, List.getD_eq_getElem?_getD, hr] at this
      simp only [Option.getD_some] at this
      simp [Signcrypt.tryBoxOne, this]
    · refine ⟨_, by rw [receiverEntries_getElem?, hrsi]; rfl, ?_⟩
      simp only [Signcrypt.receiverEntry, derivedKey_comm P hP sk eph, Nat.zero_add]
      simp [Signcrypt.tryBoxOne, Decrypt.kidOf, hP.sb_open_seal, hpk]
  unfold scFindKey
  simp only [sc_header_receivers, faithfulKeyring, List.map_cons, List.map_nil]
  rw [htb]

/-- symmetric-key recipients: the resolver resolves some identifiers, each to
    the true key of that entry, and at least one -/
theorem sc_roundtrip_sym (P : Prims) (hP : P.Lawful) (bs : Nat) (hbs : 0 < bs)
    (sender : Option Bytes) (rs : List Signcrypt.Recipient) (eph payloadKey pt : Bytes)
    (hpk : payloadKey.length = 32)
    (hsender : ∀ s, sender = some s → ¬ ((P.sigPub s).all (· == 0)))
    (hblocks : (chunkPlan v2 bs pt).length < 2 ^ 64 - 1)
    (h : EncHeader) (hb : Bytes) (blks : List SigncryptBlock)
    (hseal : Signcrypt.sealPackets P bs sender rs eph payloadKey pt = .ok (h, hb, blks))
    (f : List Bytes → Except Err (List (Option Bytes))) (keys : List (Option Bytes))
    (hf : f (h.receivers.map Decrypt.kidOf) = .ok keys) (hlen : keys.length = rs.length)
    (htrue : ∀ (j : Nat) (k : Bytes), keys[j]? = some (some k) → ∃ ident, rs[j]? = some (Signcrypt.Recipient.sym k ident))
    (hsome : ∃ (j : Nat) (k : Bytes), keys[j]? = some (some k)) :
    Signcrypt.openAll P (faithfulKeyring P []) (some f) (.ok hb h) ⟨blks.map some, .eof⟩ =
      .ok (sender.map P.sigPub, pt) := by
  apply sc_open_found P hP bs hbs sender rs eph payloadKey pt hsender hblocks h hb blks hseal
  obtain ⟨hh, _, _⟩ := sc_sealPackets_inv P bs sender rs eph payloadKey pt h hb blks hseal
  subst hh
  have hlen' : keys.length = (Signcrypt.receiverEntries P eph payloadKey rs 0).length := by
    rw [receiverEntries_length, hlen]
  have hgo : Signcrypt.trySym.go P (P.boxPub eph)
      (keys.zip ((Signcrypt.receiverEntries P eph payloadKey rs 0).zipIdx 0)) = .ok (some payloadKey) := by
    apply trySym_go_found P (P.boxPub eph) payloadKey hpk keys _ 0 hlen' hsome
    intro j k r hk hr
    obtain ⟨ident, hid⟩ := htrue j k hk
    rw [receiverEntries_getElem?, hid] at hr
    simp only [Option.map_some, Option.some.injEq] at hr
    subst hr
    simp only [Signcrypt.receiverEntry, hP.sb_open_seal]
  unfold scFindKey
  simp only [faithfulKeyring, List.map_nil, tryBox_nil]
  unfold Signcrypt.trySym
  rw [sc_header_receivers] at hf ⊢
  simp only [hf, List.length_map, hlen']
  simpa using hgo

/-- no box key, nothing resolved: `noDecryptionKey`, no plaintext -/
theorem sc_no_key (P : Prims) (bs : Nat)
    (sender : Option Bytes) (rs : List Signcrypt.Recipient) (eph payloadKey pt : Bytes)
    (h : EncHeader) (hb : Bytes) (blks : List SigncryptBlock)
    (hseal : Signcrypt.sealPackets P bs sender rs eph payloadKey pt = .ok (h, hb, blks))
    (f : List Bytes → Except Err (List (Option Bytes)))
    (hf : f (h.receivers.map Decrypt.kidOf) = .ok (rs.map (fun _ => none))) :
    Signcrypt.openAll P (faithfulKeyring P []) (some f) (.ok hb h) ⟨blks.map some, .eof⟩ =
      .error .noDecryptionKey := by
  obtain ⟨hh, _, _⟩ := sc_sealPackets_inv P bs sender rs eph payloadKey pt h hb blks hseal
  subst hh
  have hfind : scFindKey P (faithfulKeyring P []) (some f) (Signcrypt.header P sender eph payloadKey rs)
      (P.boxPub eph) = .ok none := by
    unfold scFindKey
    simp only [faithfulKeyring, List.map_nil, tryBox_nil]
    unfold Signcrypt.trySym
    rw [sc_header_receivers] at hf ⊢
    simp only [hf, List.length_map, receiverEntries_length]
    simp only [bne_self_eq_false, Bool.false_eq_true, if_false]
    apply trySym_go_none
    intro x hx
    simp only [List.mem_map] at hx
    obtain ⟨_, _, rfl⟩ := hx
    rfl
  obtain ⟨log, hph⟩ := sc_processHeader_none P [] (some f) (P.hash hb) sender eph payloadKey rs hfind
  unfold Signcrypt.openAll Signcrypt.openStream
  simp only [hph]

end Saltpack.Proofs
