/-
  Round trips at packet level for attached / detached signatures (behind
  Props/C05, C07) and signcryption (behind Props/C03).
-/
import Saltpack.Model.Sign
import Saltpack.Model.Signcrypt
import Saltpack.Proofs.ChunkPlan
import Saltpack.Proofs.Receiver
import Saltpack.Proofs.RoundTripEnc

namespace Saltpack.Proofs
open Saltpack Saltpack.Encrypt

/-! ## attached signatures -/

theorem sign_roundtrip (P : Prims) (hP : P.Lawful) (bs : Nat) (hbs : 0 < bs)
    (v : Version) (hv : v = v1 ∨ v = v2) (signer nonce msg : Bytes)
    (kr : Keyring) (hk : kr.lookupSigningPublicKey (P.sigPub signer) = some (P.sigPub signer))
    (h : SigHeader) (hb : Bytes) (blks : List SigBlock)
    (hs : Sign.attachedPackets P bs v signer nonce msg = .ok (h, hb, blks)) :
    Sign.verifyAll P knownMajor kr (.ok hb h) ⟨blks.map some, .eof⟩ = .ok (P.sigPub signer, msg) := by
  sorry

theorem sign_no_key (P : Prims) (bs : Nat)
    (v : Version) (hv : v = v1 ∨ v = v2) (signer nonce msg : Bytes)
    (kr : Keyring) (hk : kr.lookupSigningPublicKey (P.sigPub signer) = none)
    (h : SigHeader) (hb : Bytes) (blks : List SigBlock)
    (hs : Sign.attachedPackets P bs v signer nonce msg = .ok (h, hb, blks)) :
    Sign.verifyAll P knownMajor kr (.ok hb h) ⟨blks.map some, .eof⟩ = .error .noSenderKey ∧
    (Sign.verifyStream P knownMajor kr (.ok hb h) ⟨blks.map some, .eof⟩).released = [] := by
  sorry

theorem attachedPackets_ok (P : Prims) (bs : Nat) (v : Version) (hv : v = v1 ∨ v = v2)
    (signer nonce msg : Bytes) :
    ∃ h hb blks, Sign.attachedPackets P bs v signer nonce msg = .ok (h, hb, blks) ∧
      blks.length = (chunkPlan v bs msg).length := by
  sorry

/-! ## detached signatures -/

theorem detached_roundtrip (P : Prims) (hP : P.Lawful)
    (v : Version) (hv : v = v1 ∨ v = v2) (signer nonce msg : Bytes)
    (kr : Keyring) (hk : kr.lookupSigningPublicKey (P.sigPub signer) = some (P.sigPub signer)) :
    let h := Sign.header v (P.sigPub signer) mtDetached nonce
    let hb := Msgpack.encode h.toVal
    Sign.verifyDetached P knownMajor kr (.ok hb h)
        (.sig (P.sign signer (detachedSignatureInput P (P.hash hb) msg))) msg = .ok (P.sigPub signer) := by
  sorry

/-- a detached verification can succeed only through a signature check on
    exactly `domain_detached ‖ hash(hash(header bytes) ‖ message)` under the key
    the keyring returned for the header's signer field, with the header saying
    "saltpack", an admitted version and detached mode -/
theorem detached_sound (P : Prims) (valid : Validator) (kr : Keyring)
    (hr : HeaderRead SigHeader) (sr : Sign.SigRead) (msg k : Bytes)
    (hok : Sign.verifyDetached P valid kr hr sr msg = .ok k) :
    ∃ hb h sg, hr = .ok hb h ∧ sr = .sig sg ∧
      h.formatName = Gen.c_sp_FormatName ∧ valid h.version = true ∧ h.typ = mtDetached ∧
      kr.lookupSigningPublicKey h.senderPublic = some k ∧
      P.verify k (Gen.c_sp_signatureDetachedString ++ P.hash (P.hash hb ++ msg)) sg = true := by
  sorry

/-! ## signcryption -/

open Signcrypt in
/-- box-key recipient at position `i`; `NoIdentifierCollision`: the opener's
    derived key does not produce the identifier of an earlier entry -/
theorem sc_roundtrip_box (P : Prims) (hP : P.Lawful) (bs : Nat) (hbs : 0 < bs)
    (sender : Option Bytes) (rs : List Signcrypt.Recipient) (eph payloadKey pt : Bytes)
    (hpk : payloadKey.length = 32)
    (hsender : ∀ s, sender = some s → ¬ ((P.sigPub s).all (· == 0)))
    (hblocks : (chunkPlan v2 bs pt).length < 2 ^ 64 - 1)
    (i : Nat) (hi : i < rs.length) (sk : Bytes) (hsk : rs.getD i default = .box (P.boxPub sk))
    (h : EncHeader) (hb : Bytes) (blks : List SigncryptBlock)
    (hseal : Signcrypt.sealPackets P bs sender rs eph payloadKey pt = .ok (h, hb, blks))
    (hnc : ∀ j, j < i → Signcrypt.keyIdentifier P (Signcrypt.derivedKeyFromBoxKeys P (P.boxPub eph) sk) j ≠
        Decrypt.kidOf (h.receivers.getD j default)) :
    Signcrypt.openAll P (faithfulKeyring P [sk]) none (.ok hb h) ⟨blks.map some, .eof⟩ =
      .ok (sender.map P.sigPub, pt) := by
  sorry

/-- symmetric-key recipients: the resolver resolves some identifiers, each to
    the true key of that entry, and at least one -/
theorem sc_roundtrip_sym (P : Prims) (hP : P.Lawful) (bs : Nat) (hbs : 0 < bs)
    (sender : Option Bytes) (rs : List Signcrypt.Recipient) (eph payloadKey pt : Bytes)
    (hpk : payloadKey.length = 32)
    (hsender : ∀ s, sender = some s → ¬ ((P.sigPub s).all (· == 0)))
    (hblocks : (chunkPlan v2 bs pt).length < 2 ^ 64 - 1)
    (h : EncHeader) (hb : Bytes) (blks : List SigncryptBlock)
    (hseal : Signcrypt.sealPackets P bs sender rs eph payloadKey pt = .ok (h, hb, blks))
    (f : List Bytes → Except Err (List (Option Bytes))) (keys : List (Option Bytes))
    (hf : f (h.receivers.map Decrypt.kidOf) = .ok keys) (hlen : keys.length = rs.length)
    (htrue : ∀ (j : Nat) (k : Bytes), keys[j]? = some (some k) → ∃ ident, rs[j]? = some (Signcrypt.Recipient.sym k ident))
    (hsome : ∃ (j : Nat) (k : Bytes), keys[j]? = some (some k)) :
    Signcrypt.openAll P (faithfulKeyring P []) (some f) (.ok hb h) ⟨blks.map some, .eof⟩ =
      .ok (sender.map P.sigPub, pt) := by
  sorry

/-- no box key, nothing resolved: `noDecryptionKey`, no plaintext -/
theorem sc_no_key (P : Prims) (bs : Nat)
    (sender : Option Bytes) (rs : List Signcrypt.Recipient) (eph payloadKey pt : Bytes)
    (h : EncHeader) (hb : Bytes) (blks : List SigncryptBlock)
    (hseal : Signcrypt.sealPackets P bs sender rs eph payloadKey pt = .ok (h, hb, blks))
    (f : List Bytes → Except Err (List (Option Bytes)))
    (hf : f (h.receivers.map Decrypt.kidOf) = .ok (rs.map (fun _ => none))) :
    Signcrypt.openAll P (faithfulKeyring P []) (some f) (.ok hb h) ⟨blks.map some, .eof⟩ =
      .error .noDecryptionKey := by
  sorry

end Saltpack.Proofs
