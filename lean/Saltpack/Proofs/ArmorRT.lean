/-
  Armor framing (behind Props/C11): the sealed text has the specified shape;
  dearmoring accepts every *variant* of it (arbitrary runs of space, tab, CR, LF
  or '>' between payload characters, between frame words, around the frame) and
  returns the identical payload and brand, and the header/footer as received
  (identical after the normalisation of white-space runs the frame grammar
  defines); wrong type / mismatching footer are rejected.
-/
import Saltpack.Model.Armor
import Saltpack.Proofs.Basex
import Saltpack.Proofs.Digits

namespace Saltpack.Proofs
open Saltpack Saltpack.Armor

/-- alphanumeric brand of at most 128 characters (`[a-zA-Z0-9]{0,128}`) -/
def BrandOK (b : Bytes) : Prop :=
  b.length ≤ 128 ∧ ∀ c ∈ b, (48 ≤ c ∧ c ≤ 57) ∨ (65 ≤ c ∧ c ≤ 90) ∨ (97 ≤ c ∧ c ≤ 122)

def Armorable (typ : Int) : Prop := typ = mtEncryption ∨ typ = mtAttached ∨ typ = mtDetached

/-- `f'` is the frame `f` with its separating spaces replaced by arbitrary
    non-empty runs of `[>\n\r\t ]`, and such runs added around it -/
structure FrameVariant (f f' : Bytes) : Prop where
  valid : ∀ c ∈ f', validByte params62 c = true
  norm : trimSpace (collapse f') = f
  len : (trimSpace f').length ≤ 512
  lim : f'.length < 8192

/-- **Tolerant dearmoring.** Any text of the form
    `hdr' . body' . ftr' . trail` where `hdr'`/`ftr'` are variants of the frames
    of (`typ`, `brand`), `body'` consists of valid bytes whose non-skip characters
    are exactly the base62 encoding of `payload`, and `trail` of valid bytes,
    dearmors — with the frame checks of `typ` — to `payload` and `brand`. -/
theorem open_variant (typ : Int) (ht : Armorable typ) (brand : Bytes) (hb : BrandOK brand)
    (payload hdr' body' ftr' trail : Bytes)
    (hh : FrameVariant (header typ brand) hdr') (hf : FrameVariant (footer typ brand) ftr')
    (hbody : ∀ c ∈ body', validByte params62 c = true)
    (hfil : Basex.filterSkip params62.enc body' = Basex.encode params62.enc payload)
    (htrail : ∀ c ∈ trail, validByte params62 c = true) :
    open62 (some typ) (hdr' ++ [period] ++ body' ++ [period] ++ ftr' ++ [period] ++ trail) =
      .ok ⟨payload, brand, trimSpace hdr', trimSpace ftr'⟩ := by
  sorry

/-- the same without frame validation (`Armor62Open`): payload and frames as received -/
theorem open_variant_novalidation (payload hdr' body' ftr' trail : Bytes)
    (hh : (∀ c ∈ hdr', validByte params62 c = true) ∧ hdr'.length < 8192)
    (hf : (∀ c ∈ ftr', validByte params62 c = true) ∧ ftr'.length < 8192)
    (hbody : ∀ c ∈ body', validByte params62 c = true)
    (hfil : Basex.filterSkip params62.enc body' = Basex.encode params62.enc payload)
    (htrail : ∀ c ∈ trail, validByte params62 c = true) :
    open62 none (hdr' ++ [period] ++ body' ++ [period] ++ ftr' ++ [period] ++ trail) =
      .ok ⟨payload, [], trimSpace hdr', trimSpace ftr'⟩ := by
  sorry

/-- **The sealed text is such a variant** (so `open62 (seal62 …)` round-trips):
    it is `header . body . " " footer . "\n"` with `body` = a space, the encoded
    characters in words separated by single spaces/newlines, and the pad. -/
theorem seal_is_variant (typ : Int) (ht : Armorable typ) (brand : Bytes) (hb : BrandOK brand) (payload : Bytes) :
    ∃ body', seal62 typ brand payload =
        header typ brand ++ [period] ++ body' ++ [period] ++ ([space] ++ footer typ brand) ++ [period] ++ [newline] ∧
      FrameVariant (header typ brand) (header typ brand) ∧
      FrameVariant (footer typ brand) ([space] ++ footer typ brand) ∧
      (∀ c ∈ body', validByte params62 c = true) ∧
      Basex.filterSkip params62.enc body' = Basex.encode params62.enc payload := by
  sorry

/-- **Round trip** of the sealed text itself -/
theorem open_seal (typ : Int) (ht : Armorable typ) (brand : Bytes) (hb : BrandOK brand) (payload : Bytes) :
    open62 (some typ) (seal62 typ brand payload) =
      .ok ⟨payload, brand, header typ brand, footer typ brand⟩ := by
  sorry

/-- inserting a run of skip characters anywhere in the body keeps it a body of
    the same payload -/
theorem body_insert (a b run : Bytes)
    (hr : ∀ c ∈ run, isFrameSpace c = true) :
    Basex.filterSkip params62.enc (a ++ run ++ b) = Basex.filterSkip params62.enc (a ++ b) ∧
    ((∀ c ∈ a ++ b, validByte params62 c = true) → ∀ c ∈ a ++ run ++ b, validByte params62 c = true) := by
  sorry

/-- replacing a separating space of a frame by a non-empty run, or adding runs
    around it, keeps it a variant (as long as the trimmed frame stays ≤ 512 and
    the whole < 8192) -/
theorem frame_reflow (f a b run : Bytes) (hv : FrameVariant f (a ++ [space] ++ b))
    (hr : ∀ c ∈ run, isFrameSpace c = true) (hne : run ≠ [])
    (hlen : (trimSpace (a ++ run ++ b)).length ≤ 512) (hlim : (a ++ run ++ b).length < 8192) :
    FrameVariant f (a ++ run ++ b) := by
  sorry

theorem frame_surround (f f' pre post : Bytes) (hv : FrameVariant f f')
    (hpre : ∀ c ∈ pre, isTrimSpace c = true ∧ isFrameSpace c = true)
    (hpost : ∀ c ∈ post, isTrimSpace c = true ∧ isFrameSpace c = true)
    (hlim : (pre ++ f' ++ post).length < 8192) :
    FrameVariant f (pre ++ f' ++ post) := by
  sorry

/-! ### shape -/

/-- the frames are `BEGIN|END [brand] SALTPACK <type>` -/
theorem header_shape (typ : Int) (sffx : Bytes) (ht : typeString typ = some sffx) (brand : Bytes) :
    header typ brand =
      (if brand.isEmpty then Gen.c_sp_headerMarker ++ [space] ++ upper Gen.c_sp_FormatName ++ [space] ++ sffx
       else Gen.c_sp_headerMarker ++ [space] ++ brand ++ [space] ++ upper Gen.c_sp_FormatName ++ [space] ++ sffx) ∧
    footer typ brand =
      (if brand.isEmpty then Gen.c_sp_footerMarker ++ [space] ++ upper Gen.c_sp_FormatName ++ [space] ++ sffx
       else Gen.c_sp_footerMarker ++ [space] ++ brand ++ [space] ++ upper Gen.c_sp_FormatName ++ [space] ++ sffx) := by
  sorry

/-- every word of the body is at most 15 base62 characters, and exactly every
    200th word separator is a newline -/
theorem words_shape (payload : Bytes) :
    ∀ w ∈ chunks params62.bytesPerWord (Basex.encode params62.enc payload),
      w.length ≤ 15 ∧ w ≠ [] ∧ ∀ c ∈ w, (params62.enc.digit? c).isSome := by
  sorry

/-! ### rejection -/

/-- a frame of one armorable type does not parse as another type -/
theorem parse_wrong_type (typ typ' : Int) (ht : Armorable typ) (ht' : Armorable typ') (hne : typ ≠ typ')
    (brand f' : Bytes) (hb : BrandOK brand) (hv : FrameVariant (header typ brand) f') :
    ∃ e, parseFrame (trimSpace f') typ' Gen.c_sp_headerMarker = .error e := by
  sorry

/-- `CheckArmor62` succeeds only if both frames parse for the type and carry
    the same brand -/
theorem check_sound (hdr ftr : Bytes) (typ : Int) (brand : Bytes) (h : checkArmor62 hdr ftr typ = .ok brand) :
    parseFrame hdr typ Gen.c_sp_headerMarker = .ok brand ∧ parseFrame ftr typ Gen.c_sp_footerMarker = .ok brand := by
  sorry

/-- over-long frames are rejected (512 after trimming; 8192 raw) -/
theorem parse_too_long (m : Bytes) (typ : Int) (marker : Bytes) (h : 512 < m.length) :
    parseFrame m typ marker = .error .badFrame := by
  sorry

/-- a parsed brand is never longer than 128 -/
theorem parse_brand_len (m : Bytes) (typ : Int) (marker brand : Bytes) (h : parseFrame m typ marker = .ok brand) :
    brand.length ≤ 128 := by
  sorry

end Saltpack.Proofs
