/-
  Armor framing (behind Props/C11): the sealed text has the specified shape;
  dearmoring accepts every *variant* of it (arbitrary runs of space, tab, CR, LF
  or '>' between payload characters, between frame words, around the frame) and
  returns the identical payload and brand, and the header/footer as received
  (identical after the normalisation of white-space runs the frame grammar
  defines); wrong type / mismatching footer are rejected.
-/
import Saltpack.Model.Armor
import Saltpack.Proofs.Basex
import Saltpack.Proofs.Digits
import Saltpack.Proofs.ArmorLemmas

namespace Saltpack.Proofs
open Saltpack Saltpack.Armor

/-- alphanumeric brand of at most 128 characters (`[a-zA-Z0-9]{0,128}`) -/
def BrandOK (b : Bytes) : Prop :=
  b.length ≤ 128 ∧ ∀ c ∈ b, (48 ≤ c ∧ c ≤ 57) ∨ (65 ≤ c ∧ c ≤ 90) ∨ (97 ≤ c ∧ c ≤ 122)

def Armorable (typ : Int) : Prop := typ = mtEncryption ∨ typ = mtAttached ∨ typ = mtDetached

/-- `f'` is the frame `f` with its separating spaces replaced by arbitrary
    non-empty runs of `[>\n\r\t ]`, and such runs added around it -/
structure FrameVariant (f f' : Bytes) : Prop where
  valid : ∀ c ∈ f', validByte params62 c = true
  norm : trimSpace (collapse f') = f
  len : (trimSpace f').length ≤ 512
  lim : f'.length < 8192

/-! ### frame words -/

/-- a frame word: non-empty, alphabet characters only -/
def WordOK (w : Bytes) : Prop := w ≠ [] ∧ ∀ c ∈ w, (params62.enc.digit? c).isSome = true

instance (w : Bytes) : Decidable (WordOK w) := by unfold WordOK; infer_instance

/-- the type string of `typ` is the two words `s1 s2` -/
structure TypeWords (typ : Int) (sffx s1 s2 : Bytes) : Prop where
  ts : typeString typ = some sffx
  split : sffx = s1 ++ [space] ++ s2
  w1 : WordOK s1
  w2 : WordOK s2
  len : s1.length + s2.length ≤ 17

theorem typeWords (typ : Int) (ht : Armorable typ) : ∃ sffx s1 s2, TypeWords typ sffx s1 s2 := by
  rcases ht with rfl | rfl | rfl
  · exact ⟨Gen.c_sp_EncryptionArmorString, [69, 78, 67, 82, 89, 80, 84, 69, 68], [77, 69, 83, 83, 65, 71, 69],
      by decide, by decide, by decide, by decide, by decide⟩
  · exact ⟨Gen.c_sp_SignedArmorString, [83, 73, 71, 78, 69, 68], [77, 69, 83, 83, 65, 71, 69],
      by decide, by decide, by decide, by decide, by decide⟩
  · exact ⟨Gen.c_sp_DetachedSignatureArmorString, [68, 69, 84, 65, 67, 72, 69, 68], [83, 73, 71, 78, 65, 84, 85, 82, 69],
      by decide, by decide, by decide, by decide, by decide⟩

theorem typeString_inj (typ typ' : Int) (ht : Armorable typ) (ht' : Armorable typ')
    (h : typeString typ = typeString typ') : typ = typ' := by
  rcases ht with rfl | rfl | rfl <;> rcases ht' with rfl | rfl | rfl <;>
    first | rfl | (exfalso; revert h; decide)

theorem upperName_ok : WordOK (upper Gen.c_sp_FormatName) := by decide
theorem upperName_len : (upper Gen.c_sp_FormatName).length = 8 := by decide
theorem headerMarker_ok : WordOK Gen.c_sp_headerMarker := by decide
theorem footerMarker_ok : WordOK Gen.c_sp_footerMarker := by decide

theorem brand_word (brand : Bytes) (hb : BrandOK brand) (hne : brand ≠ []) : WordOK brand :=
  ⟨hne, fun c hc => (alnum_facts c (hb.2 c hc)).1⟩

/-- the words of a frame -/
def frameWords (marker brand s1 s2 : Bytes) : List Bytes :=
  [marker] ++ (if brand.isEmpty then [] else [brand]) ++ [upper Gen.c_sp_FormatName, s1, s2]

theorem makeFrame_words (marker : Bytes) (typ : Int) (brand sffx s1 s2 : Bytes)
    (tw : TypeWords typ sffx s1 s2) :
    makeFrame marker typ brand = intercalateSp (frameWords marker brand s1 s2) := by
  unfold makeFrame frameWords
  rw [tw.ts]
  by_cases hb : brand.isEmpty = true <;> simp [hb, intercalateSp, tw.split]

theorem frameWords_ok (marker brand s1 s2 : Bytes) (hm : WordOK marker) (hb : BrandOK brand)
    (h1 : WordOK s1) (h2 : WordOK s2) : ∀ w ∈ frameWords marker brand s1 s2, WordOK w := by
  intro w hw
  unfold frameWords at hw
  by_cases hbe : brand.isEmpty = true
  · simp only [hbe, if_true, List.append_nil, List.cons_append, List.nil_append,
      List.mem_cons, List.not_mem_nil, or_false] at hw
    rcases hw with rfl | rfl | rfl | rfl
    · exact hm
    · exact upperName_ok
    · exact h1
    · exact h2
  · simp only [hbe, Bool.false_eq_true, if_false, List.cons_append, List.nil_append,
      List.mem_cons, List.not_mem_nil, or_false] at hw
    have hne : brand ≠ [] := by
      intro h; apply hbe; rw [h]; rfl
    rcases hw with rfl | rfl | rfl | rfl | rfl
    · exact hm
    · exact brand_word _ hb hne
    · exact upperName_ok
    · exact h1
    · exact h2

theorem frameWords_ne (marker brand s1 s2 : Bytes) : frameWords marker brand s1 s2 ≠ [] := by
  unfold frameWords; simp

/-- what we need of a canonical frame -/
theorem frame_canon (marker : Bytes) (hm : WordOK marker) (hml : marker.length ≤ 5) (typ : Int)
    (ht : Armorable typ) (brand : Bytes) (hb : BrandOK brand) :
    (∀ c ∈ makeFrame marker typ brand, validByte params62 c = true) ∧
    (∀ r, collapseAux r (makeFrame marker typ brand) = makeFrame marker typ brand) ∧
    trimSpace (makeFrame marker typ brand) = makeFrame marker typ brand ∧
    (makeFrame marker typ brand).length ≤ 200 := by
  obtain ⟨sffx, s1, s2, tw⟩ := typeWords typ ht
  have hws := frameWords_ok marker brand s1 s2 hm hb tw.w1 tw.w2
  rw [makeFrame_words marker typ brand sffx s1 s2 tw]
  refine ⟨?_, ?_, ?_, ?_⟩
  · intro c hc
    rcases mem_intercalateSp _ c hc with rfl | ⟨w, hw, hcw⟩
    · exact space_valid
    · exact (digit_facts c ((hws w hw).2 c hcw)).1
  · intro r
    exact collapseAux_intercalate _ (frameWords_ne _ _ _ _)
      (fun w hw => ⟨(hws w hw).1, fun c hc => (digit_facts c ((hws w hw).2 c hc)).2.1⟩) r
  · exact trimSpace_intercalate _
      (fun w hw => ⟨(hws w hw).1, fun c hc => ⟨(digit_facts c ((hws w hw).2 c hc)).2.2.1,
        digit_lt c ((hws w hw).2 c hc)⟩⟩)
  · have h8 := upperName_len
    have hl := tw.len
    have hbl := hb.1
    unfold frameWords
    by_cases hbe : brand.isEmpty = true
    · simp only [hbe, if_true, List.append_nil, List.cons_append, List.nil_append, intercalateSp,
        List.length_append, List.length_cons, List.length_nil]
      omega
    · simp only [hbe, Bool.false_eq_true, if_false, List.cons_append, List.nil_append, intercalateSp,
        List.length_append, List.length_cons, List.length_nil]
      omega

theorem maxFrame_eq : Gen.c_sp_maxFrameLength.toNat = 512 := by decide
theorem maxBrand_eq : Gen.c_sp_maxBrandLength.toNat = 128 := by decide

theorem splitSp_frame (marker brand s1 s2 : Bytes) (hm : WordOK marker) (hb : BrandOK brand)
    (h1 : WordOK s1) (h2 : WordOK s2) :
    splitSp (intercalateSp (frameWords marker brand s1 s2)) = frameWords marker brand s1 s2 := by
  have hws := frameWords_ok marker brand s1 s2 hm hb h1 h2
  have hsp : ∀ v ∈ frameWords marker brand s1 s2, ∀ c ∈ v, (c == space) = false :=
    fun v hv c hc => (digit_facts c ((hws v hv).2 c hc)).2.2.2.1
  revert hsp
  unfold frameWords
  intro hsp
  exact splitSp_intercalate _ _ hsp

/-- **`parseFrame` on anything that normalises to the canonical frame** -/
theorem parseFrame_canon (marker : Bytes) (hm : WordOK marker) (typ : Int) (ht : Armorable typ)
    (brand : Bytes) (hb : BrandOK brand) (m : Bytes) (hlen : m.length ≤ 512)
    (hnorm : trimSpace (collapse m) = makeFrame marker typ brand) :
    parseFrame m typ marker = .ok brand := by
  obtain ⟨sffx, s1, s2, tw⟩ := typeWords typ ht
  unfold parseFrame
  rw [maxFrame_eq, maxBrand_eq, if_neg (by omega)]
  simp only [hnorm, tw.ts]
  rw [makeFrame_words marker typ brand sffx s1 s2 tw, splitSp_frame marker brand s1 s2 hm hb tw.w1 tw.w2]
  unfold frameWords
  by_cases hbe : brand.isEmpty = true
  · have : brand = [] := List.isEmpty_iff.mp hbe
    subst this
    simp [tw.split]
  · have hbl := hb.1
    simp [hbe, tw.split]
    omega

/-- a frame of another type is rejected -/
theorem parseFrame_canon_wrong (marker : Bytes) (hm : WordOK marker) (typ typ' : Int)
    (ht : Armorable typ) (ht' : Armorable typ') (hne : typ ≠ typ')
    (brand : Bytes) (hb : BrandOK brand) (m : Bytes)
    (hnorm : trimSpace (collapse m) = makeFrame marker typ brand) :
    parseFrame m typ' marker = .error .badFrame := by
  obtain ⟨sffx, s1, s2, tw⟩ := typeWords typ ht
  obtain ⟨sffx', s1', s2', tw'⟩ := typeWords typ' ht'
  have hsne : sffx ≠ sffx' := by
    intro h
    apply hne
    apply typeString_inj typ typ' ht ht'
    rw [tw.ts, tw'.ts, h]
  unfold parseFrame
  split
  · rfl
  · simp only [hnorm, tw'.ts]
    rw [makeFrame_words marker typ brand sffx s1 s2 tw, splitSp_frame marker brand s1 s2 hm hb tw.w1 tw.w2]
    unfold frameWords
    have hsne' : s1 ++ 32 :: s2 ≠ sffx' := by
      intro h; apply hsne; rw [tw.split, ← h]; simp [space]
    by_cases hbe : brand.isEmpty = true
    · simp [hbe, hsne', space]
    · simp [hbe, hsne', space]

/-- the framed decoder on a three-period text with valid pieces, in terms of
    the frame checks -/
theorem open62_text (hdr' body' ftr' trail : Bytes) :
    hdr' ++ [period] ++ body' ++ [period] ++ ftr' ++ [period] ++ trail =
      hdr' ++ period :: (body' ++ period :: (ftr' ++ period :: trail)) := by
  simp

theorem decode_body (payload body' : Bytes)
    (hfil : Basex.filterSkip params62.enc body' = Basex.encode params62.enc payload) :
    Basex.decode params62.enc.strict (Basex.filterSkip params62.enc body') = .ok payload := by
  rw [hfil, ← encode_strict]
  exact decode_encode _ (strict_wf wf62) payload

theorem open62_some (typ : Int) (brand brand' payload hdr' body' ftr' trail : Bytes)
    (hh : (∀ c ∈ hdr', validByte params62 c = true) ∧ hdr'.length < 8192)
    (hf : (∀ c ∈ ftr', validByte params62 c = true) ∧ ftr'.length < 8192)
    (hbody : ∀ c ∈ body', validByte params62 c = true)
    (hfil : Basex.filterSkip params62.enc body' = Basex.encode params62.enc payload)
    (htrail : ∀ c ∈ trail, validByte params62 c = true)
    (hp : parseFrame (trimSpace hdr') typ Gen.c_sp_headerMarker = .ok brand)
    (hc : checkArmor62 (trimSpace hdr') (trimSpace ftr') typ = .ok brand') :
    open62 (some typ) (hdr' ++ [period] ++ body' ++ [period] ++ ftr' ++ [period] ++ trail) =
      .ok ⟨payload, brand, trimSpace hdr', trimSpace ftr'⟩ := by
  rw [open62_text]
  unfold open62 openPure
  have h1 : ¬ (hdr'.length ≥ frameLim) := by unfold frameLim; omega
  have h2 : ¬ (ftr'.length ≥ frameLim) := by unfold frameLim; omega
  simp only [splitAt1_append _ _ _ (valid_ne_period _ hh.1), splitAt1_append _ _ _ (valid_ne_period _ hbody),
    splitAt1_append _ _ _ (valid_ne_period _ hf.1), toASCII_valid _ hh.1, toASCII_valid _ hf.1,
    all_valid _ hbody, all_valid _ htrail, no_period _ htrail, decode_body payload body' hfil,
    if_neg h1, if_neg h2, hp, hc]
  simp

/-- **Tolerant dearmoring.** Any text of the form
    `hdr' . body' . ftr' . trail` where `hdr'`/`ftr'` are variants of the frames
    of (`typ`, `brand`), `body'` consists of valid bytes whose non-skip characters
    are exactly the base62 encoding of `payload`, and `trail` of valid bytes,
    dearmors — with the frame checks of `typ` — to `payload` and `brand`. -/
theorem open_variant (typ : Int) (ht : Armorable typ) (brand : Bytes) (hb : BrandOK brand)
    (payload hdr' body' ftr' trail : Bytes)
    (hh : FrameVariant (header typ brand) hdr') (hf : FrameVariant (footer typ brand) ftr')
    (hbody : ∀ c ∈ body', validByte params62 c = true)
    (hfil : Basex.filterSkip params62.enc body' = Basex.encode params62.enc payload)
    (htrail : ∀ c ∈ trail, validByte params62 c = true) :
    open62 (some typ) (hdr' ++ [period] ++ body' ++ [period] ++ ftr' ++ [period] ++ trail) =
      .ok ⟨payload, brand, trimSpace hdr', trimSpace ftr'⟩ := by
  have hnh := trim_collapse_trim hdr' (fun c hc => valid_lt c (hh.valid c hc)) (fun c hc => valid_trim_frame c (hh.valid c hc))
  have hnf := trim_collapse_trim ftr' (fun c hc => valid_lt c (hf.valid c hc)) (fun c hc => valid_trim_frame c (hf.valid c hc))
  have hp : parseFrame (trimSpace hdr') typ Gen.c_sp_headerMarker = .ok brand :=
    parseFrame_canon _ headerMarker_ok typ ht brand hb _ hh.len (by rw [hnh, hh.norm]; rfl)
  have hq : parseFrame (trimSpace ftr') typ Gen.c_sp_footerMarker = .ok brand :=
    parseFrame_canon _ footerMarker_ok typ ht brand hb _ hf.len (by rw [hnf, hf.norm]; rfl)
  have hc : checkArmor62 (trimSpace hdr') (trimSpace ftr') typ = .ok brand := by
    unfold checkArmor62
    simp [hp, hq]
  exact open62_some typ brand brand payload hdr' body' ftr' trail ⟨hh.valid, hh.lim⟩ ⟨hf.valid, hf.lim⟩
    hbody hfil htrail hp hc

/-- the same without frame validation (`Armor62Open`): payload and frames as received -/
theorem open_variant_novalidation (payload hdr' body' ftr' trail : Bytes)
    (hh : (∀ c ∈ hdr', validByte params62 c = true) ∧ hdr'.length < 8192)
    (hf : (∀ c ∈ ftr', validByte params62 c = true) ∧ ftr'.length < 8192)
    (hbody : ∀ c ∈ body', validByte params62 c = true)
    (hfil : Basex.filterSkip params62.enc body' = Basex.encode params62.enc payload)
    (htrail : ∀ c ∈ trail, validByte params62 c = true) :
    open62 none (hdr' ++ [period] ++ body' ++ [period] ++ ftr' ++ [period] ++ trail) =
      .ok ⟨payload, [], trimSpace hdr', trimSpace ftr'⟩ := by
  rw [open62_text]
  unfold open62 openPure
  have h1 : ¬ (hdr'.length ≥ frameLim) := by unfold frameLim; omega
  have h2 : ¬ (ftr'.length ≥ frameLim) := by unfold frameLim; omega
  simp only [splitAt1_append _ _ _ (valid_ne_period _ hh.1), splitAt1_append _ _ _ (valid_ne_period _ hbody),
    splitAt1_append _ _ _ (valid_ne_period _ hf.1), toASCII_valid _ hh.1, toASCII_valid _ hf.1,
    all_valid _ hbody, all_valid _ htrail, no_period _ htrail, decode_body payload body' hfil,
    if_neg h1, if_neg h2]
  simp

theorem header_variant (marker : Bytes) (hm : WordOK marker) (hml : marker.length ≤ 5) (typ : Int)
    (ht : Armorable typ) (brand : Bytes) (hb : BrandOK brand) :
    FrameVariant (makeFrame marker typ brand) (makeFrame marker typ brand) ∧
    FrameVariant (makeFrame marker typ brand) ([space] ++ makeFrame marker typ brand) ∧
    trimSpace ([space] ++ makeFrame marker typ brand) = makeFrame marker typ brand := by
  obtain ⟨hv, hc, htr, hl⟩ := frame_canon marker hm hml typ ht brand hb
  have hsp : ∀ c ∈ [space], isTrimSpace c = true := by simp; decide
  have htr' : trimSpace ([space] ++ makeFrame marker typ brand) = makeFrame marker typ brand := by
    rw [trimSpace_pre _ _ hsp, htr]
  refine ⟨⟨hv, ?_, ?_, ?_⟩, ⟨?_, ?_, ?_, ?_⟩, htr'⟩
  · unfold collapse; rw [hc, htr]
  · rw [htr]; omega
  · omega
  · intro c h
    simp only [List.singleton_append, List.mem_cons] at h
    rcases h with rfl | h
    · exact space_valid
    · exact hv c h
  · have hfs : isFrameSpace space = true := by decide
    unfold collapse
    simp only [List.singleton_append, collapseAux, hfs, if_true, Bool.false_eq_true, if_false, hc]
    exact htr'
  · rw [htr']; omega
  · simp only [List.singleton_append, List.length_cons]; omega

theorem words_chars (payload : Bytes) :
    ∀ w ∈ chunks params62.bytesPerWord (Basex.encode params62.enc payload),
      ∀ c ∈ w, (params62.enc.digit? c).isSome = true := by
  intro w hw c hc
  apply encode_chars params62.enc wf62 payload c
  rw [← chunks_flatten params62.bytesPerWord (Basex.encode params62.enc payload)]
  exact List.mem_flatten.mpr ⟨w, hw, hc⟩

/-- **The sealed text is such a variant** (so `open62 (seal62 …)` round-trips):
    it is `header . body . " " footer . "\n"` with `body` = a space, the encoded
    characters in words separated by single spaces/newlines, and the pad. -/
theorem seal_is_variant (typ : Int) (ht : Armorable typ) (brand : Bytes) (hb : BrandOK brand) (payload : Bytes) :
    ∃ body', seal62 typ brand payload =
        header typ brand ++ [period] ++ body' ++ [period] ++ ([space] ++ footer typ brand) ++ [period] ++ [newline] ∧
      FrameVariant (header typ brand) (header typ brand) ∧
      FrameVariant (footer typ brand) ([space] ++ footer typ brand) ∧
      (∀ c ∈ body', validByte params62 c = true) ∧
      Basex.filterSkip params62.enc body' = Basex.encode params62.enc payload := by
  obtain ⟨hv1, _, _⟩ := header_variant _ headerMarker_ok (by decide) typ ht brand hb
  obtain ⟨_, hv2, _⟩ := header_variant _ footerMarker_ok (by decide) typ ht brand hb
  have hwc := words_chars payload
  have hpad : ∀ (b1 b2 : Prop) [Decidable b1] [Decidable b2], ∀ c ∈ (if b1 then (if b2 then [newline] else [space]) else [] : Bytes),
      isFrameSpace c = true := by
    intro b1 b2 _ _ c hc
    split at hc
    · split at hc <;> (rw [List.mem_singleton] at hc; subst hc; decide)
    · simp at hc
  refine ⟨[space] ++ spaceWords params62 0 (chunks params62.bytesPerWord (Basex.encode params62.enc payload)) ++
      (if ((chunks params62.bytesPerWord (Basex.encode params62.enc payload)).getLast?.getD []).length = params62.bytesPerWord then
        (if (if (chunks params62.bytesPerWord (Basex.encode params62.enc payload)).isEmpty then 1
              else (chunks params62.bytesPerWord (Basex.encode params62.enc payload)).length) % params62.wordsPerLine = 0
          then [newline] else [space]) else []), ?_, hv1, hv2, ?_, ?_⟩
  · unfold seal62 sealText header footer
    simp only [List.append_assoc, List.cons_append, List.nil_append]
  · intro c hc
    simp only [List.mem_append] at hc
    rcases hc with (hc | hc) | hc
    · rw [List.mem_singleton] at hc; subst hc; exact space_valid
    · exact valid_spaceWords _ hwc 0 c hc
    · exact frameSpace_valid c (hpad _ _ c hc)
  · rw [filterSkip_append, filterSkip_append, filterSkip_spaceWords _ hwc 0,
      filterSkip_run [space] (by simp; decide), filterSkip_run _ (hpad _ _), chunks_flatten]
    simp

/-- **Round trip** of the sealed text itself -/
theorem open_seal (typ : Int) (ht : Armorable typ) (brand : Bytes) (hb : BrandOK brand) (payload : Bytes) :
    open62 (some typ) (seal62 typ brand payload) =
      .ok ⟨payload, brand, header typ brand, footer typ brand⟩ := by
  obtain ⟨_, _, htf⟩ := header_variant _ footerMarker_ok (by decide) typ ht brand hb
  obtain ⟨_, _, hth, _⟩ := frame_canon _ headerMarker_ok (by decide) typ ht brand hb
  obtain ⟨body', heq, hv1, hv2, hvalid, hfil⟩ := seal_is_variant typ ht brand hb payload
  rw [heq, open_variant typ ht brand hb payload _ body' _ [newline] hv1 hv2 hvalid hfil
    (by intro c hc; rw [List.mem_singleton] at hc; subst hc; exact newline_valid)]
  unfold header footer at *
  rw [hth, htf]

/-- inserting a run of skip characters anywhere in the body keeps it a body of
    the same payload -/
theorem body_insert (a b run : Bytes)
    (hr : ∀ c ∈ run, isFrameSpace c = true) :
    Basex.filterSkip params62.enc (a ++ run ++ b) = Basex.filterSkip params62.enc (a ++ b) ∧
    ((∀ c ∈ a ++ b, validByte params62 c = true) → ∀ c ∈ a ++ run ++ b, validByte params62 c = true) := by
  constructor
  · rw [filterSkip_append, filterSkip_append, filterSkip_append, filterSkip_run run hr]
    simp
  · intro h c hc
    simp only [List.mem_append] at hc h
    rcases hc with (hc | hc) | hc
    · exact h c (Or.inl hc)
    · exact frameSpace_valid c (hr c hc)
    · exact h c (Or.inr hc)

/-- replacing a separating space of a frame by a non-empty run, or adding runs
    around it, keeps it a variant (as long as the trimmed frame stays ≤ 512 and
    the whole < 8192) -/
theorem frame_reflow (f a b run : Bytes) (hv : FrameVariant f (a ++ [space] ++ b))
    (hr : ∀ c ∈ run, isFrameSpace c = true) (hne : run ≠ [])
    (hlen : (trimSpace (a ++ run ++ b)).length ≤ 512) (hlim : (a ++ run ++ b).length < 8192) :
    FrameVariant f (a ++ run ++ b) := by
  refine ⟨?_, ?_, hlen, hlim⟩
  · intro c hc
    simp only [List.mem_append] at hc
    rcases hc with (hc | hc) | hc
    · exact hv.valid c (by simp [hc])
    · exact frameSpace_valid c (hr c hc)
    · exact hv.valid c (by simp [hc])
  · rw [← hv.norm]
    unfold collapse
    have hsp : ∀ c ∈ [space], isFrameSpace c = true := by simp; decide
    rw [List.append_assoc, List.append_assoc, collapseAux_append, collapseAux_append a,
      collapseAux_run run b hr hne, collapseAux_run [space] b hsp (by simp)]

theorem frame_surround (f f' pre post : Bytes) (hv : FrameVariant f f')
    (hpre : ∀ c ∈ pre, isTrimSpace c = true ∧ isFrameSpace c = true)
    (hpost : ∀ c ∈ post, isTrimSpace c = true ∧ isFrameSpace c = true)
    (hlim : (pre ++ f' ++ post).length < 8192) :
    FrameVariant f (pre ++ f' ++ post) := by
  refine ⟨?_, ?_, ?_, hlim⟩
  · intro c hc
    simp only [List.mem_append] at hc
    rcases hc with (hc | hc) | hc
    · exact frameSpace_valid c (hpre c hc).2
    · exact hv.valid c hc
    · exact frameSpace_valid c (hpost c hc).2
  · rw [trim_collapse_surround pre f' post (fun c hc => (hpre c hc).2) (fun c hc => (hpost c hc).2)]
    exact hv.norm
  · rw [trimSpace_surround pre f' post (fun c hc => (hpre c hc).1) (fun c hc => (hpost c hc).1)]
    exact hv.len

/-! ### shape -/

/-- the frames are `BEGIN|END [brand] SALTPACK <type>` -/
theorem header_shape (typ : Int) (sffx : Bytes) (ht : typeString typ = some sffx) (brand : Bytes) :
    header typ brand =
      (if brand.isEmpty then Gen.c_sp_headerMarker ++ [space] ++ upper Gen.c_sp_FormatName ++ [space] ++ sffx
       else Gen.c_sp_headerMarker ++ [space] ++ brand ++ [space] ++ upper Gen.c_sp_FormatName ++ [space] ++ sffx) ∧
    footer typ brand =
      (if brand.isEmpty then Gen.c_sp_footerMarker ++ [space] ++ upper Gen.c_sp_FormatName ++ [space] ++ sffx
       else Gen.c_sp_footerMarker ++ [space] ++ brand ++ [space] ++ upper Gen.c_sp_FormatName ++ [space] ++ sffx) := by
  unfold header footer makeFrame
  rw [ht]
  by_cases hb : brand.isEmpty = true <;> simp [hb, intercalateSp]

/-- every word of the body is at most 15 base62 characters, and exactly every
    200th word separator is a newline -/
theorem words_shape (payload : Bytes) :
    ∀ w ∈ chunks params62.bytesPerWord (Basex.encode params62.enc payload),
      w.length ≤ 15 ∧ w ≠ [] ∧ ∀ c ∈ w, (params62.enc.digit? c).isSome := by
  intro w hw
  have h := chunks_mem_length params62.bytesPerWord (by decide) _ _ (Nat.le_refl _) w hw
  refine ⟨h.2, ?_, ?_⟩
  · intro he; rw [he] at h; simp at h
  · intro c hc
    rw [words_chars payload w hw c hc]

/-! ### rejection -/

/-- a frame of one armorable type does not parse as another type -/
theorem parse_wrong_type (typ typ' : Int) (ht : Armorable typ) (ht' : Armorable typ') (hne : typ ≠ typ')
    (brand f' : Bytes) (hb : BrandOK brand) (hv : FrameVariant (header typ brand) f') :
    ∃ e, parseFrame (trimSpace f') typ' Gen.c_sp_headerMarker = .error e := by
  refine ⟨.badFrame, ?_⟩
  apply parseFrame_canon_wrong _ headerMarker_ok typ typ' ht ht' hne brand hb
  rw [trim_collapse_trim f' (fun c hc => valid_lt c (hv.valid c hc)) (fun c hc => valid_trim_frame c (hv.valid c hc)), hv.norm]
  rfl

/-- `CheckArmor62` succeeds only if both frames parse for the type and carry
    the same brand -/
theorem check_sound (hdr ftr : Bytes) (typ : Int) (brand : Bytes) (h : checkArmor62 hdr ftr typ = .ok brand) :
    parseFrame hdr typ Gen.c_sp_headerMarker = .ok brand ∧ parseFrame ftr typ Gen.c_sp_footerMarker = .ok brand := by
  unfold checkArmor62 at h
  split at h
  · exact absurd h (by simp)
  · rename_i b1 h1
    split at h
    · exact absurd h (by simp)
    · rename_i b2 h2
      split at h
      · exact absurd h (by simp)
      · rename_i hne
        injection h with h
        subst h
        have : b2 = b1 := by simpa using hne
        subst this
        exact ⟨h1, h2⟩

/-- over-long frames are rejected (512 after trimming; 8192 raw) -/
theorem parse_too_long (m : Bytes) (typ : Int) (marker : Bytes) (h : 512 < m.length) :
    parseFrame m typ marker = .error .badFrame := by
  unfold parseFrame
  rw [maxFrame_eq, if_pos (by omega)]

/-- a parsed brand is never longer than 128 -/
theorem parse_brand_len (m : Bytes) (typ : Int) (marker brand : Bytes) (h : parseFrame m typ marker = .ok brand) :
    brand.length ≤ 128 := by
  unfold parseFrame at h
  rw [maxBrand_eq] at h
  split at h
  · exact absurd h (by simp)
  · simp only at h
    split at h
    · exact absurd h (by simp)
    · split at h
      · exact absurd h (by simp)
      · split at h
        · exact absurd h (by simp)
        · split at h
          · exact absurd h (by simp)
          · split at h
            · exact absurd h (by simp)
            · split at h
              · split at h
                · exact absurd h (by simp)
                · injection h with h
                  subst h
                  omega
              · injection h with h
                subst h
                simp

end Saltpack.Proofs
