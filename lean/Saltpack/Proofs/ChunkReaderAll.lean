/-
  chunkReader (chunk_reader.go), read-fragmentation independence for an
  arbitrary chunker `next`:  however the caller sizes its `Read` buffers, the
  bytes handed out are the concatenation of the chunks up to the first
  condition, then that condition; the condition is sticky.

  Core Lean only.
-/
import Saltpack.Model.Stream
import Saltpack.Proofs.StreamLemmas

namespace Saltpack.Proofs
open Saltpack Saltpack.Stream

/-- the chunks a chunker hands out until its first condition (`fuel` bounds the number of calls) -/
def chunkTrace {σ : Type} (next : σ → Bytes × Option RErr × σ) : (fuel : Nat) → σ → List Bytes × Option RErr
  | 0, _ => ([], none)
  | f + 1, s =>
    match next s with
    | (c, some e, _) => ([c], some e)
    | (c, none, s') => let r := chunkTrace next f s'; (c :: r.1, r.2)

/-- read to the end with buffer sizes `caps` (cycled): concatenation of what every `Read` returned, and the first condition reported -/
def crReadAll {σ : Type} (next : σ → Bytes × Option RErr × σ) (caps : List Nat) (inner : Nat) :
    (fuel : Nat) → Nat → CRState σ → Bytes → Bytes × Option RErr × CRState σ
  | 0, _, s, acc => (acc, none, s)
  | fuel + 1, k, s, acc =>
    let cap := caps.getD (k % caps.length) 1
    let (d, e, s1) := crRead next cap inner s []
    match e with
    | none => crReadAll next caps inner fuel (k + 1) s1 (acc ++ d)
    | some x => (acc ++ d, some x, s1)

/-- what the model reports where the Go code panics (empty chunk, no error) -/
def crPanic : RErr := .err (.panic "chunkReader")

/-! ### `chunkTrace` -/

section
variable {σ : Type} (next : σ → Bytes × Option RErr × σ)

theorem chunkTrace_succ_some {s s' : σ} {c : Bytes} {e : RErr} (f : Nat) (h : next s = (c, some e, s')) :
    chunkTrace next (f + 1) s = ([c], some e) := by
  simp [chunkTrace, h]

theorem chunkTrace_succ_none {s s' : σ} {c : Bytes} (f : Nat) (h : next s = (c, none, s')) :
    chunkTrace next (f + 1) s = (c :: (chunkTrace next f s').1, (chunkTrace next f s').2) := by
  simp [chunkTrace, h]

/-- a trace that ends in a condition has at least one chunk (the one delivered with the condition) -/
theorem chunkTrace_ne_nil : ∀ (n : Nat) (s : σ) (cs : List Bytes) (e : RErr),
    chunkTrace next n s = (cs, some e) → cs ≠ [] := by
  intro n s cs e h
  cases n with
  | zero => simp [chunkTrace] at h
  | succ n =>
    rcases hn : next s with ⟨c, eo, s'⟩
    cases eo with
    | some x =>
      rw [chunkTrace_succ_some next n hn] at h
      simp only [Prod.mk.injEq] at h
      rw [← h.1]; simp
    | none =>
      rw [chunkTrace_succ_none next n hn] at h
      simp only [Prod.mk.injEq] at h
      rw [← h.1]; simp

/-- the number of chunks is the number of calls made, at most the fuel -/
theorem chunkTrace_length_le : ∀ (n : Nat) (s : σ), (chunkTrace next n s).1.length ≤ n := by
  intro n
  induction n with
  | zero => intro s; simp [chunkTrace]
  | succ n ih =>
    intro s
    rcases hn : next s with ⟨c, eo, s'⟩
    cases eo with
    | some x => rw [chunkTrace_succ_some next n hn]; simp
    | none =>
      rw [chunkTrace_succ_none next n hn]
      have := ih s'
      simp only [List.length_cons]; omega

/-- more fuel does not change a trace that reached its condition -/
theorem chunkTrace_mono : ∀ (n m : Nat) (s : σ) (cs : List Bytes) (e : RErr),
    chunkTrace next n s = (cs, some e) → n ≤ m → chunkTrace next m s = (cs, some e) := by
  intro n
  induction n with
  | zero => intro m s cs e h; simp [chunkTrace] at h
  | succ n ih =>
    intro m s cs e h hm
    obtain ⟨m, rfl⟩ : ∃ m', m = m' + 1 := ⟨m - 1, by omega⟩
    rcases hn : next s with ⟨c, eo, s'⟩
    cases eo with
    | some x =>
      rw [chunkTrace_succ_some next n hn] at h
      rw [chunkTrace_succ_some next m hn]; exact h
    | none =>
      rw [chunkTrace_succ_none next n hn] at h
      rw [chunkTrace_succ_none next m hn]
      simp only [Prod.mk.injEq] at h
      have h' : chunkTrace next n s' = ((chunkTrace next n s').1, some e) := by rw [← h.2]
      rw [ih m s' _ e h' (by omega)]
      simp [h.1]

/-! ### one `crRead` step -/

theorem crRead_succ_nofit (cap f : Nat) (s : CRState σ) (acc : Bytes)
    (h : cap - acc.length < s.prevChunk.length) :
    crRead next cap (f + 1) s acc =
      (acc ++ s.prevChunk.take (cap - acc.length), none, { s with prevChunk := s.prevChunk.drop (cap - acc.length) }) := by
  have : (s.prevChunk.drop (cap - acc.length)).isEmpty = false := by
    cases hd : s.prevChunk.drop (cap - acc.length) with
    | nil => have := congrArg List.length hd; simp at this; omega
    | cons a l => rfl
  unfold crRead
  simp [this]

theorem drop_isEmpty_of_le {l : Bytes} {k : Nat} (h : l.length ≤ k) : (l.drop k).isEmpty = true := by
  rw [List.drop_of_length_le h]; rfl

theorem crRead_succ_err (cap f : Nat) (s : CRState σ) (acc : Bytes) (e : RErr)
    (h : s.prevChunk.length ≤ cap - acc.length) (he : s.prevErr = some e) :
    crRead next cap (f + 1) s acc = (acc ++ s.prevChunk, some e, { s with prevChunk := [] }) := by
  unfold crRead
  simp [drop_isEmpty_of_le h, List.take_of_length_le h, he]

theorem crRead_succ_fetch (cap f : Nat) (s : CRState σ) (acc : Bytes) (c : Bytes) (eo : Option RErr) (s' : σ)
    (h : s.prevChunk.length ≤ cap - acc.length) (he : s.prevErr = none)
    (hn : next s.chunker = (c, eo, s')) (hnp : c ≠ [] ∨ eo ≠ none) :
    crRead next cap (f + 1) s acc =
      crRead next cap f { chunker := s', prevChunk := c, prevErr := eo } (acc ++ s.prevChunk) := by
  have hp : (c.isEmpty && eo.isNone) = false := by
    cases c <;> cases eo <;> simp_all
  rw [crRead]
  simp [drop_isEmpty_of_le h, List.take_of_length_le h, he, hn, hp]

theorem crRead_succ_panic (cap f : Nat) (s : CRState σ) (acc : Bytes) (s' : σ)
    (h : s.prevChunk.length ≤ cap - acc.length) (he : s.prevErr = none)
    (hn : next s.chunker = ([], none, s')) :
    crRead next cap (f + 1) s acc =
      (acc ++ s.prevChunk, some crPanic, { s with prevChunk := [], chunker := s' }) := by
  rw [crRead]
  simp [drop_isEmpty_of_le h, List.take_of_length_le h, he, hn, crPanic]

/-- a `Read` never returns more than the caller's buffer (any chunker, any fuel) -/
theorem crRead_length_le (cap : Nat) : ∀ (f : Nat) (s : CRState σ) (acc : Bytes), acc.length ≤ cap →
    (crRead next cap f s acc).1.length ≤ cap := by
  intro f
  induction f with
  | zero => intro s acc h; simpa [crRead] using h
  | succ f ih =>
    intro s acc hacc
    by_cases hfit : s.prevChunk.length ≤ cap - acc.length
    · have hacc' : (acc ++ s.prevChunk).length ≤ cap := by rw [List.length_append]; omega
      cases he : s.prevErr with
      | some e => rw [crRead_succ_err next cap f s acc e hfit he]; exact hacc'
      | none =>
        rcases hn : next s.chunker with ⟨c, eo, s'⟩
        by_cases hnp : c ≠ [] ∨ eo ≠ none
        · rw [crRead_succ_fetch next cap f s acc c eo s' hfit he hn hnp]
          exact ih _ _ hacc'
        · have hc : c = [] := by
            by_cases hc : c = []
            · exact hc
            · exact absurd (Or.inl hc) hnp
          have heo : eo = none := by
            by_cases heo : eo = none
            · exact heo
            · exact absurd (Or.inr heo) hnp
          subst hc heo
          rw [crRead_succ_panic next cap f s acc s' hfit he hn]; exact hacc'
    · rw [crRead_succ_nofit next cap f s acc (by omega)]
      simp only [List.length_append, List.length_take]; omega

/-! ### the invariant: what is still to be delivered, and the condition after it -/

/-- `P` is what state `s` still has to deliver (the pending chunk, then the
    chunks up to and including the one that carries the condition) and `e` the
    condition reported after it; no fetch on the way is the panic case -/
def CRInv (n : Nat) (s : CRState σ) (P : Bytes) (e : RErr) : Prop :=
  (s.prevErr = some e ∧ P = s.prevChunk) ∨
  (s.prevErr = none ∧ ∃ cs, chunkTrace next n s.chunker = (cs, some e) ∧
    (∀ c ∈ cs.dropLast, c ≠ []) ∧ P = s.prevChunk ++ cs.flatten)

theorem CRInv_mono {n m : Nat} {s : CRState σ} {P : Bytes} {e : RErr} (h : CRInv next n s P e) (hm : n ≤ m) :
    CRInv next m s P e := by
  rcases h with h | ⟨h1, cs, h2, h3, h4⟩
  · exact Or.inl h
  · exact Or.inr ⟨h1, cs, chunkTrace_mono next n m _ cs e h2 hm, h3, h4⟩

theorem CRInv_init {n : Nat} {s0 : σ} {cs : List Bytes} {e : RErr} (h : chunkTrace next n s0 = (cs, some e))
    (hne : ∀ c ∈ cs.dropLast, c ≠ []) : CRInv next n { chunker := s0 } cs.flatten e :=
  Or.inr ⟨rfl, cs, h, hne, by simp⟩

/-- one `Read` (general accumulator form): if everything pending fits into the
    room left in the buffer it is all handed out together with the condition,
    and the state becomes terminal; otherwise exactly `room` bytes are handed
    out with no condition and the rest stays pending -/
theorem crRead_step (cap : Nat) (e : RErr) : ∀ (n inner : Nat) (s : CRState σ) (acc P : Bytes),
    CRInv next n s P e → n + 1 ≤ inner →
    (P.length ≤ cap - acc.length →
      ∃ s', crRead next cap inner s acc = (acc ++ P, some e, s') ∧ s'.prevChunk = [] ∧ s'.prevErr = some e) ∧
    (cap - acc.length < P.length →
      ∃ s', crRead next cap inner s acc = (acc ++ P.take (cap - acc.length), none, s') ∧
        CRInv next n s' (P.drop (cap - acc.length)) e) := by
  -- the case of a state that already holds its condition
  have hsome : ∀ (n inner : Nat) (s : CRState σ) (acc P : Bytes), s.prevErr = some e → P = s.prevChunk → 1 ≤ inner →
      (P.length ≤ cap - acc.length →
        ∃ s', crRead next cap inner s acc = (acc ++ P, some e, s') ∧ s'.prevChunk = [] ∧ s'.prevErr = some e) ∧
      (cap - acc.length < P.length →
        ∃ s', crRead next cap inner s acc = (acc ++ P.take (cap - acc.length), none, s') ∧
          CRInv next n s' (P.drop (cap - acc.length)) e) := by
    intro n inner s acc P he hP hi
    obtain ⟨f, rfl⟩ : ∃ f, inner = f + 1 := ⟨inner - 1, by omega⟩
    subst hP
    constructor
    · intro hfit
      exact ⟨_, crRead_succ_err next cap f s acc e hfit he, rfl, he⟩
    · intro hno
      exact ⟨_, crRead_succ_nofit next cap f s acc hno, Or.inl ⟨he, rfl⟩⟩
  intro n
  induction n with
  | zero =>
    intro inner s acc P hinv hi
    rcases hinv with ⟨he, hP⟩ | ⟨_, cs, h2, _, _⟩
    · exact hsome 0 inner s acc P he hP hi
    · simp [chunkTrace] at h2
  | succ n ih =>
    intro inner s acc P hinv hi
    rcases hinv with ⟨he, hP⟩ | ⟨he, cs, htr, hne, hP⟩
    · exact hsome (n + 1) inner s acc P he hP (by omega)
    · obtain ⟨f, rfl⟩ : ∃ f, inner = f + 1 := ⟨inner - 1, by omega⟩
      by_cases hfit : s.prevChunk.length ≤ cap - acc.length
      · -- the pending chunk is consumed; fetch the next one
        rcases hn : next s.chunker with ⟨c, eo, s'⟩
        -- the state after the fetch satisfies the invariant with one call less
        have key : (c ≠ [] ∨ eo ≠ none) ∧
            ∃ P2, P = s.prevChunk ++ P2 ∧
              CRInv next n { chunker := s', prevChunk := c, prevErr := eo } P2 e := by
          cases eo with
          | some x =>
            rw [chunkTrace_succ_some next n hn] at htr
            simp only [Prod.mk.injEq, Option.some.injEq] at htr
            obtain ⟨rfl, rfl⟩ := htr
            exact ⟨Or.inr (by simp), c, by simpa using hP, Or.inl ⟨rfl, rfl⟩⟩
          | none =>
            rw [chunkTrace_succ_none next n hn] at htr
            simp only [Prod.mk.injEq] at htr
            obtain ⟨hcs, h2⟩ := htr
            have htr' : chunkTrace next n s' = ((chunkTrace next n s').1, some e) := by rw [← h2]
            have hnn := chunkTrace_ne_nil next n s' _ e htr'
            subst hcs
            rw [List.dropLast_cons_of_ne_nil hnn] at hne
            refine ⟨Or.inl (hne c (by simp)), c ++ (chunkTrace next n s').1.flatten, by simpa using hP,
              Or.inr ⟨rfl, _, htr', fun c' hc' => hne c' (List.mem_cons_of_mem _ hc'), rfl⟩⟩
        obtain ⟨hnp, P2, hP2, hinv2⟩ := key
        rw [crRead_succ_fetch next cap f s acc c eo s' hfit he hn hnp]
        obtain ⟨i1, i2⟩ := ih f _ (acc ++ s.prevChunk) P2 hinv2 (by omega)
        have hroom : cap - (acc ++ s.prevChunk).length = cap - acc.length - s.prevChunk.length := by
          rw [List.length_append]; omega
        rw [hroom] at i1 i2
        subst hP2
        constructor
        · intro hle
          rw [List.length_append] at hle
          obtain ⟨t, ht, ht2⟩ := i1 (by omega)
          exact ⟨t, by rw [ht, List.append_assoc], ht2⟩
        · intro hlt
          rw [List.length_append] at hlt
          obtain ⟨t, ht, ht2⟩ := i2 (by omega)
          refine ⟨t, ?_, ?_⟩
          · rw [ht, List.take_append, List.take_of_length_le hfit, List.append_assoc]
          · rw [List.drop_append, List.drop_of_length_le hfit, List.nil_append]
            exact CRInv_mono next ht2 (by omega)
      · -- the pending chunk alone fills the buffer
        have hno : cap - acc.length < s.prevChunk.length := by omega
        subst hP
        constructor
        · intro hle
          rw [List.length_append] at hle; omega
        · intro _
          rw [List.take_append_of_le_length (by omega), List.drop_append_of_le_length (by omega)]
          exact ⟨_, crRead_succ_nofit next cap f s acc hno, Or.inr ⟨he, cs, htr, hne, rfl⟩⟩

/-- one `Read(p)`, `len(p) = cap`, as the caller sees it -/
theorem crRead_call (cap : Nat) (e : RErr) (n inner : Nat) (s : CRState σ) (P : Bytes)
    (hinv : CRInv next n s P e) (hi : n + 1 ≤ inner) :
    (P.length ≤ cap →
      ∃ s', crRead next cap inner s [] = (P, some e, s') ∧ s'.prevChunk = [] ∧ s'.prevErr = some e) ∧
    (cap < P.length →
      ∃ s', crRead next cap inner s [] = (P.take cap, none, s') ∧ CRInv next n s' (P.drop cap) e) := by
  simpa using crRead_step next cap e n inner s [] P hinv hi

/-- progress: with a non-empty buffer (and enough fuel for the chunker to
    reach its condition) a `Read` returns at least one byte or a condition,
    and never more than `cap` bytes -/
theorem crRead_progress (cap : Nat) (e : RErr) (n inner : Nat) (s : CRState σ) (P : Bytes)
    (hinv : CRInv next n s P e) (hi : n + 1 ≤ inner) (hcap : 0 < cap) :
    (crRead next cap inner s []).1.length ≤ cap ∧
    ((crRead next cap inner s []).1 ≠ [] ∨ (crRead next cap inner s []).2.1 ≠ none) := by
  refine ⟨crRead_length_le next cap inner s [] (by simp), ?_⟩
  obtain ⟨h1, h2⟩ := crRead_call next cap e n inner s P hinv hi
  by_cases h : P.length ≤ cap
  · obtain ⟨t, ht, _⟩ := h1 h
    rw [ht]; exact Or.inr (by simp)
  · obtain ⟨t, ht, _⟩ := h2 (by omega)
    rw [ht]; left
    intro h0
    have := congrArg List.length h0
    simp only [List.length_take, List.length_nil] at this
    omega

/-! ### stickiness -/

/-- a terminal state reports its condition again, with no bytes, and stays put -/
theorem crRead_terminal_state (cap inner : Nat) (s : CRState σ) (x : RErr)
    (hc : s.prevChunk = []) (he : s.prevErr = some x) (hi : 1 ≤ inner) :
    crRead next cap inner s [] = ([], some x, s) := by
  obtain ⟨f, rfl⟩ : ∃ f, inner = f + 1 := ⟨inner - 1, by omega⟩
  rw [crRead_succ_err next cap f s [] x (by simp [hc]) he]
  obtain ⟨a, b, c⟩ := s
  simp only at hc he
  subst hc he
  rfl

/-- whenever a `Read` reports a condition other than the model's panic marker,
    the state it leaves is terminal (for any chunker, any accumulator, any fuel) -/
theorem crRead_cond_state (cap : Nat) : ∀ (f : Nat) (s : CRState σ) (acc d : Bytes) (x : RErr) (s1 : CRState σ),
    crRead next cap f s acc = (d, some x, s1) → x ≠ crPanic →
    s1.prevChunk = [] ∧ s1.prevErr = some x := by
  intro f
  induction f with
  | zero => intro s acc d x s1 h; simp [crRead] at h
  | succ f ih =>
    intro s acc d x s1 h hx
    by_cases hfit : s.prevChunk.length ≤ cap - acc.length
    · cases he : s.prevErr with
      | some e =>
        rw [crRead_succ_err next cap f s acc e hfit he] at h
        simp only [Prod.mk.injEq, Option.some.injEq] at h
        obtain ⟨_, rfl, rfl⟩ := h
        exact ⟨rfl, he⟩
      | none =>
        rcases hn : next s.chunker with ⟨c, eo, s'⟩
        by_cases hnp : c ≠ [] ∨ eo ≠ none
        · rw [crRead_succ_fetch next cap f s acc c eo s' hfit he hn hnp] at h
          exact ih _ _ _ _ _ h hx
        · have hc : c = [] := by
            by_cases hc : c = []
            · exact hc
            · exact absurd (Or.inl hc) hnp
          have heo : eo = none := by
            by_cases heo : eo = none
            · exact heo
            · exact absurd (Or.inr heo) hnp
          subst hc heo
          rw [crRead_succ_panic next cap f s acc s' hfit he hn] at h
          simp only [Prod.mk.injEq, Option.some.injEq] at h
          exact absurd h.2.1.symm hx
    · rw [crRead_succ_nofit next cap f s acc (by omega)] at h
      simp at h

/-- the condition is sticky: once a `Read` has reported `x` (not the panic
    marker, where the Go code does not return at all), every later `Read`,
    whatever its buffer size, returns no bytes and `x` again, and leaves the
    state unchanged -/
theorem crRead_sticky (cap inner : Nat) (s : CRState σ) (d : Bytes) (x : RErr) (s1 : CRState σ)
    (h : crRead next cap inner s [] = (d, some x, s1)) (hx : x ≠ crPanic)
    (cap' inner' : Nat) (hi : 1 ≤ inner') :
    crRead next cap' inner' s1 [] = ([], some x, s1) := by
  obtain ⟨hc, he⟩ := crRead_cond_state next cap inner s [] d x s1 h hx
  exact crRead_terminal_state next cap' inner' s1 x hc he hi

/-! ### reading to the end -/

theorem crReadAll_aux (caps : List Nat) (hcaps : ∀ c ∈ caps, 0 < c) (e : RErr) (n inner : Nat) (hi : n + 1 ≤ inner) :
    ∀ (fuel k : Nat) (s : CRState σ) (acc P : Bytes), CRInv next n s P e → P.length + 1 ≤ fuel →
      ∃ s', crReadAll next caps inner fuel k s acc = (acc ++ P, some e, s') ∧
        s'.prevChunk = [] ∧ s'.prevErr = some e := by
  intro fuel
  induction fuel with
  | zero => intro k s acc P _ h; omega
  | succ fuel ih =>
    intro k s acc P hinv hf
    have hcap : 0 < caps.getD (k % caps.length) 1 := by
      rw [List.getD_eq_getElem?_getD]
      cases hg : caps[k % caps.length]? with
      | none => simp
      | some c => exact hcaps c (List.mem_of_getElem? hg)
    generalize hcapdef : caps.getD (k % caps.length) 1 = cap at hcap
    obtain ⟨h1, h2⟩ := crRead_call next cap e n inner s P hinv hi
    by_cases h : P.length ≤ cap
    · obtain ⟨t, ht, ht2⟩ := h1 h
      refine ⟨t, ?_, ht2⟩
      simp only [crReadAll, hcapdef, ht]
    · obtain ⟨t, ht, ht2⟩ := h2 (by omega)
      have hlen : (P.drop cap).length + 1 ≤ fuel := by
        rw [List.length_drop]; omega
      obtain ⟨u, hu, hu2⟩ := ih (k + 1) t (acc ++ P.take cap) (P.drop cap) ht2 hlen
      refine ⟨u, ?_, hu2⟩
      simp only [crReadAll, hcapdef, ht]
      rw [hu, List.append_assoc, List.take_append_drop]

/-- **read-fragmentation independence of `chunkReader`.**  Let the chunker hand
    out the chunks `cs` and then (with the last of them) its first condition
    `e` within `n` calls, none of them the panic case (empty chunk, no error).
    Then reading to the end with ANY sequence of positive buffer sizes returns
    exactly the concatenation of the chunks, then `e`, and leaves the reader in
    the terminal state (so `e` is reported again by every later call,
    `crRead_terminal_state`). -/
theorem crReadAll_eq (σ0 : σ) (n : Nat) (cs : List Bytes) (e : RErr)
    (htr : chunkTrace next n σ0 = (cs, some e)) (hne : ∀ c ∈ cs.dropLast, c ≠ [])
    (caps : List Nat) (hcaps : ∀ c ∈ caps, 0 < c)
    (inner : Nat) (hi : n + 1 ≤ inner) (fuel : Nat) (hf : cs.flatten.length + 1 ≤ fuel) :
    (crReadAll next caps inner fuel 0 { chunker := σ0 } []).1 = cs.flatten ∧
    (crReadAll next caps inner fuel 0 { chunker := σ0 } []).2.1 = some e ∧
    (crReadAll next caps inner fuel 0 { chunker := σ0 } []).2.2.prevChunk = [] ∧
    (crReadAll next caps inner fuel 0 { chunker := σ0 } []).2.2.prevErr = some e := by
  obtain ⟨t, ht, ht2⟩ := crReadAll_aux next caps hcaps e n inner hi fuel 0 { chunker := σ0 } [] cs.flatten
    (CRInv_init next htr hne) hf
  rw [ht]
  exact ⟨by simp, rfl, ht2⟩

/-- two buffer-size sequences (and two fuel settings) give the same bytes and
    the same condition -/
theorem crReadAll_caps_independent (σ0 : σ) (n : Nat) (cs : List Bytes) (e : RErr)
    (htr : chunkTrace next n σ0 = (cs, some e)) (hne : ∀ c ∈ cs.dropLast, c ≠ [])
    (caps caps' : List Nat) (hcaps : ∀ c ∈ caps, 0 < c) (hcaps' : ∀ c ∈ caps', 0 < c)
    (inner inner' : Nat) (hi : n + 1 ≤ inner) (hi' : n + 1 ≤ inner')
    (fuel fuel' : Nat) (hf : cs.flatten.length + 1 ≤ fuel) (hf' : cs.flatten.length + 1 ≤ fuel') :
    (crReadAll next caps inner fuel 0 { chunker := σ0 } []).1 =
      (crReadAll next caps' inner' fuel' 0 { chunker := σ0 } []).1 ∧
    (crReadAll next caps inner fuel 0 { chunker := σ0 } []).2.1 =
      (crReadAll next caps' inner' fuel' 0 { chunker := σ0 } []).2.1 := by
  obtain ⟨a1, a2, _⟩ := crReadAll_eq next σ0 n cs e htr hne caps hcaps inner hi fuel hf
  obtain ⟨b1, b2, _⟩ := crReadAll_eq next σ0 n cs e htr hne caps' hcaps' inner' hi' fuel' hf'
  exact ⟨by rw [a1, b1], by rw [a2, b2]⟩

/-! ### bounded buffering: one pending chunk -/

/-- **chunkReader holds at most one chunk.**  Its only buffer is `prevChunk`;
    after a `Read` (any chunker, any buffer size, any accumulator) what is left
    pending is a suffix of what was pending before, or a suffix of ONE chunk
    that `getNextChunk` returned during this call — earlier chunks were handed
    out completely before the next one was fetched. -/
theorem crRead_one_chunk (cap : Nat) : ∀ (f : Nat) (s : CRState σ) (acc : Bytes),
    (crRead next cap f s acc).2.2.prevChunk <:+ s.prevChunk ∨
    ∃ σ1, (crRead next cap f s acc).2.2.prevChunk <:+ (next σ1).1 := by
  intro f
  induction f with
  | zero => intro s acc; left; simp [crRead]
  | succ f ih =>
    intro s acc
    by_cases hfit : s.prevChunk.length ≤ cap - acc.length
    · cases he : s.prevErr with
      | some e =>
        rw [crRead_succ_err next cap f s acc e hfit he]
        left; exact List.nil_suffix
      | none =>
        rcases hn : next s.chunker with ⟨c, eo, s'⟩
        by_cases hnp : c ≠ [] ∨ eo ≠ none
        · rw [crRead_succ_fetch next cap f s acc c eo s' hfit he hn hnp]
          right
          rcases ih { chunker := s', prevChunk := c, prevErr := eo } (acc ++ s.prevChunk) with h | ⟨σ1, h⟩
          · exact ⟨s.chunker, by rw [hn]; exact h⟩
          · exact ⟨σ1, h⟩
        · have hc : c = [] := by
            by_cases hc : c = []
            · exact hc
            · exact absurd (Or.inl hc) hnp
          have heo : eo = none := by
            by_cases heo : eo = none
            · exact heo
            · exact absurd (Or.inr heo) hnp
          subst hc heo
          rw [crRead_succ_panic next cap f s acc s' hfit he hn]
          left; exact List.nil_suffix
    · rw [crRead_succ_nofit next cap f s acc (by omega)]
      left; exact List.drop_suffix _ _

/-- hence the pending bytes never exceed a bound on the chunker's chunks -/
theorem crRead_pending_le (B : Nat) (hB : ∀ σ1, (next σ1).1.length ≤ B) (cap f : Nat) (s : CRState σ) (acc : Bytes)
    (hs : s.prevChunk.length ≤ B) : (crRead next cap f s acc).2.2.prevChunk.length ≤ B := by
  rcases crRead_one_chunk next cap f s acc with h | ⟨σ1, h⟩
  · exact Nat.le_trans h.length_le hs
  · exact Nat.le_trans h.length_le (hB σ1)

end

/-! ### instances on a small scripted chunker -/

/-- chunks `[1,2,3]`, `[4]`, `[5,6]`, then EOF (with an empty chunk) -/
def exSrc : Source := [([1, 2, 3], none), ([4], none), ([5, 6], none)]

example : chunkTrace scriptNext 4 exSrc = ([[1, 2, 3], [4], [5, 6], []], some .eof) := by decide

example : (crReadAll scriptNext [2] 5 7 0 { chunker := exSrc } []).1 = [1, 2, 3, 4, 5, 6] ∧
    (crReadAll scriptNext [2] 5 7 0 { chunker := exSrc } []).2.1 = some .eof := by decide

example : (crReadAll scriptNext [1, 5] 5 7 0 { chunker := exSrc } []).1 = [1, 2, 3, 4, 5, 6] ∧
    (crReadAll scriptNext [1, 5] 5 7 0 { chunker := exSrc } []).2.1 = some .eof := by decide

/-- the condition delivered together with the last chunk, and an error instead of EOF -/
example : (crReadAll scriptNext [4, 1] 3 6 0 { chunker := [([1, 2, 3], none), ([4, 5], some punctErr)] } []).1 = [1, 2, 3, 4, 5] ∧
    (crReadAll scriptNext [4, 1] 3 6 0 { chunker := [([1, 2, 3], none), ([4, 5], some punctErr)] } []).2.1 = some punctErr := by
  decide

/-- the hypothesis on empty chunks is needed: an empty chunk without a
    condition is the panic case, and the trace would continue past it -/
example : chunkTrace scriptNext 3 [([1], none), ([], none), ([2], some .eof)] = ([[1], [], [2]], some .eof) ∧
    (crReadAll scriptNext [4] 4 4 0 { chunker := [([1], none), ([], none), ([2], some .eof)] } []).1 = [1] ∧
    (crReadAll scriptNext [4] 4 4 0 { chunker := [([1], none), ([], none), ([2], some .eof)] } []).2.1 = some crPanic := by
  decide

/-- `crRead_sticky` needs `x ≠ crPanic`: the model's panic marker is not
    recorded in the state (the Go code does not return there), so a further
    call in the model would go on fetching -/
example :
    let r := crRead scriptNext 4 3 { chunker := [([], none), ([7], some .eof)] } []
    (r.1, r.2.1, r.2.2.prevErr) = ([], some crPanic, none) ∧
    (crRead scriptNext 4 3 r.2.2 []).1 = [7] ∧ (crRead scriptNext 4 3 r.2.2 []).2.1 = some .eof := by
  decide

/-- the bounds are tight together: with `inner = n` and `fuel = cs.flatten.length + 1`
    the single `Read` runs out of inner fuel before seeing the condition -/
example : chunkTrace scriptNext 1 [] = ([[]], some .eof) ∧
    (crReadAll scriptNext [1] 1 1 0 { chunker := ([] : Source) } []).2.1 = none ∧
    (crReadAll scriptNext [1] 2 1 0 { chunker := ([] : Source) } []).2.1 = some .eof := by
  decide

end Saltpack.Proofs
