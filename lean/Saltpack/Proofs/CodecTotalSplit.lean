/-
  Saltpack.Proofs.CodecTotalSplit — the stream level: `Codec.blocks` never exhausts its fuel
  (every packet decoder consumes a byte) and every `unmodelled w` answer of `Codec.split*` /
  `Front.read*` carries a documented reason.  Core Lean only.
-/
import Saltpack.Proofs.CodecTotalTypes
import Saltpack.Proofs.CodecBytes

namespace Saltpack.Proofs.CodecP
open Saltpack Saltpack.Msgpack Saltpack.Codec Saltpack.Proofs

/-- "every successful decode consumes at least one byte" — the hypothesis `hprog` of
    `C15_blocks_unmodelled_partial` — for a decoder with `Sp 1` -/
theorem Sp.progress {α : Type} {d : Dec α} (h : ∀ N, Sp 1 N d) (b : Bytes) (x : α) (r : Bytes) (e : d b = .ok (x, r)) :
    r.length < b.length := by
  have := (h b.length b (Nat.le_refl _)).1 x r e; omega

theorem Sp.doc {α : Type} {k : Nat} {d : Dec α} (h : ∀ N, Sp k N d) (b : Bytes) (w : String)
    (e : d b = .error (.unmodelled w)) : Doc w :=
  (h b.length b (Nat.le_refl _)).2 w e

theorem blocks_doc {β : Type} (dec : Dec β) (hd : ∀ N, Sp 1 N dec) (fuel : Nat) (b : Bytes) (w : String)
    (hf : b.length < fuel) (h : blocks dec fuel b = .error w) : Doc w := by
  obtain ⟨b', _, hb'⟩ := blocks_unmodelled_provenance dec (Sp.progress hd) fuel b w hf h
  rcases hb' with h1 | ⟨_, h2⟩
  · exact Sp.doc hd b' w h1
  · exact Sp.doc generic_sp b' w h2

theorem readHeader_doc {η : Type} (dec : Dec η) (hd : ∀ N, Sp 1 N dec) (msg : Bytes) (w : String)
    (h : readHeader dec msg = .error w) : Doc w := by
  unfold readHeader at h
  split at h
  · rename_i w' h1; cases h; exact Sp.doc decBytesTop_sp msg w h1
  · cases h
  · split at h
    · rename_i w' h1; cases h; exact Sp.doc hd _ w h1
    · cases h
    · cases h

theorem split_doc {η β : Type} (decH : Dec η) (decB : η → Option (Dec β)) (hH : ∀ N, Sp 1 N decH)
    (hB : ∀ h d, decB h = some d → ∀ N, Sp 1 N d) (msg : Bytes) (w : String)
    (h : split decH decB msg = .error w) : Doc w := by
  unfold split at h
  split at h
  · rename_i w' h1; cases h; exact readHeader_doc decH hH msg w h1
  · split at h
    · cases h
    · rename_i d hd
      split at h
      · rename_i w' h1; cases h
        exact blocks_doc d (hB _ d hd) _ _ w (Nat.lt_succ_self _) h1
      · cases h
  · cases h

theorem splitEnc_doc (msg : Bytes) (w : String) (h : splitEnc msg = .error w) : Doc w := by
  refine split_doc _ _ decEncHeader_sp (fun hd d hdd => ?_) msg w h
  split at hdd
  · cases hdd; exact decEncBlock_sp _
  · cases hdd

theorem splitSigncrypt_doc (msg : Bytes) (w : String) (h : splitSigncrypt msg = .error w) : Doc w := by
  refine split_doc _ _ decEncHeader_sp (fun hd d hdd => ?_) msg w h
  cases hdd; exact decSigncryptBlock_sp

theorem splitSig_doc (msg : Bytes) (w : String) (h : splitSig msg = .error w) : Doc w := by
  refine split_doc _ _ decSigHeader_sp (fun hd d hdd => ?_) msg w h
  split at hdd
  · cases hdd; exact decSigBlock_sp _
  · cases hdd

theorem splitDetached_doc (msg : Bytes) (w : String) (h : splitDetached msg = .error w) : Doc w := by
  unfold splitDetached at h
  split at h
  · rename_i w' h1; cases h; exact readHeader_doc _ decSigHeader_sp msg w h1
  · split at h
    · cases h
    · cases h
    · rename_i w' h1; cases h; exact Sp.doc decBytesTop_sp _ w h1
    · cases h
  · cases h

/-- the packet loop started the way `Codec.split` starts it never answers `"fuel"` -/
theorem blocks_fuel_sufficient {β : Type} (dec : Dec β) (hd : ∀ N, Sp 1 N dec) (rest : Bytes) :
    blocks dec (rest.length + 1) rest ≠ .error "fuel" :=
  fun h => (blocks_doc dec hd _ rest _ (Nat.lt_succ_self _) h).ne_fuel rfl

/-! ### the front ends -/

theorem readEnc_doc (msg : Bytes) (w : String) (h : Front.readEnc msg = .error w) : Doc w :=
  splitEnc_doc msg w (settle_error.1 (orWire_error h).1)

theorem readSigncrypt_doc (msg : Bytes) (w : String) (h : Front.readSigncrypt msg = .error w) : Doc w :=
  splitSigncrypt_doc msg w (settle_error.1 (orWire_error h).1)

theorem readSig_doc (msg : Bytes) (w : String) (h : Front.readSig msg = .error w) : Doc w :=
  splitSig_doc msg w (settle_error.1 (orWire_error h).1)

theorem readDetached_doc (msg : Bytes) (w : String) (h : Front.readDetached msg = .error w) : Doc w :=
  splitDetached_doc msg w (codecDetached_error.1 (orWire_error h).1)

end Saltpack.Proofs.CodecP
