/-
  The generic MessagePack parser is monotone in its input and fuel: an object
  that parses from the front of `b` parses, to the same value, from the front
  of every extension `b ++ e` (the rest grows by `e`).  Used by the stability
  theorems of the classifiers (Proofs/ClassifyStable, Props/C16Stable).
-/
import Saltpack.Model.Msgpack

namespace Saltpack.Proofs.MpMono
open Saltpack Saltpack.Msgpack

theorem takeN_mono (n : Nat) (b s r e : Bytes) (h : takeN n b = .ok (s, r)) :
    takeN n (b ++ e) = .ok (s, r ++ e) := by
  unfold takeN at h ⊢
  split at h
  · cases h
  · rename_i hl
    simp only [Except.ok.injEq, Prod.mk.injEq] at h
    obtain ⟨rfl, rfl⟩ := h
    have hl' : n ≤ b.length := by omega
    rw [if_neg (by simp only [List.length_append]; omega)]
    rw [List.take_append_of_le_length hl', List.drop_append_of_le_length hl']

theorem readLen_mono (n : Nat) (b : Bytes) (v : Nat) (r e : Bytes) (h : readLen n b = .ok (v, r)) :
    readLen n (b ++ e) = .ok (v, r ++ e) := by
  unfold readLen at h ⊢
  split at h
  · cases h
  · rename_i hd tl ht
    simp only [Except.ok.injEq, Prod.mk.injEq] at h
    obtain ⟨rfl, rfl⟩ := h
    rw [takeN_mono n b hd tl e ht]

theorem lenBin_mono (w : Nat) (mk : Bytes → Val) (b : Bytes) (v : Val) (r e : Bytes)
    (h : lenBin w mk b = .ok (v, r)) : lenBin w mk (b ++ e) = .ok (v, r ++ e) := by
  unfold lenBin at h ⊢
  split at h
  · cases h
  · rename_i n r0 hr
    rw [readLen_mono w b n r0 e hr]
    simp only
    split at h
    · rename_i s r' ht
      simp only [Except.ok.injEq, Prod.mk.injEq] at h
      obtain ⟨rfl, rfl⟩ := h
      rw [takeN_mono n r0 s r' e ht]
    · cases h

theorem lenExt_mono (w : Nat) (b : Bytes) (v : Val) (r e : Bytes)
    (h : lenExt w b = .ok (v, r)) : lenExt w (b ++ e) = .ok (v, r ++ e) := by
  unfold lenExt at h ⊢
  split at h
  · cases h
  · rename_i n r0 hr
    rw [readLen_mono w b n r0 e hr]
    simp only
    split at h
    · rename_i s r' ht
      simp only [Except.ok.injEq, Prod.mk.injEq] at h
      obtain ⟨rfl, rfl⟩ := h
      rw [takeN_mono (n + 1) r0 s r' e ht]
    · cases h


/-- the three mutually recursive parsers at once -/
def MonoAt (fuel : Nat) : Prop :=
  (∀ b v r, parse fuel b = .ok (v, r) → ∀ e f', fuel ≤ f' → parse f' (b ++ e) = .ok (v, r ++ e)) ∧
  (∀ n b l r, parseArr fuel n b = .ok (l, r) → ∀ e f', fuel ≤ f' → parseArr f' n (b ++ e) = .ok (l, r ++ e)) ∧
  (∀ n b l r, parseMap fuel n b = .ok (l, r) → ∀ e f', fuel ≤ f' → parseMap f' n (b ++ e) = .ok (l, r ++ e))

/-- finishing one branch of `parse`: a `takeN`/`readLen` match followed by a constructor -/
theorem fin_takeN (n : Nat) (rest : Bytes) (mk : Bytes → Val) (v : Val) (r e : Bytes)
    (h : (match takeN n rest with | .ok (s, r) => (.ok (mk s, r) : PRes Val) | .error x => .error x) = .ok (v, r)) :
    (match takeN n (rest ++ e) with | .ok (s, r) => (.ok (mk s, r) : PRes Val) | .error x => .error x) = .ok (v, r ++ e) := by
  split at h
  · rename_i s r' ht
    simp only [Except.ok.injEq, Prod.mk.injEq] at h
    obtain ⟨rfl, rfl⟩ := h
    rw [takeN_mono n rest s r' e ht]
  · cases h

theorem fin_ok (x : Val) (rest : Bytes) (v : Val) (r e : Bytes)
    (h : (.ok (x, rest) : PRes Val) = .ok (v, r)) : (.ok (x, rest ++ e) : PRes Val) = .ok (v, r ++ e) := by
  simp only [Except.ok.injEq, Prod.mk.injEq] at h
  obtain ⟨rfl, rfl⟩ := h
  rfl

theorem fin_readLen (n : Nat) (rest : Bytes) (mk : Nat → Val) (v : Val) (r e : Bytes)
    (h : (match readLen n rest with | .ok (s, r) => (.ok (mk s, r) : PRes Val) | .error x => .error x) = .ok (v, r)) :
    (match readLen n (rest ++ e) with | .ok (s, r) => (.ok (mk s, r) : PRes Val) | .error x => .error x) = .ok (v, r ++ e) := by
  split at h
  · rename_i s r' ht
    simp only [Except.ok.injEq, Prod.mk.injEq] at h
    obtain ⟨rfl, rfl⟩ := h
    rw [readLen_mono n rest s r' e ht]
  · cases h

theorem fin_arr (pa pa' : Nat → Bytes → PRes (List Val)) (e : Bytes)
    (hpa : ∀ n b l r, pa n b = .ok (l, r) → pa' n (b ++ e) = .ok (l, r ++ e))
    (n : Nat) (rest : Bytes) (v : Val) (r : Bytes)
    (h : (match pa n rest with | .ok (l, r) => (.ok (.arr l, r) : PRes Val) | .error x => .error x) = .ok (v, r)) :
    (match pa' n (rest ++ e) with | .ok (l, r) => (.ok (.arr l, r) : PRes Val) | .error x => .error x) = .ok (v, r ++ e) := by
  split at h
  · rename_i s r' ht
    simp only [Except.ok.injEq, Prod.mk.injEq] at h
    obtain ⟨rfl, rfl⟩ := h
    rw [hpa n rest s r' ht]
  · cases h

theorem fin_map (pa pa' : Nat → Bytes → PRes (List (Val × Val))) (e : Bytes)
    (hpa : ∀ n b l r, pa n b = .ok (l, r) → pa' n (b ++ e) = .ok (l, r ++ e))
    (n : Nat) (rest : Bytes) (v : Val) (r : Bytes)
    (h : (match pa n rest with | .ok (l, r) => (.ok (.map l, r) : PRes Val) | .error x => .error x) = .ok (v, r)) :
    (match pa' n (rest ++ e) with | .ok (l, r) => (.ok (.map l, r) : PRes Val) | .error x => .error x) = .ok (v, r ++ e) := by
  split at h
  · rename_i s r' ht
    simp only [Except.ok.injEq, Prod.mk.injEq] at h
    obtain ⟨rfl, rfl⟩ := h
    rw [hpa n rest s r' ht]
  · cases h

theorem fin_lenArr (pa pa' : Nat → Bytes → PRes (List Val)) (e : Bytes)
    (hpa : ∀ n b l r, pa n b = .ok (l, r) → pa' n (b ++ e) = .ok (l, r ++ e))
    (w : Nat) (rest : Bytes) (v : Val) (r : Bytes)
    (h : (match readLen w rest with
          | .error x => (.error x : PRes Val)
          | .ok (n, r) => match pa n r with | .ok (l, r') => .ok (.arr l, r') | .error x => .error x) = .ok (v, r)) :
    (match readLen w (rest ++ e) with
          | .error x => (.error x : PRes Val)
          | .ok (n, r) => match pa' n r with | .ok (l, r') => .ok (.arr l, r') | .error x => .error x) = .ok (v, r ++ e) := by
  split at h
  · cases h
  · rename_i n r0 hr
    rw [readLen_mono w rest n r0 e hr]
    exact fin_arr pa pa' e hpa n r0 v r h

theorem fin_lenMap (pa pa' : Nat → Bytes → PRes (List (Val × Val))) (e : Bytes)
    (hpa : ∀ n b l r, pa n b = .ok (l, r) → pa' n (b ++ e) = .ok (l, r ++ e))
    (w : Nat) (rest : Bytes) (v : Val) (r : Bytes)
    (h : (match readLen w rest with
          | .error x => (.error x : PRes Val)
          | .ok (n, r) => match pa n r with | .ok (l, r') => .ok (.map l, r') | .error x => .error x) = .ok (v, r)) :
    (match readLen w (rest ++ e) with
          | .error x => (.error x : PRes Val)
          | .ok (n, r) => match pa' n r with | .ok (l, r') => .ok (.map l, r') | .error x => .error x) = .ok (v, r ++ e) := by
  split at h
  · cases h
  · rename_i n r0 hr
    rw [readLen_mono w rest n r0 e hr]
    exact fin_map pa pa' e hpa n r0 v r h

theorem mono_parse_step (fuel : Nat) (ih : MonoAt fuel) (b : Bytes) (v : Val) (r : Bytes)
    (h : parse (fuel + 1) b = .ok (v, r)) (e : Bytes) (f' : Nat) (hf : fuel + 1 ≤ f') :
    parse f' (b ++ e) = .ok (v, r ++ e) := by
  obtain ⟨k, rfl⟩ : ∃ k, f' = k + 1 := ⟨f' - 1, by omega⟩
  have hk : fuel ≤ k := by omega
  have hA : ∀ n b l r, parseArr fuel n b = .ok (l, r) → parseArr k n (b ++ e) = .ok (l, r ++ e) :=
    fun n b l r h => ih.2.1 n b l r h e k hk
  have hM : ∀ n b l r, parseMap fuel n b = .ok (l, r) → parseMap k n (b ++ e) = .ok (l, r ++ e) :=
    fun n b l r h => ih.2.2 n b l r h e k hk
  cases b with
  | nil => simp [parse] at h
  | cons t rest =>
    rw [List.cons_append]
    unfold parse at h ⊢
    simp only at h ⊢
    by_cases c1 : t.toNat < 128
    · rw [if_pos c1] at h ⊢; exact fin_ok _ _ v r e h
    rw [if_neg c1] at h ⊢
    by_cases c2 : t.toNat < 144
    · rw [if_pos c2] at h ⊢; exact fin_map _ _ e hM _ _ v r h
    rw [if_neg c2] at h ⊢
    by_cases c3 : t.toNat < 160
    · rw [if_pos c3] at h ⊢; exact fin_arr _ _ e hA _ _ v r h
    rw [if_neg c3] at h ⊢
    by_cases c4 : t.toNat < 192
    · rw [if_pos c4] at h ⊢
      split at h
      · rename_i s r' ht
        simp only [Except.ok.injEq, Prod.mk.injEq] at h
        obtain ⟨rfl, rfl⟩ := h
        rw [takeN_mono _ _ s r' e ht]
      · exact absurd h (by simp)
    rw [if_neg c4] at h ⊢
    by_cases c5 : t.toNat = 192
    · rw [if_pos c5] at h ⊢; exact fin_ok _ _ v r e h
    rw [if_neg c5] at h ⊢
    by_cases c6 : t.toNat = 193
    · rw [if_pos c6] at h; cases h
    rw [if_neg c6] at h ⊢
    by_cases c7 : t.toNat = 194
    · rw [if_pos c7] at h ⊢; exact fin_ok _ _ v r e h
    rw [if_neg c7] at h ⊢
    by_cases c8 : t.toNat = 195
    · rw [if_pos c8] at h ⊢; exact fin_ok _ _ v r e h
    rw [if_neg c8] at h ⊢
    by_cases c9 : t.toNat = 196
    · rw [if_pos c9] at h ⊢; exact lenBin_mono _ _ _ _ _ _ h
    rw [if_neg c9] at h ⊢
    by_cases c10 : t.toNat = 197
    · rw [if_pos c10] at h ⊢; exact lenBin_mono _ _ _ _ _ _ h
    rw [if_neg c10] at h ⊢
    by_cases c11 : t.toNat = 198
    · rw [if_pos c11] at h ⊢; exact lenBin_mono _ _ _ _ _ _ h
    rw [if_neg c11] at h ⊢
    by_cases c12 : t.toNat = 199
    · rw [if_pos c12] at h ⊢; exact lenExt_mono _ _ _ _ _ h
    rw [if_neg c12] at h ⊢
    by_cases c13 : t.toNat = 200
    · rw [if_pos c13] at h ⊢; exact lenExt_mono _ _ _ _ _ h
    rw [if_neg c13] at h ⊢
    by_cases c14 : t.toNat = 201
    · rw [if_pos c14] at h ⊢; exact lenExt_mono _ _ _ _ _ h
    rw [if_neg c14] at h ⊢
    by_cases c15 : t.toNat = 202
    · rw [if_pos c15] at h ⊢
      split at h
      · rename_i s r' ht
        simp only [Except.ok.injEq, Prod.mk.injEq] at h
        obtain ⟨rfl, rfl⟩ := h
        rw [takeN_mono _ _ s r' e ht]
      · exact absurd h (by simp)
    rw [if_neg c15] at h ⊢
    by_cases c16 : t.toNat = 203
    · rw [if_pos c16] at h ⊢
      split at h
      · rename_i s r' ht
        simp only [Except.ok.injEq, Prod.mk.injEq] at h
        obtain ⟨rfl, rfl⟩ := h
        rw [takeN_mono _ _ s r' e ht]
      · exact absurd h (by simp)
    rw [if_neg c16] at h ⊢
    by_cases c17 : t.toNat = 204 ∨ t.toNat = 205 ∨ t.toNat = 206 ∨ t.toNat = 207
    · rw [if_pos c17] at h ⊢
      split at h
      · rename_i s r' ht
        simp only [Except.ok.injEq, Prod.mk.injEq] at h
        obtain ⟨rfl, rfl⟩ := h
        rw [readLen_mono _ _ s r' e ht]
      · exact absurd h (by simp)
    rw [if_neg c17] at h ⊢
    by_cases c18 : t.toNat = 208 ∨ t.toNat = 209 ∨ t.toNat = 210 ∨ t.toNat = 211
    · rw [if_pos c18] at h ⊢
      split at h
      · rename_i s r' ht
        simp only [Except.ok.injEq, Prod.mk.injEq] at h
        obtain ⟨rfl, rfl⟩ := h
        rw [readLen_mono _ _ s r' e ht]
      · exact absurd h (by simp)
    rw [if_neg c18] at h ⊢
    by_cases c19 : t.toNat = 212 ∨ t.toNat = 213 ∨ t.toNat = 214 ∨ t.toNat = 215 ∨ t.toNat = 216
    · rw [if_pos c19] at h ⊢
      split at h
      · rename_i s r' ht
        simp only [Except.ok.injEq, Prod.mk.injEq] at h
        obtain ⟨rfl, rfl⟩ := h
        rw [takeN_mono _ _ s r' e ht]
      · exact absurd h (by simp)
    rw [if_neg c19] at h ⊢
    by_cases c20 : t.toNat = 217
    · rw [if_pos c20] at h ⊢; exact lenBin_mono _ _ _ _ _ _ h
    rw [if_neg c20] at h ⊢
    by_cases c21 : t.toNat = 218
    · rw [if_pos c21] at h ⊢; exact lenBin_mono _ _ _ _ _ _ h
    rw [if_neg c21] at h ⊢
    by_cases c22 : t.toNat = 219
    · rw [if_pos c22] at h ⊢; exact lenBin_mono _ _ _ _ _ _ h
    rw [if_neg c22] at h ⊢
    by_cases c23 : t.toNat = 220 ∨ t.toNat = 221
    · rw [if_pos c23] at h ⊢; exact fin_lenArr _ _ e hA _ _ v r h
    rw [if_neg c23] at h ⊢
    by_cases c24 : t.toNat = 222 ∨ t.toNat = 223
    · rw [if_pos c24] at h ⊢; exact fin_lenMap _ _ e hM _ _ v r h
    rw [if_neg c24] at h ⊢
    exact fin_ok _ _ v r e h


theorem mono_all : ∀ fuel, MonoAt fuel := by
  intro fuel
  induction fuel with
  | zero =>
    refine ⟨?_, ?_, ?_⟩
    · intro b v r h; simp [parse] at h
    · intro n b l r h; simp [parseArr] at h
    · intro n b l r h; simp [parseMap] at h
  | succ fuel ih =>
    have hP : ∀ b v r, parse fuel b = .ok (v, r) → ∀ e f', fuel ≤ f' → parse f' (b ++ e) = .ok (v, r ++ e) := ih.1
    refine ⟨fun b v r h e f' hf => mono_parse_step fuel ih b v r h e f' hf, ?_, ?_⟩
    · intro n b l r h e f' hf
      obtain ⟨k, rfl⟩ : ∃ k, f' = k + 1 := ⟨f' - 1, by omega⟩
      have hk : fuel ≤ k := by omega
      cases n with
      | zero =>
        simp only [parseArr, Except.ok.injEq, Prod.mk.injEq] at h ⊢
        obtain ⟨rfl, rfl⟩ := h
        exact ⟨rfl, rfl⟩
      | succ n =>
        rw [parseArr] at h ⊢
        split at h
        · exact absurd h (by simp)
        · rename_i v0 r0 hv
          rw [hP b v0 r0 hv e k hk]
          simp only at h ⊢
          split at h
          · exact absurd h (by simp)
          · rename_i vs r1 hvs
            rw [ih.2.1 n r0 vs r1 hvs e k hk]
            simp only [Except.ok.injEq, Prod.mk.injEq] at h ⊢
            obtain ⟨rfl, rfl⟩ := h
            exact ⟨rfl, rfl⟩
    · intro n b l r h e f' hf
      obtain ⟨k, rfl⟩ : ∃ k, f' = k + 1 := ⟨f' - 1, by omega⟩
      have hk : fuel ≤ k := by omega
      cases n with
      | zero =>
        simp only [parseMap, Except.ok.injEq, Prod.mk.injEq] at h ⊢
        obtain ⟨rfl, rfl⟩ := h
        exact ⟨rfl, rfl⟩
      | succ n =>
        rw [parseMap] at h ⊢
        split at h
        · exact absurd h (by simp)
        · rename_i k0 r0 hk0
          rw [hP b k0 r0 hk0 e k hk]
          simp only at h ⊢
          split at h
          · exact absurd h (by simp)
          · rename_i v0 r1 hv0
            rw [hP r0 v0 r1 hv0 e k hk]
            simp only at h ⊢
            split at h
            · exact absurd h (by simp)
            · rename_i kvs r2 hkvs
              rw [ih.2.2 n r1 kvs r2 hkvs e k hk]
              simp only [Except.ok.injEq, Prod.mk.injEq] at h ⊢
              obtain ⟨rfl, rfl⟩ := h
              exact ⟨rfl, rfl⟩

/-- **an object that parses from the front of `b` parses from the front of every
    extension of `b`, to the same value** -/
theorem parse1_mono (b : Bytes) (v : Val) (r e : Bytes) (h : parse1 b = .ok (v, r)) :
    parse1 (b ++ e) = .ok (v, r ++ e) := by
  unfold parse1 at h ⊢
  exact (mono_all _).1 b v r h e _ (by simp only [List.length_append]; omega)

end Saltpack.Proofs.MpMono
