/-
  Proofs about the Fisher–Yates model (`swap`, `shuffleLoop`, `shuffle`):
  the output is a permutation, and legal draw vectors correspond bijectively
  to arrangements.  Core Lean only.
-/
import Saltpack.Model.Rand

namespace Saltpack.Proofs.RandShuffle
open Saltpack Saltpack.Rand

/-! ### `swap` -/

theorem swap_eq {α : Type} (l : List α) (i j : Nat) (hi : i < l.length) (hj : j < l.length) :
    swap l i j = (l.set i l[j]).set j l[i] := by
  unfold swap
  rw [List.getElem?_eq_getElem hi, List.getElem?_eq_getElem hj]

theorem length_swap {α : Type} (l : List α) (i j : Nat) : (swap l i j).length = l.length := by
  unfold swap
  split
  · simp only [List.length_set]
  · rfl

theorem getElem?_swap_of_ne {α : Type} (l : List α) (i j m : Nat) (hi : m ≠ i) (hj : m ≠ j) :
    (swap l i j)[m]? = l[m]? := by
  unfold swap
  split
  · rw [List.getElem?_set_ne (Ne.symm hj), List.getElem?_set_ne (Ne.symm hi)]
  · rfl

theorem getElem?_swap_left {α : Type} (l : List α) (i j : Nat)
    (hi : i < l.length) (hj : j < l.length) : (swap l i j)[i]? = l[j]? := by
  rw [swap_eq l i j hi hj, List.getElem?_eq_getElem hj]
  by_cases h : j = i
  · subst h
    rw [List.getElem?_set_self (by simpa using hi)]
  · rw [List.getElem?_set_ne h, List.getElem?_set_self hi]

theorem take_swap {α : Type} (l : List α) (i j n : Nat) (hi : i < n) (hj : j < n) :
    (swap l i j).take n = swap (l.take n) i j := by
  unfold swap
  rw [List.getElem?_take, List.getElem?_take, if_pos hi, if_pos hj]
  split
  · simp only [List.take_set]
  · rfl

theorem drop_swap {α : Type} (l : List α) (i j n : Nat) (hi : i < n) (hj : j < n) :
    (swap l i j).drop n = l.drop n := by
  unfold swap
  split
  · rw [List.drop_set, if_pos hj, List.drop_set, if_pos hi]
  · rfl

theorem cons_set_perm {α : Type} (xs : List α) (j : Nat) (x b : α) (h : xs[j]? = some b) :
    (b :: xs.set j x).Perm (x :: xs) := by
  induction xs generalizing j with
  | nil => simp at h
  | cons y ys ih =>
    cases j with
    | zero =>
      simp only [List.getElem?_cons_zero, Option.some.injEq] at h
      subst h
      exact List.Perm.swap _ _ _
    | succ j =>
      simp only [List.getElem?_cons_succ] at h
      simp only [List.set_cons_succ]
      exact (List.Perm.swap y b _).trans (((ih j h).cons y).trans (List.Perm.swap x y _))

theorem swap_perm {α : Type} (l : List α) (i j : Nat) : (swap l i j).Perm l := by
  induction l generalizing i j with
  | nil => unfold swap; simp
  | cons x xs ih =>
    cases i with
    | zero =>
      cases j with
      | zero => simp [swap]
      | succ j =>
        unfold swap
        simp only [List.getElem?_cons_zero, List.getElem?_cons_succ]
        cases h : xs[j]? with
        | none => exact List.Perm.refl _
        | some b =>
          simp only [List.set_cons_zero, List.set_cons_succ]
          exact cons_set_perm xs j x b h
    | succ i =>
      cases j with
      | zero =>
        unfold swap
        simp only [List.getElem?_cons_zero, List.getElem?_cons_succ]
        cases h : xs[i]? with
        | none => exact List.Perm.refl _
        | some a =>
          simp only [List.set_cons_zero, List.set_cons_succ]
          exact cons_set_perm xs i x a h
      | succ j =>
        have e : swap (x :: xs) (i + 1) (j + 1) = x :: swap xs i j := by
          unfold swap
          simp only [List.getElem?_cons_succ]
          split <;> simp only [List.set_cons_succ]
        rw [e]
        exact (ih i j).cons x

/-! ### `shuffleLoop` -/

theorem length_shuffleLoop {α : Type} (k : Nat) (js : List Nat) (l : List α) :
    (shuffleLoop k js l).length = l.length := by
  induction k generalizing js l with
  | zero => rfl
  | succ k ih =>
    cases js with
    | nil => rfl
    | cons j js =>
      show (shuffleLoop k js (swap l (k + 1) j)).length = l.length
      rw [ih, length_swap]

theorem shuffleLoop_perm {α : Type} (k : Nat) (js : List Nat) (l : List α) :
    (shuffleLoop k js l).Perm l := by
  induction k generalizing js l with
  | zero => exact List.Perm.refl _
  | succ k ih =>
    cases js with
    | nil => exact List.Perm.refl _
    | cons j js =>
      show (shuffleLoop k js (swap l (k + 1) j)).Perm l
      exact (ih js _).trans (swap_perm l (k + 1) j)

theorem shuffle_perm {α : Type} (js : List Nat) (l : List α) : (shuffle js l).Perm l :=
  shuffleLoop_perm _ js l

/-- with legal draws, `shuffleLoop k` never touches a position above `k` -/
theorem getElem?_shuffleLoop_of_gt {α : Type} (k : Nat) (js : List Nat) (l : List α)
    (hv : ValidDraws k js) (m : Nat) (hm : k < m) : (shuffleLoop k js l)[m]? = l[m]? := by
  induction k generalizing js l with
  | zero => rfl
  | succ k ih =>
    cases js with
    | nil => rfl
    | cons j js =>
      obtain ⟨hj, hv'⟩ := hv
      show (shuffleLoop k js (swap l (k + 1) j))[m]? = l[m]?
      rw [ih js _ hv' (by omega), getElem?_swap_of_ne l (k + 1) j m (by omega) (by omega)]

/-! ### injectivity -/

theorem shuffleLoop_injective {α : Type} (k : Nat) (l : List α) (hl : l.Nodup)
    (hk : k < l.length) (js js' : List Nat) (h : ValidDraws k js) (h' : ValidDraws k js') :
    shuffleLoop k js l = shuffleLoop k js' l → js = js' := by
  induction k generalizing l js js' with
  | zero =>
    intro _
    have e : js = [] := h
    have e' : js' = [] := h'
    rw [e, e']
  | succ k ih =>
    cases js with
    | nil => exact absurd h (by simp [ValidDraws])
    | cons j js =>
      cases js' with
      | nil => exact absurd h' (by simp [ValidDraws])
      | cons j' js' =>
        obtain ⟨hj, hv⟩ := h
        obtain ⟨hj', hv'⟩ := h'
        intro heq
        change shuffleLoop k js (swap l (k + 1) j) = shuffleLoop k js' (swap l (k + 1) j') at heq
        have hjl : j < l.length := by omega
        have hjl' : j' < l.length := by omega
        -- position `k+1` of the result is `l[j]` resp. `l[j']`
        have e1 := getElem?_shuffleLoop_of_gt k js (swap l (k + 1) j) hv (k + 1) (by omega)
        have e2 := getElem?_shuffleLoop_of_gt k js' (swap l (k + 1) j') hv' (k + 1) (by omega)
        rw [getElem?_swap_left l (k + 1) j hk hjl] at e1
        rw [getElem?_swap_left l (k + 1) j' hk hjl'] at e2
        have e3 : l[j]? = l[j']? := by rw [← e1, ← e2, heq]
        have hjj : j = j' := (List.getElem?_inj hjl hl).mp e3
        subst hjj
        have hnd : (swap l (k + 1) j).Nodup := (swap_perm l (k + 1) j).nodup_iff.mpr hl
        have hlen : k < (swap l (k + 1) j).length := by rw [length_swap]; omega
        rw [ih (swap l (k + 1) j) hnd hlen js js' hv hv' heq]

theorem shuffle_injective {α : Type} (l : List α) (hl : l.Nodup) (js js' : List Nat)
    (h : ValidDraws (l.length - 1) js) (h' : ValidDraws (l.length - 1) js') :
    shuffle js l = shuffle js' l → js = js' := by
  cases l with
  | nil =>
    intro _
    have e : js = [] := h
    have e' : js' = [] := h'
    rw [e, e']
  | cons a t =>
    exact shuffleLoop_injective _ (a :: t) hl (by simp) js js' h h'

/-! ### surjectivity -/

/-- any rearrangement of the first `k+1` positions of `l` (the rest unchanged)
    is produced by `shuffleLoop k` with legal draws -/
theorem shuffleLoop_surjective {α : Type} (k : Nat) (l l' : List α) (hk : k < l.length)
    (hlen : l'.length = l.length)
    (ht : (l'.take (k + 1)).Perm (l.take (k + 1))) (hd : l'.drop (k + 1) = l.drop (k + 1)) :
    ∃ js, ValidDraws k js ∧ shuffleLoop k js l = l' := by
  induction k generalizing l with
  | zero =>
    refine ⟨[], rfl, ?_⟩
    show l = l'
    have h1 : l.take 1 = [l[0]] := by
      rw [List.take_succ_eq_append_getElem hk]; rfl
    rw [h1] at ht
    have h2 : l'.take 1 = [l[0]] := List.perm_singleton.mp ht
    rw [← List.take_append_drop 1 l, ← List.take_append_drop 1 l', h1, h2, hd]
  | succ k ih =>
    have hk' : k + 1 < l'.length := by omega
    -- the element that must end up at position `k+1`
    have hx : l'[k + 1] ∈ l'.take (k + 2) :=
      List.mem_take_iff_getElem.mpr ⟨k + 1, by omega, rfl⟩
    obtain ⟨j, hj, hjx⟩ := List.mem_take_iff_getElem.mp (ht.mem_iff.mp hx)
    have hjk : j < k + 2 := by omega
    have hjl : j < l.length := by omega
    have hmlen : (swap l (k + 1) j).length = l.length := length_swap _ _ _
    have hm1 : (swap l (k + 1) j)[k + 1]? = some l'[k + 1] := by
      rw [getElem?_swap_left l (k + 1) j hk hjl, List.getElem?_eq_getElem hjl, hjx]
    have hmk : k + 1 < (swap l (k + 1) j).length := by omega
    have hm1' : (swap l (k + 1) j)[k + 1] = l'[k + 1] := by
      rw [List.getElem?_eq_getElem hmk] at hm1
      exact Option.some.inj hm1
    have hmd : (swap l (k + 1) j).drop (k + 2) = l.drop (k + 2) :=
      drop_swap l (k + 1) j (k + 2) (by omega) hjk
    have hmt : ((swap l (k + 1) j).take (k + 2)).Perm (l.take (k + 2)) := by
      rw [take_swap l (k + 1) j (k + 2) (by omega) hjk]
      exact swap_perm _ _ _
    -- hypotheses for the induction step on `swap l (k+1) j`
    have hd2 : l'.drop (k + 2) = l.drop (k + 2) := hd
    have hd' : l'.drop (k + 1) = (swap l (k + 1) j).drop (k + 1) := by
      rw [List.drop_eq_getElem_cons hk', List.drop_eq_getElem_cons hmk, hm1', hmd, hd2]
    have ht' : (l'.take (k + 1)).Perm ((swap l (k + 1) j).take (k + 1)) := by
      have p : (l'.take (k + 2)).Perm ((swap l (k + 1) j).take (k + 2)) := ht.trans hmt.symm
      rw [List.take_succ_eq_append_getElem hk', List.take_succ_eq_append_getElem hmk, hm1'] at p
      exact (List.perm_append_right_iff _).mp p
    obtain ⟨js, hv, hs⟩ := ih (swap l (k + 1) j) (by omega) (by omega) ht' hd'
    exact ⟨j :: js, ⟨by omega, hv⟩, hs⟩

theorem shuffle_surjective {α : Type} (l l' : List α) (hp : l'.Perm l) :
    ∃ js, ValidDraws (l.length - 1) js ∧ shuffle js l = l' := by
  cases l with
  | nil =>
    have e : l' = [] := List.perm_nil.mp hp
    exact ⟨[], rfl, by rw [e]; rfl⟩
  | cons a t =>
    have hlen : l'.length = (a :: t).length := hp.length_eq
    have h1 : (a :: t).length - 1 + 1 = (a :: t).length := by simp
    refine shuffleLoop_surjective ((a :: t).length - 1) (a :: t) l' (by simp) hlen ?_ ?_
    · rw [h1, List.take_of_length_le (Nat.le_of_eq hlen), List.take_of_length_le (Nat.le_refl _)]
      exact hp
    · rw [h1, List.drop_of_length_le (Nat.le_of_eq hlen), List.drop_of_length_le (Nat.le_refl _)]

end Saltpack.Proofs.RandShuffle
