/-
  What the library emits is what the specification describes (behind
  Props/C08): for every input, the code model's encoders — which the
  correspondence shows byte-identical to `Seal`, `Sign`, `SignDetached`,
  `SigncryptSeal` and their streaming forms — produce exactly the bytes of the
  independent reference sender written from specs/*.md (Model/Spec.lean, with
  its own constants), run on the same chunk plan and with no optional extras.
-/
import Saltpack.Model.Spec
import Saltpack.Model.Sign
import Saltpack.Proofs.ChunkPlan

namespace Saltpack.Proofs
open Saltpack Saltpack.Spec Msgpack

/-- the code's constants are the specification's -/
theorem spec_constants :
    Gen.c_sp_FormatName = sFormatName ∧
    mtEncryption = sModeEncryption ∧ mtAttached = sModeAttached ∧ mtDetached = sModeDetached ∧
    mtSigncryption = sModeSigncryption ∧
    Nonce.senderKeySecretBox = sNonceSenderKey ∧ Nonce.payloadKeyBoxV1 = sNoncePayloadKeyV1 ∧
    Nonce.derivedSharedKey = sNonceDerived ∧
    Gen.c_sp_signatureAttachedString = sSigAttached ∧ Gen.c_sp_signatureDetachedString = sSigDetached ∧
    Gen.c_sp_signatureEncryptedString = sSigEncrypted ∧
    Gen.c_sp_signcryptionBoxKeyIdentifierContext = sCtxBoxKeyIdentifier ∧
    Gen.c_sp_signcryptionSymmetricKeyContext = sCtxSymmetricKey ∧
    blockSize = 1048576 ∧ sigBlockSize = 1048576 := by
  -- the kernel evaluates the string literals' UTF-8 bytes (`decide` alone gets
  -- stuck on `String.toUTF8`)
  decide +kernel

/-! ### the constants, as rewrite rules (specification side → code side) -/

theorem c_format : sFormatName = Gen.c_sp_FormatName := by decide +kernel
theorem c_sigAtt : sSigAttached = Gen.c_sp_signatureAttachedString := by decide +kernel
theorem c_sigDet : sSigDetached = Gen.c_sp_signatureDetachedString := by decide +kernel
theorem c_sigEnc : sSigEncrypted = Gen.c_sp_signatureEncryptedString := by decide +kernel
theorem c_senderKey : sNonceSenderKey = Nonce.senderKeySecretBox := by decide +kernel
theorem c_payloadV1 : sNoncePayloadKeyV1 = Nonce.payloadKeyBoxV1 := by decide +kernel
theorem c_derived : sNonceDerived = Nonce.derivedSharedKey := by decide +kernel
theorem c_ctxBox : sCtxBoxKeyIdentifier = Gen.c_sp_signcryptionBoxKeyIdentifierContext := by decide +kernel
theorem c_ctxSym : sCtxSymmetricKey = Gen.c_sp_signcryptionSymmetricKeyContext := by decide +kernel
theorem lit_recip : Gen.lit_sp_nonceForPayloadKeyBoxV2_0 = strBytes "saltpack_recipsb" := by decide +kernel
theorem lit_chunk : Gen.lit_sp_nonceForChunkSecretBox_0 = strBytes "saltpack_ploadsb" := by decide +kernel
theorem c_recip (i : Nat) : sNonceRecip i = Nonce.payloadKeyBoxV2 i := by
  show _ ++ _ = _ ++ _
  rw [lit_recip]
theorem c_chunk (i : Nat) : sNonceChunk i = Nonce.chunkSecretBox i := by
  show _ ++ _ = _ ++ _
  rw [lit_chunk]
theorem c_hashNonce (hh : Bytes) (f : Bool) (i : Nat) : sHashNonce hh f i = Nonce.hashFlagCounter hh f i := rfl
theorem c_final (f : Bool) : sFinal f = finalByte f := rfl

theorem spec_nonces (i : Nat) (hh : Bytes) (f : Bool) :
    Nonce.payloadKeyBoxV2 i = sNonceRecip i ∧ Nonce.chunkSecretBox i = sNonceChunk i ∧
    Nonce.hashFlagCounter hh f i = sHashNonce hh f i ∧ finalByte f = sFinal f :=
  ⟨(c_recip i).symm, (c_chunk i).symm, rfl, rfl⟩

def layoutOf (v : Version) : Nat := if v = v1 then 1 else 2

theorem layoutOf_v1 : layoutOf v1 = 1 := rfl
theorem layoutOf_v2 : layoutOf v2 = 2 := rfl

theorem knownVersion_of' {v : Version} (hv : v = v1 ∨ v = v2) : knownVersion v = true := by
  rcases hv with rfl | rfl <;> decide

theorem versionVal_layoutOf (v : Version) (hv : v = v1 ∨ v = v2) :
    versionVal (layoutOf v) {} = v.toVal := by
  rcases hv with rfl | rfl <;> rfl

/-! ### encryption -/

theorem encRecipient_eq (P : Prims) (v : Version) (hv : v = v1 ∨ v = v2) (eph pk : Bytes) (i : Nat)
    (r : Encrypt.Recipient) (n : Bytes) (hn : Nonce.payloadKeyBox v i = .ok n) :
    encRecipientVal P (layoutOf v) {} eph pk i r =
      RecvKeys.toVal ⟨if r.hidden then none else some r.pub, P.box eph r.pub n pk⟩ := by
  rcases hv with rfl | rfl
  · simp only [Nonce.payloadKeyBox, show v1.major = 1 from rfl, if_true, Except.ok.injEq] at hn
    subst hn
    simp only [encRecipientVal, layoutOf_v1, if_true, c_payloadV1, RecvKeys.toVal, List.append_nil]
    cases r.hidden <;> rfl
  · simp only [Nonce.payloadKeyBox, show v2.major = 2 from rfl, show ¬ ((2 : Int) = 1) by decide,
      if_true, if_false, Except.ok.injEq] at hn
    subst hn
    simp only [encRecipientVal, layoutOf_v2, show ¬ ((2 : Nat) = 1) by decide, if_false, c_recip,
      RecvKeys.toVal, List.append_nil]
    cases r.hidden <;> rfl

theorem encReceivers_eq (P : Prims) (v : Version) (hv : v = v1 ∨ v = v2) (eph pk : Bytes) :
    ∀ (rs : List Encrypt.Recipient) (i : Nat) (es : List RecvKeys),
      Encrypt.receiverEntries P v eph pk rs i = .ok es →
      es.map RecvKeys.toVal =
        (rs.zipIdx i).map (fun x => encRecipientVal P (layoutOf v) {} eph pk x.2 x.1) := by
  intro rs
  induction rs with
  | nil =>
    intro i es h
    simp only [Encrypt.receiverEntries, Except.ok.injEq] at h
    subst h
    rfl
  | cons r rs ih =>
    intro i es h
    simp only [Encrypt.receiverEntries] at h
    split at h
    · rename_i n es' hn hes
      cases h
      simp only [List.map_cons, List.zipIdx_cons, ih (i + 1) es' hes,
        encRecipient_eq P v hv eph pk i r n hn]
    · cases h
    · cases h

theorem encMacKey_eq (P : Prims) (v : Version) (hv : v = v1 ∨ v = v2) (s e pub hh : Bytes) (i : Nat)
    (k : Bytes) (hk : Encrypt.macKeySender P v i s e pub hh = .ok k) :
    k = encMacKey P (layoutOf v) s e pub hh i := by
  rcases hv with rfl | rfl
  · simp only [Encrypt.macKeySender, if_true, Except.ok.injEq] at hk
    subst hk
    simp only [encMacKey, layoutOf_v1, if_true, macKeySingle, Nonce.macKeyBoxV1]
  · simp only [Encrypt.macKeySender, if_neg v2_ne_v1, if_true, Except.ok.injEq] at hk
    subst hk
    simp only [encMacKey, layoutOf_v2, show ¬ ((2 : Nat) = 1) by decide, if_false, macKeySingle,
      Nonce.macKeyBoxV2, c_hashNonce, sum512Truncate256]

theorem encMacKeys_eq (P : Prims) (v : Version) (hv : v = v1 ∨ v = v2) (s e hh : Bytes) :
    ∀ (rs : List Encrypt.Recipient) (i : Nat) (mks : List Bytes),
      Encrypt.macKeysSender P v s e hh rs i = .ok mks →
      mks = (rs.zipIdx i).map (fun x => encMacKey P (layoutOf v) s e x.1.pub hh x.2) := by
  intro rs
  induction rs with
  | nil =>
    intro i mks h
    simp only [Encrypt.macKeysSender, Except.ok.injEq] at h
    subst h
    rfl
  | cons r rs ih =>
    intro i mks h
    simp only [Encrypt.macKeysSender] at h
    split at h
    · rename_i k ks hk hks
      cases h
      simp only [List.map_cons, List.zipIdx_cons, ← ih (i + 1) ks hks,
        ← encMacKey_eq P v hv s e r.pub hh i k hk]
    · cases h
    · cases h

theorem encPacket_eq (P : Prims) (v : Version) (hv : v = v1 ∨ v = v2) (pk hh : Bytes)
    (mks : List Bytes) (hmks : mks ≠ []) (i : Nat) (c : Bytes) (f : Bool) (b : EncBlock) (val : Val)
    (hb : Encrypt.blockStruct P v pk hh mks i c f = .ok b)
    (hval : encBlockVal v b.auths b.ct b.final = .ok val) :
    Msgpack.encode val = encPacket P (layoutOf v) {} pk hh mks i c f := by
  have hne : ∀ g : Bytes → Bytes, (mks.map g).isEmpty = false := by
    intro g
    cases mks with
    | nil => exact absurd rfl hmks
    | cons a l => rfl
  simp only [Encrypt.blockStruct] at hb
  split at hb
  · cases hb
  · rcases hv with rfl | rfl
    · simp only [payloadHash, show v1.major = 1 from rfl, if_true, Except.ok.injEq] at hb
      subst hb
      simp only [encBlockVal, hne, if_true, Bool.false_eq_true, if_false, Except.ok.injEq] at hval
      subst hval
      simp only [encPacket, layoutOf_v1, if_true, c_chunk, List.append_nil, List.map_map,
        payloadAuthenticator]
      rfl
    · simp only [payloadHash, show v2.major = 2 from rfl, show ¬ ((2 : Int) = 1) by decide,
        if_true, if_false, Except.ok.injEq] at hb
      subst hb
      simp only [encBlockVal, hne, if_neg v2_ne_v1, if_true, Bool.false_eq_true, if_false,
        Except.ok.injEq] at hval
      subst hval
      simp only [encPacket, layoutOf_v2, show ¬ ((2 : Nat) = 1) by decide, if_false, c_chunk,
        c_final, List.append_nil, List.map_map, payloadAuthenticator]
      rfl

theorem encBlocks_eq (P : Prims) (v : Version) (hv : v = v1 ∨ v = v2) (pk hh : Bytes)
    (mks : List Bytes) (hmks : mks ≠ []) :
    ∀ (pl : List (Bytes × Bool)) (i : Nat) (blks : List EncBlock) (body : Bytes),
      Encrypt.blockStructs P v pk hh mks pl i = .ok blks → Encrypt.encodeBlocks v blks = .ok body →
      body = (pl.zipIdx i).flatMap (fun x => encPacket P (layoutOf v) {} pk hh mks x.2 x.1.1 x.1.2) := by
  intro pl
  induction pl with
  | nil =>
    intro i blks body h1 h2
    simp only [Encrypt.blockStructs, Except.ok.injEq] at h1
    subst h1
    simp only [Encrypt.encodeBlocks, Except.ok.injEq] at h2
    subst h2
    rfl
  | cons p pl ih =>
    intro i blks body h1 h2
    obtain ⟨c, f⟩ := p
    simp only [Encrypt.blockStructs] at h1
    split at h1
    · rename_i b bs hb hbs
      cases h1
      simp only [Encrypt.encodeBlocks] at h2
      split at h2
      · rename_i val rest hval hrest
        cases h2
        rw [List.zipIdx_cons, List.flatMap_cons, ← ih (i + 1) bs rest hbs hrest,
          encPacket_eq P v hv pk hh mks hmks i c f b val hb hval]
      · cases h2
      · cases h2
    · cases h1
    · cases h1

theorem checkReceivers_ne_nil (rs : List Encrypt.Recipient) (h : Encrypt.checkReceivers rs = .ok ()) :
    rs ≠ [] := by
  rintro rfl
  simp [Encrypt.checkReceivers] at h

theorem encHeader_eq (P : Prims) (v : Version) (hv : v = v1 ∨ v = v2) (sender : Option Bytes)
    (eph pk : Bytes) (rs : List Encrypt.Recipient) (hd : EncHeader)
    (h : Encrypt.header P v sender eph pk rs = .ok hd) :
    hd.toVal =
      .arr ([.str ({} : Opts).formatName, versionVal (layoutOf v) {},
        .int ((({} : Opts).typ).getD sModeEncryption),
        .bin (P.boxPub eph), .bin (P.sbSeal pk sNonceSenderKey (P.boxPub (sender.getD eph))),
        .arr (rs.zipIdx.map (fun (r, i) => encRecipientVal P (layoutOf v) {} eph pk i r))] ++
        ({} : Opts).headerExtras) := by
  simp only [Encrypt.header] at h
  split at h
  · cases h
  · rename_i es hes
    cases h
    rw [versionVal_layoutOf v hv]
    simp only [EncHeader.toVal, encReceivers_eq P v hv eph pk rs 0 es hes, c_senderKey, c_format,
      List.append_nil]
    rfl

/-- **encryption**: `Seal`'s bytes = the reference sender's bytes -/
theorem spec_eq_encryption (P : Prims) (bs : Nat) (v : Version) (hv : v = v1 ∨ v = v2)
    (sender : Option Bytes) (rs : List Encrypt.Recipient) (eph pk pt out : Bytes)
    (h : Encrypt.sealWith P bs v sender rs eph pk pt = .ok out) :
    out = Spec.encodePlan P (layoutOf v) {} sender rs eph pk (Encrypt.chunkPlan v bs pt) := by
  simp only [Encrypt.sealWith, Encrypt.sealPackets, knownVersion_of' hv, Bool.not_true,
    Bool.false_eq_true, if_false] at h
  split at h
  · cases h
  · rename_i hdr hb blks hpk
    split at hpk
    · cases hpk
    · rename_i hcheck
      split at hpk
      · cases hpk
      · rename_i hd hhd
        split at hpk
        · cases hpk
        · rename_i mks hmks
          split at hpk
          · cases hpk
          · rename_i blks' hblks
            cases hpk
            split at h
            · cases h
            · rename_i body hbody
              cases h
              have hrs := checkReceivers_ne_nil rs hcheck
              have hmk := encMacKeys_eq P v hv _ _ _ rs 0 mks hmks
              have hne : mks ≠ [] := by
                rw [hmk]
                cases rs with
                | nil => exact absurd rfl hrs
                | cons r rs => simp
              rw [encBlocks_eq P v hv pk _ mks hne _ 0 blks body hblks hbody, hmk,
                encHeader_eq P v hv sender eph pk rs hdr hhd]
              rfl

/-! ### signatures -/

theorem sigHeader_eq (v : Version) (hv : v = v1 ∨ v = v2) (typ : Int) (pub nonce : Bytes) :
    sigHeaderBytes (layoutOf v) {} typ pub nonce = Msgpack.encode (Sign.header v pub typ nonce).toVal := by
  unfold sigHeaderBytes
  rw [versionVal_layoutOf v hv]
  simp only [SigHeader.toVal, Sign.header, c_format, List.append_nil, Option.getD_none]

theorem attPacket_eq (P : Prims) (v : Version) (hv : v = v1 ∨ v = v2) (signer hh : Bytes) (i : Nat)
    (c : Bytes) (f : Bool) (b : SigBlock) (val : Val)
    (hb : Sign.blockStruct P v signer hh i c f = .ok b)
    (hval : sigBlockVal v b.sig b.chunk b.final = .ok val) :
    Msgpack.encode val = attPacket P (layoutOf v) {} signer hh i c f := by
  rcases hv with rfl | rfl
  · simp only [Sign.blockStruct, attachedSignatureInput, show v1.major = 1 from rfl, if_true,
      Except.ok.injEq] at hb
    subst hb
    simp only [sigBlockVal, if_true, Except.ok.injEq] at hval
    subst hval
    simp only [attPacket, layoutOf_v1, if_true, c_sigAtt, List.append_nil]
  · simp only [Sign.blockStruct, attachedSignatureInput, show v2.major = 2 from rfl,
      show ¬ ((2 : Int) = 1) by decide, if_true, if_false, Except.ok.injEq] at hb
    subst hb
    simp only [sigBlockVal, if_neg v2_ne_v1, if_true, Except.ok.injEq] at hval
    subst hval
    simp only [attPacket, layoutOf_v2, show ¬ ((2 : Nat) = 1) by decide, if_false, c_sigAtt,
      List.append_nil]
    rfl

theorem attBlocks_eq (P : Prims) (v : Version) (hv : v = v1 ∨ v = v2) (signer hh : Bytes) :
    ∀ (pl : List (Bytes × Bool)) (i : Nat) (blks : List SigBlock) (body : Bytes),
      Sign.blockStructs P v signer hh pl i = .ok blks → Sign.encodeBlocks v blks = .ok body →
      body = (pl.zipIdx i).flatMap (fun x => attPacket P (layoutOf v) {} signer hh x.2 x.1.1 x.1.2) := by
  intro pl
  induction pl with
  | nil =>
    intro i blks body h1 h2
    simp only [Sign.blockStructs, Except.ok.injEq] at h1
    subst h1
    simp only [Sign.encodeBlocks, Except.ok.injEq] at h2
    subst h2
    rfl
  | cons p pl ih =>
    intro i blks body h1 h2
    obtain ⟨c, f⟩ := p
    simp only [Sign.blockStructs] at h1
    split at h1
    · rename_i b bs hb hbs
      cases h1
      simp only [Sign.encodeBlocks] at h2
      split at h2
      · rename_i val rest hval hrest
        cases h2
        rw [List.zipIdx_cons, List.flatMap_cons, ← ih (i + 1) bs rest hbs hrest,
          attPacket_eq P v hv signer hh i c f b val hb hval]
      · cases h2
      · cases h2
    · cases h1
    · cases h1

/-- **attached signatures** (for whatever header nonce was drawn) -/
theorem spec_eq_attached (P : Prims) (bs : Nat) (v : Version) (hv : v = v1 ∨ v = v2)
    (signer nonce msg out : Bytes)
    (h : Sign.attachedWith P bs v signer nonce msg = .ok out) :
    out = Spec.attachedPlan P (layoutOf v) {} signer nonce (Encrypt.chunkPlan v bs msg) := by
  simp only [Sign.attachedWith, Sign.attachedPackets, knownVersion_of' hv, Bool.not_true,
    Bool.false_eq_true, if_false] at h
  split at h
  · cases h
  · rename_i hdr hb blks hpk
    split at hpk
    · cases hpk
    · rename_i blks' hblks
      cases hpk
      split at h
      · cases h
      · rename_i body hbody
        cases h
        have := attBlocks_eq P v hv signer _ _ 0 blks body hblks hbody
        rw [this]
        simp only [attachedPlan, sigHeader_eq v hv, headerPacket, mtAttached, sModeAttached]
        rfl

/-- **detached signatures** -/
theorem spec_eq_detached (P : Prims) (v : Version) (hv : v = v1 ∨ v = v2) (signer nonce msg out : Bytes)
    (h : Sign.detachedWith P v signer nonce msg = .ok out) :
    out = Spec.detached P (layoutOf v) {} signer nonce msg := by
  simp only [Sign.detachedWith, knownVersion_of' hv, Bool.not_true, Bool.false_eq_true, if_false,
    Except.ok.injEq] at h
  rw [← h]
  simp only [Spec.detached, sigHeader_eq v hv, headerPacket, detachedSignatureInput,
    detachedSignatureInputFromHash, c_sigDet]
  rfl

/-! ### signcryption -/

theorem scRecipient_eq (P : Prims) (eph pk : Bytes) (i : Nat) (r : Signcrypt.Recipient) :
    scRecipientVal P {} eph pk i r = (Signcrypt.receiverEntry P eph pk i r).toVal := by
  cases r with
  | box pub =>
    simp only [scRecipientVal, Signcrypt.receiverEntry, RecvKeys.toVal, optBin,
      Signcrypt.derivedKeyFromBoxKeys, Signcrypt.keyIdentifier, c_recip, c_derived, c_ctxBox,
      List.append_nil]
  | sym key ident =>
    simp only [scRecipientVal, Signcrypt.receiverEntry, RecvKeys.toVal, optBin,
      Signcrypt.symDerivedKey, c_recip, c_ctxSym, List.append_nil]

theorem scReceivers_eq (P : Prims) (eph pk : Bytes) :
    ∀ (rs : List Signcrypt.Recipient) (i : Nat),
      (Signcrypt.receiverEntries P eph pk rs i).map RecvKeys.toVal =
        (rs.zipIdx i).map (fun x => scRecipientVal P {} eph pk x.2 x.1) := by
  intro rs
  induction rs with
  | nil => intro i; rfl
  | cons r rs ih =>
    intro i
    simp only [Signcrypt.receiverEntries, List.map_cons, List.zipIdx_cons, ih (i + 1), scRecipient_eq]

theorem scHeader_eq (P : Prims) (sender : Option Bytes) (eph pk : Bytes) (rs : List Signcrypt.Recipient) :
    (Signcrypt.header P sender eph pk rs).toVal =
      .arr ([.str ({} : Opts).formatName, versionVal 2 {}, .int ((({} : Opts).typ).getD sModeSigncryption),
        .bin (P.boxPub eph),
        .bin (P.sbSeal pk sNonceSenderKey (match sender with | none => zeros 32 | some s => P.sigPub s)),
        .arr (rs.zipIdx.map (fun (r, i) => scRecipientVal P {} eph pk i r))] ++ ({} : Opts).headerExtras) := by
  simp only [Signcrypt.header, EncHeader.toVal, scReceivers_eq, c_senderKey, c_format, List.append_nil]
  rfl

theorem scPacket_eq (P : Prims) (sender : Option Bytes) (pk hh : Bytes) (i : Nat) (c : Bytes) (f : Bool)
    (b : SigncryptBlock) (hb : Signcrypt.blockStruct P sender pk hh i c f = .ok b) :
    Msgpack.encode (signcryptBlockVal b.ct b.final) = scPacket P {} sender pk hh i c f := by
  simp only [Signcrypt.blockStruct] at hb
  split at hb
  · cases hb
  · cases hb
    simp only [scPacket, signcryptBlockVal, c_hashNonce, c_final, c_sigEnc, List.append_nil,
      Nonce.chunkSigncryption, signcryptionSignatureInput]
    cases sender <;> rfl

theorem scBlocks_eq (P : Prims) (sender : Option Bytes) (pk hh : Bytes) :
    ∀ (pl : List (Bytes × Bool)) (i : Nat) (blks : List SigncryptBlock),
      Signcrypt.blockStructs P sender pk hh pl i = .ok blks →
      Signcrypt.encodeBlocks blks =
        (pl.zipIdx i).flatMap (fun x => scPacket P {} sender pk hh x.2 x.1.1 x.1.2) := by
  intro pl
  induction pl with
  | nil =>
    intro i blks h1
    simp only [Signcrypt.blockStructs, Except.ok.injEq] at h1
    subst h1
    rfl
  | cons p pl ih =>
    intro i blks h1
    obtain ⟨c, f⟩ := p
    simp only [Signcrypt.blockStructs] at h1
    split at h1
    · rename_i b bs hb hbs
      cases h1
      rw [List.zipIdx_cons, List.flatMap_cons, ← ih (i + 1) bs hbs,
        ← scPacket_eq P sender pk hh i c f b hb]
      rfl
    · cases h1
    · cases h1

/-- **signcryption** -/
theorem spec_eq_signcryption (P : Prims) (bs : Nat) (sender : Option Bytes) (rs : List Signcrypt.Recipient)
    (eph pk pt out : Bytes)
    (h : Signcrypt.sealWith P bs sender rs eph pk pt = .ok out) :
    out = Spec.signcryptPlan P {} sender rs eph pk (Encrypt.chunkPlan v2 bs pt) := by
  simp only [Signcrypt.sealWith, Signcrypt.sealPackets] at h
  split at h
  · cases h
  · rename_i hdr hb blks hpk
    split at hpk
    · cases hpk
    · split at hpk
      · cases hpk
      · rename_i blks' hblks
        cases hpk
        cases h
        rw [scBlocks_eq P sender pk _ _ 0 blks hblks, scHeader_eq]
        rfl

/-- the Go sender's chunk plan is a legal one for the specification: chunks of at
    most 1 MiB, final marker on the last packet only -/
theorem go_plan_legal (v : Version) (pt : Bytes) :
    (∀ p ∈ Encrypt.chunkPlan v blockSize pt, p.1.length ≤ 1048576) ∧
    (∃ pre c, Encrypt.chunkPlan v blockSize pt = pre ++ [(c, true)] ∧ ∀ p ∈ pre, p.2 = false) ∧
    ((Encrypt.chunkPlan v blockSize pt).map (·.1)).flatten = pt := by
  have hbs : blockSize = 1048576 := by decide
  refine ⟨?_, chunkPlan_final v blockSize pt, chunkPlan_flatten v blockSize pt⟩
  intro p hp
  have := chunkPlan_size v blockSize (by rw [hbs]; decide) pt p hp
  rw [hbs] at this
  exact this

/-- **known finding D10**: the header nonce the code draws is 16 bytes, the
    signing specifications say 32 -/
theorem sig_nonce_len_differs : Sign.sigNonceLen = 16 ∧ Spec.sSigNonceLen = 32 ∧ Sign.sigNonceLen ≠ Spec.sSigNonceLen := by
  decide

end Saltpack.Proofs
