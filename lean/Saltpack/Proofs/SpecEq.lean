/-
  What the library emits is what the specification describes (behind
  Props/C08): for every input, the code model's encoders — which the
  correspondence shows byte-identical to `Seal`, `Sign`, `SignDetached`,
  `SigncryptSeal` and their streaming forms — produce exactly the bytes of the
  independent reference sender written from specs/*.md (Model/Spec.lean, with
  its own constants), run on the same chunk plan and with no optional extras.
-/
import Saltpack.Model.Spec
import Saltpack.Model.Sign
import Saltpack.Proofs.ChunkPlan

namespace Saltpack.Proofs
open Saltpack Saltpack.Spec

/-- the code's constants are the specification's -/
theorem spec_constants :
    Gen.c_sp_FormatName = sFormatName ∧
    mtEncryption = sModeEncryption ∧ mtAttached = sModeAttached ∧ mtDetached = sModeDetached ∧
    mtSigncryption = sModeSigncryption ∧
    Nonce.senderKeySecretBox = sNonceSenderKey ∧ Nonce.payloadKeyBoxV1 = sNoncePayloadKeyV1 ∧
    Nonce.derivedSharedKey = sNonceDerived ∧
    Gen.c_sp_signatureAttachedString = sSigAttached ∧ Gen.c_sp_signatureDetachedString = sSigDetached ∧
    Gen.c_sp_signatureEncryptedString = sSigEncrypted ∧
    Gen.c_sp_signcryptionBoxKeyIdentifierContext = sCtxBoxKeyIdentifier ∧
    Gen.c_sp_signcryptionSymmetricKeyContext = sCtxSymmetricKey ∧
    blockSize = 1048576 ∧ sigBlockSize = 1048576 := by
  sorry

theorem spec_nonces (i : Nat) (hh : Bytes) (f : Bool) :
    Nonce.payloadKeyBoxV2 i = sNonceRecip i ∧ Nonce.chunkSecretBox i = sNonceChunk i ∧
    Nonce.hashFlagCounter hh f i = sHashNonce hh f i ∧ finalByte f = sFinal f := by
  sorry

def layoutOf (v : Version) : Nat := if v = v1 then 1 else 2

/-- **encryption**: `Seal`'s bytes = the reference sender's bytes -/
theorem spec_eq_encryption (P : Prims) (bs : Nat) (v : Version) (hv : v = v1 ∨ v = v2)
    (sender : Option Bytes) (rs : List Encrypt.Recipient) (eph pk pt out : Bytes)
    (h : Encrypt.sealWith P bs v sender rs eph pk pt = .ok out) :
    out = Spec.encodePlan P (layoutOf v) {} sender rs eph pk (Encrypt.chunkPlan v bs pt) := by
  sorry

/-- **attached signatures** (for whatever header nonce was drawn) -/
theorem spec_eq_attached (P : Prims) (bs : Nat) (v : Version) (hv : v = v1 ∨ v = v2)
    (signer nonce msg out : Bytes)
    (h : Sign.attachedWith P bs v signer nonce msg = .ok out) :
    out = Spec.attachedPlan P (layoutOf v) {} signer nonce (Encrypt.chunkPlan v bs msg) := by
  sorry

/-- **detached signatures** -/
theorem spec_eq_detached (P : Prims) (v : Version) (hv : v = v1 ∨ v = v2) (signer nonce msg out : Bytes)
    (h : Sign.detachedWith P v signer nonce msg = .ok out) :
    out = Spec.detached P (layoutOf v) {} signer nonce msg := by
  sorry

/-- **signcryption** -/
theorem spec_eq_signcryption (P : Prims) (bs : Nat) (sender : Option Bytes) (rs : List Signcrypt.Recipient)
    (eph pk pt out : Bytes)
    (h : Signcrypt.sealWith P bs sender rs eph pk pt = .ok out) :
    out = Spec.signcryptPlan P {} sender rs eph pk (Encrypt.chunkPlan v2 bs pt) := by
  sorry

/-- the Go sender's chunk plan is a legal one for the specification: chunks of at
    most 1 MiB, final marker on the last packet only -/
theorem go_plan_legal (v : Version) (pt : Bytes) :
    (∀ p ∈ Encrypt.chunkPlan v blockSize pt, p.1.length ≤ 1048576) ∧
    (∃ pre c, Encrypt.chunkPlan v blockSize pt = pre ++ [(c, true)] ∧ ∀ p ∈ pre, p.2 = false) ∧
    ((Encrypt.chunkPlan v blockSize pt).map (·.1)).flatten = pt := by
  sorry

/-- **known finding D10**: the header nonce the code draws is 16 bytes, the
    signing specifications say 32 -/
theorem sig_nonce_len_differs : Sign.sigNonceLen = 16 ∧ Spec.sSigNonceLen = 32 ∧ Sign.sigNonceLen ≠ Spec.sSigNonceLen := by
  sorry

end Saltpack.Proofs
