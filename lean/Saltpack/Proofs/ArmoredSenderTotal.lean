/-
  The ARMORED senders over a NEVER-FAILING underlying writer: the armor encoder
  stream `FArm` over a scripted writer whose fault script is exhausted
  (`sink = []`) is itself a never-failing writer in the sense of `GoodWriter`
  (Proofs/SenderStreamTotal.lean) — every `Write` and `Close` of it succeeds —,
  so the totality theorem `run_good` of the packet streams applies to the
  armored compositions: UNCONDITIONAL write-split independence and "= Armor62
  text of the all-at-once binary message" for every split.

  Route as in Proofs/ArmoredSenderWritten.lean: the packet stream is run over
  the HISTORY of the `Write` calls made on the armor stream.

  Behind Props/C13SenderArmored.lean.
-/
import Saltpack.Proofs.ArmoredSenderMore
import Saltpack.Proofs.SenderStreamTotal

namespace Saltpack.Proofs.SenderP
open Saltpack Saltpack.Sender Saltpack.Stream

/-! ## the armor stream over a writer that never fails never fails -/

/-- the armor stream has not failed, its BaseX encoder is healthy and the
    writer below has no fault left in its script -/
def GoodA (a : FArm) : Prop := a.w.sink = [] ∧ a.failed = false ∧ a.EncOk

theorem wr_write_sinkless (w : Wr) (p : Bytes) (h : w.sink = []) : (w.write p).1 = true ∧ (w.write p).2.sink = [] := by
  simp [Wr.write, h]

theorem farm_spaceOut_good : ∀ (fuel : Nat) (s : FArm), s.w.sink = [] →
    (FArm.spaceOut fuel s).1 = true ∧ (FArm.spaceOut fuel s).2.w.sink = [] := by
  intro fuel
  induction fuel with
  | zero => intro s h; exact ⟨rfl, h⟩
  | succ fuel ih =>
    intro s h
    unfold FArm.spaceOut
    by_cases hgt : s.buf.length > s.par.bytesPerWord
    · simp only [hgt, if_true]
      obtain ⟨a1, a2⟩ := wr_write_sinkless s.w (s.buf.take s.par.bytesPerWord) h
      cases hw1 : s.w.write (s.buf.take s.par.bytesPerWord) with
      | mk ok1 w1 =>
        rw [hw1] at a1 a2
        simp only at a1 a2
        subst a1
        simp only
        obtain ⟨b1, b2⟩ := wr_write_sinkless w1
          [if (s.nWords + 1) % s.par.wordsPerLine = 0 then Armor.newline else Armor.space] a2
        cases hw2 : w1.write [if (s.nWords + 1) % s.par.wordsPerLine = 0 then Armor.newline else Armor.space] with
        | mk ok2 w2 =>
          rw [hw2] at b1 b2
          simp only at b1 b2
          subst b1
          simp only
          exact ih _ b2
    · rw [if_neg hgt]
      exact ⟨rfl, h⟩

/-- a `Write` of the armor stream in a good state succeeds and leaves it good -/
theorem farm_write_good (a : FArm) (b : Bytes) (h : GoodA a) : (a.write b).1 = true ∧ GoodA (a.write b).2 := by
  obtain ⟨hs, hf, hok⟩ := h
  obtain ⟨he, hok'⟩ := farm_encOk_write a b hok
  have heq : a.write b = farmAfter (a.feed (a.enc.write b).2.2) := by
    rw [farm_write_eq]; simp [hf, he]
  have hfr := farm_spaceOut_frame ((a.feed (a.enc.write b).2.2).buf.length + 1) (a.feed (a.enc.write b).2.2)
  obtain ⟨g1, g2⟩ := farm_spaceOut_good ((a.feed (a.enc.write b).2.2).buf.length + 1) (a.feed (a.enc.write b).2.2) hs
  have hres : farmAfter (a.feed (a.enc.write b).2.2) =
      (true, (FArm.spaceOut ((a.feed (a.enc.write b).2.2).buf.length + 1) (a.feed (a.enc.write b).2.2)).2) := by
    unfold farmAfter
    cases hsp : FArm.spaceOut ((a.feed (a.enc.write b).2.2).buf.length + 1) (a.feed (a.enc.write b).2.2) with
    | mk ok s2 =>
      rw [hsp] at g1
      simp only at g1
      subst g1
      rfl
  refine ⟨by rw [heq, hres], ?_, ?_, hok'⟩
  · rw [heq, hres]; exact g2
  · rw [heq, hres]
    show (FArm.spaceOut _ _).2.failed = false
    rw [hfr.2.2.2]; exact hf

theorem farm_good : GoodWriter FArm.write GoodA := ⟨fun a p h => farm_write_good a p h⟩

/-- `Close` of the armor stream in a good state succeeds -/
theorem farm_close_good (a : FArm) (h : GoodA a) : a.close.1 = true := by
  obtain ⟨hs, hf, hok⟩ := h
  obtain ⟨he, _⟩ := farm_encOk_close a hok
  rw [farm_close_eq]
  simp only [hf, he, Bool.false_eq_true, if_false, if_true]
  obtain ⟨g1, g2⟩ := farm_spaceOut_good ((a.feed a.enc.close.2).buf.length + 1) (a.feed a.enc.close.2) hs
  unfold farmCloseAfter
  cases hsp : FArm.spaceOut ((a.feed a.enc.close.2).buf.length + 1) (a.feed a.enc.close.2) with
  | mk ok s2 =>
    rw [hsp] at g1 g2
    simp only at g1 g2
    subst g1
    simp only
    obtain ⟨a1, a2⟩ := wr_write_sinkless s2.w s2.buf g2
    cases hw1 : s2.w.write s2.buf with
    | mk ok1 w1 =>
      rw [hw1] at a1 a2
      simp only at a1 a2
      subst a1
      simp only
      exact (wr_write_sinkless w1 _ a2).1

/-- the armor constructor over the never-failing scripted writer succeeds, in a good state -/
theorem farm_init_good (par : Armor.Params) (hdr ftr : Bytes) :
    (FArm.init par hdr ftr ({} : Wr)).1 = true ∧ GoodA (FArm.init par hdr ftr ({} : Wr)).2 := by
  obtain ⟨a1, a2⟩ := wr_write_sinkless ({} : Wr) (hdr ++ [Armor.period, Armor.space]) rfl
  have hok := farm_encOk_init par hdr ftr ({} : Wr)
  unfold FArm.init at hok ⊢
  cases hw : ({} : Wr).write (hdr ++ [Armor.period, Armor.space]) with
  | mk ok w' =>
    rw [hw] at a1 a2 hok
    simp only at a1 a2 hok ⊢
    exact ⟨a1, a2, rfl, hok⟩

/-- the history writer over a good armor stream is a never-failing writer -/
theorem hist_good (a0 : FArm) : GoodWriter (histWrite a0) (fun H => GoodA (farmRun a0 H)) := by
  constructor
  intro H p h
  unfold histWrite
  simp only
  rw [farmRun_snoc]
  exact farm_write_good _ p h

/-! ## the closed / unclosed armor text is a function of the bytes written -/

theorem encInv_written_unique (enc : Basex.Enc) (T : Bytes) (e e' : EncState) (_hb : 0 < enc.blockLen)
    (h : EncInv enc T e) (h' : EncInv enc T e') : e.written.flatten = e'.written.flatten := by
  obtain ⟨_, _, _, hbd, A, ⟨a, ha⟩, hA2, hA3⟩ := h
  obtain ⟨_, _, _, hbd', A', ⟨a', ha'⟩, hA2', hA3'⟩ := h'
  have hlen : A.length + e.buf.length = A'.length + e'.buf.length := by
    have := congrArg List.length (hA2.symm.trans hA2')
    simpa [List.length_append] using this
  have haa : a = a' := by
    rcases Nat.lt_trichotomy a a' with hlt | heq | hgt
    · exfalso
      have h1 : enc.blockLen * (a + 1) ≤ enc.blockLen * a' := Nat.mul_le_mul_left _ (by omega)
      rw [Nat.mul_succ] at h1
      omega
    · exact heq
    · exfalso
      have h1 : enc.blockLen * (a' + 1) ≤ enc.blockLen * a := Nat.mul_le_mul_left _ (by omega)
      rw [Nat.mul_succ] at h1
      omega
  have hAl : A.length = A'.length := by rw [ha, ha', haa]
  have hAA : A = A' := (List.append_inj (hA2.symm.trans hA2') hAl).1
  rw [hA3, hA3', hAA]

theorem chInv_unique (bs : Nat) (hb : 0 < bs) (X : Bytes) (c c' : Chunker) (h : ChInv bs X c) (h' : ChInv bs X c') :
    c.emitted = c'.emitted ∧ c.buf = c'.buf := by
  have e := chInv_chunks bs hb X c h
  have e' := chInv_chunks bs hb X c' h'
  rw [e] at e'
  by_cases h0 : c.buf = []
  · by_cases h0' : c'.buf = []
    · exact ⟨by rw [h.ne h0, h'.ne h0'], by rw [h0, h0']⟩
    · rw [if_pos h0, if_neg h0', h.ne h0] at e'
      simp at e'
  · by_cases h0' : c'.buf = []
    · rw [if_neg h0, if_pos h0', h'.ne h0'] at e'
      simp at e'
    · rw [if_neg h0, if_neg h0'] at e'
      have hl : c.emitted.length = c'.emitted.length := by
        have := congrArg List.length e'
        simpa using this
      obtain ⟨e1, e2⟩ := List.append_inj e' hl
      exact ⟨e1, by simpa using e2⟩

/-- two armor-writer states reached by writing the same bytes (in any splits)
    have emitted the same text -/
theorem armInv_out_unique (par : Armor.Params) (he : par.enc.WF) (hw : 0 < par.bytesPerWord) (base ftr T : Bytes)
    (s s' : ArmState) (h : ArmInv par base ftr s) (hE : EncInv par.enc T s.enc)
    (h' : ArmInv par base ftr s') (hE' : EncInv par.enc T s'.enc) : s.out = s'.out := by
  have hwr := encInv_written_unique par.enc T s.enc s'.enc he.block_pos hE hE'
  obtain ⟨_, _, c, hc, _, _, ho⟩ := h
  obtain ⟨_, _, c', hc', _, _, ho'⟩ := h'
  rw [hwr] at hc
  obtain ⟨e1, _⟩ := chInv_unique par.bytesPerWord hw _ c c' hc hc'
  rw [ho, ho', e1]

/-- the text the never-failing armor writer has emitted after the `Write`s `H`
    and NO `Close` depends on `H.flatten` only -/
theorem arm_fold_out_unique (par : Armor.Params) (he : par.enc.WF) (hw : 0 < par.bytesPerWord) (hdr ftr : Bytes)
    (H H' : List Bytes) (hsame : H.flatten = H'.flatten) :
    (H.foldl ArmState.write (ArmState.init par hdr ftr)).out = (H'.foldl ArmState.write (ArmState.init par hdr ftr)).out := by
  have hE0 : EncInv par.enc [] (ArmState.init par hdr ftr).enc :=
    ⟨rfl, rfl, rfl, he.block_pos, [], by simp, rfl, by simp [ArmState.init, encode_nil]⟩
  obtain ⟨h1, h2⟩ := armInv_fold par he hw _ ftr H [] (ArmState.init par hdr ftr) (armInv_init par hdr ftr) hE0
  obtain ⟨h1', h2'⟩ := armInv_fold par he hw _ ftr H' [] (ArmState.init par hdr ftr) (armInv_init par hdr ftr) hE0
  rw [hsame] at h2
  exact armInv_out_unique par he hw _ ftr _ _ _ h1 h2 h1' h2'

/-- what is at the writer when the armor stream received `X` and was NOT closed -/
def armorUnclosed (par : Armor.Params) (hdr ftr X : Bytes) : Bytes :=
  ((ArmState.init par hdr ftr).write X).out

/-! ## the armored packet streams over a never-failing writer -/

/-- a good armor stream reached from `init` by the history `H`: the writer
    holds what the never-failing machine holds -/
theorem good_run_sim (par : Armor.Params) (hdr ftr : Bytes) (H : List Bytes)
    (hg : GoodA (farmRun (FArm.init par hdr ftr ({} : Wr)).2 H)) :
    Sim (farmRun (FArm.init par hdr ftr ({} : Wr)).2 H) (H.foldl ArmState.write (ArmState.init par hdr ftr)) ∧
    okBytes (FArm.init par hdr ftr ({} : Wr)).2 H = H.flatten := by
  obtain ⟨hi, hg0⟩ := farm_init_good par hdr ftr
  obtain ⟨hs, hf, _⟩ := farm_init_sim par hdr ftr [] [] hi
  obtain ⟨r1, _⟩ := run_sim H _ _ hs hg0.2.2 hf
  exact ⟨(r1 hg.2.1).1, okBytes_all H _ hf hg.2.1⟩

/-- **the whole armored run over a never-failing writer, unconditionally**: armor
    constructor and packet-stream constructor succeed; if the all-at-once plan
    of the concatenated plaintext has bytes `B`, every `Write` and the
    `closeForwarder.Close` report success and the writer holds exactly the armor
    text of header packet ‖ `B`; if it has none (a packet number is refused on
    the way), `Close` reports an error and the writer holds the UNCLOSED armor
    text of header packet ‖ the packets before the refused one.  In both cases a
    function of `ws.flatten`. -/
theorem armored_run_good (cfg : Cfg) (hp : ∀ b, (cfg.pieces b).flatten = b) (hb : 0 < cfg.bs) (hif : IndexFail cfg.pkt)
    (v : Version) (hv : cfg.v1shape = (v == v1)) (par : Armor.Params) (he : par.enc.WF) (hw : 0 < par.bytesPerWord)
    (hdr ftr : Bytes) (headerBytes : Bytes) (ws : List Bytes) :
    (FArm.init par hdr ftr ({} : Wr)).1 = true ∧
    (PSt.init FArm.write cfg.pieces (FArm.init par hdr ftr ({} : Wr)).2 headerBytes).1 = true ∧
    (∀ B, planBytes cfg.pkt (Encrypt.chunkPlan v cfg.bs ws.flatten) 0 = .ok B →
      (PSt.writes FArm.write cfg
        (PSt.init FArm.write cfg.pieces (FArm.init par hdr ftr ({} : Wr)).2 headerBytes).2 ws).1 =
          ws.map (fun p => (p.length, none)) ∧
      (armoredClose cfg (PSt.writes FArm.write cfg
        (PSt.init FArm.write cfg.pieces (FArm.init par hdr ftr ({} : Wr)).2 headerBytes).2 ws).2).1 = none ∧
      (armoredClose cfg (PSt.writes FArm.write cfg
        (PSt.init FArm.write cfg.pieces (FArm.init par hdr ftr ({} : Wr)).2 headerBytes).2 ws).2).2.codec.w.w.bytes =
        Armor.sealText par hdr ftr (headerPacket headerBytes ++ B)) ∧
    ((∀ B, planBytes cfg.pkt (Encrypt.chunkPlan v cfg.bs ws.flatten) 0 ≠ .ok B) →
      (armoredClose cfg (PSt.writes FArm.write cfg
        (PSt.init FArm.write cfg.pieces (FArm.init par hdr ftr ({} : Wr)).2 headerBytes).2 ws).2).1 ≠ none ∧
      (armoredClose cfg (PSt.writes FArm.write cfg
        (PSt.init FArm.write cfg.pieces (FArm.init par hdr ftr ({} : Wr)).2 headerBytes).2 ws).2).2.codec.w.w.bytes =
        armorUnclosed par hdr ftr
          (headerPacket headerBytes ++ planOkBytes cfg.pkt (Encrypt.chunkPlan v cfg.bs ws.flatten) 0)) := by
  obtain ⟨hai, hg0⟩ := farm_init_good par hdr ftr
  refine ⟨hai, ?_⟩
  generalize ha0 : (FArm.init par hdr ftr ({} : Wr)).2 = a0 at hg0 ⊢
  have hπ := hist_proj a0
  have hnil : a0 = farmRun a0 [] := rfl
  have e1 := proj_init FArm.write (histWrite a0) (farmRun a0) hπ cfg.pieces [] headerBytes
  rw [← hnil] at e1
  have e2 := proj_writes FArm.write (histWrite a0) (farmRun a0) hπ cfg ws (PSt.init (histWrite a0) cfg.pieces [] headerBytes).2
  have e3 := proj_close FArm.write (histWrite a0) (farmRun a0) hπ cfg
    (PSt.writes (histWrite a0) cfg (PSt.init (histWrite a0) cfg.pieces [] headerBytes).2 ws).2
  obtain ⟨hi, ho, hall, hconv, hgfin⟩ := run_good_full (histWrite a0) (okBytes a0) (fun H => GoodA (farmRun a0 H))
    (hist_obs a0) (hist_good a0) cfg hp hb hif v hv [] hg0 headerBytes ws
  rw [e1]
  refine ⟨hi, ?_, ?_⟩
  · intro B hB
    obtain ⟨hwr, hcl⟩ := hall B hB
    simp only
    rw [e2]
    refine ⟨hwr, ?_⟩
    simp only
    unfold armoredClose
    rw [e3, hcl]
    simp only
    rw [planOkBytes_of_ok cfg.pkt _ 0 B hB] at ho
    generalize ((PSt.writes (histWrite a0) cfg (PSt.init (histWrite a0) cfg.pieces [] headerBytes).2 ws).2.close
      (histWrite a0) cfg).2 = fin at ho hgfin ⊢
    have hw' : (mapP (farmRun a0) fin).codec.w = farmRun a0 fin.codec.w := rfl
    rw [hw']
    have hcg := farm_close_good _ hgfin
    subst ha0
    obtain ⟨hsim, hokb⟩ := good_run_sim par hdr ftr fin.codec.w hgfin
    obtain ⟨c1, _⟩ := sim_close _ _ hsim hgfin.2.2 hgfin.2.1
    cases hac : (farmRun (FArm.init par hdr ftr ({} : Wr)).2 fin.codec.w).close with
    | mk ok a' =>
      rw [hac] at hcg c1
      simp only at hcg c1
      subst hcg
      refine ⟨rfl, ?_⟩
      simp only
      rw [c1 rfl, armorWriter_any_split par he hw hdr ftr, ← hokb, ho]
      simp [okBytes]
  · intro hno
    have hcl : ((PSt.writes (histWrite a0) cfg (PSt.init (histWrite a0) cfg.pieces [] headerBytes).2 ws).2.close
        (histWrite a0) cfg).1 ≠ none := by
      intro hc
      obtain ⟨B, hB⟩ := hconv hc
      exact hno B hB
    simp only
    rw [e2]
    simp only
    unfold armoredClose
    rw [e3]
    cases hcr : ((PSt.writes (histWrite a0) cfg (PSt.init (histWrite a0) cfg.pieces [] headerBytes).2 ws).2.close
        (histWrite a0) cfg).1 with
    | none => exact absurd hcr hcl
    | some e =>
      simp only
      refine ⟨by simp, ?_⟩
      generalize ((PSt.writes (histWrite a0) cfg (PSt.init (histWrite a0) cfg.pieces [] headerBytes).2 ws).2.close
        (histWrite a0) cfg).2 = fin at ho hgfin ⊢
      have hw' : (mapP (farmRun a0) fin).codec.w = farmRun a0 fin.codec.w := rfl
      rw [hw']
      subst ha0
      obtain ⟨hsim, hokb⟩ := good_run_sim par hdr ftr fin.codec.w hgfin
      rw [hsim.out]
      unfold armorUnclosed
      have := arm_fold_out_unique par he hw hdr ftr fin.codec.w
        [headerPacket headerBytes ++ planOkBytes cfg.pkt (Encrypt.chunkPlan v cfg.bs ws.flatten) 0]
        (by rw [← hokb, ho]; simp [okBytes])
      rw [this]
      rfl

/-- the detached-signature armored stream over a never-failing writer: every
    call succeeds and the writer holds the armor text of header packet ‖
    signature packet, for every split -/
theorem armored_det_good (pieces : Bytes → List Bytes) (hp : ∀ b, (pieces b).flatten = b) (sp : Bytes → Bytes)
    (par : Armor.Params) (he : par.enc.WF) (hw : 0 < par.bytesPerWord) (hdr ftr : Bytes) (headerBytes : Bytes)
    (ws : List Bytes) :
    (FArm.init par hdr ftr ({} : Wr)).1 = true ∧
    (DSt.init FArm.write pieces (FArm.init par hdr ftr ({} : Wr)).2 headerBytes).1 = true ∧
    (DSt.writes (DSt.init FArm.write pieces (FArm.init par hdr ftr ({} : Wr)).2 headerBytes).2 ws).1 =
      ws.map (fun p => (p.length, none)) ∧
    (armoredCloseD pieces sp (DSt.writes
      (DSt.init FArm.write pieces (FArm.init par hdr ftr ({} : Wr)).2 headerBytes).2 ws).2).1 = none ∧
    (armoredCloseD pieces sp (DSt.writes
      (DSt.init FArm.write pieces (FArm.init par hdr ftr ({} : Wr)).2 headerBytes).2 ws).2).2.codec.w.w.bytes =
      Armor.sealText par hdr ftr (headerPacket headerBytes ++ sp ws.flatten) := by
  obtain ⟨hai, hg0⟩ := farm_init_good par hdr ftr
  refine ⟨hai, ?_⟩
  generalize ha0 : (FArm.init par hdr ftr ({} : Wr)).2 = a0 at hg0 ⊢
  have hπ := hist_proj a0
  have hnil : a0 = farmRun a0 [] := rfl
  have e1 := proj_dinit FArm.write (histWrite a0) (farmRun a0) hπ pieces [] headerBytes
  rw [← hnil] at e1
  have e2 := proj_dwrites (farmRun a0) ws (DSt.init (histWrite a0) pieces [] headerBytes).2
  have e3 := proj_dclose FArm.write (histWrite a0) (farmRun a0) hπ pieces sp
    (DSt.writes (DSt.init (histWrite a0) pieces [] headerBytes).2 ws).2
  obtain ⟨hi, hwr, hcl, ho⟩ := det_good (histWrite a0) (okBytes a0) (fun H => GoodA (farmRun a0 H))
    (hist_obs a0) (hist_good a0) pieces hp sp [] hg0 headerBytes ws
  have hgfin : GoodA (farmRun a0 ((DSt.writes (DSt.init (histWrite a0) pieces [] headerBytes).2 ws).2.close
      (histWrite a0) pieces sp).2.codec.w) := by
    have hgi : GoodA (farmRun a0 (DSt.init (histWrite a0) pieces [] headerBytes).2.codec.w) := by
      unfold DSt.init Codec.encode
      simp only [Bool.false_eq_true, if_false]
      exact (writePieces_good (histWrite a0) _ (hist_good a0) (pieces (headerPacket headerBytes)) [] hg0).2
    rw [(det_writes ws _).1]
    unfold DSt.close Codec.encode
    simp only
    by_cases hf : (DSt.init (histWrite a0) pieces [] headerBytes).2.codec.failed = true
    · simp only [hf, if_true]; exact hgi
    · simp only [hf, Bool.false_eq_true, if_false]
      have := (writePieces_good (histWrite a0) _ (hist_good a0)
        (pieces (sp ((DSt.init (histWrite a0) pieces [] headerBytes).2.msg ++ ws.flatten)))
        (DSt.init (histWrite a0) pieces [] headerBytes).2.codec.w hgi)
      cases hwp : writePieces (histWrite a0)
        (pieces (sp ((DSt.init (histWrite a0) pieces [] headerBytes).2.msg ++ ws.flatten)))
        (DSt.init (histWrite a0) pieces [] headerBytes).2.codec.w with
      | mk ok w' =>
        rw [hwp] at this
        obtain ⟨t1, t2⟩ := this
        simp only at t1 t2
        subst t1
        exact t2
  rw [e1]
  simp only
  rw [e2]
  simp only
  refine ⟨hi, hwr, ?_⟩
  unfold armoredCloseD
  rw [e3, hcl]
  simp only
  generalize ((DSt.writes (DSt.init (histWrite a0) pieces [] headerBytes).2 ws).2.close
    (histWrite a0) pieces sp).2 = fin at ho hgfin ⊢
  have hw' : (mapD (farmRun a0) fin).codec.w = farmRun a0 fin.codec.w := rfl
  rw [hw']
  have hcg := farm_close_good _ hgfin
  subst ha0
  obtain ⟨hsim, hokb⟩ := good_run_sim par hdr ftr fin.codec.w hgfin
  obtain ⟨c1, _⟩ := sim_close _ _ hsim hgfin.2.2 hgfin.2.1
  cases hac : (farmRun (FArm.init par hdr ftr ({} : Wr)).2 fin.codec.w).close with
  | mk ok a' =>
    rw [hac] at hcg c1
    simp only at hcg c1
    subst hcg
    refine ⟨rfl, ?_⟩
    simp only
    rw [c1 rfl, armorWriter_any_split par he hw hdr ftr, ← hokb, ho]
    simp [okBytes]

end Saltpack.Proofs.SenderP
