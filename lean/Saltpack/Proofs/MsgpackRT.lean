/-
  MessagePack: the generic parser inverts the encoder on every value the
  senders write (`Val.WF`), also when more bytes follow (stream of objects), and
  the typed views invert the `toVal` functions of the packet structures.
  Proofs behind C01/C03/C05/C07 ("binary form = structures") and C08/C09.
-/
import Saltpack.Model.Msgpack
import Saltpack.Model.Packets
import Saltpack.Model.Wire
import Saltpack.Proofs.Digits

namespace Saltpack.Proofs
open Saltpack Saltpack.Msgpack

/-- values the encoder represents faithfully: lengths below 2^32, integers in
    the 64-bit range, no maps / ext / floats (saltpack never writes those) -/
inductive ValWF : Val → Prop where
  | nil : ValWF .nil
  | bool (b : Bool) : ValWF (.bool b)
  | int (i : Int) : -(2 ^ 63 : Int) ≤ i → i < (2 ^ 64 : Int) → ValWF (.int i)
  | bin (b : Bytes) : b.length < 2 ^ 32 → ValWF (.bin b)
  | str (b : Bytes) : b.length < 2 ^ 32 → ValWF (.str b)
  | arr (l : List Val) : l.length < 2 ^ 32 → (∀ v ∈ l, ValWF v) → ValWF (.arr l)

/-! ### helper lemmas: one per descriptor byte, then one per encoder -/

namespace MsgpackRT

theorem parse_c0 (fuel : Nat) (rest : Bytes) : parse (fuel + 1) (0xc0 :: rest) = .ok (.nil, rest) := by
  rw [parse]; simp
theorem parse_c2 (fuel : Nat) (rest : Bytes) : parse (fuel + 1) (0xc2 :: rest) = .ok (.bool false, rest) := by
  rw [parse]; simp
theorem parse_c3 (fuel : Nat) (rest : Bytes) : parse (fuel + 1) (0xc3 :: rest) = .ok (.bool true, rest) := by
  rw [parse]; simp
theorem parse_c4 (fuel : Nat) (rest : Bytes) : parse (fuel + 1) (0xc4 :: rest) = lenBin 1 .bin rest := by
  rw [parse]; simp
theorem parse_c5 (fuel : Nat) (rest : Bytes) : parse (fuel + 1) (0xc5 :: rest) = lenBin 2 .bin rest := by
  rw [parse]; simp
theorem parse_c6 (fuel : Nat) (rest : Bytes) : parse (fuel + 1) (0xc6 :: rest) = lenBin 4 .bin rest := by
  rw [parse]; simp
theorem parse_d9 (fuel : Nat) (rest : Bytes) : parse (fuel + 1) (0xd9 :: rest) = lenBin 1 .str rest := by
  rw [parse]; simp
theorem parse_da (fuel : Nat) (rest : Bytes) : parse (fuel + 1) (0xda :: rest) = lenBin 2 .str rest := by
  rw [parse]; simp
theorem parse_db (fuel : Nat) (rest : Bytes) : parse (fuel + 1) (0xdb :: rest) = lenBin 4 .str rest := by
  rw [parse]; simp

theorem parse_cc (fuel : Nat) (rest r : Bytes) (n : Nat) (h : readLen 1 rest = .ok (n, r)) :
    parse (fuel + 1) (0xcc :: rest) = .ok (.int n, r) := by
  rw [parse]; simp [h]
theorem parse_cd (fuel : Nat) (rest r : Bytes) (n : Nat) (h : readLen 2 rest = .ok (n, r)) :
    parse (fuel + 1) (0xcd :: rest) = .ok (.int n, r) := by
  rw [parse]; simp [h]
theorem parse_ce (fuel : Nat) (rest r : Bytes) (n : Nat) (h : readLen 4 rest = .ok (n, r)) :
    parse (fuel + 1) (0xce :: rest) = .ok (.int n, r) := by
  rw [parse]; simp [h]
theorem parse_cf (fuel : Nat) (rest r : Bytes) (n : Nat) (h : readLen 8 rest = .ok (n, r)) :
    parse (fuel + 1) (0xcf :: rest) = .ok (.int n, r) := by
  rw [parse]; simp [h]

theorem parse_d0 (fuel : Nat) (rest r : Bytes) (n : Nat) (h : readLen 1 rest = .ok (n, r)) :
    parse (fuel + 1) (0xd0 :: rest) = .ok (.int (signedOf 8 n), r) := by
  rw [parse]; simp [h]
theorem parse_d1 (fuel : Nat) (rest r : Bytes) (n : Nat) (h : readLen 2 rest = .ok (n, r)) :
    parse (fuel + 1) (0xd1 :: rest) = .ok (.int (signedOf 16 n), r) := by
  rw [parse]; simp [h]
theorem parse_d2 (fuel : Nat) (rest r : Bytes) (n : Nat) (h : readLen 4 rest = .ok (n, r)) :
    parse (fuel + 1) (0xd2 :: rest) = .ok (.int (signedOf 32 n), r) := by
  rw [parse]; simp [h]
theorem parse_d3 (fuel : Nat) (rest r : Bytes) (n : Nat) (h : readLen 8 rest = .ok (n, r)) :
    parse (fuel + 1) (0xd3 :: rest) = .ok (.int (signedOf 64 n), r) := by
  rw [parse]; simp [h]

theorem parse_dc (fuel : Nat) (rest r r' : Bytes) (n : Nat) (l : List Val)
    (h : readLen 2 rest = .ok (n, r)) (h' : parseArr fuel n r = .ok (l, r')) :
    parse (fuel + 1) (0xdc :: rest) = .ok (.arr l, r') := by
  rw [parse]; simp [h, h']
theorem parse_dd (fuel : Nat) (rest r r' : Bytes) (n : Nat) (l : List Val)
    (h : readLen 4 rest = .ok (n, r)) (h' : parseArr fuel n r = .ok (l, r')) :
    parse (fuel + 1) (0xdd :: rest) = .ok (.arr l, r') := by
  rw [parse]; simp [h, h']

theorem parse_posfix (fuel : Nat) (t : UInt8) (rest : Bytes) (h : t.toNat < 0x80) :
    parse (fuel + 1) (t :: rest) = .ok (.int t.toNat, rest) := by
  rw [parse]
  simp [h]

theorem parse_negfix (fuel : Nat) (t : UInt8) (rest : Bytes) (h : 0xe0 ≤ t.toNat) :
    parse (fuel + 1) (t :: rest) = .ok (.int ((t.toNat : Int) - 256), rest) := by
  rw [parse]
  simp only []
  repeat (first | rw [if_neg (by omega)] | rw [if_pos (by omega)])

theorem parse_fixarr (fuel : Nat) (t : UInt8) (rest r : Bytes) (l : List Val)
    (h : 0x90 ≤ t.toNat) (h' : t.toNat < 0xa0)
    (hp : parseArr fuel (t.toNat - 0x90) rest = .ok (l, r)) :
    parse (fuel + 1) (t :: rest) = .ok (.arr l, r) := by
  rw [parse]
  simp only []
  repeat (first | rw [if_neg (by omega)] | rw [if_pos (by omega)])
  rw [hp]

theorem parse_fixstr (fuel : Nat) (t : UInt8) (rest r s : Bytes)
    (h : 0xa0 ≤ t.toNat) (h' : t.toNat < 0xc0)
    (hp : takeN (t.toNat - 0xa0) rest = .ok (s, r)) :
    parse (fuel + 1) (t :: rest) = .ok (.str s, r) := by
  rw [parse]
  simp only []
  repeat (first | rw [if_neg (by omega)] | rw [if_pos (by omega)])
  rw [hp]
theorem toNat_ofNat_lt (n : Nat) (h : n < 256) : (UInt8.ofNat n).toNat = n := by
  simp [UInt8.toNat_ofNat']
  omega

theorem beN_one (n : Nat) (h : n < 256) : beN 1 n = [UInt8.ofNat n] := by
  simp [beN, bytesOfNat, digitsOfNat, Nat.mod_eq_of_lt h]

theorem beN_length (w n : Nat) : (beN w n).length = w := bytesOfNat_length w n

theorem takeN_append (s r : Bytes) : takeN s.length (s ++ r) = .ok (s, r) := by
  simp [takeN]

theorem readLen_beN (w n : Nat) (x : Bytes) (h : n < 256 ^ w) :
    readLen w (beN w n ++ x) = .ok (n, x) := by
  have h1 := takeN_append (beN w n) x
  rw [beN_length] at h1
  simp only [readLen, h1]
  rw [beN, natOfBytes_bytesOfNat, Nat.mod_eq_of_lt h]

theorem lenBin_beN (w : Nat) (mk : Bytes → Val) (s r : Bytes) (h : s.length < 256 ^ w) :
    lenBin w mk (beN w s.length ++ (s ++ r)) = .ok (mk s, r) := by
  simp only [lenBin, readLen_beN w s.length (s ++ r) h, takeN_append]

theorem encArrayHdr_pos (n : Nat) : 1 ≤ (encArrayHdr n).length := by
  unfold encArrayHdr; repeat' split
  all_goals simp

theorem encBinHdr_pos (n : Nat) : 1 ≤ (encBinHdr n).length := by
  unfold encBinHdr; repeat' split
  all_goals simp

theorem encStrHdr_pos (n : Nat) : 1 ≤ (encStrHdr n).length := by
  unfold encStrHdr; repeat' split
  all_goals simp

theorem encUInt_pos (n : Nat) : 1 ≤ (encUInt n).length := by
  unfold encUInt; repeat' split
  all_goals simp

theorem encInt_pos (i : Int) : 1 ≤ (encInt i).length := by
  unfold encInt; repeat' split
  all_goals first | exact encUInt_pos _ | simp

theorem encode_pos (v : Val) : 1 ≤ (encode v).length := by
  cases v with
  | nil => simp [encode, encNil]
  | bool b => simp [encode, encBool]
  | int i => rw [encode]; exact encInt_pos i
  | bin b => rw [encode, encBin, List.length_append]; have := encBinHdr_pos b.length; omega
  | str b => rw [encode, encStr, List.length_append]; have := encStrHdr_pos b.length; omega
  | arr l => rw [encode, List.length_append]; have := encArrayHdr_pos l.length; omega
  | map l => simp [encode]
  | ext t b => simp [encode, encNil]
  | float r => simp [encode]

theorem parse_encBin (b : Bytes) (h : b.length < 2 ^ 32) (rest : Bytes) (fuel : Nat) :
    parse (fuel + 1) (encBin b ++ rest) = .ok (.bin b, rest) := by
  unfold encBin encBinHdr
  split
  · rename_i h1
    have : [0xc4, UInt8.ofNat b.length] ++ b ++ rest = 0xc4 :: (beN 1 b.length ++ (b ++ rest)) := by
      rw [beN_one _ h1]; simp
    rw [this, parse_c4, lenBin_beN _ _ _ _ (by omega)]
  · split
    · rename_i h1 h2
      have : (0xc5 :: beN 2 b.length) ++ b ++ rest = 0xc5 :: (beN 2 b.length ++ (b ++ rest)) := by simp
      rw [this, parse_c5, lenBin_beN _ _ _ _ (by omega)]
    · have : (0xc6 :: beN 4 b.length) ++ b ++ rest = 0xc6 :: (beN 4 b.length ++ (b ++ rest)) := by simp
      rw [this, parse_c6, lenBin_beN _ _ _ _ (by omega)]

theorem parse_encStr (b : Bytes) (h : b.length < 2 ^ 32) (rest : Bytes) (fuel : Nat) :
    parse (fuel + 1) (encStr b ++ rest) = .ok (.str b, rest) := by
  unfold encStr encStrHdr
  split
  · rename_i h1
    have ht : (UInt8.ofNat (0xa0 + b.length)).toNat = 0xa0 + b.length := toNat_ofNat_lt _ (by omega)
    have : [UInt8.ofNat (0xa0 + b.length)] ++ b ++ rest = UInt8.ofNat (0xa0 + b.length) :: (b ++ rest) := by simp
    rw [this]
    apply parse_fixstr
    · omega
    · omega
    · rw [ht, Nat.add_sub_cancel_left, takeN_append]
  · split
    · rename_i h1 h2
      have : [0xd9, UInt8.ofNat b.length] ++ b ++ rest = 0xd9 :: (beN 1 b.length ++ (b ++ rest)) := by
        rw [beN_one _ h2]; simp
      rw [this, parse_d9, lenBin_beN _ _ _ _ (by omega)]
    · split
      · have : (0xda :: beN 2 b.length) ++ b ++ rest = 0xda :: (beN 2 b.length ++ (b ++ rest)) := by simp
        rw [this, parse_da, lenBin_beN _ _ _ _ (by omega)]
      · have : (0xdb :: beN 4 b.length) ++ b ++ rest = 0xdb :: (beN 4 b.length ++ (b ++ rest)) := by simp
        rw [this, parse_db, lenBin_beN _ _ _ _ (by omega)]

theorem parse_encUInt (n : Nat) (h : n < 2 ^ 64) (rest : Bytes) (fuel : Nat) :
    parse (fuel + 1) (encUInt n ++ rest) = .ok (.int n, rest) := by
  unfold encUInt
  split
  · rename_i h1
    have ht : (UInt8.ofNat n).toNat = n := toNat_ofNat_lt _ (by omega)
    have := parse_posfix fuel (UInt8.ofNat n) rest (by omega)
    rw [ht] at this
    exact this
  · split
    · rename_i h1 h2
      have : [0xcc, UInt8.ofNat n] ++ rest = 0xcc :: (beN 1 n ++ rest) := by
        rw [beN_one _ h2]; simp
      rw [this]
      exact parse_cc _ _ _ _ (readLen_beN 1 n rest (by omega))
    · split
      · exact parse_cd _ _ _ _ (readLen_beN 2 n rest (by omega))
      · split
        · exact parse_ce _ _ _ _ (readLen_beN 4 n rest (by omega))
        · exact parse_cf _ _ _ _ (readLen_beN 8 n rest (by omega))

theorem signedOf_8 (m : Nat) (h1 : 1 ≤ m) (h2 : m ≤ 128) : signedOf 8 (256 - m) = -(m : Int) := by
  simp only [signedOf, Nat.reduceSub, Nat.reducePow]
  rw [if_neg (by omega)]; omega
theorem signedOf_16 (m : Nat) (h1 : 1 ≤ m) (h2 : m ≤ 32768) : signedOf 16 (65536 - m) = -(m : Int) := by
  simp only [signedOf, Nat.reduceSub, Nat.reducePow]
  rw [if_neg (by omega)]; omega
theorem signedOf_32 (m : Nat) (h1 : 1 ≤ m) (h2 : m ≤ 2147483648) :
    signedOf 32 (4294967296 - m) = -(m : Int) := by
  simp only [signedOf, Nat.reduceSub, Nat.reducePow]
  rw [if_neg (by omega)]; omega
theorem signedOf_64 (m : Nat) (h1 : 1 ≤ m) (h2 : m ≤ 9223372036854775808) :
    signedOf 64 (18446744073709551616 - m) = -(m : Int) := by
  simp only [signedOf, Nat.reduceSub, Nat.reducePow]
  rw [if_neg (by omega)]; omega

theorem parse_encInt (i : Int) (hlo : -(2 ^ 63 : Int) ≤ i) (hhi : i < (2 ^ 64 : Int)) (rest : Bytes) (fuel : Nat) :
    parse (fuel + 1) (encInt i ++ rest) = .ok (.int i, rest) := by
  unfold encInt
  split
  · rename_i h0
    have := parse_encUInt i.toNat (by omega) rest fuel
    rw [Int.toNat_of_nonneg h0] at this
    exact this
  · rename_i h0
    generalize hm : (-i).toNat = m
    have hi : i = -(m : Int) := by omega
    split
    · have ht : (UInt8.ofNat (256 - m)).toNat = 256 - m := toNat_ofNat_lt _ (by omega)
      have := parse_negfix fuel (UInt8.ofNat (256 - m)) rest (by omega)
      rw [ht] at this
      have e : (((256 - m : Nat) : Int) - 256) = i := by omega
      rw [e] at this
      exact this
    · split
      · have : [0xd0, UInt8.ofNat (256 - m)] ++ rest = 0xd0 :: (beN 1 (256 - m) ++ rest) := by
          rw [beN_one _ (by omega)]; simp
        rw [this, parse_d0 _ _ _ _ (readLen_beN 1 (256 - m) rest (by omega)),
          signedOf_8 m (by omega) (by omega), hi]
      · split
        · rw [show (0xd1 :: beN 2 (65536 - m)) ++ rest = 0xd1 :: (beN 2 (65536 - m) ++ rest) from rfl,
            parse_d1 _ _ _ _ (readLen_beN 2 (65536 - m) rest (by omega)),
            signedOf_16 m (by omega) (by omega), hi]
        · split
          · rw [show (0xd2 :: beN 4 (4294967296 - m)) ++ rest = 0xd2 :: (beN 4 (4294967296 - m) ++ rest) from rfl,
              parse_d2 _ _ _ _ (readLen_beN 4 (4294967296 - m) rest (by omega)),
              signedOf_32 m (by omega) (by omega), hi]
          · rw [show (0xd3 :: beN 8 (18446744073709551616 - m)) ++ rest
                = 0xd3 :: (beN 8 (18446744073709551616 - m) ++ rest) from rfl,
              parse_d3 _ _ _ _ (readLen_beN 8 (18446744073709551616 - m) rest (by omega)),
              signedOf_64 m (by omega) (by omega), hi]

theorem parse_arrHdr (n : Nat) (hn : n < 2 ^ 32) (fuel : Nat) (r r' : Bytes) (l : List Val)
    (h : parseArr fuel n r = .ok (l, r')) :
    parse (fuel + 1) (encArrayHdr n ++ r) = .ok (.arr l, r') := by
  unfold encArrayHdr
  split
  · have ht : (UInt8.ofNat (0x90 + n)).toNat = 0x90 + n := toNat_ofNat_lt _ (by omega)
    apply parse_fixarr
    · omega
    · omega
    · rw [ht, Nat.add_sub_cancel_left]; exact h
  · split
    · exact parse_dc _ _ _ _ _ _ (readLen_beN 2 n r (by omega)) h
    · exact parse_dd _ _ _ _ _ _ (readLen_beN 4 n r (by omega)) h

theorem encodeList_nil : encode.encodeList [] = [] := by rw [encode.encodeList]
theorem encodeList_cons (v : Val) (vs : List Val) :
    encode.encodeList (v :: vs) = encode v ++ encode.encodeList vs := by rw [encode.encodeList]

mutual
theorem parse_encode_aux : (v : Val) → ValWF v → ∀ (rest : Bytes) (fuel : Nat),
    2 * (encode v).length ≤ fuel → parse fuel (encode v ++ rest) = .ok (v, rest)
  | .nil, _, rest, fuel, hf => by
    have := encode_pos .nil
    obtain ⟨f, rfl⟩ : ∃ f, fuel = f + 1 := ⟨fuel - 1, by omega⟩
    rw [encode]; exact parse_c0 f rest
  | .bool b, _, rest, fuel, hf => by
    have := encode_pos (.bool b)
    obtain ⟨f, rfl⟩ : ∃ f, fuel = f + 1 := ⟨fuel - 1, by omega⟩
    rw [encode, encBool]
    cases b
    · exact parse_c2 f rest
    · exact parse_c3 f rest
  | .int i, hv, rest, fuel, hf => by
    have := encode_pos (.int i)
    obtain ⟨f, rfl⟩ : ∃ f, fuel = f + 1 := ⟨fuel - 1, by omega⟩
    rw [encode]
    cases hv with
    | int _ hlo hhi => exact parse_encInt i hlo hhi rest f
  | .bin b, hv, rest, fuel, hf => by
    have := encode_pos (.bin b)
    obtain ⟨f, rfl⟩ : ∃ f, fuel = f + 1 := ⟨fuel - 1, by omega⟩
    rw [encode]
    cases hv with
    | bin _ h => exact parse_encBin b h rest f
  | .str b, hv, rest, fuel, hf => by
    have := encode_pos (.str b)
    obtain ⟨f, rfl⟩ : ∃ f, fuel = f + 1 := ⟨fuel - 1, by omega⟩
    rw [encode]
    cases hv with
    | str _ h => exact parse_encStr b h rest f
  | .arr l, hv, rest, fuel, hf => by
    have hp := encArrayHdr_pos l.length
    rw [encode, List.length_append] at hf
    obtain ⟨f, rfl⟩ : ∃ f, fuel = f + 1 := ⟨fuel - 1, by omega⟩
    rw [encode, List.append_assoc]
    cases hv with
    | arr _ hl hall =>
      exact parse_arrHdr l.length hl f _ rest l (parseArr_encodeList l hall rest f (by omega))
  | .map _, hv, _, _, _ => by cases hv
  | .ext _ _, hv, _, _, _ => by cases hv
  | .float _, hv, _, _, _ => by cases hv
theorem parseArr_encodeList : (l : List Val) → (∀ v ∈ l, ValWF v) → ∀ (rest : Bytes) (fuel : Nat),
    2 * (encode.encodeList l).length + 1 ≤ fuel →
    parseArr fuel l.length (encode.encodeList l ++ rest) = .ok (l, rest)
  | [], _, rest, fuel, hf => by
    obtain ⟨f, rfl⟩ : ∃ f, fuel = f + 1 := ⟨fuel - 1, by omega⟩
    rw [encodeList_nil, List.length_nil, parseArr]
    rfl
  | v :: vs, hall, rest, fuel, hf => by
    have hp := encode_pos v
    rw [encodeList_cons, List.length_append] at hf
    obtain ⟨f, rfl⟩ : ∃ f, fuel = f + 1 := ⟨fuel - 1, by omega⟩
    rw [encodeList_cons, List.length_cons, parseArr, List.append_assoc,
      parse_encode_aux v (hall v (by simp)) _ f (by omega)]
    simp only []
    rw [parseArr_encodeList vs (fun x hx => hall x (by simp [hx])) rest f (by omega)]
end

end MsgpackRT
open MsgpackRT

/-! ### the round trip -/

/-- `encode` never produces the empty string -/
theorem encode_ne_nil (v : Val) : encode v ≠ [] := by
  intro h
  have := encode_pos v
  rw [h] at this
  simp at this



theorem parse_encode (v : Val) (hv : ValWF v) (rest : Bytes) (fuel : Nat)
    (hf : 2 * (encode v).length ≤ fuel) :
    parse fuel (encode v ++ rest) = .ok (v, rest) :=
  parse_encode_aux v hv rest fuel hf

theorem parse1_encode (v : Val) (hv : ValWF v) (rest : Bytes) :
    parse1 (encode v ++ rest) = .ok (v, rest) := by
  unfold parse1
  apply parse_encode v hv
  rw [List.length_append]
  omega

theorem parseAll_encode (vs : List Val) (hv : ∀ v ∈ vs, ValWF v) (fuel : Nat)
    (hf : (vs.flatMap encode).length < fuel) :
    parseAll fuel (vs.flatMap encode) = (vs, none) := by
  induction vs generalizing fuel with
  | nil =>
    obtain ⟨f, rfl⟩ : ∃ f, fuel = f + 1 := ⟨fuel - 1, by omega⟩
    simp [parseAll]
  | cons v vs ih =>
    obtain ⟨f, rfl⟩ : ∃ f, fuel = f + 1 := ⟨fuel - 1, by omega⟩
    have hp := encode_pos v
    rw [List.flatMap_cons, List.length_append] at hf
    rw [List.flatMap_cons, parseAll]
    have hne : (encode v ++ List.flatMap encode vs).isEmpty = false := by
      rw [List.isEmpty_eq_false_iff]
      intro h
      exact encode_ne_nil v (List.append_eq_nil_iff.mp h).1
    rw [hne, parse1_encode v (hv v (by simp))]
    simp only [Bool.false_eq_true, if_false]
    rw [ih (fun x hx => hv x (by simp [hx])) f (by omega)]

/-! ### typed views invert `toVal` -/

theorem viewList_recvKeys (rs : List RecvKeys) :
    viewList viewRecvKeys (rs.map RecvKeys.toVal) = some rs := by
  induction rs with
  | nil => rfl
  | cons r rs ih =>
    rw [List.map_cons, viewList, ih]
    obtain ⟨kid, box⟩ := r
    cases kid <;> rfl

theorem viewList_auth (auths : List Bytes) (hl : ∀ a ∈ auths, a.length = 32) :
    viewList viewAuth (auths.map .bin) = some auths := by
  induction auths with
  | nil => rfl
  | cons a as ih =>
    rw [List.map_cons, viewList, ih (fun x hx => hl x (by simp [hx]))]
    simp [viewAuth, viewBytes, hl a (by simp)]

theorem viewEncHeader_toVal (h : EncHeader) : viewEncHeader h.toVal = some h := by
  obtain ⟨fn, ⟨ma, mi⟩, ty, eph, ssb, rs⟩ := h
  simp [viewEncHeader, EncHeader.toVal, Version.toVal, viewBytes, viewVersion, viewInt, viewList_recvKeys]

theorem viewSigHeader_toVal (h : SigHeader) : viewSigHeader h.toVal = some h := by
  obtain ⟨fn, ⟨ma, mi⟩, ty, pk, n⟩ := h
  simp [viewSigHeader, SigHeader.toVal, Version.toVal, viewBytes, viewVersion, viewInt]

theorem msgpack_v2_ne_v1 : v2 ≠ v1 := by decide

theorem viewEncBlock_v2 (auths : List Bytes) (ct : Bytes) (f : Bool)
    (ha : auths ≠ []) (hl : ∀ a ∈ auths, a.length = 32) (val : Val)
    (h : encBlockVal v2 auths ct f = .ok val) :
    viewEncBlock 2 val = some ⟨auths, ct, f⟩ := by
  have he : auths.isEmpty = false := by simpa using ha
  simp only [encBlockVal, he, if_neg msgpack_v2_ne_v1, if_true, Bool.false_eq_true, if_false,
    Except.ok.injEq] at h
  subst h
  simp [viewEncBlock, viewBool, viewBytes, viewList_auth auths hl]

theorem viewEncBlock_v1 (auths : List Bytes) (ct : Bytes) (f : Bool)
    (ha : auths ≠ []) (hl : ∀ a ∈ auths, a.length = 32) (val : Val)
    (h : encBlockVal v1 auths ct f = .ok val) :
    viewEncBlock 1 val = some ⟨auths, ct, false⟩ := by
  have he : auths.isEmpty = false := by simpa using ha
  simp only [encBlockVal, he, if_true, Bool.false_eq_true, if_false, Except.ok.injEq] at h
  subst h
  simp [viewEncBlock, viewBytes, viewList_auth auths hl]

theorem viewSigncryptBlock_val (ct : Bytes) (f : Bool) :
    viewSigncryptBlock (signcryptBlockVal ct f) = some ⟨ct, f⟩ := by
  simp [viewSigncryptBlock, signcryptBlockVal, viewBytes, viewBool]

theorem viewSigBlock_v2 (sig chunk : Bytes) (f : Bool) (val : Val)
    (h : sigBlockVal v2 sig chunk f = .ok val) : viewSigBlock 2 val = some ⟨sig, chunk, f⟩ := by
  simp only [sigBlockVal, if_neg msgpack_v2_ne_v1, if_true, Except.ok.injEq] at h
  subst h
  simp [viewSigBlock, viewBool, viewBytes]

theorem viewSigBlock_v1 (sig chunk : Bytes) (f : Bool) (val : Val)
    (h : sigBlockVal v1 sig chunk f = .ok val) : viewSigBlock 1 val = some ⟨sig, chunk, false⟩ := by
  simp only [sigBlockVal, if_true, Except.ok.injEq] at h
  subst h
  simp [viewSigBlock, viewBytes]

theorem encHeader_wf (h : EncHeader)
    (h1 : h.formatName.length < 2 ^ 32) (h2 : h.ephemeral.length < 2 ^ 32)
    (h3 : h.senderSecretbox.length < 2 ^ 32) (h4 : h.receivers.length < 2 ^ 32)
    (h5 : ∀ r ∈ h.receivers, r.box.length < 2 ^ 32 ∧ ∀ k, r.kid = some k → k.length < 2 ^ 32)
    (h6 : -(2 ^ 63 : Int) ≤ h.version.major ∧ h.version.major < 2 ^ 64)
    (h7 : -(2 ^ 63 : Int) ≤ h.version.minor ∧ h.version.minor < 2 ^ 64)
    (h8 : -(2 ^ 63 : Int) ≤ h.typ ∧ h.typ < 2 ^ 64) : ValWF h.toVal := by
  unfold EncHeader.toVal
  apply ValWF.arr _ (by simp)
  intro v hv
  simp only [List.mem_cons, List.not_mem_nil, or_false] at hv
  rcases hv with rfl | rfl | rfl | rfl | rfl | rfl
  · exact ValWF.str _ h1
  · unfold Version.toVal
    apply ValWF.arr _ (by simp)
    intro v hv
    simp only [List.mem_cons, List.not_mem_nil, or_false] at hv
    rcases hv with rfl | rfl
    · exact ValWF.int _ h6.1 h6.2
    · exact ValWF.int _ h7.1 h7.2
  · exact ValWF.int _ h8.1 h8.2
  · exact ValWF.bin _ h2
  · exact ValWF.bin _ h3
  · apply ValWF.arr _ (by rw [List.length_map]; exact h4)
    intro v hv
    rw [List.mem_map] at hv
    obtain ⟨r, hr, rfl⟩ := hv
    unfold RecvKeys.toVal
    apply ValWF.arr _ (by simp)
    intro v hv
    simp only [List.mem_cons, List.not_mem_nil, or_false] at hv
    rcases hv with rfl | rfl
    · cases hk : r.kid with
      | none => exact ValWF.nil
      | some k => exact ValWF.bin _ ((h5 r hr).2 k hk)
    · exact ValWF.bin _ (h5 r hr).1

end Saltpack.Proofs
