/-
  MessagePack: the generic parser inverts the encoder on every value the
  senders write (`Val.WF`), also when more bytes follow (stream of objects), and
  the typed views invert the `toVal` functions of the packet structures.
  Proofs behind C01/C03/C05/C07 ("binary form = structures") and C08/C09.
-/
import Saltpack.Model.Msgpack
import Saltpack.Model.Packets
import Saltpack.Model.Wire

namespace Saltpack.Proofs
open Saltpack Saltpack.Msgpack

/-- values the encoder represents faithfully: lengths below 2^32, integers in
    the 64-bit range, no maps / ext / floats (saltpack never writes those) -/
inductive ValWF : Val → Prop where
  | nil : ValWF .nil
  | bool (b : Bool) : ValWF (.bool b)
  | int (i : Int) : -(2 ^ 63 : Int) ≤ i → i < (2 ^ 64 : Int) → ValWF (.int i)
  | bin (b : Bytes) : b.length < 2 ^ 32 → ValWF (.bin b)
  | str (b : Bytes) : b.length < 2 ^ 32 → ValWF (.str b)
  | arr (l : List Val) : l.length < 2 ^ 32 → (∀ v ∈ l, ValWF v) → ValWF (.arr l)

/-- size-independent statement: with enough fuel, parsing `encode v ++ rest`
    yields `v` and leaves `rest`. -/
theorem parse_encode (v : Val) (hv : ValWF v) (rest : Bytes) (fuel : Nat)
    (hf : 2 * (encode v).length ≤ fuel) :
    parse fuel (encode v ++ rest) = .ok (v, rest) := by
  sorry

theorem parse1_encode (v : Val) (hv : ValWF v) (rest : Bytes) :
    parse1 (encode v ++ rest) = .ok (v, rest) := by
  sorry

/-- a concatenation of encoded objects parses back into exactly those objects,
    with a clean end -/
theorem parseAll_encode (vs : List Val) (hv : ∀ v ∈ vs, ValWF v) (fuel : Nat)
    (hf : (vs.flatMap encode).length < fuel) :
    parseAll fuel (vs.flatMap encode) = (vs, none) := by
  sorry

/-- `encode` never produces the empty string -/
theorem encode_ne_nil (v : Val) : encode v ≠ [] := by
  sorry

/-! ### typed views invert `toVal` -/

theorem viewEncHeader_toVal (h : EncHeader) : viewEncHeader h.toVal = some h := by
  sorry

theorem viewSigHeader_toVal (h : SigHeader) : viewSigHeader h.toVal = some h := by
  sorry

/-- V1 / V2 encryption packets (the V1 view ignores the final flag) -/
theorem viewEncBlock_v2 (auths : List Bytes) (ct : Bytes) (f : Bool)
    (ha : auths ≠ []) (hl : ∀ a ∈ auths, a.length = 32) (val : Val)
    (h : encBlockVal v2 auths ct f = .ok val) :
    viewEncBlock 2 val = some ⟨auths, ct, f⟩ := by
  sorry

theorem viewEncBlock_v1 (auths : List Bytes) (ct : Bytes) (f : Bool)
    (ha : auths ≠ []) (hl : ∀ a ∈ auths, a.length = 32) (val : Val)
    (h : encBlockVal v1 auths ct f = .ok val) :
    viewEncBlock 1 val = some ⟨auths, ct, false⟩ := by
  sorry

theorem viewSigncryptBlock_val (ct : Bytes) (f : Bool) :
    viewSigncryptBlock (signcryptBlockVal ct f) = some ⟨ct, f⟩ := by
  sorry

theorem viewSigBlock_v2 (sig chunk : Bytes) (f : Bool) (val : Val)
    (h : sigBlockVal v2 sig chunk f = .ok val) : viewSigBlock 2 val = some ⟨sig, chunk, f⟩ := by
  sorry

theorem viewSigBlock_v1 (sig chunk : Bytes) (f : Bool) (val : Val)
    (h : sigBlockVal v1 sig chunk f = .ok val) : viewSigBlock 1 val = some ⟨sig, chunk, false⟩ := by
  sorry

/-- well-formedness of what the packet structures turn into -/
theorem encHeader_wf (h : EncHeader)
    (h1 : h.formatName.length < 2 ^ 32) (h2 : h.ephemeral.length < 2 ^ 32)
    (h3 : h.senderSecretbox.length < 2 ^ 32) (h4 : h.receivers.length < 2 ^ 32)
    (h5 : ∀ r ∈ h.receivers, r.box.length < 2 ^ 32 ∧ ∀ k, r.kid = some k → k.length < 2 ^ 32)
    (h6 : -(2 ^ 63 : Int) ≤ h.version.major ∧ h.version.major < 2 ^ 64)
    (h7 : -(2 ^ 63 : Int) ≤ h.version.minor ∧ h.version.minor < 2 ^ 64)
    (h8 : -(2 ^ 63 : Int) ≤ h.typ ∧ h.typ < 2 ^ 64) : ValWF h.toVal := by
  sorry

end Saltpack.Proofs
