/-
  Proofs about the byte-level front end (`Model/Front.lean`): what `Front.read*`
  can return for ANY byte string — the facts the byte-level corollaries of the
  receivers' theorems need (Props/C15Bytes, C17Bytes, C12Bytes, C02Bytes, C04Bytes,
  C06Bytes, C07Bytes).

  * inversion: a successful read is `Codec`'s or (when `Codec` says unmodelled) `Wire`'s;
  * the tail of every packet stream a front end produces is a clean end or a
    plain decode error — never an `Err.panic` (the `htail` hypothesis of the
    receivers' no-panic theorems is discharged for every byte string);
  * likewise the detached-signature read.

  Core Lean only.
-/
import Saltpack.Model.Front
import Saltpack.Proofs.NoPanic

namespace Saltpack.Proofs
open Saltpack

/-- the tails a front end produces -/
def TailPlain (t : Tail) : Prop := t = .eof ∨ t = .err .decodeError

theorem TailPlain.no_panic {t : Tail} (h : TailPlain t) : ∀ e, t = .err e → Err.isPanic e = false := by
  intro e he
  rcases h with h | h
  · rw [h] at he; cases he
  · rw [h] at he; cases he; rfl

/-- the detached-signature reads a front end produces -/
def SigReadPlain (sr : Sign.SigRead) : Prop := ∀ e, sr = .none e → e = .unexpectedEOF ∨ e = .decodeError

theorem SigReadPlain.no_panic {sr : Sign.SigRead} (h : SigReadPlain sr) : ∀ e, sr = .none e → Err.isPanic e = false := by
  intro e he
  rcases h e he with h | h <;> rw [h] <;> rfl

/-! ### `orWire` -/

theorem orWire_ok {α : Type} {c : Except String α} {w : Unit → Wire.Front α} {x : α}
    (h : Front.orWire c w = .ok x) :
    c = .ok x ∨ ∃ why, c = .error why ∧ w () = .ok x := by
  unfold Front.orWire at h
  cases c with
  | ok y => simp at h; exact Or.inl (by rw [h])
  | error why =>
    right
    refine ⟨why, rfl, ?_⟩
    cases hw : w () with
    | ok y => simp [hw] at h; rw [h]
    | unmodelled e => simp [hw] at h

theorem orWire_error {α : Type} {c : Except String α} {w : Unit → Wire.Front α} {why : String}
    (h : Front.orWire c w = .error why) :
    c = .error why ∧ ∃ why', w () = .unmodelled why' := by
  unfold Front.orWire at h
  cases c with
  | ok y => simp at h
  | error w' =>
    cases hw : w () with
    | ok y => simp [hw] at h
    | unmodelled e => simp [hw] at h; exact ⟨by rw [h], e, rfl⟩

/-- the front end is go-codec's typed reader wherever that one answers -/
theorem orWire_of_codec {α : Type} {c : Except String α} {w : Unit → Wire.Front α} {x : α}
    (h : c = .ok x) : Front.orWire c w = .ok x := by
  subst h; rfl

/-- … and the spec-shaped reader only where the typed reader gives up -/
theorem orWire_of_wire {α : Type} {c : Except String α} {w : Unit → Wire.Front α} {x : α} {why : String}
    (hc : c = .error why) (hw : w () = .ok x) : Front.orWire c w = .ok x := by
  subst hc; simp [Front.orWire, hw]

theorem orWire_error_iff {α : Type} {c : Except String α} {w : Unit → Wire.Front α} {why : String} :
    Front.orWire c w = .error why ↔ c = .error why ∧ ∃ why', w () = .unmodelled why' := by
  refine ⟨orWire_error, ?_⟩
  rintro ⟨rfl, why', hw⟩
  simp [Front.orWire, hw]

/-! ### `settle`: same header read, same items; the tail is `Codec`'s or a clean end -/

theorem settle_ok {η β : Type} {decH : Codec.Dec η} {decB : η → Option (Codec.Dec β)} {fin : η → β → Bool} {msg : Bytes}
    {c : Except String (HeaderRead η × PStream β)} {hr : HeaderRead η} {ps : PStream β}
    (h : Front.settle decH decB fin msg c = .ok (hr, ps)) :
    ∃ ps0, c = .ok (hr, ps0) ∧ ps.items = ps0.items ∧ (ps.tail = ps0.tail ∨ ps.tail = .eof) := by
  cases c with
  | error w => cases h
  | ok x =>
    obtain ⟨hr0, ps0⟩ := x
    cases hr0 with
    | ok hb h0 =>
      simp only [Front.settle] at h
      split at h
      · split at h
        · split at h
          · cases h; exact ⟨_, rfl, rfl, Or.inr rfl⟩
          · cases h; exact ⟨_, rfl, rfl, Or.inl rfl⟩
        · cases h; exact ⟨_, rfl, rfl, Or.inl rfl⟩
      · cases h; exact ⟨_, rfl, rfl, Or.inl rfl⟩
    | unreadable => cases h; exact ⟨_, rfl, rfl, Or.inl rfl⟩
    | undecodable hb => cases h; exact ⟨_, rfl, rfl, Or.inl rfl⟩

theorem settle_error {η β : Type} {decH : Codec.Dec η} {decB : η → Option (Codec.Dec β)} {fin : η → β → Bool} {msg : Bytes}
    {c : Except String (HeaderRead η × PStream β)} {w : String} :
    Front.settle decH decB fin msg c = .error w ↔ c = .error w := by
  constructor
  · intro h
    cases c with
    | error w' => exact h
    | ok x =>
      obtain ⟨hr0, ps0⟩ := x
      cases hr0 with
      | ok hb h0 =>
        simp only [Front.settle] at h
        split at h
        · split at h
          · split at h
            · cases h
            · cases h
          · cases h
        · cases h
      | unreadable => cases h
      | undecodable hb => cases h
  · intro h
    subst h
    rfl

/-- a stream that `Codec` ends cleanly is left alone -/
theorem settle_of_eof {η β : Type} {decH : Codec.Dec η} {decB : η → Option (Codec.Dec β)} {fin : η → β → Bool} {msg : Bytes}
    {hr : HeaderRead η} {items : List (Option β)} :
    Front.settle decH decB fin msg (.ok (hr, ⟨items, .eof⟩)) = .ok (hr, ⟨items, .eof⟩) := by
  unfold Front.settle
  cases hr <;> simp

/-- where `Codec` reads a message to a clean end, the front end is `Codec` -/
theorem readEnc_of_codec_eof {msg : Bytes} {hr : HeaderRead EncHeader} {items : List (Option EncBlock)}
    (h : Codec.splitEnc msg = .ok (hr, ⟨items, .eof⟩)) : Front.readEnc msg = .ok (hr, ⟨items, .eof⟩) := by
  unfold Front.readEnc; rw [h]; exact orWire_of_codec settle_of_eof

theorem readSigncrypt_of_codec_eof {msg : Bytes} {hr : HeaderRead EncHeader} {items : List (Option SigncryptBlock)}
    (h : Codec.splitSigncrypt msg = .ok (hr, ⟨items, .eof⟩)) : Front.readSigncrypt msg = .ok (hr, ⟨items, .eof⟩) := by
  unfold Front.readSigncrypt; rw [h]; exact orWire_of_codec settle_of_eof

theorem readSig_of_codec_eof {msg : Bytes} {hr : HeaderRead SigHeader} {items : List (Option SigBlock)}
    (h : Codec.splitSig msg = .ok (hr, ⟨items, .eof⟩)) : Front.readSig msg = .ok (hr, ⟨items, .eof⟩) := by
  unfold Front.readSig; rw [h]; exact orWire_of_codec settle_of_eof

/-- in general: the same header read and items, the tail `Codec`'s or a clean end -/
theorem readEnc_of_codec {msg : Bytes} {hr : HeaderRead EncHeader} {ps : PStream EncBlock}
    (h : Codec.splitEnc msg = .ok (hr, ps)) :
    ∃ ps', Front.readEnc msg = .ok (hr, ps') ∧ ps'.items = ps.items ∧ (ps'.tail = ps.tail ∨ ps'.tail = .eof) := by
  unfold Front.readEnc
  rw [h]
  generalize hs : Front.settle _ _ _ msg (Except.ok (hr, ps)) = c
  cases c with
  | error w => rw [settle_error] at hs; cases hs
  | ok x =>
    obtain ⟨hr', ps'⟩ := x
    obtain ⟨ps0, e, a, b⟩ := settle_ok hs
    cases e
    exact ⟨ps', rfl, a, b⟩

theorem readSigncrypt_of_codec {msg : Bytes} {hr : HeaderRead EncHeader} {ps : PStream SigncryptBlock}
    (h : Codec.splitSigncrypt msg = .ok (hr, ps)) :
    ∃ ps', Front.readSigncrypt msg = .ok (hr, ps') ∧ ps'.items = ps.items ∧ (ps'.tail = ps.tail ∨ ps'.tail = .eof) := by
  unfold Front.readSigncrypt
  rw [h]
  generalize hs : Front.settle _ _ _ msg (Except.ok (hr, ps)) = c
  cases c with
  | error w => rw [settle_error] at hs; cases hs
  | ok x =>
    obtain ⟨hr', ps'⟩ := x
    obtain ⟨ps0, e, a, b⟩ := settle_ok hs
    cases e
    exact ⟨ps', rfl, a, b⟩

theorem readSig_of_codec {msg : Bytes} {hr : HeaderRead SigHeader} {ps : PStream SigBlock}
    (h : Codec.splitSig msg = .ok (hr, ps)) :
    ∃ ps', Front.readSig msg = .ok (hr, ps') ∧ ps'.items = ps.items ∧ (ps'.tail = ps.tail ∨ ps'.tail = .eof) := by
  unfold Front.readSig
  rw [h]
  generalize hs : Front.settle _ _ _ msg (Except.ok (hr, ps)) = c
  cases c with
  | error w => rw [settle_error] at hs; cases hs
  | ok x =>
    obtain ⟨hr', ps'⟩ := x
    obtain ⟨ps0, e, a, b⟩ := settle_ok hs
    cases e
    exact ⟨ps', rfl, a, b⟩

theorem codecDetached_ok {sigMsg : Bytes} {hr : HeaderRead SigHeader} {sr : Sign.SigRead}
    (h : Front.codecDetached sigMsg = .ok (hr, sr)) :
    ∃ d, Codec.splitDetached sigMsg = .ok (hr, d) ∧ sr = Front.detSig d := by
  unfold Front.codecDetached at h
  split at h
  · rename_i hr' d hsd
    cases h
    exact ⟨d, hsd, rfl⟩
  · cases h

theorem codecDetached_of_ok {sigMsg : Bytes} {hr : HeaderRead SigHeader} {d : Codec.DetSig}
    (h : Codec.splitDetached sigMsg = .ok (hr, d)) : Front.codecDetached sigMsg = .ok (hr, Front.detSig d) := by
  unfold Front.codecDetached; rw [h]

theorem codecDetached_error {sigMsg : Bytes} {why : String} :
    Front.codecDetached sigMsg = .error why ↔ Codec.splitDetached sigMsg = .error why := by
  unfold Front.codecDetached
  constructor
  · intro h
    split at h
    · cases h
    · rename_i w hw; cases h; exact hw
  · intro h; rw [h]

/-! ### tails of `Wire.split` -/

theorem wire_tailOf_plain (stop : Option Msgpack.PErr) : TailPlain (Wire.tailOf stop) := by
  cases stop with
  | none => exact Or.inl rfl
  | some e => cases e <;> simp [Wire.tailOf, TailPlain]

theorem wire_split_tail {η β : Type} (viewH : Msgpack.Val → Option η) (viewB : η → Msgpack.Val → Option β)
    (msg : Bytes) (hr : HeaderRead η) (ps : PStream β)
    (h : Wire.split viewH viewB msg = .ok (hr, ps)) : TailPlain ps.tail := by
  unfold Wire.split at h
  split at h
  · cases h
  · cases h; exact Or.inl rfl
  · split at h
    · cases h
    · dsimp only at h
      split at h
      · cases h
      · cases h; exact wire_tailOf_plain _
    · cases h; exact Or.inl rfl

theorem wire_splitDetached_plain (sigMsg : Bytes) (hr : HeaderRead SigHeader) (sr : Sign.SigRead)
    (h : Wire.splitDetached sigMsg = .ok (hr, sr)) : SigReadPlain sr := by
  have rb : ∀ (b : Bytes) (e : Err) (r : Bytes), Wire.readBytesObj b = .ok (.error e, r) →
      e = .unexpectedEOF ∨ e = .decodeError := by
    intro b e r hb
    unfold Wire.readBytesObj at hb
    split at hb
    · cases hb; exact Or.inl rfl
    · cases hb; exact Or.inr rfl
    · split at hb <;> first | (cases hb; exact Or.inr rfl) | cases hb
  unfold Wire.splitDetached at h
  split at h
  · cases h
  · cases h; intro e he; cases he; exact Or.inl rfl
  · split at h
    · cases h
    · split at h
      · cases h
      · rename_i e _ hrd
        cases h; intro e' he'; cases he'; exact rb _ _ _ hrd
      · cases h; intro e he; cases he

/-! ### tails of `Codec.blocks` / `Codec.split` -/

theorem codec_blocks_tail {β : Type} (dec : Codec.Dec β) : ∀ (fuel : Nat) (b : Bytes) (ps : PStream β),
    Codec.blocks dec fuel b = .ok ps → TailPlain ps.tail
  | 0, _, _, h => by simp [Codec.blocks] at h
  | fuel + 1, b, ps, h => by
    unfold Codec.blocks at h
    split at h
    · rename_i x rest _
      split at h
      · rename_i ps' hps
        cases h
        exact codec_blocks_tail dec fuel rest ps' hps
      · cases h
    · cases h; exact Or.inl rfl
    · cases h
    · split at h
      · cases h; exact Or.inl rfl
      · cases h
      · cases h; exact Or.inr rfl

/-- provenance of an `unmodelled` answer of the packet loop: with fuel beyond the
    input length and packet decodes that consume at least one byte, the loop itself
    never gives up — one packet decode (typed, or generic after a typed error) did -/
theorem blocks_unmodelled_provenance {β : Type} (dec : Codec.Dec β)
    (hprog : ∀ b x r, dec b = .ok (x, r) → r.length < b.length) :
    ∀ (fuel : Nat) (b : Bytes) (w : String), b.length < fuel → Codec.blocks dec fuel b = .error w →
      ∃ b' : Bytes, b'.length ≤ b.length ∧
        (dec b' = .error (.unmodelled w) ∨ (∃ why, dec b' = .error (.err why)) ∧ Codec.generic b' = .error (.unmodelled w))
  | 0, b, w, hf, _ => by omega
  | fuel + 1, b, w, hf, h => by
    unfold Codec.blocks at h
    split at h
    · rename_i x rest hd
      split at h
      · cases h
      · rename_i w' hrec
        cases h
        have := hprog _ _ _ hd
        obtain ⟨b', hl, hb'⟩ := blocks_unmodelled_provenance dec hprog fuel rest w (by omega) hrec
        exact ⟨b', by omega, hb'⟩
    · cases h
    · rename_i w' hd
      cases h
      exact ⟨b, Nat.le_refl _, Or.inl hd⟩
    · rename_i why hd
      split at h
      · cases h
      · rename_i w' hg
        cases h
        exact ⟨b, Nat.le_refl _, Or.inr ⟨⟨why, hd⟩, hg⟩⟩
      · cases h

theorem codec_split_tail {η β : Type} (decH : Codec.Dec η) (decB : η → Option (Codec.Dec β))
    (msg : Bytes) (hr : HeaderRead η) (ps : PStream β)
    (h : Codec.split decH decB msg = .ok (hr, ps)) : TailPlain ps.tail := by
  unfold Codec.split at h
  split at h
  · cases h
  · split at h
    · cases h; exact Or.inl rfl
    · split at h
      · cases h
      · rename_i ps' hps
        cases h
        exact codec_blocks_tail _ _ _ _ hps
  · cases h; exact Or.inl rfl

theorem detSig_plain (d : Codec.DetSig) : SigReadPlain (Front.detSig d) := by
  intro e he
  cases d <;> simp [Front.detSig] at he
  · exact Or.inl he.symm
  · exact Or.inr he.symm

/-! ### the four front ends -/

theorem readEnc_tail (msg : Bytes) (hr : HeaderRead EncHeader) (ps : PStream EncBlock)
    (h : Front.readEnc msg = .ok (hr, ps)) : TailPlain ps.tail := by
  rcases orWire_ok h with hc | ⟨_, _, hw⟩
  · obtain ⟨ps0, hc0, _, ht⟩ := settle_ok hc
    rcases ht with ht | ht
    · rw [ht]; exact codec_split_tail _ _ msg hr ps0 hc0
    · exact Or.inl ht
  · exact wire_split_tail _ _ msg hr ps hw

theorem readSigncrypt_tail (msg : Bytes) (hr : HeaderRead EncHeader) (ps : PStream SigncryptBlock)
    (h : Front.readSigncrypt msg = .ok (hr, ps)) : TailPlain ps.tail := by
  rcases orWire_ok h with hc | ⟨_, _, hw⟩
  · obtain ⟨ps0, hc0, _, ht⟩ := settle_ok hc
    rcases ht with ht | ht
    · rw [ht]; exact codec_split_tail _ _ msg hr ps0 hc0
    · exact Or.inl ht
  · exact wire_split_tail _ _ msg hr ps hw

theorem readSig_tail (msg : Bytes) (hr : HeaderRead SigHeader) (ps : PStream SigBlock)
    (h : Front.readSig msg = .ok (hr, ps)) : TailPlain ps.tail := by
  rcases orWire_ok h with hc | ⟨_, _, hw⟩
  · obtain ⟨ps0, hc0, _, ht⟩ := settle_ok hc
    rcases ht with ht | ht
    · rw [ht]; exact codec_split_tail _ _ msg hr ps0 hc0
    · exact Or.inl ht
  · exact wire_split_tail _ _ msg hr ps hw

theorem readDetached_plain (sigMsg : Bytes) (hr : HeaderRead SigHeader) (sr : Sign.SigRead)
    (h : Front.readDetached sigMsg = .ok (hr, sr)) : SigReadPlain sr := by
  rcases orWire_ok h with hc | ⟨_, _, hw⟩
  · obtain ⟨d, _, rfl⟩ := codecDetached_ok hc
    exact detSig_plain _
  · exact wire_splitDetached_plain sigMsg hr sr hw

/-! ### the byte-level receivers unfolded -/

theorem dec_openBytes_ok {P : Prims} {valid : Validator} {kr : Keyring} {msg : Bytes} {r : Decrypt.Result}
    (h : Decrypt.openBytes P valid kr msg = .ok r) :
    ∃ hr ps, Front.readEnc msg = .ok (hr, ps) ∧ r = Decrypt.openStream P valid kr hr ps := by
  unfold Decrypt.openBytes at h
  split at h
  · cases h
  · rename_i hr ps hrd
    cases h; exact ⟨hr, ps, hrd, rfl⟩

theorem sc_openBytes_ok {P : Prims} {kr : Keyring} {res : Signcrypt.Resolver} {msg : Bytes} {r : Signcrypt.Result}
    (h : Signcrypt.openBytes P kr res msg = .ok r) :
    ∃ hr ps, Front.readSigncrypt msg = .ok (hr, ps) ∧ r = Signcrypt.openStream P kr res hr ps := by
  unfold Signcrypt.openBytes at h
  split at h
  · cases h
  · rename_i hr ps hrd
    cases h; exact ⟨hr, ps, hrd, rfl⟩

theorem sig_verifyBytes_ok {P : Prims} {valid : Validator} {kr : Keyring} {msg : Bytes} {r : Sign.Result}
    (h : Sign.verifyBytes P valid kr msg = .ok r) :
    ∃ hr ps, Front.readSig msg = .ok (hr, ps) ∧ r = Sign.verifyStream P valid kr hr ps := by
  unfold Sign.verifyBytes at h
  split at h
  · cases h
  · rename_i hr ps hrd
    cases h; exact ⟨hr, ps, hrd, rfl⟩

theorem sig_verifyDetachedBytes_ok {P : Prims} {valid : Validator} {kr : Keyring} {sigMsg msg : Bytes}
    {r : Except Err Bytes} (h : Sign.verifyDetachedBytes P valid kr sigMsg msg = .ok r) :
    ∃ hr sr, Front.readDetached sigMsg = .ok (hr, sr) ∧ r = Sign.verifyDetached P valid kr hr sr msg := by
  unfold Sign.verifyDetachedBytes at h
  split at h
  · cases h
  · rename_i hr sr hrd
    cases h; exact ⟨hr, sr, hrd, rfl⟩

/-- the byte-level receivers answer exactly when the front end reads the bytes -/
theorem dec_openBytes_of_read {P : Prims} {valid : Validator} {kr : Keyring} {msg : Bytes}
    {hr : HeaderRead EncHeader} {ps : PStream EncBlock} (h : Front.readEnc msg = .ok (hr, ps)) :
    Decrypt.openBytes P valid kr msg = .ok (Decrypt.openStream P valid kr hr ps) := by
  unfold Decrypt.openBytes; rw [h]

theorem sc_openBytes_of_read {P : Prims} {kr : Keyring} {res : Signcrypt.Resolver} {msg : Bytes}
    {hr : HeaderRead EncHeader} {ps : PStream SigncryptBlock} (h : Front.readSigncrypt msg = .ok (hr, ps)) :
    Signcrypt.openBytes P kr res msg = .ok (Signcrypt.openStream P kr res hr ps) := by
  unfold Signcrypt.openBytes; rw [h]

theorem sig_verifyBytes_of_read {P : Prims} {valid : Validator} {kr : Keyring} {msg : Bytes}
    {hr : HeaderRead SigHeader} {ps : PStream SigBlock} (h : Front.readSig msg = .ok (hr, ps)) :
    Sign.verifyBytes P valid kr msg = .ok (Sign.verifyStream P valid kr hr ps) := by
  unfold Sign.verifyBytes; rw [h]

theorem sig_verifyDetachedBytes_of_read {P : Prims} {valid : Validator} {kr : Keyring} {sigMsg msg : Bytes}
    {hr : HeaderRead SigHeader} {sr : Sign.SigRead} (h : Front.readDetached sigMsg = .ok (hr, sr)) :
    Sign.verifyDetachedBytes P valid kr sigMsg msg = .ok (Sign.verifyDetached P valid kr hr sr msg) := by
  unfold Sign.verifyDetachedBytes; rw [h]

end Saltpack.Proofs
