/-
  The ring round-trip theorems (Proofs/RingRT.lean, behind Props/C01, C03, C05,
  C07) instantiated with the library's OWN keyring (Model/Basic.lean), and the
  `basic.EphemeralKeyCreator` facts behind C18.

  Standing hypotheses on the basic keyring `k`:
    `WF k`        public keys in the map are pairwise distinct — an invariant of
                  every sequence of imports (`importAll_empty_wf`), not an assumption
                  about the caller;
    `Honest P k`  every stored public key is the public key of its secret — true
                  of `GenerateBoxKey`; `ImportBoxKey(pub, sec)` stores whatever it
                  is given, so for imported keys this is the caller's obligation
                  (excluded point: `C01Basic` shows what a dishonest entry does).
  `order` is the order in which `GetAllBoxSecretKeys` iterates the Go map in the
  run at hand: any permutation of the entries.
-/
import Saltpack.Proofs.Basic
import Saltpack.Proofs.RingRT
import Saltpack.Proofs.RoundTripSig
import Saltpack.Proofs.Calls
import Saltpack.Proofs.WireRT

namespace Saltpack.Proofs.BasicRing
open Saltpack Saltpack.Basic Saltpack.Proofs.RTSig Saltpack.Encrypt

/-! ### bookkeeping between the entries of the map and the list of secrets -/

theorem mem_secs_of_perm {k : Basic.Keyring} {order : List SecretKey} (hperm : order.Perm k.encKeys) {s : Bytes} :
    s ∈ order.map (·.sec) ↔ s ∈ k.encKeys.map (·.sec) := by
  simp only [List.mem_map]
  constructor
  · rintro ⟨e, he, rfl⟩; exact ⟨e, hperm.mem_iff.1 he, rfl⟩
  · rintro ⟨e, he, rfl⟩; exact ⟨e, hperm.mem_iff.2 he, rfl⟩

theorem entry_of_sec {P : Prims} {k : Basic.Keyring} (hh : Honest P k) {s : Bytes} (hs : s ∈ k.encKeys.map (·.sec)) :
    (⟨P.boxPub s, s⟩ : SecretKey) ∈ k.encKeys := by
  obtain ⟨e, he, rfl⟩ := List.mem_map.1 hs
  have := hh e he
  obtain ⟨p, s⟩ := e
  simp only at this
  subst this
  exact he

/-- everything in the keyring was imported -/
theorem importAll_subset {k : Basic.Keyring} (es : List SecretKey) {e : SecretKey}
    (h : e ∈ (k.importAll es).encKeys) : e ∈ k.encKeys ∨ e ∈ es := by
  induction es generalizing k with
  | nil => exact Or.inl h
  | cons a rest ih =>
    rcases ih h with h' | h'
    · rcases mapInsert_mem h' with rfl | h''
      · exact Or.inr List.mem_cons_self
      · exact Or.inl h''
    · exact Or.inr (List.mem_cons_of_mem _ h')

/-- a public key that was imported is a key of the map (under the secret it was
    LAST imported with) -/
theorem mapGet_importAll_isSome (k : Basic.Keyring) (es : List SecretKey) {e : SecretKey} (he : e ∈ es) :
    ∃ e', mapGet (k.importAll es).encKeys e.pub = some e' ∧ e' ∈ es ∧ e'.pub = e.pub := by
  rw [mapGet_importAll]
  cases hf : es.reverse.find? (fun e' => e'.pub == e.pub) with
  | some e' =>
    refine ⟨e', rfl, List.mem_reverse.1 (List.mem_of_find?_eq_some hf), ?_⟩
    have := List.find?_some hf
    exact beq_iff_eq.1 this
  | none =>
    have := List.find?_eq_none.1 hf e (List.mem_reverse.2 he)
    simp at this

/-! ## C01: encryption -/

/-- **Encryption round trip with a basic keyring** (any WF honest keyring, any
    map iteration order): as `enc_roundtrip_seal_ring`, plus `hlen` — the
    VISIBLE recipients' key ids are 32 bytes (true of every `basic.PublicKey`;
    `LookupBoxSecretKey` copies each kid into a 32-byte array, so kids of other
    lengths are looked up under another name than the faithful keyring uses). -/
theorem enc_roundtrip_basic_ring (P : Prims) (hP : P.Lawful) (bs : Nat) (hbs : 0 < bs)
    (v : Version) (hv : v = v1 ∨ v = v2)
    (sender : Option Bytes) (rs : List Recipient) (eph payloadKey pt : Bytes)
    (hpk : payloadKey.length = 32)
    (hnamed : ∀ s, sender = some s → P.boxPub s ≠ P.boxPub eph)
    (hpub : ∀ r ∈ rs, r.hidden = false → r.pub ≠ [])
    (hlen : ∀ r ∈ rs, r.hidden = false → r.pub.length = 32)
    (k : Basic.Keyring) (hwf : WF k) (hh : Honest P k) (order : List SecretKey) (hperm : order.Perm k.encKeys)
    (i : Nat) (hi : i < rs.length) (sk : Bytes) (hmem : (⟨P.boxPub sk, sk⟩ : SecretKey) ∈ k.encKeys)
    (hsk : (rs.getD i default).pub = P.boxPub sk)
    (hns : RingNoSpuriousOpen P v eph payloadKey rs (k.encKeys.map (·.sec)))
    (h : EncHeader) (hb : Bytes) (blks : List EncBlock)
    (hseal : sealPackets P bs v sender rs eph payloadKey pt = .ok (h, hb, blks)) :
    ∃ i' sk', i' < rs.length ∧ (⟨P.boxPub sk', sk'⟩ : SecretKey) ∈ k.encKeys ∧
      (rs.getD i' default).pub = P.boxPub sk' ∧
      Decrypt.openAll P knownMajor (k.toRing order) (.ok hb h) ⟨blks.map some, .eof⟩ =
        .ok (mkiOf P sender rs eph i' sk', pt) := by
  have hmem' : sk ∈ order.map (·.sec) := (mem_secs_of_perm hperm).2 (List.mem_map.2 ⟨_, hmem, rfl⟩)
  have hns' : RingNoSpuriousOpen P v eph payloadKey rs (order.map (·.sec)) :=
    fun s hs => hns s ((mem_secs_of_perm hperm).1 hs)
  obtain ⟨i', sk', hi', hsk', hpe, hopen⟩ := enc_roundtrip_seal_ring P hP bs hbs v hv sender rs eph payloadKey pt
    hpk hnamed hpub (order.map (·.sec)) i hi sk hmem' hsk hns' h hb blks hseal
  refine ⟨i', sk', hi', entry_of_sec hh ((mem_secs_of_perm hperm).1 hsk'), hpe, ?_⟩
  rw [dec_openAll_eq P hwf hh hperm knownMajor _ _
    (fun hb' h' heq => by
      cases heq
      exact hdr32_of_sealPackets P hP bs hv sender rs eph payloadKey pt h hb blks hseal hlen)]
  exact hopen

/-- …with the exact key information when only one recipient's key is in the keyring -/
theorem enc_roundtrip_basic_ring_unique (P : Prims) (hP : P.Lawful) (bs : Nat) (hbs : 0 < bs)
    (v : Version) (hv : v = v1 ∨ v = v2)
    (sender : Option Bytes) (rs : List Recipient) (eph payloadKey pt : Bytes)
    (hpk : payloadKey.length = 32)
    (hnamed : ∀ s, sender = some s → P.boxPub s ≠ P.boxPub eph)
    (hpub : ∀ r ∈ rs, r.hidden = false → r.pub ≠ [])
    (hlen : ∀ r ∈ rs, r.hidden = false → r.pub.length = 32)
    (k : Basic.Keyring) (hwf : WF k) (hh : Honest P k) (order : List SecretKey) (hperm : order.Perm k.encKeys)
    (i : Nat) (hi : i < rs.length) (sk : Bytes) (hmem : (⟨P.boxPub sk, sk⟩ : SecretKey) ∈ k.encKeys)
    (hsk : (rs.getD i default).pub = P.boxPub sk)
    (honly : ∀ e ∈ k.encKeys, ∀ j, j < rs.length → (rs.getD j default).pub = e.pub → j = i ∧ e.sec = sk)
    (hns : RingNoSpuriousOpen P v eph payloadKey rs (k.encKeys.map (·.sec)))
    (h : EncHeader) (hb : Bytes) (blks : List EncBlock)
    (hseal : sealPackets P bs v sender rs eph payloadKey pt = .ok (h, hb, blks)) :
    Decrypt.openAll P knownMajor (k.toRing order) (.ok hb h) ⟨blks.map some, .eof⟩ =
      .ok (mkiOf P sender rs eph i sk, pt) := by
  obtain ⟨i', sk', hi', hsk', hpe, hopen⟩ := enc_roundtrip_basic_ring P hP bs hbs v hv sender rs eph payloadKey pt
    hpk hnamed hpub hlen k hwf hh order hperm i hi sk hmem hsk hns h hb blks hseal
  obtain ⟨rfl, hs⟩ := honly _ hsk' i' hi' hpe
  simp only at hs
  subst hs
  exact hopen

/-- a basic keyring none of whose keys is a recipient's gets `noDecryptionKey`
    and no plaintext -/
theorem enc_no_key_basic (P : Prims) (hP : P.Lawful) (bs : Nat)
    (v : Version) (hv : v = v1 ∨ v = v2)
    (sender : Option Bytes) (rs : List Recipient) (eph payloadKey pt : Bytes)
    (hlen : ∀ r ∈ rs, r.hidden = false → r.pub.length = 32)
    (k : Basic.Keyring) (hwf : WF k) (hh : Honest P k) (order : List SecretKey) (hperm : order.Perm k.encKeys)
    (hnone : ∀ e ∈ k.encKeys, ∀ r ∈ rs, r.pub ≠ e.pub)
    (hopen : ∀ e ∈ k.encKeys, ∀ j, j < rs.length → ∀ n, Nonce.payloadKeyBox v j = .ok n →
        P.unbox e.sec (P.boxPub eph) n (P.box eph (rs.getD j default).pub n payloadKey) = none)
    (h : EncHeader) (hb : Bytes) (blks : List EncBlock)
    (hseal : sealPackets P bs v sender rs eph payloadKey pt = .ok (h, hb, blks)) :
    Decrypt.openAll P knownMajor (k.toRing order) (.ok hb h) ⟨blks.map some, .eof⟩ = .error .noDecryptionKey ∧
    (Decrypt.openStream P knownMajor (k.toRing order) (.ok hb h) ⟨blks.map some, .eof⟩).released = [] := by
  have h32 : ∀ hb' h', (HeaderRead.ok hb h : HeaderRead EncHeader) = .ok hb' h' → Hdr32 h' := by
    intro hb' h' heq
    cases heq
    exact hdr32_of_sealPackets P hP bs hv sender rs eph payloadKey pt h hb blks hseal hlen
  rw [dec_openAll_eq P hwf hh hperm knownMajor _ _ h32, dec_openStream_eq P hwf hh hperm knownMajor _ _ h32]
  apply enc_no_key P hP bs v hv sender rs eph payloadKey pt (order.map (·.sec)) ?_ ?_ h hb blks hseal
  · intro s hs r hr
    obtain ⟨e, he, rfl⟩ := List.mem_map.1 hs
    have hek := hperm.mem_iff.1 he
    rw [← hh e hek]
    exact hnone e hek r hr
  · intro s hs
    obtain ⟨e, he, rfl⟩ := List.mem_map.1 hs
    exact hopen e (hperm.mem_iff.1 he)

/-! ## C03: signcryption -/

theorem sc_hdr_ephemeral (P : Prims) (bs : Nat) (sender : Option Bytes) (rs : List Signcrypt.Recipient)
    (eph payloadKey pt : Bytes) (h : EncHeader) (hb : Bytes) (blks : List SigncryptBlock)
    (hseal : Signcrypt.sealPackets P bs sender rs eph payloadKey pt = .ok (h, hb, blks)) :
    h.ephemeral = P.boxPub eph := by
  obtain ⟨hh, _, _⟩ := RTSig.sc_sealPackets_inv P bs sender rs eph payloadKey pt h hb blks hseal
  rw [hh]; rfl

/-- **Signcryption round trip, box-key recipient, basic keyring** (with or
    without a resolver; any map iteration order) -/
theorem sc_roundtrip_box_basic (P : Prims) (hP : P.Lawful) (bs : Nat) (hbs : 0 < bs)
    (sender : Option Bytes) (rs : List Signcrypt.Recipient) (eph payloadKey pt : Bytes)
    (hpk : payloadKey.length = 32)
    (hsender : ∀ s, sender = some s → ¬ ((P.sigPub s).all (· == 0)))
    (hblocks : (chunkPlan v2 bs pt).length < 2 ^ 64 - 1)
    (k : Basic.Keyring) (hh : Honest P k) (order : List SecretKey) (hperm : order.Perm k.encKeys)
    (res : Signcrypt.Resolver)
    (i : Nat) (hi : i < rs.length) (sk : Bytes) (hmem : (⟨P.boxPub sk, sk⟩ : SecretKey) ∈ k.encKeys)
    (hsk : rs.getD i default = .box (P.boxPub sk))
    (h : EncHeader) (hb : Bytes) (blks : List SigncryptBlock)
    (hseal : Signcrypt.sealPackets P bs sender rs eph payloadKey pt = .ok (h, hb, blks))
    (hnc : ∀ e ∈ k.encKeys, ∀ j, j ≤ i → j < rs.length →
      Signcrypt.keyIdentifier P (Signcrypt.derivedKeyFromBoxKeys P (P.boxPub eph) e.sec) j =
        Decrypt.kidOf (h.receivers.getD j default) →
      rs.getD j default = .box e.pub) :
    Signcrypt.openAll P (k.toRing order) res (.ok hb h) ⟨blks.map some, .eof⟩ = .ok (sender.map P.sigPub, pt) := by
  have hmem' : sk ∈ order.map (·.sec) := (mem_secs_of_perm hperm).2 (List.mem_map.2 ⟨_, hmem, rfl⟩)
  have hopen := sc_roundtrip_box_seal_ring P hP bs hbs sender rs eph payloadKey pt hpk hsender hblocks
    (order.map (·.sec)) res i hi sk hmem' hsk h hb blks hseal
    (by
      intro s hs j hji hj hid
      obtain ⟨e, he, rfl⟩ := List.mem_map.1 hs
      have hek := hperm.mem_iff.1 he
      rw [← hh e hek]
      exact hnc e hek j hji hj hid)
  apply sc_openAll_transfer P (k.toRing order) (faithfulKeyring P (order.map (·.sec))) res _ _ ?_ rfl
    (fun _ => rfl) _ _ ?_ hopen
  · intro hb' h' heq
    cases heq
    rw [sc_hdr_ephemeral P bs sender rs eph payloadKey pt h hb blks hseal]
    rw [toRing_import k order (hP.pub_len eph)]
    rfl
  · intro key hkey
    cases sender with
    | none => cases hkey
    | some s =>
      simp only [Option.map_some, Option.some.injEq] at hkey
      subst hkey
      exact toRing_lookupSig k order (hP.sigPub_len s)

/-- **Symmetric-key recipients: a basic keyring of foreign box keys (or an empty
    one) and a resolver** -/
theorem sc_roundtrip_sym_basic (P : Prims) (hP : P.Lawful) (bs : Nat) (hbs : 0 < bs)
    (sender : Option Bytes) (rs : List Signcrypt.Recipient) (eph payloadKey pt : Bytes)
    (hpk : payloadKey.length = 32)
    (hsender : ∀ s, sender = some s → ¬ ((P.sigPub s).all (· == 0)))
    (hblocks : (chunkPlan v2 bs pt).length < 2 ^ 64 - 1)
    (h : EncHeader) (hb : Bytes) (blks : List SigncryptBlock)
    (hseal : Signcrypt.sealPackets P bs sender rs eph payloadKey pt = .ok (h, hb, blks))
    (k : Basic.Keyring) (order : List SecretKey) (hperm : order.Perm k.encKeys)
    (hfor : ∀ e ∈ k.encKeys, ∀ j, j < h.receivers.length →
      Signcrypt.keyIdentifier P (Signcrypt.derivedKeyFromBoxKeys P (P.boxPub eph) e.sec) j ≠
        Decrypt.kidOf (h.receivers.getD j default))
    (f : List Bytes → Except Err (List (Option Bytes))) (keys : List (Option Bytes))
    (hf : f (h.receivers.map Decrypt.kidOf) = .ok keys) (hlen : keys.length = rs.length)
    (htrue : ∀ (j : Nat) (key : Bytes), keys[j]? = some (some key) → ∃ ident, rs[j]? = some (Signcrypt.Recipient.sym key ident))
    (hsome : ∃ (j : Nat) (key : Bytes), keys[j]? = some (some key)) :
    Signcrypt.openAll P (k.toRing order) (some f) (.ok hb h) ⟨blks.map some, .eof⟩ = .ok (sender.map P.sigPub, pt) := by
  have hopen := sc_roundtrip_sym_seal_ring P hP bs hbs sender rs eph payloadKey pt hpk hsender hblocks h hb blks hseal
    (order.map (·.sec))
    (by
      intro s hs
      obtain ⟨e, he, rfl⟩ := List.mem_map.1 hs
      exact hfor e (hperm.mem_iff.1 he))
    f keys hf hlen htrue hsome
  apply sc_openAll_transfer P (k.toRing order) (faithfulKeyring P (order.map (·.sec))) (some f) _ _ ?_ rfl
    (fun _ => rfl) _ _ ?_ hopen
  · intro hb' h' heq
    cases heq
    rw [sc_hdr_ephemeral P bs sender rs eph payloadKey pt h hb blks hseal]
    rw [toRing_import k order (hP.pub_len eph)]
    rfl
  · intro key hkey
    cases sender with
    | none => cases hkey
    | some s =>
      simp only [Option.map_some, Option.some.injEq] at hkey
      subst hkey
      exact toRing_lookupSig k order (hP.sigPub_len s)

/-- header processing of the faithful keyring when no key fits (the first half
    of `sc_no_key_ring`) -/
theorem sc_no_key_processHeader (P : Prims) (bs : Nat)
    (sender : Option Bytes) (rs : List Signcrypt.Recipient) (eph payloadKey pt : Bytes)
    (h : EncHeader) (hb : Bytes) (blks : List SigncryptBlock)
    (hseal : Signcrypt.sealPackets P bs sender rs eph payloadKey pt = .ok (h, hb, blks))
    (sks : List Bytes) (hfor : ScRingForeign P eph h sks)
    (res : Signcrypt.Resolver)
    (hres : ∀ f, res = some f → ∃ keys, f (h.receivers.map Decrypt.kidOf) = .ok keys ∧
      keys.length = rs.length ∧ ∀ k ∈ keys, k = none) :
    ∃ log, Signcrypt.processHeader P (faithfulKeyring P sks) res (P.hash hb) h = (log, .error .noDecryptionKey) := by
  obtain ⟨hhd, _, _⟩ := RTSig.sc_sealPackets_inv P bs sender rs eph payloadKey pt h hb blks hseal
  have hh : ScHdrOK P sender eph payloadKey rs h := by
    rw [hhd]; exact scHdrOK_header P sender eph payloadKey rs
  have hfind : scFindKey P (faithfulKeyring P sks) res h (P.boxPub eph) = .ok none := by
    unfold scFindKey
    rw [tryBox_ring_foreign P eph h sks hfor]
    cases res with
    | none => rfl
    | some f =>
      obtain ⟨keys, hf, hlen, hnone⟩ := hres f rfl
      unfold Signcrypt.trySym
      rw [hh.recv] at hf ⊢
      simp only [hf, List.length_map, receiverEntries_length, hlen]
      simp only [bne_self_eq_false, Bool.false_eq_true, if_false]
      exact trySym_go_none P (P.boxPub eph) keys _ hnone
  exact sc_processHeader_none_gen P sks res (P.hash hb) sender eph payloadKey rs h hh hfind

/-- **no recipient key in the basic keyring (and a resolver that resolves
    nothing, or none): `noDecryptionKey`, nothing released** -/
theorem sc_no_key_basic (P : Prims) (hP : P.Lawful) (bs : Nat)
    (sender : Option Bytes) (rs : List Signcrypt.Recipient) (eph payloadKey pt : Bytes)
    (h : EncHeader) (hb : Bytes) (blks : List SigncryptBlock)
    (hseal : Signcrypt.sealPackets P bs sender rs eph payloadKey pt = .ok (h, hb, blks))
    (k : Basic.Keyring) (order : List SecretKey) (hperm : order.Perm k.encKeys)
    (hfor : ∀ e ∈ k.encKeys, ∀ j, j < h.receivers.length →
      Signcrypt.keyIdentifier P (Signcrypt.derivedKeyFromBoxKeys P (P.boxPub eph) e.sec) j ≠
        Decrypt.kidOf (h.receivers.getD j default))
    (res : Signcrypt.Resolver)
    (hres : ∀ f, res = some f → ∃ keys, f (h.receivers.map Decrypt.kidOf) = .ok keys ∧
      keys.length = rs.length ∧ ∀ k ∈ keys, k = none) :
    Signcrypt.openAll P (k.toRing order) res (.ok hb h) ⟨blks.map some, .eof⟩ = .error .noDecryptionKey ∧
    (Signcrypt.openStream P (k.toRing order) res (.ok hb h) ⟨blks.map some, .eof⟩).released = [] := by
  obtain ⟨log, hph⟩ := sc_no_key_processHeader P bs sender rs eph payloadKey pt h hb blks hseal (order.map (·.sec))
    (by
      intro s hs
      obtain ⟨e, he, rfl⟩ := List.mem_map.1 hs
      exact hfor e (hperm.mem_iff.1 he))
    res hres
  have hph' := sc_processHeader_transfer P (k.toRing order) (faithfulKeyring P (order.map (·.sec))) res (P.hash hb) h
    (by
      rw [sc_hdr_ephemeral P bs sender rs eph payloadKey pt h hb blks hseal, toRing_import k order (hP.pub_len eph)]
      rfl)
    rfl (fun _ => rfl) log _ hph (by intro st k' hst; cases hst)
  constructor
  · unfold Signcrypt.openAll Signcrypt.openStream
    simp only [hph']
  · unfold Signcrypt.openStream
    simp only [hph']

/-! ## C05 / C07: signatures -/

/-- `LookupSigningPublicKey` of a basic keyring "knows" every 32-byte signer key
    — whatever was or was not imported with `ImportSigningKey` -/
theorem basic_knows_signer (P : Prims) (hP : P.Lawful) (k : Basic.Keyring) (order : List SecretKey) (signer : Bytes) :
    (k.toRing order).lookupSigningPublicKey (P.sigPub signer) = some (P.sigPub signer) :=
  toRing_lookupSig k order (hP.sigPub_len signer)

/-- a basic keyring never answers `noSenderKey`: its lookup never returns nil -/
theorem basic_lookupSig_ne_none (k : Basic.Keyring) (order : List SecretKey) (kid : Bytes) :
    (k.toRing order).lookupSigningPublicKey kid ≠ none := (toRing_never_nil k order kid).2.2

/-! ## C18: basic.EphemeralKeyCreator / generateBoxKey -/

/-- **exactly 32 bytes, and the key is those bytes**: success iff the 32-byte
    full read succeeds; the secret is what the source delivered, the public key
    is computed from it, the rest of the source is what the read left -/
theorem createEphemeralKey_ok_iff (P : Prims) (src : Rand.Source) (sk : SecretKey) (rest : Rand.Source) :
    createEphemeralKey P src = .ok (sk, rest) ↔
      ∃ s, Rand.readFull 32 src = some (s, rest) ∧ sk = ⟨P.boxPub s, s⟩ := by
  unfold createEphemeralKey generateBoxKey
  cases hr : Rand.readFull 32 src with
  | none => simp
  | some p =>
    obtain ⟨s, rest'⟩ := p
    simp only [Except.ok.injEq, Prod.mk.injEq, Option.some.injEq, newSecretKey]
    constructor
    · rintro ⟨rfl, rfl⟩; exact ⟨s, ⟨rfl, rfl⟩, rfl⟩
    · rintro ⟨s', ⟨rfl, rfl⟩, rfl⟩; exact ⟨rfl, rfl⟩

/-- what a successful call consumed -/
theorem createEphemeralKey_spec (P : Prims) (src : Rand.Source) (sk : SecretKey) (rest : Rand.Source)
    (h : createEphemeralKey P src = .ok (sk, rest)) :
    sk.sec.length = 32 ∧ sk.pub = P.boxPub sk.sec ∧
    ∃ n, n ≤ src.length ∧ rest = src.drop n ∧ sk.sec = (((src.take n).map (·.data)).flatten).take 32 := by
  obtain ⟨s, hr, rfl⟩ := (createEphemeralKey_ok_iff P src sk rest).1 h
  obtain ⟨hl, n, hn, hrest, hs⟩ := readFull_spec 32 src s rest hr
  exact ⟨hl, rfl, n, hn, hrest, hs⟩

/-- **fail closed**: no 32 bytes ⇒ an error and no key — the error is the source's -/
theorem createEphemeralKey_fail_iff (P : Prims) (src : Rand.Source) :
    Rand.readFull 32 src = none ↔ createEphemeralKey P src = .error .ioError := by
  unfold createEphemeralKey generateBoxKey
  cases Rand.readFull 32 src with
  | none => simp
  | some p => simp

theorem createEphemeralKey_error_is_io (P : Prims) (src : Rand.Source) (e : Err)
    (h : createEphemeralKey P src = .error e) : e = .ioError ∧ Rand.readFull 32 src = none := by
  unfold createEphemeralKey generateBoxKey at h
  cases hr : Rand.readFull 32 src with
  | none => rw [hr] at h; simp only [Except.error.injEq] at h; exact ⟨h.symm, rfl⟩
  | some p => rw [hr] at h; cases h

/-- an error of the source before 32 bytes are in (alone or with a short slice) -/
theorem createEphemeralKey_fail_closed (P : Prims) (src : Rand.Source) (n : Nat) (hn : n < src.length)
    (herr : (src[n]'hn).err = true) (hshort : ((src.take (n + 1)).map (·.data.length)).sum < 32) :
    createEphemeralKey P src = .error .ioError :=
  (createEphemeralKey_fail_iff P src).1 (readFull_fail_closed 32 src n hn herr hshort)

/-- a source that ends early -/
theorem createEphemeralKey_short (P : Prims) (src : Rand.Source)
    (hshort : (src.map (·.data.length)).sum < 32) : createEphemeralKey P src = .error .ioError :=
  (createEphemeralKey_fail_iff P src).1 (readFull_short 32 src hshort)

/-- `Keyring.GenerateBoxKey`: on failure the keyring is returned to nobody —
    there is no new keyring; on success the new key is in it -/
theorem generateBoxKey_imports (P : Prims) (k : Basic.Keyring) (src : Rand.Source) (sk : SecretKey) (k' : Basic.Keyring)
    (rest : Rand.Source) (h : k.generateBoxKey P src = .ok (sk, k', rest)) :
    createEphemeralKey P src = .ok (sk, rest) ∧ mapGet k'.encKeys sk.pub = some sk ∧
    (WF k → WF k') ∧ (Honest P k → Honest P k') := by
  unfold Basic.Keyring.generateBoxKey at h
  unfold createEphemeralKey
  cases hg : Basic.generateBoxKey P src with
  | error e => rw [hg] at h; cases h
  | ok p =>
    obtain ⟨sk0, rest0⟩ := p
    rw [hg] at h
    simp only [Except.ok.injEq, Prod.mk.injEq] at h
    obtain ⟨rfl, rfl, rfl⟩ := h
    refine ⟨rfl, mapGet_insert_same _ _, fun hw => mapInsert_wf _ hw, ?_⟩
    intro hh e he
    rcases mapInsert_mem he with rfl | he
    · have := (createEphemeralKey_spec P src e rest0 (by unfold createEphemeralKey; exact hg)).2.1
      exact this
    · exact hh e he

/-- the ephemeral-key step of `Seal` / `SigncryptSeal` when the creator is
    `basic.EphemeralKeyCreator` (model: `EphSource.fromRand`) IS
    `Basic.createEphemeralKey` -/
theorem fromRand_is_basic_creator (P : Prims) (src : Rand.Source) :
    (match Rand.readFull 32 src with
      | none => (Except.error Err.ioError : Except Err (Bytes × Rand.Source))
      | some (s, src2) => .ok (s, src2)) =
    (match createEphemeralKey P src with
      | .error e => .error e
      | .ok (sk, src2) => .ok (sk.sec, src2)) := by
  unfold createEphemeralKey generateBoxKey
  cases Rand.readFull 32 src with
  | none => rfl
  | some p => rfl

/-! ## on the emitted BYTES -/

/-- **C01 at byte level with a basic keyring**: what `Seal` emits, split the way
    a receiver's MessagePack stream splits it, opens (cf. `enc_roundtrip_bytes_ring`) -/
theorem enc_roundtrip_bytes_basic_ring (P : Prims) (hP : P.Lawful) (bs : Nat) (hbs : 0 < bs) (hbs32 : bs + 16 < 2 ^ 32)
    (v : Version) (hv : v = v1 ∨ v = v2)
    (sender : Option Bytes) (rs : List Recipient) (eph payloadKey pt : Bytes)
    (hpk : payloadKey.length = 32)
    (hnamed : ∀ s, sender = some s → P.boxPub s ≠ P.boxPub eph)
    (hpub : ∀ r ∈ rs, r.hidden = false → r.pub ≠ [])
    (hlen : ∀ r ∈ rs, r.hidden = false → r.pub.length = 32)
    (k : Basic.Keyring) (hwf : WF k) (hh : Honest P k) (order : List SecretKey) (hperm : order.Perm k.encKeys)
    (i : Nat) (hi : i < rs.length) (sk : Bytes) (hmem : (⟨P.boxPub sk, sk⟩ : SecretKey) ∈ k.encKeys)
    (hsk : (rs.getD i default).pub = P.boxPub sk)
    (hns : RingNoSpuriousOpen P v eph payloadKey rs (k.encKeys.map (·.sec)))
    (L : Nat) (hL : ∀ r ∈ rs, r.pub.length ≤ L) (hsmall : 145 + rs.length * (L + 63) < 2 ^ 32)
    (msg : Bytes) (hmsg : sealWith P bs v sender rs eph payloadKey pt = .ok msg) :
    ∃ hr ps, Wire.splitEnc msg = .ok (hr, ps) ∧
      ∃ i' sk', i' < rs.length ∧ (⟨P.boxPub sk', sk'⟩ : SecretKey) ∈ k.encKeys ∧
        (rs.getD i' default).pub = P.boxPub sk' ∧
        Decrypt.openAll P knownMajor (k.toRing order) hr ps = .ok (mkiOf P sender rs eph i' sk', pt) := by
  obtain ⟨h, hb, blks, body, hs, he, rfl⟩ := seal_bytes_are_packets_enc P bs v sender rs eph payloadKey pt msg hmsg
  have hS := WireSizes.of_lawful hP
  obtain ⟨_, hhdr, _, _, _⟩ := sealPackets_inv P bs v sender rs eph payloadKey pt h hb blks hs
  have hhbe := WireRT.sealPackets_hb P bs v sender rs eph payloadKey pt h hb blks hs
  have hhb : hb.length < 2 ^ 32 := by
    rw [hhbe]
    exact WireRT.enc_header_small P hS hv sender eph payloadKey hpk rs h hhdr L hL hsmall
  have hver : h.version = v := (header_spec P hv sender eph payloadKey rs h hhdr).2.1
  have hL' : ∀ r ∈ rs, r.pub.length < 2 ^ 32 := by
    intro r hr
    have := hL r hr
    have : 0 < rs.length := List.length_pos_iff.mpr (List.ne_nil_of_mem hr)
    have : 1 * (L + 63) ≤ rs.length * (L + 63) := Nat.mul_le_mul_right _ this
    omega
  refine ⟨_, _, wire_enc P hS bs hbs hbs32 v sender rs eph payloadKey pt (by omega) hL' h hb blks body hs he hhb, ?_⟩
  rw [← hver, WireRT.openAll_asRead]
  exact enc_roundtrip_basic_ring P hP bs hbs v hv sender rs eph payloadKey pt hpk hnamed hpub hlen k hwf hh order hperm
    i hi sk hmem hsk hns h hb blks hs

/-- **C03 at byte level with a basic keyring**, box-key recipient -/
theorem sc_roundtrip_box_bytes_basic (P : Prims) (hP : P.Lawful) (bs : Nat) (hbs : 0 < bs) (hbs32 : bs + 80 < 2 ^ 32)
    (sender : Option Bytes) (rs : List Signcrypt.Recipient) (eph payloadKey pt : Bytes)
    (hpk : payloadKey.length = 32)
    (hsender : ∀ s, sender = some s → ¬ ((P.sigPub s).all (· == 0)))
    (hblocks : (chunkPlan v2 bs pt).length < 2 ^ 64 - 1)
    (k : Basic.Keyring) (hh : Honest P k) (order : List SecretKey) (hperm : order.Perm k.encKeys)
    (res : Signcrypt.Resolver)
    (i : Nat) (hi : i < rs.length) (sk : Bytes) (hmem : (⟨P.boxPub sk, sk⟩ : SecretKey) ∈ k.encKeys)
    (hsk : rs.getD i default = .box (P.boxPub sk))
    (hnc : ∀ e ∈ k.encKeys, ∀ j, j ≤ i → j < rs.length →
      Signcrypt.keyIdentifier P (Signcrypt.derivedKeyFromBoxKeys P (P.boxPub eph) e.sec) j =
        Decrypt.kidOf ((Signcrypt.header P sender eph payloadKey rs).receivers.getD j default) →
      rs.getD j default = .box e.pub)
    (L : Nat) (hL32 : 32 ≤ L)
    (hid : ∀ key ident, Signcrypt.Recipient.sym key ident ∈ rs → ident.length ≤ L)
    (hsmall : 145 + rs.length * (L + 63) < 2 ^ 32)
    (msg : Bytes) (hmsg : Signcrypt.sealWith P bs sender rs eph payloadKey pt = .ok msg) :
    ∃ hr ps, Wire.splitSigncrypt msg = .ok (hr, ps) ∧
      Signcrypt.openAll P (k.toRing order) res hr ps = .ok (sender.map P.sigPub, pt) := by
  obtain ⟨hb, blks, hs, hsplit⟩ := WireRT.sc_bytes_split P hP bs hbs hbs32 sender rs eph payloadKey pt hpk L hL32 hid
    hsmall msg hmsg
  exact ⟨_, _, hsplit, sc_roundtrip_box_basic P hP bs hbs sender rs eph payloadKey pt hpk hsender hblocks k hh order hperm
    res i hi sk hmem hsk _ hb blks hs hnc⟩

/-! ## in terms of the sequence of imports -/

/-- **Encryption round trip, stated on the import history.**  Any number of
    honest key pairs imported into an empty basic keyring in ANY order (also the
    same public key several times), among them — at some point — a key pair with
    recipient `i`'s public key: `Open` with that keyring returns exactly the
    plaintext and the sender, as some recipient `i'` whose key was imported. -/
theorem enc_roundtrip_basic_imports (P : Prims) (hP : P.Lawful) (bs : Nat) (hbs : 0 < bs)
    (v : Version) (hv : v = v1 ∨ v = v2)
    (sender : Option Bytes) (rs : List Recipient) (eph payloadKey pt : Bytes)
    (hpk : payloadKey.length = 32)
    (hnamed : ∀ s, sender = some s → P.boxPub s ≠ P.boxPub eph)
    (hpub : ∀ r ∈ rs, r.hidden = false → r.pub ≠ [])
    (hlen : ∀ r ∈ rs, r.hidden = false → r.pub.length = 32)
    (es : List SecretKey) (hes : ∀ e ∈ es, e.pub = P.boxPub e.sec)
    (i : Nat) (hi : i < rs.length) (himp : ∃ e ∈ es, e.pub = (rs.getD i default).pub)
    (order : List SecretKey) (hperm : order.Perm (Basic.Keyring.empty.importAll es).encKeys)
    (hns : RingNoSpuriousOpen P v eph payloadKey rs (es.map (·.sec)))
    (h : EncHeader) (hb : Bytes) (blks : List EncBlock)
    (hseal : sealPackets P bs v sender rs eph payloadKey pt = .ok (h, hb, blks)) :
    ∃ i' sk', i' < rs.length ∧ sk' ∈ es.map (·.sec) ∧ (rs.getD i' default).pub = P.boxPub sk' ∧
      Decrypt.openAll P knownMajor ((Basic.Keyring.empty.importAll es).toRing order) (.ok hb h) ⟨blks.map some, .eof⟩ =
        .ok (mkiOf P sender rs eph i' sk', pt) := by
  have hwf := importAll_empty_wf es
  have hh := importAll_honest (empty_honest P) es hes
  have hsub : ∀ e ∈ (Basic.Keyring.empty.importAll es).encKeys, e ∈ es := by
    intro e he
    rcases importAll_subset es he with h' | h'
    · cases h'
    · exact h'
  obtain ⟨e, he, hepub⟩ := himp
  obtain ⟨e', hget, _, he'pub⟩ := mapGet_importAll_isSome Basic.Keyring.empty es he
  have he'k := (mapGet_mem hget).1
  have he'h := hh e' he'k
  have hmem : (⟨P.boxPub e'.sec, e'.sec⟩ : SecretKey) ∈ (Basic.Keyring.empty.importAll es).encKeys := by
    obtain ⟨p, s⟩ := e'
    simp only at he'h
    subst he'h
    exact he'k
  obtain ⟨i', sk', hi', hsk', hpe, hopen⟩ := enc_roundtrip_basic_ring P hP bs hbs v hv sender rs eph payloadKey pt
    hpk hnamed hpub hlen _ hwf hh order hperm i hi e'.sec hmem (by rw [← hepub, ← he'pub, he'h])
    (fun s hs => by
      obtain ⟨x, hx, rfl⟩ := List.mem_map.1 hs
      exact hns x.sec (List.mem_map.2 ⟨x, hsub x hx, rfl⟩))
    h hb blks hseal
  exact ⟨i', sk', hi', List.mem_map.2 ⟨_, hsub _ hsk', rfl⟩, hpe, hopen⟩

end Saltpack.Proofs.BasicRing
