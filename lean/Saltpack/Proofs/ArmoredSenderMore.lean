/-
  More about the armored sender streams (Model/SenderStream.lean, armored
  composition):

  * the detached-signature armored stream (`NewSignDetachedArmor62Stream`):
    success means written — the route of Proofs/ArmoredSenderWritten.lean (the
    packet stream is run over the HISTORY of the armor stream's `Write` calls),
    with `det_run` in place of `run_success`;
  * the right monotonicity statement for the armor writer: `Armor.sealText` is
    NOT monotone in its payload (last partial BaseX block, footer), but what the
    `Write` calls of the armor stream have put at the writer — before any
    `Close` — is a prefix of the armored text of EVERY extension of what was
    passed to `Write`;
  * its consequence for the armored packet streams on failure, in history form.

  Behind Props/C14More.lean.
-/
import Saltpack.Proofs.ArmoredSenderWritten

namespace Saltpack.Proofs.SenderP
open Saltpack Saltpack.Sender Saltpack.Stream

/-! ## the `Write` phase of the armor stream against every extension of the payload -/

/-- **what the `Write`s of the armor stream leave at the writer is a prefix of
    the armored text of every extension of the payload** (whatever failed):
    only complete words of complete BaseX blocks go out before `Close`, and
    those are the same in the armor of every longer payload -/
theorem farm_writes_prefix_ext (par : Armor.Params) (he : par.enc.WF) (hw : 0 < par.bytesPerWord) (hdr ftr : Bytes)
    (sink : Stream.Sink) (part : List Nat) (ws : List Bytes) (Y : Bytes)
    (hi : (FArm.init par hdr ftr ({ sink := sink, part := part } : Wr)).1 = true) :
    (farmRun (FArm.init par hdr ftr ({ sink := sink, part := part } : Wr)).2 ws).w.bytes <+:
      Armor.sealText par hdr ftr (ws.flatten ++ Y) := by
  obtain ⟨hs, hf, _⟩ := farm_init_sim par hdr ftr sink part hi
  obtain ⟨_, r2⟩ := run_sim ws _ _ hs (farm_encOk_init par hdr ftr _) hf
  have hsplit := armorWriter_any_split par he hw hdr ftr (ws ++ [Y])
  rw [List.foldl_append] at hsplit
  simp only [List.foldl_cons, List.foldl_nil, List.flatten_append, List.flatten_cons, List.flatten_nil,
    List.append_nil] at hsplit
  rw [← hsplit]
  exact r2.trans ((arm_write_mono _ Y).trans (arm_close_mono _))

/-! ## projection of the detached-signature stream -/

section projD
variable {ω ω' : Type} (wr : ω → Bytes → Bool × ω) (wr' : ω' → Bytes → Bool × ω') (π : ω' → ω)

def mapD (st : DSt ω') : DSt ω := { codec := mapC π st.codec, msg := st.msg }

variable (hπ : ∀ w p, wr (π w) p = ((wr' w p).1, π (wr' w p).2))
include hπ

theorem proj_dinit (pieces : Bytes → List Bytes) (w0 : ω') (hbytes : Bytes) :
    DSt.init wr pieces (π w0) hbytes =
      ((DSt.init wr' pieces w0 hbytes).1, mapD π (DSt.init wr' pieces w0 hbytes).2) := by
  unfold DSt.init
  have := proj_encode wr wr' π hπ pieces ({ w := w0 } : Codec ω') (headerPacket hbytes)
  have hm : mapC π ({ w := w0 } : Codec ω') = ({ w := π w0 } : Codec ω) := rfl
  rw [hm] at this
  rw [this]
  rfl

omit hπ in
theorem proj_dwrites : ∀ (ws : List Bytes) (st : DSt ω'),
    DSt.writes (mapD π st) ws = ((DSt.writes st ws).1, mapD π (DSt.writes st ws).2) := by
  intro ws
  induction ws with
  | nil => intro st; rfl
  | cons p ps ih =>
    intro st
    unfold DSt.writes
    simp only
    have : (mapD π st).write p = ((st.write p).1, (st.write p).2.1, mapD π (st.write p).2.2) := rfl
    rw [this]
    simp only
    rw [ih]

theorem proj_dclose (pieces : Bytes → List Bytes) (sp : Bytes → Bytes) (st : DSt ω') :
    (mapD π st).close wr pieces sp = ((st.close wr' pieces sp).1, mapD π (st.close wr' pieces sp).2) := by
  unfold DSt.close
  have hc : (mapD π st).codec = mapC π st.codec := rfl
  have hm : (mapD π st).msg = st.msg := rfl
  rw [hc, hm, proj_encode wr wr' π hπ]
  cases h : Codec.encode wr' pieces st.codec (sp st.msg) with
  | mk ok c =>
    cases ok <;> rfl

end projD

/-! ## the detached-signature armored stream: success means written -/

theorem armored_success_det (pieces : Bytes → List Bytes) (hp : ∀ b, (pieces b).flatten = b)
    (sp : Bytes → Bytes) (par : Armor.Params) (he : par.enc.WF) (hw : 0 < par.bytesPerWord)
    (hdr ftr : Bytes) (sink : Stream.Sink) (part : List Nat) (headerBytes : Bytes) (ws : List Bytes)
    (ha : (FArm.init par hdr ftr ({ sink := sink, part := part } : Wr)).1 = true)
    (hi : (DSt.init FArm.write pieces (FArm.init par hdr ftr ({ sink := sink, part := part } : Wr)).2 headerBytes).1 = true)
    (hc : (armoredCloseD pieces sp (DSt.writes
        (DSt.init FArm.write pieces (FArm.init par hdr ftr ({ sink := sink, part := part } : Wr)).2 headerBytes).2 ws).2).1 = none) :
    (armoredCloseD pieces sp (DSt.writes
        (DSt.init FArm.write pieces (FArm.init par hdr ftr ({ sink := sink, part := part } : Wr)).2 headerBytes).2 ws).2).2.codec.w.w.bytes =
      Armor.sealText par hdr ftr (headerPacket headerBytes ++ sp ws.flatten) ∧
    (armoredCloseD pieces sp (DSt.writes
        (DSt.init FArm.write pieces (FArm.init par hdr ftr ({ sink := sink, part := part } : Wr)).2 headerBytes).2 ws).2).2.codec.w.w.faults = 0 := by
  generalize ha0 : (FArm.init par hdr ftr ({ sink := sink, part := part } : Wr)).2 = a0 at hi hc ⊢
  have hπ := hist_proj a0
  have hnil : a0 = farmRun a0 [] := rfl
  have e1 := proj_dinit FArm.write (histWrite a0) (farmRun a0) hπ pieces [] headerBytes
  rw [← hnil] at e1
  rw [e1] at hi hc ⊢
  simp only at hi hc ⊢
  have e2 := proj_dwrites (farmRun a0) ws (DSt.init (histWrite a0) pieces [] headerBytes).2
  rw [e2] at hc ⊢
  simp only at hc ⊢
  have e3 := proj_dclose FArm.write (histWrite a0) (farmRun a0) hπ pieces sp
    (DSt.writes (DSt.init (histWrite a0) pieces [] headerBytes).2 ws).2
  unfold armoredCloseD at hc ⊢
  rw [e3] at hc ⊢
  cases hcl : ((DSt.writes (DSt.init (histWrite a0) pieces [] headerBytes).2 ws).2.close (histWrite a0) pieces sp).1 with
  | some e => rw [hcl] at hc; simp at hc
  | none =>
    rw [hcl] at hc
    simp only at hc ⊢
    have ho := (det_run (histWrite a0) (okBytes a0) (hist_obs a0) pieces hp sp [] headerBytes ws).2 hi hcl
    generalize ((DSt.writes (DSt.init (histWrite a0) pieces [] headerBytes).2 ws).2.close (histWrite a0) pieces sp).2 = fin
      at hc ho ⊢
    have hw' : (mapD (farmRun a0) fin).codec.w = farmRun a0 fin.codec.w := rfl
    rw [hw'] at hc ⊢
    cases hac : (farmRun a0 fin.codec.w).close with
    | mk ok a' =>
      rw [hac] at hc
      cases ok with
      | false => simp at hc
      | true =>
        simp only
        have hrun := (farm_run_close par he hw hdr ftr sink part fin.codec.w ha).1
        rw [ha0, hac] at hrun
        obtain ⟨hf0, hbytes⟩ := hrun rfl
        have hnf : (farmRun a0 fin.codec.w).failed = false := by
          cases hff : (farmRun a0 fin.codec.w).failed with
          | false => rfl
          | true => rw [farm_close_failed _ hff] at hac; cases hac
        have ha0f : a0.failed = false := by rw [← ha0]; exact (farm_init_sim par hdr ftr sink part ha).2.1
        have hall := okBytes_all fin.codec.w a0 ha0f hnf
        refine ⟨?_, hf0⟩
        rw [hbytes, ← hall, ho]
        simp [okBytes]

/-! ## the armored packet streams while writing: history form of the prefix statement -/

/-- after the constructor and any `Write`s of an armored packet stream (no
    `Close` yet), whatever failed: there is a history `H` of the armor stream's
    `Write` calls with — the armor stream is what that history leads to; the
    ACCEPTED bytes of `H` are a prefix of the all-at-once binary message `M` of
    every continuation of the plaintext; and the writer holds a prefix of the
    armored text of EVERY extension of `H.flatten` (everything passed to the
    armor stream).  When no armor write failed, `H.flatten` is the accepted
    part, so the writer holds a prefix of the armor of every such `M`. -/
theorem armored_writes_prefix (cfg : Cfg) (hp : ∀ b, (cfg.pieces b).flatten = b) (hb : 0 < cfg.bs) (hif : IndexFail cfg.pkt)
    (v : Version) (par : Armor.Params) (he : par.enc.WF) (hw : 0 < par.bytesPerWord)
    (hdr ftr : Bytes) (sink : Stream.Sink) (part : List Nat) (headerBytes : Bytes) (ws : List Bytes)
    (ha : (FArm.init par hdr ftr ({ sink := sink, part := part } : Wr)).1 = true) :
    ∃ H : List Bytes,
      (PSt.writes FArm.write cfg
        (PSt.init FArm.write cfg.pieces (FArm.init par hdr ftr ({ sink := sink, part := part } : Wr)).2 headerBytes).2 ws).2.codec.w =
        farmRun (FArm.init par hdr ftr ({ sink := sink, part := part } : Wr)).2 H ∧
      (∀ X B, planBytes cfg.pkt (Encrypt.chunkPlan v cfg.bs (ws.flatten ++ X)) 0 = .ok B →
        okBytes (FArm.init par hdr ftr ({ sink := sink, part := part } : Wr)).2 H <+: headerPacket headerBytes ++ B) ∧
      (∀ Y, (PSt.writes FArm.write cfg
        (PSt.init FArm.write cfg.pieces (FArm.init par hdr ftr ({ sink := sink, part := part } : Wr)).2 headerBytes).2 ws).2.codec.w.w.bytes <+:
          Armor.sealText par hdr ftr (H.flatten ++ Y)) ∧
      ((farmRun (FArm.init par hdr ftr ({ sink := sink, part := part } : Wr)).2 H).failed = false →
        okBytes (FArm.init par hdr ftr ({ sink := sink, part := part } : Wr)).2 H = H.flatten) := by
  generalize ha0 : (FArm.init par hdr ftr ({ sink := sink, part := part } : Wr)).2 = a0
  have hπ := hist_proj a0
  have hnil : a0 = farmRun a0 [] := rfl
  have e1 := proj_init FArm.write (histWrite a0) (farmRun a0) hπ cfg.pieces [] headerBytes
  rw [← hnil] at e1
  rw [e1]
  simp only
  have e2 := proj_writes FArm.write (histWrite a0) (farmRun a0) hπ cfg ws (PSt.init (histWrite a0) cfg.pieces [] headerBytes).2
  rw [e2]
  simp only
  have hinv := runInv_writes (histWrite a0) (okBytes a0) (hist_obs a0) cfg hp hb hif v _ ws [] _
    (runInv_init (histWrite a0) (okBytes a0) (hist_obs a0) cfg hp v [] headerBytes)
  rw [List.nil_append] at hinv
  generalize (PSt.writes (histWrite a0) cfg (PSt.init (histWrite a0) cfg.pieces [] headerBytes).2 ws).2 = st at hinv ⊢
  have ha0f : a0.failed = false := by rw [← ha0]; exact (farm_init_sim par hdr ftr sink part ha).2.1
  refine ⟨st.codec.w, rfl, ?_, ?_, fun hnf => okBytes_all st.codec.w a0 ha0f hnf⟩
  · intro X B hB
    have h0 : okBytes a0 ([] : List Bytes) = [] := rfl
    cases hinv with
    | alive E hal hbd hne =>
      obtain ⟨body, hbody, hobs⟩ := hal.body
      rw [hobs, h0, List.nil_append]
      apply (List.prefix_append_right_inj _).2
      have hpl : E.map (·, false) <+: Encrypt.chunkPlan v cfg.bs (ws.flatten ++ X) := by
        by_cases hX : st.buf ++ X = []
        · have hb0 : st.buf = [] := (List.append_eq_nil_iff.mp hX).1
          rw [hne hb0]; exact List.nil_prefix
        · rw [← hal.cons, List.append_assoc]
          exact nonfinal_prefix v cfg.bs hb E _ hal.full hX
      obtain ⟨A, hA, hAB⟩ := planBytes_prefix cfg.pkt _ _ B hpl hB
      rw [hbody] at hA
      injection hA with hA
      rw [hA]; exact hAB
    | dead hd T0 hpre hok =>
      obtain ⟨Z, hZ⟩ := hpre
      have := hok (Z ++ X) B (by rw [← List.append_assoc, hZ]; exact hB)
      rw [h0, List.nil_append] at this
      exact this
  · intro Y
    have hmw : (mapP (farmRun a0) st).codec.w = farmRun a0 st.codec.w := rfl
    rw [hmw, ← ha0]
    exact farm_writes_prefix_ext par he hw hdr ftr sink part st.codec.w Y ha

end Saltpack.Proofs.SenderP
