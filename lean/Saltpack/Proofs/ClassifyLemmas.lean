/-
  Stream classification (behind Props/C16): the binary classifier is correct on
  every header a spec-following sender can write and short on fewer than 23
  bytes; whatever it classifies really carries that mode in its header; the
  armored classifier answers "short" on every prefix of a frame and of a text
  that does not yet show a full first block, and the right answer afterwards —
  never "not saltpack" on a prefix of a genuine message.
-/
import Saltpack.Model.Classify
import Saltpack.Proofs.MsgpackRT
import Saltpack.Proofs.ArmorRT

namespace Saltpack.Proofs
open Saltpack Saltpack.Classify Saltpack.Msgpack

/-- the outer bin tag of the header packet: `c4 nn`, `c5 nn nn` or `c6 nn nn nn nn` -/
def IsBinTag (t : Bytes) : Prop :=
  (∃ a, t = [0xc4, a]) ∨ (∃ a b, t = [0xc5, a, b]) ∨ (∃ a b c d, t = [0xc6, a, b, c, d])

/-- the array tag of a header with 3…15 fields (fixarray), or array16 / array32 -/
def IsArrTag (t : Bytes) : Prop :=
  (∃ n : UInt8, 0x93 ≤ n ∧ n ≤ 0x9f ∧ t = [n]) ∨ (∃ a b, t = [0xdc, a, b]) ∨ (∃ a b c d, t = [0xdd, a, b, c, d])

theorem bin_short (b : Bytes) (h : b.length < 23) : binarySlice b = .short := by
  sorry

/-- **binary classification is correct** for every header start a
    spec-following sender can produce — any bin tag width, any array tag width,
    the format name as a str, `[major, minor]` as fixnums (also unknown minors),
    the mode — whatever follows, as soon as 23 bytes are there.  (The longest
    such start is 5 + 5 + 9 + 3 + 1 = 23 bytes.) -/
theorem bin_correct (btag atag tail : Bytes) (hb : IsBinTag btag) (ha : IsArrTag atag)
    (ma mi t : Nat) (hma : ma < 128) (hmi : mi < 128) (ht : isMode (t : Int) = true)
    (hlen : 23 ≤ (btag ++ atag ++ encode (.str Gen.c_sp_FormatName) ++ encode (.arr [.int ma, .int mi]) ++ encode (.int t) ++ tail).length) :
    binarySlice (btag ++ atag ++ encode (.str Gen.c_sp_FormatName) ++ encode (.arr [.int ma, .int mi]) ++ encode (.int t) ++ tail) =
      .ok ((t : Int), ⟨ma, mi⟩) := by
  sorry

/-- …and on every prefix of at least 23 bytes of such a message -/
theorem bin_correct_prefix (btag atag tail : Bytes) (hb : IsBinTag btag) (ha : IsArrTag atag)
    (ma mi t : Nat) (hma : ma < 128) (hmi : mi < 128) (ht : isMode (t : Int) = true) (k : Nat) (hk : 23 ≤ k)
    (hlen : 23 ≤ (btag ++ atag ++ encode (.str Gen.c_sp_FormatName) ++ encode (.arr [.int ma, .int mi]) ++ encode (.int t) ++ tail).length) :
    binarySlice ((btag ++ atag ++ encode (.str Gen.c_sp_FormatName) ++ encode (.arr [.int ma, .int mi]) ++ encode (.int t) ++ tail).take k) =
      .ok ((t : Int), ⟨ma, mi⟩) := by
  sorry

/-- **soundness**: an answer implies a bin tag, an array tag, the saltpack format
    name, a version pair and that very mode, in this order, in the bytes -/
theorem bin_sound (b : Bytes) (t : Int) (v : Version) (h : binarySlice b = .ok (t, v)) :
    isMode t = true ∧ 23 ≤ b.length ∧
    ∃ skip askip fn r1 more r2 r3,
      (skip = 2 ∨ skip = 3 ∨ skip = 5) ∧ (askip = 1 ∨ askip = 3 ∨ askip = 5) ∧
      parse1 (b.drop (skip + askip)) = .ok (fn, r1) ∧
      (fn = .str Gen.c_sp_FormatName ∨ fn = .bin Gen.c_sp_FormatName) ∧
      parse1 r1 = .ok (.arr (.int v.major :: .int v.minor :: more), r2) ∧
      parse1 r2 = .ok (.int t, r3) := by
  sorry

/-- an answer never names anything but the four modes -/
theorem bin_modes (b : Bytes) (t : Int) (v : Version) (h : binarySlice b = .ok (t, v)) :
    t = mtEncryption ∨ t = mtAttached ∨ t = mtDetached ∨ t = mtSigncryption := by
  sorry

/-! ## armored -/

/-- every prefix of a genuine frame line (before its period) is "short" -/
theorem arm_frame_prefix_short (typ : Int) (ht : Armorable typ) (brand : Bytes) (hb : BrandOK brand) (k : Nat) :
    armoredPrefix ((Armor.header typ brand).take k) = .short := by
  sorry

/-- the frame with its period but fewer than one full block of payload
    characters is "short" -/
theorem arm_needs_block (typ : Int) (ht : Armorable typ) (brand : Bytes) (hb : BrandOK brand) (body : Bytes)
    (hbody : ∀ c ∈ body, isAlnum c = true ∨ c = Armor.space)
    (hfew : (body.filter (· != Armor.space)).length < 43) :
    armoredPrefix (Armor.header typ brand ++ [Armor.period, Armor.space] ++ body) = .short := by
  sorry

/-- an answer of the armored classifier is an answer of the binary classifier on
    decoded payload bytes, under a frame label that matches the mode -/
theorem arm_sound (pref brand : Bytes) (t : Int) (v : Version) (h : armoredPrefix pref = .ok (brand, t, v)) :
    ∃ typStr payload dec, matchHeader (Armor.trimSpace (Armor.collapse pref)) = some (brand, typStr, payload) ∧
      binarySlice dec = .ok (t, v) ∧
      (typStr = Gen.c_sp_EncryptionArmorString ∨ typStr = Gen.c_sp_SignedArmorString ∨
        typStr = Gen.c_sp_DetachedSignatureArmorString) ∧
      ((t = mtEncryption ∨ t = mtSigncryption) → typStr = Gen.c_sp_EncryptionArmorString) ∧
      (t = mtAttached → typStr = Gen.c_sp_SignedArmorString) ∧
      (t = mtDetached → typStr = Gen.c_sp_DetachedSignatureArmorString) := by
  sorry

/-- classification never consumes: `classifyStream` is a function of the
    peeked bytes (structural — the model threads no reader state at all) -/
theorem stream_is_pure (size : Nat) (a b : Bytes) (h : a = b) : classifyStream size a = classifyStream size b := by
  sorry

end Saltpack.Proofs
