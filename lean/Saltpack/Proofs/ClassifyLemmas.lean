/-
  Stream classification (behind Props/C16): the binary classifier is correct on
  every header a spec-following sender can write and short on fewer than 23
  bytes; whatever it classifies really carries that mode in its header; the
  armored classifier answers "short" on every prefix of a frame and of a text
  that does not yet show a full first block, and the right answer afterwards —
  never "not saltpack" on a prefix of a genuine message.
-/
import Saltpack.Model.Classify
import Saltpack.Proofs.MsgpackRT
import Saltpack.Proofs.ArmorRT
import Saltpack.Proofs.ClassifyAux
import Saltpack.Proofs.ClassifyCodec

namespace Saltpack.Proofs
open Saltpack Saltpack.Classify Saltpack.Msgpack Saltpack.Armor ClsAux

/-- the outer bin tag of the header packet: `c4 nn`, `c5 nn nn` or `c6 nn nn nn nn` -/
def IsBinTag (t : Bytes) : Prop :=
  (∃ a, t = [0xc4, a]) ∨ (∃ a b, t = [0xc5, a, b]) ∨ (∃ a b c d, t = [0xc6, a, b, c, d])

/-- the array tag of a header with 3…15 fields (fixarray), or array16 / array32 -/
def IsArrTag (t : Bytes) : Prop :=
  (∃ n : UInt8, 0x93 ≤ n ∧ n ≤ 0x9f ∧ t = [n]) ∨ (∃ a b, t = [0xdc, a, b]) ∨ (∃ a b c d, t = [0xdd, a, b, c, d])

namespace ClsAux

theorem minLen_eq : minLen = 23 := by decide

theorem isMode_cases (t : Int) (h : isMode t = true) :
    t = mtEncryption ∨ t = mtAttached ∨ t = mtDetached ∨ t = mtSigncryption := by
  unfold isMode at h
  simp only [Bool.or_eq_true, beq_iff_eq] at h
  rcases h with ((h | h) | h) | h <;> simp [h]

theorem isMode_le (t : Nat) (h : isMode (t : Int) = true) : t ≤ 3 := by
  have h0 : mtEncryption = 0 := rfl
  have h1 : mtAttached = 1 := rfl
  have h2 : mtDetached = 2 := rfl
  have h3 : mtSigncryption = 3 := rfl
  rcases isMode_cases _ h with h | h | h | h <;> omega

theorem bin_reduce (b : Bytes) (skip askip : Nat) (hlen : 23 ≤ b.length)
    (h0 : (let t0 := (b.getD 0 0).toNat
      if t0 = 0xc4 then some 2 else if t0 = 0xc5 then some 3 else if t0 = 0xc6 then some 5 else none) = some skip)
    (h1 : (let a := (b.getD skip 0).toNat
      if 0x93 ≤ a ∧ a ≤ 0x9f then some 1 else if a = 0xdc then some 3 else if a = 0xdd then some 5 else none) = some askip) :
    binarySlice b = binBody (b.drop (skip + askip)) := by
  unfold binarySlice
  rw [minLen_eq, if_neg (by omega)]
  simp only at h0 h1 ⊢
  rw [h0]
  simp only
  rw [h1]

end ClsAux
open ClsAux

theorem bin_short (b : Bytes) (h : b.length < 23) : binarySlice b = .short := by
  unfold binarySlice
  rw [minLen_eq, if_pos h]

set_option linter.unusedSimpArgs false in
/-- **binary classification is correct** for every header start a
    spec-following sender can produce — any bin tag width, any array tag width,
    the format name as a str, `[major, minor]` as fixnums (also unknown minors),
    the mode — whatever follows, as soon as 23 bytes are there.  (The longest
    such start is 5 + 5 + 9 + 3 + 1 = 23 bytes.) -/
theorem bin_correct (btag atag tail : Bytes) (hb : IsBinTag btag) (ha : IsArrTag atag)
    (ma mi t : Nat) (hma : ma < 128) (hmi : mi < 128) (ht : isMode (t : Int) = true)
    (hlen : 23 ≤ (btag ++ atag ++ encode (.str Gen.c_sp_FormatName) ++ encode (.arr [.int ma, .int mi]) ++ encode (.int t) ++ tail).length) :
    binarySlice (btag ++ atag ++ encode (.str Gen.c_sp_FormatName) ++ encode (.arr [.int ma, .int mi]) ++ encode (.int t) ++ tail) =
      .ok ((t : Int), ⟨ma, mi⟩) := by
  have key : ∀ (skip askip : Nat), btag.length = skip → atag.length = askip →
      (let t0 := ((btag ++ atag ++ encode (.str Gen.c_sp_FormatName) ++ encode (.arr [.int ma, .int mi]) ++ encode (.int t) ++ tail).getD 0 0).toNat
        if t0 = 0xc4 then some 2 else if t0 = 0xc5 then some 3 else if t0 = 0xc6 then some 5 else none) = some skip →
      (let a := ((btag ++ atag ++ encode (.str Gen.c_sp_FormatName) ++ encode (.arr [.int ma, .int mi]) ++ encode (.int t) ++ tail).getD skip 0).toNat
        if 0x93 ≤ a ∧ a ≤ 0x9f then some 1 else if a = 0xdc then some 3 else if a = 0xdd then some 5 else none) = some askip →
      binarySlice (btag ++ atag ++ encode (.str Gen.c_sp_FormatName) ++ encode (.arr [.int ma, .int mi]) ++ encode (.int t) ++ tail) =
        .ok ((t : Int), ⟨ma, mi⟩) := by
    intro skip askip hs has h0 h1
    rw [bin_reduce _ skip askip hlen h0 h1]
    have : (btag ++ atag ++ encode (.str Gen.c_sp_FormatName) ++ encode (.arr [.int ma, .int mi]) ++ encode (.int t) ++ tail).drop (skip + askip)
        = encode (.str Gen.c_sp_FormatName) ++ (encode (.arr [.int ma, .int mi]) ++ (encode (.int t) ++ tail)) := by
      have : skip + askip = (btag ++ atag).length := by rw [List.length_append]; omega
      rw [this]
      simp only [List.append_assoc]
      rw [← List.append_assoc btag atag, List.drop_left]
    rw [this]
    exact CodecMono.binBody_correct ma mi t hma hmi ht tail
  rcases hb with ⟨a, rfl⟩ | ⟨a, b, rfl⟩ | ⟨a, b, c, d, rfl⟩ <;>
    rcases ha with ⟨n, hn1, hn2, rfl⟩ | ⟨a', b', rfl⟩ | ⟨a', b', c', d', rfl⟩
  all_goals first
    | (have hn1' : 147 ≤ n.toNat := UInt8.le_iff_toNat_le.mp hn1
       have hn2' : n.toNat ≤ 159 := UInt8.le_iff_toNat_le.mp hn2
       apply key _ _ rfl rfl
       · simp
       · simp only [List.cons_append, List.getD_cons_succ, List.getD_cons_zero]
         rw [if_pos ⟨hn1', hn2'⟩]; rfl)
    | (apply key _ _ rfl rfl <;> simp)

namespace ClsAux

theorem encode_name_len : (encode (.str Gen.c_sp_FormatName)).length = 9 := by decide

theorem encode_small_len (n : Nat) (h : n < 128) : (encode (.int (n : Int))).length = 1 := by
  rw [encode, encInt, if_pos (by omega), encUInt, if_pos (by simpa using h)]
  rfl

theorem encode_ver_len (ma mi : Nat) (hma : ma < 128) (hmi : mi < 128) :
    (encode (.arr [.int ma, .int mi])).length = 3 := by
  rw [encode, MsgpackRT.encodeList_cons, MsgpackRT.encodeList_cons, MsgpackRT.encodeList_nil]
  simp only [List.length_append, encode_small_len _ hma, encode_small_len _ hmi, List.length_cons, List.length_nil]
  rfl

end ClsAux
open ClsAux

/-- …and on every prefix of at least 23 bytes of such a message -/
theorem bin_correct_prefix (btag atag tail : Bytes) (hb : IsBinTag btag) (ha : IsArrTag atag)
    (ma mi t : Nat) (hma : ma < 128) (hmi : mi < 128) (ht : isMode (t : Int) = true) (k : Nat) (hk : 23 ≤ k)
    (hlen : 23 ≤ (btag ++ atag ++ encode (.str Gen.c_sp_FormatName) ++ encode (.arr [.int ma, .int mi]) ++ encode (.int t) ++ tail).length) :
    binarySlice ((btag ++ atag ++ encode (.str Gen.c_sp_FormatName) ++ encode (.arr [.int ma, .int mi]) ++ encode (.int t) ++ tail).take k) =
      .ok ((t : Int), ⟨ma, mi⟩) := by
  have hbl : btag.length ≤ 5 := by
    rcases hb with ⟨a, rfl⟩ | ⟨a, b, rfl⟩ | ⟨a, b, c, d, rfl⟩ <;> simp
  have hal : atag.length ≤ 5 := by
    rcases ha with ⟨n, _, _, rfl⟩ | ⟨a', b', rfl⟩ | ⟨a', b', c', d', rfl⟩ <;> simp
  have h1 := encode_name_len
  have h2 := encode_ver_len ma mi hma hmi
  have h3 := encode_small_len t (by have := isMode_le t ht; omega)
  have hH : (btag ++ atag ++ encode (.str Gen.c_sp_FormatName) ++ encode (.arr [.int ma, .int mi]) ++ encode (.int t)).length ≤ k := by
    simp only [List.length_append]; omega
  rw [List.take_append, List.take_of_length_le hH]
  apply bin_correct btag atag _ hb ha ma mi t hma hmi ht
  have : (btag ++ atag ++ encode (.str Gen.c_sp_FormatName) ++ encode (.arr [.int ma, .int mi]) ++ encode (.int t) ++ tail).length
      = (btag ++ atag ++ encode (.str Gen.c_sp_FormatName) ++ encode (.arr [.int ma, .int mi]) ++ encode (.int t)).length + tail.length :=
    List.length_append
  rw [List.length_append, List.length_take]
  omega

/-- **soundness**: an answer implies a bin tag, an array tag and — read by
    go-codec's typed decoders, in this order, from the bytes that follow — the
    saltpack format name, that version and that very mode -/
theorem bin_sound (b : Bytes) (t : Int) (v : Version) (h : binarySlice b = .ok (t, v)) :
    isMode t = true ∧ 23 ≤ b.length ∧
    ∃ skip askip r1 r2 r3,
      (skip = 2 ∨ skip = 3 ∨ skip = 5) ∧ (askip = 1 ∨ askip = 3 ∨ askip = 5) ∧
      decName (b.drop (skip + askip)) = .ok (Gen.c_sp_FormatName, r1) ∧
      decVersionTop r1 = .ok (v, r2) ∧
      decMode r2 = .ok (t, r3) := by
  unfold binarySlice at h
  rw [minLen_eq] at h
  split at h
  · cases h
  · rename_i hlen
    simp only at h
    split at h
    · cases h
    · rename_i skip hskip
      split at h
      · cases h
      · rename_i askip haskip
        have hsk : skip = 2 ∨ skip = 3 ∨ skip = 5 := by
          revert hskip; repeat' split
          all_goals simp
          all_goals omega
        have hask : askip = 1 ∨ askip = 3 ∨ askip = 5 := by
          revert haskip; repeat' split
          all_goals simp
          all_goals omega
        obtain ⟨hm, r1, r2, r3, h1, h2, h3⟩ := CodecMono.binBody_sound _ t v h
        exact ⟨hm, by omega, skip, askip, r1, r2, r3, hsk, hask, h1, h2, h3⟩

/-- an answer never names anything but the four modes -/
theorem bin_modes (b : Bytes) (t : Int) (v : Version) (h : binarySlice b = .ok (t, v)) :
    t = mtEncryption ∨ t = mtAttached ∨ t = mtDetached ∨ t = mtSigncryption :=
  isMode_cases t (bin_sound b t v h).1

/-! ## armored -/

/-- every prefix of a genuine frame line (before its period) is "short" -/
theorem arm_frame_prefix_short (typ : Int) (ht : Armorable typ) (brand : Bytes) (hb : BrandOK brand) (k : Nat) :
    armoredPrefix ((Armor.header typ brand).take k) = .short := by
  obtain ⟨htm, sffx, hts, hsm⟩ := armorable_sffx typ ht
  by_cases hbe : brand = []
  · subst hbe
    obtain ⟨k', hk', _, he⟩ := take_cap _ (nobrand_len typ htm) k
    rw [he]
    exact nobrand_fin typ htm k' hk'
  · have hbAN : AN brand := ⟨hbe, fun c hc => alnum_of_brand c (hb.2 c hc)⟩
    have hcol : collapse ((header typ brand).take k) = (header typ brand).take k :=
      collapseAux_take _ false k ((frame_canon _ headerMarker_ok (by decide) typ ht brand hb).2.1 false)
    have hshape : header typ brand =
        Gen.c_sp_headerMarker ++ [space] ++ brand ++ [space] ++ frameRest sffx := by
      rw [(header_shape typ sffx hts brand).1, if_neg (by simpa using hbe)]
      simp [frameRest]
    rw [armoredPrefix_norm, hcol, hshape]
    have hBl : (Gen.c_sp_headerMarker ++ [space]).length = 6 := by decide
    by_cases hk1 : k ≤ 6
    · -- inside `BEGIN `
      have : (Gen.c_sp_headerMarker ++ [space] ++ brand ++ [space] ++ frameRest sffx).take k =
          (Gen.c_sp_headerMarker ++ [space]).take k := by
        rw [List.append_assoc, List.append_assoc, List.take_append_of_le_length (by omega)]
      rw [this]
      have h := begin_fin k (by omega)
      rw [armoredPrefix_norm] at h
      have hc0 : collapse ((Gen.c_sp_headerMarker ++ [space]).take k) = (Gen.c_sp_headerMarker ++ [space]).take k :=
        collapseAux_take (Gen.c_sp_headerMarker ++ [space]) false k (by decide)
      rw [hc0] at h
      exact h
    · by_cases hk2 : k ≤ 6 + brand.length
      · -- inside the brand
        have : (Gen.c_sp_headerMarker ++ [space] ++ brand ++ [space] ++ frameRest sffx).take k =
            intercalateSp [Gen.c_sp_headerMarker, brand.take (k - 6)] := by
          rw [List.append_assoc, List.append_assoc, List.take_append, List.take_of_length_le (by omega), hBl,
            List.take_append_of_le_length (by omega)]
          simp [intercalateSp]
        have hw : AN (brand.take (k - 6)) := by
          refine ⟨?_, fun c hc => hbAN.2 c (List.mem_of_mem_take hc)⟩
          intro h
          have h1 := congrArg List.length h
          rw [List.length_take] at h1
          simp only [List.length_nil] at h1
          have : 0 < brand.length := List.length_pos_iff.mpr hbe
          omega
        rw [this, trimSpace_intercalate _ (by
          intro w hw'
          simp only [List.mem_cons, List.not_mem_nil, or_false] at hw'
          rcases hw' with rfl | rfl
          · exact ⟨by decide, by decide⟩
          · exact ⟨hw.1, fun c hc => ⟨(alnum_class c (hw.2 c hc)).2.1, alnum_lt c (hw.2 c hc)⟩⟩)]
        exact norm_two _ hw
      · -- after the brand
        have hAl : (Gen.c_sp_headerMarker ++ [space] ++ brand ++ [space]).length = 7 + brand.length := by
          simp only [List.length_append, hBl, List.length_cons, List.length_nil]; omega
        have hB : ∀ c ∈ Gen.c_sp_headerMarker, isTrimSpace c = false ∧ c < 128 := by decide
        rw [List.take_append, List.take_of_length_le (by omega), hAl]
        by_cases hj : k - (7 + brand.length) = 0
        · rw [hj, List.take_zero, List.append_nil]
          have : Gen.c_sp_headerMarker ++ [space] ++ brand ++ [space] =
              intercalateSp [Gen.c_sp_headerMarker, brand] ++ [space] := by simp [intercalateSp]
          rw [this, trimSpace_post _ _ (by decide), trimSpace_intercalate _ (by
            intro w hw'
            simp only [List.mem_cons, List.not_mem_nil, or_false] at hw'
            rcases hw' with rfl | rfl
            · exact ⟨by decide, hB⟩
            · exact ⟨hbAN.1, fun c hc => ⟨(alnum_class c (hbAN.2 c hc)).2.1, alnum_lt c (hbAN.2 c hc)⟩⟩)]
          exact norm_two _ hbAN
        · obtain ⟨j', hj', hj1, he⟩ := take_cap _ (rest_len sffx hsm) (k - (7 + brand.length))
          obtain ⟨hws, hne, hl3, hi, hchk⟩ := rest_fin sffx hsm j' hj' (hj1 (by omega))
          rw [he, trimEnd_eq ((frameRest sffx).take j'), ← List.append_assoc,
            trimSpace_post _ _ (trimEnd_snd _), ← hi, ← intercalateSp_cons2 _ _ _ hne,
            trimSpace_intercalate _ (by
              intro w hw'
              simp only [List.mem_cons] at hw'
              rcases hw' with rfl | rfl | hw'
              · exact ⟨by decide, hB⟩
              · exact ⟨hbAN.1, fun c hc => ⟨(alnum_class c (hbAN.2 c hc)).2.1, alnum_lt c (hbAN.2 c hc)⟩⟩
              · exact ⟨(hws w hw').1, fun c hc => ⟨(alnum_class c ((hws w hw').2 c hc)).2.1,
                  alnum_lt c ((hws w hw').2 c hc)⟩⟩)]
          exact norm_brand brand hbAN _ hne hl3 hws hchk

/-- the collapse of a prefix is a prefix of the collapse -/
theorem collapseAux_take_prefix (b : Bytes) (r : Bool) (k : Nat) :
    ∃ j, collapseAux r (b.take k) = (collapseAux r b).take j := by
  refine ⟨(collapseAux r (b.take k)).length, ?_⟩
  have h : collapseAux r b = collapseAux r (b.take k) ++ collapseAux (endState r (b.take k)) (b.drop k) := by
    rw [← collapseAux_append, List.take_append_drop]
  rw [h, List.take_left' rfl]

theorem classifyNorm_nil : classifyNorm [] = .short := by decide

/-- the normalised form of every prefix of a genuine frame line is "short" -/
theorem norm_frame_prefix_short (typ : Int) (ht : Armorable typ) (brand : Bytes) (hb : BrandOK brand) (j : Nat) :
    classifyNorm (trimSpace ((Armor.header typ brand).take j)) = .short := by
  have h := arm_frame_prefix_short typ ht brand hb j
  rw [armoredPrefix_norm] at h
  have hcol : collapse ((header typ brand).take j) = (header typ brand).take j :=
    collapseAux_take _ false j ((frame_canon _ headerMarker_ok (by decide) typ ht brand hb).2.1 false)
  rw [hcol] at h
  exact h

/-- **every prefix of a re-flowed frame line is "short"** -/
theorem arm_variant_prefix_short (typ : Int) (ht : Armorable typ) (brand : Bytes) (hb : BrandOK brand)
    (f' : Bytes) (hv : FrameVariant (Armor.header typ brand) f') (k : Nat) :
    armoredPrefix (f'.take k) = .short := by
  rw [armoredPrefix_norm]
  unfold collapse
  obtain ⟨j, hj⟩ := collapseAux_take_prefix f' false k
  rw [hj]
  have hasc : ∀ c ∈ collapseAux false f', c < 128 := by
    intro c hc
    rcases collapseAux_mem f' false c hc with h | h
    · exact valid_lt c (hv.valid c h)
    · subst h; decide
  obtain ⟨p, q, hp, hq, hC⟩ := trimSpace_decomp _ hasc
  have hn : trimSpace (collapseAux false f') = header typ brand := hv.norm
  rw [hn] at hC
  rw [hC]
  by_cases hjp : j ≤ p.length
  · rw [List.append_assoc, List.take_append_of_le_length hjp]
    have : trimSpace (p.take j) = [] := by
      have := trimSpace_pre (p.take j) [] (fun c hc => (hp c (List.mem_of_mem_take hc)).1)
      rw [List.append_nil] at this
      rw [this]; rfl
    rw [this]
    exact classifyNorm_nil
  · rw [List.append_assoc, List.take_append, List.take_of_length_le (by omega),
      trimSpace_pre _ _ (fun c hc => (hp c hc).1), List.take_append,
      trimSpace_post _ _ (fun c hc => (hq c (List.mem_of_mem_take hc)).1)]
    exact norm_frame_prefix_short typ ht brand hb _

/-- the frame with its period and fewer than 43 payload characters is "short"
    (general form: anything alphanumeric-or-space after the period) -/
theorem arm_needs_block_gen (typ : Int) (ht : Armorable typ) (brand : Bytes) (hb : BrandOK brand) (w : Bytes)
    (hw : ∀ c ∈ w, isAlnum c = true ∨ c = Armor.space)
    (hfew : (w.filter (· != Armor.space)).length < 43) :
    armoredPrefix (Armor.header typ brand ++ [Armor.period] ++ w) = .short := by
  obtain ⟨sffx, hts, hs⟩ := (armorable_sffx typ ht).2
  have hcan := frame_canon _ headerMarker_ok (by decide) typ ht brand hb
  have hF : makeFrame Gen.c_sp_headerMarker typ brand = header typ brand := rfl
  rw [hF] at hcan
  have hcol : collapse (header typ brand ++ [period] ++ w) =
      (header typ brand ++ [period]) ++ collapseAux false w := by
    unfold collapse
    rw [List.append_assoc, collapseAux_append, hcan.2.1 false]
    have hp : isFrameSpace period = false := by decide
    simp [collapseAux, hp]
  have hW : ∀ c ∈ collapseAux false w, isAlnum c = true ∨ c = space := by
    intro c hc
    rcases collapseAux_mem w false c hc with h | h
    · exact hw c h
    · exact Or.inr h
  have hWf : (collapseAux false w).filter (· != space) = w.filter (· != space) :=
    collapseAux_filter w hw false
  obtain ⟨hZ, hZf⟩ := rtrim_facts _ hW
  have hhead : ∀ c ∈ (header typ brand ++ [period]).head?, isTrimSpace c = false := by
    rw [(header_shape typ sffx hts brand).1]
    split <;> (intro c hc; simp [Gen.c_sp_headerMarker] at hc; subst hc; decide)
  have htrim := trim_tail (header typ brand ++ [period]) (collapseAux false w) hhead
    (by intro c hc; simp at hc; subst hc; decide) (by simp)
    (by
      intro c hc
      rcases List.mem_append.mp hc with hc | hc
      · rcases List.mem_append.mp hc with hc | hc
        · exact valid_lt c (hcan.1 c hc)
        · rw [List.mem_singleton] at hc; subst hc; decide
      · rcases hW c hc with h | h
        · exact alnum_lt c h
        · subst h; decide)
  rw [armoredPrefix_norm, hcol, htrim, List.append_assoc, List.singleton_append]
  unfold classifyNorm
  rw [matchHeader_frame typ sffx hts hs brand hb _ hZ]
  simp only [hZf, hWf]
  rw [if_pos (decodePrefix_short _ hfew)]

/-- the frame line with just its period is "short" -/
theorem arm_frame_period (typ : Int) (ht : Armorable typ) (brand : Bytes) (hb : BrandOK brand) :
    armoredPrefix (Armor.header typ brand ++ [Armor.period]) = .short := by
  have := arm_needs_block_gen typ ht brand hb [] (by simp) (by simp)
  simpa using this

/-- the frame with its period but fewer than one full block of payload
    characters is "short" -/
theorem arm_needs_block (typ : Int) (ht : Armorable typ) (brand : Bytes) (hb : BrandOK brand) (body : Bytes)
    (hbody : ∀ c ∈ body, isAlnum c = true ∨ c = Armor.space)
    (hfew : (body.filter (· != Armor.space)).length < 43) :
    armoredPrefix (Armor.header typ brand ++ [Armor.period, Armor.space] ++ body) = .short := by
  have := arm_needs_block_gen typ ht brand hb (Armor.space :: body)
    (by
      intro c hc
      rcases List.mem_cons.mp hc with h | h
      · exact Or.inr h
      · exact hbody c h)
    (by
      rw [List.filter_cons]
      have : (Armor.space != Armor.space) = false := by decide
      simp only [this, Bool.false_eq_true, if_false]
      exact hfew)
  simpa using this

namespace ClsAux

theorem matchTail_type (b : Bytes) (t p : Bytes) (h : matchTail b = some (t, p)) :
    t = Gen.c_sp_EncryptionArmorString ∨ t = Gen.c_sp_SignedArmorString ∨
      t = Gen.c_sp_DetachedSignatureArmorString := by
  unfold matchTail at h
  split at h
  · cases h
  · rename_i r hr
    simp only at h
    split at h
    · rename_i x hx
      cases h
      split at hx
      · cases hx
      · simp only [Option.map_eq_some_iff, Prod.mk.injEq] at hx
        obtain ⟨_, _, h1, _⟩ := hx
        exact Or.inl h1.symm
    · split at h
      · rename_i x hx
        cases h
        split at hx
        · cases hx
        · simp only [Option.map_eq_some_iff, Prod.mk.injEq] at hx
          obtain ⟨_, _, h1, _⟩ := hx
          exact Or.inr (Or.inl h1.symm)
      · split at h
        · cases h
        · simp only [Option.map_eq_some_iff, Prod.mk.injEq] at h
          obtain ⟨_, _, h1, _⟩ := h
          exact Or.inr (Or.inr h1.symm)

theorem matchHeader_type (s brand t p : Bytes) (h : matchHeader s = some (brand, t, p)) :
    t = Gen.c_sp_EncryptionArmorString ∨ t = Gen.c_sp_SignedArmorString ∨
      t = Gen.c_sp_DetachedSignatureArmorString := by
  unfold matchHeader at h
  split at h
  · cases h
  · rename_i r hr
    simp only at h
    split at h
    · rename_i x hx
      cases h
      split at hx
      · cases hx
      · split at hx
        · split at hx
          · simp only [Option.map_eq_some_iff, Prod.mk.injEq, Prod.exists] at hx
            obtain ⟨t', p', hm, _, rfl, _⟩ := hx
            exact matchTail_type _ _ _ hm
          · cases hx
        · cases hx
    · simp only [Option.map_eq_some_iff, Prod.mk.injEq, Prod.exists] at h
      obtain ⟨t', p', hm, _, rfl, _⟩ := h
      exact matchTail_type _ _ _ hm

end ClsAux
open ClsAux

/-- an answer of the armored classifier is the answer of the binary classifier on
    the bytes decoded from the payload characters this very prefix shows after
    its frame (at least one full block of 32 bytes), under a frame label that
    matches the mode -/
theorem arm_sound (pref brand : Bytes) (t : Int) (v : Version) (h : armoredPrefix pref = .ok (brand, t, v)) :
    ∃ typStr payload chars dec,
      matchHeader (Armor.trimSpace (Armor.collapse pref)) = some (brand, typStr, payload) ∧
      chars = payload.filter (· != Armor.space) ∧
      dec = (Basex.decodePrefix Gen.base62Std (chars.length + 1) chars).1 ∧
      32 ≤ dec.length ∧
      binarySlice dec = .ok (t, v) ∧
      (typStr = Gen.c_sp_EncryptionArmorString ∨ typStr = Gen.c_sp_SignedArmorString ∨
        typStr = Gen.c_sp_DetachedSignatureArmorString) ∧
      ((t = mtEncryption ∨ t = mtSigncryption) → typStr = Gen.c_sp_EncryptionArmorString) ∧
      (t = mtAttached → typStr = Gen.c_sp_SignedArmorString) ∧
      (t = mtDetached → typStr = Gen.c_sp_DetachedSignatureArmorString) := by
  unfold armoredPrefix at h
  simp only at h
  split at h
  · repeat' split at h
    all_goals cases h
  · rename_i brand' typStr payload hm
    split at h
    · cases h
    · rename_i hlen
      split at h
      any_goals cases h
      rename_i t' ver hbin
      split at h
      · cases h
      · rename_i hlab
        cases h
        have hty := matchHeader_type _ _ _ _ hm
        refine ⟨typStr, payload, _, _, hm, rfl, rfl, by omega, hbin, hty, ?_⟩
        have hmode := bin_modes _ _ _ hbin
        rcases hty with rfl | rfl | rfl <;> rcases hmode with rfl | rfl | rfl | rfl <;>
          revert hlab <;> decide

/-! ## the stream classifier -/

/-- `classifyStream` looks at the first `size` bytes only -/
theorem stream_take (size : Nat) (all : Bytes) : classifyStream size all = classifyStream size (all.take size) := by
  unfold classifyStream
  simp only [List.take_take, Nat.min_self]
  generalize (if (List.take size all).isEmpty = true then Verdict.notSaltpack else armoredPrefix (List.take size all)) = arm
  cases arm with
  | notSaltpack =>
    simp only
    by_cases hs : size < minLen
    · rw [if_pos hs, if_pos hs]
    · rw [if_neg hs, if_neg hs]
      have h1 : (all.length < minLen) ↔ ((all.take size).length < minLen) := by
        rw [List.length_take]; omega
      have h2 : min minLen size = minLen := by omega
      simp only [h1, h2]
  | _ => rfl

/-- **peeks only**: the answer depends on nothing but what `Peek(size)` returns -/
theorem stream_peeks_only (size : Nat) (a b : Bytes) (h : a.take size = b.take size) :
    classifyStream size a = classifyStream size b := by
  rw [stream_take size a, stream_take size b, h]

theorem arm_nil : armoredPrefix [] = .short := by decide

/-- whatever the armored classifier says "yes" to on the peeked bytes is the stream's answer -/
theorem stream_armored_correct (size : Nat) (m brand : Bytes) (t : Int) (v : Version)
    (h : armoredPrefix (m.take size) = .ok (brand, t, v)) :
    classifyStream size m = .ok (true, brand, t, v) := by
  unfold classifyStream
  have hne : (m.take size).isEmpty = false := by
    cases hm : m.take size with
    | nil => rw [hm, arm_nil] at h; cases h
    | cons _ _ => rfl
  simp only [hne, Bool.false_eq_true, if_false, h]

/-- a text that starts with a bin8/16/32 tag byte is not armor -/
theorem arm_binlead (k : UInt8) (hk : BinLead k) (y : Bytes) : armoredPrefix (k :: y) = .notSaltpack := by
  have hfs : isFrameSpace k = false := by rcases hk with rfl | rfl | rfl <;> decide
  have hcl : clash (Gen.c_sp_headerMarker ++ [Armor.space]) [k] = true := by rcases hk with rfl | rfl | rfl <;> decide
  have han : (isAlnum k || k == Armor.space) = false := by rcases hk with rfl | rfl | rfl <;> decide
  rw [armoredPrefix_norm]
  have hcol : collapse (k :: y) = k :: collapseAux false y := by
    unfold collapse; rw [collapseAux, if_neg (by simp [hfs])]
  rw [hcol]
  obtain ⟨z, hz⟩ := trimSpace_binlead k hk (collapseAux false y)
  rw [hz]
  unfold classifyNorm
  have hmh : matchHeader (k :: z) = none := by
    unfold matchHeader
    have := stripPrefix_none (Gen.c_sp_headerMarker ++ [Armor.space]) [k] z hcl
    simp only [List.singleton_append] at this
    rw [this]
  rw [hmh]
  have hfw : fewWords (k :: z) = false := by
    unfold fewWords
    simp [han]
  simp [hfw]

/-- **the stream classifier on a genuine binary message**: for a reader of at
    least 23 bytes, `(false, "", mode, version)` -/
theorem stream_binary_correct (btag atag tail : Bytes) (hb : IsBinTag btag) (ha : IsArrTag atag)
    (ma mi t : Nat) (hma : ma < 128) (hmi : mi < 128) (ht : isMode (t : Int) = true) (size : Nat) (hs : 23 ≤ size)
    (hlen : 23 ≤ (btag ++ atag ++ encode (.str Gen.c_sp_FormatName) ++ encode (.arr [.int ma, .int mi]) ++ encode (.int t) ++ tail).length) :
    classifyStream size (btag ++ atag ++ encode (.str Gen.c_sp_FormatName) ++ encode (.arr [.int ma, .int mi]) ++ encode (.int t) ++ tail) =
      .ok (false, [], (t : Int), ⟨ma, mi⟩) := by
  have hbin := bin_correct_prefix btag atag tail hb ha ma mi t hma hmi ht 23 (Nat.le_refl _) hlen
  generalize hM : btag ++ atag ++ encode (.str Gen.c_sp_FormatName) ++ encode (.arr [.int ma, .int mi]) ++ encode (.int t) ++ tail = M at *
  have hlead : ∃ k y, BinLead k ∧ M = k :: y := by
    rcases hb with ⟨a, rfl⟩ | ⟨a, b, rfl⟩ | ⟨a, b, c, d, rfl⟩
    · exact ⟨0xc4, _, Or.inl rfl, by rw [← hM]; simp only [List.cons_append]; rfl⟩
    · exact ⟨0xc5, _, Or.inr (Or.inl rfl), by rw [← hM]; simp only [List.cons_append]; rfl⟩
    · exact ⟨0xc6, _, Or.inr (Or.inr rfl), by rw [← hM]; simp only [List.cons_append]; rfl⟩
  obtain ⟨k, y, hk, rfl⟩ := hlead
  unfold classifyStream
  obtain ⟨s', rfl⟩ : ∃ s', size = s' + 1 := ⟨size - 1, by omega⟩
  rw [List.take_succ_cons]
  simp only [List.isEmpty_cons, Bool.false_eq_true, if_false, arm_binlead k hk]
  rw [minLen_eq, if_neg (by omega), if_neg (by omega), hbin]

end Saltpack.Proofs
