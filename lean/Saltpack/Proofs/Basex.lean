/-
  Helper lemmas and the proofs behind Props/C10.  (Single Mathlib modules may be
  imported here if needed; Model files stay core-only.)
-/
import Saltpack.Model.Basex
import Saltpack.Proofs.BasexWF
import Saltpack.Proofs.Digits
import Saltpack.Proofs.BasexLen

namespace Saltpack.Proofs
open Saltpack Saltpack.Basex

/-! ### alphabet -/

theorem digit?_char {e : Enc} (he : e.WF) (d : Nat) (hd : d < e.base) :
    e.digit? (e.char d) = some d := by
  have hd' : d < e.alphabet.length := by rw [he.alpha_len]; exact hd
  unfold Enc.digit? Enc.char
  rw [List.getD_eq_getElem?_getD, List.getElem?_eq_getElem hd', Option.getD_some]
  simp only [he.alpha_nodup.idxOf_getElem d hd', hd', if_true]

theorem char_of_digit? {e : Enc} (c : UInt8) (d : Nat) (h : e.digit? c = some d) :
    d < e.alphabet.length ∧ e.char d = c := by
  unfold Enc.digit? at h
  simp only at h
  split at h
  · rename_i hlt
    injection h with h
    subst h
    refine ⟨hlt, ?_⟩
    unfold Enc.char
    rw [List.getD_eq_getElem?_getD, List.getElem?_eq_getElem hlt, Option.getD_some]
    exact List.getElem_idxOf hlt
  · exact absurd h (by simp)

/-! ### encoder -/

theorem encodeBlockDigits_length (e : Enc) (bs : Bytes) :
    (encodeBlockDigits e bs).length = e.encLen bs.length := by
  unfold encodeBlockDigits
  exact digitsOfNat_length _ _ _

theorem encodeBlock_length (e : Enc) (bs : Bytes) :
    (encodeBlock e bs).length = e.encLen bs.length := by
  unfold encodeBlock
  rw [List.length_map, encodeBlockDigits_length]

theorem encodeBlock_value (e : Enc) (he : e.WF) (bs : Bytes) (h : bs.length ≤ e.blockLen) :
    natOfDigits e.base (encodeBlockDigits e bs) = natOfBytes bs ∧
    (∀ d ∈ encodeBlockDigits e bs, d < e.base) := by
  constructor
  · unfold encodeBlockDigits
    apply natOfDigits_digitsOfNat_of_lt
    exact Nat.lt_of_lt_of_le (natOfBytes_lt bs) (encLen_spec he _ h).1
  · unfold encodeBlockDigits
    exact digitsOfNat_lt _ (base_pos he) _ _

theorem encode_nil (e : Enc) : encode e [] = [] := by
  unfold encode
  rw [chunks_nil]
  rfl

theorem encode_short (e : Enc) (bs : Bytes) (h0 : bs ≠ []) (h : bs.length ≤ e.blockLen) :
    encode e bs = encodeBlock e bs := by
  unfold encode
  rw [chunks_short _ _ h0 h]
  simp

theorem encode_append (e : Enc) (he : e.WF) (a b : Bytes) (h : a.length = e.blockLen) :
    encode e (a ++ b) = encodeBlock e a ++ encode e b := by
  unfold encode
  rw [chunks_append _ he.block_pos a b h, List.flatMap_cons]

theorem encode_length_aux (e : Enc) (he : e.WF) :
    ∀ (k : Nat) (bs : Bytes), bs.length ≤ k → (encode e bs).length = e.encLen bs.length := by
  intro k
  induction k with
  | zero =>
    intro bs h
    have : bs = [] := List.length_eq_zero_iff.mp (by omega)
    subst this
    rw [encode_nil, List.length_nil, encLen_zero he]
  | succ k ih =>
    intro bs h
    by_cases h0 : bs = []
    · subst h0
      rw [encode_nil, List.length_nil, encLen_zero he]
    · by_cases hs : bs.length ≤ e.blockLen
      · rw [encode_short e bs h0 hs, encodeBlock_length]
      · have hB := he.block_pos
        have hlen : (bs.drop e.blockLen).length = bs.length - e.blockLen := List.length_drop
        have htake : (bs.take e.blockLen).length = e.blockLen := by
          rw [List.length_take]; omega
        have hsplit : bs = bs.take e.blockLen ++ bs.drop e.blockLen :=
          (List.take_append_drop _ _).symm
        conv => lhs; rw [hsplit]
        rw [encode_append e he _ _ htake, List.length_append, encodeBlock_length, htake,
          encLen_full he, ih _ (by omega), hlen]
        have hb : bs.length = (bs.length - e.blockLen) + e.blockLen := by omega
        conv => rhs; rw [hb]
        unfold Enc.encLen
        rw [Nat.add_div_right _ hB, Nat.add_mod_right, Nat.add_mul, Nat.one_mul]
        omega

theorem encode_length (e : Enc) (he : e.WF) (bs : Bytes) :
    (encode e bs).length = e.encLen bs.length :=
  encode_length_aux e he bs.length bs (Nat.le_refl _)

theorem len_helpers_exact (e : Enc) (he : e.WF) :
    (∀ r, r ≤ e.blockLen → 256 ^ r ≤ e.base ^ (e.encLen r) ∧
        (e.encLen r = 0 ∨ e.base ^ (e.encLen r - 1) < 256 ^ r)) ∧
    (∀ c, c ≤ e.charBlockLen → 256 ^ (e.decLen c) ≤ e.base ^ c ∧ e.base ^ c < 256 ^ (e.decLen c + 1)) :=
  ⟨encLen_spec he, decLen_spec he⟩

/-! ### scanning -/

theorem scanBlock_zero (e : Enc) (s : List UInt8) (pos : Nat) :
    scanBlock e 0 s pos = .ok ([], s) := by
  cases s with
  | nil => rw [scanBlock]
  | cons c cs => rw [scanBlock]; simp

/-- scanning a run of alphabet characters -/
theorem scan_enc {e : Enc} (he : e.WF) :
    ∀ (ds : List Nat) (need pos : Nat) (tail : List UInt8), (∀ d ∈ ds, d < e.base) →
      ds.length ≤ need → (ds.length = need ∨ tail = []) →
      scanBlock e need (ds.map e.char ++ tail) pos = .ok (ds, tail) := by
  intro ds
  induction ds with
  | nil =>
    intro need pos tail _ _ h
    rcases h with h | h
    · simp only [List.length_nil] at h
      subst h
      exact scanBlock_zero e _ _
    · subst h
      simp only [List.map_nil, List.append_nil]
      rw [scanBlock]
  | cons d ds ih =>
    intro need pos tail hlt hle h
    rw [List.length_cons] at hle h
    cases need with
    | zero => omega
    | succ n =>
      simp only [List.map_cons, List.cons_append]
      rw [scanBlock, digit?_char he d (hlt d (by simp))]
      simp only
      by_cases hn : n = 0
      · subst hn
        have : ds = [] := List.length_eq_zero_iff.mp (by omega)
        subst this
        simp
      · rw [if_neg hn, ih n (pos + 1) tail (fun x hx => hlt x (by simp [hx]))
          (by omega) (by rcases h with h | h; left; omega; right; exact h)]

/-- what a successful strict scan tells about its input -/
theorem scan_strict {e : Enc} (he : e.WF) (hs : e.skip = []) :
    ∀ (s : List UInt8) (need pos : Nat) (ds : List Nat) (rest : List UInt8),
      scanBlock e need s pos = .ok (ds, rest) →
      s = ds.map e.char ++ rest ∧ (∀ d ∈ ds, d < e.base) ∧ ds.length ≤ need ∧
      (ds.length = need ∨ rest = []) ∧ (0 < need → s ≠ [] → ds ≠ []) := by
  intro s
  induction s with
  | nil =>
    intro need pos ds rest h
    rw [scanBlock] at h
    injection h with h
    injection h with h1 h2
    subst h1; subst h2
    simp
  | cons c cs ih =>
    intro need pos ds rest h
    cases need with
    | zero =>
      rw [scanBlock_zero] at h
      injection h with h
      injection h with h1 h2
      subst h1; subst h2
      simp
    | succ n =>
      rw [scanBlock] at h
      cases hdig : e.digit? c with
      | none =>
        rw [hdig] at h
        have : e.isSkip c = false := by unfold Enc.isSkip; rw [hs]; rfl
        simp [this] at h
      | some d =>
        rw [hdig] at h
        simp only at h
        obtain ⟨hd1, hd2⟩ := char_of_digit? c d hdig
        rw [he.alpha_len] at hd1
        by_cases hn : n = 0
        · subst hn
          simp only [if_true] at h
          injection h with h
          injection h with h1 h2
          subst h1; subst h2
          simp [hd1, hd2]
        · rw [if_neg hn] at h
          cases hrec : scanBlock e n cs (pos + 1) with
          | error x => rw [hrec] at h; simp at h
          | ok p =>
            obtain ⟨ds', rest'⟩ := p
            rw [hrec] at h
            simp only at h
            injection h with h
            injection h with h1 h2
            subst h1; subst h2
            obtain ⟨i1, i2, i3, i4, _⟩ := ih n (pos + 1) ds' rest' hrec
            refine ⟨?_, ?_, ?_, ?_, ?_⟩
            · simp [hd2, ← i1]
            · intro x hx
              rcases List.mem_cons.mp hx with hx | hx
              · subst hx; exact hd1
              · exact i2 x hx
            · simp; omega
            · rcases i4 with i4 | i4
              · left; simp; omega
              · right; exact i4
            · intro _ _; simp

/-! ### one block -/

theorem decodeBlock_encodeBlock {e : Enc} (he : e.WF) (bs : Bytes) (h0 : 0 < bs.length)
    (h : bs.length ≤ e.blockLen) : decodeBlockDigits e (encodeBlockDigits e bs) = .ok bs := by
  unfold decodeBlockDigits
  rw [encodeBlockDigits_length, validLen_encLen he _ h0 h, decLen_encLen he _ h0 h,
    (encodeBlock_value e he bs h).1]
  have hlt := natOfBytes_lt bs
  simp only [Bool.not_true, Bool.false_eq_true, if_false]
  rw [if_neg (by omega), bytesOfNat_natOfBytes]

theorem decodeBlock_nil {e : Enc} (he : e.WF) : decodeBlockDigits e [] = .ok [] := by
  unfold decodeBlockDigits
  simp only [List.length_nil, validLen_zero he, decLen_zero he, natOfDigits_nil]
  rfl

/-- an accepted block is the encoding of its result -/
theorem decodeBlock_canon {e : Enc} (he : e.WF) (ds : List Nat) (b : Bytes)
    (hlt : ∀ d ∈ ds, d < e.base) (h0 : 0 < ds.length) (hN : ds.length ≤ e.charBlockLen)
    (h : decodeBlockDigits e ds = .ok b) :
    encodeBlockDigits e b = ds ∧ b.length = e.decLen ds.length ∧ 0 < b.length ∧
      b.length ≤ e.blockLen := by
  unfold decodeBlockDigits at h
  cases hv : e.validLen ds.length with
  | false => rw [hv] at h; simp at h
  | true =>
    rw [hv] at h
    simp only [Bool.not_true, Bool.false_eq_true, if_false] at h
    split at h
    · simp at h
    · rename_i hfit
      injection h with h
      obtain ⟨g1, g2⟩ := encLen_decLen he _ h0 hN hv
      have hlen : b.length = e.decLen ds.length := by rw [← h, bytesOfNat_length]
      refine ⟨?_, hlen, by omega, by rw [hlen]; exact decLen_le he _ hN⟩
      unfold encodeBlockDigits
      rw [hlen, g1, ← h, natOfBytes_bytesOfNat, Nat.mod_eq_of_lt (by omega)]
      exact digitsOfNat_natOfDigits _ ds hlt

/-! ### the block loop -/

theorem decodeAux_nil (e : Enc) (fuel pos : Nat) : decodeAux e fuel [] pos = .ok [] := by
  cases fuel with
  | zero => rw [decodeAux]
  | succ f => rw [decodeAux]; simp

theorem decodeAux_step (e : Enc) (fuel pos : Nat) (s : List UInt8) (ds : List Nat)
    (rest : List UInt8) (h0 : s ≠ []) (hscan : scanBlock e e.charBlockLen s pos = .ok (ds, rest)) :
    decodeAux e (fuel + 1) s pos =
      match decodeBlockDigits e ds with
      | .error x => .error x
      | .ok bs =>
        match decodeAux e fuel rest (pos + (s.length - rest.length)) with
        | .error x => .error x
        | .ok more => .ok (bs ++ more) := by
  rw [decodeAux, hscan]
  have : s.isEmpty = false := by
    cases s with
    | nil => exact absurd rfl h0
    | cons _ _ => rfl
  simp only [this, Bool.false_eq_true, if_false]
  rfl

theorem decode_encode_aux (e : Enc) (he : e.WF) :
    ∀ (k : Nat) (bs : Bytes) (fuel pos : Nat), bs.length ≤ k → (encode e bs).length < fuel →
      decodeAux e fuel (encode e bs) pos = .ok bs := by
  intro k
  induction k with
  | zero =>
    intro bs fuel pos h _
    have : bs = [] := List.length_eq_zero_iff.mp (by omega)
    subst this
    rw [encode_nil, decodeAux_nil]
  | succ k ih =>
    intro bs fuel pos h hf
    by_cases h0 : bs = []
    · subst h0
      rw [encode_nil, decodeAux_nil]
    · have hpos : 0 < bs.length := List.length_pos_iff.mpr h0
      cases fuel with
      | zero => omega
      | succ f =>
        by_cases hs : bs.length ≤ e.blockLen
        · rw [encode_short e bs h0 hs]
          have hv := encodeBlock_value e he bs hs
          have hl := encodeBlockDigits_length e bs
          have hp := encLen_pos he _ hpos hs
          have hle := encLen_le he _ hs
          have hne : encodeBlock e bs ≠ [] := by
            intro hnil
            have := encodeBlock_length e bs
            rw [hnil] at this
            simp at this
            omega
          have hscan : scanBlock e e.charBlockLen (encodeBlock e bs) pos =
              .ok (encodeBlockDigits e bs, []) := by
            have := scan_enc he (encodeBlockDigits e bs) e.charBlockLen pos [] hv.2
              (by omega) (Or.inr rfl)
            rw [List.append_nil] at this
            exact this
          rw [decodeAux_step e f pos _ _ _ hne hscan, decodeBlock_encodeBlock he bs hpos hs]
          simp only [decodeAux_nil, List.append_nil]
        · have hB := he.block_pos
          have hlen : (bs.drop e.blockLen).length = bs.length - e.blockLen := List.length_drop
          have htake : (bs.take e.blockLen).length = e.blockLen := by
            rw [List.length_take]; omega
          have hsplit : bs = bs.take e.blockLen ++ bs.drop e.blockLen :=
            (List.take_append_drop _ _).symm
          have henc := encode_append e he _ (bs.drop e.blockLen) htake
          rw [← hsplit] at henc
          rw [henc] at hf ⊢
          have hv := encodeBlock_value e he (bs.take e.blockLen) (by omega)
          have hl := encodeBlockDigits_length e (bs.take e.blockLen)
          rw [htake, encLen_full he] at hl
          have hN := he.cblock_pos
          have hne : encodeBlock e (bs.take e.blockLen) ++ encode e (bs.drop e.blockLen) ≠ [] := by
            intro hnil
            have h1 := encodeBlock_length e (bs.take e.blockLen)
            rw [htake, encLen_full he] at h1
            have := congrArg List.length hnil
            rw [List.length_append, h1] at this
            simp at this
            omega
          have hscan : scanBlock e e.charBlockLen
              (encodeBlock e (bs.take e.blockLen) ++ encode e (bs.drop e.blockLen)) pos =
              .ok (encodeBlockDigits e (bs.take e.blockLen), encode e (bs.drop e.blockLen)) :=
            scan_enc he _ e.charBlockLen pos _ hv.2 (by omega) (Or.inl hl)
          have hfl : (encode e (bs.drop e.blockLen)).length < f := by
            rw [List.length_append, encodeBlock_length, htake, encLen_full he] at hf
            omega
          rw [decodeAux_step e f pos _ _ _ hne hscan,
            decodeBlock_encodeBlock he _ (by omega) (by omega)]
          simp only
          rw [ih (bs.drop e.blockLen) f _ (by omega) hfl]
          simp only
          rw [List.take_append_drop]

theorem decode_encode (e : Enc) (he : e.WF) (bs : Bytes) :
    decode e (encode e bs) = .ok bs := by
  unfold decode
  exact decode_encode_aux e he bs.length bs _ 0 (Nat.le_refl _) (Nat.lt_succ_self _)

theorem decode_canonical_aux (e : Enc) (he : e.WF) (hs : e.skip = []) :
    ∀ (fuel : Nat) (s : List UInt8) (pos : Nat) (bs : Bytes), s.length < fuel →
      decodeAux e fuel s pos = .ok bs →
      encode e bs = s ∧ ∀ c ∈ s, (e.digit? c).isSome = true := by
  intro fuel
  induction fuel with
  | zero => intro s pos bs h; omega
  | succ f ih =>
    intro s pos bs hf h
    by_cases h0 : s = []
    · subst h0
      rw [decodeAux_nil] at h
      injection h with h
      subst h
      exact ⟨encode_nil e, by simp⟩
    · cases hscan : scanBlock e e.charBlockLen s pos with
      | error x =>
        rw [decodeAux, hscan] at h
        have : s.isEmpty = false := by
          cases s with
          | nil => exact absurd rfl h0
          | cons _ _ => rfl
        simp [this] at h
      | ok p =>
        obtain ⟨ds, rest⟩ := p
        rw [decodeAux_step e f pos s ds rest h0 hscan] at h
        obtain ⟨i1, i2, i3, i4, i5⟩ := scan_strict he hs s _ pos ds rest hscan
        have hdsne : ds ≠ [] := i5 he.cblock_pos h0
        have hdspos : 0 < ds.length := List.length_pos_iff.mpr hdsne
        have hslen : s.length = ds.length + rest.length := by
          have := congrArg List.length i1
          simpa using this
        cases hdec : decodeBlockDigits e ds with
        | error x => rw [hdec] at h; simp at h
        | ok b1 =>
          rw [hdec] at h
          simp only at h
          cases hrec : decodeAux e f rest (pos + (s.length - rest.length)) with
          | error x => rw [hrec] at h; simp at h
          | ok more =>
            rw [hrec] at h
            simp only at h
            injection h with h
            subst h
            obtain ⟨j1, j2⟩ := ih rest _ more (by omega) hrec
            obtain ⟨c1, c2, c3, c4⟩ := decodeBlock_canon he ds b1 i2 hdspos i3 hdec
            have hblock : encodeBlock e b1 = ds.map e.char := by
              unfold encodeBlock; rw [c1]
            constructor
            · by_cases hrest : rest = []
              · subst hrest
                rw [decodeAux_nil] at hrec
                injection hrec with hrec
                subst hrec
                rw [List.append_nil, encode_short e b1 (List.length_pos_iff.mp c3) c4, hblock, i1,
                  List.append_nil]
              · have hfull : ds.length = e.charBlockLen := by
                  rcases i4 with i4 | i4
                  · exact i4
                  · exact absurd i4 hrest
                rw [hfull, decLen_full he] at c2
                rw [encode_append e he b1 more c2, hblock, j1, ← i1]
            · intro c hc
              rw [i1] at hc
              rcases List.mem_append.mp hc with hc | hc
              · rw [List.mem_map] at hc
                obtain ⟨d, hd, rfl⟩ := hc
                rw [digit?_char he d (i2 d hd)]
                rfl
              · exact j2 c hc

theorem decode_canonical (e : Enc) (he : e.WF) (hs : e.skip = []) (s : List UInt8) (bs : Bytes) :
    decode e s = .ok bs → encode e bs = s := by
  intro h
  exact (decode_canonical_aux e he hs _ s 0 bs (Nat.lt_succ_self _) h).1

theorem decode_rejects_foreign (e : Enc) (he : e.WF) (hs : e.skip = []) (s : List UInt8)
    (c : UInt8) (hc : c ∈ s) (hd : e.digit? c = none) : ∃ x, decode e s = .error x := by
  cases h : decode e s with
  | error x => exact ⟨x, rfl⟩
  | ok bs =>
    have := (decode_canonical_aux e he hs _ s 0 bs (Nat.lt_succ_self _) h).2 c hc
    rw [hd] at this
    simp at this

/-! ### skipping variant -/

theorem filterSkip_cons_digit (e : Enc) (c : UInt8) (cs : List UInt8) (d : Nat)
    (h : e.digit? c = some d) : filterSkip e (c :: cs) = c :: filterSkip e cs := by
  unfold filterSkip
  rw [List.filter_cons, h]
  simp

theorem filterSkip_cons_skip (e : Enc) (c : UInt8) (cs : List UInt8)
    (h : e.digit? c = none) (h' : e.isSkip c = true) : filterSkip e (c :: cs) = filterSkip e cs := by
  unfold filterSkip
  rw [List.filter_cons, h, h']
  simp

theorem strict_skip (e : Enc) : e.strict.skip = [] := rfl

theorem strict_wf {e : Enc} (he : e.WF) : e.strict.WF :=
  { base_gt := he.base_gt, block_pos := he.block_pos, cblock_pos := he.cblock_pos,
    alpha_len := he.alpha_len, alpha_nodup := he.alpha_nodup, encTab_len := he.encTab_len,
    decTab_len := he.decTab_len, validTab_len := he.validTab_len, enc_least := he.enc_least,
    dec_greatest := he.dec_greatest, enc_full := he.enc_full, dec_full := he.dec_full,
    valid_spec := he.valid_spec }

/-- a skipping scan over alphabet/skip characters never fails, and is the strict
    scan of the filtered input -/
theorem scan_skip (e : Enc) :
    ∀ (s : List UInt8) (need pos pos' : Nat),
      (∀ c ∈ s, (e.digit? c).isSome ∨ e.isSkip c = true) →
      ∃ ds rest, scanBlock e need s pos = .ok (ds, rest) ∧
        scanBlock e.strict need (filterSkip e s) pos' = .ok (ds, filterSkip e rest) ∧
        rest <:+ s ∧ (0 < need → s ≠ [] → rest.length < s.length) := by
  intro s
  induction s with
  | nil =>
    intro need pos pos' _
    refine ⟨[], [], ?_, ?_, List.suffix_refl _, ?_⟩
    · rw [scanBlock]
    · show scanBlock e.strict need [] pos' = _
      rw [scanBlock]; rfl
    · intro _ h; exact absurd rfl h
  | cons c cs ih =>
    intro need pos pos' h
    have hcs : ∀ x ∈ cs, (e.digit? x).isSome ∨ e.isSkip x = true :=
      fun x hx => h x (List.mem_cons_of_mem _ hx)
    cases need with
    | zero =>
      refine ⟨[], c :: cs, scanBlock_zero _ _ _, scanBlock_zero _ _ _, List.suffix_refl _, ?_⟩
      intro h; omega
    | succ n =>
      cases hdig : e.digit? c with
      | some d =>
        have hdig' : e.strict.digit? c = some d := hdig
        rw [filterSkip_cons_digit e c cs d hdig]
        by_cases hn : n = 0
        · subst hn
          refine ⟨[d], cs, ?_, ?_, List.suffix_cons _ _, ?_⟩
          · rw [scanBlock, hdig]; simp
          · rw [scanBlock, hdig']; simp
          · intro _ _; simp
        · obtain ⟨ds', rest', k1, k2, k3, _⟩ := ih n (pos + 1) (pos' + 1) hcs
          refine ⟨d :: ds', rest', ?_, ?_, k3.trans (List.suffix_cons _ _), ?_⟩
          · rw [scanBlock, hdig]; simp only; rw [if_neg hn, k1]
          · rw [scanBlock, hdig']; simp only; rw [if_neg hn, k2]
          · intro _ _
            have := k3.length_le
            simp; omega
      | none =>
        have hsk : e.isSkip c = true := by
          rcases h c (by simp) with h1 | h1
          · rw [hdig] at h1; simp at h1
          · exact h1
        rw [filterSkip_cons_skip e c cs hdig hsk]
        obtain ⟨ds', rest', k1, k2, k3, _⟩ := ih (n + 1) (pos + 1) pos' hcs
        refine ⟨ds', rest', ?_, k2, k3.trans (List.suffix_cons _ _), ?_⟩
        · rw [scanBlock, hdig]; simp only; rw [if_pos hsk, k1]
        · intro _ _
          have := k3.length_le
          simp; omega

theorem decodeAux_step_toOption (e : Enc) (fuel pos : Nat) (s : List UInt8) (ds : List Nat)
    (rest : List UInt8) (h0 : s ≠ []) (hscan : scanBlock e e.charBlockLen s pos = .ok (ds, rest)) :
    (decodeAux e (fuel + 1) s pos).toOption =
      (decodeBlockDigits e ds).toOption.bind (fun bs =>
        (decodeAux e fuel rest (pos + (s.length - rest.length))).toOption.map
          (fun more => bs ++ more)) := by
  rw [decodeAux_step e fuel pos s ds rest h0 hscan]
  cases decodeBlockDigits e ds with
  | error x => rfl
  | ok bs =>
    cases decodeAux e fuel rest (pos + (s.length - rest.length)) with
    | error x => rfl
    | ok more => rfl

theorem decode_skipping_aux (e : Enc) (he : e.WF) :
    ∀ (fuel fuel' : Nat) (s : List UInt8) (pos pos' : Nat),
      (∀ c ∈ s, (e.digit? c).isSome ∨ e.isSkip c = true) →
      s.length < fuel → (filterSkip e s).length < fuel' →
      (decodeAux e fuel s pos).toOption =
        (decodeAux e.strict fuel' (filterSkip e s) pos').toOption := by
  intro fuel
  induction fuel with
  | zero => intro fuel' s pos pos' _ h; omega
  | succ f ih =>
    intro fuel' s pos pos' h hf hf'
    by_cases h0 : s = []
    · subst h0
      show _ = (decodeAux e.strict fuel' [] pos').toOption
      rw [decodeAux_nil, decodeAux_nil]
    · obtain ⟨ds, rest, k1, k2, k3, k4⟩ := scan_skip e s e.charBlockLen pos pos' h
      have hrestlen := k4 he.cblock_pos h0
      have hrest : ∀ c ∈ rest, (e.digit? c).isSome ∨ e.isSkip c = true :=
        fun c hc => h c (k3.mem hc)
      rw [decodeAux_step_toOption e f pos s ds rest h0 k1]
      by_cases hf0 : filterSkip e s = []
      · rw [hf0] at k2 ⊢
        rw [scanBlock] at k2
        injection k2 with k2
        injection k2 with k2a k2b
        subst k2a
        rw [decodeAux_nil, decodeBlock_nil he,
          ih 1 rest _ 0 hrest (by omega) (by rw [← k2b]; simp), ← k2b, decodeAux_nil]
        rfl
      · cases fuel' with
        | zero => omega
        | succ f' =>
          have hcb : e.strict.charBlockLen = e.charBlockLen := rfl
          rw [decodeAux_step_toOption e.strict f' pos' _ ds (filterSkip e rest) hf0
            (by rw [hcb]; exact k2)]
          obtain ⟨i1, _, _, _, i5⟩ :=
            scan_strict (strict_wf he) (strict_skip e) _ _ pos' ds _ k2
          have hdsne : ds ≠ [] := i5 he.cblock_pos hf0
          have hdspos : 0 < ds.length := List.length_pos_iff.mpr hdsne
          have hlen : (filterSkip e s).length = ds.length + (filterSkip e rest).length := by
            have := congrArg List.length i1
            simpa using this
          have hdb : decodeBlockDigits e.strict ds = decodeBlockDigits e ds := rfl
          rw [hdb, ih f' rest _ (pos' + ((filterSkip e s).length - (filterSkip e rest).length))
            hrest (by omega) (by omega)]

theorem decode_skipping (e : Enc) (he : e.WF) (s : List UInt8)
    (h : ∀ c ∈ s, (e.digit? c).isSome ∨ e.isSkip c = true) :
    (decode e s).toOption = (decode e.strict (filterSkip e s)).toOption := by
  unfold decode
  exact decode_skipping_aux e he _ _ s 0 0 h (Nat.lt_succ_self _) (Nat.lt_succ_self _)

end Saltpack.Proofs
