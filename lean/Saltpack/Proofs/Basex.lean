/-
  Helper lemmas and the proofs behind Props/C10.  (Single Mathlib modules may be
  imported here if needed; Model files stay core-only.)
-/
import Saltpack.Model.Basex
import Saltpack.Proofs.BasexWF

namespace Saltpack.Proofs
open Saltpack Saltpack.Basex

theorem encodeBlock_length (e : Enc) (bs : Bytes) :
    (encodeBlock e bs).length = e.encLen bs.length := by
  sorry

theorem encodeBlock_value (e : Enc) (he : e.WF) (bs : Bytes) (h : bs.length ≤ e.blockLen) :
    natOfDigits e.base (encodeBlockDigits e bs) = natOfBytes bs ∧
    (∀ d ∈ encodeBlockDigits e bs, d < e.base) := by
  sorry

theorem encode_length (e : Enc) (he : e.WF) (bs : Bytes) :
    (encode e bs).length = e.encLen bs.length := by
  sorry

theorem len_helpers_exact (e : Enc) (he : e.WF) :
    (∀ r, r ≤ e.blockLen → 256 ^ r ≤ e.base ^ (e.encLen r) ∧
        (e.encLen r = 0 ∨ e.base ^ (e.encLen r - 1) < 256 ^ r)) ∧
    (∀ c, c ≤ e.charBlockLen → 256 ^ (e.decLen c) ≤ e.base ^ c ∧ e.base ^ c < 256 ^ (e.decLen c + 1)) := by
  sorry

theorem decode_encode (e : Enc) (he : e.WF) (bs : Bytes) :
    decode e (encode e bs) = .ok bs := by
  sorry

theorem decode_canonical (e : Enc) (he : e.WF) (hs : e.skip = []) (s : List UInt8) (bs : Bytes) :
    decode e s = .ok bs → encode e bs = s := by
  sorry

theorem decode_rejects_foreign (e : Enc) (he : e.WF) (hs : e.skip = []) (s : List UInt8)
    (c : UInt8) (hc : c ∈ s) (hd : e.digit? c = none) : ∃ x, decode e s = .error x := by
  sorry

theorem decode_skipping (e : Enc) (he : e.WF) (s : List UInt8)
    (h : ∀ c ∈ s, (e.digit? c).isSome ∨ e.isSkip c = true) :
    (decode e s).toOption = (decode e.strict (filterSkip e s)).toOption := by
  sorry

end Saltpack.Proofs
