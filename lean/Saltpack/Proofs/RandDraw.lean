/-
  Proofs about the bounded draw `u32nStep` / `u32n` / `drawsFrom`
  (Lemire multiply-shift with rejection).  Core Lean only.
-/
import Saltpack.Model.Rand

namespace Saltpack.Proofs.RandDraw
open Saltpack Saltpack.Rand

/-! ### arithmetic helpers -/

/-- ceiling division: `⌈A/n⌉ ≤ v ↔ A ≤ v*n` -/
theorem ceil_le_iff (n A v : Nat) (hn : 0 < n) : (A + n - 1) / n ≤ v ↔ A ≤ v * n := by
  rw [← Nat.lt_succ_iff, Nat.div_lt_iff_lt_mul hn, Nat.succ_mul]
  omega

/-- `⌈(r+1)·W / n⌉ ≤ W` for `r < n` -/
theorem window_bound (W n r : Nat) (hn : 0 < n) (hr : r < n) :
    (r * W + W % n + W / n * n + n - 1) / n ≤ W := by
  rw [ceil_le_iff n _ _ hn]
  have hW : W / n * n + W % n = W := by
    rw [Nat.mul_comm]; exact Nat.div_add_mod _ _
  have h1 : (r + 1) * W ≤ n * W := Nat.mul_le_mul_right _ hr
  rw [Nat.mul_comm W n]
  rw [Nat.succ_mul] at h1
  generalize W % n = t at *
  generalize W / n * n = Q at *
  generalize n * W = M at *
  generalize r * W = R at *
  omega

/-- the threshold computed by the code, `uint32(-n) % n`, is `2^32 % n` -/
theorem thresh_eq (n : Nat) (hn' : n < 2 ^ 32) : (2 ^ 32 - n) % n = 2 ^ 32 % n :=
  (Nat.mod_eq_sub_mod (Nat.le_of_lt hn')).symm

/-- the step, with the two-level test collapsed to one comparison -/
theorem step_eq (n v : Nat) (hn : 0 < n) (hn' : n < 2 ^ 32) :
    u32nStep n v =
      if (v * n) % 2 ^ 32 < 2 ^ 32 % n then none else some (v * n / 2 ^ 32) := by
  have ht : 2 ^ 32 % n < n := Nat.mod_lt _ hn
  unfold u32nStep
  simp only [thresh_eq n hn']
  by_cases h1 : (v * n) % 2 ^ 32 < n
  · simp only [h1, if_true]
  · have h2 : ¬ (v * n) % 2 ^ 32 < 2 ^ 32 % n := by omega
    simp only [h1, h2, if_false]

theorem step_reject_iff (n v : Nat) (hn : 0 < n) (hn' : n < 2 ^ 32) :
    u32nStep n v = none ↔ (v * n) % 2 ^ 32 < 2 ^ 32 % n := by
  rw [step_eq n v hn hn']
  by_cases h : (v * n) % 2 ^ 32 < 2 ^ 32 % n
  · simp [h]
  · simp [h]

/-- whatever the step returns is the high word of the product -/
theorem step_some (n v r : Nat) : u32nStep n v = some r → r = v * n / 2 ^ 32 := by
  unfold u32nStep
  intro h
  by_cases h1 : (v * n) % 2 ^ 32 < n
  · by_cases h2 : (v * n) % 2 ^ 32 < (2 ^ 32 - n) % n
    · simp [h1, h2] at h
    · simp only [h1, h2, if_true, if_false, Option.some.injEq] at h
      exact h.symm
  · simp only [h1, if_false, Option.some.injEq] at h
    exact h.symm

theorem step_range (n v r : Nat) (hn : 0 < n) (hv : v < 2 ^ 32) :
    u32nStep n v = some r → r < n := by
  intro h
  rw [step_some n v r h, Nat.div_lt_iff_lt_mul (by decide : 0 < 2 ^ 32), Nat.mul_comm n]
  exact Nat.mul_lt_mul_of_pos_right hv hn

/-- acceptance with result `r` as a window on the product `v*n` -/
theorem step_some_iff (n v r : Nat) (hn : 0 < n) (hn' : n < 2 ^ 32) :
    u32nStep n v = some r ↔
      r * 2 ^ 32 + 2 ^ 32 % n ≤ v * n ∧ ¬ (r * 2 ^ 32 + 2 ^ 32 % n + 2 ^ 32 / n * n ≤ v * n) := by
  rw [step_eq n v hn hn']
  have hW : 2 ^ 32 / n * n + 2 ^ 32 % n = 2 ^ 32 := by
    rw [Nat.mul_comm]; exact Nat.div_add_mod _ _
  generalize 2 ^ 32 % n = t at *
  generalize 2 ^ 32 / n * n = Q at *
  generalize v * n = P at *
  by_cases h : P % 2 ^ 32 < t
  · simp only [h, if_true, reduceCtorEq, false_iff]
    omega
  · simp only [h, if_false, Option.some.injEq]
    omega

theorem step_interval (n r : Nat) (hn : 0 < n) (hn' : n < 2 ^ 32) (hr : r < n) :
    ∃ lo, lo + 2 ^ 32 / n ≤ 2 ^ 32 ∧
      ∀ v, v < 2 ^ 32 → (u32nStep n v = some r ↔ lo ≤ v ∧ v < lo + 2 ^ 32 / n) := by
  have hhi : (r * 2 ^ 32 + 2 ^ 32 % n + 2 ^ 32 / n * n + n - 1) / n
      = (r * 2 ^ 32 + 2 ^ 32 % n + n - 1) / n + 2 ^ 32 / n := by
    have e : r * 2 ^ 32 + 2 ^ 32 % n + 2 ^ 32 / n * n + n - 1
        = (r * 2 ^ 32 + 2 ^ 32 % n + n - 1) + 2 ^ 32 / n * n := by omega
    rw [e, Nat.add_mul_div_right _ _ hn]
  refine ⟨(r * 2 ^ 32 + 2 ^ 32 % n + n - 1) / n, ?_, ?_⟩
  · -- `lo + q ≤ 2^32`, i.e. `⌈(r+1)·2^32 / n⌉ ≤ 2^32`
    rw [← hhi]
    exact window_bound (2 ^ 32) n r hn hr
  · intro v _
    rw [step_some_iff n v r hn hn', ← ceil_le_iff n _ v hn, ← ceil_le_iff n _ v hn, hhi]
    omega

/-! ### counting -/

theorem length_filter_range_window (lo q N : Nat) :
    ((List.range N).filter (fun v => decide (lo ≤ v ∧ v < lo + q))).length
      = min (lo + q) N - min lo N := by
  induction N with
  | zero => simp
  | succ N ih =>
    rw [List.range_succ, List.filter_append, List.length_append, ih]
    by_cases h : lo ≤ N ∧ N < lo + q
    · simp only [List.filter_cons, h, and_self, decide_true, if_true, List.filter_nil,
        List.length_cons, List.length_nil]
      omega
    · simp only [List.filter_cons, h, decide_false, List.filter_nil, Bool.false_eq_true,
        if_false, List.length_nil]
      omega

theorem step_count (n r : Nat) (hn : 0 < n) (hn' : n < 2 ^ 32) (hr : r < n) :
    ((List.range (2 ^ 32)).filter (fun v => u32nStep n v = some r)).length = 2 ^ 32 / n := by
  obtain ⟨lo, hlo, hiff⟩ := step_interval n r hn hn' hr
  have hc : (List.range (2 ^ 32)).filter (fun v => decide (u32nStep n v = some r))
      = (List.range (2 ^ 32)).filter (fun v => decide (lo ≤ v ∧ v < lo + 2 ^ 32 / n)) := by
    apply List.filter_congr
    intro v hv
    rw [List.mem_range] at hv
    exact decide_eq_decide.mpr (hiff v hv)
  rw [hc, length_filter_range_window]
  generalize 2 ^ 32 / n = q at *
  omega

/-! ### draws from a source -/

theorem u32n_spec (n : Nat) (hn : 0 < n) (vs : List Nat) (hv : ∀ v ∈ vs, v < 2 ^ 32)
    (j : Nat) (rest : List Nat) :
    u32n n vs = some (j, rest) → j < n ∧ ∀ v ∈ rest, v < 2 ^ 32 := by
  induction vs with
  | nil => intro h; simp [u32n] at h
  | cons v vs ih =>
    intro h
    unfold u32n at h
    have hv0 : v < 2 ^ 32 := hv v (List.mem_cons_self)
    have hvs : ∀ w ∈ vs, w < 2 ^ 32 := fun w hw => hv w (List.mem_cons_of_mem _ hw)
    cases hs : u32nStep n v with
    | none =>
      rw [hs] at h
      exact ih hvs h
    | some r =>
      rw [hs] at h
      simp only [Option.some.injEq, Prod.mk.injEq] at h
      obtain ⟨h1, h2⟩ := h
      subst h1 h2
      exact ⟨step_range n v r hn hv0 hs, hvs⟩

theorem drawsFrom_valid (k : Nat) (hk : k + 1 < 2 ^ 32) (vs js rest : List Nat)
    (hv : ∀ v ∈ vs, v < 2 ^ 32) :
    drawsFrom k vs = some (js, rest) → ValidDraws k js := by
  induction k generalizing vs js rest with
  | zero =>
    intro h
    simp only [drawsFrom, Option.some.injEq, Prod.mk.injEq] at h
    simp [ValidDraws, h.1.symm]
  | succ k ih =>
    intro h
    unfold drawsFrom at h
    cases hu : u32n (k + 2) vs with
    | none => rw [hu] at h; simp at h
    | some p =>
      obtain ⟨j, vs'⟩ := p
      simp only [hu] at h
      obtain ⟨hj, hvs'⟩ := u32n_spec (k + 2) (by omega) vs hv j vs' hu
      cases hd : drawsFrom k vs' with
      | none => simp [hd] at h
      | some p' =>
        obtain ⟨js1, rest1⟩ := p'
        simp only [hd] at h
        simp only [Option.some.injEq, Prod.mk.injEq] at h
        obtain ⟨h1, h2⟩ := h
        subst h1 h2
        exact ⟨by omega, ih (by omega) vs' js1 rest1 hvs' hd⟩

end Saltpack.Proofs.RandDraw
