/-
  go-codec's typed decoders (Model/Codec.lean) are LOCAL: what a decoder reads
  from the front of `b` it reads, to the same value, from the front of every
  extension `b ++ e` (and with any larger fuel).  Behind `C16_binary_ok_stable`
  now that `Classify.binarySlice` decodes its three fields through `Codec`.

  `Sim d d'`: whenever `d` succeeds on `b`, `d'` succeeds on `b ++ e` with the
  same value and the rest extended by `e`.  Closed under `pure`, `>>=`, `if`;
  holds for the primitives; by induction on the fuel for `swallow`/`gen`.
-/
import Saltpack.Model.Codec
import Saltpack.Proofs.Codec
import Saltpack.Proofs.MsgpackMono
import Saltpack.Proofs.CodecTypes
import Saltpack.Model.Classify

namespace Saltpack.Proofs.CodecMono
open Saltpack Saltpack.Msgpack Saltpack.Codec Saltpack.Proofs.CodecP

def Sim {α : Type} (d d' : Dec α) : Prop :=
  ∀ (b : Bytes) (x : α) (r e : Bytes), d b = .ok (x, r) → d' (b ++ e) = .ok (x, r ++ e)

theorem Sim.pure {α : Type} (a : α) : Sim (pure a : Dec α) (pure a) := by
  intro b x r e h
  rw [pure_run] at h ⊢
  cases h; rfl

theorem Sim.fail {α : Type} (er : DErr) (d' : Dec α) : Sim (Codec.fail er) d' := by
  intro b x r e h
  cases h

theorem Sim.bad {α : Type} (w : String) (d' : Dec α) : Sim (Codec.bad w) d' := Sim.fail _ _

theorem Sim.bind {α β : Type} {x x' : Dec α} {f f' : α → Dec β} (hx : Sim x x') (hf : ∀ a, Sim (f a) (f' a)) :
    Sim (x >>= f) (x' >>= f') := by
  intro b y r e h
  rw [bind_run] at h
  split at h
  · rename_i a r1 hx1
    rw [bind_ok (hx b a r1 e hx1)]
    exact hf a r1 y r e h
  · cases h

theorem Sim.ite {α : Type} {c : Prop} [Decidable c] {a a' b b' : Dec α} (h1 : c → Sim a a') (h2 : ¬c → Sim b b') :
    Sim (if c then a else b) (if c then a' else b') := by
  by_cases hc : c
  · rw [if_pos hc, if_pos hc]; exact h1 hc
  · rw [if_neg hc, if_neg hc]; exact h2 hc

theorem Sim.map {α β : Type} (g : α → β) {x x' : Dec α} (hx : Sim x x') : Sim (g <$> x) (g <$> x') := by
  intro b y r e h
  rw [map_run] at h
  cases hx1 : x b with
  | error er => rw [hx1] at h; cases h
  | ok p =>
    obtain ⟨a, r1⟩ := p
    rw [hx1] at h
    simp only [Except.ok.injEq, Prod.mk.injEq] at h
    obtain ⟨rfl, rfl⟩ := h
    rw [map_ok (hx b a r1 e hx1)]

theorem Sim.mapConst {α β : Type} (a : β) {x x' : Dec α} (hx : Sim x x') :
    Sim (Functor.mapConst a x) (Functor.mapConst a x') :=
  Sim.map (Function.const α a) hx

theorem sim_readn1 : Sim readn1 readn1 := by
  intro b x r e h
  cases b with
  | nil => cases h
  | cons y t => cases h; rfl

theorem sim_peek1 : Sim peek1 peek1 := by
  intro b x r e h
  cases b with
  | nil => cases h
  | cons y t => cases h; rfl

theorem sim_tryNil : Sim tryNil tryNil := by
  intro b x r e h
  cases b with
  | nil => cases h
  | cons y t =>
    unfold tryNil at h ⊢
    simp only [List.cons_append] at h ⊢
    split at h
    · rename_i hy; cases h; rw [if_pos hy]
    · rename_i hy; cases h; rw [if_neg hy]; rfl

theorem sim_readx (n : Nat) : Sim (readx n) (readx n) := by
  intro b x r e h
  unfold readx at h ⊢
  cases ht : takeN n b with
  | error er => rw [ht] at h; cases h
  | ok p =>
    obtain ⟨x', r'⟩ := p
    rw [ht] at h; cases h
    rw [MpMono.takeN_mono n b x r e ht]; rfl

theorem sim_readBE (w : Nat) : Sim (readBE w) (readBE w) := by
  intro b x r e h
  unfold readBE at h ⊢
  cases ht : readLen w b with
  | error er => rw [ht] at h; cases h
  | ok p =>
    obtain ⟨x', r'⟩ := p
    rw [ht] at h; cases h
    rw [MpMono.readLen_mono w b x r e ht]; rfl


/-- one structural step -/
syntax "sim_step0" : tactic
macro_rules
  | `(tactic| sim_step0) => `(tactic| first
    | exact Sim.pure _ | exact Sim.fail _ _ | exact Sim.bad _ _
    | exact sim_readn1 | exact sim_peek1 | exact sim_tryNil | exact sim_readx _ | exact sim_readBE _
    | assumption
    | refine Sim.ite (fun _ => ?_) (fun _ => ?_)
    | refine Sim.bind ?_ (fun _ => ?_)
    | refine Sim.map _ ?_
    | dsimp only)

syntax "sim_auto0" : tactic
macro_rules
  | `(tactic| sim_auto0) => `(tactic| repeat' sim_step0)

theorem sim_lenBytes (c : Nat) : Sim (lenBytes c) (lenBytes c) := by unfold lenBytes; sim_auto0
theorem sim_lenArr (c : Nat) : Sim (lenArr c) (lenArr c) := by unfold lenArr; sim_auto0
theorem sim_lenMap (c : Nat) : Sim (lenMap c) (lenMap c) := by unfold lenMap; sim_auto0
theorem sim_nonNeg (bits w : Nat) : Sim (nonNeg bits w) (nonNeg bits w) := by unfold nonNeg; sim_auto0
theorem sim_readInt (f : Nat → Int) (w : Nat) : Sim (readInt f w) (readInt f w) := by unfold readInt; sim_auto0

/-- one structural step -/
syntax "sim_step" : tactic
macro_rules
  | `(tactic| sim_step) => `(tactic| first
    | exact Sim.pure _ | exact Sim.fail _ _ | exact Sim.bad _ _
    | exact sim_readn1 | exact sim_peek1 | exact sim_tryNil | exact sim_readx _ | exact sim_readBE _
    | assumption
    | exact sim_lenBytes _ | exact sim_lenArr _ | exact sim_lenMap _ | exact sim_readInt _ _ | exact sim_nonNeg _ _
    | refine Sim.ite (fun _ => ?_) (fun _ => ?_)
    | refine Sim.bind ?_ (fun _ => ?_)
    | refine Sim.map _ ?_
    | dsimp only)

syntax "sim_auto" : tactic
macro_rules
  | `(tactic| sim_auto) => `(tactic| repeat' sim_step)

theorem sim_readArrayStart : Sim readArrayStart readArrayStart := by
  unfold readArrayStart; have := sim_lenArr; sim_auto
theorem sim_readMapStart : Sim readMapStart readMapStart := by
  unfold readMapStart; have := sim_lenMap; sim_auto
theorem sim_decodeUint64 : Sim decodeUint64 decodeUint64 := by
  unfold decodeUint64; have := sim_nonNeg; sim_auto
theorem sim_decodeInt64 : Sim decodeInt64 decodeInt64 := by
  unfold decodeInt64; have := sim_readInt; sim_auto
theorem sim_decodeBool : Sim decodeBool decodeBool := by unfold decodeBool; sim_auto
theorem sim_u8elem : Sim u8elem u8elem := by
  unfold u8elem; have := sim_decodeUint64; sim_auto
theorem sim_u8loop : ∀ (n : Nat) (acc : Bytes), Sim (u8loop n acc) (u8loop n acc)
  | 0, acc => by unfold u8loop; sim_auto
  | n + 1, acc => by
    unfold u8loop
    have := sim_u8elem
    have := fun x => sim_u8loop n (x :: acc)
    sim_auto
    exact this _


theorem sim_decodeBytes : Sim decodeBytes decodeBytes := by
  unfold decodeBytes
  refine Sim.bind sim_peek1 (fun bd => ?_)
  cases ctype bd.toNat <;> dsimp only
  all_goals first
    | exact Sim.bad _ _
    | (have := sim_readArrayStart; have := fun n => sim_u8loop n []; sim_auto; exact this _)
    | sim_auto

theorem sim_decBytesTop : Sim decBytesTop decBytesTop := by
  unfold decBytesTop; have := sim_decodeBytes; sim_auto

theorem sim_decodeFloat64 : Sim decodeFloat64 decodeFloat64 := by
  unfold decodeFloat64; have := sim_decodeInt64; sim_auto

theorem sim_extLen (c : Nat) : Sim (extLen c) (extLen c) := by unfold extLen; sim_auto

theorem sim_readKey (f : Nat → GKey) (w : Nat) : Sim (readKey f w) (readKey f w) := by unfold readKey; sim_auto

theorem sim_nakedScalar (c : Nat) : Sim (nakedScalar c) (nakedScalar c) := by
  unfold nakedScalar
  repeat' (first | exact sim_readKey _ _ | sim_step)

theorem sim_nakedExt (c : Nat) : Sim (nakedExt c) (nakedExt c) := by
  unfold nakedExt
  repeat' (first | exact sim_extLen _ | sim_step)


/-! ### the fuel-recursive decoders -/

structure AllSim (f f' : Nat) : Prop where
  gen : ∀ rem, Sim (Codec.gen f rem) (Codec.gen f' rem)
  genArr : ∀ rem n, Sim (Codec.genArr f rem n) (Codec.genArr f' rem n)
  genMap : ∀ rem n keys, Sim (Codec.genMap f rem n keys) (Codec.genMap f' rem n keys)
  swallow : ∀ rem, Sim (Codec.swallow f rem) (Codec.swallow f' rem)
  swallowN : ∀ rem n, Sim (Codec.swallowN f rem n) (Codec.swallowN f' rem n)

syntax "sim_rec" : tactic
macro_rules
  | `(tactic| sim_rec) => `(tactic| repeat' (first
      | exact sim_nakedScalar _ | exact sim_nakedExt _ | exact sim_decodeBytes | exact sim_readArrayStart
      | exact sim_readMapStart | exact sim_decodeInt64 | exact sim_decodeUint64 | exact sim_decodeBool
      | exact sim_decodeFloat64
      | exact AllSim.gen ‹_› _ | exact AllSim.genArr ‹_› _ _ | exact AllSim.genMap ‹_› _ _ _
      | exact AllSim.swallow ‹_› _ | exact AllSim.swallowN ‹_› _ _
      | sim_step
      | (simp only [Functor.discard])
      | refine Sim.mapConst _ ?_
      | (split <;> try dsimp only)))

theorem allSim : ∀ (f f' : Nat), f ≤ f' → AllSim f f'
  | 0, f', _ => by
    refine ⟨?_, ?_, ?_, ?_, ?_⟩
    · intro rem; rw [Codec.gen]; exact Sim.fail _ _
    · intro rem n; rw [Codec.genArr]; exact Sim.fail _ _
    · intro rem n keys; rw [Codec.genMap]; exact Sim.fail _ _
    · intro rem; rw [Codec.swallow]; exact Sim.fail _ _
    · intro rem n; rw [Codec.swallowN]; exact Sim.fail _ _
  | f + 1, 0, h => by omega
  | f + 1, g + 1, h => by
    have ih : AllSim f g := allSim f g (by omega)
    refine ⟨?_, ?_, ?_, ?_, ?_⟩
    · intro rem
      rw [Codec.gen, Codec.gen]
      sim_rec

    · intro rem n
      cases n with
      | zero => rw [Codec.genArr, Codec.genArr]; exact Sim.pure _
      | succ n => rw [Codec.genArr, Codec.genArr]; sim_rec
    · intro rem n keys
      cases n with
      | zero => rw [Codec.genMap, Codec.genMap]; exact Sim.pure _
      | succ n =>
        rw [Codec.genMap, Codec.genMap]
        sim_rec

    · intro rem
      rw [Codec.swallow, Codec.swallow]
      sim_rec

    · intro rem n
      cases n with
      | zero => rw [Codec.swallowN, Codec.swallowN]; exact Sim.pure _
      | succ n => rw [Codec.swallowN, Codec.swallowN]; sim_rec


/-! ### structs -/

/-- a field whose decoder is local -/
def GoodField {σ : Type} (f : Field σ) : Prop := ∀ st, Sim (f.dec st) (f.dec st)

theorem sim_fieldVal {σ : Type} (f : Field σ) (hf : GoodField f) (st : σ) : Sim (fieldVal f st) (fieldVal f st) := by
  unfold fieldVal
  have := hf st
  sim_auto

theorem sim_structArr {σ : Type} {fu fu' : Nat} (h : fu ≤ fu') (rem : Nat) :
    ∀ (fs : List (Field σ)) (_ : ∀ f ∈ fs, GoodField f) (n : Nat) (st : σ),
      Sim (structArr fu rem fs n st) (structArr fu' rem fs n st)
  | _, _, 0, st => by
    rw [show ∀ fs, structArr fu rem fs 0 st = pure st from fun fs => by cases fs <;> rfl,
      show ∀ fs, structArr fu' rem fs 0 st = pure st from fun fs => by cases fs <;> rfl]
    exact Sim.pure _
  | [], _, n + 1, st => by
    rw [structArr, structArr]
    have := (allSim fu fu' h).swallowN rem (n + 1)
    sim_auto
  | f :: fs, hfs, n + 1, st => by
    rw [structArr, structArr]
    have h1 := sim_fieldVal f (hfs f (by simp)) st
    have h2 := fun st' => sim_structArr h rem fs (fun g hg => hfs g (by simp [hg])) n st'
    sim_auto
    exact h2 _

theorem mem_insertByName {σ : Type} (f x : Field σ) : ∀ gs, x ∈ insertByName f gs → x = f ∨ x ∈ gs
  | [], hx => by
    rw [insertByName] at hx
    simp only [List.mem_cons, List.not_mem_nil, or_false] at hx
    exact Or.inl hx
  | g :: gs, hx => by
    rw [insertByName] at hx
    split at hx
    · simp only [List.mem_cons] at hx ⊢
      exact hx
    · simp only [List.mem_cons] at hx ⊢
      rcases hx with hx | hx
      · exact Or.inr (Or.inl hx)
      · rcases mem_insertByName f x gs hx with h | h
        · exact Or.inl h
        · exact Or.inr (Or.inr h)

theorem mem_sortFields {σ : Type} (x : Field σ) : ∀ fields, x ∈ sortFields fields → x ∈ fields
  | [], hx => by simp [sortFields] at hx
  | f :: fs, hx => by
    unfold sortFields at hx
    rw [List.foldr_cons] at hx
    rcases mem_insertByName f x _ hx with h | h
    · simp [h]
    · exact List.mem_cons_of_mem _ (mem_sortFields x fs h)

theorem lookupField_mem {σ : Type} (fields : List (Field σ)) (key : Bytes) (f : Field σ)
    (h : lookupField fields key = .found f) : f ∈ fields := by
  unfold lookupField at h
  split at h
  · cases h
  · dsimp only at h
    split at h
    · cases h
    · split at h
      · split at h
        · cases h
        · split at h
          · rename_i f' hf'
            cases h
            exact mem_sortFields _ _ (List.mem_of_getElem? hf')
          · cases h
      · cases h

theorem sim_structMap {σ : Type} {fu fu' : Nat} (h : fu ≤ fu') (rem : Nat) (fields : List (Field σ))
    (hfs : ∀ f ∈ fields, GoodField f) :
    ∀ (n : Nat) (seen : List Bytes) (st : σ),
      Sim (structMap fu rem fields n seen st) (structMap fu' rem fields n seen st)
  | 0, seen, st => by rw [structMap, structMap]; exact Sim.pure _
  | n + 1, seen, st => by
    rw [structMap, structMap]
    refine Sim.bind sim_decodeBytes (fun k => ?_)
    cases hl : lookupField fields k with
    | panic => exact Sim.bad _ _
    | notFound =>
      dsimp only
      have h1 := (allSim fu fu' h).swallow rem
      have h2 := sim_structMap h rem fields hfs n seen st
      sim_auto
    | found f =>
      dsimp only
      have h1 := sim_fieldVal f (hfs f (lookupField_mem fields k f hl)) st
      have h2 := fun st' => sim_structMap h rem fields hfs n (f.name :: seen) st'
      sim_auto
      exact h2 _

theorem sim_kStruct {σ : Type} {fu fu' : Nat} (h : fu ≤ fu') (rem : Nat) (fields : List (Field σ))
    (hfs : ∀ f ∈ fields, GoodField f) (st : σ) :
    Sim (kStruct fu rem fields st) (kStruct fu' rem fields st) := by
  unfold kStruct
  refine Sim.bind sim_peek1 (fun bd => ?_)
  cases ctype bd.toNat <;> dsimp only
  all_goals first
    | exact Sim.bad _ _
    | (have := sim_readArrayStart; have h2 := fun n => sim_structArr h rem fields hfs n st; sim_auto; exact h2 _)
    | (have := sim_readMapStart; have h2 := fun n => sim_structMap h rem fields hfs n [] st; sim_auto; exact h2 _)

theorem versionFields_good : ∀ f ∈ versionFields, GoodField f := by
  intro f hf
  unfold versionFields at hf
  simp only [List.mem_cons, List.not_mem_nil, or_false] at hf
  rcases hf with rfl | rfl
  all_goals
    intro st
    dsimp only
    have := sim_decodeInt64
    sim_auto

theorem fuelFor_mono (b e : Bytes) : fuelFor b ≤ fuelFor (b ++ e) := by
  unfold fuelFor; rw [List.length_append]; omega


/-! ### the three decode calls of `IsSaltpackBinarySlice` -/

open Saltpack.Classify

theorem decName_ext : Sim decName decName := sim_decBytesTop

theorem decMode_ext : Sim decMode decMode := by
  unfold decMode; have := sim_decodeInt64; sim_auto

theorem decVersionTop_ext (b : Bytes) (v : Version) (r e : Bytes) (h : decVersionTop b = .ok (v, r)) :
    decVersionTop (b ++ e) = .ok (v, r ++ e) := by
  have key : Sim (do if (← tryNil) then pure (⟨0, 0⟩ : Version) else kStruct (fuelFor b) 99 versionFields ⟨0, 0⟩ : Dec Version)
      (do if (← tryNil) then pure (⟨0, 0⟩ : Version) else kStruct (fuelFor (b ++ e)) 99 versionFields ⟨0, 0⟩ : Dec Version) := by
    have := sim_kStruct (fuelFor_mono b e) 99 versionFields versionFields_good ⟨0, 0⟩
    sim_auto
  exact key b v r e h

theorem step_ok {α : Type} (why : String) (r : Except DErr (α × Bytes)) (k : α → Bytes → Verdict (Int × Version))
    (z : Int × Version) (h : step why r k = .ok z) : ∃ a rest, r = .ok (a, rest) ∧ k a rest = .ok z := by
  unfold step at h
  split at h
  · rename_i a rest; exact ⟨a, rest, rfl, h⟩
  · cases h
  · cases h

theorem step_unmodelled {α : Type} (why : String) (r : Except DErr (α × Bytes)) (k : α → Bytes → Verdict (Int × Version))
    (w : String) (h : step why r k = .unmodelled w) : w = why ∨ ∃ a rest, k a rest = .unmodelled w := by
  unfold step at h
  split at h
  · rename_i a rest; exact Or.inr ⟨a, rest, h⟩
  · cases h; exact Or.inl rfl
  · cases h

theorem step_ne {α : Type} (why : String) (r : Except DErr (α × Bytes)) (k : α → Bytes → Verdict (Int × Version))
    (hk : ∀ a rest, k a rest ≠ .short ∧ k a rest ≠ .eof) : step why r k ≠ .short ∧ step why r k ≠ .eof := by
  unfold step
  split
  · exact hk _ _
  · exact ⟨nofun, nofun⟩
  · exact ⟨nofun, nofun⟩

/-- what an answer of the classifier's body means, decoder by decoder -/
theorem binBody_sound (rest : Bytes) (t : Int) (v : Version) (h : binBody rest = .ok (t, v)) :
    isMode t = true ∧ ∃ r1 r2 r3,
      decName rest = .ok (Gen.c_sp_FormatName, r1) ∧ decVersionTop r1 = .ok (v, r2) ∧ decMode r2 = .ok (t, r3) := by
  unfold binBody at h
  obtain ⟨fn, r1, h1, h⟩ := step_ok _ _ _ _ h
  split at h
  · cases h
  · rename_i hfn
    have hfn' : fn = Gen.c_sp_FormatName := by simpa using hfn
    subst hfn'
    obtain ⟨ver, r2, h2, h⟩ := step_ok _ _ _ _ h
    obtain ⟨t', r3, h3, h⟩ := step_ok _ _ _ _ h
    split at h
    · rename_i hm
      cases h
      exact ⟨hm, r1, r2, r3, h1, h2, h3⟩
    · cases h

theorem binBody_of (rest r1 r2 r3 : Bytes) (t : Int) (v : Version) (hm : isMode t = true)
    (h1 : decName rest = .ok (Gen.c_sp_FormatName, r1)) (h2 : decVersionTop r1 = .ok (v, r2))
    (h3 : decMode r2 = .ok (t, r3)) : binBody rest = .ok (t, v) := by
  unfold binBody step
  rw [h1]
  dsimp only
  rw [if_neg (by simp), h2]
  dsimp only
  rw [h3]
  dsimp only
  rw [if_pos hm]

/-- **an answer on the bytes after the tags is the answer on every extension** -/
theorem binBody_ok_stable (rest e : Bytes) (t : Int) (v : Version) (h : binBody rest = .ok (t, v)) :
    binBody (rest ++ e) = .ok (t, v) := by
  obtain ⟨hm, r1, r2, r3, h1, h2, h3⟩ := binBody_sound rest t v h
  exact binBody_of _ _ _ _ t v hm (decName_ext _ _ _ e h1) (decVersionTop_ext _ _ _ e h2) (decMode_ext _ _ _ e h3)

/-- the body never answers "short" or "eof" -/
theorem binBody_ne_short (rest : Bytes) : binBody rest ≠ .short ∧ binBody rest ≠ .eof := by
  unfold binBody
  refine step_ne _ _ _ (fun fn r1 => ?_)
  split
  · exact ⟨nofun, nofun⟩
  · refine step_ne _ _ _ (fun ver r2 => step_ne _ _ _ (fun t r3 => ?_))
    split <;> exact ⟨nofun, nofun⟩

/-- the only `unmodelled` reasons of the body (`Codec` does not claim to know) -/
theorem binBody_unmodelled (rest : Bytes) (w : String) (h : binBody rest = .unmodelled w) :
    w = "message type shape" ∨ w = "version shape" ∨ w = "format name shape" := by
  unfold binBody at h
  rcases step_unmodelled _ _ _ _ h with rfl | ⟨fn, r1, h⟩
  · exact Or.inr (Or.inr rfl)
  · split at h
    · cases h
    · rcases step_unmodelled _ _ _ _ h with rfl | ⟨ver, r2, h⟩
      · exact Or.inr (Or.inl rfl)
      · rcases step_unmodelled _ _ _ _ h with rfl | ⟨t, r3, h⟩
        · exact Or.inl rfl
        · split at h <;> cases h

/-- the body on the canonical encoding of the three fields -/
theorem binBody_correct (ma mi t : Nat) (hma : ma < 128) (hmi : mi < 128) (ht : isMode (t : Int) = true) (tail : Bytes) :
    binBody (encode (.str Gen.c_sp_FormatName) ++ (encode (.arr [.int ma, .int mi]) ++ (encode (.int t) ++ tail))) =
      .ok ((t : Int), ⟨ma, mi⟩) := by
  have ht3 : t ≤ 3 := by
    have h0 : mtEncryption = 0 := rfl
    have h1 : mtAttached = 1 := rfl
    have h2 : mtDetached = 2 := rfl
    have h3 : mtSigncryption = 3 := rfl
    unfold isMode at ht
    simp only [Bool.or_eq_true, beq_iff_eq] at ht
    omega
  refine binBody_of _ (encode (.arr [.int ma, .int mi]) ++ (encode (.int t) ++ tail)) (encode (.int t) ++ tail) tail
    t ⟨ma, mi⟩ ht ?_ ?_ ?_
  · obtain ⟨x, t', e, o⟩ := bytesObj_encStr Gen.c_sp_FormatName (by decide) (encode (.arr [.int ma, .int mi]) ++ (encode (.int t) ++ tail))
    rw [show encode (Val.str Gen.c_sp_FormatName) = encStr Gen.c_sp_FormatName from by rw [encode],
      e, decName, decBytesTop, bind_ok (tryNil_other x t' o.ne)]
    simp only [Bool.false_eq_true, if_false]
    exact o.dec
  · have hv := decVersion_encode (fuelFor (encode (.arr [.int ma, .int mi]) ++ (encode (.int t) ++ tail))) 99 ma mi
      ⟨by omega, by omega⟩ ⟨by omega, by omega⟩ [] ⟨by simp, by rw [MsgpackRT.encodeList_nil]; unfold fuelFor; simp, by rw [depthList_nil]; omega⟩
      (by simp) ⟨0, 0⟩ (encode (.int t) ++ tail)
    rw [List.append_nil] at hv
    unfold decVersionTop topStruct
    have hnil : tryNil (encode (.arr [.int ma, .int mi]) ++ (encode (.int t) ++ tail)) =
        .ok (false, encode (.arr [.int ma, .int mi]) ++ (encode (.int t) ++ tail)) := by
      rw [show encode (Val.arr [.int ma, .int mi]) = encArrayHdr 2 ++ encode.encodeList [.int ma, .int mi] from by
        rw [encode]; rfl, List.append_assoc]
      exact tryNil_arr _ (by decide) _
    show (tryNil >>= fun c => if c = true then pure (⟨0, 0⟩ : Version) else kStruct _ 99 versionFields ⟨0, 0⟩) _ = _
    rw [bind_ok hnil]
    simp only [Bool.false_eq_true, if_false]
    exact hv
  · obtain ⟨x, t', e, o⟩ := intObj_encInt (t : Int) (by omega) (by omega) tail
    rw [show encode (Val.int (t : Int)) = encInt (t : Int) from by rw [encode],
      e, decMode, bind_ok (tryNil_other x t' o.ne)]
    simp only [Bool.false_eq_true, if_false]
    exact o.dec

end Saltpack.Proofs.CodecMono
