/-
  Exact forms of the key-usage facts behind Props/C12:

  * what a decrypting receiver asks of long-term keys, as a function of the
    header it was handed: every unbox nonce is `Nonce.payloadKeyBox version j`
    for a recipient index `j` below the header's recipient count, and the
    ciphertext is that entry's box (so no nonce byte and no other ciphertext is
    ever taken from the message);
  * the exact byte strings signing keys are asked to sign;
  * coherence of the stand-alone sender logs (`Encrypt.senderCalls`,
    `Sign.signCalls`, `Signcrypt.signCalls`) with the values the sender models
    actually compute.

  Core Lean only.
-/
import Saltpack.Proofs.Calls

namespace Saltpack.Proofs
open Saltpack

/-! ## C12, receivers: exact calls -/

/-- `j` is a recipient index of the header, `n` the payload-key-box nonce of
    that *index* and `ct` the box of that entry -/
def PayloadBoxOf (h : EncHeader) (n ct : Bytes) : Prop :=
  ∃ j, j < h.receivers.length ∧ Nonce.payloadKeyBox h.version j = .ok n ∧
    ct = (h.receivers.getD j default).box

/-- `n` is one of the MAC-key nonces of header hash `hh` for recipient index `j` -/
def MacKeyNonceOf (hh : Bytes) (v : Version) (j : Nat) (n : Bytes) : Prop :=
  (v.major = 1 ∧ n = Nonce.macKeyBoxV1 hh) ∨ (v.major = 2 ∧ ∃ e : Bool, n = Nonce.macKeyBoxV2 hh e j)

/-- what a decrypting receiver that was handed header `h` (with hash `hh`) may
    ask of long-term keys — exact form.  The peer key of every unbox /
    precomputation is the header's ephemeral key as imported by the keyring. -/
def DecCallExact (kr : Keyring) (hh : Bytes) (h : EncHeader) : KeyCall → Prop
  | .unbox _ pk n ct => kr.importBoxEphemeralKey h.ephemeral = some pk ∧ PayloadBoxOf h n ct
  | .sharedUnbox sk pk n ct =>
    sk ∈ kr.getAllBoxSecretKeys ∧ kr.importBoxEphemeralKey h.ephemeral = some pk ∧ PayloadBoxOf h n ct
  | .box _ _ n m => m = zeros 32 ∧ ∃ j, j < h.receivers.length ∧ MacKeyNonceOf hh h.version j n
  | .precompute sk pk => sk ∈ kr.getAllBoxSecretKeys ∧ kr.importBoxEphemeralKey h.ephemeral = some pk
  | .sharedBox _ _ _ _ => False
  | .sign _ _ => False

/-- the exact form implies the nonce-shape form -/
theorem DecCallExact.toOK {kr : Keyring} {hh : Bytes} {h : EncHeader} {c : KeyCall}
    (hc : DecCallExact kr hh h c) : DecCallOK c := by
  cases c with
  | unbox _ _ n ct =>
    obtain ⟨_, j, _, hn, _⟩ := hc
    exact Calls.payloadKeyBox_ok hn
  | sharedUnbox _ _ n ct =>
    obtain ⟨_, _, j, _, hn, _⟩ := hc
    exact Calls.payloadKeyBox_ok hn
  | box _ _ n m => exact hc.1
  | precompute _ _ => exact True.intro
  | sharedBox _ _ _ _ => exact hc
  | sign _ _ => exact hc

/-- like `DecCallExact`, with a side condition on the recipient index of `Box`
    calls (used to tie it to the position of the matched entry) -/
def DecCallAt (kr : Keyring) (hh : Bytes) (h : EncHeader) (posOK : Nat → Prop) : KeyCall → Prop
  | .unbox _ pk n ct => kr.importBoxEphemeralKey h.ephemeral = some pk ∧ PayloadBoxOf h n ct
  | .sharedUnbox sk pk n ct =>
    sk ∈ kr.getAllBoxSecretKeys ∧ kr.importBoxEphemeralKey h.ephemeral = some pk ∧ PayloadBoxOf h n ct
  | .box _ _ n m => m = zeros 32 ∧ ∃ j, j < h.receivers.length ∧ posOK j ∧ MacKeyNonceOf hh h.version j n
  | .precompute sk pk => sk ∈ kr.getAllBoxSecretKeys ∧ kr.importBoxEphemeralKey h.ephemeral = some pk
  | .sharedBox _ _ _ _ => False
  | .sign _ _ => False

theorem DecCallAt.toExact {kr : Keyring} {hh : Bytes} {h : EncHeader} {posOK : Nat → Prop} {c : KeyCall}
    (hc : DecCallAt kr hh h posOK c) : DecCallExact kr hh h c := by
  cases c with
  | unbox _ _ n ct => exact hc
  | sharedUnbox _ _ n ct => exact hc
  | box _ _ n m =>
    obtain ⟨hm, j, hj, _, hn⟩ := hc
    exact ⟨hm, j, hj, hn⟩
  | precompute _ _ => exact hc
  | sharedBox _ _ _ _ => exact hc
  | sign _ _ => exact hc

/-- every call of a log satisfies `p` -/
def Calls.All (p : KeyCall → Prop) (l : List KeyCall) : Prop := ∀ c ∈ l, p c

theorem Calls.All.nil {p : KeyCall → Prop} : Calls.All p [] := fun _ h => absurd h List.not_mem_nil

theorem Calls.All.cons {p : KeyCall → Prop} {c : KeyCall} {l : List KeyCall} (hc : p c) (hl : Calls.All p l) :
    Calls.All p (c :: l) := by
  intro x hx
  rcases List.mem_cons.mp hx with rfl | hx
  · exact hc
  · exact hl x hx

theorem Calls.All.append {p : KeyCall → Prop} {l l' : List KeyCall} (h : Calls.All p l) (h' : Calls.All p l') :
    Calls.All p (l ++ l') := by
  intro x hx
  rcases List.mem_append.mp hx with hx | hx
  · exact h x hx
  · exact h' x hx

theorem Calls.visibleIndices_lt {rs : List RecvKeys} {j : Nat} (h : j ∈ Decrypt.visibleIndices rs) :
    j < rs.length := by
  unfold Decrypt.visibleIndices at h
  obtain ⟨p, hp, rfl⟩ := List.mem_map.mp h
  obtain ⟨x, i⟩ := p
  exact (List.mem_zipIdx' (List.mem_filter.mp hp).1).1

/-- `tryVisibleReceivers`: at most one unbox, of the box of a named entry under
    the nonce of that entry's index; the reported position is that index -/
theorem Calls.tryVisible_exact (P : Prims) (kr : Keyring) (hh : Bytes) (h : EncHeader) (posOK : Nat → Prop) (eph : Bytes)
    (heph : kr.importBoxEphemeralKey h.ephemeral = some eph) :
    Calls.All (DecCallAt kr hh h posOK) (Decrypt.tryVisible P kr h eph).1 ∧
    ∀ sk pk pos, (Decrypt.tryVisible P kr h eph).2 = .ok (some (sk, pk, pos)) → pos < h.receivers.length := by
  unfold Decrypt.tryVisible
  simp only
  split
  · exact ⟨Calls.All.nil, fun _ _ _ hr => by cases hr⟩
  · split
    · exact ⟨Calls.All.nil, fun _ _ _ hr => by cases hr⟩
    · split
      · exact ⟨Calls.All.nil, fun _ _ _ hr => by cases hr⟩
      · rename_i orig horig
        have hlt : orig < h.receivers.length := Calls.visibleIndices_lt (List.mem_of_getElem? horig)
        split
        · exact ⟨Calls.All.nil, fun _ _ _ hr => by cases hr⟩
        · rename_i nonce hn
          have hok : ∀ a, Calls.All (DecCallAt kr hh h posOK)
              [KeyCall.unbox a eph nonce (h.receivers.getD orig default).box] :=
            fun _ => Calls.All.cons ⟨heph, orig, hlt, hn, rfl⟩ Calls.All.nil
          split
          · exact ⟨hok _, fun _ _ _ hr => by cases hr⟩
          · split
            · exact ⟨hok _, fun _ _ _ hr => by cases hr⟩
            · refine ⟨hok _, fun _ _ _ hr => ?_⟩
              cases hr
              exact hlt

theorem Calls.tryHiddenOne_exact (P : Prims) (kr : Keyring) (hh : Bytes) (h : EncHeader) (posOK : Nat → Prop) (sk eph : Bytes)
    (hsk : sk ∈ kr.getAllBoxSecretKeys)
    (heph : kr.importBoxEphemeralKey h.ephemeral = some eph) (l : List (RecvKeys × Nat))
    (hl : ∀ p ∈ l, p.2 < h.receivers.length ∧ p.1 = h.receivers.getD p.2 default) :
    Calls.All (DecCallAt kr hh h posOK) (Decrypt.tryHiddenOne P h.version sk eph l).1 ∧
    ∀ pk pos, (Decrypt.tryHiddenOne P h.version sk eph l).2 = .ok (some (pk, pos)) → pos < h.receivers.length := by
  induction l with
  | nil => exact ⟨Calls.All.nil, fun _ _ hr => by cases hr⟩
  | cons p rest ih =>
    obtain ⟨r, i⟩ := p
    have ih := ih (fun p hp => hl p (List.mem_cons_of_mem _ hp))
    obtain ⟨hi, hr⟩ := hl (r, i) List.mem_cons_self
    simp only at hi hr
    rw [Decrypt.tryHiddenOne]
    split
    · split
      · exact ⟨Calls.All.nil, fun _ _ hr => by cases hr⟩
      · rename_i nonce hn
        have hc : DecCallAt kr hh h posOK (KeyCall.sharedUnbox sk eph nonce r.box) :=
          ⟨hsk, heph, i, hi, hn, by rw [hr]⟩
        simp only
        split
        · exact ⟨Calls.All.cons hc ih.1, ih.2⟩
        · split
          · exact ⟨Calls.All.cons hc Calls.All.nil, fun _ _ hr => by cases hr⟩
          · refine ⟨Calls.All.cons hc Calls.All.nil, fun _ _ hr => ?_⟩
            cases hr
            exact hi
    · exact ih

theorem Calls.zipIdx_entries (rs : List RecvKeys) :
    ∀ p ∈ rs.zipIdx, p.2 < rs.length ∧ p.1 = rs.getD p.2 default := by
  intro p hp
  obtain ⟨x, i⟩ := p
  obtain ⟨hi, hx⟩ := List.mem_zipIdx' hp
  refine ⟨hi, ?_⟩
  simp only [List.getD_eq_getElem?_getD, List.getElem?_eq_getElem hi, Option.getD_some]
  exact hx

theorem Calls.tryHidden_exact (P : Prims) (kr : Keyring) (hh : Bytes) (h : EncHeader) (posOK : Nat → Prop) (eph : Bytes)
    (heph : kr.importBoxEphemeralKey h.ephemeral = some eph) (sks : List Bytes)
    (hsks : ∀ sk ∈ sks, sk ∈ kr.getAllBoxSecretKeys) :
    Calls.All (DecCallAt kr hh h posOK) (Decrypt.tryHidden P h eph sks).1 ∧
    ∀ sk pk pos, (Decrypt.tryHidden P h eph sks).2 = .ok (some (sk, pk, pos)) → pos < h.receivers.length := by
  induction sks with
  | nil => exact ⟨Calls.All.nil, fun _ _ _ hr => by cases hr⟩
  | cons sk sks ih =>
    have ih := ih (fun s hs => hsks s (List.mem_cons_of_mem _ hs))
    have hsk := hsks sk List.mem_cons_self
    rw [Decrypt.tryHidden]
    have h1 := Calls.tryHiddenOne_exact P kr hh h posOK sk eph hsk heph h.receivers.zipIdx
      (Calls.zipIdx_entries h.receivers)
    have hl : Calls.All (DecCallAt kr hh h posOK)
        (KeyCall.precompute sk eph :: (Decrypt.tryHiddenOne P h.version sk eph h.receivers.zipIdx).1) :=
      Calls.All.cons ⟨hsk, heph⟩ h1.1
    simp only
    split
    · exact ⟨hl, fun _ _ _ hr => by cases hr⟩
    · rename_i pk i hres
      refine ⟨hl, fun _ _ _ hr => ?_⟩
      cases hr
      exact h1.2 _ _ hres
    · exact ⟨Calls.All.append hl ih.1, ih.2⟩

theorem Calls.macKeyReceiver_exact (P : Prims) (kr : Keyring) (h : EncHeader) (index : Nat)
    (hidx : index < h.receivers.length) (secret pub ePub hh : Bytes) :
    Calls.All (DecCallAt kr hh h (· = index)) (Decrypt.macKeyReceiver P h.version index secret pub ePub hh).1 := by
  unfold Decrypt.macKeyReceiver
  split
  · rename_i h1
    exact Calls.All.cons ⟨rfl, index, hidx, rfl, Or.inl ⟨h1, rfl⟩⟩ Calls.All.nil
  · split
    · rename_i h2
      exact Calls.All.cons ⟨rfl, index, hidx, rfl, Or.inr ⟨h2, false, rfl⟩⟩
        (Calls.All.cons ⟨rfl, index, hidx, rfl, Or.inr ⟨h2, true, rfl⟩⟩ Calls.All.nil)
    · exact Calls.All.nil

/-- `processHeader`: there is one recipient index `pos` such that every `Box`
    of the log is under a MAC-key nonce for `pos`, and a successful run reports
    exactly this `pos` as the position of the matched entry -/
theorem Calls.processHeader_at (P : Prims) (valid : Validator) (kr : Keyring) (hh : Bytes) (h : EncHeader) :
    ∃ pos, Calls.All (DecCallAt kr hh h (· = pos)) (Decrypt.processHeader P valid kr hh h).1 ∧
      ∀ st, (Decrypt.processHeader P valid kr hh h).2 = .ok st → st.position = pos := by
  unfold Decrypt.processHeader
  split
  · exact ⟨0, Calls.All.nil, fun _ hst => by cases hst⟩
  split
  · exact ⟨0, Calls.All.nil, fun _ hst => by cases hst⟩
  rename_i eph heph
  simp only
  have h1 := fun posOK => Calls.tryVisible_exact P kr hh h posOK eph heph
  have h2 := fun posOK => Calls.tryHidden_exact P kr hh h posOK eph heph kr.getAllBoxSecretKeys (fun _ hs => hs)
  split
  · exact ⟨0, (h1 _).1, fun _ hst => by cases hst⟩
  rename_i vis hvis
  have h3 := fun pos hpos sk senderPub => Calls.macKeyReceiver_exact P kr h pos hpos sk senderPub eph hh
  cases vis with
  | some r =>
    obtain ⟨sk, pk, pos⟩ := r
    have hpos : pos < h.receivers.length := (h1 (· = pos)).2 sk pk pos hvis
    have h12 := Calls.All.append (h1 (· = pos)).1 (Calls.All.nil (p := DecCallAt kr hh h (· = pos)))
    refine ⟨pos, ?_⟩
    simp only
    split
    · exact ⟨h12, fun _ hst => by cases hst⟩
    · split
      · exact ⟨h12, fun _ hst => by cases hst⟩
      · split
        · exact ⟨h12, fun _ hst => by cases hst⟩
        · split
          · exact ⟨Calls.All.append h12 (h3 _ hpos _ _), fun _ hst => by cases hst⟩
          · exact ⟨Calls.All.append h12 (h3 _ hpos _ _), fun _ hst => by cases hst; rfl⟩
  | none =>
    simp only
    split
    · exact ⟨0, Calls.All.append (h1 _).1 (h2 _).1, fun _ hst => by cases hst⟩
    · exact ⟨0, Calls.All.append (h1 _).1 (h2 _).1, fun _ hst => by cases hst⟩
    · rename_i sk pk pos hhid
      have hpos : pos < h.receivers.length := (h2 (· = pos)).2 sk pk pos hhid
      have h12 := Calls.All.append (h1 (· = pos)).1 (h2 (· = pos)).1
      refine ⟨pos, ?_⟩
      split
      · exact ⟨h12, fun _ hst => by cases hst⟩
      · split
        · exact ⟨h12, fun _ hst => by cases hst⟩
        · split
          · exact ⟨h12, fun _ hst => by cases hst⟩
          · split
            · exact ⟨Calls.All.append h12 (h3 _ hpos _ _), fun _ hst => by cases hst⟩
            · exact ⟨Calls.All.append h12 (h3 _ hpos _ _), fun _ hst => by cases hst; rfl⟩

theorem Calls.processHeader_exact (P : Prims) (valid : Validator) (kr : Keyring) (hh : Bytes) (h : EncHeader) :
    Calls.All (DecCallExact kr hh h) (Decrypt.processHeader P valid kr hh h).1 := by
  obtain ⟨pos, hall, _⟩ := Calls.processHeader_at P valid kr hh h
  exact fun c hc => (hall c hc).toExact

/-- the `Box` calls of a successful `processHeader` are exactly under the MAC-key
    nonces for the position of the matched entry -/
theorem processHeader_box_position (P : Prims) (valid : Validator) (kr : Keyring) (hh : Bytes) (h : EncHeader)
    (log : List KeyCall) (st : Decrypt.State)
    (hres : Decrypt.processHeader P valid kr hh h = (log, .ok st)) :
    ∀ sk pk n m, KeyCall.box sk pk n m ∈ log →
      m = zeros 32 ∧ st.position < h.receivers.length ∧ MacKeyNonceOf hh h.version st.position n := by
  obtain ⟨pos, hall, hpos⟩ := Calls.processHeader_at P valid kr hh h
  rw [hres] at hall hpos
  have hp : st.position = pos := hpos st rfl
  intro sk pk n m hc
  obtain ⟨hm, j, hj, hjp, hn⟩ := hall _ hc
  have hjp' : j = pos := hjp
  rw [hp, ← hjp']
  exact ⟨hm, hj, hn⟩

/-- **exact key usage of a decrypting receiver** -/
theorem dec_calls_exact (P : Prims) (valid : Validator) (kr : Keyring) (hb : Bytes) (h : EncHeader)
    (ps : PStream EncBlock) :
    ∀ c ∈ (Decrypt.openStream P valid kr (.ok hb h) ps).calls, DecCallExact kr (P.hash hb) h c := by
  show Calls.All _ _
  unfold Decrypt.openStream
  simp only
  have hp := Calls.processHeader_exact P valid kr (P.hash hb) h
  split
  · rename_i log e heq
    rw [heq] at hp; exact hp
  · rename_i log st heq
    rw [heq] at hp; exact hp

/-- an unreadable / undecodable header: no key is touched at all -/
theorem dec_calls_no_header (P : Prims) (valid : Validator) (kr : Keyring) (hr : HeaderRead EncHeader)
    (ps : PStream EncBlock) (hno : ∀ hb h, hr ≠ .ok hb h) :
    (Decrypt.openStream P valid kr hr ps).calls = [] := by
  unfold Decrypt.openStream
  split
  · rfl
  · rfl
  · exact absurd rfl (hno _ _)

/-! ## C12, signcryption receivers: the whole log -/

/-- the log of a signcryption opener is empty, or exactly one `Box` of 32 zero
    bytes under the fixed derived-key nonce per box secret key of the keyring,
    against the header's ephemeral key as imported — no unbox, no nonce or
    ciphertext from the message -/
theorem Calls.sc_processHeader_exact (P : Prims) (kr : Keyring) (res : Signcrypt.Resolver) (hh : Bytes) (h : EncHeader) :
    (Signcrypt.processHeader P kr res hh h).1 = [] ∨
    ∃ eph, kr.importBoxEphemeralKey h.ephemeral = some eph ∧
      (Signcrypt.processHeader P kr res hh h).1 =
        kr.getAllBoxSecretKeys.map (fun sk => KeyCall.box sk eph Nonce.derivedSharedKey (zeros 32)) := by
  unfold Signcrypt.processHeader
  split
  · exact Or.inl rfl
  split
  · exact Or.inl rfl
  rename_i eph heph
  refine Or.inr ⟨eph, heph, ?_⟩
  simp only
  split
  · rfl
  · rfl
  · split
    · rfl
    · split
      · rfl
      · split <;> rfl

theorem sc_calls_exact (P : Prims) (kr : Keyring) (res : Signcrypt.Resolver) (hb : Bytes) (h : EncHeader)
    (ps : PStream SigncryptBlock) :
    (Signcrypt.openStream P kr res (.ok hb h) ps).calls = [] ∨
    ∃ eph, kr.importBoxEphemeralKey h.ephemeral = some eph ∧
      (Signcrypt.openStream P kr res (.ok hb h) ps).calls =
        kr.getAllBoxSecretKeys.map (fun sk => KeyCall.box sk eph Nonce.derivedSharedKey (zeros 32)) := by
  have hp := Calls.sc_processHeader_exact P kr res (P.hash hb) h
  unfold Signcrypt.openStream
  simp only
  split
  · rename_i log e heq
    rw [heq] at hp; exact hp
  · rename_i log st heq
    rw [heq] at hp; exact hp

/-! ## C12, signers: the exact signed strings -/

/-- the 64 bytes an attached signature covers (after the domain string), for
    packet number `n`, chunk `ch`, final flag `f` under header hash `hh` -/
def attachedDigest (P : Prims) (v : Version) (hh : Bytes) (n : Nat) (ch : Bytes) (f : Bool) : Bytes :=
  if v.major = 1 then P.hash (hh ++ be64 n ++ ch) else P.hash (hh ++ be64 n ++ finalByte f ++ ch)

theorem attachedSignatureInput_eq (P : Prims) (v : Version) (hh ch : Bytes) (n : Nat) (f : Bool) (inp : Bytes)
    (h : attachedSignatureInput P v hh ch n f = .ok inp) :
    (v.major = 1 ∨ v.major = 2) ∧ inp = Gen.c_sp_signatureAttachedString ++ attachedDigest P v hh n ch f := by
  unfold attachedSignatureInput at h
  unfold attachedDigest
  split at h
  · rename_i h1
    cases h
    exact ⟨Or.inl h1, by rw [if_pos h1]⟩
  · rename_i h1
    split at h
    · rename_i h2
      cases h
      exact ⟨Or.inr h2, by rw [if_neg h1]⟩
    · cases h

/-- attached signing, exact: every signing call is for the `k`-th element
    `(ch, f)` of the chunk plan and signs the attached domain string followed by
    `SHA-512(hh ‖ be64 (i+k) ‖ [final byte, V2 only] ‖ ch)` -/
theorem attached_sign_inputs_exact (P : Prims) (v : Version) (signer hh : Bytes)
    (plan : List (Bytes × Bool)) (i : Nat) :
    ∀ c ∈ Sign.signCalls P v signer hh plan i,
      ∃ k ch f, plan[k]? = some (ch, f) ∧ (v.major = 1 ∨ v.major = 2) ∧
        c = .sign signer (Gen.c_sp_signatureAttachedString ++ attachedDigest P v hh (i + k) ch f) := by
  induction plan generalizing i with
  | nil => exact fun _ h => absurd h List.not_mem_nil
  | cons p rest ih =>
    obtain ⟨ch, f⟩ := p
    intro c hc
    rw [Sign.signCalls] at hc
    rcases List.mem_append.mp hc with hc | hc
    · split at hc
      · rename_i inp heq
        obtain ⟨hv, hinp⟩ := attachedSignatureInput_eq P v hh ch i f inp heq
        refine ⟨0, ch, f, rfl, hv, ?_⟩
        rw [List.mem_singleton.mp hc, hinp]
        rfl
      · exact absurd hc List.not_mem_nil
    · obtain ⟨k, ch', f', hk, hv, hc'⟩ := ih _ c hc
      refine ⟨k + 1, ch', f', by simpa using hk, hv, ?_⟩
      rw [hc', Nat.add_assoc, Nat.add_comm 1 k]

theorem attachedSignatureInput_of_major (P : Prims) (v : Version) (hv : v.major = 1 ∨ v.major = 2)
    (hh ch : Bytes) (n : Nat) (f : Bool) :
    attachedSignatureInput P v hh ch n f =
      .ok (Gen.c_sp_signatureAttachedString ++ attachedDigest P v hh n ch f) := by
  unfold attachedSignatureInput attachedDigest
  rcases hv with h1 | h2
  · rw [if_pos h1, if_pos h1]
  · have h1 : ¬ v.major = 1 := by omega
    rw [if_neg h1, if_pos h2, if_neg h1]

/-- attached signing, index-aligned: for a version with major 1 or 2 the log has
    exactly one call per planned chunk, and the `k`-th call signs the digest of
    the `k`-th chunk under packet number `i + k` -/
theorem attached_signCalls_index (P : Prims) (v : Version) (hv : v.major = 1 ∨ v.major = 2) (signer hh : Bytes)
    (plan : List (Bytes × Bool)) (i : Nat) :
    Sign.signCalls P v signer hh plan i =
      (plan.zipIdx i).map (fun p => KeyCall.sign signer
        (Gen.c_sp_signatureAttachedString ++ attachedDigest P v hh p.2 p.1.1 p.1.2)) := by
  induction plan generalizing i with
  | nil => rfl
  | cons p rest ih =>
    obtain ⟨ch, f⟩ := p
    rw [Sign.signCalls, attachedSignatureInput_of_major P v hv, ih]
    rfl

/-- signcryption signing, index-aligned (named sender) -/
theorem signcrypt_signCalls_index (P : Prims) (s hh : Bytes) (plan : List (Bytes × Bool)) (i : Nat) :
    Signcrypt.signCalls P (some s) hh plan i =
      (plan.zipIdx i).map (fun p => KeyCall.sign s
        (Gen.c_sp_signatureEncryptedString ++
          (hh ++ Nonce.chunkSigncryption hh p.1.2 p.2 ++ finalByte p.1.2 ++ P.hash p.1.1))) := by
  induction plan generalizing i with
  | nil => rfl
  | cons p rest ih =>
    obtain ⟨ch, f⟩ := p
    rw [Signcrypt.signCalls, ih]
    simp only [List.singleton_append, List.zipIdx_cons, List.map_cons, signcryptionSignatureInput,
      List.append_assoc]

/-- signcryption signing, exact: the `k`-th chunk `(ch, f)` of the plan is signed
    as domain string ‖ `hh` ‖ chunk nonce of `(f, i+k)` ‖ final byte ‖ `SHA-512(ch)` -/
theorem signcrypt_sign_inputs_exact (P : Prims) (sender : Option Bytes) (hh : Bytes)
    (plan : List (Bytes × Bool)) (i : Nat) :
    ∀ c ∈ Signcrypt.signCalls P sender hh plan i,
      ∃ s k ch f, sender = some s ∧ plan[k]? = some (ch, f) ∧
        c = .sign s (Gen.c_sp_signatureEncryptedString ++
              (hh ++ Nonce.chunkSigncryption hh f (i + k) ++ finalByte f ++ P.hash ch)) := by
  induction plan generalizing i with
  | nil => exact fun _ h => absurd h List.not_mem_nil
  | cons p rest ih =>
    obtain ⟨ch, f⟩ := p
    intro c hc
    unfold Signcrypt.signCalls at hc
    rcases List.mem_append.mp hc with hc | hc
    · cases sender with
      | none => exact absurd hc List.not_mem_nil
      | some s =>
        refine ⟨s, 0, ch, f, rfl, rfl, ?_⟩
        rw [List.mem_singleton.mp hc]
        unfold signcryptionSignatureInput
        simp only [List.append_assoc, Nat.add_zero]
    · obtain ⟨s, k, ch', f', hs, hk, hc'⟩ := ih _ c hc
      refine ⟨s, k + 1, ch', f', hs, by simpa using hk, ?_⟩
      rw [hc', Nat.add_assoc, Nat.add_comm 1 k]

/-- detached signing, exact -/
theorem detached_sign_input_exact (P : Prims) (hh msg : Bytes) :
    detachedSignatureInput P hh msg = Gen.c_sp_signatureDetachedString ++ P.hash (hh ++ msg) := rfl

/-! ## C12, senders: the logs list exactly the key operations the models perform -/

/-- the value a logged `Sign` call returns -/
def Calls.sigOf (P : Prims) : KeyCall → Bytes
  | .sign k inp => P.sign k inp
  | _ => []

/-- the value a logged `Box` call returns -/
def Calls.boxOf (P : Prims) : KeyCall → Bytes
  | .box sk pk n m => P.box sk pk n m
  | _ => []

/-- bytes 16..48 of a box (`computeMACKeySingle`) -/
def Calls.macKeyOfBox (b : Bytes) : Bytes := (b.drop 16).take 32

/-- attached signatures: the blocks are, in order, exactly
    ⟨result of the `k`-th logged `Sign` call, `k`-th chunk, `k`-th flag⟩ — one
    call per packet, none besides -/
theorem sign_blockStructs_coherent (P : Prims) (v : Version) (signer hh : Bytes)
    (plan : List (Bytes × Bool)) (i : Nat) (blks : List SigBlock)
    (h : Sign.blockStructs P v signer hh plan i = .ok blks) :
    (Sign.signCalls P v signer hh plan i).length = plan.length ∧
    blks = List.zipWith (fun c p => (⟨Calls.sigOf P c, p.1, p.2⟩ : SigBlock))
      (Sign.signCalls P v signer hh plan i) plan := by
  induction plan generalizing i blks with
  | nil =>
    rw [Sign.blockStructs] at h
    cases h
    exact ⟨rfl, rfl⟩
  | cons p rest ih =>
    obtain ⟨ch, f⟩ := p
    rw [Sign.blockStructs] at h
    rw [Sign.signCalls]
    unfold Sign.blockStruct at h
    cases hin : attachedSignatureInput P v hh ch i f with
    | error e => rw [hin] at h; cases h
    | ok inp =>
      rw [hin] at h
      cases hrest : Sign.blockStructs P v signer hh rest (i + 1) with
      | error e => rw [hrest] at h; cases h
      | ok bs =>
        rw [hrest] at h
        cases h
        obtain ⟨h1, h2⟩ := ih _ _ hrest
        refine ⟨by simp [h1], ?_⟩
        simp only [List.singleton_append, List.zipWith_cons_cons]
        rw [← h2]
        rfl

/-- `Sign` (attached): header, header bytes and blocks, with every signature the
    result of the corresponding logged call under the hash of the *emitted*
    header bytes (which contain the fresh nonce) -/
theorem attachedPackets_coherent (P : Prims) (bs : Nat) (v : Version) (signer nonce msg : Bytes)
    (h : SigHeader) (hb : Bytes) (blks : List SigBlock)
    (hok : Sign.attachedPackets P bs v signer nonce msg = .ok (h, hb, blks)) :
    h = Sign.header v (P.sigPub signer) mtAttached nonce ∧ h.nonce = nonce ∧ hb = Msgpack.encode h.toVal ∧
    (Sign.signCalls P v signer (P.hash hb) (Encrypt.chunkPlan v bs msg) 0).length = (Encrypt.chunkPlan v bs msg).length ∧
    blks = List.zipWith (fun c p => (⟨Calls.sigOf P c, p.1, p.2⟩ : SigBlock))
      (Sign.signCalls P v signer (P.hash hb) (Encrypt.chunkPlan v bs msg) 0) (Encrypt.chunkPlan v bs msg) := by
  unfold Sign.attachedPackets at hok
  split at hok
  · cases hok
  simp only at hok
  split at hok
  · cases hok
  rename_i blks' hbl
  cases hok
  obtain ⟨h1, h2⟩ := sign_blockStructs_coherent P v signer _ _ 0 blks hbl
  exact ⟨rfl, rfl, rfl, h1, h2⟩

/-- `SignDetached`: the one signature in the message is `P.sign` of the domain
    string followed by `SHA-512(hash of the emitted header bytes ‖ msg)` -/
theorem detachedWith_coherent (P : Prims) (v : Version) (signer nonce msg m : Bytes)
    (hok : Sign.detachedWith P v signer nonce msg = .ok m) :
    ∃ hb, hb = Msgpack.encode (Sign.header v (P.sigPub signer) mtDetached nonce).toVal ∧
      m = headerPacket hb ++ Msgpack.encBin
        (Calls.sigOf P (.sign signer (Gen.c_sp_signatureDetachedString ++ P.hash (P.hash hb ++ msg)))) := by
  unfold Sign.detachedWith at hok
  split at hok
  · cases hok
  cases hok
  exact ⟨_, rfl, rfl⟩

/-- signcryption with a named sender: block `k` is the secretbox, under the
    chunk nonce of `(flag k, i+k)`, of (result of the `k`-th logged `Sign`
    call ‖ chunk `k`) -/
theorem signcrypt_blockStructs_coherent (P : Prims) (s pk hh : Bytes)
    (plan : List (Bytes × Bool)) (i : Nat) (bs : List SigncryptBlock)
    (h : Signcrypt.blockStructs P (some s) pk hh plan i = .ok bs) :
    (Signcrypt.signCalls P (some s) hh plan i).length = plan.length ∧
    bs = List.zipWith
      (fun c p => (⟨P.sbSeal pk (Nonce.chunkSigncryption hh p.1.2 p.2) (Calls.sigOf P c ++ p.1.1), p.1.2⟩ : SigncryptBlock))
      (Signcrypt.signCalls P (some s) hh plan i) (plan.zipIdx i) := by
  induction plan generalizing i bs with
  | nil =>
    rw [Signcrypt.blockStructs] at h
    cases h
    exact ⟨rfl, rfl⟩
  | cons p rest ih =>
    obtain ⟨ch, f⟩ := p
    rw [Signcrypt.blockStructs] at h
    rw [Signcrypt.signCalls]
    unfold Signcrypt.blockStruct at h
    by_cases hbn : blockNumberOK i = true
    · simp only [hbn, Bool.not_true, Bool.false_eq_true, if_false] at h
      cases hrest : Signcrypt.blockStructs P (some s) pk hh rest (i + 1) with
      | error e => rw [hrest] at h; cases h
      | ok bs' =>
        rw [hrest] at h
        cases h
        obtain ⟨h1, h2⟩ := ih _ _ hrest
        refine ⟨by simp [h1], ?_⟩
        simp only [List.singleton_append, List.zipIdx_cons, List.zipWith_cons_cons]
        rw [← h2]
        rfl
    · simp only [hbn, Bool.not_false, if_true] at h
      cases h

/-- anonymous signcryption: no signing call at all; the signature slot holds
    64 zero bytes -/
theorem signcrypt_blockStructs_coherent_anon (P : Prims) (pk hh : Bytes)
    (plan : List (Bytes × Bool)) (i : Nat) (bs : List SigncryptBlock)
    (h : Signcrypt.blockStructs P none pk hh plan i = .ok bs) :
    Signcrypt.signCalls P none hh plan i = [] ∧
    bs = (plan.zipIdx i).map
      (fun p => (⟨P.sbSeal pk (Nonce.chunkSigncryption hh p.1.2 p.2) (zeros 64 ++ p.1.1), p.1.2⟩ : SigncryptBlock)) := by
  induction plan generalizing i bs with
  | nil =>
    rw [Signcrypt.blockStructs] at h
    cases h
    exact ⟨rfl, rfl⟩
  | cons p rest ih =>
    obtain ⟨ch, f⟩ := p
    rw [Signcrypt.blockStructs] at h
    rw [Signcrypt.signCalls]
    unfold Signcrypt.blockStruct at h
    by_cases hbn : blockNumberOK i = true
    · simp only [hbn, Bool.not_true, Bool.false_eq_true, if_false] at h
      cases hrest : Signcrypt.blockStructs P none pk hh rest (i + 1) with
      | error e => rw [hrest] at h; cases h
      | ok bs' =>
        rw [hrest] at h
        cases h
        obtain ⟨h1, h2⟩ := ih _ _ hrest
        refine ⟨by simp [h1], ?_⟩
        simp only [List.zipIdx_cons, List.map_cons]
        rw [← h2]
    · simp only [hbn, Bool.not_false, if_true] at h
      cases h

/-- `SigncryptSeal`: the blocks of the emitted message carry exactly the results
    of the logged calls, made under the hash of the emitted header bytes -/
theorem signcrypt_sealPackets_coherent (P : Prims) (bsz : Nat) (s : Bytes) (rs : List Signcrypt.Recipient)
    (eph pk pt : Bytes) (h : EncHeader) (hb : Bytes) (blks : List SigncryptBlock)
    (hok : Signcrypt.sealPackets P bsz (some s) rs eph pk pt = .ok (h, hb, blks)) :
    h = Signcrypt.header P (some s) eph pk rs ∧ hb = Msgpack.encode h.toVal ∧
    (Signcrypt.signCalls P (some s) (P.hash hb) (Encrypt.chunkPlan v2 bsz pt) 0).length
      = (Encrypt.chunkPlan v2 bsz pt).length ∧
    blks = List.zipWith
      (fun c p => (⟨P.sbSeal pk (Nonce.chunkSigncryption (P.hash hb) p.1.2 p.2) (Calls.sigOf P c ++ p.1.1), p.1.2⟩ : SigncryptBlock))
      (Signcrypt.signCalls P (some s) (P.hash hb) (Encrypt.chunkPlan v2 bsz pt) 0)
      ((Encrypt.chunkPlan v2 bsz pt).zipIdx 0) := by
  unfold Signcrypt.sealPackets at hok
  split at hok
  · cases hok
  simp only at hok
  split at hok
  · cases hok
  rename_i blks' hbl
  cases hok
  obtain ⟨h1, h2⟩ := signcrypt_blockStructs_coherent P s pk _ _ 0 blks hbl
  exact ⟨rfl, rfl, h1, h2⟩

/-- encryption, V1, named sender `s`: the `k`-th MAC key is bytes 16..48 of the
    result of the `k`-th logged `Box` call -/
theorem macKeysSender_coherent_v1 (P : Prims) (s eSecret hh : Bytes) (rs : List Encrypt.Recipient) (i : Nat)
    (mks : List Bytes) (h : Encrypt.macKeysSender P v1 s eSecret hh rs i = .ok mks) :
    mks = (Encrypt.senderCalls v1 (some s) hh rs i).map (fun c => Calls.macKeyOfBox (Calls.boxOf P c)) := by
  induction rs generalizing i mks with
  | nil =>
    rw [Encrypt.macKeysSender] at h
    cases h
    rfl
  | cons r rs ih =>
    rw [Encrypt.macKeysSender] at h
    rw [Encrypt.senderCalls]
    unfold Encrypt.macKeySender at h
    simp only [if_true] at h
    cases hrest : Encrypt.macKeysSender P v1 s eSecret hh rs (i + 1) with
    | error e => rw [hrest] at h; cases h
    | ok ks =>
      rw [hrest] at h
      cases h
      simp only [if_true, List.singleton_append, List.map_cons]
      rw [← ih _ _ hrest]
      rfl

/-- encryption, V2, named sender `s`: the `k`-th MAC key is
    `SHA-512(bytes 16..48 of the k-th logged Box ‖ the ephemeral key's MAC key)[:32]` -/
theorem macKeysSender_coherent_v2 (P : Prims) (s eSecret hh : Bytes) (rs : List Encrypt.Recipient) (i : Nat)
    (mks : List Bytes) (h : Encrypt.macKeysSender P v2 s eSecret hh rs i = .ok mks) :
    (Encrypt.senderCalls v2 (some s) hh rs i).length = rs.length ∧
    mks = List.zipWith
      (fun c p => sum512Truncate256 P (Calls.macKeyOfBox (Calls.boxOf P c) ++
          macKeySingle P eSecret p.1.pub (Nonce.macKeyBoxV2 hh true p.2)))
      (Encrypt.senderCalls v2 (some s) hh rs i) (rs.zipIdx i) := by
  have hne : ¬ (v2 = v1) := by decide
  induction rs generalizing i mks with
  | nil =>
    rw [Encrypt.macKeysSender] at h
    cases h
    exact ⟨rfl, rfl⟩
  | cons r rs ih =>
    rw [Encrypt.macKeysSender] at h
    rw [Encrypt.senderCalls]
    unfold Encrypt.macKeySender at h
    simp only [if_neg hne, if_true] at h
    cases hrest : Encrypt.macKeysSender P v2 s eSecret hh rs (i + 1) with
    | error e => rw [hrest] at h; cases h
    | ok ks =>
      rw [hrest] at h
      cases h
      obtain ⟨h1, h2⟩ := ih _ _ hrest
      refine ⟨by simp [h1, if_neg hne], ?_⟩
      simp only [if_neg hne, List.singleton_append, List.zipIdx_cons, List.zipWith_cons_cons]
      rw [← h2]
      rfl

/-- an anonymous sender has no long-term key: the log is empty -/
theorem senderCalls_anon (v : Version) (hh : Bytes) (rs : List Encrypt.Recipient) (i : Nat) :
    Encrypt.senderCalls v none hh rs i = [] := by
  induction rs generalizing i with
  | nil => rfl
  | cons r rs ih => rw [Encrypt.senderCalls, ih]; rfl

/-- `Seal`: the MAC keys behind the emitted authenticators are those computed
    (as above) from the logged calls, made under the hash of the emitted header -/
theorem sealPackets_coherent (P : Prims) (bsz : Nat) (v : Version) (sender : Option Bytes)
    (rs : List Encrypt.Recipient) (eph pk pt : Bytes) (h : EncHeader) (hb : Bytes) (blks : List EncBlock)
    (hok : Encrypt.sealPackets P bsz v sender rs eph pk pt = .ok (h, hb, blks)) :
    Encrypt.header P v sender eph pk rs = .ok h ∧ hb = Msgpack.encode h.toVal ∧
    ∃ mks, Encrypt.macKeysSender P v (sender.getD eph) eph (P.hash hb) rs 0 = .ok mks ∧
      Encrypt.blockStructs P v pk (P.hash hb) mks (Encrypt.chunkPlan v bsz pt) 0 = .ok blks := by
  unfold Encrypt.sealPackets at hok
  split at hok
  · cases hok
  split at hok
  · cases hok
  split at hok
  · cases hok
  rename_i h' hh'
  simp only at hok
  split at hok
  · cases hok
  rename_i mks hm
  split at hok
  · cases hok
  rename_i blks' hbl
  cases hok
  exact ⟨hh', rfl, mks, hm, hbl⟩

theorem sealWith_packets (P : Prims) (bsz : Nat) (v : Version) (sender : Option Bytes)
    (rs : List Encrypt.Recipient) (eph pk pt m : Bytes)
    (h : Encrypt.sealWith P bsz v sender rs eph pk pt = .ok m) :
    ∃ hd hb blks body, Encrypt.sealPackets P bsz v sender rs eph pk pt = .ok (hd, hb, blks) ∧
      Encrypt.encodeBlocks v blks = .ok body ∧ m = headerPacket hb ++ body := by
  unfold Encrypt.sealWith at h
  split at h
  · cases h
  rename_i hd hb blks hp
  split at h
  · cases h
  rename_i body hbody
  cases h
  exact ⟨hd, hb, blks, body, hp, hbody, rfl⟩

/-- the log `sealRandCalls` (what the correspondence compares with the logging
    key object) is `senderCalls` under the hash of the header bytes of the very
    message `sealRand` emits, for the recipient order that message uses -/
theorem sealRand_calls_coherent (P : Prims) (bsz : Nat) (v : Version) (sender : Option Bytes)
    (rs : List Encrypt.Recipient) (eph : Encrypt.EphSource) (src : Rand.Source) (pt m : Bytes) (rest : Rand.Source)
    (h : Encrypt.sealRand P bsz v sender rs eph src pt = .ok (m, rest)) :
    ∃ js src1 ephSec pk hd hb blks body,
      Encrypt.shuffleDraws (rs.length - 1) src (src.length + 1) = .ok (js, src1) ∧
      Encrypt.sealPackets P bsz v sender (Rand.shuffle js rs) ephSec pk pt = .ok (hd, hb, blks) ∧
      Encrypt.encodeBlocks v blks = .ok body ∧ m = headerPacket hb ++ body ∧
      Encrypt.sealRandCalls P v sender rs eph src =
        .ok (Encrypt.senderCalls v sender (P.hash hb) (Rand.shuffle js rs) 0) := by
  obtain ⟨js, src1, ephSec, src2, pk, hsd, heph, hpk, hseal⟩ := sealRand_draws P bsz v sender rs eph src pt m rest h
  obtain ⟨hd, hb, blks, body, hp, hbody, hm⟩ := sealWith_packets P bsz v sender _ ephSec pk pt m hseal
  obtain ⟨hhd, hhb, _⟩ := sealPackets_coherent P bsz v sender _ ephSec pk pt hd hb blks hp
  refine ⟨js, src1, ephSec, pk, hd, hb, blks, body, hsd, hp, hbody, hm, ?_⟩
  unfold Encrypt.sealRand at h
  split at h
  · cases h
  rename_i hkv
  split at h
  · cases h
  rename_i hcr
  unfold Encrypt.sealRandCalls
  rw [if_neg hkv, hcr]
  simp only [hsd]
  cases eph with
  | given s =>
    obtain ⟨rfl, rfl⟩ := heph
    simp only [hpk, hhd, hhb]
  | fails => exact absurd heph id
  | fromRand =>
    simp only at heph
    simp only [heph, hpk, hhd, hhb]

end Saltpack.Proofs
