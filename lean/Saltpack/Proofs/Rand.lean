/-
  The proofs behind Props/C19 (bounded draw, shuffle).  The statements live
  here; the arguments are in `Proofs/RandDraw.lean` (Lemire multiply-shift with
  rejection: window on the product, ceiling division, counting) and
  `Proofs/RandShuffle.lean` (Fisher–Yates: `swap` lemmas, permutation,
  injectivity / surjectivity of legal draw vectors).  Core Lean only.
-/
import Saltpack.Model.Rand
import Saltpack.Proofs.RandDraw
import Saltpack.Proofs.RandShuffle

namespace Saltpack.Proofs
open Saltpack Saltpack.Rand

theorem step_reject_iff (n v : Nat) (hn : 0 < n) (hn' : n < 2 ^ 32) :
    u32nStep n v = none ↔ (v * n) % 2 ^ 32 < 2 ^ 32 % n :=
  RandDraw.step_reject_iff n v hn hn'

theorem step_range (n v r : Nat) (hn : 0 < n) (hv : v < 2 ^ 32) :
    u32nStep n v = some r → r < n :=
  RandDraw.step_range n v r hn hv

theorem step_interval (n r : Nat) (hn : 0 < n) (hn' : n < 2 ^ 32) (hr : r < n) :
    ∃ lo, lo + 2 ^ 32 / n ≤ 2 ^ 32 ∧
      ∀ v, v < 2 ^ 32 → (u32nStep n v = some r ↔ lo ≤ v ∧ v < lo + 2 ^ 32 / n) :=
  RandDraw.step_interval n r hn hn' hr

theorem step_count (n r : Nat) (hn : 0 < n) (hn' : n < 2 ^ 32) (hr : r < n) :
    ((List.range (2 ^ 32)).filter (fun v => u32nStep n v = some r)).length = 2 ^ 32 / n :=
  RandDraw.step_count n r hn hn' hr

theorem shuffle_perm {α : Type} (js : List Nat) (l : List α) : (shuffle js l).Perm l :=
  RandShuffle.shuffle_perm js l

theorem shuffle_injective {α : Type} (l : List α) (hl : l.Nodup) (js js' : List Nat)
    (h : ValidDraws (l.length - 1) js) (h' : ValidDraws (l.length - 1) js') :
    shuffle js l = shuffle js' l → js = js' :=
  RandShuffle.shuffle_injective l hl js js' h h'

theorem shuffle_surjective {α : Type} (l l' : List α) (hp : l'.Perm l) :
    ∃ js, ValidDraws (l.length - 1) js ∧ shuffle js l = l' :=
  RandShuffle.shuffle_surjective l l' hp

theorem drawsFrom_valid (k : Nat) (hk : k + 1 < 2 ^ 32) (vs js rest : List Nat)
    (hv : ∀ v ∈ vs, v < 2 ^ 32) :
    drawsFrom k vs = some (js, rest) → ValidDraws k js :=
  RandDraw.drawsFrom_valid k hk vs js rest hv

end Saltpack.Proofs
