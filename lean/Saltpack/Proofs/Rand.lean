/-
  Helper lemmas and the proofs behind Props/C19 (bounded draw, shuffle).
  (Single Mathlib modules may be imported here if needed.)
-/
import Saltpack.Model.Rand

namespace Saltpack.Proofs
open Saltpack Saltpack.Rand

theorem step_reject_iff (n v : Nat) (hn : 0 < n) (hn' : n < 2 ^ 32) :
    u32nStep n v = none ↔ (v * n) % 2 ^ 32 < 2 ^ 32 % n := by
  sorry

theorem step_range (n v r : Nat) (hn : 0 < n) (hv : v < 2 ^ 32) :
    u32nStep n v = some r → r < n := by
  sorry

theorem step_interval (n r : Nat) (hn : 0 < n) (hn' : n < 2 ^ 32) (hr : r < n) :
    ∃ lo, lo + 2 ^ 32 / n ≤ 2 ^ 32 ∧
      ∀ v, v < 2 ^ 32 → (u32nStep n v = some r ↔ lo ≤ v ∧ v < lo + 2 ^ 32 / n) := by
  sorry

theorem step_count (n r : Nat) (hn : 0 < n) (hn' : n < 2 ^ 32) (hr : r < n) :
    ((List.range (2 ^ 32)).filter (fun v => u32nStep n v = some r)).length = 2 ^ 32 / n := by
  sorry

theorem shuffle_perm {α : Type} (js : List Nat) (l : List α) : (shuffle js l).Perm l := by
  sorry

theorem shuffle_injective {α : Type} (l : List α) (hl : l.Nodup) (js js' : List Nat)
    (h : ValidDraws (l.length - 1) js) (h' : ValidDraws (l.length - 1) js') :
    shuffle js l = shuffle js' l → js = js' := by
  sorry

theorem shuffle_surjective {α : Type} (l l' : List α) (hp : l'.Perm l) :
    ∃ js, ValidDraws (l.length - 1) js ∧ shuffle js l = l' := by
  sorry

theorem drawsFrom_valid (k : Nat) (hk : k + 1 < 2 ^ 32) (vs js rest : List Nat)
    (hv : ∀ v ∈ vs, v < 2 ^ 32) :
    drawsFrom k vs = some (js, rest) → ValidDraws k js := by
  sorry

end Saltpack.Proofs
