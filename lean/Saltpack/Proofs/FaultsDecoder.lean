/-
  The armor reader stack over scripts that may end in a FAULT, stage 4: the
  BaseX decoder stream and `readAll`.  `dMax d` = the most the state can still
  release: the pending output, then the block-by-block strict decoding
  (`Basex.decodePrefix`: up to the first block that fails) of the buffered
  characters followed by the characters the filter can still hand out — all
  blocks when a clean end is possible, the whole blocks only when it is not.

  Core Lean only.
-/
import Saltpack.Proofs.FaultsFilter

namespace Saltpack.Proofs
open Saltpack Saltpack.Stream

/-! ## `decodePrefix` -/

/-- `Basex.decodePrefix` with its natural fuel: the bytes of the blocks decoded
    before the first bad block, and the error of that block (if any) -/
def dP (e : Basex.Enc) (s : Bytes) : Bytes × Option Basex.Err := Basex.decodePrefix e (s.length + 1) s

theorem decodePrefix_fuel (e : Basex.Enc) (hN : 0 < e.charBlockLen) : ∀ (fuel fuel' : Nat) (s : Bytes),
    s.length < fuel → s.length < fuel' → Basex.decodePrefix e fuel s = Basex.decodePrefix e fuel' s := by
  intro fuel
  induction fuel with
  | zero => intro fuel' s h; omega
  | succ f ih =>
    intro fuel' s h h'
    cases fuel' with
    | zero => omega
    | succ f' =>
      by_cases h0 : s = []
      · subst h0; simp [Basex.decodePrefix]
      · have hpos : 0 < s.length := List.length_pos_iff.mpr h0
        have hl : (s.drop e.charBlockLen).length < s.length := by rw [List.length_drop]; omega
        rw [Basex.decodePrefix, Basex.decodePrefix, ih f' (s.drop e.charBlockLen) (by omega) (by omega)]

theorem dP_nil (e : Basex.Enc) : dP e [] = ([], none) := by
  simp [dP, Basex.decodePrefix]

theorem dP_step (e : Basex.Enc) (hN : 0 < e.charBlockLen) (s : Bytes) (h0 : s ≠ []) :
    dP e s =
      match Basex.decode e.strict (s.take e.charBlockLen) with
      | .error x => ([], some x)
      | .ok b => (b ++ (dP e (s.drop e.charBlockLen)).1, (dP e (s.drop e.charBlockLen)).2) := by
  have hse : s.isEmpty = false := by cases s with
    | nil => exact absurd rfl h0
    | cons _ _ => rfl
  have hpos : 0 < s.length := List.length_pos_iff.mpr h0
  have hl : (s.drop e.charBlockLen).length < s.length := by rw [List.length_drop]; omega
  unfold dP
  rw [Basex.decodePrefix]
  simp only [hse, Bool.false_eq_true, if_false]
  rw [decodePrefix_fuel e hN s.length ((s.drop e.charBlockLen).length + 1) _ (by omega) (by omega)]
  cases Basex.decode e.strict (s.take e.charBlockLen) with
  | error x => rfl
  | ok b => rfl

/-- **`decodePrefix` at block boundaries** -/
theorem dP_append (e : Basex.Enc) (hN : 0 < e.charBlockLen) : ∀ (k : Nat) (A B : Bytes),
    A.length = k * e.charBlockLen →
    dP e (A ++ B) =
      match dP e A with
      | (p, some x) => (p, some x)
      | (p, none) => (p ++ (dP e B).1, (dP e B).2) := by
  intro k
  induction k with
  | zero =>
    intro A B h
    have : A = [] := List.length_eq_zero_iff.mp (by simpa using h)
    subst this
    simp [dP_nil]
  | succ k ih =>
    intro A B h
    have hge : e.charBlockLen ≤ A.length := by rw [h, Nat.succ_mul]; omega
    have hA0 : A ≠ [] := by
      intro h0; rw [h0] at hge; simp at hge; omega
    have hAB0 : A ++ B ≠ [] := by simp [hA0]
    have h1 : (A ++ B).take e.charBlockLen = A.take e.charBlockLen := List.take_append_of_le_length hge
    have h2 : (A ++ B).drop e.charBlockLen = A.drop e.charBlockLen ++ B := List.drop_append_of_le_length hge
    have h3 : (A.drop e.charBlockLen).length = k * e.charBlockLen := by
      rw [List.length_drop, h, Nat.succ_mul]; omega
    rw [dP_step e hN (A ++ B) hAB0, h1, h2, ih _ B h3, dP_step e hN A hA0]
    cases Basex.decode e.strict (A.take e.charBlockLen) with
    | error x => rfl
    | ok b =>
      simp only
      rcases dP e (A.drop e.charBlockLen) with ⟨p, _ | x⟩
      · simp [List.append_assoc]
      · rfl

/-- on alphabet characters `decodePrefix` agrees with the block-by-block decoder `decS` -/
theorem dP_decS (e : Basex.Enc) (hN : 0 < e.charBlockLen) (s : Bytes) (h : AllDig e s) :
    (∀ y, decS e s = some y → dP e s = (y, none)) ∧ (decS e s = none → ∃ p x, dP e s = (p, some x)) :=
  decodePrefix_spec e hN (s.length + 1) s h (by omega)

/-- the whole blocks of a string -/
def fullBlocks (e : Basex.Enc) (s : Bytes) : Bytes := s.take (s.length / e.charBlockLen * e.charBlockLen)

theorem fullBlocks_append (e : Basex.Enc) (hN : 0 < e.charBlockLen) (k : Nat) (A W : Bytes)
    (hA : A.length = k * e.charBlockLen) : fullBlocks e (A ++ W) = A ++ fullBlocks e W := by
  unfold fullBlocks
  have h1 : (A ++ W).length / e.charBlockLen * e.charBlockLen =
      A.length + W.length / e.charBlockLen * e.charBlockLen := by
    rw [List.length_append, hA, Nat.add_comm, Nat.add_mul_div_right _ _ hN, Nat.add_mul, Nat.add_comm]
  rw [h1, List.take_length_add_append]

/-- the most that can be decoded from the characters `s`: all blocks
    (`complete`: a clean end is possible, so a short final block counts), or
    the whole blocks only; in both cases up to the first block that fails -/
def decMaxOf (e : Basex.Enc) (complete : Bool) (s : Bytes) : Bytes :=
  if complete then (dP e s).1 else (dP e (fullBlocks e s)).1

theorem decMaxOf_blocks (e : Basex.Enc) (hN : 0 < e.charBlockLen) (k : Nat) (A W : Bytes) (fl : Bool)
    (hA : A.length = k * e.charBlockLen) :
    decMaxOf e fl (A ++ W) =
      match dP e A with
      | (p, some _) => p
      | (p, none) => p ++ decMaxOf e fl W := by
  unfold decMaxOf
  cases fl with
  | true =>
    simp only [if_true]
    rw [dP_append e hN k A W hA]
    rcases dP e A with ⟨p, _ | x⟩ <;> rfl
  | false =>
    simp only [Bool.false_eq_true, if_false]
    rw [fullBlocks_append e hN k A W hA, dP_append e hN k A _ hA]
    rcases dP e A with ⟨p, _ | x⟩ <;> rfl

theorem decMaxOf_nil (e : Basex.Enc) (fl : Bool) : decMaxOf e fl [] = [] := by
  unfold decMaxOf fullBlocks
  cases fl <;> simp [dP_nil]

/-! ## the most a decoder state can still release -/

structure DInvG (par : Armor.Params) (d : DState) : Prop where
  fil : FInvG d.fil.f
  buf : AllDig par.enc d.buf
  err : d.err = none

def dMax (par : Armor.Params) (expect : Armor.Expect) (d : DState) : Bytes :=
  d.out ++ decMaxOf par.enc (filMax par expect d.fil).2 (d.buf ++ (filMax par expect d.fil).1)

theorem filMax_end (par : Armor.Params) (expect : Armor.Expect) (s : FilState) (h : s.f.phase = .endOfStream) :
    filMax par expect s = ([], true) := by
  simp [filMax, fMax, h, filOfMax, Basex.filterSkip]

/-! ## `dEmit` when a block fails -/

theorem dEmit_bad (par : Armor.Params) (cap : Nat) (d2 : DState) (nDec : Nat) (hn : nDec ≤ d2.buf.length)
    (p : Bytes) (x : Basex.Err) (h : dP par.enc (d2.buf.take nDec) = (p, some x)) :
    ∃ x' z d3, dEmit par cap d2 nDec = (x', some (.err z), d3) ∧ x' <+: p := by
  have hAl : (d2.buf.take nDec).length = nDec := by rw [List.length_take]; omega
  unfold dP at h
  rw [hAl] at h
  obtain ⟨z, hz⟩ := basexErr_err x
  unfold dEmit
  rw [h]
  simp only [Option.map_some, hz, Option.isNone_some, Bool.and_false, Bool.false_and, Bool.false_eq_true, if_false]
  split
  · exact ⟨_, _, _, rfl, List.take_prefix _ _⟩
  · exact ⟨_, _, _, rfl, List.prefix_refl _⟩

/-! ## `dFill` -/

/-- the outcome of the fill loop -/
def FillG (par : Armor.Params) (expect : Armor.Expect) (d d1 : DState) : Prop :=
  d1.out = d.out ∧
  ((d1.err = none ∧ par.enc.charBlockLen ≤ d1.buf.length ∧ FInvG d1.fil.f ∧
      d1.fil.f.p.text.2 = d.fil.f.p.text.2 ∧
      ∃ xs, d1.buf = d.buf ++ xs ∧ AllDig par.enc xs ∧ fRaw d1.fil.f + xs.length ≤ fRaw d.fil.f ∧
        filMax par expect d.fil = (xs ++ (filMax par expect d1.fil).1, (filMax par expect d1.fil).2)) ∨
   (d1.err = some .eof ∧ d1.fil.f.phase = .endOfStream ∧ FInvG d1.fil.f ∧ d.fil.f.p.text.2 = .eof ∧
      ∃ xs, d1.buf = d.buf ++ xs ∧ AllDig par.enc xs ∧ fRaw d1.fil.f + xs.length ≤ fRaw d.fil.f ∧
        filMax par expect d.fil = (xs, true)) ∨
   (∃ z, d1.err = some (.err z)))

theorem dFill_specG (par : Armor.Params) (expect : Armor.Expect) (nn : Nat) (hnn : par.enc.charBlockLen ≤ nn) :
    ∀ (fuel : Nat) (d : DState), FInvG d.fil.f → AllDig par.enc d.buf → d.err = none →
    par.enc.charBlockLen < fuel + d.buf.length →
    FillG par expect d (dFill par expect nn fuel d) := by
  intro fuel
  induction fuel with
  | zero =>
    intro d hi hb he hf
    rw [dFill_stop par expect nn 0 d (by omega)]
    exact ⟨rfl, Or.inl ⟨he, by omega, hi, rfl, [], by simp, allDig_nil _, by simp, by simp⟩⟩
  | succ fuel ih =>
    intro d hi hb he hf
    by_cases hc : d.buf.length < par.enc.charBlockLen ∧ d.err.isNone = true
    · rw [dFill_go par expect nn fuel d hc]
      rcases hr : filRead par expect (nn - d.buf.length) (fuelOf d.fil.f.p + 4) d.fil with ⟨x, e, s'⟩
      have hstep := filRead_stepG' par expect (nn - d.buf.length) (by omega) d.fil hi x e s' hr
      simp only
      rcases hstep with ⟨rfl, a2, a3, a4, a5, a6, a7⟩ | ⟨rfl, a2, a3, a4, a5, a6, a7⟩ | ⟨z, rfl, _⟩
      · -- more characters
        have hxpos : 0 < x.length := List.length_pos_iff.mpr a2
        have := ih { d with fil := s', buf := d.buf ++ x, err := none } a4 (allDig_append hb a3) rfl
          (by simp only [List.length_append]; omega)
        obtain ⟨o1, o2⟩ := this
        refine ⟨o1, ?_⟩
        rcases o2 with ⟨b1, b2, b3, b4, xs, b5, b6, b7, b8⟩ | ⟨b1, b2, b3, b4, xs, b5, b6, b7, b8⟩ | ⟨z, b1⟩
        · refine Or.inl ⟨b1, b2, b3, by rw [b4]; exact a5, x ++ xs, by rw [b5, List.append_assoc],
            allDig_append a3 b6, ?_, ?_⟩
          · simp only [List.length_append] at b7 ⊢; omega
          · rw [a7]; simp only at b8; rw [b8, List.append_assoc]
        · refine Or.inr (Or.inl ⟨b1, b2, b3, by rw [← a5]; exact b4, x ++ xs, by rw [b5, List.append_assoc],
            allDig_append a3 b6, ?_, ?_⟩)
          · simp only [List.length_append] at b7 ⊢; omega
          · rw [a7]; simp only at b8; rw [b8]
        · exact Or.inr (Or.inr ⟨z, b1⟩)
      · -- clean EOF
        subst a2
        rw [dFill_stop par expect nn fuel _ (by simp)]
        refine ⟨rfl, Or.inr (Or.inl ⟨rfl, a4, a3, a5, [], by simp, allDig_nil _, by simpa using a6, a7⟩)⟩
      · -- error
        rw [dFill_stop par expect nn fuel _ (by simp)]
        exact ⟨rfl, Or.inr (Or.inr ⟨z, rfl⟩)⟩
    · rw [dFill_stop par expect nn (fuel + 1) d hc]
      have : par.enc.charBlockLen ≤ d.buf.length := by
        rw [he] at hc; simp at hc; exact hc
      exact ⟨rfl, Or.inl ⟨he, this, hi, rfl, [], by simp, allDig_nil _, by simp, by simp⟩⟩

/-! ## one call -/

/-- what one `Read` of the decoder may do -/
def DStepG (par : Armor.Params) (expect : Armor.Expect) (d : DState) (x : Bytes) (e : Option RErr) (d' : DState) : Prop :=
  (e = none ∧ x ≠ [] ∧ DInvG par d' ∧ d'.fil.f.p.text.2 = d.fil.f.p.text.2 ∧ dM d' < dM d ∧
      dMax par expect d = x ++ dMax par expect d') ∨
  (e = some .eof ∧ x = [] ∧ d.fil.f.p.text.2 = .eof ∧ dMax par expect d = []) ∨
  (∃ z, e = some (.err z) ∧ x <+: dMax par expect d)

theorem dRead_stepG_out (par : Armor.Params) (expect : Armor.Expect) (cap : Nat) (hcap : 0 < cap) (d : DState)
    (hi : DInvG par d) (ho : d.out ≠ []) (x : Bytes) (e : Option RErr) (d' : DState)
    (h : dRead par expect cap d = (x, e, d')) : DStepG par expect d x e d' := by
  rw [dRead_out par expect cap d hi.err ho] at h
  simp only [Prod.mk.injEq] at h
  obtain ⟨rfl, rfl, rfl⟩ := h
  have hpos : 0 < d.out.length := List.length_pos_iff.mpr ho
  refine Or.inl ⟨rfl, take_ne_nil _ _ hcap ho, ⟨hi.fil, hi.buf, hi.err⟩, rfl, ?_, ?_⟩
  · simp only [dM, List.length_drop]; omega
  · simp only [dMax]
    rw [← List.append_assoc, List.take_append_drop]

theorem dRead_stepG_fill (par : Armor.Params) (he : par.enc.WF) (expect : Armor.Expect) (cap : Nat) (hcap : 0 < cap)
    (d : DState) (hi : DInvG par d) (ho : d.out = []) (x : Bytes) (e : Option RErr) (d' : DState)
    (h : dRead par expect cap d = (x, e, d')) : DStepG par expect d x e d' := by
  rw [dRead_fill par expect cap d hi.err ho] at h
  have hnn := nnOf_ge par he cap
  have hfill := dFill_specG par expect (nnOf par cap) hnn (nnOf par cap + 2) d hi.fil hi.buf hi.err (by omega)
  generalize dFill par expect (nnOf par cap) (nnOf par cap + 2) d = d1 at h hfill
  have hN := he.cblock_pos
  obtain ⟨o1, o2⟩ := hfill
  have hsem0 : dMax par expect d =
      decMaxOf par.enc (filMax par expect d.fil).2 (d.buf ++ (filMax par expect d.fil).1) := by
    simp only [dMax]; rw [ho]; rfl
  rcases o2 with ⟨b1, b2, b3, b4, xs, b5, b6, b7, b8⟩ | ⟨b1, b2, b3, b4, xs, b5, b6, b7, b8⟩ | ⟨z, b1⟩
  · -- at least one whole block buffered
    rw [dDecode_none par cap d1 b1] at h
    have hbuf : AllDig par.enc d1.buf := by rw [b5]; exact allDig_append hi.buf b6
    have hk : 0 < d1.buf.length / par.enc.charBlockLen := Nat.div_pos b2 hN
    have hn0 : 0 < d1.buf.length / par.enc.charBlockLen * par.enc.charBlockLen := Nat.mul_pos hk hN
    have hn : d1.buf.length / par.enc.charBlockLen * par.enc.charBlockLen ≤ d1.buf.length := Nat.div_mul_le_self _ _
    obtain ⟨_, g2⟩ := dEmit_spec par he cap hcap d1 _ hbuf hn0 hn b1 (by rw [o1, ho])
    have hAl : (d1.buf.take (d1.buf.length / par.enc.charBlockLen * par.enc.charBlockLen)).length =
        d1.buf.length / par.enc.charBlockLen * par.enc.charBlockLen := by rw [List.length_take]; omega
    have hsplit := List.take_append_drop (d1.buf.length / par.enc.charBlockLen * par.enc.charBlockLen) d1.buf
    have hsem1 : dMax par expect d = decMaxOf par.enc (filMax par expect d1.fil).2
        (d1.buf.take (d1.buf.length / par.enc.charBlockLen * par.enc.charBlockLen) ++
          (d1.buf.drop (d1.buf.length / par.enc.charBlockLen * par.enc.charBlockLen) ++ (filMax par expect d1.fil).1)) := by
      rw [hsem0, b8]
      simp only
      conv => rhs; rw [← List.append_assoc, hsplit, b5]
      rw [List.append_assoc]
    rw [decMaxOf_blocks par.enc hN _ _ _ _ hAl] at hsem1
    obtain ⟨q1, q2⟩ := dP_decS par.enc hN _ (allDig_take (d1.buf.length / par.enc.charBlockLen * par.enc.charBlockLen) hbuf)
    cases hdec : decS par.enc (d1.buf.take (d1.buf.length / par.enc.charBlockLen * par.enc.charBlockLen)) with
    | none =>
      obtain ⟨p, bx, hp⟩ := q2 hdec
      obtain ⟨x', z, d3, e3, pre⟩ := dEmit_bad par cap d1 _ hn p bx hp
      rw [e3] at h
      simp only [Prod.mk.injEq] at h
      obtain ⟨rfl, rfl, rfl⟩ := h
      refine Or.inr (Or.inr ⟨z, rfl, ?_⟩)
      rw [hsem1, hp]
      exact pre
    | some y =>
      obtain ⟨x', out', d3, e3, r1, r2, r3, r4, r5, r6⟩ := g2 y hdec
      rw [e3] at h
      simp only [Prod.mk.injEq] at h
      obtain ⟨rfl, rfl, rfl⟩ := h
      have hylen := decS_length_le he _ (allDig_take _ hbuf) y hdec
      refine Or.inl ⟨rfl, r1, ⟨by rw [r3]; exact b3, by rw [r5]; exact allDig_drop _ hbuf, r4⟩,
        by rw [r3]; exact b4, ?_, ?_⟩
      · have hx : 0 < x'.length := List.length_pos_iff.mpr r1
        have hyl : y.length = x'.length + out'.length := by rw [r2, List.length_append]
        have hbl : d1.buf.length = d.buf.length + xs.length := by rw [b5, List.length_append]
        simp only [dM, r3, r5, r6, ho, List.length_drop, List.length_nil]
        omega
      · rw [hsem1, q1 y hdec]
        simp only [dMax, r3, r5, r6]
        rw [r2, List.append_assoc]
  · -- the filter reported a clean EOF
    have hbuf : AllDig par.enc d1.buf := by rw [b5]; exact allDig_append hi.buf b6
    have hsem1 : dMax par expect d = (dP par.enc d1.buf).1 := by
      rw [hsem0, b8]
      simp only [decMaxOf, if_true, ← b5]
    by_cases hb0 : d1.buf = []
    · rw [dDecode_eof_empty par cap d1 b1 hb0] at h
      simp only [Prod.mk.injEq] at h
      obtain ⟨rfl, rfl, rfl⟩ := h
      refine Or.inr (Or.inl ⟨rfl, rfl, b4, ?_⟩)
      rw [hsem1, hb0, dP_nil]
    · rw [dDecode_eof par cap d1 b1 hb0] at h
      have hlen : 0 < d1.buf.length := List.length_pos_iff.mpr hb0
      obtain ⟨_, g2⟩ := dEmit_spec par he cap hcap { d1 with err := none } d1.buf.length hbuf hlen
        (Nat.le_refl _) rfl (by show d1.out = []; rw [o1, ho])
      have htk : ({ d1 with err := none } : DState).buf.take d1.buf.length = d1.buf := List.take_length
      rw [htk] at g2
      obtain ⟨q1, q2⟩ := dP_decS par.enc hN _ hbuf
      cases hdec : decS par.enc d1.buf with
      | none =>
        obtain ⟨p, bx, hp⟩ := q2 hdec
        obtain ⟨x', z, d3, e3, pre⟩ := dEmit_bad par cap { d1 with err := none } d1.buf.length (Nat.le_refl _) p bx
          (by rw [htk]; exact hp)
        rw [e3] at h
        simp only [Prod.mk.injEq] at h
        obtain ⟨rfl, rfl, rfl⟩ := h
        refine Or.inr (Or.inr ⟨z, rfl, ?_⟩)
        rw [hsem1, hp]
        exact pre
      | some y =>
        obtain ⟨x', out', d3, e3, r1, r2, r3, r4, r5, r6⟩ := g2 y hdec
        rw [e3] at h
        simp only [Prod.mk.injEq] at h
        obtain ⟨rfl, rfl, rfl⟩ := h
        have hylen := decS_length_le he _ hbuf y hdec
        have hd3buf : d3.buf = [] := by rw [r5]; exact List.drop_length
        have hfil3 : d3.fil = d1.fil := r3
        have ht1 : d1.fil.f.p.text.2 = .eof := by rw [b3.atEnd b2]
        refine Or.inl ⟨rfl, r1, ⟨by rw [hfil3]; exact b3, by rw [hd3buf]; exact allDig_nil _, r4⟩,
          by rw [hfil3, ht1, b4], ?_, ?_⟩
        · have hx : 0 < x'.length := List.length_pos_iff.mpr r1
          have hyl : y.length = x'.length + out'.length := by rw [r2, List.length_append]
          have hbl : d1.buf.length = d.buf.length + xs.length := by rw [b5, List.length_append]
          simp only [dM, hfil3, hd3buf, r6, ho, List.length_nil]
          omega
        · rw [hsem1, q1 y hdec]
          simp only [dMax, hfil3, hd3buf, r6]
          rw [filMax_end par expect d1.fil b2]
          simp [decMaxOf, dP_nil, r2]
  · -- the filter reported an error
    rw [dDecode_err par cap d1 z b1] at h
    simp only [Prod.mk.injEq] at h
    obtain ⟨rfl, rfl, rfl⟩ := h
    exact Or.inr (Or.inr ⟨z, rfl, List.nil_prefix⟩)

/-- **one `decoder.Read`** with any positive buffer size, over a script that
    may end in a fault -/
theorem dRead_stepG (par : Armor.Params) (he : par.enc.WF) (expect : Armor.Expect) (cap : Nat) (hcap : 0 < cap)
    (d : DState) (hi : DInvG par d) (x : Bytes) (e : Option RErr) (d' : DState)
    (h : dRead par expect cap d = (x, e, d')) : DStepG par expect d x e d' := by
  by_cases ho : d.out = []
  · exact dRead_stepG_fill par he expect cap hcap d hi ho x e d' h
  · exact dRead_stepG_out par expect cap hcap d hi ho x e d' h

/-! ## reading to the end -/

/-- **reading the decoder to the end** with any positive buffer sizes (cycled
    from any position `k`), over a script that may end in a fault: the bytes
    released are a prefix of `dMax d`; the outcome is the same for every fuel
    above the measure `dM d` (so a reported error is never the fuel running
    out); and a clean end happens only when the source ends cleanly, and then
    everything `dMax d` was released. -/
theorem readAll_max (par : Armor.Params) (he : par.enc.WF) (expect : Armor.Expect) (caps : List Nat)
    (hpos : ∀ c ∈ caps, 0 < c) :
    ∀ (n : Nat) (d : DState), DInvG par d → dM d ≤ n → ∀ (k : Nat) (acc : Bytes),
    ∃ r oe d', (∀ fuel, n < fuel → readAll par expect caps fuel k d acc = (acc ++ r, oe, d')) ∧
      r <+: dMax par expect d ∧ (oe = none → d.fil.f.p.text.2 = .eof ∧ r = dMax par expect d) := by
  intro n
  induction n with
  | zero =>
    intro d hi hm k acc
    have hcap := capsGetD_pos caps hpos (k % caps.length)
    rcases hr : dRead par expect (caps.getD (k % caps.length) 1) d with ⟨x, e, d1⟩
    have hstep := dRead_stepG par he expect _ hcap d hi x e d1 hr
    rcases hstep with ⟨_, _, _, _, a4, _⟩ | ⟨rfl, rfl, a3, a4⟩ | ⟨z, rfl, a2⟩
    · omega
    · refine ⟨[], none, d1, ?_, List.nil_prefix, fun _ => ⟨a3, a4.symm⟩⟩
      intro fuel hf
      cases fuel with
      | zero => omega
      | succ f => rw [readAll_succ, hr]
    · refine ⟨x, some z, d1, ?_, a2, fun h => by cases h⟩
      intro fuel hf
      cases fuel with
      | zero => omega
      | succ f => rw [readAll_succ, hr]
  | succ n ih =>
    intro d hi hm k acc
    have hcap := capsGetD_pos caps hpos (k % caps.length)
    rcases hr : dRead par expect (caps.getD (k % caps.length) 1) d with ⟨x, e, d1⟩
    have hstep := dRead_stepG par he expect _ hcap d hi x e d1 hr
    rcases hstep with ⟨rfl, _, a3, a4, a5, a6⟩ | ⟨rfl, rfl, a3, a4⟩ | ⟨z, rfl, a2⟩
    · obtain ⟨r, oe, d', f1, f2, f3⟩ := ih d1 a3 (by omega) (k + 1) (acc ++ x)
      refine ⟨x ++ r, oe, d', ?_, ?_, ?_⟩
      · intro fuel hf
        cases fuel with
        | zero => omega
        | succ f =>
          rw [readAll_succ, hr]
          simp only
          rw [f1 f (by omega), List.append_assoc]
      · rw [a6]
        exact (List.prefix_append_right_inj x).mpr f2
      · intro ho
        obtain ⟨g1, g2⟩ := f3 ho
        exact ⟨by rw [← a4]; exact g1, by rw [a6, g2]⟩
    · refine ⟨[], none, d1, ?_, List.nil_prefix, fun _ => ⟨a3, a4.symm⟩⟩
      intro fuel hf
      cases fuel with
      | zero => omega
      | succ f => rw [readAll_succ, hr]
    · refine ⟨x, some z, d1, ?_, a2, fun h => by cases h⟩
      intro fuel hf
      cases fuel with
      | zero => omega
      | succ f => rw [readAll_succ, hr]

end Saltpack.Proofs
