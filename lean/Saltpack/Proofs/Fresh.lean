/-
  Freshness and fail-closed randomness (behind Props/C18), general forms:

  * every way the randomness can fail (shuffle draws, ephemeral key, payload
    key, signature nonce) makes the sender return an error and no message;
  * which reads of the source become which secret, as index ranges of the
    source (`segBytes`), for `Seal`, `SigncryptSeal`, `Sign`, `SignDetached`;
  * two consecutive `Seal` calls consume consecutive, disjoint ranges of reads.

  Core Lean only.
-/
import Saltpack.Proofs.Calls
import Saltpack.Proofs.RandBytes

namespace Saltpack.Proofs
open Saltpack Saltpack.Rand

/-! ## segments of the source -/

/-- the first `n` bytes delivered by reads `a, a+1, …, b-1` of the source -/
def segBytes (src : Source) (a b n : Nat) : Bytes :=
  ((((src.drop a).take (b - a)).map (·.data)).flatten).take n

theorem segBytes_shift (src : Source) (o a b n : Nat) :
    segBytes (src.drop o) a b n = segBytes src (o + a) (o + b) n := by
  unfold segBytes
  rw [List.drop_drop, show o + b - (o + a) = b - a by omega]

/-- a successful full read of `n > 0` bytes started at read `a` consumes the
    reads `[a, c)` for some `c > a`, and returns their first `n` bytes -/
theorem readFull_seg (n : Nat) (hn : 0 < n) (src : Source) (a : Nat) (b : Bytes) (rest : Source)
    (h : readFull n (src.drop a) = some (b, rest)) :
    ∃ c, a < c ∧ c ≤ src.length ∧ rest = src.drop c ∧ b = segBytes src a c n ∧ b.length = n := by
  obtain ⟨hl, k, hk, hr, hb⟩ := readFull_spec n (src.drop a) b rest h
  have hk0 : 0 < k := by
    cases k with
    | zero =>
      rw [hb] at hl
      simp at hl
      omega
    | succ k => exact Nat.succ_pos k
  rw [List.length_drop] at hk
  refine ⟨a + k, by omega, by omega, ?_, ?_, hl⟩
  · rw [hr, List.drop_drop]
  · rw [hb]
    unfold segBytes
    rw [show a + k - a = k by omega]

/-- locality of a full read: it depends only on the reads it consumes -/
theorem readFull_local (n : Nat) (src : Source) (b : Bytes) (rest : Source)
    (h : readFull n src = some (b, rest)) :
    ∃ k, k ≤ src.length ∧ rest = src.drop k ∧ ∀ tail, readFull n (src.take k ++ tail) = some (b, tail) := by
  induction src generalizing n b with
  | nil =>
    cases n with
    | zero =>
      rw [Calls.readFull_zero] at h
      cases h
      exact ⟨0, Nat.le_refl _, rfl, fun tail => Calls.readFull_zero _⟩
    | succ n => simp [readFull] at h
  | cons r src ih =>
    cases n with
    | zero =>
      rw [Calls.readFull_zero] at h
      cases h
      exact ⟨0, Nat.zero_le _, rfl, fun tail => Calls.readFull_zero _⟩
    | succ n =>
      rw [readFull] at h
      try simp only at h
      split at h
      · rename_i hg
        cases h
        refine ⟨1, by simp, rfl, fun tail => ?_⟩
        simp only [List.take_succ_cons, List.take_zero, List.cons_append, List.nil_append]
        rw [readFull]
        try simp only
        rw [if_pos hg]
      · rename_i hg
        split at h
        · cases h
        · rename_i herr
          split at h
          · cases h
          · rename_i hemp
            split at h
            · cases h
            · rename_i more rest' hrec
              cases h
              obtain ⟨k, hk, hr, hloc⟩ := ih _ _ hrec
              refine ⟨k + 1, by simp; omega, by simpa using hr, fun tail => ?_⟩
              simp only [List.take_succ_cons, List.cons_append]
              rw [readFull]
              try simp only
              rw [if_neg hg, if_neg herr, if_neg hemp, hloc tail]

/-- locality of the word reads of the shuffle -/
theorem readWords_local (c : Nat) (src : Source) (ws : List Nat) (rest : Source)
    (h : readWords c src = some (ws, rest)) :
    ∃ a, a ≤ src.length ∧ rest = src.drop a ∧ ∀ tail, readWords c (src.take a ++ tail) = some (ws, tail) := by
  induction c generalizing src ws with
  | zero =>
    rw [readWords] at h
    cases h
    exact ⟨0, Nat.zero_le _, rfl, fun tail => rfl⟩
  | succ c ih =>
    rw [readWords] at h
    split at h
    · cases h
    rename_i b src' hr
    split at h
    · cases h
    rename_i ws' rest' hw
    cases h
    obtain ⟨k, hk, hsrc', hloc⟩ := readFull_local 4 src b src' hr
    obtain ⟨a, ha, hrest, hloc'⟩ := ih _ _ hw
    subst hsrc'
    rw [List.length_drop] at ha
    refine ⟨k + a, by omega, by rw [hrest, List.drop_drop], fun tail => ?_⟩
    rw [List.take_add, List.append_assoc, readWords, hloc]
    simp only [hloc' tail]

/-! ## which reads become which secret -/

/-- how the ephemeral secret relates to reads `[a, b)` of the source -/
def EphSeg (eph : Encrypt.EphSource) (src : Source) (a b : Nat) (ephSec : Bytes) : Prop :=
  match eph with
  | .given s => ephSec = s ∧ b = a
  | .fromRand => a < b ∧ ephSec = segBytes src a b 32 ∧ ephSec.length = 32
  | .fails => False

/-- the randomness of one `Seal`-like operation started at read `o` of `src`:
    the shuffle draws are `Rand.drawsFrom` of the 32-bit words of reads `[o, a)`
    (and of nothing else), the ephemeral secret (when drawn from the source) is
    the bytes of reads `[a, b)`, the payload key the 32 bytes of reads `[b, c)` -/
def SecretsAt (n : Nat) (eph : Encrypt.EphSource) (src : Source) (o a b c : Nat)
    (js : List Nat) (ephSec pk : Bytes) : Prop :=
  o ≤ a ∧ a ≤ b ∧ b < c ∧ c ≤ src.length ∧
  (∃ cw ws, readWords cw (src.drop o) = some (ws, src.drop a) ∧
      (∀ tail, readWords cw ((src.drop o).take (a - o) ++ tail) = some (ws, tail)) ∧
      drawsFrom (n - 1) ws = some (js, []) ∧ ValidDraws (n - 1) js) ∧
  EphSeg eph src a b ephSec ∧
  pk = segBytes src b c 32 ∧ pk.length = 32

theorem EphSeg.shift {eph : Encrypt.EphSource} {src : Source} {o a b : Nat} {ephSec : Bytes}
    (h : EphSeg eph (src.drop o) a b ephSec) : EphSeg eph src (o + a) (o + b) ephSec := by
  cases eph with
  | given s => exact ⟨h.1, by rw [h.2]⟩
  | fails => exact h
  | fromRand =>
    obtain ⟨h1, h2, h3⟩ := h
    exact ⟨by omega, by rw [h2, segBytes_shift], h3⟩

theorem SecretsAt.shift {n : Nat} {eph : Encrypt.EphSource} {src : Source} {o a b c : Nat}
    {js : List Nat} {ephSec pk : Bytes}
    (h : SecretsAt n eph (src.drop o) 0 a b c js ephSec pk) :
    SecretsAt n eph src o (o + a) (o + b) (o + c) js ephSec pk := by
  obtain ⟨_, hab, hbc, hc, ⟨cw, ws, hw, hloc, hd⟩, he, hpk, hl⟩ := h
  rw [List.length_drop] at hc
  refine ⟨by omega, by omega, by omega, by omega, ⟨cw, ws, ?_, ?_, hd⟩, he.shift, ?_, hl⟩
  · rw [List.drop_zero, List.drop_drop] at hw
    exact hw
  · intro tail
    have := hloc tail
    rw [List.drop_zero, Nat.sub_zero] at this
    rw [show o + a - o = a by omega]
    exact this
  · rw [hpk, segBytes_shift]

/-- common core of `Encrypt.sealRand` / `Signcrypt.sealRand`: shuffle draws,
    ephemeral key, payload key read in this order from `src` -/
theorem secrets_of_draws (n : Nat) (eph : Encrypt.EphSource) (src : Source)
    (js : List Nat) (src1 : Source) (ephSec : Bytes) (src2 : Source) (pk : Bytes) (rest : Source)
    (hsd : Encrypt.shuffleDraws (n - 1) src (src.length + 1) = .ok (js, src1))
    (heph : match eph with
        | .given s => ephSec = s ∧ src2 = src1
        | .fromRand => readFull 32 src1 = some (ephSec, src2)
        | .fails => False)
    (hpk : readFull 32 src2 = some (pk, rest)) :
    ∃ a b c, rest = src.drop c ∧ SecretsAt n eph src 0 a b c js ephSec pk := by
  obtain ⟨cw, ws, hw, _, hdf⟩ := shuffleDraws_words _ _ _ _ _ hsd
  have hval := shuffleDraws_valid _ _ _ _ _ hsd
  obtain ⟨a, ha, hsrc1, hloc⟩ := readWords_local cw src ws src1 hw
  subst hsrc1
  have hdraws : ∃ cw ws, readWords cw (src.drop 0) = some (ws, src.drop a) ∧
      (∀ tail, readWords cw ((src.drop 0).take (a - 0) ++ tail) = some (ws, tail)) ∧
      drawsFrom (n - 1) ws = some (js, []) ∧ ValidDraws (n - 1) js :=
    ⟨cw, ws, by simpa using hw, by simpa using hloc, hdf, hval⟩
  cases eph with
  | given s =>
    obtain ⟨rfl, rfl⟩ := heph
    obtain ⟨c, hac, hc, hrest, hpkb, hpkl⟩ := readFull_seg 32 (by decide) src a pk rest hpk
    exact ⟨a, a, c, hrest, Nat.zero_le _, Nat.le_refl _, hac, hc, hdraws, ⟨rfl, rfl⟩, hpkb, hpkl⟩
  | fails => exact absurd heph id
  | fromRand =>
    simp only at heph
    obtain ⟨b, hab, hb, hsrc2, hephb, hephl⟩ := readFull_seg 32 (by decide) src a ephSec src2 heph
    subst hsrc2
    obtain ⟨c, hbc, hc, hrest, hpkb, hpkl⟩ := readFull_seg 32 (by decide) src b pk rest hpk
    exact ⟨a, b, c, hrest, Nat.zero_le _, Nat.le_of_lt hab, hbc, hc, hdraws, ⟨hab, hephb, hephl⟩, hpkb, hpkl⟩

/-- **`Seal`: which reads become which secret** -/
theorem sealRand_segments (P : Prims) (bs : Nat) (v : Version) (sender : Option Bytes)
    (rs : List Encrypt.Recipient) (eph : Encrypt.EphSource) (src : Source) (pt m : Bytes) (rest : Source)
    (h : Encrypt.sealRand P bs v sender rs eph src pt = .ok (m, rest)) :
    ∃ a b c js ephSec pk, rest = src.drop c ∧ SecretsAt rs.length eph src 0 a b c js ephSec pk ∧
      Encrypt.sealWith P bs v sender (shuffle js rs) ephSec pk pt = .ok m := by
  obtain ⟨js, src1, ephSec, src2, pk, hsd, heph, hpk, hseal⟩ := sealRand_draws P bs v sender rs eph src pt m rest h
  obtain ⟨a, b, c, hrest, hsec⟩ := secrets_of_draws rs.length eph src js src1 ephSec src2 pk rest hsd heph hpk
  exact ⟨a, b, c, js, ephSec, pk, hrest, hsec, hseal⟩

/-- `SigncryptSeal`'s secrets are what the source delivered, in the order
    shuffle draws → ephemeral key → payload key -/
theorem sc_sealRand_draws (P : Prims) (bs : Nat) (sender : Option Bytes)
    (boxes syms : List Signcrypt.Recipient) (eph : Encrypt.EphSource) (src : Source) (pt m : Bytes) (rest : Source)
    (h : Signcrypt.sealRand P bs sender boxes syms eph src pt = .ok (m, rest)) :
    ∃ js src1 ephSec src2 pk,
      Encrypt.shuffleDraws ((boxes ++ syms).length - 1) src (src.length + 1) = .ok (js, src1) ∧
      (match eph with
        | .given s => ephSec = s ∧ src2 = src1
        | .fromRand => readFull 32 src1 = some (ephSec, src2)
        | .fails => False) ∧
      readFull 32 src2 = some (pk, rest) ∧
      Signcrypt.sealWith P bs sender (shuffle js (boxes ++ syms)) ephSec pk pt = .ok m := by
  unfold Signcrypt.sealRand at h
  split at h
  · cases h
  simp only at h
  split at h
  · cases h
  rename_i js src1 hsd
  cases eph with
  | given s =>
    simp only at h
    split at h
    · cases h
    rename_i pk src3 hpk
    split at h
    · cases h
    rename_i m' hm
    cases h
    exact ⟨js, src1, s, src1, pk, hsd, ⟨rfl, rfl⟩, hpk, hm⟩
  | fails =>
    simp only at h
    cases h
  | fromRand =>
    simp only at h
    cases hr : readFull 32 src1 with
    | none => rw [hr] at h; cases h
    | some p =>
      obtain ⟨ephSec, src2⟩ := p
      rw [hr] at h
      simp only at h
      split at h
      · cases h
      rename_i pk src3 hpk
      split at h
      · cases h
      rename_i m' hm
      cases h
      exact ⟨js, src1, ephSec, src2, pk, hsd, hr, hpk, hm⟩

theorem sc_sealRand_segments (P : Prims) (bs : Nat) (sender : Option Bytes)
    (boxes syms : List Signcrypt.Recipient) (eph : Encrypt.EphSource) (src : Source) (pt m : Bytes) (rest : Source)
    (h : Signcrypt.sealRand P bs sender boxes syms eph src pt = .ok (m, rest)) :
    ∃ a b c js ephSec pk, rest = src.drop c ∧
      SecretsAt (boxes ++ syms).length eph src 0 a b c js ephSec pk ∧
      Signcrypt.sealWith P bs sender (shuffle js (boxes ++ syms)) ephSec pk pt = .ok m := by
  obtain ⟨js, src1, ephSec, src2, pk, hsd, heph, hpk, hseal⟩ :=
    sc_sealRand_draws P bs sender boxes syms eph src pt m rest h
  obtain ⟨a, b, c, hrest, hsec⟩ :=
    secrets_of_draws (boxes ++ syms).length eph src js src1 ephSec src2 pk rest hsd heph hpk
  exact ⟨a, b, c, js, ephSec, pk, hrest, hsec, hseal⟩

/-- detached signing: the header nonce is exactly the 16 bytes of the first full read -/
theorem detachedRand_draws (P : Prims) (v : Version) (signer : Bytes) (src : Source)
    (msg m : Bytes) (rest : Source)
    (h : Sign.detachedRand P v signer src msg = .ok (m, rest)) :
    ∃ n, readFull Sign.sigNonceLen src = some (n, rest) ∧ Sign.detachedWith P v signer n msg = .ok m := by
  unfold Sign.detachedRand at h
  split at h
  · cases h
  split at h
  · cases h
  rename_i n src' hr
  split at h
  · cases h
  rename_i m' hm
  cases h
  exact ⟨n, hr, hm⟩

/-- signatures: the nonce is the 16 bytes of reads `[0, c)`, `c > 0` -/
theorem attachedRand_segment (P : Prims) (bs : Nat) (v : Version) (signer : Bytes) (src : Source)
    (msg m : Bytes) (rest : Source)
    (h : Sign.attachedRand P bs v signer src msg = .ok (m, rest)) :
    ∃ c n, 0 < c ∧ c ≤ src.length ∧ rest = src.drop c ∧ n = segBytes src 0 c 16 ∧ n.length = 16 ∧
      Sign.attachedWith P bs v signer n msg = .ok m := by
  obtain ⟨n, hr, hm⟩ := attachedRand_draws P bs v signer src msg m rest h
  obtain ⟨c, h0, hc, hrest, hn, hl⟩ := readFull_seg 16 (by decide) src 0 n rest (by rw [List.drop_zero]; exact hr)
  exact ⟨c, n, h0, hc, hrest, hn, hl, hm⟩

theorem detachedRand_segment (P : Prims) (v : Version) (signer : Bytes) (src : Source)
    (msg m : Bytes) (rest : Source)
    (h : Sign.detachedRand P v signer src msg = .ok (m, rest)) :
    ∃ c n, 0 < c ∧ c ≤ src.length ∧ rest = src.drop c ∧ n = segBytes src 0 c 16 ∧ n.length = 16 ∧
      Sign.detachedWith P v signer n msg = .ok m := by
  obtain ⟨n, hr, hm⟩ := detachedRand_draws P v signer src msg m rest h
  obtain ⟨c, h0, hc, hrest, hn, hl⟩ := readFull_seg 16 (by decide) src 0 n rest (by rw [List.drop_zero]; exact hr)
  exact ⟨c, n, h0, hc, hrest, hn, hl, hm⟩

/-! ## two consecutive operations -/

/-- **histories**: a second `Seal` run on the source the first one returned
    consumes the *next* reads: with `0 ≤ a₁ ≤ b₁ < c₁ ≤ a₂ ≤ b₂ < c₂ ≤ |src|`, the
    first call's secrets come from reads `[0, c₁)`, the second call's from reads
    `[c₁, c₂)` of the same source — disjoint consecutive segments (the
    inequalities are part of `SecretsAt`) -/
theorem sealRand_twice (P : Prims)
    (bs₁ : Nat) (v₁ : Version) (sender₁ : Option Bytes) (rs₁ : List Encrypt.Recipient) (eph₁ : Encrypt.EphSource) (pt₁ m₁ : Bytes)
    (bs₂ : Nat) (v₂ : Version) (sender₂ : Option Bytes) (rs₂ : List Encrypt.Recipient) (eph₂ : Encrypt.EphSource) (pt₂ m₂ : Bytes)
    (src rest₁ rest₂ : Source)
    (h₁ : Encrypt.sealRand P bs₁ v₁ sender₁ rs₁ eph₁ src pt₁ = .ok (m₁, rest₁))
    (h₂ : Encrypt.sealRand P bs₂ v₂ sender₂ rs₂ eph₂ rest₁ pt₂ = .ok (m₂, rest₂)) :
    ∃ a₁ b₁ c₁ a₂ b₂ c₂ js₁ e₁ k₁ js₂ e₂ k₂,
      rest₁ = src.drop c₁ ∧ rest₂ = src.drop c₂ ∧
      SecretsAt rs₁.length eph₁ src 0 a₁ b₁ c₁ js₁ e₁ k₁ ∧
      SecretsAt rs₂.length eph₂ src c₁ a₂ b₂ c₂ js₂ e₂ k₂ ∧
      Encrypt.sealWith P bs₁ v₁ sender₁ (shuffle js₁ rs₁) e₁ k₁ pt₁ = .ok m₁ ∧
      Encrypt.sealWith P bs₂ v₂ sender₂ (shuffle js₂ rs₂) e₂ k₂ pt₂ = .ok m₂ := by
  obtain ⟨a₁, b₁, c₁, js₁, e₁, k₁, hr₁, hs₁, hm₁⟩ := sealRand_segments P bs₁ v₁ sender₁ rs₁ eph₁ src pt₁ m₁ rest₁ h₁
  subst hr₁
  obtain ⟨a₂, b₂, c₂, js₂, e₂, k₂, hr₂, hs₂, hm₂⟩ :=
    sealRand_segments P bs₂ v₂ sender₂ rs₂ eph₂ (src.drop c₁) pt₂ m₂ rest₂ h₂
  refine ⟨a₁, b₁, c₁, c₁ + a₂, c₁ + b₂, c₁ + c₂, js₁, e₁, k₁, js₂, e₂, k₂, rfl, ?_, hs₁, hs₂.shift, hm₁, hm₂⟩
  rw [hr₂, List.drop_drop]

/-- in particular the two payload keys are the bytes of two disjoint segments
    of reads: they coincide only if the source delivered the same 32 bytes twice -/
theorem sealRand_twice_keys (P : Prims)
    (bs₁ : Nat) (v₁ : Version) (sender₁ : Option Bytes) (rs₁ : List Encrypt.Recipient) (eph₁ : Encrypt.EphSource) (pt₁ m₁ : Bytes)
    (bs₂ : Nat) (v₂ : Version) (sender₂ : Option Bytes) (rs₂ : List Encrypt.Recipient) (eph₂ : Encrypt.EphSource) (pt₂ m₂ : Bytes)
    (src rest₁ rest₂ : Source)
    (h₁ : Encrypt.sealRand P bs₁ v₁ sender₁ rs₁ eph₁ src pt₁ = .ok (m₁, rest₁))
    (h₂ : Encrypt.sealRand P bs₂ v₂ sender₂ rs₂ eph₂ rest₁ pt₂ = .ok (m₂, rest₂)) :
    ∃ b₁ c₁ b₂ c₂ js₁ e₁ js₂ e₂, b₁ < c₁ ∧ c₁ ≤ b₂ ∧ b₂ < c₂ ∧ c₂ ≤ src.length ∧
      Encrypt.sealWith P bs₁ v₁ sender₁ (shuffle js₁ rs₁) e₁ (segBytes src b₁ c₁ 32) pt₁ = .ok m₁ ∧
      Encrypt.sealWith P bs₂ v₂ sender₂ (shuffle js₂ rs₂) e₂ (segBytes src b₂ c₂ 32) pt₂ = .ok m₂ := by
  obtain ⟨a₁, b₁, c₁, a₂, b₂, c₂, js₁, e₁, k₁, js₂, e₂, k₂, _, _, hs₁, hs₂, hm₁, hm₂⟩ :=
    sealRand_twice P bs₁ v₁ sender₁ rs₁ eph₁ pt₁ m₁ bs₂ v₂ sender₂ rs₂ eph₂ pt₂ m₂ src rest₁ rest₂ h₁ h₂
  obtain ⟨_, _, hbc₁, _, _, _, hk₁, _⟩ := hs₁
  obtain ⟨hca₂, hab₂, hbc₂, hc₂, _, _, hk₂, _⟩ := hs₂
  subst hk₁ hk₂
  exact ⟨b₁, c₁, b₂, c₂, js₁, e₁, js₂, e₂, hbc₁, by omega, hbc₂, hc₂, hm₁, hm₂⟩

/-! ## fail closed, general -/

theorem draw_error (n : Nat) (src : Source) (fuel : Nat) (e : Err)
    (h : Encrypt.shuffleDraws.draw n src fuel = .error e) : e = .ioError := by
  induction fuel generalizing src with
  | zero =>
    rw [Encrypt.shuffleDraws.draw] at h
    cases h
    rfl
  | succ fuel ih =>
    rw [Encrypt.shuffleDraws.draw] at h
    split at h
    · cases h; rfl
    · split at h
      · cases h
      · exact ih _ h

theorem shuffleDraws_error (k : Nat) (src : Source) (fuel : Nat) (e : Err)
    (h : Encrypt.shuffleDraws k src fuel = .error e) : e = .ioError := by
  induction k generalizing src with
  | zero =>
    rw [Encrypt.shuffleDraws] at h
    cases h
  | succ k ih =>
    rw [Encrypt.shuffleDraws] at h
    split at h
    · rename_i e' hd
      cases h
      exact draw_error _ _ _ _ hd
    · split at h
      · rename_i e' hrec
        cases h
        exact ih _ hrec
      · cases h

/-- every way the randomness of a `Seal`-like operation can fail: the shuffle
    draws fail; or the ephemeral key cannot be obtained (creator fails, or its
    read fails); or the payload-key read fails -/
def RandFails (n : Nat) (eph : Encrypt.EphSource) (src : Source) : Prop :=
  (∃ e, Encrypt.shuffleDraws (n - 1) src (src.length + 1) = .error e) ∨
  (∃ js src1, Encrypt.shuffleDraws (n - 1) src (src.length + 1) = .ok (js, src1) ∧
    match eph with
    | .fails => True
    | .given _ => readFull 32 src1 = none
    | .fromRand => readFull 32 src1 = none ∨
        ∃ s src2, readFull 32 src1 = some (s, src2) ∧ readFull 32 src2 = none)

/-- **fail closed, `Seal`, general**: whatever the recipients and the
    ephemeral-key source, any randomness failure makes `Seal` return an error —
    and no message bytes at all (the result is `.error`) -/
theorem sealRand_fail_closed_gen (P : Prims) (bs : Nat) (v : Version) (sender : Option Bytes)
    (rs : List Encrypt.Recipient) (eph : Encrypt.EphSource) (src : Source) (pt : Bytes)
    (hfail : RandFails rs.length eph src) :
    ∃ e, Encrypt.sealRand P bs v sender rs eph src pt = .error e ∧
      (knownVersion v = true → Encrypt.checkReceivers rs = .ok () → e = .ioError) := by
  unfold Encrypt.sealRand
  split
  · rename_i hv
    exact ⟨_, rfl, fun hk => by rw [hk] at hv; cases hv⟩
  split
  · rename_i e hc
    exact ⟨_, rfl, fun _ hk => by rw [hk] at hc; cases hc⟩
  rcases hfail with ⟨e, he⟩ | ⟨js, src1, hsd, heph⟩
  · rw [he]
    exact ⟨_, rfl, fun _ _ => shuffleDraws_error _ _ _ _ he⟩
  · rw [hsd]
    simp only
    cases eph with
    | fails => exact ⟨_, rfl, fun _ _ => rfl⟩
    | given s =>
      simp only at heph ⊢
      rw [heph]
      exact ⟨_, rfl, fun _ _ => rfl⟩
    | fromRand =>
      simp only at heph ⊢
      rcases heph with h1 | ⟨s, src2, h1, h2⟩
      · rw [h1]
        exact ⟨_, rfl, fun _ _ => rfl⟩
      · rw [h1]
        simp only
        rw [h2]
        exact ⟨_, rfl, fun _ _ => rfl⟩

/-- **fail closed, `SigncryptSeal`, general** -/
theorem sc_sealRand_fail_closed_gen (P : Prims) (bs : Nat) (sender : Option Bytes)
    (boxes syms : List Signcrypt.Recipient) (eph : Encrypt.EphSource) (src : Source) (pt : Bytes)
    (hfail : RandFails (boxes ++ syms).length eph src) :
    ∃ e, Signcrypt.sealRand P bs sender boxes syms eph src pt = .error e ∧
      (Signcrypt.checkReceivers boxes syms = .ok () → e = .ioError) := by
  unfold Signcrypt.sealRand
  split
  · rename_i e hc
    exact ⟨_, rfl, fun hk => by rw [hk] at hc; cases hc⟩
  simp only
  rcases hfail with ⟨e, he⟩ | ⟨js, src1, hsd, heph⟩
  · rw [he]
    exact ⟨_, rfl, fun _ => shuffleDraws_error _ _ _ _ he⟩
  · rw [hsd]
    simp only
    cases eph with
    | fails => exact ⟨_, rfl, fun _ => rfl⟩
    | given s =>
      simp only at heph ⊢
      rw [heph]
      exact ⟨_, rfl, fun _ => rfl⟩
    | fromRand =>
      simp only at heph ⊢
      rcases heph with h1 | ⟨s, src2, h1, h2⟩
      · rw [h1]
        exact ⟨_, rfl, fun _ => rfl⟩
      · rw [h1]
        simp only
        rw [h2]
        exact ⟨_, rfl, fun _ => rfl⟩

/-- conversely a successful `Seal` had no randomness failure (so `RandFails`
    is exactly the set of failing randomness histories, given valid inputs) -/
theorem sealRand_ok_not_fails (P : Prims) (bs : Nat) (v : Version) (sender : Option Bytes)
    (rs : List Encrypt.Recipient) (eph : Encrypt.EphSource) (src : Source) (pt m : Bytes) (rest : Source)
    (h : Encrypt.sealRand P bs v sender rs eph src pt = .ok (m, rest)) : ¬ RandFails rs.length eph src := by
  intro hf
  obtain ⟨e, he, _⟩ := sealRand_fail_closed_gen P bs v sender rs eph src pt hf
  rw [he] at h
  cases h

/-- signatures: a failing nonce read makes `Sign` / `SignDetached` fail -/
theorem attachedRand_fail_closed (P : Prims) (bs : Nat) (v : Version) (signer : Bytes) (src : Source) (msg : Bytes)
    (hfail : readFull 16 src = none) :
    ∃ e, Sign.attachedRand P bs v signer src msg = .error e ∧ (knownVersion v = true → e = .ioError) := by
  unfold Sign.attachedRand
  split
  · rename_i hv
    exact ⟨_, rfl, fun hk => by rw [hk] at hv; cases hv⟩
  · have : readFull Sign.sigNonceLen src = none := hfail
    rw [this]
    exact ⟨_, rfl, fun _ => rfl⟩

theorem detachedRand_fail_closed (P : Prims) (v : Version) (signer : Bytes) (src : Source) (msg : Bytes)
    (hfail : readFull 16 src = none) :
    ∃ e, Sign.detachedRand P v signer src msg = .error e ∧ (knownVersion v = true → e = .ioError) := by
  unfold Sign.detachedRand
  split
  · rename_i hv
    exact ⟨_, rfl, fun hk => by rw [hk] at hv; cases hv⟩
  · have : readFull Sign.sigNonceLen src = none := hfail
    rw [this]
    exact ⟨_, rfl, fun _ => rfl⟩

/-! ## a source that cannot even supply the payload key -/

theorem sum_drop_le (src : Source) (a : Nat) :
    ((src.drop a).map (·.data.length)).sum ≤ (src.map (·.data.length)).sum := by
  induction src generalizing a with
  | nil => simp
  | cons r src ih =>
    cases a with
    | zero => simp
    | succ a =>
      simp only [List.drop_succ_cons, List.map_cons, List.sum_cons]
      have := ih a
      omega

/-- whatever the recipients and the ephemeral-key source: a randomness source
    that delivers fewer than 32 bytes in total makes `Seal` fail -/
theorem sealRand_short_source (P : Prims) (bs : Nat) (v : Version) (sender : Option Bytes)
    (rs : List Encrypt.Recipient) (eph : Encrypt.EphSource) (src : Source) (pt : Bytes)
    (hshort : (src.map (·.data.length)).sum < 32) :
    ∃ e, Encrypt.sealRand P bs v sender rs eph src pt = .error e := by
  cases hres : Encrypt.sealRand P bs v sender rs eph src pt with
  | error e => exact ⟨e, rfl⟩
  | ok p =>
    obtain ⟨m, rest⟩ := p
    obtain ⟨a, b, c, js, ephSec, pk, _, hsec, _⟩ := sealRand_segments P bs v sender rs eph src pt m rest hres
    obtain ⟨_, _, hbc, hc, _, _, hpk, hl⟩ := hsec
    exfalso
    have h1 : pk.length ≤ (((src.drop b).take (c - b)).map (·.data)).flatten.length := by
      rw [hpk]; unfold segBytes; rw [List.length_take]; omega
    have h2 : (((src.drop b).take (c - b)).map (·.data)).flatten.length
        ≤ ((src.drop b).map (·.data.length)).sum := by
      rw [List.length_flatten, List.map_map]
      generalize src.drop b = l
      generalize c - b = k
      induction l generalizing k with
      | nil => simp
      | cons r l ih =>
        cases k with
        | zero => simp
        | succ k =>
          simp only [List.take_succ_cons, List.map_cons, List.sum_cons, Function.comp]
          have := ih k
          omega
    have h3 := sum_drop_le src b
    omega

/-- the signcryption encoder refuses to run the chunk counter into the nonce overflow -/
theorem sc_block_overflow_guard (P : Prims) (sender : Option Bytes) (pk hh : Bytes) (i : Nat)
    (c : Bytes) (f : Bool) (hi : 2 ^ 64 - 1 ≤ i) :
    Signcrypt.blockStruct P sender pk hh i c f = .error .packetOverflow := by
  unfold Signcrypt.blockStruct
  have : blockNumberOK i = false := by
    unfold blockNumberOK
    exact decide_eq_false (by omega)
  rw [this]
  rfl

end Saltpack.Proofs
