/-
  The BRIDGE with reserved extras (audit finding #10), signcryption: header packet
  whose header array carries extra trailing elements, packets `[ctext, final] ++ extras`
  — the spec-shaped reader, go-codec's typed reader and hence the front end give the
  SAME header read and the SAME packets, as long as the extras are encodable and nest
  at most 99 deep (go-codec's budget at struct level; beyond it go-codec REFUSES the
  message — `C15_codec_depth_limit`, kernel examples in Props/C06Bytes.lean).

  Core Lean only.
-/
import Saltpack.Proofs.CodecBytesBridge
import Saltpack.Proofs.AnyChunking

namespace Saltpack.Proofs.CodecP
open Saltpack Saltpack.Msgpack Saltpack.Codec Saltpack.Proofs.MsgpackRT Saltpack.Proofs.WireRT

/-- the header array with reserved extras behind its six fields -/
def encHeaderValEx (h : EncHeader) (ex : List Val) : Val :=
  .arr ([.str h.formatName, h.version.toVal, .int h.typ, .bin h.ephemeral, .bin h.senderSecretbox,
    .arr (h.receivers.map RecvKeys.toVal)] ++ ex)

/-- a signcryption packet with reserved extras -/
def scPacketValEx (p : SigncryptBlock × List Val) : Val := .arr ([.bin p.1.ct, .bool p.1.final] ++ p.2)

theorem bridge_signcrypt_extras (h : EncHeader) (s : EncHeaderSized h) (exH : List Val) (hexH : TopExtras exH)
    (hlenH : exH.length + 6 < 2 ^ 32) (hbytes : (encode (encHeaderValEx h exH)).length < 2 ^ 32)
    (pk : List (SigncryptBlock × List Val))
    (hpk : ∀ p ∈ pk, p.1.ct.length < 2 ^ 32 ∧ TopExtras p.2 ∧ p.2.length + 2 < 2 ^ 32) :
    Wire.splitSigncrypt (headerPacket (encode (encHeaderValEx h exH)) ++ (pk.map scPacketValEx).flatMap encode) =
      .ok (.ok (encode (encHeaderValEx h exH)) h, ⟨(pk.map (·.1)).map some, .eof⟩) ∧
    Codec.splitSigncrypt (headerPacket (encode (encHeaderValEx h exH)) ++ (pk.map scPacketValEx).flatMap encode) =
      .ok (.ok (encode (encHeaderValEx h exH)) h, ⟨(pk.map (·.1)).map some, .eof⟩) ∧
    Front.readSigncrypt (headerPacket (encode (encHeaderValEx h exH)) ++ (pk.map scPacketValEx).flatMap encode) =
      .ok (.ok (encode (encHeaderValEx h exH)) h, ⟨(pk.map (·.1)).map some, .eof⟩) := by
  have hcodec : Codec.splitSigncrypt (headerPacket (encode (encHeaderValEx h exH)) ++ (pk.map scPacketValEx).flatMap encode) =
      .ok (.ok (encode (encHeaderValEx h exH)) h, ⟨(pk.map (·.1)).map some, .eof⟩) := by
    have hd : decEncHeader (encode (encHeaderValEx h exH)) = .ok (h, []) := by
      have := decEncHeader_encode h s.fmt s.major s.minor s.typ s.eph s.ssb s.rlen s.rs exH hexH hlenH []
      rw [List.append_nil] at this
      exact this
    have := codec_split_encoded decEncHeader (fun _ => some decSigncryptBlock) (encode (encHeaderValEx h exH)) hbytes h [] hd
      decSigncryptBlock rfl (topStruct_nil _ _) (pk.map (fun p => (scPacketValEx p, p.1))) (by
        intro q hq rest
        rw [List.mem_map] at hq
        obtain ⟨p, hp, rfl⟩ := hq
        obtain ⟨a, b, c⟩ := hpk p hp
        exact decSigncryptBlock_encode p.1.ct a p.1.final p.2 b c rest)
    simp only [List.map_map, Function.comp_def] at this
    rw [List.map_map]
    exact this
  refine ⟨?_, hcodec, readSigncrypt_of_codec_eof hcodec⟩
  have hwfH : ValWF (encHeaderValEx h exH) := by
    have hw := s.wf
    cases hw with
    | arr _ hl hall =>
      apply ValWF.arr _ (by simp; omega)
      intro y hy
      rcases List.mem_append.1 hy with hy | hy
      · exact hall y hy
      · exact hexH.wf y hy
  have hview : viewEncHeader (encHeaderValEx h exH) = some h := viewEncHeader_extras h exH
  have := split_encoded viewEncHeader (fun _ => viewSigncryptBlock) (encHeaderValEx h exH) hwfH h hview hbytes
    (pk.map scPacketValEx) (by
      intro v hv
      rw [List.mem_map] at hv
      obtain ⟨p, hp, rfl⟩ := hv
      obtain ⟨a, b, c⟩ := hpk p hp
      apply ValWF.arr _ (by simp; omega)
      intro y hy
      rcases List.mem_append.1 hy with hy | hy
      · simp only [List.mem_cons, List.not_mem_nil, or_false] at hy
        rcases hy with rfl | rfl
        · exact ValWF.bin _ a
        · exact ValWF.bool _
      · exact b.wf y hy) (pk.map (·.1)) (by
      rw [List.map_map, List.map_map]
      apply List.map_congr_left
      intro p _
      exact viewSigncryptBlock_extras p.1.ct p.1.final p.2)
  unfold Wire.splitSigncrypt
  exact this

end Saltpack.Proofs.CodecP
