/-
  Bounded buffering of the READER state machines of Model/Stream.lean (behind
  Props/C13 "decoders keep only a bounded number of chunks in memory"):
  invariants of the reader STATES, each preserved by one `Read` call and true
  of the initial state.

    punctuatedReader      nextSegment + thisSegment ≤ B   (any B ≥ the caller's buffer)
    framedDecoderStream   header, footer < 8192 bytes; its punctuated reader bounded
    filteringReader       (no buffer of its own)
    BaseX decoder         input buffer ≤ dBufSize, decoded leftover ≤ decLen dBufSize
    chunkReader           one pending chunk, a suffix of what `getNextChunk` returned

  Self-contained on purpose (only the model and the BaseX length lemmas).
  Core Lean only.
-/
import Saltpack.Model.Stream
import Saltpack.Proofs.BasexLen
import Saltpack.Proofs.Digits

namespace Saltpack.Proofs
open Saltpack Saltpack.Stream

/-! ## the scripted source never hands out more than the buffer -/

theorem sb_srcRead_len (cap : Nat) (src : Source) : (srcRead cap src).1.length ≤ cap := by
  cases src with
  | nil => simp [srcRead]
  | cons hd rest =>
    obtain ⟨d, e⟩ := hd
    by_cases hc : d.length ≤ cap
    · simp [srcRead, hc]
    · simp only [srcRead, hc, if_false, List.length_take]; omega

/-! ## punctuatedReader -/

/-- the punctuated reader's own memory: the two stashed segments -/
def PBounded (B : Nat) (s : PState) : Prop := s.nextSegment.length + s.thisSegment.length ≤ B

/-- the common tail of `pRead`: scan `src` for the period and hand out -/
def sbProc (cap : Nat) (src : Bytes) (used : Bool) (s1 : PState) : Bytes × Option RErr × PState :=
  let (seg, found, s2) : Bytes × Bool × PState :=
    match findIdx Armor.period src with
    | some i => (src.take i, true, { s1 with nextSegment := src.drop (i + 1) })
    | none => (src, false, s1)
  let (out, s3) : Bytes × PState :=
    if used then (seg.take cap, { s2 with thisSegment := seg.drop cap }) else (seg, s2)
  if found then
    if !s3.thisSegment.isEmpty then (out, none, { s3 with errThisSegment := some punctErr })
    else (out, some punctErr, s3)
  else (out, none, s3)

theorem sb_pRead_this (cap : Nat) (s : PState) (h : s.thisSegment ≠ []) :
    pRead cap s =
      if (s.thisSegment.drop cap).isEmpty then
        (s.thisSegment.take cap, s.errThisSegment, { s with thisSegment := [], errThisSegment := none })
      else (s.thisSegment.take cap, none, { s with thisSegment := s.thisSegment.drop cap }) := by
  have h' : (!s.thisSegment.isEmpty) = true := by simp [h]
  unfold pRead
  rw [if_pos h']

theorem sb_pRead_next (cap : Nat) (s : PState) (h1 : s.thisSegment = []) (h2 : s.nextSegment ≠ []) :
    pRead cap s = sbProc cap s.nextSegment true { s with nextSegment := [] } := by
  have h1' : ¬ (!s.thisSegment.isEmpty) = true := by simp [h1]
  have h2' : (!s.nextSegment.isEmpty) = true := by simp [h2]
  unfold pRead
  rw [if_neg h1', if_pos h2']
  rfl

theorem sb_pRead_sticky (cap : Nat) (s : PState) (e : RErr) (h1 : s.thisSegment = []) (h2 : s.nextSegment = [])
    (h3 : s.errNextRead = some e) : pRead cap s = ([], some e, s) := by
  have h1' : ¬ (!s.thisSegment.isEmpty) = true := by simp [h1]
  have h2' : ¬ (!s.nextSegment.isEmpty) = true := by simp [h2]
  unfold pRead
  rw [if_neg h1', if_neg h2', h3]

theorem sb_pRead_src (cap : Nat) (s : PState) (h1 : s.thisSegment = []) (h2 : s.nextSegment = [])
    (h3 : s.errNextRead = none) :
    pRead cap s =
      match (srcRead cap s.src).2.1 with
      | some e' =>
        if (srcRead cap s.src).1.isEmpty then ([], some e', { s with src := (srcRead cap s.src).2.2 })
        else sbProc cap (srcRead cap s.src).1 false { s with src := (srcRead cap s.src).2.2, errNextRead := some e' }
      | none => sbProc cap (srcRead cap s.src).1 false { s with src := (srcRead cap s.src).2.2 } := by
  have h1' : ¬ (!s.thisSegment.isEmpty) = true := by simp [h1]
  have h2' : ¬ (!s.nextSegment.isEmpty) = true := by simp [h2]
  unfold pRead
  rw [if_neg h1', if_neg h2', h3]
  rcases hr : srcRead cap s.src with ⟨d, e, src'⟩
  cases e with
  | none => rfl
  | some e' =>
    by_cases hd : d.isEmpty = true
    · simp only [hd, if_true]
    · simp only [hd]
      rfl

/-- what `sbProc` leaves stashed is part of the bytes it was given, and what it
    hands out fits the caller's buffer when the bytes came from the stash -/
theorem sbProc_bounded (cap : Nat) (src : Bytes) (used : Bool) (s1 : PState)
    (h1 : s1.thisSegment = []) (h2 : s1.nextSegment = []) :
    (sbProc cap src used s1).2.2.nextSegment.length + (sbProc cap src used s1).2.2.thisSegment.length ≤ src.length ∧
    (sbProc cap src used s1).1.length ≤ (if used then cap else src.length) := by
  cases hf : findIdx Armor.period src with
  | none =>
    cases used with
    | true =>
      have : sbProc cap src true s1 = (src.take cap, none, { s1 with thisSegment := src.drop cap }) := by
        simp [sbProc, hf]
      rw [this]
      simp only [h2, List.length_nil, List.length_drop, List.length_take, if_true]
      omega
    | false =>
      have : sbProc cap src false s1 = (src, none, s1) := by simp [sbProc, hf]
      rw [this]
      simp [h1, h2]
  | some i =>
    cases used with
    | true =>
      have : sbProc cap src true s1 =
          if ((src.take i).drop cap) = [] then
            ((src.take i).take cap, some punctErr, { s1 with nextSegment := src.drop (i + 1), thisSegment := (src.take i).drop cap })
          else
            ((src.take i).take cap, none, { s1 with nextSegment := src.drop (i + 1), thisSegment := (src.take i).drop cap, errThisSegment := some punctErr }) := by
        simp [sbProc, hf]
        by_cases h : min i src.length ≤ cap
        · rw [if_pos h, if_neg (by omega)]
        · rw [if_neg h, if_pos (by omega)]
      rw [this]
      split <;> (simp only [List.length_drop, List.length_take, if_true]; omega)
    | false =>
      have : sbProc cap src false s1 =
          if s1.thisSegment = [] then
            (src.take i, some punctErr, { s1 with nextSegment := src.drop (i + 1) })
          else
            (src.take i, none, { s1 with nextSegment := src.drop (i + 1), errThisSegment := some punctErr }) := by
        simp [sbProc, hf]
      rw [this, if_pos h1]
      simp only [h1, List.length_drop, List.length_take, List.length_nil]
      refine ⟨by omega, ?_⟩
      simp only [Bool.false_eq_true, if_false]
      omega

/-- **punctuatedReader: bounded state.**  One `Read(p)` with `len(p) = cap ≤ B`
    keeps `nextSegment` and `thisSegment` together within `B` bytes, and hands
    out at most `cap` bytes. -/
theorem pRead_bounded (B cap : Nat) (s : PState) (hB : PBounded B s) (hc : cap ≤ B) :
    PBounded B (pRead cap s).2.2 ∧ (pRead cap s).1.length ≤ cap := by
  unfold PBounded at *
  by_cases h1 : s.thisSegment = []
  · by_cases h2 : s.nextSegment = []
    · cases h3 : s.errNextRead with
      | some e =>
        rw [sb_pRead_sticky cap s e h1 h2 h3]
        exact ⟨hB, by simp⟩
      | none =>
        rw [sb_pRead_src cap s h1 h2 h3]
        have hl := sb_srcRead_len cap s.src
        split
        · split
          · simp [h1, h2]
          · have := sbProc_bounded cap (srcRead cap s.src).1 false
              { s with src := (srcRead cap s.src).2.2, errNextRead := some ‹RErr› } h1 h2
            simp only [Bool.false_eq_true, if_false] at this
            exact ⟨by omega, by omega⟩
        · have := sbProc_bounded cap (srcRead cap s.src).1 false { s with src := (srcRead cap s.src).2.2 } h1 h2
          simp only [Bool.false_eq_true, if_false] at this
          exact ⟨by omega, by omega⟩
    · rw [sb_pRead_next cap s h1 h2]
      have := sbProc_bounded cap s.nextSegment true { s with nextSegment := [] } h1 rfl
      simp only [if_true] at this
      rw [h1] at hB
      simp only [List.length_nil, Nat.add_zero] at hB
      exact ⟨by omega, this.2⟩
  · rw [sb_pRead_this cap s h1]
    split
    · simp only [List.length_nil, List.length_take]
      exact ⟨by omega, by omega⟩
    · simp only [List.length_drop, List.length_take]
      exact ⟨by omega, by omega⟩

theorem pBounded_init (B : Nat) (src : Source) : PBounded B ({ src := src } : PState) := by
  simp [PBounded]

/-! ## `ReadUntilPunctuation`, `consumeUntilEOF` -/

theorem pReadUntil_bounded (B lim : Nat) (h4 : 4096 ≤ B) : ∀ (fuel : Nat) (s : PState) (acc : Bytes), PBounded B s →
    PBounded B (pReadUntil lim fuel s acc).2 ∧ (∀ r, (pReadUntil lim fuel s acc).1 = .ok r → r.length < lim) := by
  intro fuel
  induction fuel with
  | zero => intro s acc hB; exact ⟨hB, fun r h => by simp [pReadUntil] at h⟩
  | succ fuel ih =>
    intro s acc hB
    have hp := (pRead_bounded B 4096 s hB h4).1
    unfold pReadUntil
    simp only []
    split
    · split
      · exact ⟨hp, fun r h => by simp at h⟩
      · split
        · exact ⟨hp, fun r h => by simp at h⟩
        · exact ih _ _ hp
    · split
      · exact ⟨hp, fun r h => by simp at h⟩
      · refine ⟨hp, fun r h => ?_⟩
        simp only [Except.ok.injEq] at h
        subst h
        omega
    · exact ⟨hp, fun r h => by simp at h⟩
    · exact ⟨hp, fun r h => by simp at h⟩

theorem consumeUntilEOF_bounded (par : Armor.Params) (B : Nat) (h4 : 4096 ≤ B) : ∀ (fuel : Nat) (s : PState), PBounded B s →
    PBounded B (consumeUntilEOF par fuel s).2 := by
  intro fuel
  induction fuel with
  | zero => intro s hB; exact hB
  | succ fuel ih =>
    intro s hB
    have hp := (pRead_bounded B 4096 s hB h4).1
    unfold consumeUntilEOF
    simp only []
    split
    · exact hp
    · split
      · exact hp
      · split
        · exact hp
        · exact ih _ hp

/-! ## framedDecoderStream -/

/-- the framed decoder's memory: its punctuated reader, the collected header and footer -/
def FBounded (B : Nat) (f : FState) : Prop :=
  PBounded B f.p ∧ f.hdr.length < Armor.frameLim ∧ f.ftr.length < Armor.frameLim

theorem fBounded_init (B : Nat) (src : Source) : FBounded B ({ p := { src := src } } : FState) := by
  refine ⟨pBounded_init B src, ?_, ?_⟩ <;> simp [Armor.frameLim]

theorem fLoadHeader_bounded (par : Armor.Params) (expect : Armor.Expect) (B : Nat) (h4 : 4096 ≤ B) (f : FState)
    (hB : FBounded B f) : FBounded B (fLoadHeader par expect f).2 := by
  obtain ⟨hp, hh, hf⟩ := hB
  unfold fLoadHeader
  split
  · exact ⟨hp, hh, hf⟩
  · obtain ⟨hq, hr⟩ := pReadUntil_bounded B Armor.frameLim h4 (Armor.frameLim + 2) f.p [] hp
    generalize pReadUntil Armor.frameLim (Armor.frameLim + 2) f.p [] = rp at hq hr
    obtain ⟨r, p1⟩ := rp
    simp only [] at hq hr ⊢
    cases r with
    | error e => exact ⟨hq, hh, hf⟩
    | ok h =>
      have hl := hr h rfl
      simp only []
      repeat' split
      all_goals exact ⟨hq, hl, hf⟩

/-- the body stage of `fRead` -/
def sbBody (cap : Nat) (f0 : FState) : (Bytes × FState) ⊕ (Option RErr × FState) :=
  if f0.phase == .body then
    let (d, e, p1) := pRead cap f0.p
    let f1 := { f0 with p := p1 }
    match e with
    | some (.err .punctuated) => .inl (d, { f1 with phase := .footer })
    | some .eof => .inr (some (.err .unexpectedEOF), f1)
    | some x => .inr (some x, f1)
    | none => .inl (d, f1)
  else .inl ([], f0)

/-- the footer stage of `fRead` -/
def sbFooter (par : Armor.Params) (expect : Armor.Expect) (f1 : FState) : Option RErr × FState :=
  if f1.phase == .footer then
    let (r, p2) := pReadUntil Armor.frameLim (Armor.frameLim + 2) f1.p []
    match r with
    | .error e => (some e, { f1 with p := p2 })
    | .ok ft =>
      let f2 := { f1 with p := p2, ftr := ft }
      match expect with
      | none => (none, { f2 with phase := .endOfStream })
      | some typ =>
        match Armor.toASCII par f2.hdr, Armor.toASCII par ft with
        | .ok hs, .ok fs =>
          match Armor.checkArmor62 hs fs typ with
          | .ok _ => (none, { f2 with phase := .endOfStream })
          | .error e => (some (.err e), f2)
        | .error e, _ => (some (.err e), f2)
        | _, .error e => (some (.err e), f2)
  else (none, f1)

/-- the end-of-stream stage of `fRead` -/
def sbFinish (par : Armor.Params) (d : Bytes) (f2 : FState) : Bytes × Option RErr × FState :=
  if f2.phase == .endOfStream then
    let (e, p3) := consumeUntilEOF par (fuelOf f2.p) f2.p
    let f3 := { f2 with p := p3 }
    if e == .eof && !d.isEmpty then (d, none, f3) else (d, some e, f3)
  else (d, none, f2)

theorem sb_fRead_eq (par : Armor.Params) (expect : Armor.Expect) (cap : Nat) (f : FState) :
    fRead par expect cap f =
      match fLoadHeader par expect f with
      | (some e, f0) => ([], some e, f0)
      | (none, f0) =>
        match sbBody cap f0 with
        | .inr (e, f1) => ([], e, f1)
        | .inl (d, f1) =>
          match sbFooter par expect f1 with
          | (some e, f2) => ([], some e, f2)
          | (none, f2) => sbFinish par d f2 := by
  unfold fRead
  rcases fLoadHeader par expect f with ⟨e0, f0⟩
  cases e0 with
  | some e => rfl
  | none => rfl

theorem sbBody_bounded (B cap : Nat) (hc : cap ≤ B) (f0 : FState) (hB : FBounded B f0) :
    (∀ d f1, sbBody cap f0 = .inl (d, f1) → FBounded B f1 ∧ d.length ≤ cap) ∧
    (∀ e f1, sbBody cap f0 = .inr (e, f1) → FBounded B f1) := by
  obtain ⟨hp0, hh0, hf0⟩ := hB
  have hpr := pRead_bounded B cap f0.p hp0 hc
  unfold sbBody
  generalize pRead cap f0.p = pr at hpr
  obtain ⟨d, e, p1⟩ := pr
  simp only [] at hpr ⊢
  split
  · split <;>
      refine ⟨fun d' f1 h => ?_, fun e' f1 h => ?_⟩ <;>
      first
        | (cases h; exact ⟨⟨hpr.1, hh0, hf0⟩, hpr.2⟩)
        | (cases h; exact ⟨hpr.1, hh0, hf0⟩)
        | cases h
  · refine ⟨fun d' f1 h => ?_, fun e' f1 h => by cases h⟩
    cases h
    exact ⟨⟨hp0, hh0, hf0⟩, by simp⟩

theorem sbFooter_bounded (par : Armor.Params) (expect : Armor.Expect) (B : Nat) (h4 : 4096 ≤ B) (f1 : FState)
    (hB : FBounded B f1) : FBounded B (sbFooter par expect f1).2 := by
  obtain ⟨hp, hh, hf⟩ := hB
  unfold sbFooter
  split
  · obtain ⟨hq, hr⟩ := pReadUntil_bounded B Armor.frameLim h4 (Armor.frameLim + 2) f1.p [] hp
    generalize pReadUntil Armor.frameLim (Armor.frameLim + 2) f1.p [] = rp at hq hr
    obtain ⟨r, p2⟩ := rp
    simp only [] at hq hr ⊢
    cases r with
    | error e => exact ⟨hq, hh, hf⟩
    | ok ft =>
      have hl := hr ft rfl
      simp only []
      repeat' split
      all_goals exact ⟨hq, hh, hl⟩
  · exact ⟨hp, hh, hf⟩

theorem sbFinish_bounded (par : Armor.Params) (B : Nat) (h4 : 4096 ≤ B) (d : Bytes) (f2 : FState)
    (hB : FBounded B f2) : FBounded B (sbFinish par d f2).2.2 ∧ (sbFinish par d f2).1 = d := by
  obtain ⟨hp, hh, hf⟩ := hB
  unfold sbFinish
  split
  · have hq := consumeUntilEOF_bounded par B h4 (fuelOf f2.p) f2.p hp
    generalize consumeUntilEOF par (fuelOf f2.p) f2.p = rp at hq
    obtain ⟨e, p3⟩ := rp
    simp only [] at hq ⊢
    split <;> exact ⟨⟨hq, hh, hf⟩, rfl⟩
  · exact ⟨⟨hp, hh, hf⟩, rfl⟩

/-- **framedDecoderStream: bounded state.**  One `Read(p)` with `len(p) = cap`
    keeps header and footer below `frameLim` = 8192 bytes and its punctuated
    reader within `B` (any `B ≥ 4096, cap`), and hands out at most `cap` bytes. -/
theorem fRead_bounded (par : Armor.Params) (expect : Armor.Expect) (B cap : Nat) (h4 : 4096 ≤ B) (hc : cap ≤ B)
    (f : FState) (hB : FBounded B f) :
    FBounded B (fRead par expect cap f).2.2 ∧ (fRead par expect cap f).1.length ≤ cap := by
  have h0 := fLoadHeader_bounded par expect B h4 f hB
  rw [sb_fRead_eq]
  generalize fLoadHeader par expect f = lh at h0
  obtain ⟨e0, f0⟩ := lh
  cases e0 with
  | some e => exact ⟨h0, by simp⟩
  | none =>
    simp only [] at h0 ⊢
    obtain ⟨hb1, hb2⟩ := sbBody_bounded B cap hc f0 h0
    generalize sbBody cap f0 = br at hb1 hb2
    cases br with
    | inr x =>
      obtain ⟨e, f1⟩ := x
      exact ⟨hb2 e f1 rfl, by simp⟩
    | inl x =>
      obtain ⟨d, f1⟩ := x
      obtain ⟨hf1, hd⟩ := hb1 d f1 rfl
      simp only []
      have hft := sbFooter_bounded par expect B h4 f1 hf1
      generalize sbFooter par expect f1 = fr at hft
      obtain ⟨e1, f2⟩ := fr
      cases e1 with
      | some e => exact ⟨hft, by simp⟩
      | none =>
        simp only [] at hft ⊢
        obtain ⟨hfin, hout⟩ := sbFinish_bounded par B h4 d f2 hft
        exact ⟨hfin, by rw [hout]; exact hd⟩

/-! ## filteringReader (no buffer of its own) -/

theorem filterScan_len (enc : Basex.Enc) : ∀ (d : Bytes) (n : Nat) (kept : Bytes) (n' : Nat),
    filterScan enc d n = .ok (kept, n') → kept.length ≤ d.length := by
  intro d
  induction d with
  | nil => intro n kept n' h; simp [filterScan] at h; simp [h.1]
  | cons c cs ih =>
    intro n kept n' h
    unfold filterScan at h
    split at h
    · split at h
      · rename_i r n'' hr
        simp only [Except.ok.injEq, Prod.mk.injEq] at h
        have := ih _ _ _ hr
        rw [← h.1]; simp only [List.length_cons]; omega
      · cases h
    · split at h
      · have := ih _ _ _ h
        simp only [List.length_cons]; omega
      · cases h

theorem filRead_bounded (par : Armor.Params) (expect : Armor.Expect) (B cap : Nat) (h4 : 4096 ≤ B) (hc : cap ≤ B) :
    ∀ (fuel : Nat) (s : FilState), FBounded B s.f →
      FBounded B (filRead par expect cap fuel s).2.2.f ∧ (filRead par expect cap fuel s).1.length ≤ cap := by
  intro fuel
  induction fuel with
  | zero => intro s hB; exact ⟨hB, by simp [filRead]⟩
  | succ fuel ih =>
    intro s hB
    obtain ⟨hf, hl⟩ := fRead_bounded par expect B cap h4 hc s.f hB
    unfold filRead
    generalize fRead par expect cap s.f = fr at hf hl
    obtain ⟨d, e, f1⟩ := fr
    simp only [] at hf hl ⊢
    split
    · exact ⟨hf, by simp⟩
    · split
      · exact ⟨hf, by simp⟩
      · rename_i kept n' hk
        have hkl := filterScan_len par.enc d s.nRead kept n' hk
        split
        · exact ⟨hf, by simp only []; omega⟩
        · split
          · exact ⟨hf, by simp⟩
          · exact ih _ hf

/-! ## BaseX: decoded length never exceeds `decLen` of the input length -/

theorem sb_decLen_add_block (e : Basex.Enc) (hc : 0 < e.charBlockLen) (n : Nat) :
    e.decLen (n + e.charBlockLen) = e.decLen n + e.blockLen := by
  unfold Basex.Enc.decLen
  rw [Nat.add_div_right n hc, Nat.add_mod_right, Nat.succ_mul]
  omega

theorem sb_decLen_succ {e : Basex.Enc} (he : e.WF) (n : Nat) : e.decLen n ≤ e.decLen (n + 1) := by
  have hc := he.cblock_pos
  have hr : n % e.charBlockLen < e.charBlockLen := Nat.mod_lt _ hc
  have hn : n + 1 = (n % e.charBlockLen + 1) + e.charBlockLen * (n / e.charBlockLen) := by
    have := Nat.div_add_mod n e.charBlockLen; omega
  have htab : ∀ c, c ≤ e.charBlockLen → e.decLenTab.getD c 0 = e.decLen c := fun c h => (decLen_eq he c h).symm
  show n / e.charBlockLen * e.blockLen + e.decLenTab.getD (n % e.charBlockLen) 0 ≤
    (n + 1) / e.charBlockLen * e.blockLen + e.decLenTab.getD ((n + 1) % e.charBlockLen) 0
  rw [hn, Nat.add_mul_div_left _ _ hc, Nat.add_mul_mod_self_left]
  by_cases h : n % e.charBlockLen + 1 < e.charBlockLen
  · rw [Nat.div_eq_of_lt h, Nat.mod_eq_of_lt h, Nat.zero_add, htab _ (by omega), htab _ (by omega)]
    have := decLen_mono_pred he (n % e.charBlockLen + 1) (by omega)
    simp only [Nat.add_sub_cancel] at this
    omega
  · have h' : n % e.charBlockLen + 1 = e.charBlockLen := by omega
    rw [h', Nat.div_self hc, Nat.mod_self, htab _ (by omega), htab 0 (by omega), decLen_zero he]
    have := decLen_le he (n % e.charBlockLen) (by omega)
    rw [Nat.add_mul]
    omega

theorem sb_decLen_mono {e : Basex.Enc} (he : e.WF) (a b : Nat) (h : a ≤ b) : e.decLen a ≤ e.decLen b := by
  induction b with
  | zero => have : a = 0 := by omega
            subst this; exact Nat.le_refl _
  | succ b ih =>
    by_cases hab : a = b + 1
    · subst hab; exact Nat.le_refl _
    · exact Nat.le_trans (ih (by omega)) (sb_decLen_succ he b)

/-- the scanning loop of an encoding without skip characters consumes exactly
    the digits it returns, and stops only at the end or with a full block -/
theorem sb_scanBlock_strict (e : Basex.Enc) (hs : e.skip = []) : ∀ (need : Nat) (s : List UInt8) (pos : Nat)
    (ds : List Nat) (rest : List UInt8), Basex.scanBlock e need s pos = .ok (ds, rest) →
    ds.length + rest.length = s.length ∧ ds.length ≤ need ∧ (ds.length = need ∨ rest = []) := by
  intro need s
  induction s generalizing need with
  | nil =>
    intro pos ds rest h
    cases need <;> simp [Basex.scanBlock] at h <;> simp [h.1, h.2]
  | cons c cs ih =>
    intro pos ds rest h
    cases need with
    | zero =>
      simp [Basex.scanBlock] at h
      simp [← h.1, ← h.2]
    | succ need =>
      unfold Basex.scanBlock at h
      split at h
      · split at h
        · rename_i hn
          simp only [Except.ok.injEq, Prod.mk.injEq] at h
          subst hn
          rw [← h.1, ← h.2]
          exact ⟨by simp [Nat.add_comm], by simp, Or.inl (by simp)⟩
        · split at h
          · rename_i ds' rest' hr
            simp only [Except.ok.injEq, Prod.mk.injEq] at h
            obtain ⟨i1, i2, i3⟩ := ih need _ _ _ hr
            rw [← h.1, ← h.2]
            simp only [List.length_cons]
            refine ⟨by omega, by omega, ?_⟩
            rcases i3 with i3 | i3
            · exact Or.inl (by omega)
            · exact Or.inr i3
          · cases h
      · have : e.isSkip c = false := by simp [Basex.Enc.isSkip, hs]
        rw [this] at h
        simp at h

theorem sb_decodeBlockDigits_len (e : Basex.Enc) (ds : List Nat) (bs : Bytes)
    (h : Basex.decodeBlockDigits e ds = .ok bs) : bs.length = e.decLen ds.length := by
  unfold Basex.decodeBlockDigits at h
  split at h
  · cases h
  · dsimp only at h
    split at h
    · cases h
    · simp only [Except.ok.injEq] at h
      rw [← h, bytesOfNat_length]

theorem sb_decodeAux_len (e : Basex.Enc) (hs : e.skip = []) (hc : 0 < e.charBlockLen)
    (hfull : e.decLen e.charBlockLen = e.blockLen) (hzero : e.decLen 0 = 0) :
    ∀ (fuel : Nat) (s : List UInt8) (pos : Nat) (bs : Bytes),
      Basex.decodeAux e fuel s pos = .ok bs → bs.length ≤ e.decLen s.length := by
  intro fuel
  induction fuel with
  | zero => intro s pos bs h; simp [Basex.decodeAux] at h; subst h; simp
  | succ fuel ih =>
    intro s pos bs h
    unfold Basex.decodeAux at h
    split at h
    · simp only [Except.ok.injEq] at h; simp [← h]
    · split at h
      · cases h
      · rename_i ds rest hsc
        split at h
        · cases h
        · rename_i b1 hb1
          split at h
          · cases h
          · rename_i more hmore
            simp only [Except.ok.injEq] at h
            obtain ⟨i1, i2, i3⟩ := sb_scanBlock_strict e hs _ _ _ _ _ hsc
            have hl1 := sb_decodeBlockDigits_len e ds b1 hb1
            have hl2 := ih _ _ _ hmore
            rw [← h, List.length_append, hl1]
            rcases i3 with i3 | i3
            · have := sb_decLen_add_block e hc rest.length
              rw [i3, hfull]
              rw [← i1, i3, Nat.add_comm e.charBlockLen, this]
              omega
            · subst i3
              simp only [List.length_nil, hzero, Nat.add_zero] at hl2 i1
              rw [← i1]; omega

/-- `decodePrefix` never yields more than `decLen` of its input length -/
theorem sb_decodePrefix_len {enc : Basex.Enc} (he : enc.WF) : ∀ (fuel : Nat) (s : List UInt8),
    (Basex.decodePrefix enc fuel s).1.length ≤ enc.decLen s.length := by
  have hc := he.cblock_pos
  intro fuel
  induction fuel with
  | zero => intro s; simp [Basex.decodePrefix]
  | succ fuel ih =>
    intro s
    unfold Basex.decodePrefix
    split
    · simp
    · simp only []
      split
      · simp
      · rename_i b hb
        have hb' : b.length ≤ enc.decLen (s.take enc.charBlockLen).length := by
          have h1 := decLen_full he
          have h2 := decLen_zero he
          exact sb_decodeAux_len enc.strict rfl hc h1 h2 _ _ _ _ hb
        have hm := ih (s.drop enc.charBlockLen)
        generalize Basex.decodePrefix enc fuel (s.drop enc.charBlockLen) = mr at hm
        obtain ⟨more, e⟩ := mr
        simp only [List.length_append, List.length_take, List.length_drop] at hb' hm ⊢
        by_cases hlen : enc.charBlockLen ≤ s.length
        · rw [Nat.min_eq_left hlen, decLen_full he] at hb'
          have := sb_decLen_add_block enc hc (s.length - enc.charBlockLen)
          rw [Nat.sub_add_cancel hlen] at this
          omega
        · have h0 : s.length - enc.charBlockLen = 0 := by omega
          rw [h0, decLen_zero he] at hm
          rw [Nat.min_eq_right (by omega)] at hb'
          omega

/-! ## BaseX decoder stream -/

/-- the decoder's memory: the layers below it, its input buffer and the decoded leftover -/
def DBounded (par : Armor.Params) (d : DState) : Prop :=
  FBounded (max 4096 (dBufSize par.enc)) d.fil.f ∧
  d.buf.length ≤ dBufSize par.enc ∧
  d.out.length ≤ par.enc.decLen (dBufSize par.enc)

theorem dBounded_init (par : Armor.Params) (src : Source) : DBounded par (newDecoder src) :=
  ⟨fBounded_init _ src, by simp [newDecoder], by simp [newDecoder]⟩

theorem dFill_bounded (par : Armor.Params) (expect : Armor.Expect) (B nn : Nat) (h4 : 4096 ≤ B) (hnn : nn ≤ B) :
    ∀ (fuel : Nat) (d : DState), FBounded B d.fil.f →
      FBounded B (dFill par expect nn fuel d).fil.f ∧ (dFill par expect nn fuel d).out = d.out ∧
      (dFill par expect nn fuel d).buf.length ≤ max d.buf.length nn := by
  intro fuel
  induction fuel with
  | zero => intro d hB; exact ⟨hB, rfl, Nat.le_max_left _ _⟩
  | succ fuel ih =>
    intro d hB
    unfold dFill
    split
    · have hr := filRead_bounded par expect B (nn - d.buf.length) h4 (by omega) (fuelOf d.fil.f.p + 4) d.fil hB
      generalize filRead par expect (nn - d.buf.length) (fuelOf d.fil.f.p + 4) d.fil = fr at hr
      obtain ⟨x, e, fil1⟩ := fr
      simp only [] at hr ⊢
      obtain ⟨i1, i2, i3⟩ := ih { d with fil := fil1, buf := d.buf ++ x, err := e } hr.1
      refine ⟨i1, i2, Nat.le_trans i3 ?_⟩
      simp only [List.length_append]
      have := hr.2
      omega
    · exact ⟨hB, rfl, Nat.le_max_left _ _⟩

/-- the size of one fill, as `dRead` computes it: never more than the input buffer -/
def sbNN (par : Armor.Params) (cap : Nat) : Nat :=
  let ibl := par.enc.blockLen
  let obl := par.enc.charBlockLen
  let nn0 := cap / ibl * obl
  let nn1 := if nn0 < obl then obl else nn0
  if nn1 > dBufSize par.enc then dBufSize par.enc else nn1

theorem sbNN_le (par : Armor.Params) (cap : Nat) : sbNN par cap ≤ dBufSize par.enc := by
  unfold sbNN
  simp only []
  repeat' split
  all_goals omega

/-- what `dRead` does after filling its buffer -/
def sbAfterFill (par : Armor.Params) (cap : Nat) (d1 : DState) : Bytes × Option RErr × DState :=
  let obl := par.enc.charBlockLen
  let (eof, d2) : Bool × DState := match d1.err with
    | some .eof => (true, { d1 with err := none })
    | _ => (false, d1)
  if eof && d2.buf.isEmpty then ([], some .eof, { d2 with err := some .eof })
  else match d2.err with
  | some e => ([], some e, d2)
  | none =>
    let nDec := if eof then d2.buf.length else d2.buf.length / obl * obl
    let nOut := par.enc.decLen nDec
    let (dec, de) := Basex.decodePrefix par.enc (nDec + 1) (d2.buf.take nDec)
    let err' : Option RErr := de.map basexErr
    let rest := d2.buf.drop nDec
    if nOut > cap then
      let ret := dec.take cap
      let d3 := { d2 with err := err', out := dec.drop cap, buf := rest }
      if ret.isEmpty && err'.isNone && cap != 0 then ([], some .eof, d3) else (ret, err', d3)
    else
      let d3 := { d2 with err := err', buf := rest }
      if dec.isEmpty && err'.isNone && cap != 0 then ([], some .eof, d3) else (dec, err', d3)

theorem sb_dRead_eq (par : Armor.Params) (expect : Armor.Expect) (cap : Nat) (d : DState) :
    dRead par expect cap d =
      match d.err with
      | some e => ([], some e, d)
      | none =>
        if !d.out.isEmpty then (d.out.take cap, none, { d with out := d.out.drop cap })
        else sbAfterFill par cap (dFill par expect (sbNN par cap) (sbNN par cap + 2) d) := by
  rfl

/-- the decode stage of `dRead` (after the buffer was filled and the EOF flag taken out) -/
def sbDecode (par : Armor.Params) (cap : Nat) (eof : Bool) (d2 : DState) : Bytes × Option RErr × DState :=
  let obl := par.enc.charBlockLen
  let nDec := if eof then d2.buf.length else d2.buf.length / obl * obl
  let nOut := par.enc.decLen nDec
  let (dec, de) := Basex.decodePrefix par.enc (nDec + 1) (d2.buf.take nDec)
  let err' : Option RErr := de.map basexErr
  let rest := d2.buf.drop nDec
  if nOut > cap then
    let ret := dec.take cap
    let d3 := { d2 with err := err', out := dec.drop cap, buf := rest }
    if ret.isEmpty && err'.isNone && cap != 0 then ([], some .eof, d3) else (ret, err', d3)
  else
    let d3 := { d2 with err := err', buf := rest }
    if dec.isEmpty && err'.isNone && cap != 0 then ([], some .eof, d3) else (dec, err', d3)

theorem sbDecode_bounded (par : Armor.Params) (he : par.enc.WF) (cap : Nat) (eof : Bool) (d2 : DState)
    (hB : DBounded par d2) :
    DBounded par (sbDecode par cap eof d2).2.2 ∧ (sbDecode par cap eof d2).1.length ≤ cap := by
  obtain ⟨hf, hb, ho⟩ := hB
  unfold sbDecode
  simp only []
  generalize hnd : (if eof = true then d2.buf.length else d2.buf.length / par.enc.charBlockLen * par.enc.charBlockLen) = nDec
  have hnle : nDec ≤ d2.buf.length := by
    rw [← hnd]; split
    · exact Nat.le_refl _
    · exact Nat.div_mul_le_self _ _
  have hdl := sb_decodePrefix_len he (nDec + 1) (d2.buf.take nDec)
  rw [List.length_take, Nat.min_eq_left hnle] at hdl
  generalize Basex.decodePrefix par.enc (nDec + 1) (d2.buf.take nDec) = dp at hdl
  obtain ⟨dec, de⟩ := dp
  simp only [] at hdl ⊢
  have hmono := sb_decLen_mono he nDec (dBufSize par.enc) (by omega)
  split
  · split
    · refine ⟨⟨hf, ?_, ?_⟩, by simp⟩
      · simp only [List.length_drop]; omega
      · simp only [List.length_drop]; omega
    · refine ⟨⟨hf, ?_, ?_⟩, ?_⟩
      · simp only [List.length_drop]; omega
      · simp only [List.length_drop]; omega
      · simp only [List.length_take]; omega
  · split
    · refine ⟨⟨hf, ?_, ho⟩, by simp⟩
      simp only [List.length_drop]; omega
    · refine ⟨⟨hf, ?_, ho⟩, ?_⟩
      · simp only [List.length_drop]; omega
      · simp only []; omega

theorem sb_afterFill_eq (par : Armor.Params) (cap : Nat) (d1 : DState) :
    sbAfterFill par cap d1 =
      match d1.err with
      | some .eof =>
        if d1.buf.isEmpty then ([], some .eof, { d1 with err := some .eof })
        else sbDecode par cap true { d1 with err := none }
      | some (.err z) => ([], some (.err z), d1)
      | none => sbDecode par cap false d1 := by
  unfold sbAfterFill
  cases hde : d1.err with
  | none =>
    simp only [Bool.false_and, Bool.false_eq_true, if_false, hde]
    rfl
  | some x =>
    cases x with
    | eof =>
      simp only [Bool.true_and]
      split <;> rfl
    | err z =>
      simp only [Bool.false_and, Bool.false_eq_true, if_false, hde]

theorem sbAfterFill_bounded (par : Armor.Params) (he : par.enc.WF) (cap : Nat) (d1 : DState) (hB : DBounded par d1) :
    DBounded par (sbAfterFill par cap d1).2.2 ∧ (sbAfterFill par cap d1).1.length ≤ cap := by
  rw [sb_afterFill_eq]
  split
  · split
    · exact ⟨hB, by simp⟩
    · exact sbDecode_bounded par he cap true _ hB
  · exact ⟨hB, by simp⟩
  · exact sbDecode_bounded par he cap false d1 hB

/-- **BaseX decoder stream: bounded state.**  One `Read(p)` (any `len(p) = cap`)
    keeps the input buffer within `dBufSize` characters, the decoded leftover
    within the decoding of one buffer, and every layer below within its own
    bound; and it hands out at most `cap` bytes. -/
theorem dRead_bounded (par : Armor.Params) (he : par.enc.WF) (expect : Armor.Expect) (cap : Nat) (d : DState)
    (hB : DBounded par d) :
    DBounded par (dRead par expect cap d).2.2 ∧ (dRead par expect cap d).1.length ≤ cap := by
  rw [sb_dRead_eq]
  split
  · exact ⟨hB, by simp⟩
  · obtain ⟨hf, hb, ho⟩ := hB
    split
    · refine ⟨⟨hf, hb, ?_⟩, ?_⟩
      · simp only [List.length_drop]; omega
      · simp only [List.length_take]; omega
    · have hnn := sbNN_le par cap
      obtain ⟨i1, i2, i3⟩ := dFill_bounded par expect (max 4096 (dBufSize par.enc)) (sbNN par cap)
        (Nat.le_max_left _ _) (Nat.le_trans hnn (Nat.le_max_right _ _)) (sbNN par cap + 2) d hf
      apply sbAfterFill_bounded par he cap
      exact ⟨i1, by omega, by rw [i2]; exact ho⟩

end Saltpack.Proofs
