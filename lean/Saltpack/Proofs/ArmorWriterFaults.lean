/-
  The BARE armor encoder stream (`NewArmor62EncoderStream`, armor.go
  `armorEncoderStream.Write` / `spaceAndOutputBuffer` / `Close` after fix
  5ad1caa) over a faulting writer: `Sender.FArm` over the scripted writer `Wr`.

  * sticky: once `failed`, every call is refused and the state is untouched;
  * simulation: as long as no underlying write failed, `FArm` and the
    never-failing machine `Stream.ArmState` (Model/ArmorWriter.lean) agree
    (`Sim`: writer content = `ArmState.out`, same buffer, word count, encoder up
    to the bookkeeping field `written`);
  * hence `Close` returns success only if no underlying write ever failed and
    the writer holds exactly `Armor.sealText` of everything written
    (`armorWriter_any_split`), and after a failure it holds a prefix of it.

  Behind Props/C14Armor.lean.
-/
import Saltpack.Proofs.SenderStreamArmor
import Saltpack.Proofs.ArmorWriter

namespace Saltpack.Proofs.SenderP
open Saltpack Saltpack.Sender Saltpack.Stream

/-! ## sticky -/

theorem farm_writeN_failed (a : FArm) (b : Bytes) (hf : a.failed = true) : a.writeN b = (0, false, a) := by
  unfold FArm.writeN; simp [hf]

theorem farm_write_failed (a : FArm) (b : Bytes) (hf : a.failed = true) : a.write b = (false, a) := by
  unfold FArm.write; rw [farm_writeN_failed a b hf]

theorem farm_close_failed (a : FArm) (hf : a.failed = true) : a.close = (false, a) := by
  unfold FArm.close; simp [hf]

/-- once failed, every later call — `Write` or `Close`, in any order — returns
    `(0, error)` and the stream, its buffer, its encoder and the writer below
    stay exactly as they were -/
theorem farm_calls_failed : ∀ (ops : List (Option Bytes)) (a : FArm), a.failed = true →
    FArm.calls a ops = (ops.map (fun _ => (0, false)), a) := by
  intro ops
  induction ops with
  | nil => intro a _; rfl
  | cons o ops ih =>
    intro a hf
    cases o with
    | none =>
      unfold FArm.calls
      simp only [farm_close_failed a hf, ih a hf, List.map_cons]
    | some b =>
      unfold FArm.calls
      simp only [farm_writeN_failed a b hf, ih a hf, List.map_cons]

theorem farmAfter_flag (s1 : FArm) (h : s1.failed = false) :
    (farmAfter s1).2.failed = !(farmAfter s1).1 := by
  have hfr := farm_spaceOut_frame (s1.buf.length + 1) s1
  unfold farmAfter
  cases hsp : FArm.spaceOut (s1.buf.length + 1) s1 with
  | mk ok s2 =>
    rw [hsp] at hfr
    cases ok with
    | true => simp only; rw [hfr.2.2.2, h]; rfl
    | false => rfl

/-- a call of a stream that has not failed yet ends failed iff it returns an error -/
theorem farm_write_flag (a : FArm) (b : Bytes) (hf : a.failed = false) :
    (a.write b).2.failed = !(a.write b).1 := by
  rw [farm_write_eq]
  simp only [hf, Bool.false_eq_true, if_false]
  by_cases he : (a.enc.write b).2.1 = true
  · simp only [he, if_true]; exact farmAfter_flag _ hf
  · simp [he]

theorem farmCloseAfter_flag (s : FArm) (h : s.failed = false) :
    (farmCloseAfter s).2.failed = !(farmCloseAfter s).1 := by
  have hfr := farm_spaceOut_frame (s.buf.length + 1) s
  unfold farmCloseAfter
  cases hsp : FArm.spaceOut (s.buf.length + 1) s with
  | mk ok s2 =>
    rw [hsp] at hfr
    cases ok with
    | false => rfl
    | true =>
      simp only
      cases hw1 : s2.w.write s2.buf with
      | mk ok1 w1 =>
        cases ok1 with
        | false => rfl
        | true => rfl

theorem farm_close_flag (a : FArm) (hf : a.failed = false) : a.close.2.failed = !a.close.1 := by
  rw [farm_close_eq]
  simp only [hf, Bool.false_eq_true, if_false]
  by_cases he : a.enc.close.1 = true
  · simp only [he, if_true]; exact farmCloseAfter_flag _ hf
  · simp [he]

/-- a failed underlying write during a call is remembered -/
theorem farm_fault_sets_flag (a : FArm) (b : Bytes) :
    ((a.write b).2.w.faults ≠ a.w.faults → (a.write b).2.failed = true) ∧
    (a.close.2.w.faults ≠ a.w.faults → a.close.2.failed = true) := by
  constructor
  · intro h
    by_cases hf : a.failed = true
    · rw [farm_write_failed a b hf] at h; exact absurd rfl h
    · have hf' : a.failed = false := by simpa using hf
      have h1 := farm_write_faults a b
      rw [farm_write_flag a b hf']
      cases hok : (a.write b).1 with
      | false => rfl
      | true => rw [hok] at h1; simp at h1; exact absurd h1 h
  · intro h
    by_cases hf : a.failed = true
    · rw [farm_close_failed a hf] at h; exact absurd rfl h
    · have hf' : a.failed = false := by simpa using hf
      have h1 := farm_close_faults a
      rw [farm_close_flag a hf']
      cases hok : a.close.1 with
      | false => rfl
      | true => rw [hok] at h1; simp at h1; exact absurd h1 h

/-! ## the encoder's bookkeeping field `written` does not influence what it does -/

/-- the same encoder state with `W` in front of its record of writes -/
def preW (W : List Bytes) (e : EncState) : EncState := { e with written := W ++ e.written }

theorem preW_under (W : List Bytes) (e : EncState) (d : Bytes) :
    (preW W e).under d = ((e.under d).1, preW W (e.under d).2) := by
  unfold EncState.under preW
  cases hs : e.sink with
  | nil => simp [List.append_assoc]
  | cons f rest => cases f <;> simp [List.append_assoc]

theorem preW_interior (W : List Bytes) : ∀ (fuel : Nat) (e : EncState) (p : Bytes) (n : Nat),
    EncState.interior fuel (preW W e) p n =
      ((EncState.interior fuel e p n).1, preW W (EncState.interior fuel e p n).2.1,
       (EncState.interior fuel e p n).2.2.1, (EncState.interior fuel e p n).2.2.2) := by
  intro fuel
  induction fuel with
  | zero => intro e p n; rfl
  | succ fuel ih =>
    intro e p n
    unfold EncState.interior
    have henc : (preW W e).enc = e.enc := rfl
    rw [henc]
    by_cases hge : p.length ≥ e.enc.blockLen
    · simp only [if_pos hge]
      generalize (if 128 * e.enc.blockLen > p.length then p.length - p.length % e.enc.blockLen else 128 * e.enc.blockLen) = nn
      rw [preW_under]
      cases hu : e.under (Basex.encode e.enc (p.take nn)) with
      | mk ok s1 =>
        cases ok with
        | false => rfl
        | true =>
          simp only [Bool.not_true, Bool.false_eq_true, if_false]
          exact ih _ _ _
    · simp only [if_neg hge]

theorem preW_encRest (W : List Bytes) (e : EncState) (p : Bytes) (n : Nat) :
    encRest (preW W e) p n = ((encRest e p n).1, (encRest e p n).2.1, preW W (encRest e p n).2.2) := by
  unfold encRest
  rw [preW_interior]
  simp only
  cases (EncState.interior (p.length + 1) e p n).1 <;> rfl

theorem preW_write (W : List Bytes) (e : EncState) (p : Bytes) :
    (preW W e).write p = ((e.write p).1, (e.write p).2.1, preW W (e.write p).2.2) := by
  rw [write_eq, write_eq]
  have h1 : (preW W e).failed = e.failed := rfl
  have h2 : (preW W e).buf = e.buf := rfl
  have h3 : (preW W e).enc = e.enc := rfl
  have h4 : encFringe (preW W e) p = encFringe e p := rfl
  have h5 : encTl (preW W e) p = encTl e p := rfl
  have h6 : encFringeU (preW W e) p = ((encFringeU e p).1, preW W (encFringeU e p).2) := by
    unfold encFringeU
    rw [h3, h4]
    exact preW_under W { e with buf := [] } _
  rw [h1, h2, h3, h4, h5, h6]
  cases hF : e.failed with
  | true => simp only [if_true]
  | false =>
    simp only [Bool.false_eq_true, if_false]
    cases hB : (!e.buf.isEmpty) with
    | false =>
      simp only [Bool.false_eq_true, if_false]
      exact preW_encRest W e p 0
    | true =>
      simp only [if_true]
      by_cases hl : (encFringe e p).length < e.enc.blockLen
      · simp only [hl, if_true]; rfl
      · simp only [hl, if_false]
        cases hU : (!(encFringeU e p).1) with
        | true => simp only [if_true]
        | false =>
          simp only [Bool.false_eq_true, if_false]
          exact preW_encRest W _ _ _

theorem preW_close (W : List Bytes) (e : EncState) : (preW W e).close = (e.close.1, preW W e.close.2) := by
  unfold EncState.close
  have h1 : (preW W e).failed = e.failed := rfl
  have h2 : (preW W e).buf = e.buf := rfl
  have h3 : (preW W e).enc = e.enc := rfl
  rw [h1, h2, h3]
  by_cases hc : (!e.failed ∧ !e.buf.isEmpty)
  · rw [if_pos hc, if_pos hc, preW_under]
    rfl
  · rw [if_neg hc, if_neg hc]

/-! ## what the scripted writer holds -/

/-- a successful write appends the slice; a failing one appends the part it accepted -/
theorem wr_write_bytes (w : Wr) (p : Bytes) :
    ∃ q, q <+: p ∧ (w.write p).2.bytes = w.bytes ++ (if (w.write p).1 then p else q) := by
  cases h : w.write p with
  | mk ok w' =>
    cases ok with
    | true => exact ⟨[], List.nil_prefix, by simpa using wr_obs.ok w p w' h⟩
    | false =>
      obtain ⟨q, hq, ho⟩ := wr_obs.fail w p w' h
      exact ⟨q, hq, by simpa using ho⟩

theorem prefix_mid {α : Type} (a q p r : List α) (h : q <+: p) : a ++ q <+: a ++ p ++ r := by
  rw [List.append_assoc]
  exact (List.prefix_append_right_inj a).2 (h.trans (List.prefix_append _ _))

/-! ## `ArmState`: the output only grows -/

theorem arm_spaceOut_mono : ∀ (fuel : Nat) (s : ArmState), s.out <+: (s.spaceOut fuel).out := by
  intro fuel
  induction fuel with
  | zero => intro s; exact List.prefix_rfl
  | succ fuel ih =>
    intro s
    unfold ArmState.spaceOut
    by_cases hgt : s.buf.length > s.par.bytesPerWord
    · rw [if_pos hgt]
      refine List.IsPrefix.trans ?_ (ih _)
      simp only [List.append_assoc]
      exact List.prefix_append _ _
    · rw [if_neg hgt]; exact List.prefix_rfl

theorem arm_write_mono (s : ArmState) (b : Bytes) : s.out <+: (s.write b).out := by
  unfold ArmState.write
  exact arm_spaceOut_mono _ (s.feed (s.enc.write b).2.2)

theorem arm_fold_mono : ∀ (ws : List Bytes) (s : ArmState), s.out <+: (ws.foldl ArmState.write s).out := by
  intro ws
  induction ws with
  | nil => intro s; exact List.prefix_rfl
  | cons w ws ih => intro s; rw [List.foldl_cons]; exact (arm_write_mono s w).trans (ih _)

/-- `Close` appends to what `spaceAndOutputBuffer` left -/
theorem arm_close_out (s : ArmState) :
    let s2 := ArmState.spaceOut ((s.feed s.enc.close.2).buf.length + 1) (s.feed s.enc.close.2)
    let pad : Bytes :=
      if s2.buf.length = s2.par.bytesPerWord then
        (if (s2.nWords + 1) % s2.par.wordsPerLine = 0 then [Armor.newline] else [Armor.space])
      else []
    s.close.out = s2.out ++ s2.buf ++ (pad ++ [Armor.period, Armor.space] ++ s2.ftr ++ [Armor.period, Armor.newline]) := by
  unfold ArmState.close
  simp only [List.append_assoc]

theorem arm_close_mono (s : ArmState) : s.out <+: s.close.out := by
  have h := arm_close_out s
  simp only at h
  rw [h, List.append_assoc]
  exact (arm_spaceOut_mono _ (s.feed s.enc.close.2)).trans (List.prefix_append _ _)

/-! ## the simulation: while no underlying write has failed, `FArm` over the
     scripted writer and the never-failing `ArmState` are the same machine -/

structure Sim (a : FArm) (s : ArmState) : Prop where
  par : a.par = s.par
  ftr : a.ftr = s.ftr
  buf : a.buf = s.buf
  nw : a.nWords = s.nWords
  out : a.w.bytes = s.out
  wnil : a.enc.written = []
  enc : s.enc = preW s.enc.written a.enc

theorem sim_feed (a : FArm) (s : ArmState) (h : Sim a s) (e' : EncState) :
    Sim (a.feed e') (s.feed (preW s.enc.written e')) := by
  obtain ⟨h1, h2, h3, h4, h5, h6, h7⟩ := h
  refine ⟨h1, h2, ?_, h4, h5, rfl, ?_⟩
  · show a.buf ++ e'.written.flatten = s.buf ++ (s.enc.written ++ e'.written).flatten.drop s.enc.written.flatten.length
    rw [List.flatten_append, List.drop_left' rfl, h3]
  · show preW s.enc.written e' = preW (s.enc.written ++ e'.written) { e' with written := [] }
    simp [preW]

/-- one iteration of `spaceAndOutputBuffer` of the never-failing machine -/
def armStep (s : ArmState) : ArmState :=
  { s with buf := s.buf.drop s.par.bytesPerWord, nWords := s.nWords + 1,
           out := s.out ++ s.buf.take s.par.bytesPerWord ++
             [if (s.nWords + 1) % s.par.wordsPerLine = 0 then Armor.newline else Armor.space] }

theorem arm_spaceOut_succ (fuel : Nat) (s : ArmState) :
    s.spaceOut (fuel + 1) = if s.buf.length > s.par.bytesPerWord then ArmState.spaceOut fuel (armStep s) else s := by
  conv => lhs; unfold ArmState.spaceOut
  rfl

theorem sim_spaceOut : ∀ (fuel : Nat) (a : FArm) (s : ArmState), Sim a s →
    ((FArm.spaceOut fuel a).1 = true → Sim (FArm.spaceOut fuel a).2 (s.spaceOut fuel)) ∧
    (FArm.spaceOut fuel a).2.w.bytes <+: (s.spaceOut fuel).out := by
  intro fuel
  induction fuel with
  | zero =>
    intro a s h
    refine ⟨fun _ => h, ?_⟩
    show a.w.bytes <+: s.out
    rw [h.out]; exact List.prefix_rfl
  | succ fuel ih =>
    intro a s h
    generalize hres : FArm.spaceOut (fuel + 1) a = r
    unfold FArm.spaceOut at hres
    rw [arm_spaceOut_succ, ← h.buf, ← h.par]
    by_cases hgt : a.buf.length > a.par.bytesPerWord
    · simp only [hgt, if_true] at hres ⊢
      have hs1out : (armStep s).out = s.out ++ a.buf.take a.par.bytesPerWord ++
            [if (a.nWords + 1) % a.par.wordsPerLine = 0 then Armor.newline else Armor.space] := by
        show s.out ++ s.buf.take s.par.bytesPerWord ++ [if (s.nWords + 1) % s.par.wordsPerLine = 0 then Armor.newline else Armor.space] = _
        rw [← h.buf, ← h.par, ← h.nw]
      have hmono := arm_spaceOut_mono fuel (armStep s)
      cases hw1 : a.w.write (a.buf.take a.par.bytesPerWord) with
      | mk ok1 w1 =>
        obtain ⟨q1, hq1, hb1⟩ := wr_write_bytes a.w (a.buf.take a.par.bytesPerWord)
        rw [hw1] at hb1
        simp only [hw1] at hres
        cases ok1 with
        | false =>
          simp only at hres hb1
          subst hres
          refine ⟨fun hh => (by cases hh), ?_⟩
          show w1.bytes <+: _
          simp only [Bool.false_eq_true, if_false] at hb1
          rw [hb1, h.out]
          refine List.IsPrefix.trans ?_ hmono
          rw [hs1out]
          exact prefix_mid _ _ _ _ hq1
        | true =>
          simp only [if_true] at hres hb1
          cases hw2 : w1.write [if (a.nWords + 1) % a.par.wordsPerLine = 0 then Armor.newline else Armor.space] with
          | mk ok2 w2 =>
            obtain ⟨q2, hq2, hb2⟩ := wr_write_bytes w1 [if (a.nWords + 1) % a.par.wordsPerLine = 0 then Armor.newline else Armor.space]
            rw [hw2] at hb2
            simp only [hw2] at hres
            cases ok2 with
            | false =>
              simp only at hres hb2
              subst hres
              refine ⟨fun hh => (by cases hh), ?_⟩
              show w2.bytes <+: _
              simp only [Bool.false_eq_true, if_false] at hb2
              rw [hb2, hb1, h.out]
              refine List.IsPrefix.trans ?_ hmono
              rw [hs1out]
              exact (List.prefix_append_right_inj _).2 hq2
            | true =>
              simp only [if_true] at hres hb2
              rw [← hres]
              apply ih
              obtain ⟨h1, h2, h3, h4, h5, h6, h7⟩ := h
              refine ⟨h1, h2, ?_, ?_, ?_, h6, h7⟩
              · show a.buf.drop a.par.bytesPerWord = s.buf.drop s.par.bytesPerWord
                rw [h3, h1]
              · show a.nWords + 1 = s.nWords + 1
                rw [h4]
              · show w2.bytes = (armStep s).out
                rw [hs1out, hb2, hb1, h5]
    · simp only [hgt, if_false] at hres ⊢
      subst hres
      refine ⟨fun _ => h, ?_⟩
      show a.w.bytes <+: s.out
      rw [h.out]; exact List.prefix_rfl

/-- one `Write` of a stream that has not failed: if it reports success the two
    machines still agree; in any case the writer holds a prefix of what the
    never-failing machine has written -/
theorem sim_write (a : FArm) (s : ArmState) (h : Sim a s) (hok : a.EncOk) (hf : a.failed = false) (b : Bytes) :
    ((a.write b).1 = true → Sim (a.write b).2 (s.write b)) ∧ (a.write b).2.w.bytes <+: (s.write b).out := by
  have he := (farm_encOk_write a b hok).1
  have hE : (s.enc.write b).2.2 = preW s.enc.written (a.enc.write b).2.2 := by
    rw [h.enc, preW_write]
    have : (preW s.enc.written a.enc).written = s.enc.written := by rw [← h.enc]
    rw [this]
  have hfe := sim_feed a s h (a.enc.write b).2.2
  rw [← hE] at hfe
  rw [farm_write_eq]
  simp only [hf, he, Bool.false_eq_true, if_false, if_true]
  unfold ArmState.write farmAfter
  simp only
  have hb : (s.feed (s.enc.write b).2.2).buf.length = (a.feed (a.enc.write b).2.2).buf.length := by rw [hfe.buf]
  rw [hb]
  obtain ⟨i1, i2⟩ := sim_spaceOut ((a.feed (a.enc.write b).2.2).buf.length + 1) _ _ hfe
  cases hsp : FArm.spaceOut ((a.feed (a.enc.write b).2.2).buf.length + 1) (a.feed (a.enc.write b).2.2) with
  | mk ok s2 =>
    rw [hsp] at i1 i2
    cases ok with
    | true => exact ⟨fun _ => i1 rfl, i2⟩
    | false => exact ⟨fun hh => (by cases hh), i2⟩

/-- `Close` of a stream that has not failed: success ⇒ the writer holds exactly
    what the never-failing machine holds after its `Close`; always a prefix -/
theorem sim_close (a : FArm) (s : ArmState) (h : Sim a s) (hok : a.EncOk) (hf : a.failed = false) :
    (a.close.1 = true → a.close.2.w.bytes = s.close.out) ∧ a.close.2.w.bytes <+: s.close.out := by
  have he := (farm_encOk_close a hok).1
  have hE : s.enc.close.2 = preW s.enc.written a.enc.close.2 := by
    rw [h.enc, preW_close]
    have : (preW s.enc.written a.enc).written = s.enc.written := by rw [← h.enc]
    rw [this]
  have hfe := sim_feed a s h a.enc.close.2
  rw [← hE] at hfe
  have hco := arm_close_out s
  simp only at hco
  rw [hco, farm_close_eq]
  simp only [hf, he, Bool.false_eq_true, if_false, if_true]
  unfold farmCloseAfter
  have hb : (s.feed s.enc.close.2).buf.length = (a.feed a.enc.close.2).buf.length := by rw [hfe.buf]
  rw [hb]
  obtain ⟨i1, i2⟩ := sim_spaceOut ((a.feed a.enc.close.2).buf.length + 1) _ _ hfe
  generalize ArmState.spaceOut ((a.feed a.enc.close.2).buf.length + 1) (s.feed s.enc.close.2) = t2 at i1 i2 ⊢
  cases hsp : FArm.spaceOut ((a.feed a.enc.close.2).buf.length + 1) (a.feed a.enc.close.2) with
  | mk ok s2 =>
    rw [hsp] at i1 i2
    cases ok with
    | false =>
      refine ⟨fun hh => (by cases hh), ?_⟩
      show s2.w.bytes <+: _
      rw [List.append_assoc]
      exact i2.trans (List.prefix_append _ _)
    | true =>
      obtain ⟨h1, h2, h3, h4, h5, _, _⟩ := i1 rfl
      simp only at h1 h2 h3 h4 h5 ⊢
      rw [← h1, ← h2, ← h3, ← h4, ← h5]
      cases hw1 : s2.w.write s2.buf with
      | mk ok1 w1 =>
        obtain ⟨q1, hq1, hb1⟩ := wr_write_bytes s2.w s2.buf
        rw [hw1] at hb1
        cases ok1 with
        | false =>
          simp only [Bool.false_eq_true, if_false] at hb1 ⊢
          refine ⟨fun hh => (by cases hh), ?_⟩
          rw [hb1]
          exact prefix_mid _ _ _ _ hq1
        | true =>
          simp only [if_true] at hb1 ⊢
          generalize hft : ((if s2.buf.length = s2.par.bytesPerWord then
              (if (s2.nWords + 1) % s2.par.wordsPerLine = 0 then [Armor.newline] else [Armor.space]) else []) ++
              [Armor.period, Armor.space] ++ s2.ftr ++ [Armor.period, Armor.newline] : Bytes) = tail
          obtain ⟨q2, hq2, hb2⟩ := wr_write_bytes w1 tail
          cases hw2 : w1.write tail with
          | mk ok2 w2 =>
            rw [hw2] at hb2
            cases ok2 with
            | false =>
              simp only [Bool.false_eq_true, if_false] at hb2 ⊢
              refine ⟨fun hh => (by cases hh), ?_⟩
              rw [hb2, hb1]
              exact (List.prefix_append_right_inj _).2 hq2
            | true =>
              simp only [if_true] at hb2 ⊢
              rw [hb2, hb1]
              exact ⟨fun _ => rfl, List.prefix_rfl⟩

/-! ## whole runs: constructor, any `Write`s (the caller carrying on whatever they return), `Close` -/

/-- the state after the `Write`s of `ws`, whatever they returned -/
def farmRun (a : FArm) (ws : List Bytes) : FArm := ws.foldl (fun a b => (a.write b).2) a

theorem farm_calls_writes : ∀ (ws : List Bytes) (a : FArm), (FArm.calls a (ws.map some)).2 = farmRun a ws := by
  intro ws
  induction ws with
  | nil => intro a; rfl
  | cons b ws ih =>
    intro a
    rw [List.map_cons]
    unfold FArm.calls
    simp only
    rw [ih]
    rfl

theorem farmRun_failed : ∀ (ws : List Bytes) (a : FArm), a.failed = true → farmRun a ws = a := by
  intro ws
  induction ws with
  | nil => intro a _; rfl
  | cons b ws ih =>
    intro a hf
    unfold farmRun
    rw [List.foldl_cons, farm_write_failed a b hf]
    exact ih a hf

theorem run_sim : ∀ (ws : List Bytes) (a : FArm) (s : ArmState), Sim a s → a.EncOk → a.failed = false →
    ((farmRun a ws).failed = false →
      Sim (farmRun a ws) (ws.foldl ArmState.write s) ∧ (farmRun a ws).EncOk ∧ (farmRun a ws).w.faults = a.w.faults) ∧
    (farmRun a ws).w.bytes <+: (ws.foldl ArmState.write s).out := by
  intro ws
  induction ws with
  | nil =>
    intro a s h hok hf
    refine ⟨fun _ => ⟨h, hok, rfl⟩, ?_⟩
    show a.w.bytes <+: s.out
    rw [h.out]; exact List.prefix_rfl
  | cons b ws ih =>
    intro a s h hok hf
    have hstep : farmRun a (b :: ws) = farmRun (a.write b).2 ws := rfl
    rw [hstep, List.foldl_cons]
    obtain ⟨w1, w2⟩ := sim_write a s h hok hf b
    have hflag := farm_write_flag a b hf
    have hfl := farm_write_faults a b
    cases hr : (a.write b).1 with
    | true =>
      rw [hr] at hflag hfl
      simp only [Bool.not_true, Bool.true_or, if_true, Nat.add_zero] at hflag hfl
      obtain ⟨i1, i2⟩ := ih (a.write b).2 (s.write b) (w1 hr) (farm_encOk_write a b hok).2 hflag
      refine ⟨fun hh => ?_, i2⟩
      obtain ⟨j1, j2, j3⟩ := i1 hh
      exact ⟨j1, j2, by rw [j3, hfl]⟩
    | false =>
      rw [hr] at hflag
      simp only [Bool.not_false] at hflag
      rw [farmRun_failed ws _ hflag]
      refine ⟨fun hh => ?_, w2.trans (arm_fold_mono ws _)⟩
      rw [hflag] at hh; cases hh

theorem farm_init_sim (par : Armor.Params) (hdr ftr : Bytes) (sink : Stream.Sink) (part : List Nat)
    (hi : (FArm.init par hdr ftr ({ sink := sink, part := part } : Wr)).1 = true) :
    Sim (FArm.init par hdr ftr ({ sink := sink, part := part } : Wr)).2 (ArmState.init par hdr ftr) ∧
    (FArm.init par hdr ftr ({ sink := sink, part := part } : Wr)).2.failed = false ∧
    (FArm.init par hdr ftr ({ sink := sink, part := part } : Wr)).2.w.faults = 0 := by
  obtain ⟨_, _, hb⟩ := wr_write_bytes ({ sink := sink, part := part } : Wr) (hdr ++ [Armor.period, Armor.space])
  have hf := wr_write_faults ({ sink := sink, part := part } : Wr) (hdr ++ [Armor.period, Armor.space])
  unfold FArm.init at hi ⊢
  cases hw : ({ sink := sink, part := part } : Wr).write (hdr ++ [Armor.period, Armor.space]) with
  | mk ok w' =>
    rw [hw] at hb hf hi
    simp only at hi
    subst hi
    simp only [if_true] at hb hf
    refine ⟨⟨rfl, rfl, rfl, rfl, ?_, rfl, rfl⟩, rfl, ?_⟩
    · show w'.bytes = hdr ++ [Armor.period, Armor.space]
      rw [hb]; rfl
    · show w'.faults = 0
      rw [hf]

/-- **`Close` never reports success for a message that was not completely
    written** — the bare armor stream over a writer that fails as `sink` says,
    any payload split over `Write`s in any way, the caller carrying on whatever
    the `Write`s returned: if `Close` returns success then no underlying write
    ever failed and the writer holds exactly the armored text of everything
    passed to `Write`; and whatever happened the writer holds a prefix of it -/
theorem farm_run_close (par : Armor.Params) (he : par.enc.WF) (hw : 0 < par.bytesPerWord) (hdr ftr : Bytes)
    (sink : Stream.Sink) (part : List Nat) (ws : List Bytes) (hi : (FArm.init par hdr ftr ({ sink := sink, part := part } : Wr)).1 = true) :
    ((farmRun (FArm.init par hdr ftr ({ sink := sink, part := part } : Wr)).2 ws).close.1 = true →
      (farmRun (FArm.init par hdr ftr ({ sink := sink, part := part } : Wr)).2 ws).close.2.w.faults = 0 ∧
      (farmRun (FArm.init par hdr ftr ({ sink := sink, part := part } : Wr)).2 ws).close.2.w.bytes =
        Armor.sealText par hdr ftr ws.flatten) ∧
    (farmRun (FArm.init par hdr ftr ({ sink := sink, part := part } : Wr)).2 ws).close.2.w.bytes <+:
      Armor.sealText par hdr ftr ws.flatten := by
  obtain ⟨hs, hf, h0⟩ := farm_init_sim par hdr ftr sink part hi
  obtain ⟨r1, r2⟩ := run_sim ws _ _ hs (farm_encOk_init par hdr ftr _) hf
  rw [← armorWriter_any_split par he hw hdr ftr ws]
  generalize farmRun (FArm.init par hdr ftr ({ sink := sink, part := part } : Wr)).2 ws = a at r1 r2 ⊢
  generalize ws.foldl ArmState.write (ArmState.init par hdr ftr) = s at r1 r2 ⊢
  cases hfa : a.failed with
  | true =>
    rw [farm_close_failed a hfa]
    exact ⟨fun hh => (by cases hh), r2.trans (arm_close_mono s)⟩
  | false =>
    obtain ⟨j1, j2, j3⟩ := r1 hfa
    obtain ⟨c1, c2⟩ := sim_close a s j1 j2 hfa
    refine ⟨fun hh => ⟨?_, c1 hh⟩, c2⟩
    have := farm_close_faults a
    rw [hh] at this
    simpa [j3, h0] using this

/-! ## the byte count a `Write` returns -/

theorem interior_count : ∀ (fuel : Nat) (s : EncState) (p : Bytes) (n : Nat),
    (EncState.interior fuel s p n).1 = true →
    (EncState.interior fuel s p n).2.2.2 + (EncState.interior fuel s p n).2.2.1.length = n + p.length := by
  intro fuel
  induction fuel with
  | zero => intro s p n _; rfl
  | succ fuel ih =>
    intro s p n
    unfold EncState.interior
    by_cases hge : p.length ≥ s.enc.blockLen
    · simp only [if_pos hge]
      have hnn : (if 128 * s.enc.blockLen > p.length then p.length - p.length % s.enc.blockLen else 128 * s.enc.blockLen) ≤ p.length := by
        split <;> omega
      generalize (if 128 * s.enc.blockLen > p.length then p.length - p.length % s.enc.blockLen else 128 * s.enc.blockLen) = nn at hnn
      cases hu : s.under (Basex.encode s.enc (p.take nn)) with
      | mk ok s1 =>
        cases ok with
        | false => intro h; cases h
        | true =>
          simp only [Bool.not_true, Bool.false_eq_true, if_false]
          intro h
          have := ih s1 (p.drop nn) (n + nn) h
          rw [List.length_drop] at this
          omega
    · simp only [if_neg hge]
      intro _; trivial

theorem encRest_count (s : EncState) (p : Bytes) (n : Nat) (h : (encRest s p n).2.1 = true) :
    (encRest s p n).1 = n + p.length := by
  have hc := interior_count (p.length + 1) s p n
  unfold encRest at h ⊢
  simp only at h ⊢
  cases hi : (EncState.interior (p.length + 1) s p n).1 with
  | false => rw [hi] at h; simp at h
  | true =>
    simp only [hi, Bool.not_true, Bool.false_eq_true, if_false]
    exact hc hi

/-- a BaseX encoder `Write` that reports success has consumed all of `p` -/
theorem enc_write_count (s : EncState) (p : Bytes) (h : (s.write p).2.1 = true) : (s.write p).1 = p.length := by
  rw [write_eq] at h ⊢
  cases hF : s.failed with
  | true => rw [hF] at h; simp at h
  | false =>
    rw [hF] at h
    simp only [Bool.false_eq_true, if_false] at h ⊢
    cases hB : (!s.buf.isEmpty) with
    | false =>
      rw [hB] at h
      simp only [Bool.false_eq_true, if_false] at h ⊢
      simpa using encRest_count s p 0 h
    | true =>
      rw [hB] at h
      simp only [if_true] at h ⊢
      have htl : encTl s p = min (s.enc.blockLen - s.buf.length) p.length := by
        unfold encTl; rw [List.length_take]
      by_cases hl : (encFringe s p).length < s.enc.blockLen
      · simp only [hl, if_true]
        unfold encFringe at hl
        rw [List.length_append, List.length_take] at hl
        rw [htl]; omega
      · simp only [hl, if_false] at h ⊢
        cases hU : (!(encFringeU s p).1) with
        | true => rw [hU] at h; simp at h
        | false =>
          rw [hU] at h
          simp only [Bool.false_eq_true, if_false] at h ⊢
          rw [encRest_count _ _ _ h, List.length_drop, htl]
          omega

/-- `Write` of a stream that has not failed returns `len(b)` — also when
    `spaceAndOutputBuffer` fails in it (`return n, err`) -/
theorem farm_writeN_count (a : FArm) (b : Bytes) (hok : a.EncOk) (hf : a.failed = false) :
    (a.writeN b).1 = b.length := by
  have he := (farm_encOk_write a b hok).1
  have hn := enc_write_count a.enc b he
  unfold FArm.writeN
  simp only [hf, Bool.false_eq_true, if_false]
  rcases hw : a.enc.write b with ⟨n, ok, e'⟩
  rw [hw] at he hn
  simp only at he hn
  subst he hn
  simp only
  cases FArm.spaceOut ((a.feed e').buf.length + 1) (a.feed e') with
  | mk ok2 s2 => cases ok2 <;> rfl

/-! ## sticky along whole runs of calls -/

theorem farm_calls_fault_flag (f0 : Nat) : ∀ (ops : List (Option Bytes)) (a : FArm),
    (a.w.faults ≠ f0 → a.failed = true) →
    ((FArm.calls a ops).2.w.faults ≠ f0 → (FArm.calls a ops).2.failed = true) := by
  intro ops
  induction ops with
  | nil => intro a h; exact h
  | cons o ops ih =>
    intro a h
    cases o with
    | none =>
      unfold FArm.calls
      simp only
      apply ih
      intro hne
      by_cases hc : a.close.2.w.faults = a.w.faults
      · have hf := h (by rw [← hc]; exact hne)
        rw [farm_close_failed a hf]; exact hf
      · exact (farm_fault_sets_flag a []).2 hc
    | some b =>
      unfold FArm.calls
      simp only
      apply ih
      show (a.write b).2.w.faults ≠ f0 → (a.write b).2.failed = true
      intro hne
      by_cases hc : (a.write b).2.w.faults = a.w.faults
      · have hf := h (by rw [← hc]; exact hne)
        rw [farm_write_failed a b hf]; exact hf
      · exact (farm_fault_sets_flag a b).1 hc

/-- before `Close` too: after any `Write`s the writer holds a prefix of the complete text -/
theorem farm_run_prefix (par : Armor.Params) (he : par.enc.WF) (hw : 0 < par.bytesPerWord) (hdr ftr : Bytes)
    (sink : Stream.Sink) (part : List Nat) (ws : List Bytes) (hi : (FArm.init par hdr ftr ({ sink := sink, part := part } : Wr)).1 = true) :
    (farmRun (FArm.init par hdr ftr ({ sink := sink, part := part } : Wr)).2 ws).w.bytes <+: Armor.sealText par hdr ftr ws.flatten := by
  obtain ⟨hs, hf, _⟩ := farm_init_sim par hdr ftr sink part hi
  obtain ⟨_, r2⟩ := run_sim ws _ _ hs (farm_encOk_init par hdr ftr _) hf
  rw [← armorWriter_any_split par he hw hdr ftr ws]
  exact r2.trans (arm_close_mono _)

end Saltpack.Proofs.SenderP
