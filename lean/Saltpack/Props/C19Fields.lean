/-
  Property C19 (first half) — sender and hidden-recipient identities stay
  hidden; visible recipients are named exactly once.

  "Appears nowhere in the bytes" is stated as *provenance*: the emitted message
  is `headerPacket (encode header) ++ payload packets`, the encoder is injective
  and adds nothing (C08), so what the bytes can carry is what the packet fields
  carry.  The theorems say, for every input,

  * which field names whom: the key-id slot of a recipient entry is `nil` for a
    hidden recipient and the recipient's public key for a visible one, in header
    order — so (recipient keys being pairwise distinct, which `Seal` checks) a
    visible recipient is named exactly once and a hidden one never;
  * which fields depend on the sender at all: only the sender secretbox (a
    secretbox under the fresh payload key) and the per-recipient authenticators
    (HMACs under keys derived from `box(sender secret, recipient key)`): the
    whole message is unchanged when the sender's key pair is replaced by another
    that yields the same secretbox and the same derived boxes (noninterference
    up to the outputs of the primitives);
  * an anonymous sender's message is the message of the ephemeral key itself;
  * a hidden recipient's public key enters only through `box(·, that key, …)`;
  * in signcryption a box-key recipient's key enters only through the derived
    shared key, its identifier slot is an HMAC of that key, and everything that
    depends on the signing key is inside a secretbox under the payload key.

  Not claimed: that primitive *outputs* never contain a key as a substring by
  coincidence (a statement about X25519/XSalsa20/SHA-512, outside this model).
  The correspondence stream `fields.*` searches the real bytes for the real keys.

  Statements only; proofs in Saltpack/Proofs/Fields.lean.
-/
import Saltpack.Proofs.Fields
import Saltpack.Toy

namespace Saltpack.Props.C19
open Saltpack

/-! ## encryption -/

/-- the key-id slots of the header, in header order: `nil` for hidden
    recipients, the public key for visible ones — and nothing else -/
theorem C19_enc_kid_slots (P : Prims) (v : Version) (sender : Option Bytes) (eph pk : Bytes)
    (rs : List Encrypt.Recipient) (h : EncHeader)
    (hh : Encrypt.header P v sender eph pk rs = .ok h) :
    h.receivers.map (·.kid) = rs.map (fun r => if r.hidden then none else some r.pub) :=
  Proofs.enc_kid_slots P v sender eph pk rs h hh

/-- visible recipients are named exactly once, hidden recipients never (the
    recipient keys are pairwise distinct: `checkEncryptReceivers`) -/
theorem C19_enc_named_once (P : Prims) (v : Version) (sender : Option Bytes) (eph pk : Bytes)
    (rs : List Encrypt.Recipient) (h : EncHeader)
    (hh : Encrypt.header P v sender eph pk rs = .ok h)
    (hck : Encrypt.checkReceivers rs = .ok ()) (r : Encrypt.Recipient) (hr : r ∈ rs) :
    (h.receivers.filter (fun e => e.kid = some r.pub)).length = (if r.hidden then 0 else 1) :=
  Proofs.enc_named_once P v sender eph pk rs h hh hck r hr

/-- every header field other than the sender secretbox is independent of the
    sender (the recipient entries are boxed by the *ephemeral* key) -/
theorem C19_enc_header_sender_free (P : Prims) (v : Version) (s s' : Option Bytes) (eph pk : Bytes)
    (rs : List Encrypt.Recipient) :
    (Encrypt.header P v s eph pk rs).map (fun h => { h with senderSecretbox := [] })
      = (Encrypt.header P v s' eph pk rs).map (fun h => { h with senderSecretbox := [] }) :=
  Proofs.enc_header_sender_free P v s s' eph pk rs

/-- the sender secretbox is a secretbox of the sender's public key under the
    fresh payload key -/
theorem C19_enc_sender_secretbox (P : Prims) (v : Version) (s : Bytes) (eph pk : Bytes)
    (rs : List Encrypt.Recipient) (h : EncHeader)
    (hh : Encrypt.header P v (some s) eph pk rs = .ok h) :
    h.senderSecretbox = P.sbSeal pk Nonce.senderKeySecretBox (P.boxPub s) :=
  Proofs.enc_sender_secretbox P v s eph pk rs h hh

/-- **the sender's key enters only through primitive outputs**: two sender
    secrets that give the same sender secretbox and the same key-derivation
    boxes for every recipient give the same message, byte for byte -/
theorem C19_enc_sender_noninterference (P : Prims) (bs : Nat) (v : Version) (s s' : Bytes)
    (rs : List Encrypt.Recipient) (eph pk pt : Bytes)
    (hbox : P.sbSeal pk Nonce.senderKeySecretBox (P.boxPub s) = P.sbSeal pk Nonce.senderKeySecretBox (P.boxPub s'))
    (hmac : ∀ r ∈ rs, ∀ n, P.box s r.pub n (zeros 32) = P.box s' r.pub n (zeros 32)) :
    Encrypt.sealWith P bs v (some s) rs eph pk pt = Encrypt.sealWith P bs v (some s') rs eph pk pt :=
  Proofs.enc_sender_noninterference P bs v s s' rs eph pk pt hbox hmac

/-- an anonymous sender's message is exactly the message "sent by" the
    ephemeral key: no long-term identity is an input at all -/
theorem C19_enc_anonymous (P : Prims) (bs : Nat) (v : Version) (rs : List Encrypt.Recipient) (eph pk pt : Bytes) :
    Encrypt.sealWith P bs v none rs eph pk pt = Encrypt.sealWith P bs v (some eph) rs eph pk pt :=
  Proofs.enc_anonymous P bs v rs eph pk pt

/-- **a hidden recipient's key enters only through boxes made for it**: replace
    the hidden recipients' keys by others for which the two boxing keys (the
    ephemeral and the sender's) produce the same boxes, and the message is the
    same, byte for byte (the lists are related position by position: equal
    lengths and the relation on every pair of `rs.zip rs'`) -/
theorem C19_enc_hidden_noninterference (P : Prims) (bs : Nat) (v : Version) (sender : Option Bytes)
    (rs rs' : List Encrypt.Recipient) (eph pk pt : Bytes)
    (hck : Encrypt.checkReceivers rs = .ok ()) (hck' : Encrypt.checkReceivers rs' = .ok ())
    (hlen : rs.length = rs'.length)
    (hsame : ∀ r r', (r, r') ∈ rs.zip rs' →
        r.hidden = r'.hidden ∧ (r.hidden = false → r.pub = r'.pub) ∧
        (∀ n m, P.box eph r.pub n m = P.box eph r'.pub n m) ∧
        (∀ n m, P.box (sender.getD eph) r.pub n m = P.box (sender.getD eph) r'.pub n m)) :
    Encrypt.sealWith P bs v sender rs eph pk pt = Encrypt.sealWith P bs v sender rs' eph pk pt :=
  Proofs.enc_hidden_noninterference P bs v sender rs rs' eph pk pt hck hck' hlen hsame

/-! ## signcryption -/

/-- the identifier slot of a box-key recipient is an HMAC of the derived shared
    key (never the key itself); a symmetric-key recipient's is the identifier
    the application chose -/
theorem C19_sc_kid_slots (P : Prims) (sender : Option Bytes) (eph pk : Bytes) (rs : List Signcrypt.Recipient) :
    (Signcrypt.header P sender eph pk rs).receivers.map (·.kid)
      = (List.zipIdx rs).map (fun (r, i) => match r with
          | .box pub => some (Signcrypt.keyIdentifier P (Signcrypt.derivedKeyFromBoxKeys P pub eph) i)
          | .sym _ ident => some ident) :=
  Proofs.sc_kid_slots P sender eph pk rs

/-- **a box-key recipient's key enters only through the derived shared key** -/
theorem C19_sc_box_noninterference (P : Prims) (bs : Nat) (sender : Option Bytes)
    (rs rs' : List Signcrypt.Recipient) (eph pk pt : Bytes)
    (hck : Signcrypt.checkReceivers rs [] = .ok ()) (hck' : Signcrypt.checkReceivers rs' [] = .ok ())
    (hlen : rs.length = rs'.length)
    (hsame : ∀ r r', (r, r') ∈ rs.zip rs' → match r, r' with
        | .box p, .box p' => Signcrypt.derivedKeyFromBoxKeys P p eph = Signcrypt.derivedKeyFromBoxKeys P p' eph
        | .sym k i, .sym k' i' => k = k' ∧ i = i'
        | _, _ => False) :
    Signcrypt.sealWith P bs sender rs eph pk pt = Signcrypt.sealWith P bs sender rs' eph pk pt :=
  Proofs.sc_box_noninterference P bs sender rs rs' eph pk pt hck hck' hlen hsame

/-- every header field other than the sender secretbox is independent of the
    signing key -/
theorem C19_sc_header_sender_free (P : Prims) (s s' : Option Bytes) (eph pk : Bytes) (rs : List Signcrypt.Recipient) :
    { Signcrypt.header P s eph pk rs with senderSecretbox := [] }
      = { Signcrypt.header P s' eph pk rs with senderSecretbox := [] } :=
  Proofs.sc_header_sender_free P s s' eph pk rs

/-- everything that depends on the signing key is the plaintext of a secretbox
    under the payload key: the sender secretbox holds the public key (32 zero
    bytes when anonymous), each payload packet holds `signature ‖ chunk` -/
theorem C19_sc_sender_inside_secretboxes (P : Prims) (sender : Option Bytes) (eph pk hh : Bytes)
    (rs : List Signcrypt.Recipient) (i : Nat) (chunk : Bytes) (fin : Bool) (b : SigncryptBlock)
    (hb : Signcrypt.blockStruct P sender pk hh i chunk fin = .ok b) :
    (Signcrypt.header P sender eph pk rs).senderSecretbox
        = P.sbSeal pk Nonce.senderKeySecretBox (match sender with | none => zeros 32 | some s => P.sigPub s)
    ∧ ∃ sg, b.ct = P.sbSeal pk (Nonce.chunkSigncryption hh fin i) (sg ++ chunk) ∧
        (sender = none → sg = zeros 64) :=
  Proofs.sc_sender_inside_secretboxes P sender eph pk hh rs i chunk fin b hb

/-! ## non-vacuity -/

example : Encrypt.checkReceivers [⟨[1], false⟩, ⟨[2], true⟩] = .ok () := by decide

example :
    (match Encrypt.header Toy.prims v2 (some [7]) [9] [5] [⟨[1], false⟩, ⟨[2], true⟩] with
     | .ok h => h.receivers.map (·.kid)
     | .error _ => []) = [some [1], none] := by decide

end Saltpack.Props.C19
