/-
  Property C07 — detached signatures verify exactly the signed message and
  nothing else.  Statements only; proofs in Saltpack/Proofs/RoundTripSig.lean
  and Receiver.lean.
-/
import Saltpack.Proofs.RoundTripSig
import Saltpack.Proofs.SignReader
import Saltpack.Proofs.WireRT
import Saltpack.Toy

namespace Saltpack.Props.C07
open Saltpack

/-- **Round trip**: a detached signature for `msg` by `signer` verifies against
    `msg` under a keyring that knows the signer, and returns the signer's key. -/
theorem C07_roundtrip (P : Prims) (hP : P.Lawful)
    (v : Version) (hv : v = v1 ∨ v = v2) (signer nonce msg : Bytes)
    (kr : Keyring) (hk : kr.lookupSigningPublicKey (P.sigPub signer) = some (P.sigPub signer)) :
    let h := Sign.header v (P.sigPub signer) mtDetached nonce
    let hb := Msgpack.encode h.toVal
    Sign.verifyDetached P knownMajor kr (.ok hb h)
        (.sig (P.sign signer (detachedSignatureInput P (P.hash hb) msg))) msg = .ok (P.sigPub signer) :=
  Proofs.detached_roundtrip P hP v hv signer nonce msg kr hk

/-- **Soundness**: verification succeeds for a (message, signature) pair only
    through a successful signature check, under the key the keyring returned for
    the header's signer field, on exactly
    `"saltpack detached signature\0" ‖ hash(hash(header bytes) ‖ message)`, with
    a header that says "saltpack", an admitted version and detached mode.  So
    the signer signed exactly this message under exactly this header in detached
    mode — or the signature scheme / the hash is broken IN THIS VERY
    VERIFICATION: `C07_sound_or_break` below makes that precise with the
    anchored `DetachedBreakIn P k H hb msg sg` (a forgery is the signature `sg`
    that was accepted here, on the input computed here; a collision is between
    the string `P.hash hb ++ msg` hashed here and the string an honest signing
    event hashed).  This is the detached counterpart of the anchored
    `AuthSig.BreakIn` of C06 (`C06_break_def`); the un-anchored `Break` that
    C06 once had was provable outright and is gone. -/
theorem C07_sound (P : Prims) (valid : Validator) (kr : Keyring)
    (hr : HeaderRead SigHeader) (sr : Sign.SigRead) (msg k : Bytes)
    (hok : Sign.verifyDetached P valid kr hr sr msg = .ok k) :
    ∃ hb h sg, hr = .ok hb h ∧ sr = .sig sg ∧
      h.formatName = Gen.c_sp_FormatName ∧ valid h.version = true ∧ h.typ = mtDetached ∧
      kr.lookupSigningPublicKey h.senderPublic = some k ∧
      P.verify k (Gen.c_sp_signatureDetachedString ++ P.hash (P.hash hb ++ msg)) sg = true :=
  Proofs.detached_sound P valid kr hr sr msg k hok

/-! ## what is signed determines header hash and message -/

/-- **Unique decomposition of the hashed string**: header hash (64 bytes) ‖
    message determines both parts. -/
theorem C07_input_unique (hh hh' m m' : Bytes) (h1 : hh.length = 64) (h2 : hh'.length = 64)
    (h : hh ++ m = hh' ++ m') : hh = hh' ∧ m = m' :=
  List.append_inj h (by omega)

/-- the detached signature input is `domain ‖ hash(header hash ‖ message)`: two
    inputs coincide exactly when those hashes coincide (the domain is a fixed
    prefix) … -/
theorem C07_detached_input_eq_iff (P : Prims) (hh hh' m m' : Bytes) :
    detachedSignatureInput P hh m = detachedSignatureInput P hh' m' ↔
      P.hash (hh ++ m) = P.hash (hh' ++ m') := by
  unfold detachedSignatureInput detachedSignatureInputFromHash
  exact ⟨List.append_cancel_left, fun h => by rw [h]⟩

/-- … so equal detached inputs mean equal (header hash, message) — or the two
    explicit strings `hh ++ m ≠ hh' ++ m'` are a hash collision.  (Uniqueness is
    of the HASHED string; the signed string only contains its hash.) -/
theorem C07_detached_input_unique (P : Prims) (hh hh' m m' : Bytes)
    (h1 : hh.length = 64) (h2 : hh'.length = 64)
    (h : detachedSignatureInput P hh m = detachedSignatureInput P hh' m') :
    (hh = hh' ∧ m = m') ∨ (hh ++ m ≠ hh' ++ m' ∧ P.hash (hh ++ m) = P.hash (hh' ++ m')) := by
  have hh_eq := (C07_detached_input_eq_iff P hh hh' m m').1 h
  by_cases he : hh ++ m = hh' ++ m'
  · exact Or.inl (C07_input_unique hh hh' m m' h1 h2 he)
  · exact Or.inr ⟨he, hh_eq⟩

/-! ## soundness as a reduction, with an ANCHORED break -/

/-- an honest detached signing event of the key's owner: header hash and message -/
structure DetachedEvent where
  headerHash : Bytes
  msg : Bytes

/-- every input the honest owner of the key signed in detached mode -/
def HonestlySignedDetached (P : Prims) (H : List DetachedEvent) (inp : Bytes) : Prop :=
  ∃ e ∈ H, inp = detachedSignatureInput P e.headerHash e.msg

/-- **The break a detached verification of (`hb`, `msg`, `sg`) under key `k` can
    exhibit** — anchored to that verification:
    * forgery: THE signature `sg` verifies under `k` on THE input computed from
      `hb` and `msg`, and the owner of `k` never signed that input; or
    * collision: THE string `P.hash hb ++ msg` hashed in this verification and
      the string `e.headerHash ++ e.msg` of an honest event are different
      strings with the same hash. -/
def DetachedBreakIn (P : Prims) (k : Bytes) (H : List DetachedEvent) (hb msg sg : Bytes) : Prop :=
  (P.verify k (detachedSignatureInput P (P.hash hb) msg) sg = true ∧
      ¬ HonestlySignedDetached P H (detachedSignatureInput P (P.hash hb) msg)) ∨
  (∃ e ∈ H, P.hash hb ++ msg ≠ e.headerHash ++ e.msg ∧
      P.hash (P.hash hb ++ msg) = P.hash (e.headerHash ++ e.msg))

/-- **Soundness, as a reduction** (`H`: everything the owner of the returned key
    ever signed in detached mode, header hashes 64 bytes): a successful
    verification means the owner signed exactly this message under exactly this
    header hash — or `DetachedBreakIn` for this very (header, message,
    signature). -/
theorem C07_sound_or_break (P : Prims) (hP : P.Lawful) (valid : Validator) (kr : Keyring)
    (hr : HeaderRead SigHeader) (sr : Sign.SigRead) (msg k : Bytes)
    (H : List DetachedEvent) (hlen : ∀ e ∈ H, e.headerHash.length = 64)
    (hok : Sign.verifyDetached P valid kr hr sr msg = .ok k) :
    ∃ hb h sg, hr = .ok hb h ∧ sr = .sig sg ∧ kr.lookupSigningPublicKey h.senderPublic = some k ∧
      ((∃ e ∈ H, e.headerHash = P.hash hb ∧ e.msg = msg) ∨ DetachedBreakIn P k H hb msg sg) := by
  obtain ⟨hb, h, sg, hhr, hsr, _, _, _, hk, hver⟩ := Proofs.detached_sound P valid kr hr sr msg k hok
  refine ⟨hb, h, sg, hhr, hsr, hk, ?_⟩
  by_cases hs : HonestlySignedDetached P H (detachedSignatureInput P (P.hash hb) msg)
  · obtain ⟨e, he, hinp⟩ := hs
    rcases C07_detached_input_unique P _ _ _ _ (hP.hash_len hb) (hlen e he) hinp with ⟨e1, e2⟩ | ⟨hne, heq⟩
    · exact Or.inl ⟨e, he, e1.symm, e2.symm⟩
    · exact Or.inr (Or.inr ⟨e, he, hne, heq⟩)
  · exact Or.inr (Or.inl ⟨hver, hs⟩)

/-- the break is not always true: it is FALSE whenever the history contains the
    verified (header hash, message) and nothing else — for every `Prims` -/
theorem C07_break_not_trivial (P : Prims) (k hb msg sg : Bytes) :
    ¬ DetachedBreakIn P k [⟨P.hash hb, msg⟩] hb msg sg := by
  rintro (⟨_, hnot⟩ | ⟨e, he, hne, _⟩)
  · exact hnot ⟨_, List.mem_singleton.2 rfl, rfl⟩
  · rw [List.mem_singleton.1 he] at hne
    exact hne rfl

/-- **Mode separation**: the three signature domain strings are pairwise
    distinct and none is a prefix of another, so an attached-mode signature, an
    attached packet's signature or a signcryption signature is a signature on a
    *different* input and can never verify as detached (and vice versa) without a
    signature forgery. -/
theorem C07_mode_separation :
    Gen.c_sp_signatureAttachedString.length = Gen.c_sp_signatureDetachedString.length ∧
    Gen.c_sp_signatureAttachedString ≠ Gen.c_sp_signatureDetachedString ∧
    ¬ (Gen.c_sp_signatureAttachedString <+: Gen.c_sp_signatureEncryptedString) ∧
    ¬ (Gen.c_sp_signatureDetachedString <+: Gen.c_sp_signatureEncryptedString) ∧
    ¬ (Gen.c_sp_signatureEncryptedString <+: Gen.c_sp_signatureAttachedString) ∧
    ¬ (Gen.c_sp_signatureEncryptedString <+: Gen.c_sp_signatureDetachedString) :=
  Proofs.domains_separate

/-- an attached-mode input and a detached-mode input never coincide -/
theorem C07_inputs_differ (x y : Bytes) :
    Gen.c_sp_signatureAttachedString ++ x ≠ Gen.c_sp_signatureDetachedString ++ y := by
  intro h
  have hl := Proofs.domains_separate.1
  have := (List.append_inj h hl).1
  exact Proofs.domains_separate.2.1 this

/-- the header's mode is checked: a header that does not say "detached" is
    refused before any signature is looked at -/
theorem C07_wrong_mode_refused (P : Prims) (valid : Validator) (kr : Keyring) (hb : Bytes) (h : SigHeader)
    (sr : Sign.SigRead) (msg : Bytes) (ht : h.typ ≠ mtDetached) :
    ∃ e, Sign.verifyDetached P valid kr (.ok hb h) sr msg = .error e := by
  cases hres : Sign.verifyDetached P valid kr (.ok hb h) sr msg with
  | error e => exact ⟨e, rfl⟩
  | ok k =>
    obtain ⟨hb', h', sg, hhr, _, _, _, htyp, _⟩ := Proofs.detached_sound P valid kr _ sr msg k hres
    cases hhr
    exact absurd htyp ht

/-! ## the message given as a reader -/

/-- **Any reader fragmentation**: a reader that delivers the message in any
    fragments `frags` and reports EOF either alone or together with a last
    fragment gives exactly the answer of the bytes form on the concatenation —
    so genuine signatures verify and every altered message is refused
    (`C07_roundtrip`, `C07_sound`) however the reader delivers it. -/
theorem C07_reader_any_fragmentation (P : Prims) (valid : Validator) (kr : Keyring)
    (hr : HeaderRead SigHeader) (sr : Sign.SigRead) (frags : List Bytes) (last : Option Bytes) :
    Sign.verifyDetachedReader P valid kr hr sr (Proofs.fragSource frags last)
      = Sign.verifyDetached P valid kr hr sr (frags.flatten ++ last.getD []) :=
  Proofs.verifyDetachedReader_eq P valid kr hr sr _ _ (Proofs.copyAll_frag frags last)

/-- a reader that fails (alone or with data, after any fragments) never yields a
    successful verification -/
theorem C07_reader_fault_refused (P : Prims) (valid : Validator) (kr : Keyring)
    (hr : HeaderRead SigHeader) (sr : Sign.SigRead) (frags : List Bytes) (d : Bytes) (z : Err)
    (rest : Stream.Source) :
    ∃ e, Sign.verifyDetachedReader P valid kr hr sr (frags.map (·, none) ++ (d, some (.err z)) :: rest) = .error e :=
  Proofs.verifyDetachedReader_fault P valid kr hr sr _ z (Proofs.copyAll_fault frags d z rest)

/-- **Round trip on the emitted BYTES**: what `SignDetached` emits, split into
    header and signature object, verifies against the message -/
theorem C07_roundtrip_bytes (P : Prims) (hP : P.Lawful)
    (v : Version) (signer nonce msg : Bytes) (hn : nonce.length + 92 < 2 ^ 32)
    (kr : Keyring) (hk : kr.lookupSigningPublicKey (P.sigPub signer) = some (P.sigPub signer))
    (out : Bytes) (hout : Sign.detachedWith P v signer nonce msg = .ok out) :
    ∃ hr sr, Wire.splitDetached out = .ok (hr, sr) ∧
      Sign.verifyDetached P knownMajor kr hr sr msg = .ok (P.sigPub signer) :=
  Proofs.detached_roundtrip_bytes P hP v signer nonce msg hn kr hk out hout

/-! ## non-vacuity -/
example : Sign.copyAll [([1, 2], none), ([], none), ([3], some .eof), ([9], none)] = ([1, 2, 3], none) := by decide

example : Toy.prims.Lawful := Toy.lawful

end Saltpack.Props.C07
