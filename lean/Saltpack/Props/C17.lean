/-
  Property C17 — format name, version and mode are gated on both sides; no
  cross-mode confusion.  Statements only; proofs in Saltpack/Proofs/NoPanic.lean
  (gates), Receiver.lean (domain separation), RoundTripSig.lean (detached),
  ModeSeparation.lean (transplanted / edited headers, labels).
-/
import Saltpack.Proofs.NoPanic
import Saltpack.Proofs.Receiver
import Saltpack.Proofs.RoundTripSig
import Saltpack.Proofs.ModeSeparation

namespace Saltpack.Props.C17
open Saltpack Saltpack.Proofs

/-! ## receiving side: nothing is processed, released or accepted unless the
    header names the saltpack format, carries an admitted version and the mode
    the entry point serves -/

theorem C17_decrypt_gate (P : Prims) (valid : Validator) (kr : Keyring) (hb : Bytes) (h : EncHeader)
    (ps : PStream EncBlock)
    (hrel : (Decrypt.openStream P valid kr (.ok hb h) ps).released ≠ [] ∨
            (Decrypt.openStream P valid kr (.ok hb h) ps).err = none) :
    h.formatName = Gen.c_sp_FormatName ∧ valid h.version = true ∧ h.typ = mtEncryption :=
  enc_gate_released P valid kr hb h ps hrel

theorem C17_signcrypt_gate (P : Prims) (kr : Keyring) (res : Signcrypt.Resolver) (hb : Bytes) (h : EncHeader)
    (ps : PStream SigncryptBlock)
    (hrel : (Signcrypt.openStream P kr res (.ok hb h) ps).released ≠ [] ∨
            (Signcrypt.openStream P kr res (.ok hb h) ps).err = none) :
    h.formatName = Gen.c_sp_FormatName ∧ h.version.major = 2 ∧ h.typ = mtSigncryption :=
  sc_gate_released P kr res hb h ps hrel

theorem C17_verify_gate (P : Prims) (valid : Validator) (kr : Keyring) (hb : Bytes) (h : SigHeader)
    (ps : PStream SigBlock)
    (hok : (Sign.verifyStream P valid kr (.ok hb h) ps).err = none) :
    h.formatName = Gen.c_sp_FormatName ∧ valid h.version = true ∧ h.typ = mtAttached :=
  ver_gate P valid kr hb h ps hok

theorem C17_verify_gate_released (P : Prims) (valid : Validator) (kr : Keyring) (hb : Bytes) (h : SigHeader)
    (ps : PStream SigBlock)
    (hrel : (Sign.verifyStream P valid kr (.ok hb h) ps).released ≠ []) :
    h.formatName = Gen.c_sp_FormatName ∧ valid h.version = true ∧ h.typ = mtAttached :=
  ver_gate_released P valid kr hb h ps hrel

theorem C17_detached_gate (P : Prims) (valid : Validator) (kr : Keyring)
    (hr : HeaderRead SigHeader) (sr : Sign.SigRead) (msg k : Bytes)
    (hok : Sign.verifyDetached P valid kr hr sr msg = .ok k) :
    ∃ hb h, hr = .ok hb h ∧ h.formatName = Gen.c_sp_FormatName ∧ valid h.version = true ∧ h.typ = mtDetached := by
  obtain ⟨hb, h, sg, h1, _, h2, h3, h4, _⟩ := detached_sound P valid kr hr sr msg k hok
  exact ⟨hb, h, h1, h2, h3, h4⟩

/-! ## no cross-mode confusion -/

/-- the four mode numbers are pairwise distinct, so a header accepted by one
    entry point is refused by every other… -/
theorem C17_modes_distinct :
    mtEncryption ≠ mtAttached ∧ mtEncryption ≠ mtDetached ∧ mtEncryption ≠ mtSigncryption ∧
    mtAttached ≠ mtDetached ∧ mtAttached ≠ mtSigncryption ∧ mtDetached ≠ mtSigncryption :=
  modes_distinct

/-- …and editing the mode (or version, or anything else) in a header changes the
    header bytes, hence — absent a hash collision — the header hash that every
    MAC and signature input starts from; the signature inputs of the three
    signing modes moreover start with pairwise non-prefix domain strings. -/
theorem C17_domains_separate :
    Gen.c_sp_signatureAttachedString.length = Gen.c_sp_signatureDetachedString.length ∧
    Gen.c_sp_signatureAttachedString ≠ Gen.c_sp_signatureDetachedString ∧
    ¬ (Gen.c_sp_signatureAttachedString <+: Gen.c_sp_signatureEncryptedString) ∧
    ¬ (Gen.c_sp_signatureDetachedString <+: Gen.c_sp_signatureEncryptedString) ∧
    ¬ (Gen.c_sp_signatureEncryptedString <+: Gen.c_sp_signatureAttachedString) ∧
    ¬ (Gen.c_sp_signatureEncryptedString <+: Gen.c_sp_signatureDetachedString) :=
  domains_separate

/-- a message that is honest in one encryption-family mode is refused by the
    receiver of the other: same header structure, different mode number -/
theorem C17_enc_vs_signcrypt (P : Prims) (valid : Validator) (kr : Keyring) (res : Signcrypt.Resolver)
    (hb : Bytes) (h : EncHeader) (ps : PStream EncBlock) (ps' : PStream SigncryptBlock) :
    ¬ ((Decrypt.openStream P valid kr (.ok hb h) ps).err = none ∧
       (Signcrypt.openStream P kr res (.ok hb h) ps').err = none) := by
  rintro ⟨h1, h2⟩
  have a := (enc_gate_released P valid kr hb h ps (Or.inr h1)).2.2
  have b := (sc_gate_released P kr res hb h ps' (Or.inr h2)).2.2
  exact modes_distinct.2.2.1 (a.symm.trans b)

/-- likewise attached vs detached: one header cannot serve both -/
theorem C17_attached_vs_detached (P : Prims) (valid : Validator) (kr : Keyring)
    (hb : Bytes) (h : SigHeader) (ps : PStream SigBlock) (sr : Sign.SigRead) (msg k : Bytes) :
    ¬ ((Sign.verifyStream P valid kr (.ok hb h) ps).err = none ∧
       Sign.verifyDetached P valid kr (.ok hb h) sr msg = .ok k) := by
  rintro ⟨h1, h2⟩
  have a := (ver_gate P valid kr hb h ps h1).2.2
  obtain ⟨hb', h', _, hh, _, _, _, b, _⟩ := detached_sound P valid kr _ sr msg k h2
  cases hh
  exact modes_distinct.2.2.2.1 (a.symm.trans b)

/-! ## editing or transplanting headers

  `headerTag hb` is the (mode, version) that header BYTES announce: elements 2
  and 1 of the header array, read exactly as every typed view reads them
  (`viewEncHeader`, `viewSigHeader`) — so it does not depend on which receiver
  looks at the bytes.  Hypotheses of the theorems below: `hhon` — `hb` are the
  header bytes of some message that announces mode `m`, version `ver` (for an
  honest sender: `C17_honest_header_tag`); `hrd` — the receiver read the header
  bytes `hb'` and go-codec decoded them into the typed header `h'`
  (`Wire.decodeHeader` = `decodeFromBytes`; holds for whatever `Wire.split…`
  yields, `Proofs.split_header_decoded`).  Conclusion: a receiver that released
  anything or accepted did so for header bytes `hb'` DIFFERENT from `hb`
  whenever `hb` announces another mode or a version it does not admit; the
  header hash `P.hash hb'` its MAC keys / signature inputs start from
  (`C17_receivers_bind_header_hash`) then differs from `P.hash hb`, or the two
  explicit strings `hb'`, `hb` are a SHA-512 collision.  No forgery/`Break`
  predicate is involved. -/

/-- editing the mode or the version in a header changes the header bytes
    (whatever else is edited, and for both header families) -/
theorem C17_edit_changes_bytes (hb : Bytes) (m : Int) (ver : Version) (hhon : headerTag hb = some (m, ver)) (hb' : Bytes) :
    (∀ h' : EncHeader, Wire.decodeHeader viewEncHeader hb' = .ok (.ok hb' h') → (h'.typ, h'.version) ≠ (m, ver) → hb' ≠ hb) ∧
    (∀ h' : SigHeader, Wire.decodeHeader viewSigHeader hb' = .ok (.ok hb' h') → (h'.typ, h'.version) ≠ (m, ver) → hb' ≠ hb) :=
  ⟨fun h' hrd hne => transplant_changes_bytes_enc hb m ver hhon hb' h' hrd hne,
   fun h' hrd hne => transplant_changes_bytes_sig hb m ver hhon hb' h' hrd hne⟩

theorem C17_decrypt_no_transplant (P : Prims) (valid : Validator) (kr : Keyring)
    (hb : Bytes) (m : Int) (ver : Version) (hhon : headerTag hb = some (m, ver))
    (hb' : Bytes) (h' : EncHeader)
    (hrd : Wire.decodeHeader viewEncHeader hb' = .ok (.ok hb' h'))
    (ps : PStream EncBlock)
    (hacc : (Decrypt.openStream P valid kr (.ok hb' h') ps).released ≠ [] ∨
            (Decrypt.openStream P valid kr (.ok hb' h') ps).err = none)
    (hother : m ≠ mtEncryption ∨ valid ver = false) :
    hb' ≠ hb ∧ (P.hash hb' ≠ P.hash hb ∨ (hb' ≠ hb ∧ P.hash hb' = P.hash hb)) :=
  decrypt_no_transplant P valid kr hb m ver hhon hb' h' hrd ps hacc hother

theorem C17_signcrypt_no_transplant (P : Prims) (kr : Keyring) (res : Signcrypt.Resolver)
    (hb : Bytes) (m : Int) (ver : Version) (hhon : headerTag hb = some (m, ver))
    (hb' : Bytes) (h' : EncHeader)
    (hrd : Wire.decodeHeader viewEncHeader hb' = .ok (.ok hb' h'))
    (ps : PStream SigncryptBlock)
    (hacc : (Signcrypt.openStream P kr res (.ok hb' h') ps).released ≠ [] ∨
            (Signcrypt.openStream P kr res (.ok hb' h') ps).err = none)
    (hother : m ≠ mtSigncryption ∨ ver.major ≠ 2) :
    hb' ≠ hb ∧ (P.hash hb' ≠ P.hash hb ∨ (hb' ≠ hb ∧ P.hash hb' = P.hash hb)) :=
  signcrypt_no_transplant P kr res hb m ver hhon hb' h' hrd ps hacc hother

theorem C17_verify_no_transplant (P : Prims) (valid : Validator) (kr : Keyring)
    (hb : Bytes) (m : Int) (ver : Version) (hhon : headerTag hb = some (m, ver))
    (hb' : Bytes) (h' : SigHeader)
    (hrd : Wire.decodeHeader viewSigHeader hb' = .ok (.ok hb' h'))
    (ps : PStream SigBlock)
    (hacc : (Sign.verifyStream P valid kr (.ok hb' h') ps).released ≠ [] ∨
            (Sign.verifyStream P valid kr (.ok hb' h') ps).err = none)
    (hother : m ≠ mtAttached ∨ valid ver = false) :
    hb' ≠ hb ∧ (P.hash hb' ≠ P.hash hb ∨ (hb' ≠ hb ∧ P.hash hb' = P.hash hb)) :=
  verify_no_transplant P valid kr hb m ver hhon hb' h' hrd ps hacc hother

theorem C17_detached_no_transplant (P : Prims) (valid : Validator) (kr : Keyring)
    (hb : Bytes) (m : Int) (ver : Version) (hhon : headerTag hb = some (m, ver))
    (hb' : Bytes) (h' : SigHeader)
    (hrd : Wire.decodeHeader viewSigHeader hb' = .ok (.ok hb' h'))
    (sr : Sign.SigRead) (msg k : Bytes)
    (hacc : Sign.verifyDetached P valid kr (.ok hb' h') sr msg = .ok k)
    (hother : m ≠ mtDetached ∨ valid ver = false) :
    hb' ≠ hb ∧ (P.hash hb' ≠ P.hash hb ∨ (hb' ≠ hb ∧ P.hash hb' = P.hash hb)) :=
  detached_no_transplant P valid kr hb m ver hhon hb' h' hrd sr msg k hacc hother

/-- between two ADMITTED versions too: a decryptor that accepted `hb'` works
    with the version that `hb'` announces; if that is not the version `hb`
    announces, the bytes differ (a V1 message relabelled V2, or vice versa, is a
    different header with a different header hash) -/
theorem C17_decrypt_version_bound (P : Prims) (valid : Validator) (kr : Keyring)
    (hb : Bytes) (m : Int) (ver : Version) (hhon : headerTag hb = some (m, ver))
    (hb' : Bytes) (h' : EncHeader)
    (hrd : Wire.decodeHeader viewEncHeader hb' = .ok (.ok hb' h'))
    (log : List KeyCall) (st : Decrypt.State)
    (hok : Decrypt.processHeader P valid kr (P.hash hb') h' = (log, .ok st))
    (hver : st.version ≠ ver) : hb' ≠ hb :=
  decrypt_version_bound P valid kr hb m ver hhon hb' h' hrd log st hok hver

/-- which hash the receivers bind: the state every MAC key / payload hash /
    signature input is computed from holds the hash of exactly the header bytes
    that were read -/
theorem C17_receivers_bind_header_hash (P : Prims) (valid : Validator) (kr : Keyring) (res : Signcrypt.Resolver)
    (hb : Bytes) :
    (∀ (h : EncHeader) (ps : PStream EncBlock),
      ((Decrypt.openStream P valid kr (.ok hb h) ps).released ≠ [] ∨ (Decrypt.openStream P valid kr (.ok hb h) ps).err = none) →
      ∃ log st, Decrypt.processHeader P valid kr (P.hash hb) h = (log, .ok st) ∧ st.headerHash = P.hash hb ∧
        st.version = h.version ∧
        (Decrypt.openStream P valid kr (.ok hb h) ps).released = (Decrypt.run P st ps.items ps.tail 1).bytes ∧
        (Decrypt.openStream P valid kr (.ok hb h) ps).err = (Decrypt.run P st ps.items ps.tail 1).err) ∧
    (∀ (h : EncHeader) (ps : PStream SigncryptBlock),
      ((Signcrypt.openStream P kr res (.ok hb h) ps).released ≠ [] ∨ (Signcrypt.openStream P kr res (.ok hb h) ps).err = none) →
      ∃ log st, Signcrypt.processHeader P kr res (P.hash hb) h = (log, .ok st) ∧ st.headerHash = P.hash hb ∧
        (Signcrypt.openStream P kr res (.ok hb h) ps).released = (Signcrypt.run P st ps.items ps.tail 1).bytes ∧
        (Signcrypt.openStream P kr res (.ok hb h) ps).err = (Signcrypt.run P st ps.items ps.tail 1).err) ∧
    (∀ (h : SigHeader) (ps : PStream SigBlock),
      ((Sign.verifyStream P valid kr (.ok hb h) ps).released ≠ [] ∨ (Sign.verifyStream P valid kr (.ok hb h) ps).err = none) →
      ∃ pk, kr.lookupSigningPublicKey h.senderPublic = some pk ∧
        (Sign.verifyStream P valid kr (.ok hb h) ps).released = (Sign.run P ⟨h.version, P.hash hb, pk⟩ ps.items ps.tail 1).bytes ∧
        (Sign.verifyStream P valid kr (.ok hb h) ps).err = (Sign.run P ⟨h.version, P.hash hb, pk⟩ ps.items ps.tail 1).err) :=
  ⟨fun h ps hacc => dec_open_binds_hash P valid kr hb h ps hacc,
   fun h ps hacc => sc_open_binds_hash P kr res hb h ps hacc,
   fun h ps hacc => let ⟨pk, h1, _, h3, h4⟩ := ver_binds_hash P valid kr hb h ps hacc; ⟨pk, h1, h3, h4⟩⟩

/-- what an honest sender's header bytes announce: its own mode and the
    requested version (`ValWF`: field lengths < 2³², integers in the msgpack
    range — what `Msgpack.encode` round-trips on) -/
theorem C17_honest_header_tag (P : Prims) :
    (∀ bs v sender rs eph pk pt (h : EncHeader) hb blks,
      Encrypt.sealPackets P bs v sender rs eph pk pt = .ok (h, hb, blks) → ValWF h.toVal →
      headerTag hb = some (mtEncryption, v)) ∧
    (∀ bs sender rs eph pk pt (h : EncHeader) hb blks,
      Signcrypt.sealPackets P bs sender rs eph pk pt = .ok (h, hb, blks) → ValWF h.toVal →
      headerTag hb = some (mtSigncryption, v2)) ∧
    (∀ bs v signer nonce msg (h : SigHeader) hb blks,
      Sign.attachedPackets P bs v signer nonce msg = .ok (h, hb, blks) → ValWF h.toVal →
      headerTag hb = some (mtAttached, v)) ∧
    (∀ v signer nonce msg out, Sign.detachedWith P v signer nonce msg = .ok out →
      (P.sigPub signer).length < 2 ^ 32 → nonce.length < 2 ^ 32 →
      ∃ hb rest, out = headerPacket hb ++ rest ∧ headerTag hb = some (mtDetached, v)) :=
  ⟨fun bs v sender rs eph pk pt h hb blks hs hwf => seal_header_tag P bs v sender rs eph pk pt h hb blks hs hwf,
   fun bs sender rs eph pk pt h hb blks hs hwf => signcrypt_header_tag P bs sender rs eph pk pt h hb blks hs hwf,
   fun bs v signer nonce msg h hb blks hs hwf => sign_header_tag P bs v signer nonce msg h hb blks hs hwf,
   fun v signer nonce msg out hs hpk hn => detached_header_tag P v signer nonce msg out hs hpk hn⟩

/-- **Domain separation of the signature inputs, all three pairs**: whatever
    follows the domain strings, an attached-mode input, a detached-mode input
    and a signcryption input are pairwise different byte strings — a signature
    made in one signing mode is a signature on a different message than any
    input another mode verifies… -/
theorem C17_sig_inputs_differ (x y : Bytes) :
    Gen.c_sp_signatureAttachedString ++ x ≠ Gen.c_sp_signatureDetachedString ++ y ∧
    Gen.c_sp_signatureAttachedString ++ x ≠ Gen.c_sp_signatureEncryptedString ++ y ∧
    Gen.c_sp_signatureDetachedString ++ x ≠ Gen.c_sp_signatureEncryptedString ++ y :=
  sig_inputs_differ x y

/-- …for the model's own input functions (any header hashes, chunks, flags) -/
theorem C17_model_sig_inputs_differ (P : Prims) (v : Version) (hh hh' hh'' chunk msg nonce chunk' : Bytes)
    (seqno : Nat) (f f' : Bool) (a : Bytes)
    (ha : attachedSignatureInput P v hh chunk seqno f = .ok a) :
    a ≠ detachedSignatureInput P hh' msg ∧
    a ≠ signcryptionSignatureInput P hh'' nonce f' chunk' ∧
    detachedSignatureInput P hh' msg ≠ signcryptionSignatureInput P hh'' nonce f' chunk' :=
  model_sig_inputs_differ P v hh hh' hh'' chunk msg nonce chunk' seqno f f' a ha

/-! ## sending side -/

/-- exactly 1.0 and 2.0 are implemented -/
theorem C17_known_versions (v : Version) : knownVersion v = true ↔ v = v1 ∨ v = v2 :=
  knownVersion_iff v

/-- any other version is refused with an error before any randomness is drawn or
    any byte written — never a panic, never a message labelled with it -/
theorem C17_seal_refuses_unknown (P : Prims) (bs : Nat) (v : Version) (hv : knownVersion v = false)
    (sender : Option Bytes) (rs : List Encrypt.Recipient) (eph : Encrypt.EphSource) (src : Rand.Source) (pt : Bytes) :
    Encrypt.sealRand P bs v sender rs eph src pt = .error .badVersion :=
  seal_refuses_unknown P bs v hv sender rs eph src pt

theorem C17_sign_refuses_unknown (P : Prims) (bs : Nat) (v : Version) (hv : knownVersion v = false)
    (signer : Bytes) (src : Rand.Source) (msg : Bytes) :
    Sign.attachedRand P bs v signer src msg = .error .badVersion ∧
    Sign.detachedRand P v signer src msg = .error .badVersion :=
  sign_refuses_unknown P bs v hv signer src msg

/-- what a sender emits is labelled with the requested, known version, the
    saltpack format name and its own mode -/
theorem C17_seal_labels (P : Prims) (bs : Nat) (v : Version) (sender : Option Bytes) (rs : List Encrypt.Recipient)
    (eph pk pt : Bytes) (h : EncHeader) (hb : Bytes) (blks : List EncBlock)
    (hs : Encrypt.sealPackets P bs v sender rs eph pk pt = .ok (h, hb, blks)) :
    h.formatName = Gen.c_sp_FormatName ∧ h.version = v ∧ (v = v1 ∨ v = v2) ∧ h.typ = mtEncryption :=
  seal_labels P bs v sender rs eph pk pt h hb blks hs

theorem C17_sign_labels (P : Prims) (bs : Nat) (v : Version) (signer nonce msg : Bytes)
    (h : SigHeader) (hb : Bytes) (blks : List SigBlock)
    (hs : Sign.attachedPackets P bs v signer nonce msg = .ok (h, hb, blks)) :
    h.formatName = Gen.c_sp_FormatName ∧ h.version = v ∧ (v = v1 ∨ v = v2) ∧ h.typ = mtAttached :=
  sign_labels P bs v signer nonce msg h hb blks hs

/-- a detached signature starts with a header labelled saltpack / the requested
    known version / detached mode, followed by the signature over exactly the
    detached-mode input -/
theorem C17_detached_label (P : Prims) (v : Version) (signer nonce msg out : Bytes)
    (hs : Sign.detachedWith P v signer nonce msg = .ok out) :
    ∃ h : SigHeader, h = Sign.header v (P.sigPub signer) mtDetached nonce ∧
      out = headerPacket (Msgpack.encode h.toVal) ++
            Msgpack.encBin (P.sign signer (detachedSignatureInput P (P.hash (Msgpack.encode h.toVal)) msg)) ∧
      h.formatName = Gen.c_sp_FormatName ∧ h.version = v ∧ (v = v1 ∨ v = v2) ∧ h.typ = mtDetached :=
  detached_labels P v signer nonce msg out hs

/-- a signcrypted message is labelled saltpack / 2.0 / signcryption -/
theorem C17_signcrypt_label (P : Prims) (bs : Nat) (sender : Option Bytes) (rs : List Signcrypt.Recipient)
    (eph pk pt : Bytes) (h : EncHeader) (hb : Bytes) (blks : List SigncryptBlock)
    (hs : Signcrypt.sealPackets P bs sender rs eph pk pt = .ok (h, hb, blks)) :
    h.formatName = Gen.c_sp_FormatName ∧ h.version = v2 ∧ h.typ = mtSigncryption ∧
    hb = Msgpack.encode h.toVal :=
  signcrypt_labels P bs sender rs eph pk pt h hb blks hs

/-! ## non-vacuity: version 3.0 and 2.1 are unknown, 1.0 and 2.0 known -/
example : knownVersion ⟨3, 0⟩ = false ∧ knownVersion ⟨2, 1⟩ = false ∧ knownVersion v1 = true ∧ knownVersion v2 = true := by decide

-- the tag of a concrete attached-signature header (V2), read off its bytes
example : headerTag (Msgpack.encode (Sign.header v2 [1] mtAttached [2]).toVal) = some (mtAttached, v2) := by decide

end Saltpack.Props.C17
