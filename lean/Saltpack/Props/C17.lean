/-
  Property C17 — format name, version and mode are gated on both sides; no
  cross-mode confusion.  Statements only; proofs in Saltpack/Proofs/NoPanic.lean
  (gates), Receiver.lean (domain separation), RoundTripSig.lean (detached).
-/
import Saltpack.Proofs.NoPanic
import Saltpack.Proofs.Receiver
import Saltpack.Proofs.RoundTripSig

namespace Saltpack.Props.C17
open Saltpack Saltpack.Proofs

/-! ## receiving side: nothing is processed, released or accepted unless the
    header names the saltpack format, carries an admitted version and the mode
    the entry point serves -/

theorem C17_decrypt_gate (P : Prims) (valid : Validator) (kr : Keyring) (hb : Bytes) (h : EncHeader)
    (ps : PStream EncBlock)
    (hrel : (Decrypt.openStream P valid kr (.ok hb h) ps).released ≠ [] ∨
            (Decrypt.openStream P valid kr (.ok hb h) ps).err = none) :
    h.formatName = Gen.c_sp_FormatName ∧ valid h.version = true ∧ h.typ = mtEncryption :=
  enc_gate_released P valid kr hb h ps hrel

theorem C17_signcrypt_gate (P : Prims) (kr : Keyring) (res : Signcrypt.Resolver) (hb : Bytes) (h : EncHeader)
    (ps : PStream SigncryptBlock)
    (hrel : (Signcrypt.openStream P kr res (.ok hb h) ps).released ≠ [] ∨
            (Signcrypt.openStream P kr res (.ok hb h) ps).err = none) :
    h.formatName = Gen.c_sp_FormatName ∧ h.version.major = 2 ∧ h.typ = mtSigncryption :=
  sc_gate_released P kr res hb h ps hrel

theorem C17_verify_gate (P : Prims) (valid : Validator) (kr : Keyring) (hb : Bytes) (h : SigHeader)
    (ps : PStream SigBlock)
    (hok : (Sign.verifyStream P valid kr (.ok hb h) ps).err = none) :
    h.formatName = Gen.c_sp_FormatName ∧ valid h.version = true ∧ h.typ = mtAttached :=
  ver_gate P valid kr hb h ps hok

theorem C17_verify_gate_released (P : Prims) (valid : Validator) (kr : Keyring) (hb : Bytes) (h : SigHeader)
    (ps : PStream SigBlock)
    (hrel : (Sign.verifyStream P valid kr (.ok hb h) ps).released ≠ []) :
    h.formatName = Gen.c_sp_FormatName ∧ valid h.version = true ∧ h.typ = mtAttached :=
  ver_gate_released P valid kr hb h ps hrel

theorem C17_detached_gate (P : Prims) (valid : Validator) (kr : Keyring)
    (hr : HeaderRead SigHeader) (sr : Sign.SigRead) (msg k : Bytes)
    (hok : Sign.verifyDetached P valid kr hr sr msg = .ok k) :
    ∃ hb h, hr = .ok hb h ∧ h.formatName = Gen.c_sp_FormatName ∧ valid h.version = true ∧ h.typ = mtDetached := by
  obtain ⟨hb, h, sg, h1, _, h2, h3, h4, _⟩ := detached_sound P valid kr hr sr msg k hok
  exact ⟨hb, h, h1, h2, h3, h4⟩

/-! ## no cross-mode confusion -/

/-- the four mode numbers are pairwise distinct, so a header accepted by one
    entry point is refused by every other… -/
theorem C17_modes_distinct :
    mtEncryption ≠ mtAttached ∧ mtEncryption ≠ mtDetached ∧ mtEncryption ≠ mtSigncryption ∧
    mtAttached ≠ mtDetached ∧ mtAttached ≠ mtSigncryption ∧ mtDetached ≠ mtSigncryption :=
  modes_distinct

/-- …and editing the mode (or version, or anything else) in a header changes the
    header bytes, hence — absent a hash collision — the header hash that every
    MAC and signature input starts from; the signature inputs of the three
    signing modes moreover start with pairwise non-prefix domain strings. -/
theorem C17_domains_separate :
    Gen.c_sp_signatureAttachedString.length = Gen.c_sp_signatureDetachedString.length ∧
    Gen.c_sp_signatureAttachedString ≠ Gen.c_sp_signatureDetachedString ∧
    ¬ (Gen.c_sp_signatureAttachedString <+: Gen.c_sp_signatureEncryptedString) ∧
    ¬ (Gen.c_sp_signatureDetachedString <+: Gen.c_sp_signatureEncryptedString) ∧
    ¬ (Gen.c_sp_signatureEncryptedString <+: Gen.c_sp_signatureAttachedString) ∧
    ¬ (Gen.c_sp_signatureEncryptedString <+: Gen.c_sp_signatureDetachedString) :=
  domains_separate

/-- a message that is honest in one encryption-family mode is refused by the
    receiver of the other: same header structure, different mode number -/
theorem C17_enc_vs_signcrypt (P : Prims) (valid : Validator) (kr : Keyring) (res : Signcrypt.Resolver)
    (hb : Bytes) (h : EncHeader) (ps : PStream EncBlock) (ps' : PStream SigncryptBlock) :
    ¬ ((Decrypt.openStream P valid kr (.ok hb h) ps).err = none ∧
       (Signcrypt.openStream P kr res (.ok hb h) ps').err = none) := by
  rintro ⟨h1, h2⟩
  have a := (enc_gate_released P valid kr hb h ps (Or.inr h1)).2.2
  have b := (sc_gate_released P kr res hb h ps' (Or.inr h2)).2.2
  exact modes_distinct.2.2.1 (a.symm.trans b)

/-- likewise attached vs detached: one header cannot serve both -/
theorem C17_attached_vs_detached (P : Prims) (valid : Validator) (kr : Keyring)
    (hb : Bytes) (h : SigHeader) (ps : PStream SigBlock) (sr : Sign.SigRead) (msg k : Bytes) :
    ¬ ((Sign.verifyStream P valid kr (.ok hb h) ps).err = none ∧
       Sign.verifyDetached P valid kr (.ok hb h) sr msg = .ok k) := by
  rintro ⟨h1, h2⟩
  have a := (ver_gate P valid kr hb h ps h1).2.2
  obtain ⟨hb', h', _, hh, _, _, _, b, _⟩ := detached_sound P valid kr _ sr msg k h2
  cases hh
  exact modes_distinct.2.2.2.1 (a.symm.trans b)

/-! ## sending side -/

/-- exactly 1.0 and 2.0 are implemented -/
theorem C17_known_versions (v : Version) : knownVersion v = true ↔ v = v1 ∨ v = v2 :=
  knownVersion_iff v

/-- any other version is refused with an error before any randomness is drawn or
    any byte written — never a panic, never a message labelled with it -/
theorem C17_seal_refuses_unknown (P : Prims) (bs : Nat) (v : Version) (hv : knownVersion v = false)
    (sender : Option Bytes) (rs : List Encrypt.Recipient) (eph : Encrypt.EphSource) (src : Rand.Source) (pt : Bytes) :
    Encrypt.sealRand P bs v sender rs eph src pt = .error .badVersion :=
  seal_refuses_unknown P bs v hv sender rs eph src pt

theorem C17_sign_refuses_unknown (P : Prims) (bs : Nat) (v : Version) (hv : knownVersion v = false)
    (signer : Bytes) (src : Rand.Source) (msg : Bytes) :
    Sign.attachedRand P bs v signer src msg = .error .badVersion ∧
    Sign.detachedRand P v signer src msg = .error .badVersion :=
  sign_refuses_unknown P bs v hv signer src msg

/-- what a sender emits is labelled with the requested, known version, the
    saltpack format name and its own mode -/
theorem C17_seal_labels (P : Prims) (bs : Nat) (v : Version) (sender : Option Bytes) (rs : List Encrypt.Recipient)
    (eph pk pt : Bytes) (h : EncHeader) (hb : Bytes) (blks : List EncBlock)
    (hs : Encrypt.sealPackets P bs v sender rs eph pk pt = .ok (h, hb, blks)) :
    h.formatName = Gen.c_sp_FormatName ∧ h.version = v ∧ (v = v1 ∨ v = v2) ∧ h.typ = mtEncryption :=
  seal_labels P bs v sender rs eph pk pt h hb blks hs

theorem C17_sign_labels (P : Prims) (bs : Nat) (v : Version) (signer nonce msg : Bytes)
    (h : SigHeader) (hb : Bytes) (blks : List SigBlock)
    (hs : Sign.attachedPackets P bs v signer nonce msg = .ok (h, hb, blks)) :
    h.formatName = Gen.c_sp_FormatName ∧ h.version = v ∧ (v = v1 ∨ v = v2) ∧ h.typ = mtAttached :=
  sign_labels P bs v signer nonce msg h hb blks hs

/-! ## non-vacuity: version 3.0 and 2.1 are unknown, 1.0 and 2.0 known -/
example : knownVersion ⟨3, 0⟩ = false ∧ knownVersion ⟨2, 1⟩ = false ∧ knownVersion v1 = true ∧ knownVersion v2 = true := by decide

end Saltpack.Props.C17
