/-
  Property C14 — two items left open by notes/ext-e.md.

  1. `C14_detached_armored_success_means_written`: the detached-signature
     ARMORED stream (`NewSignDetachedArmor62Stream` = `signDetachedStream` over
     `armorEncoderStream`, closed through `closeForwarder`) had no
     success-means-written theorem.  Now: constructor of the armor stream ok,
     constructor of the signature stream ok, `Close` returned nil (the `Write`s
     only hash and cannot fail) ⇒ no underlying write failed and the writer holds
     exactly `Armor.seal62 typ brand` of `Sign.detachedWith` of everything
     written.

  2. "armored failure ⇒ what reached the writer is a prefix of the armored
     one-shot text".  ext-e: `Armor.sealText` is not monotone in its payload
     (the last partial BaseX block and the footer differ), so the prefix theorem
     of the bare armor stream ("a prefix of the armor of what the armor stream
     was fed") does not compose.  The RIGHT statement is about the `Write`
     phase: before any `Close` only complete words of complete BaseX blocks have
     left the armor stream, and those are the same in the armor of EVERY longer
     payload — `C14_armor_writes_prefix_of_every_extension` (bare stream, all
     inputs, every fault script).  Composed with the packet streams
     (`C14_armored_writes_prefix_partial`): after the constructor and any
     `Write`s, whatever failed, the writer holds a prefix of the armored text of
     every extension of what was PASSED to the armor stream, and what the armor
     stream ACCEPTED is a prefix of the all-at-once binary message.  PARTIAL in
     one respect, recorded precisely: that the one armor `Write` that failed
     (go-codec stops at it) carried the NEXT bytes of the binary message — so
     that "passed" (= accepted ++ that piece) is itself a prefix of the binary
     message — is not proved (the generic theory observes a writer through the
     bytes it ACCEPTED, `ObsWriter`; a second observation "bytes attempted"
     would have to be threaded through `writePieces`/`encode`/`emitBlock`/the run
     invariant).  When no armor write failed (`failed = false`) passed =
     accepted and the statement is complete.  After a successful packet-stream
     `Close` the armor stream's own `Close` is covered by
     `C14_armor62_failure_prefix` (it was fed the complete message).
     Correspondence: `sender.fault.*.a` (prefix predicate), unchanged.

  Proofs: Proofs/ArmoredSenderMore.lean.
-/
import Saltpack.Proofs.ArmoredSenderMore
import Saltpack.Proofs.SenderStreamWhole

namespace Saltpack.Props.C14
open Saltpack Saltpack.Sender Saltpack.Stream Saltpack.Proofs.SenderP

/-- **the detached-signature armored stream, generic armor parameters**:
    success means written -/
theorem C14_detached_armored_success_means_written_gen (pieces : Bytes → List Bytes) (hp : ∀ b, (pieces b).flatten = b)
    (sp : Bytes → Bytes) (par : Armor.Params) (he : par.enc.WF) (hw : 0 < par.bytesPerWord)
    (hdr ftr : Bytes) (sink : Stream.Sink) (part : List Nat) (headerBytes : Bytes) (ws : List Bytes) :
    let a := FArm.init par hdr ftr ({ sink := sink, part := part } : Wr)
    let i := DSt.init FArm.write pieces a.2 headerBytes
    let r := DSt.writes i.2 ws
    let c := armoredCloseD pieces sp r.2
    a.1 = true → i.1 = true → c.1 = none →
      c.2.codec.w.w.bytes = Armor.sealText par hdr ftr (headerPacket headerBytes ++ sp ws.flatten) ∧
      c.2.codec.w.w.faults = 0 ∧ r.1 = ws.map (fun p => (p.length, none)) := by
  intro a i r c ha hi hc
  obtain ⟨h1, h2⟩ := armored_success_det pieces hp sp par he hw hdr ftr sink part headerBytes ws ha hi hc
  exact ⟨h1, h2, (det_writes ws _).2⟩

/-- **`NewSignDetachedArmor62Stream` + `Write`* + `Close`**: the constructors
    and `Close` reported success ⇒ no underlying write failed and the writer
    holds `Armor.seal62 typ brand` of `Sign.detachedWith` of the concatenation
    of everything written (every `Write` returns `(len p, nil)`: it only feeds
    the hash) -/
theorem C14_detached_armored_success_means_written (P : Prims) (pieces : Bytes → List Bytes)
    (hp : ∀ b, (pieces b).flatten = b) (v : Version) (signer nonce : Bytes) (hbytes : Bytes) (sp : Bytes → Bytes)
    (hs : detachedSetup P v signer nonce = .ok (hbytes, sp))
    (typ : Int) (brand : Bytes) (sink : Stream.Sink) (part : List Nat) (ws : List Bytes) :
    let a := FArm.init62 typ brand ({ sink := sink, part := part } : Wr)
    let i := DSt.init FArm.write pieces a.2 hbytes
    let r := DSt.writes i.2 ws
    let c := armoredCloseD pieces sp r.2
    a.1 = true → i.1 = true → c.1 = none →
      ∃ M, Sign.detachedWith P v signer nonce ws.flatten = .ok M ∧
        c.2.codec.w.w.bytes = Armor.seal62 typ brand M ∧ c.2.codec.w.w.faults = 0 ∧
        r.1 = ws.map (fun p => (p.length, none)) := by
  intro a i r c ha hi hc
  obtain ⟨h1, h2⟩ := armored_success_det pieces hp sp Armor.params62 (Basex.Enc.wf_of_check _ (by decide)) (by decide)
    (Armor.header typ brand) (Armor.footer typ brand) sink part hbytes ws ha hi hc
  exact ⟨headerPacket hbytes ++ sp ws.flatten,
    (detachedWith_iff P v signer nonce ws.flatten _).2 ⟨hbytes, sp, hs, rfl⟩, h1, h2, (det_writes ws _).2⟩

/-- …with `Close` = nil ALONE (the signature stream's constructor need not be
    assumed to have succeeded: if it failed, go-codec's encoder is dead and
    `Close` returns the error) -/
theorem C14_detached_armored_close_ok_means_written (P : Prims) (pieces : Bytes → List Bytes)
    (hp : ∀ b, (pieces b).flatten = b) (v : Version) (signer nonce : Bytes) (hbytes : Bytes) (sp : Bytes → Bytes)
    (hs : detachedSetup P v signer nonce = .ok (hbytes, sp))
    (typ : Int) (brand : Bytes) (sink : Stream.Sink) (part : List Nat) (ws : List Bytes) :
    let a := FArm.init62 typ brand ({ sink := sink, part := part } : Wr)
    let i := DSt.init FArm.write pieces a.2 hbytes
    let r := DSt.writes i.2 ws
    let c := armoredCloseD pieces sp r.2
    a.1 = true → c.1 = none →
      i.1 = true ∧ ∃ M, Sign.detachedWith P v signer nonce ws.flatten = .ok M ∧
        c.2.codec.w.w.bytes = Armor.seal62 typ brand M ∧ c.2.codec.w.w.faults = 0 := by
  intro a i r c ha hc
  have hi := armored_det_close_ok pieces sp a.2 hbytes ws hc
  obtain ⟨M, h1, h2, h3, _⟩ := C14_detached_armored_success_means_written P pieces hp v signer nonce hbytes sp hs
    typ brand sink part ws ha hi hc
  exact ⟨hi, M, h1, h2, h3⟩

/-- **the `Write` phase of the armor stream against every extension of the
    payload** (bare `armorEncoderStream`, every payload, every split, every fault
    script, whatever the calls returned): what the `Write`s have put at the
    writer is a prefix of the armored text of `ws.flatten ++ Y` for EVERY `Y` -/
theorem C14_armor_writes_prefix_of_every_extension (par : Armor.Params) (he : par.enc.WF) (hw : 0 < par.bytesPerWord)
    (hdr ftr : Bytes) (sink : Stream.Sink) (part : List Nat) (ws : List Bytes) (Y : Bytes)
    (hi : (FArm.init par hdr ftr ({ sink := sink, part := part } : Wr)).1 = true) :
    (farmRun (FArm.init par hdr ftr ({ sink := sink, part := part } : Wr)).2 ws).w.bytes <+:
      Armor.sealText par hdr ftr (ws.flatten ++ Y) :=
  farm_writes_prefix_ext par he hw hdr ftr sink part ws Y hi

/-- `Armor.sealText` itself is NOT monotone in the payload (toy parameters:
    the armor of `[1]` is not a prefix of the armor of `[1, 2, 3]`) — why the
    statement above is about the `Write` phase -/
theorem C14_sealText_not_monotone :
    ¬ (Armor.sealText Saltpack.Proofs.toyArm [72] [70] [1] <+: Armor.sealText Saltpack.Proofs.toyArm [72] [70] [1, 2, 3]) := by decide

/-- **armored packet streams while writing** (any of the three packet-per-block
    senders over the armor stream), history form; see the header for what is
    partial -/
theorem C14_armored_writes_prefix_partial (cfg : Cfg) (hp : ∀ b, (cfg.pieces b).flatten = b) (hb : 0 < cfg.bs)
    (hif : IndexFail cfg.pkt) (v : Version) (typ : Int) (brand : Bytes) (sink : Stream.Sink) (part : List Nat) (headerBytes : Bytes)
    (ws : List Bytes) (ha : (FArm.init62 typ brand ({ sink := sink, part := part } : Wr)).1 = true) :
    ∃ H : List Bytes,
      (PSt.writes FArm.write cfg
        (PSt.init FArm.write cfg.pieces (FArm.init62 typ brand ({ sink := sink, part := part } : Wr)).2 headerBytes).2 ws).2.codec.w =
        farmRun (FArm.init62 typ brand ({ sink := sink, part := part } : Wr)).2 H ∧
      (∀ X B, planBytes cfg.pkt (Encrypt.chunkPlan v cfg.bs (ws.flatten ++ X)) 0 = .ok B →
        okBytes (FArm.init62 typ brand ({ sink := sink, part := part } : Wr)).2 H <+: headerPacket headerBytes ++ B) ∧
      (∀ Y, (PSt.writes FArm.write cfg
        (PSt.init FArm.write cfg.pieces (FArm.init62 typ brand ({ sink := sink, part := part } : Wr)).2 headerBytes).2 ws).2.codec.w.w.bytes <+:
          Armor.seal62 typ brand (H.flatten ++ Y)) ∧
      ((farmRun (FArm.init62 typ brand ({ sink := sink, part := part } : Wr)).2 H).failed = false →
        okBytes (FArm.init62 typ brand ({ sink := sink, part := part } : Wr)).2 H = H.flatten) :=
  armored_writes_prefix cfg hp hb hif v Armor.params62 (Basex.Enc.wf_of_check _ (by decide)) (by decide)
    (Armor.header typ brand) (Armor.footer typ brand) sink part headerBytes ws ha

/-! ## non-vacuity (kernel-evaluated) -/

/-- a toy detached stream over the real Armor62 parameters: header bytes `[7]`,
    "signature packet" = the message reversed -/
def detArmoredRun (sink : Stream.Sink) (ws : List Bytes) : Bool × Bool × Option Err × Bytes × Nat :=
  let a := FArm.init62 2 [] ({ sink := sink } : Wr)
  let i := DSt.init FArm.write (fun b => b.map ([·])) a.2 [7]
  let r := DSt.writes i.2 ws
  let c := armoredCloseD (fun b => b.map ([·])) (fun m => m.reverse) r.2
  (a.1, i.1, c.1, c.2.codec.w.w.bytes, c.2.codec.w.w.faults)

-- no fault: the hypotheses are met; the writer holds the Armor62 text of header packet ‖ signature packet
example : detArmoredRun [] [[1, 2], [], [3]] = (true, true, none, Armor.seal62 2 [] [0xc4, 1, 7, 3, 2, 1], 0) := by decide
-- the write of the only word (by the armor stream's Close) fails once: Close reports it
example : (detArmoredRun [false, true] [[1, 2], [], [3]]).2.2.1 = some .ioError := by decide

end Saltpack.Props.C14
