/-
  C15 (hostile input) — the model's OWN decoder of hostile bytes
  (Model/Codec.lean: go-codec's typed decoding into the saltpack packet types).

  Totality of every decoder is by construction (structural / fuel recursion,
  certified by Lean's termination checker).  What is stated here:
  * whatever the bytes, an authenticator that the decoder hands to the
    receivers has exactly 32 bytes (`[32]byte`: go-codec truncates / zero-pads),
    so `C15_decrypt_no_panic`'s reading of authenticators needs no extra
    hypothesis;
  * `swallow` (surplus elements) succeeds on every encodable value within
    go-codec's depth limit and consumes exactly that value;
  * go-codec's depth limit is real: a surplus element nested 100 deep makes the
    typed read fail (an error, not a panic).
  Tied to the real decoder by the correspondence streams `codec.list.*`.
-/
import Saltpack.Proofs.CodecTypes

namespace Saltpack.Props.C15
open Saltpack Saltpack.Msgpack Saltpack.Codec Saltpack.Proofs Saltpack.Proofs.CodecP

/-- from ANY bytes: every decoded authenticator has 32 bytes -/
theorem C15_codec_authenticators_len32 (fuel rem : Nat) (b r : Bytes) (l : List Bytes)
    (h : decAuthenticators fuel rem b = .ok (l, r)) : ∀ a ∈ l, a.length = 32 :=
  decAuthenticators_len fuel rem b r l h

/-- from ANY bytes: a `[32]byte` is 32 bytes whatever the stream offers (bin/str of
    any length, array or map of integers) -/
theorem C15_codec_bytearray_len32 (fuel rem : Nat) (b a r : Bytes) (h : decByteArray32 fuel rem b = .ok (a, r)) :
    a.length = 32 :=
  decByteArray32_len fuel rem b a r h

/-- surplus elements: `swallow` consumes exactly one encodable value, whatever
    it is, if it nests at most `rem` deep (go-codec: 99 at packet level) -/
theorem C15_codec_swallow_exact (v : Val) (hv : ValWF v) (rest : Bytes) (fuel rem : Nat)
    (hf : 2 * (encode v).length ≤ fuel) (hd : depth v ≤ rem) :
    swallow fuel rem (encode v ++ rest) = .ok ((), rest) :=
  swallow_encode v hv rest fuel rem hf hd

/-- non-vacuity: a value the lemma applies to -/
example : swallow 64 99 (encode (.arr [.int 7, .str [120], .arr [.nil, .bool true]]) ++ [1, 2]) = .ok ((), [1, 2]) := by
  decide

/-- the depth limit exists (so the hypothesis `depth v ≤ rem` cannot be dropped):
    the one-element arrays nested 3 deep are refused with 2 levels left -/
theorem C15_codec_depth_limit :
    swallow 64 2 (encode (.arr [.arr [.arr []]])) = .error (.err "max depth exceeded") := by
  decide

/-- a decode failure is an error value, never a stuck or partial computation:
    the V2 block reader on a packet whose flag is the integer 2 -/
example : (decSigncryptBlock (encode (.arr [.bin [1], .int 2]))).toOption = none := by decide

end Saltpack.Props.C15
