/-
  Property C15 — hostile input never crashes or hangs a receiver.

  * Totality: every model receiver/classifier is a total Lean function — the
    termination checker accepted each definition (structural recursion on the
    packet list / input list / explicit fuel ≤ input length); there is no
    `partial` definition in Saltpack/Model.  So the model cannot loop.
  * No panic: every explicit `panic(` of the Go code and every index / nil
    dereference on attacker-controlled data is a model branch returning
    `Err.panic site`; the theorems say no run ends in one — for ALL decoded
    headers and packets (whatever go-codec made of the bytes), ALL keyring and
    resolver functions (including lookups/imports that return nothing or an
    out-of-range index), under the documented contract that the version
    validator admits only majors 1 and 2.
  Statements only; proofs in Saltpack/Proofs/NoPanic.lean, ClassifyTotal.lean.

  TWO INTERFACE BEHAVIOURS THE MODEL CANNOT EXPRESS (outside every theorem
  below; both concern what the APPLICATION's key objects return, not the
  attacker's bytes):
  * a nil element in `Keyring.GetAllBoxSecretKeys()`.  The model's
    `Keyring.getAllBoxSecretKeys : List Bytes` has no nil entries.  In Go,
    `decryptStream.tryHiddenReceivers` calls `secretKey.Precompute(...)` and
    `signcryptOpenStream.tryBoxSecretKeys` calls
    `derivedEphemeralKeyFromBoxKeys(ephemeralPub, receiverBoxSecretKey)` →
    `private.Box(...)` on every element without a nil check: a nil interface
    value there is a nil dereference (run-time panic).  (nil RESULTS of
    `LookupBoxSecretKey`, `LookupBoxPublicKey`, `ImportBoxEphemeralKey`,
    `LookupSigningPublicKey` ARE modelled — `Option` — and covered.)
  * key objects returning short boxes.  `Prims.box` is a function to `Bytes` of
    unconstrained length only in the abstract; the model's `macKeySingle` /
    `derivedKeyFromBoxKeys` take the Go slices `macKeyBox[16:48]` and
    `sharedSecretBox[len-32:]` as total `List` operations, whereas Go panics
    (slice bounds out of range) if a `BoxSecretKey.Box` implementation returns
    fewer than 48 resp. 32 bytes for a 32-byte plaintext.  The shipped `basic`
    keys (NaCl box: plaintext + 16) never do; a custom key object that does is
    outside what these theorems cover.
-/
import Saltpack.Proofs.NoPanic
import Saltpack.Proofs.ClassifyTotal
import Saltpack.Gen.Inventory
import Saltpack.Model.Armor
import Saltpack.Toy

namespace Saltpack.Props.C15
open Saltpack Saltpack.Proofs

/-- **Panic-site inventory** (regenerated from /repo's source on every run): the
    non-test functions containing an explicit `panic(`.  Receiving side, modelled
    as `Err.panic` branches: `nonceForPayloadKeyBox`, `computePayloadHash`,
    `computeMACKeyReceiver`, `attachedSignatureInput`, `checkChunkState`,
    `readEncryptionBlock`/`readSignatureBlock` (major ∉ {1,2}: excluded by the
    validator contract), `chunkReader.Read` (empty chunk without error: the three
    `getNextChunk` never return it — C02/C04/C06 stream logic),
    `IsSaltpackArmoredPrefix` (more than five words: excluded by its own regular
    expression — Classify model), `trySharedSymmetricKeys` /
    `derivedEphemeralKeyFromBoxKeys` / `makeReceiverKeys` (wrong slice length:
    statically impossible, the slices are cut to 32 bytes), `copyEqualSize(Str)`
    (constant lengths).  Sending side only: the rest.  A new site changes this
    list and breaks this obligation before any input is needed. -/
theorem C15_panic_inventory : Gen.panicFunctions = ["basic.Keyring.GenerateSigningKey", "sp.IsSaltpackArmoredPrefix", "sp.ReceiverSymmetricKey.makeReceiverKeys", "sp.assertEncodedChunkState", "sp.attachedSignatureInput", "sp.checkChunkState", "sp.checkEncryptBlockRead", "sp.checkSignBlockRead", "sp.checkSigncryptReceiverCount", "sp.chunkReader.Read", "sp.computeMACKeyReceiver", "sp.computeMACKeySender", "sp.computePayloadHash", "sp.copyEqualSize", "sp.copyEqualSizeStr", "sp.csprngShuffle", "sp.derivedEphemeralKeyFromBoxKeys", "sp.encryptStream.Close", "sp.makeEncryptionBlock", "sp.makeSignatureBlock", "sp.nonceForPayloadKeyBox", "sp.readEncryptionBlock", "sp.readSignatureBlock", "sp.signAttachedStream.Close", "sp.signcryptOpenStream.trySharedSymmetricKeys", "sp.signcryptSealStream.Close", "sp.signcryptSealStream.init", "sp.signcryptSealStream.signcryptBlock"] := rfl

/-- **The classifier's `panic("logic error …")` site is unreachable.**
    `IsSaltpackArmoredPrefix` (classify_and_decrypt.go) panics if, after its
    five-words regular expression accepted the prefix, `strings.Split` yields
    more than five strings; the model returns
    `.unmodelled "logic error in ClassifyStream"` there.  No input reaches it:
    not `armoredPrefix`, not `binarySlice` (which has no such branch), not
    `classifyStream`.  The proof needs `strings.TrimSpace`: the regular
    expression tolerates ONE trailing empty word (`"a b c d e "` is accepted
    and splits into six strings), which the preceding trim removes — the only
    fact about `trimSpace` used is `Proofs.trimSpace_no_trailing_space`
    (the result does not end in byte 32).  The remaining `unmodelled` answers
    are not panics but shapes for which the model does not claim to know
    go-codec's answer; they are the three listed. -/
theorem C15_classifier_total (pref b all : Bytes) (size : Nat) :
    Classify.armoredPrefix pref ≠ .unmodelled "logic error in ClassifyStream" ∧
    Classify.binarySlice b ≠ .unmodelled "logic error in ClassifyStream" ∧
    Classify.classifyStream size all ≠ .unmodelled "logic error in ClassifyStream" ∧
    (∀ w, Classify.armoredPrefix pref = .unmodelled w ∨ Classify.binarySlice b = .unmodelled w ∨
          Classify.classifyStream size all = .unmodelled w →
      w = "message type shape" ∨ w = "version shape" ∨ w = "format name shape") :=
  ⟨armoredPrefix_no_logic_error pref, binarySlice_no_logic_error b, classifyStream_no_logic_error size all,
   fun w h => h.elim (armoredPrefix_unmodelled pref w)
     (fun h => h.elim (binarySlice_unmodelled b w) (classifyStream_unmodelled size all w))⟩

/-- the trim is needed: without it the five-words recogniser accepts a string
    that splits into six -/
example : Classify.fewWords [97, 32, 98, 32, 99, 32, 100, 32, 101, 32] = true ∧
    (Armor.splitSp [97, 32, 98, 32, 99, 32, 100, 32, 101, 32]).length = 6 := by decide

/-- the shipped validator satisfies the contract -/
theorem C15_shipped_validator_ok : ValidatorOK knownMajor := knownMajor_ok

/-- `SingleVersionValidator` of a known version satisfies it too -/
theorem C15_single_validator_ok (w : Version) (hw : w.major = 1 ∨ w.major = 2) :
    ValidatorOK (fun v => v == w) := by
  intro v hv
  have : v = w := by simpa using hv
  subst this
  exact hw

theorem C15_decrypt_no_panic (P : Prims) (hP : P.Lawful) (valid : Validator) (hvalid : ValidatorOK valid)
    (kr : Keyring) (hr : HeaderRead EncHeader) (ps : PStream EncBlock)
    (htail : ∀ e, ps.tail = .err e → Err.isPanic e = false) (e : Err)
    (h : (Decrypt.openStream P valid kr hr ps).err = some e) : Err.isPanic e = false :=
  dec_no_panic P hP valid hvalid kr hr ps htail e h

theorem C15_signcrypt_open_no_panic (P : Prims) (kr : Keyring) (res : Signcrypt.Resolver)
    (hr : HeaderRead EncHeader) (ps : PStream SigncryptBlock)
    (htail : ∀ e, ps.tail = .err e → Err.isPanic e = false) (e : Err)
    (h : (Signcrypt.openStream P kr res hr ps).err = some e) : Err.isPanic e = false :=
  sc_no_panic P kr res hr ps htail e h

theorem C15_verify_no_panic (P : Prims) (valid : Validator) (hvalid : ValidatorOK valid)
    (kr : Keyring) (hr : HeaderRead SigHeader) (ps : PStream SigBlock)
    (htail : ∀ e, ps.tail = .err e → Err.isPanic e = false) (e : Err)
    (h : (Sign.verifyStream P valid kr hr ps).err = some e) : Err.isPanic e = false :=
  ver_no_panic P valid hvalid kr hr ps htail e h

theorem C15_verify_detached_no_panic (P : Prims) (valid : Validator) (kr : Keyring)
    (hr : HeaderRead SigHeader) (sr : Sign.SigRead) (msg : Bytes)
    (hsr : ∀ e, sr = .none e → Err.isPanic e = false) (e : Err)
    (h : Sign.verifyDetached P valid kr hr sr msg = .error e) : Err.isPanic e = false :=
  det_no_panic P valid kr hr sr msg hsr e h

/-- the validator contract is necessary: with a validator that admits major 3
    the documented panic is reached (so the theorems above are not vacuous and
    the guard is the right one) -/
theorem C15_contract_is_necessary (P : Prims) :
    ∃ (kr : Keyring) (h : EncHeader) (hb : Bytes),
      Err.isPanic (match (Decrypt.openStream P (fun _ => true) kr (.ok hb h) ⟨[], .eof⟩).err with
        | some e => e | none => .badVersion) = true :=
  dec_panics_on_major3 P

/-- bounded frames: header and footer collection gives up at 8192 bytes — a
    text whose first sentence is that long is refused whatever follows -/
theorem C15_frame_bounded (expect : Armor.Expect) (hdr rest : Bytes) (h : 8192 ≤ hdr.length)
    (hp : ∀ x ∈ hdr, x ≠ Armor.period) :
    ∃ e, Armor.open62 expect (hdr ++ Armor.period :: rest) = .error e := by
  have hs : ∀ (a b : Bytes), (∀ x ∈ a, x ≠ Armor.period) →
      Armor.splitAt1 Armor.period (a ++ Armor.period :: b) = some (a, b) := by
    intro a b ha
    induction a with
    | nil => simp [Armor.splitAt1]
    | cons x xs ih =>
      have hx : (x == Armor.period) = false := by
        have := ha x (by simp)
        simpa using this
      simp [Armor.splitAt1, hx, ih (fun y hy => ha y (by simp [hy]))]
  unfold Armor.open62 Armor.openPure
  rw [hs hdr rest hp]
  have : (hdr.length ≥ Armor.frameLim) := h
  simp [this]

/-- binary classification inspects at most the 23 bytes it is given -/
example : Gen.c_sp_minLengthToIdentifyBinarySaltpack = 23 := by decide

example : Toy.prims.Lawful := Toy.lawful

end Saltpack.Props.C15
