/-
  Property C11 — armor framing: well-formed output, tolerant re-flowed input,
  validated frames.  Statements only; proofs in Saltpack/Proofs/ArmorRT.lean,
  ArmorSound.lean (+ ArmorLemmas, ArmorBytes; BaseX facts from C10).

  `Armor.seal62` is what `Armor62Seal` / `NewArmor62EncoderStream` write;
  `Armor.open62` is the meaning of `Armor62Open(WithValidation)` /
  `NewArmor62DecoderStream` for a source that delivers the text and then a clean
  end — both compared with the implementation on ~20 000 cases per run
  (every payload length 0…N, every string over {'.',' ','0','z','!','>'} up to a
  bounded length, malformed frames, random re-flows).
  Interpretation (DESIGN §7 C11): "identical header and footer" is read modulo
  the white-space normalisation the frame grammar itself applies — a re-flowed
  frame is returned as received (trimmed), and it normalises to the original.
-/
import Saltpack.Proofs.ArmorRT
import Saltpack.Proofs.ArmorSound

namespace Saltpack.Props.C11
open Saltpack Saltpack.Armor Saltpack.Proofs

/-- **Shape of the frames**: `BEGIN|END [brand] SALTPACK <type>` -/
theorem C11_frame_shape (typ : Int) (sffx : Bytes) (ht : typeString typ = some sffx) (brand : Bytes) :
    header typ brand =
      (if brand.isEmpty then Gen.c_sp_headerMarker ++ [space] ++ upper Gen.c_sp_FormatName ++ [space] ++ sffx
       else Gen.c_sp_headerMarker ++ [space] ++ brand ++ [space] ++ upper Gen.c_sp_FormatName ++ [space] ++ sffx) ∧
    footer typ brand =
      (if brand.isEmpty then Gen.c_sp_footerMarker ++ [space] ++ upper Gen.c_sp_FormatName ++ [space] ++ sffx
       else Gen.c_sp_footerMarker ++ [space] ++ brand ++ [space] ++ upper Gen.c_sp_FormatName ++ [space] ++ sffx) :=
  header_shape typ sffx ht brand

/-- **Shape of the body**: words of at most 15 base62 characters (never empty).
    The separator after the k-th word is a newline iff 200 divides k, a space
    otherwise (definition of `spaceWords`), so a line has at most 200 words. -/
theorem C11_words_shape (payload : Bytes) :
    ∀ w ∈ chunks params62.bytesPerWord (Basex.encode params62.enc payload),
      w.length ≤ 15 ∧ w ≠ [] ∧ ∀ c ∈ w, (params62.enc.digit? c).isSome :=
  words_shape payload

theorem C11_line_breaks (k : Nat) (w : Bytes) (ws : List Bytes) (hws : ws ≠ []) :
    spaceWords params62 k (w :: ws) =
      w ++ [if (k + 1) % 200 = 0 then newline else space] ++ spaceWords params62 (k + 1) ws := by
  cases ws with
  | nil => exact absurd rfl hws
  | cons x xs => rfl

/-- **Declarative layout of the sealed text** (not by unfolding the encoder): the
    base62 characters of the payload are cut into words of 15 (the last one
    1…15), the words into lines of 200 (the last one 1…200); inside a line the
    words are joined by single spaces (`intercalateSp`), the lines by single
    newlines (`joinLines`); before it `header. `, after it an optional single
    space/newline and `. footer.\n`. -/
theorem C11_seal_layout (typ : Int) (brand payload : Bytes) :
    ∃ (lines : List (List Bytes)) (pad : Bytes),
      seal62 typ brand payload =
        header typ brand ++ [period, space] ++ joinLines (lines.map intercalateSp) ++ pad ++
          [period, space] ++ footer typ brand ++ [period, newline] ∧
      lines = chunks 200 (chunks 15 (Basex.encode params62.enc payload)) ∧
      lines.flatten.flatten = Basex.encode params62.enc payload ∧
      (pad = [] ∨ pad = [space] ∨ pad = [newline]) ∧
      ∀ line ∈ lines, line ≠ [] ∧ line.length ≤ 200 ∧
        ∀ w ∈ line, w ≠ [] ∧ w.length ≤ 15 ∧ ∀ c ∈ w, (params62.enc.digit? c).isSome = true :=
  seal_layout typ brand payload

/-- **The sealed text** is `header . body . ␠footer . \n` where the body's
    non-skip characters are exactly the base62 encoding of the payload. -/
theorem C11_seal_structure (typ : Int) (ht : Armorable typ) (brand : Bytes) (hb : BrandOK brand) (payload : Bytes) :
    ∃ body', seal62 typ brand payload =
        header typ brand ++ [period] ++ body' ++ [period] ++ ([space] ++ footer typ brand) ++ [period] ++ [newline] ∧
      FrameVariant (header typ brand) (header typ brand) ∧
      FrameVariant (footer typ brand) ([space] ++ footer typ brand) ∧
      (∀ c ∈ body', validByte params62 c = true) ∧
      Basex.filterSkip params62.enc body' = Basex.encode params62.enc payload :=
  seal_is_variant typ ht brand hb payload

/-- **Round trip** of the sealed text, for every payload, armorable type and
    alphanumeric brand of at most 128 characters. -/
theorem C11_roundtrip (typ : Int) (ht : Armorable typ) (brand : Bytes) (hb : BrandOK brand) (payload : Bytes) :
    open62 (some typ) (seal62 typ brand payload) =
      .ok ⟨payload, brand, header typ brand, footer typ brand⟩ :=
  open_seal typ ht brand hb payload

/-- **Tolerant, re-flowed input.** Every text `hdr' . body' . ftr' . trail` whose
    frames are *variants* of the genuine ones (separating spaces replaced by
    arbitrary non-empty runs of space / tab / CR / LF / '>', such runs added
    around; trimmed length ≤ 512), whose body contains the encoded characters
    with arbitrary runs of those characters anywhere between them, and whose
    trailer consists of valid bytes, dearmors to the identical payload and brand. -/
theorem C11_roundtrip_reflow (typ : Int) (ht : Armorable typ) (brand : Bytes) (hb : BrandOK brand)
    (payload hdr' body' ftr' trail : Bytes)
    (hh : FrameVariant (header typ brand) hdr') (hf : FrameVariant (footer typ brand) ftr')
    (hbody : ∀ c ∈ body', validByte params62 c = true)
    (hfil : Basex.filterSkip params62.enc body' = Basex.encode params62.enc payload)
    (htrail : ∀ c ∈ trail, validByte params62 c = true) :
    open62 (some typ) (hdr' ++ [period] ++ body' ++ [period] ++ ftr' ++ [period] ++ trail) =
      .ok ⟨payload, brand, trimSpace hdr', trimSpace ftr'⟩ :=
  open_variant typ ht brand hb payload hdr' body' ftr' trail hh hf hbody hfil htrail

/-- the re-flow operations generate variants: a run inserted anywhere in the body… -/
theorem C11_reflow_body (a b run : Bytes) (hr : ∀ c ∈ run, isFrameSpace c = true) :
    Basex.filterSkip params62.enc (a ++ run ++ b) = Basex.filterSkip params62.enc (a ++ b) ∧
    ((∀ c ∈ a ++ b, validByte params62 c = true) → ∀ c ∈ a ++ run ++ b, validByte params62 c = true) :=
  body_insert a b run hr

/-- …a separating space of a frame replaced by a non-empty run… -/
theorem C11_reflow_frame (f a b run : Bytes) (hv : FrameVariant f (a ++ [space] ++ b))
    (hr : ∀ c ∈ run, isFrameSpace c = true) (hne : run ≠ [])
    (hlen : (trimSpace (a ++ run ++ b)).length ≤ 512) (hlim : (a ++ run ++ b).length < 8192) :
    FrameVariant f (a ++ run ++ b) :=
  frame_reflow f a b run hv hr hne hlen hlim

/-- …runs before the header / after the footer -/
theorem C11_reflow_around (f f' pre post : Bytes) (hv : FrameVariant f f')
    (hpre : ∀ c ∈ pre, isTrimSpace c = true ∧ isFrameSpace c = true)
    (hpost : ∀ c ∈ post, isTrimSpace c = true ∧ isFrameSpace c = true)
    (hlim : (pre ++ f' ++ post).length < 8192) :
    FrameVariant f (pre ++ f' ++ post) :=
  frame_surround f f' pre post hv hpre hpost hlim

/-- without validation (`Armor62Open`) -/
theorem C11_roundtrip_novalidation (payload hdr' body' ftr' trail : Bytes)
    (hh : (∀ c ∈ hdr', validByte params62 c = true) ∧ hdr'.length < 8192)
    (hf : (∀ c ∈ ftr', validByte params62 c = true) ∧ ftr'.length < 8192)
    (hbody : ∀ c ∈ body', validByte params62 c = true)
    (hfil : Basex.filterSkip params62.enc body' = Basex.encode params62.enc payload)
    (htrail : ∀ c ∈ trail, validByte params62 c = true) :
    open62 none (hdr' ++ [period] ++ body' ++ [period] ++ ftr' ++ [period] ++ trail) =
      .ok ⟨payload, [], trimSpace hdr', trimSpace ftr'⟩ :=
  open_variant_novalidation payload hdr' body' ftr' trail hh hf hbody hfil htrail

/-! ## rejection -/

/-- **Soundness of every validating entry point** (`Armor62OpenWithValidation`,
    the `Dearmor62…` functions): a text is accepted only if it is
    `hdrRaw . body . ftrRaw . trail` with exactly three periods, all bytes valid
    armor bytes, both raw frames shorter than 8192; the returned header/footer are
    the raw frames with white space trimmed; they *parse* as `BEGIN`/`END` frames of
    the requested type carrying one and the same brand — the returned one; and the
    body's non-skip characters decode (strictly) to the returned payload.
    Contrapositive: anything else is rejected. -/
theorem C11_open_sound (typ : Int) (text : Bytes) (o : Opened) (h : open62 (some typ) text = .ok o) :
    ∃ hdrRaw body ftrRaw trail,
      text = hdrRaw ++ [period] ++ body ++ [period] ++ ftrRaw ++ [period] ++ trail ∧
      period ∉ hdrRaw ∧ period ∉ body ∧ period ∉ ftrRaw ∧ period ∉ trail ∧
      (∀ c ∈ hdrRaw, validByte params62 c = true) ∧ (∀ c ∈ body, validByte params62 c = true) ∧
      (∀ c ∈ ftrRaw, validByte params62 c = true) ∧ (∀ c ∈ trail, validByte params62 c = true) ∧
      hdrRaw.length < 8192 ∧ ftrRaw.length < 8192 ∧
      o.header = trimSpace hdrRaw ∧ o.footer = trimSpace ftrRaw ∧
      parseFrame o.header typ Gen.c_sp_headerMarker = .ok o.brand ∧
      parseFrame o.footer typ Gen.c_sp_footerMarker = .ok o.brand ∧
      Basex.decode params62.enc.strict (Basex.filterSkip params62.enc body) = .ok o.payload :=
  open_sound typ text o h

/-- a frame of another armorable type is rejected by the entry point's check -/
theorem C11_rejects_wrong_type (typ typ' : Int) (ht : Armorable typ) (ht' : Armorable typ') (hne : typ ≠ typ')
    (brand f' : Bytes) (hb : BrandOK brand) (hv : FrameVariant (header typ brand) f') :
    ∃ e, parseFrame (trimSpace f') typ' Gen.c_sp_headerMarker = .error e :=
  parse_wrong_type typ typ' ht ht' hne brand f' hb hv

/-- the footer must parse for the same type and mirror the header's brand -/
theorem C11_footer_must_mirror (hdr ftr : Bytes) (typ : Int) (brand : Bytes) (h : checkArmor62 hdr ftr typ = .ok brand) :
    parseFrame hdr typ Gen.c_sp_headerMarker = .ok brand ∧ parseFrame ftr typ Gen.c_sp_footerMarker = .ok brand :=
  check_sound hdr ftr typ brand h

/-- over-long frames (more than 512 characters) and brands (more than 128) are rejected -/
theorem C11_rejects_long_frame (m : Bytes) (typ : Int) (marker : Bytes) (h : 512 < m.length) :
    parseFrame m typ marker = .error .badFrame :=
  parse_too_long m typ marker h

theorem C11_brand_bounded (m : Bytes) (typ : Int) (marker brand : Bytes) (h : parseFrame m typ marker = .ok brand) :
    brand.length ≤ 128 :=
  parse_brand_len m typ marker brand h

/-- `strings.TrimSpace` as modelled (Unicode white space, UTF-8 decoded from both
    ends) is plain ASCII trimming on everything the armor path hands it: `toASCII`
    lets valid armor bytes through only, and those are below 0x80 -/
theorem C11_trimSpace_ascii (b : Bytes) (hb : ∀ c ∈ b, validByte params62 c = true) :
    trimSpace b = trimSpaceAscii b :=
  trimSpace_eq_ascii_valid b hb

/-! ## non-vacuity -/
example : joinLines [[65], [66, 67]] = [65, 10, 66, 67] := by decide
example : trimSpace [0xC2, 0x85, 0xE3, 0x80, 0x80, 66, 0xE2, 0x80, 0xA8, 32] = [66] := by decide
example : Armorable mtEncryption ∧ Armorable mtAttached ∧ Armorable mtDetached :=
  ⟨Or.inl rfl, Or.inr (Or.inl rfl), Or.inr (Or.inr rfl)⟩
example : BrandOK [75, 69, 89] := ⟨by decide, by decide⟩

end Saltpack.Props.C11
