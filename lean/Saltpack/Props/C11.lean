/-
  Property C11 — armor framing: well-formed output, tolerant re-flowed input,
  validated frames.  Statements only; proofs in Saltpack/Proofs/ArmorRT.lean
  (+ ArmorLemmas, ArmorBytes; BaseX facts from C10).

  `Armor.seal62` is what `Armor62Seal` / `NewArmor62EncoderStream` write;
  `Armor.open62` is the meaning of `Armor62Open(WithValidation)` /
  `NewArmor62DecoderStream` for a source that delivers the text and then a clean
  end — both compared with the implementation on ~20 000 cases per run
  (every payload length 0…N, every string over {'.',' ','0','z','!','>'} up to a
  bounded length, malformed frames, random re-flows).
  Interpretation (DESIGN §7 C11): "identical header and footer" is read modulo
  the white-space normalisation the frame grammar itself applies — a re-flowed
  frame is returned as received (trimmed), and it normalises to the original.
-/
import Saltpack.Proofs.ArmorRT

namespace Saltpack.Props.C11
open Saltpack Saltpack.Armor Saltpack.Proofs

/-- **Shape of the frames**: `BEGIN|END [brand] SALTPACK <type>` -/
theorem C11_frame_shape (typ : Int) (sffx : Bytes) (ht : typeString typ = some sffx) (brand : Bytes) :
    header typ brand =
      (if brand.isEmpty then Gen.c_sp_headerMarker ++ [space] ++ upper Gen.c_sp_FormatName ++ [space] ++ sffx
       else Gen.c_sp_headerMarker ++ [space] ++ brand ++ [space] ++ upper Gen.c_sp_FormatName ++ [space] ++ sffx) ∧
    footer typ brand =
      (if brand.isEmpty then Gen.c_sp_footerMarker ++ [space] ++ upper Gen.c_sp_FormatName ++ [space] ++ sffx
       else Gen.c_sp_footerMarker ++ [space] ++ brand ++ [space] ++ upper Gen.c_sp_FormatName ++ [space] ++ sffx) :=
  header_shape typ sffx ht brand

/-- **Shape of the body**: words of at most 15 base62 characters (never empty).
    The separator after the k-th word is a newline iff 200 divides k, a space
    otherwise (definition of `spaceWords`), so a line has at most 200 words. -/
theorem C11_words_shape (payload : Bytes) :
    ∀ w ∈ chunks params62.bytesPerWord (Basex.encode params62.enc payload),
      w.length ≤ 15 ∧ w ≠ [] ∧ ∀ c ∈ w, (params62.enc.digit? c).isSome :=
  words_shape payload

theorem C11_line_breaks (k : Nat) (w : Bytes) (ws : List Bytes) (hws : ws ≠ []) :
    spaceWords params62 k (w :: ws) =
      w ++ [if (k + 1) % 200 = 0 then newline else space] ++ spaceWords params62 (k + 1) ws := by
  cases ws with
  | nil => exact absurd rfl hws
  | cons x xs => rfl

/-- **The sealed text** is `header . body . ␠footer . \n` where the body's
    non-skip characters are exactly the base62 encoding of the payload. -/
theorem C11_seal_structure (typ : Int) (ht : Armorable typ) (brand : Bytes) (hb : BrandOK brand) (payload : Bytes) :
    ∃ body', seal62 typ brand payload =
        header typ brand ++ [period] ++ body' ++ [period] ++ ([space] ++ footer typ brand) ++ [period] ++ [newline] ∧
      FrameVariant (header typ brand) (header typ brand) ∧
      FrameVariant (footer typ brand) ([space] ++ footer typ brand) ∧
      (∀ c ∈ body', validByte params62 c = true) ∧
      Basex.filterSkip params62.enc body' = Basex.encode params62.enc payload :=
  seal_is_variant typ ht brand hb payload

/-- **Round trip** of the sealed text, for every payload, armorable type and
    alphanumeric brand of at most 128 characters. -/
theorem C11_roundtrip (typ : Int) (ht : Armorable typ) (brand : Bytes) (hb : BrandOK brand) (payload : Bytes) :
    open62 (some typ) (seal62 typ brand payload) =
      .ok ⟨payload, brand, header typ brand, footer typ brand⟩ :=
  open_seal typ ht brand hb payload

/-- **Tolerant, re-flowed input.** Every text `hdr' . body' . ftr' . trail` whose
    frames are *variants* of the genuine ones (separating spaces replaced by
    arbitrary non-empty runs of space / tab / CR / LF / '>', such runs added
    around; trimmed length ≤ 512), whose body contains the encoded characters
    with arbitrary runs of those characters anywhere between them, and whose
    trailer consists of valid bytes, dearmors to the identical payload and brand. -/
theorem C11_roundtrip_reflow (typ : Int) (ht : Armorable typ) (brand : Bytes) (hb : BrandOK brand)
    (payload hdr' body' ftr' trail : Bytes)
    (hh : FrameVariant (header typ brand) hdr') (hf : FrameVariant (footer typ brand) ftr')
    (hbody : ∀ c ∈ body', validByte params62 c = true)
    (hfil : Basex.filterSkip params62.enc body' = Basex.encode params62.enc payload)
    (htrail : ∀ c ∈ trail, validByte params62 c = true) :
    open62 (some typ) (hdr' ++ [period] ++ body' ++ [period] ++ ftr' ++ [period] ++ trail) =
      .ok ⟨payload, brand, trimSpace hdr', trimSpace ftr'⟩ :=
  open_variant typ ht brand hb payload hdr' body' ftr' trail hh hf hbody hfil htrail

/-- the re-flow operations generate variants: a run inserted anywhere in the body… -/
theorem C11_reflow_body (a b run : Bytes) (hr : ∀ c ∈ run, isFrameSpace c = true) :
    Basex.filterSkip params62.enc (a ++ run ++ b) = Basex.filterSkip params62.enc (a ++ b) ∧
    ((∀ c ∈ a ++ b, validByte params62 c = true) → ∀ c ∈ a ++ run ++ b, validByte params62 c = true) :=
  body_insert a b run hr

/-- …a separating space of a frame replaced by a non-empty run… -/
theorem C11_reflow_frame (f a b run : Bytes) (hv : FrameVariant f (a ++ [space] ++ b))
    (hr : ∀ c ∈ run, isFrameSpace c = true) (hne : run ≠ [])
    (hlen : (trimSpace (a ++ run ++ b)).length ≤ 512) (hlim : (a ++ run ++ b).length < 8192) :
    FrameVariant f (a ++ run ++ b) :=
  frame_reflow f a b run hv hr hne hlen hlim

/-- …runs before the header / after the footer -/
theorem C11_reflow_around (f f' pre post : Bytes) (hv : FrameVariant f f')
    (hpre : ∀ c ∈ pre, isTrimSpace c = true ∧ isFrameSpace c = true)
    (hpost : ∀ c ∈ post, isTrimSpace c = true ∧ isFrameSpace c = true)
    (hlim : (pre ++ f' ++ post).length < 8192) :
    FrameVariant f (pre ++ f' ++ post) :=
  frame_surround f f' pre post hv hpre hpost hlim

/-- without validation (`Armor62Open`) -/
theorem C11_roundtrip_novalidation (payload hdr' body' ftr' trail : Bytes)
    (hh : (∀ c ∈ hdr', validByte params62 c = true) ∧ hdr'.length < 8192)
    (hf : (∀ c ∈ ftr', validByte params62 c = true) ∧ ftr'.length < 8192)
    (hbody : ∀ c ∈ body', validByte params62 c = true)
    (hfil : Basex.filterSkip params62.enc body' = Basex.encode params62.enc payload)
    (htrail : ∀ c ∈ trail, validByte params62 c = true) :
    open62 none (hdr' ++ [period] ++ body' ++ [period] ++ ftr' ++ [period] ++ trail) =
      .ok ⟨payload, [], trimSpace hdr', trimSpace ftr'⟩ :=
  open_variant_novalidation payload hdr' body' ftr' trail hh hf hbody hfil htrail

/-! ## rejection -/

/-- a frame of another armorable type is rejected by the entry point's check -/
theorem C11_rejects_wrong_type (typ typ' : Int) (ht : Armorable typ) (ht' : Armorable typ') (hne : typ ≠ typ')
    (brand f' : Bytes) (hb : BrandOK brand) (hv : FrameVariant (header typ brand) f') :
    ∃ e, parseFrame (trimSpace f') typ' Gen.c_sp_headerMarker = .error e :=
  parse_wrong_type typ typ' ht ht' hne brand f' hb hv

/-- the footer must parse for the same type and mirror the header's brand -/
theorem C11_footer_must_mirror (hdr ftr : Bytes) (typ : Int) (brand : Bytes) (h : checkArmor62 hdr ftr typ = .ok brand) :
    parseFrame hdr typ Gen.c_sp_headerMarker = .ok brand ∧ parseFrame ftr typ Gen.c_sp_footerMarker = .ok brand :=
  check_sound hdr ftr typ brand h

/-- over-long frames (more than 512 characters) and brands (more than 128) are rejected -/
theorem C11_rejects_long_frame (m : Bytes) (typ : Int) (marker : Bytes) (h : 512 < m.length) :
    parseFrame m typ marker = .error .badFrame :=
  parse_too_long m typ marker h

theorem C11_brand_bounded (m : Bytes) (typ : Int) (marker brand : Bytes) (h : parseFrame m typ marker = .ok brand) :
    brand.length ≤ 128 :=
  parse_brand_len m typ marker brand h

/-! ## non-vacuity -/
example : Armorable mtEncryption ∧ Armorable mtAttached ∧ Armorable mtDetached :=
  ⟨Or.inl rfl, Or.inr (Or.inl rfl), Or.inr (Or.inr rfl)⟩
example : BrandOK [75, 69, 89] := ⟨by decide, by decide⟩

end Saltpack.Props.C11
