/-
  Property C18 — fresh secrets for every message; fail closed when randomness
  fails.  Statements only; proofs in Saltpack/Proofs/Calls.lean and
  Saltpack/Proofs/Fresh.lean.

  The process randomness source is a script of reads (`Rand.Source`); every
  sender model consumes a prefix of it and returns the rest.  The byte-exact
  correspondence (crypto/rand.Reader replaced by the same script) pins which
  read becomes which secret in the real code.
-/
import Saltpack.Proofs.Calls
import Saltpack.Proofs.Fresh
import Saltpack.Gen.Inventory
import Saltpack.Toy

namespace Saltpack.Props.C18
open Saltpack Saltpack.Proofs

/-- **Randomness inventory** (regenerated from /repo's source on every run): the
    only functions that read `crypto/rand.Reader` — the full-read wrapper
    `csprngRead` (payload keys, signature nonces), the two shuffles, and key
    generation in `basic`. -/
theorem C18_rand_readers : Gen.randReaders = ["basic.Keyring.GenerateSigningKey", "basic.generateBoxKey", "sp.csprngRead", "sp.shuffleEncryptReceivers", "sp.shuffleSigncryptReceivers"] := rfl

/-- a full read (`csprngReadFull`) returns exactly the bytes the source
    delivered — `n` of them — and leaves a suffix of the source: consecutive
    operations therefore consume disjoint, consecutive segments, and secrets
    repeat only if the source repeats -/
theorem C18_read_is_source (n : Nat) (src : Rand.Source) (b : Bytes) (rest : Rand.Source)
    (h : Rand.readFull n src = some (b, rest)) :
    b.length = n ∧ ∃ k, k ≤ src.length ∧ rest = src.drop k ∧
      b = (((src.take k).map (·.data)).flatten).take n :=
  readFull_spec n src b rest h

/-- `Seal`'s secrets are what the source delivered, in the order
    shuffle draws → ephemeral key → payload key -/
theorem C18_seal_draws (P : Prims) (bs : Nat) (v : Version) (sender : Option Bytes)
    (rs : List Encrypt.Recipient) (eph : Encrypt.EphSource) (src : Rand.Source) (pt m : Bytes) (rest : Rand.Source)
    (h : Encrypt.sealRand P bs v sender rs eph src pt = .ok (m, rest)) :
    ∃ js src1 ephSec src2 pk,
      Encrypt.shuffleDraws (rs.length - 1) src (src.length + 1) = .ok (js, src1) ∧
      (match eph with
        | .given s => ephSec = s ∧ src2 = src1
        | .fromRand => Rand.readFull 32 src1 = some (ephSec, src2)
        | .fails => False) ∧
      Rand.readFull 32 src2 = some (pk, rest) ∧
      Encrypt.sealWith P bs v sender (Rand.shuffle js rs) ephSec pk pt = .ok m :=
  sealRand_draws P bs v sender rs eph src pt m rest h

/-- a signature header's nonce is the 16 bytes of one full read -/
theorem C18_sign_draws (P : Prims) (bs : Nat) (v : Version) (signer : Bytes) (src : Rand.Source)
    (msg m : Bytes) (rest : Rand.Source)
    (h : Sign.attachedRand P bs v signer src msg = .ok (m, rest)) :
    ∃ n, Rand.readFull Sign.sigNonceLen src = some (n, rest) ∧ Sign.attachedWith P bs v signer n msg = .ok m :=
  attachedRand_draws P bs v signer src msg m rest h

/-- `SigncryptSeal`'s secrets are what the source delivered, in the order
    shuffle draws (over box keys followed by symmetric keys) → ephemeral key →
    payload key -/
theorem C18_signcrypt_seal_draws (P : Prims) (bs : Nat) (sender : Option Bytes)
    (boxes syms : List Signcrypt.Recipient) (eph : Encrypt.EphSource) (src : Rand.Source) (pt m : Bytes)
    (rest : Rand.Source)
    (h : Signcrypt.sealRand P bs sender boxes syms eph src pt = .ok (m, rest)) :
    ∃ js src1 ephSec src2 pk,
      Encrypt.shuffleDraws ((boxes ++ syms).length - 1) src (src.length + 1) = .ok (js, src1) ∧
      (match eph with
        | .given s => ephSec = s ∧ src2 = src1
        | .fromRand => Rand.readFull 32 src1 = some (ephSec, src2)
        | .fails => False) ∧
      Rand.readFull 32 src2 = some (pk, rest) ∧
      Signcrypt.sealWith P bs sender (Rand.shuffle js (boxes ++ syms)) ephSec pk pt = .ok m :=
  sc_sealRand_draws P bs sender boxes syms eph src pt m rest h

/-- a detached signature header's nonce is the 16 bytes of one full read -/
theorem C18_sign_detached_draws (P : Prims) (v : Version) (signer : Bytes) (src : Rand.Source)
    (msg m : Bytes) (rest : Rand.Source)
    (h : Sign.detachedRand P v signer src msg = .ok (m, rest)) :
    ∃ n, Rand.readFull Sign.sigNonceLen src = some (n, rest) ∧ Sign.detachedWith P v signer n msg = .ok m :=
  detachedRand_draws P v signer src msg m rest h

theorem C18_sig_nonce_len : Sign.sigNonceLen = 16 := rfl

/-- **Fail closed.** An error before `n` bytes are in — alone, or with a short
    slice — makes the full read fail; so does a source that ends early. -/
theorem C18_read_fail_closed (n : Nat) (src : Rand.Source) (k : Nat) (hk : k < src.length)
    (herr : (src[k]'hk).err = true)
    (hshort : ((src.take (k + 1)).map (·.data.length)).sum < n) :
    Rand.readFull n src = none :=
  readFull_fail_closed n src k hk herr hshort

theorem C18_read_short (n : Nat) (src : Rand.Source)
    (hshort : (src.map (·.data.length)).sum < n) : Rand.readFull n src = none :=
  readFull_short n src hshort

/-- **Fail closed, `Seal`, general.**  For every recipient list and every
    ephemeral-key source: if the shuffle draws fail; or the ephemeral key cannot
    be obtained (the creator fails, or — when it is drawn from the source — its
    32-byte read fails); or the payload-key read (the next 32-byte read) fails:
    `Seal` returns an error, hence no message bytes at all.  The error is the
    source's (`ioError`) unless the arguments were refused before any read. -/
theorem C18_seal_fail_closed (P : Prims) (bs : Nat) (v : Version) (sender : Option Bytes)
    (rs : List Encrypt.Recipient) (eph : Encrypt.EphSource) (src : Rand.Source) (pt : Bytes)
    (hfail :
      (∃ e, Encrypt.shuffleDraws (rs.length - 1) src (src.length + 1) = .error e) ∨
      (∃ js src1, Encrypt.shuffleDraws (rs.length - 1) src (src.length + 1) = .ok (js, src1) ∧
        match eph with
        | .fails => True
        | .given _ => Rand.readFull 32 src1 = none
        | .fromRand => Rand.readFull 32 src1 = none ∨
            ∃ s src2, Rand.readFull 32 src1 = some (s, src2) ∧ Rand.readFull 32 src2 = none)) :
    ∃ e, Encrypt.sealRand P bs v sender rs eph src pt = .error e ∧
      (knownVersion v = true → Encrypt.checkReceivers rs = .ok () → e = .ioError) :=
  sealRand_fail_closed_gen P bs v sender rs eph src pt hfail

/-- the hypothesis of `C18_seal_fail_closed` is exactly "the randomness failed":
    a successful `Seal` never satisfies it -/
theorem C18_seal_ok_no_failure (P : Prims) (bs : Nat) (v : Version) (sender : Option Bytes)
    (rs : List Encrypt.Recipient) (eph : Encrypt.EphSource) (src : Rand.Source) (pt m : Bytes) (rest : Rand.Source)
    (h : Encrypt.sealRand P bs v sender rs eph src pt = .ok (m, rest)) :
    ¬ ((∃ e, Encrypt.shuffleDraws (rs.length - 1) src (src.length + 1) = .error e) ∨
      (∃ js src1, Encrypt.shuffleDraws (rs.length - 1) src (src.length + 1) = .ok (js, src1) ∧
        match (generalizing := false) eph with
        | .fails => True
        | .given _ => Rand.readFull 32 src1 = none
        | .fromRand => Rand.readFull 32 src1 = none ∨
            ∃ s src2, Rand.readFull 32 src1 = some (s, src2) ∧ Rand.readFull 32 src2 = none)) :=
  sealRand_ok_not_fails P bs v sender rs eph src pt m rest h

/-- the former special case (one recipient, caller-supplied ephemeral key,
    failing payload-key read), as an instance of the general theorem -/
theorem C18_seal_fail_closed_single (P : Prims) (bs : Nat) (v : Version) (sender : Option Bytes)
    (rs : List Encrypt.Recipient) (s : Bytes) (src : Rand.Source) (pt : Bytes)
    (hsingle : rs.length = 1) (hfail : Rand.readFull 32 src = none) :
    ∃ e, Encrypt.sealRand P bs v sender rs (.given s) src pt = .error e := by
  obtain ⟨e, he, _⟩ := C18_seal_fail_closed P bs v sender rs (.given s) src pt
    (Or.inr ⟨[], src, by rw [hsingle]; rfl, hfail⟩)
  exact ⟨e, he⟩

/-- whatever the recipients and the ephemeral-key source: a source that
    delivers fewer than 32 bytes in total makes `Seal` fail -/
theorem C18_seal_short_source (P : Prims) (bs : Nat) (v : Version) (sender : Option Bytes)
    (rs : List Encrypt.Recipient) (eph : Encrypt.EphSource) (src : Rand.Source) (pt : Bytes)
    (hshort : (src.map (·.data.length)).sum < 32) :
    ∃ e, Encrypt.sealRand P bs v sender rs eph src pt = .error e :=
  sealRand_short_source P bs v sender rs eph src pt hshort

/-- **Fail closed, `SigncryptSeal`, general** (same three failure points) -/
theorem C18_signcrypt_seal_fail_closed (P : Prims) (bs : Nat) (sender : Option Bytes)
    (boxes syms : List Signcrypt.Recipient) (eph : Encrypt.EphSource) (src : Rand.Source) (pt : Bytes)
    (hfail :
      (∃ e, Encrypt.shuffleDraws ((boxes ++ syms).length - 1) src (src.length + 1) = .error e) ∨
      (∃ js src1, Encrypt.shuffleDraws ((boxes ++ syms).length - 1) src (src.length + 1) = .ok (js, src1) ∧
        match eph with
        | .fails => True
        | .given _ => Rand.readFull 32 src1 = none
        | .fromRand => Rand.readFull 32 src1 = none ∨
            ∃ s src2, Rand.readFull 32 src1 = some (s, src2) ∧ Rand.readFull 32 src2 = none)) :
    ∃ e, Signcrypt.sealRand P bs sender boxes syms eph src pt = .error e ∧
      (Signcrypt.checkReceivers boxes syms = .ok () → e = .ioError) :=
  sc_sealRand_fail_closed_gen P bs sender boxes syms eph src pt hfail

/-- **Fail closed, signatures**: a failing 16-byte nonce read makes `Sign` and
    `SignDetached` return an error (the source's, for a known version) -/
theorem C18_sign_fail_closed (P : Prims) (bs : Nat) (v : Version) (signer : Bytes) (src : Rand.Source) (msg : Bytes)
    (hfail : Rand.readFull 16 src = none) :
    ∃ e, Sign.attachedRand P bs v signer src msg = .error e ∧ (knownVersion v = true → e = .ioError) :=
  attachedRand_fail_closed P bs v signer src msg hfail

theorem C18_sign_detached_fail_closed (P : Prims) (v : Version) (signer : Bytes) (src : Rand.Source) (msg : Bytes)
    (hfail : Rand.readFull 16 src = none) :
    ∃ e, Sign.detachedRand P v signer src msg = .error e ∧ (knownVersion v = true → e = .ioError) :=
  detachedRand_fail_closed P v signer src msg hfail

/-! ## histories: which reads become which secret, and consecutive operations

  `segBytes src a b n` — the first `n` bytes delivered by reads `a … b-1` of the
  source.  `SecretsAt n eph src o a b c js ephSec pk` — an operation started at
  read `o`: the shuffle draws `js` are `Rand.drawsFrom` of the 32-bit words of
  reads `[o, a)` and depend on nothing else, the ephemeral secret (when drawn
  from the source) is the 32 bytes of reads `[a, b)`, the payload key the 32
  bytes of reads `[b, c)`; `o ≤ a ≤ b < c ≤ |src|`. -/

theorem C18_segBytes_def (src : Rand.Source) (a b n : Nat) :
    segBytes src a b n = ((((src.drop a).take (b - a)).map (·.data)).flatten).take n := rfl

theorem C18_secretsAt_def (n : Nat) (eph : Encrypt.EphSource) (src : Rand.Source) (o a b c : Nat)
    (js : List Nat) (ephSec pk : Bytes) :
    SecretsAt n eph src o a b c js ephSec pk ↔
      (o ≤ a ∧ a ≤ b ∧ b < c ∧ c ≤ src.length ∧
       (∃ cw ws, readWords cw (src.drop o) = some (ws, src.drop a) ∧
          (∀ tail, readWords cw ((src.drop o).take (a - o) ++ tail) = some (ws, tail)) ∧
          Rand.drawsFrom (n - 1) ws = some (js, []) ∧ Rand.ValidDraws (n - 1) js) ∧
       (match eph with
        | .given s => ephSec = s ∧ b = a
        | .fromRand => a < b ∧ ephSec = segBytes src a b 32 ∧ ephSec.length = 32
        | .fails => False) ∧
       pk = segBytes src b c 32 ∧ pk.length = 32) := by
  cases eph <;> exact Iff.rfl

/-- `readWords c`: `c` successive full reads of 4 bytes, each taken as a
    big-endian word (`csprngUint32`) -/
theorem C18_readWords_def (c : Nat) (src : Rand.Source) :
    readWords 0 src = some ([], src) ∧
    readWords (c + 1) src =
      (match Rand.readFull 4 src with
       | none => none
       | some (b, src') =>
         match readWords c src' with
         | none => none
         | some (ws, rest) => some (natOfBytes b :: ws, rest)) :=
  ⟨rfl, rfl⟩

/-- `Seal` run on `src`: its secrets are the bytes of consecutive ranges of
    reads `[0,a) [a,b) [b,c)`, and the unread rest is `src.drop c` -/
theorem C18_seal_segments (P : Prims) (bs : Nat) (v : Version) (sender : Option Bytes)
    (rs : List Encrypt.Recipient) (eph : Encrypt.EphSource) (src : Rand.Source) (pt m : Bytes) (rest : Rand.Source)
    (h : Encrypt.sealRand P bs v sender rs eph src pt = .ok (m, rest)) :
    ∃ a b c js ephSec pk, rest = src.drop c ∧ SecretsAt rs.length eph src 0 a b c js ephSec pk ∧
      Encrypt.sealWith P bs v sender (Rand.shuffle js rs) ephSec pk pt = .ok m :=
  sealRand_segments P bs v sender rs eph src pt m rest h

theorem C18_signcrypt_seal_segments (P : Prims) (bs : Nat) (sender : Option Bytes)
    (boxes syms : List Signcrypt.Recipient) (eph : Encrypt.EphSource) (src : Rand.Source) (pt m : Bytes)
    (rest : Rand.Source)
    (h : Signcrypt.sealRand P bs sender boxes syms eph src pt = .ok (m, rest)) :
    ∃ a b c js ephSec pk, rest = src.drop c ∧
      SecretsAt (boxes ++ syms).length eph src 0 a b c js ephSec pk ∧
      Signcrypt.sealWith P bs sender (Rand.shuffle js (boxes ++ syms)) ephSec pk pt = .ok m :=
  sc_sealRand_segments P bs sender boxes syms eph src pt m rest h

/-- signatures: the nonce is the 16 bytes of reads `[0, c)`, `c ≥ 1` -/
theorem C18_sign_segment (P : Prims) (bs : Nat) (v : Version) (signer : Bytes) (src : Rand.Source)
    (msg m : Bytes) (rest : Rand.Source)
    (h : Sign.attachedRand P bs v signer src msg = .ok (m, rest)) :
    ∃ c n, 0 < c ∧ c ≤ src.length ∧ rest = src.drop c ∧ n = segBytes src 0 c 16 ∧ n.length = 16 ∧
      Sign.attachedWith P bs v signer n msg = .ok m :=
  attachedRand_segment P bs v signer src msg m rest h

theorem C18_sign_detached_segment (P : Prims) (v : Version) (signer : Bytes) (src : Rand.Source)
    (msg m : Bytes) (rest : Rand.Source)
    (h : Sign.detachedRand P v signer src msg = .ok (m, rest)) :
    ∃ c n, 0 < c ∧ c ≤ src.length ∧ rest = src.drop c ∧ n = segBytes src 0 c 16 ∧ n.length = 16 ∧
      Sign.detachedWith P v signer n msg = .ok m :=
  detachedRand_segment P v signer src msg m rest h

/-- **Two consecutive operations.**  A second `Seal` (any arguments) run on the
    source the first one returned consumes the *next* reads of the original
    source: the first call's secrets come from reads `[0, c₁)`, the second
    call's from reads `[c₁, c₂)` — with `0 ≤ a₁ ≤ b₁ < c₁ ≤ a₂ ≤ b₂ < c₂ ≤ |src|`
    (part of `SecretsAt`), i.e. disjoint consecutive segments.  Secrets of
    different operations therefore repeat only if the source repeats. -/
theorem C18_seal_twice (P : Prims)
    (bs₁ : Nat) (v₁ : Version) (sender₁ : Option Bytes) (rs₁ : List Encrypt.Recipient) (eph₁ : Encrypt.EphSource) (pt₁ m₁ : Bytes)
    (bs₂ : Nat) (v₂ : Version) (sender₂ : Option Bytes) (rs₂ : List Encrypt.Recipient) (eph₂ : Encrypt.EphSource) (pt₂ m₂ : Bytes)
    (src rest₁ rest₂ : Rand.Source)
    (h₁ : Encrypt.sealRand P bs₁ v₁ sender₁ rs₁ eph₁ src pt₁ = .ok (m₁, rest₁))
    (h₂ : Encrypt.sealRand P bs₂ v₂ sender₂ rs₂ eph₂ rest₁ pt₂ = .ok (m₂, rest₂)) :
    ∃ a₁ b₁ c₁ a₂ b₂ c₂ js₁ e₁ k₁ js₂ e₂ k₂,
      rest₁ = src.drop c₁ ∧ rest₂ = src.drop c₂ ∧
      SecretsAt rs₁.length eph₁ src 0 a₁ b₁ c₁ js₁ e₁ k₁ ∧
      SecretsAt rs₂.length eph₂ src c₁ a₂ b₂ c₂ js₂ e₂ k₂ ∧
      Encrypt.sealWith P bs₁ v₁ sender₁ (Rand.shuffle js₁ rs₁) e₁ k₁ pt₁ = .ok m₁ ∧
      Encrypt.sealWith P bs₂ v₂ sender₂ (Rand.shuffle js₂ rs₂) e₂ k₂ pt₂ = .ok m₂ :=
  sealRand_twice P bs₁ v₁ sender₁ rs₁ eph₁ pt₁ m₁ bs₂ v₂ sender₂ rs₂ eph₂ pt₂ m₂ src rest₁ rest₂ h₁ h₂

/-- in particular the two payload keys are the first 32 bytes of two disjoint
    ranges of reads `[b₁, c₁)` and `[b₂, c₂)`, `c₁ ≤ b₂` -/
theorem C18_seal_twice_keys (P : Prims)
    (bs₁ : Nat) (v₁ : Version) (sender₁ : Option Bytes) (rs₁ : List Encrypt.Recipient) (eph₁ : Encrypt.EphSource) (pt₁ m₁ : Bytes)
    (bs₂ : Nat) (v₂ : Version) (sender₂ : Option Bytes) (rs₂ : List Encrypt.Recipient) (eph₂ : Encrypt.EphSource) (pt₂ m₂ : Bytes)
    (src rest₁ rest₂ : Rand.Source)
    (h₁ : Encrypt.sealRand P bs₁ v₁ sender₁ rs₁ eph₁ src pt₁ = .ok (m₁, rest₁))
    (h₂ : Encrypt.sealRand P bs₂ v₂ sender₂ rs₂ eph₂ rest₁ pt₂ = .ok (m₂, rest₂)) :
    ∃ b₁ c₁ b₂ c₂ js₁ e₁ js₂ e₂, b₁ < c₁ ∧ c₁ ≤ b₂ ∧ b₂ < c₂ ∧ c₂ ≤ src.length ∧
      Encrypt.sealWith P bs₁ v₁ sender₁ (Rand.shuffle js₁ rs₁) e₁ (segBytes src b₁ c₁ 32) pt₁ = .ok m₁ ∧
      Encrypt.sealWith P bs₂ v₂ sender₂ (Rand.shuffle js₂ rs₂) e₂ (segBytes src b₂ c₂ 32) pt₂ = .ok m₂ :=
  sealRand_twice_keys P bs₁ v₁ sender₁ rs₁ eph₁ pt₁ m₁ bs₂ v₂ sender₂ rs₂ eph₂ pt₂ m₂ src rest₁ rest₂ h₁ h₂

/-! ## within one message no two chunks are protected under the same key and nonce -/

theorem C18_chunk_nonces_distinct (i j : Nat) (hi : i < 2 ^ 64) (hj : j < 2 ^ 64) (h : i ≠ j) :
    Nonce.chunkSecretBox i ≠ Nonce.chunkSecretBox j :=
  chunk_nonces_distinct i j hi hj h

theorem C18_signcrypt_nonces_distinct (hh : Bytes) (hl : hh.length = 64) (f f' : Bool) (i j : Nat)
    (hi : i < 2 ^ 64) (hj : j < 2 ^ 64) (h : (f, i) ≠ (f', j)) :
    Nonce.chunkSigncryption hh f i ≠ Nonce.chunkSigncryption hh f' j :=
  signcrypt_nonces_distinct hh hl f f' i j hi hj h

/-- the other use of the payload key (sender secretbox) has its own nonce -/
theorem C18_sender_nonce_not_chunk (i : Nat) : Nonce.senderKeySecretBox ≠ Nonce.chunkSecretBox i :=
  sender_nonce_not_chunk i

theorem C18_payload_key_box_nonces (i j : Nat) (hi : i < 2 ^ 64) (hj : j < 2 ^ 64)
    (h : Nonce.payloadKeyBoxV2 i = Nonce.payloadKeyBoxV2 j) : i = j :=
  payloadKeyBoxV2_inj i j hi hj h

theorem C18_mac_key_box_nonces (hh : Bytes) (hl : hh.length = 64) (e e' : Bool) (i j : Nat)
    (hi : i < 2 ^ 64) (hj : j < 2 ^ 64)
    (h : Nonce.macKeyBoxV2 hh e i = Nonce.macKeyBoxV2 hh e' j) : e = e' ∧ i = j :=
  macKeyBoxV2_inj hh hl e e' i j hi hj h

/-- the counter can never wrap: the encoder refuses packet numbers at the guard -/
theorem C18_overflow_guard (P : Prims) (v : Version) (pk hh : Bytes) (mks : List Bytes) (i : Nat)
    (c : Bytes) (f : Bool) (hi : 2 ^ 64 - 1 ≤ i) :
    Encrypt.blockStruct P v pk hh mks i c f = .error .packetOverflow :=
  block_overflow_guard P v pk hh mks i c f hi

/-- the same guard in `signcryptBlock` -/
theorem C18_signcrypt_overflow_guard (P : Prims) (sender : Option Bytes) (pk hh : Bytes) (i : Nat)
    (c : Bytes) (f : Bool) (hi : 2 ^ 64 - 1 ≤ i) :
    Signcrypt.blockStruct P sender pk hh i c f = .error .packetOverflow :=
  sc_block_overflow_guard P sender pk hh i c f hi

/-- and below the guard the counter is encoded injectively (`be64` of a number
    `< 2^64`): `blockNumberOK i` means `i < 2^64 - 1` -/
theorem C18_block_number_ok (i : Nat) : blockNumberOK i = true ↔ i < 2 ^ 64 - 1 := by
  unfold blockNumberOK
  exact decide_eq_true_iff

/-! ## non-vacuity -/
example : Rand.readFull 4 [⟨[1, 2], false⟩, ⟨[3, 4, 5], false⟩] = some ([1, 2, 3, 4], []) := by decide
example : Rand.readFull 4 [⟨[1, 2], true⟩, ⟨[3, 4], false⟩] = none := by decide
example : Rand.readFull 4 [⟨[1, 2], false⟩] = none := by decide

/-- two recipients, ephemeral key from the source, and a source that ends after
    the shuffle draw: `Seal` fails with the source's error -/
example : Encrypt.sealRand Toy.prims 4 v2 none [⟨[1], false⟩, ⟨[2], true⟩] .fromRand [⟨[0, 0, 0, 1], false⟩] [7]
    = .error .ioError := by decide

/-- and succeeds on a sufficient source, leaving the unread reads (so the
    hypotheses of `C18_seal_segments` / `C18_seal_twice` are satisfiable) -/
example : ∃ m, Encrypt.sealRand Toy.prims 4 v2 none [⟨[1], false⟩, ⟨[2], true⟩] (.given [3])
    [⟨[0, 0, 0, 1], false⟩, ⟨List.replicate 32 6, false⟩, ⟨[128, 0, 0, 1], false⟩, ⟨List.replicate 32 9, false⟩] [7]
    = .ok (m, [⟨[128, 0, 0, 1], false⟩, ⟨List.replicate 32 9, false⟩]) := ⟨_, by rfl⟩

end Saltpack.Props.C18
