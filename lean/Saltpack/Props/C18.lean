/-
  Property C18 — fresh secrets for every message; fail closed when randomness
  fails.  Statements only; proofs in Saltpack/Proofs/Calls.lean.

  The process randomness source is a script of reads (`Rand.Source`); every
  sender model consumes a prefix of it and returns the rest.  The byte-exact
  correspondence (crypto/rand.Reader replaced by the same script) pins which
  read becomes which secret in the real code.
-/
import Saltpack.Proofs.Calls
import Saltpack.Gen.Inventory
import Saltpack.Toy

namespace Saltpack.Props.C18
open Saltpack Saltpack.Proofs

/-- **Randomness inventory** (regenerated from /repo's source on every run): the
    only functions that read `crypto/rand.Reader` — the full-read wrapper
    `csprngRead` (payload keys, signature nonces), the two shuffles, and key
    generation in `basic`. -/
theorem C18_rand_readers : Gen.randReaders = ["basic.Keyring.GenerateSigningKey", "basic.generateBoxKey", "sp.csprngRead", "sp.shuffleEncryptReceivers", "sp.shuffleSigncryptReceivers"] := rfl

/-- a full read (`csprngReadFull`) returns exactly the bytes the source
    delivered — `n` of them — and leaves a suffix of the source: consecutive
    operations therefore consume disjoint, consecutive segments, and secrets
    repeat only if the source repeats -/
theorem C18_read_is_source (n : Nat) (src : Rand.Source) (b : Bytes) (rest : Rand.Source)
    (h : Rand.readFull n src = some (b, rest)) :
    b.length = n ∧ ∃ k, k ≤ src.length ∧ rest = src.drop k ∧
      b = (((src.take k).map (·.data)).flatten).take n :=
  readFull_spec n src b rest h

/-- `Seal`'s secrets are what the source delivered, in the order
    shuffle draws → ephemeral key → payload key -/
theorem C18_seal_draws (P : Prims) (bs : Nat) (v : Version) (sender : Option Bytes)
    (rs : List Encrypt.Recipient) (eph : Encrypt.EphSource) (src : Rand.Source) (pt m : Bytes) (rest : Rand.Source)
    (h : Encrypt.sealRand P bs v sender rs eph src pt = .ok (m, rest)) :
    ∃ js src1 ephSec src2 pk,
      Encrypt.shuffleDraws (rs.length - 1) src (src.length + 1) = .ok (js, src1) ∧
      (match eph with
        | .given s => ephSec = s ∧ src2 = src1
        | .fromRand => Rand.readFull 32 src1 = some (ephSec, src2)
        | .fails => False) ∧
      Rand.readFull 32 src2 = some (pk, rest) ∧
      Encrypt.sealWith P bs v sender (Rand.shuffle js rs) ephSec pk pt = .ok m :=
  sealRand_draws P bs v sender rs eph src pt m rest h

/-- a signature header's nonce is the 16 bytes of one full read -/
theorem C18_sign_draws (P : Prims) (bs : Nat) (v : Version) (signer : Bytes) (src : Rand.Source)
    (msg m : Bytes) (rest : Rand.Source)
    (h : Sign.attachedRand P bs v signer src msg = .ok (m, rest)) :
    ∃ n, Rand.readFull Sign.sigNonceLen src = some (n, rest) ∧ Sign.attachedWith P bs v signer n msg = .ok m :=
  attachedRand_draws P bs v signer src msg m rest h

/-- **Fail closed.** An error before `n` bytes are in — alone, or with a short
    slice — makes the full read fail; so does a source that ends early. -/
theorem C18_read_fail_closed (n : Nat) (src : Rand.Source) (k : Nat) (hk : k < src.length)
    (herr : (src[k]'hk).err = true)
    (hshort : ((src.take (k + 1)).map (·.data.length)).sum < n) :
    Rand.readFull n src = none :=
  readFull_fail_closed n src k hk herr hshort

theorem C18_read_short (n : Nat) (src : Rand.Source)
    (hshort : (src.map (·.data.length)).sum < n) : Rand.readFull n src = none :=
  readFull_short n src hshort

/-- end to end: when the payload-key read fails, `Seal` returns an error and no
    message at all -/
theorem C18_seal_fail_closed (P : Prims) (bs : Nat) (v : Version) (sender : Option Bytes)
    (rs : List Encrypt.Recipient) (s : Bytes) (src : Rand.Source) (pt : Bytes)
    (hsingle : rs.length = 1) (hfail : Rand.readFull 32 src = none) :
    ∃ e, Encrypt.sealRand P bs v sender rs (.given s) src pt = .error e :=
  sealRand_fail_closed P bs v sender rs s src pt hsingle hfail

/-! ## within one message no two chunks are protected under the same key and nonce -/

theorem C18_chunk_nonces_distinct (i j : Nat) (hi : i < 2 ^ 64) (hj : j < 2 ^ 64) (h : i ≠ j) :
    Nonce.chunkSecretBox i ≠ Nonce.chunkSecretBox j :=
  chunk_nonces_distinct i j hi hj h

theorem C18_signcrypt_nonces_distinct (hh : Bytes) (hl : hh.length = 64) (f f' : Bool) (i j : Nat)
    (hi : i < 2 ^ 64) (hj : j < 2 ^ 64) (h : (f, i) ≠ (f', j)) :
    Nonce.chunkSigncryption hh f i ≠ Nonce.chunkSigncryption hh f' j :=
  signcrypt_nonces_distinct hh hl f f' i j hi hj h

/-- the other use of the payload key (sender secretbox) has its own nonce -/
theorem C18_sender_nonce_not_chunk (i : Nat) : Nonce.senderKeySecretBox ≠ Nonce.chunkSecretBox i :=
  sender_nonce_not_chunk i

theorem C18_payload_key_box_nonces (i j : Nat) (hi : i < 2 ^ 64) (hj : j < 2 ^ 64)
    (h : Nonce.payloadKeyBoxV2 i = Nonce.payloadKeyBoxV2 j) : i = j :=
  payloadKeyBoxV2_inj i j hi hj h

theorem C18_mac_key_box_nonces (hh : Bytes) (hl : hh.length = 64) (e e' : Bool) (i j : Nat)
    (hi : i < 2 ^ 64) (hj : j < 2 ^ 64)
    (h : Nonce.macKeyBoxV2 hh e i = Nonce.macKeyBoxV2 hh e' j) : e = e' ∧ i = j :=
  macKeyBoxV2_inj hh hl e e' i j hi hj h

/-- the counter can never wrap: the encoder refuses packet numbers at the guard -/
theorem C18_overflow_guard (P : Prims) (v : Version) (pk hh : Bytes) (mks : List Bytes) (i : Nat)
    (c : Bytes) (f : Bool) (hi : 2 ^ 64 - 1 ≤ i) :
    Encrypt.blockStruct P v pk hh mks i c f = .error .packetOverflow :=
  block_overflow_guard P v pk hh mks i c f hi

/-! ## non-vacuity -/
example : Rand.readFull 4 [⟨[1, 2], false⟩, ⟨[3, 4, 5], false⟩] = some ([1, 2, 3, 4], []) := by decide
example : Rand.readFull 4 [⟨[1, 2], true⟩, ⟨[3, 4], false⟩] = none := by decide
example : Rand.readFull 4 [⟨[1, 2], false⟩] = none := by decide

end Saltpack.Props.C18
