/-
  C15 (hostile input) at the BYTE level: for every byte string THE FRONT END READS.

  `Props/C15.lean` proves "no run ends in `Err.panic`" for every decoded header
  and packet stream, under the hypothesis `htail` that the stream's own tail
  error is not a panic.  `Model/Front.lean` turns a byte string into such a
  stream the way the receivers' reads do: `Codec.split*` — go-codec's typed
  decoding, in go-codec's order, with its leniencies and its depth budget — and,
  only where `Codec` calls the input unmodelled, the spec-shaped `Wire.split*`.
  Here the two are composed: whenever the front end reads `msg` (it does not
  answer `unmodelled` — the honest hypothesis `… = .ok r` of every theorem), the
  receiver run on what it read never ends in a panic — all keyrings, resolvers,
  validators admitting majors 1, 2 only.  `htail` is no longer a hypothesis:
  every tail a front end produces is a clean end or a plain decode error
  (`C15_front_tails_plain`).

  What is and what is NOT proved about `unmodelled`:
  * `Front.read*`, `Decrypt.openBytes`, … are total functions (fuel / structural
    recursion, certified by the termination checker);
  * `C15_front_unmodelled_def` — by definition of the front end, `unmodelled w`
    is answered exactly when `Codec` answers `unmodelled w` and `Wire` does not
    know the input either (an unfolding, it bounds nothing);
  * `C15_front_reads_sealed_*` — on every genuine sender output (all four modes)
    the front end does answer, through `Codec`, with the header and the packets
    the sender wrote (the bridge `C09_bridge_seal_*`);
  * `C15_blocks_unmodelled_partial` — the packet loop of `Codec.split*` itself
    never runs out of its fuel `rest.length + 1` provided every successful packet
    decode consumes at least one byte; under that hypothesis an `unmodelled`
    answer of the loop is an `unmodelled` answer of one packet decode (typed or
    generic) at some position.  PARTIAL: the progress hypothesis and the
    provenance of `unmodelled` INSIDE the packet / header decoders (two documented
    shapes — a container-typed struct field twice in map form; a generic map with
    a repeated non-scalar key or two timestamp keys — and the inner fuel
    `fuelFor b = 2·|b| + 256`) are documented in Model/Codec.lean and measured by
    the correspondence (0.0–0.3 % of hostile inputs), not proved.

  Statements only; proofs in Saltpack/Proofs/CodecBytes.lean, CodecBytesBridge.lean, NoPanic.lean.
-/
import Saltpack.Proofs.CodecBytes
import Saltpack.Proofs.CodecBytesBridge
import Saltpack.Toy

namespace Saltpack.Props.C15
open Saltpack Saltpack.Proofs

/-- **Decryption, every byte string.** -/
theorem C15_decrypt_no_panic_bytes (P : Prims) (hP : P.Lawful) (valid : Validator) (hvalid : ValidatorOK valid)
    (kr : Keyring) (msg : Bytes) (r : Decrypt.Result)
    (hread : Decrypt.openBytes P valid kr msg = .ok r) (e : Err) (h : r.err = some e) :
    Err.isPanic e = false := by
  obtain ⟨hr, ps, hrd, rfl⟩ := dec_openBytes_ok hread
  exact dec_no_panic P hP valid hvalid kr hr ps (readEnc_tail msg hr ps hrd).no_panic e h

/-- **Signcryption, every byte string** (any keyring, any resolver). -/
theorem C15_signcrypt_open_no_panic_bytes (P : Prims) (kr : Keyring) (res : Signcrypt.Resolver) (msg : Bytes)
    (r : Signcrypt.Result) (hread : Signcrypt.openBytes P kr res msg = .ok r) (e : Err) (h : r.err = some e) :
    Err.isPanic e = false := by
  obtain ⟨hr, ps, hrd, rfl⟩ := sc_openBytes_ok hread
  exact sc_no_panic P kr res hr ps (readSigncrypt_tail msg hr ps hrd).no_panic e h

/-- **Attached signatures, every byte string.** -/
theorem C15_verify_no_panic_bytes (P : Prims) (valid : Validator) (hvalid : ValidatorOK valid)
    (kr : Keyring) (msg : Bytes) (r : Sign.Result)
    (hread : Sign.verifyBytes P valid kr msg = .ok r) (e : Err) (h : r.err = some e) :
    Err.isPanic e = false := by
  obtain ⟨hr, ps, hrd, rfl⟩ := sig_verifyBytes_ok hread
  exact ver_no_panic P valid hvalid kr hr ps (readSig_tail msg hr ps hrd).no_panic e h

/-- **Detached signatures, every signature byte string and every message.** -/
theorem C15_verify_detached_no_panic_bytes (P : Prims) (valid : Validator) (kr : Keyring) (sigMsg msg : Bytes)
    (r : Except Err Bytes) (hread : Sign.verifyDetachedBytes P valid kr sigMsg msg = .ok r) (e : Err)
    (h : r = .error e) : Err.isPanic e = false := by
  obtain ⟨hr, sr, hrd, rfl⟩ := sig_verifyDetachedBytes_ok hread
  exact det_no_panic P valid kr hr sr msg (readDetached_plain sigMsg hr sr hrd).no_panic e h

/-- what a front end hands to a receiver ends in a clean end of input or in a
    plain decode error, whatever the bytes: the hypothesis `htail` / `hsr` of
    `C15_*_no_panic` holds for every byte string -/
theorem C15_front_tails_plain (msg : Bytes) :
    (∀ hr ps, Front.readEnc msg = .ok (hr, ps) → ps.tail = .eof ∨ ps.tail = .err .decodeError) ∧
    (∀ hr ps, Front.readSigncrypt msg = .ok (hr, ps) → ps.tail = .eof ∨ ps.tail = .err .decodeError) ∧
    (∀ hr ps, Front.readSig msg = .ok (hr, ps) → ps.tail = .eof ∨ ps.tail = .err .decodeError) ∧
    (∀ hr sr, Front.readDetached msg = .ok (hr, sr) →
      ∀ e, sr = .none e → e = .unexpectedEOF ∨ e = .decodeError) :=
  ⟨readEnc_tail msg, readSigncrypt_tail msg, readSig_tail msg, readDetached_plain msg⟩

/-- **`unmodelled`, unfolded** (formerly `C15_front_unmodelled_only_if_both`).  The
    front end answers `unmodelled w` exactly when go-codec's typed reader of the
    model answers `unmodelled w` AND the spec-shaped reader does not know the input
    either — for all four front ends.  This is the definition of `Front.orWire`
    spelled out; it does not bound the set of unmodelled inputs (see the header). -/
theorem C15_front_unmodelled_def (msg : Bytes) (w : String) :
    (Front.readEnc msg = .error w ↔ Codec.splitEnc msg = .error w ∧ ∃ w', Wire.splitEnc msg = .unmodelled w') ∧
    (Front.readSigncrypt msg = .error w ↔
      Codec.splitSigncrypt msg = .error w ∧ ∃ w', Wire.splitSigncrypt msg = .unmodelled w') ∧
    (Front.readSig msg = .error w ↔ Codec.splitSig msg = .error w ∧ ∃ w', Wire.splitSig msg = .unmodelled w') ∧
    (Front.readDetached msg = .error w ↔
      Codec.splitDetached msg = .error w ∧ ∃ w', Wire.splitDetached msg = .unmodelled w') := by
  refine ⟨?_, ?_, ?_, ?_⟩
  · unfold Front.readEnc; rw [orWire_error_iff, settle_error]
  · unfold Front.readSigncrypt; rw [orWire_error_iff, settle_error]
  · unfold Front.readSig; rw [orWire_error_iff, settle_error]
  · unfold Front.readDetached; rw [orWire_error_iff, codecDetached_error]

/-- **Where go-codec's typed reader answers, the front end is that reader** (all
    four front ends): the same header read, the same packets; the tail is the
    typed reader's, except that behind a final packet a truncated object the typed
    decoder refuses counts as the clean end `assertEndOfStream`'s generic read
    reports (`Front.settle`) — in particular a stream `Codec` ends cleanly is
    handed over unchanged. -/
theorem C15_front_is_codec_where_modelled (msg : Bytes) :
    (∀ hr ps, Codec.splitEnc msg = .ok (hr, ps) →
      ∃ ps', Front.readEnc msg = .ok (hr, ps') ∧ ps'.items = ps.items ∧ (ps'.tail = ps.tail ∨ ps'.tail = .eof)) ∧
    (∀ hr ps, Codec.splitSigncrypt msg = .ok (hr, ps) →
      ∃ ps', Front.readSigncrypt msg = .ok (hr, ps') ∧ ps'.items = ps.items ∧ (ps'.tail = ps.tail ∨ ps'.tail = .eof)) ∧
    (∀ hr ps, Codec.splitSig msg = .ok (hr, ps) →
      ∃ ps', Front.readSig msg = .ok (hr, ps') ∧ ps'.items = ps.items ∧ (ps'.tail = ps.tail ∨ ps'.tail = .eof)) ∧
    (∀ hr d, Codec.splitDetached msg = .ok (hr, d) → Front.readDetached msg = .ok (hr, Front.detSig d)) :=
  ⟨fun _ _ h => readEnc_of_codec h, fun _ _ h => readSigncrypt_of_codec h, fun _ _ h => readSig_of_codec h,
   fun _ _ h => orWire_of_codec (codecDetached_of_ok h)⟩

/-- the spec-shaped reader is consulted only where the typed reader gives up -/
theorem C15_front_is_wire_only_where_codec_unmodelled (msg : Bytes) (hr : HeaderRead EncHeader) (ps : PStream EncBlock)
    (h : Front.readEnc msg = .ok (hr, ps)) :
    (∃ ps0, Codec.splitEnc msg = .ok (hr, ps0) ∧ ps.items = ps0.items ∧ (ps.tail = ps0.tail ∨ ps.tail = .eof)) ∨
    ∃ w, Codec.splitEnc msg = .error w ∧ Wire.splitEnc msg = .ok (hr, ps) := by
  rcases orWire_ok h with hc | ⟨w, hc, hw⟩
  · exact Or.inl (settle_ok hc)
  · exact Or.inr ⟨w, settle_error.mp hc, hw⟩

/-- **The packet loop never exhausts its fuel — partial.**  `Codec.split*` read
    the packets with `Codec.blocks dec (rest.length + 1) rest`.  If every
    successful packet decode consumes at least one byte (`hprog`; true of every
    packet decoder of the model — each starts by reading a descriptor byte — but
    not proved here: it needs "a decoder never gives bytes back" for every
    primitive), then with fuel beyond the input length the loop answers
    `unmodelled w` only because ONE packet decode — the typed one, or the generic
    one tried at the same position after a typed decode error — answered
    `unmodelled w` on a suffix reached by successful typed decodes. -/
theorem C15_blocks_unmodelled_partial {β : Type} (dec : Codec.Dec β)
    (hprog : ∀ b x r, dec b = .ok (x, r) → r.length < b.length) :
    ∀ (fuel : Nat) (b : Bytes) (w : String), b.length < fuel → Codec.blocks dec fuel b = .error w →
      ∃ b' : Bytes, b'.length ≤ b.length ∧
        (dec b' = .error (.unmodelled w) ∨ (∃ why, dec b' = .error (.err why)) ∧ Codec.generic b' = .error (.unmodelled w)) :=
  blocks_unmodelled_provenance dec hprog

/-- non-vacuity of `hprog`: a decoder that takes one byte per packet -/
example : ∀ (fuel : Nat) (b : Bytes) (w : String), b.length < fuel →
    Codec.blocks (fun b => match b with | [] => .error .eof | x :: r => .ok (x, r)) fuel b ≠ .error w := by
  intro fuel b w hf h
  obtain ⟨b', _, hb'⟩ := C15_blocks_unmodelled_partial
    (fun b => match b with | [] => .error .eof | x :: r => .ok (x, r))
    (by intro b x r h; cases b with
        | nil => cases h
        | cons y t => cases h; simp) fuel b w hf h
  rcases hb' with h1 | ⟨⟨why, h1⟩, _⟩ <;> (cases b' <;> cases h1)

/-- **Genuine sender output is read** (never `unmodelled`), by go-codec's typed
    reader, as the header and the packets the sender wrote — encryption.
    (Hypotheses: those of the bridge `C09_bridge_seal_enc`.) -/
theorem C15_front_reads_sealed_enc (P : Prims) (hS : WireSizes P) (bs : Nat) (hbs : 0 < bs) (hbs32 : bs + 16 < 2 ^ 32)
    (v : Version) (sender : Option Bytes) (rs : List Encrypt.Recipient) (eph pk pt : Bytes)
    (hpk : pk.length + 16 < 2 ^ 32) (hpub : ∀ r ∈ rs, r.pub.length < 2 ^ 32)
    (h : EncHeader) (hb : Bytes) (blks : List EncBlock) (body : Bytes)
    (hs : Encrypt.sealPackets P bs v sender rs eph pk pt = .ok (h, hb, blks))
    (he : Encrypt.encodeBlocks v blks = .ok body) (hhb : hb.length < 2 ^ 32) :
    Front.readEnc (headerPacket hb ++ body) = .ok (.ok hb h, ⟨(blks.map (encAsRead v)).map some, .eof⟩) :=
  readEnc_of_codec_eof (CodecP.bridge_seal_enc P hS bs hbs hbs32 v sender rs eph pk pt hpk hpub h hb blks body hs he hhb).2

/-- … signcryption -/
theorem C15_front_reads_sealed_signcrypt (P : Prims) (hS : WireSizes P) (bs : Nat) (hbs : 0 < bs)
    (hbs32 : bs + 80 < 2 ^ 32) (sender : Option Bytes) (rs : List Signcrypt.Recipient) (eph pk pt : Bytes)
    (hpk : pk.length + 16 < 2 ^ 32)
    (hid : ∀ key ident, Signcrypt.Recipient.sym key ident ∈ rs → ident.length < 2 ^ 32)
    (h : EncHeader) (hb : Bytes) (blks : List SigncryptBlock)
    (hs : Signcrypt.sealPackets P bs sender rs eph pk pt = .ok (h, hb, blks)) (hhb : hb.length < 2 ^ 32) :
    Front.readSigncrypt (headerPacket hb ++ Signcrypt.encodeBlocks blks) = .ok (.ok hb h, ⟨blks.map some, .eof⟩) :=
  readSigncrypt_of_codec_eof (CodecP.bridge_seal_signcrypt P hS bs hbs hbs32 sender rs eph pk pt hpk hid h hb blks hs hhb).2

/-- … attached signatures -/
theorem C15_front_reads_sealed_sig (P : Prims) (hS : WireSizes P) (bs : Nat) (hbs : 0 < bs) (hbs32 : bs < 2 ^ 32)
    (v : Version) (signer nonce msg : Bytes) (hn : nonce.length + 92 < 2 ^ 32)
    (h : SigHeader) (hb : Bytes) (blks : List SigBlock) (body : Bytes)
    (hs : Sign.attachedPackets P bs v signer nonce msg = .ok (h, hb, blks))
    (he : Sign.encodeBlocks v blks = .ok body) :
    Front.readSig (headerPacket hb ++ body) = .ok (.ok hb h, ⟨(blks.map (sigAsRead v)).map some, .eof⟩) :=
  readSig_of_codec_eof (CodecP.bridge_seal_sig P hS bs hbs hbs32 v signer nonce msg hn h hb blks body hs he).2

/-- … detached signatures -/
theorem C15_front_reads_sealed_detached (P : Prims) (hS : WireSizes P) (v : Version) (signer nonce msg out : Bytes)
    (hn : nonce.length + 92 < 2 ^ 32) (hout : Sign.detachedWith P v signer nonce msg = .ok out) :
    ∃ hb h sg, Front.readDetached out = .ok (.ok hb h, .sig sg) := by
  obtain ⟨hb, h, sg, _, hc⟩ := CodecP.bridge_seal_detached P hS v signer nonce msg out hn hout
  exact ⟨hb, h, sg, orWire_of_codec (codecDetached_of_ok hc)⟩

/-! ## a concrete hostile byte string (kernel-evaluated)

  An attached-signature message whose payload packet is a FIXMAP where the
  packet array is expected: `82 c3 c4 01 09 c4 01 41 07` = map of 2 pairs, which
  go-codec reads as the 4 flat elements `true, bin[09], bin[41], 7` of the V2
  block (`final`, `signature`, `payload_chunk`, one surplus element swallowed).
  The spec-shaped reader calls it unmodelled; the front end reads it through
  `Codec` (its primary reader); the verifier refuses the signature — an error, no panic. -/

def hostileSigMsg : Bytes :=
  headerPacket (Msgpack.encode (Sign.header v2 [1] mtAttached [2]).toVal) ++
    [0x82, 0xc3, 0xc4, 0x01, 0x09, 0xc4, 0x01, 0x41, 0x07]

/-- a keyring that knows every signer -/
def anyRing : Keyring := ⟨fun _ => (-1, none), fun _ => none, [], fun _ => none, fun k => some k⟩

example : (match Wire.splitSig hostileSigMsg with | .unmodelled _ => true | .ok _ => false) = true := by decide

example : (Front.readSig hostileSigMsg).toOption.map (fun x => (x.2.items, x.2.tail)) =
    some ([some ⟨[9], [0x41], true⟩], .eof) := by decide

example : (Sign.verifyBytes Toy.prims knownMajor anyRing hostileSigMsg).toOption.map (fun r => (r.released, r.err)) =
    some ([], some .badSignature) := by decide

/-- the hypotheses of `C15_verify_no_panic_bytes` are met by this instance -/
example : ∀ r, Sign.verifyBytes Toy.prims knownMajor anyRing hostileSigMsg = .ok r →
    ∀ e, r.err = some e → Err.isPanic e = false :=
  fun r hr e he => C15_verify_no_panic_bytes Toy.prims knownMajor knownMajor_ok anyRing hostileSigMsg r hr e he

/-- an empty fixmap as the whole header (`c4 01 80`): every field stays zero, the
    format name is refused — for every keyring -/
example (kr : Keyring) : (Decrypt.openBytes Toy.prims knownMajor kr [0xc4, 0x01, 0x80]).toOption.map
    (fun r => (r.released, r.err)) = some ([], some .notASaltpackMessage) := by rfl

end Saltpack.Props.C15
