/-
  C15 (hostile input) at the BYTE level: for EVERY byte string `msg`.

  `Props/C15.lean` proves "no run ends in `Err.panic`" for every decoded header
  and packet stream, under the hypothesis `htail` that the stream's own tail
  error is not a panic.  `Model/Front.lean` turns ANY byte string into such a
  stream the way the receivers' reads do (`Wire.split*` for spec-shaped input,
  `Codec.split*` — go-codec's typed decoding with its leniencies — for the rest).
  Here the two are composed: whenever the front end reads `msg` (it does not
  answer `unmodelled`), the receiver run on what it read never ends in a panic —
  all keyrings, resolvers, validators admitting majors 1, 2 only.  `htail` is no
  longer a hypothesis: every tail a front end produces is a clean end or a plain
  decode error (`C15_front_tails_plain`).

  Totality: `Front.read*`, `Decrypt.openBytes`, `Signcrypt.openBytes`,
  `Sign.verifyBytes`, `Sign.verifyDetachedBytes` are total functions (fuel /
  structural recursion, certified by the termination checker), and an
  `unmodelled` answer arises only where `Wire` says unmodelled AND `Codec` gives
  up too (`C15_front_unmodelled_only_if_both`).  Which shapes make `Codec` give
  up (a container-typed struct field twice in map form; a generic map with a
  repeated non-scalar key or two timestamp keys; fuel) is documented in
  Model/Codec.lean and measured by the correspondence, not proved here.

  Statements only; proofs in Saltpack/Proofs/CodecBytes.lean, NoPanic.lean.
-/
import Saltpack.Proofs.CodecBytes
import Saltpack.Toy

namespace Saltpack.Props.C15
open Saltpack Saltpack.Proofs

/-- **Decryption, every byte string.** -/
theorem C15_decrypt_no_panic_bytes (P : Prims) (hP : P.Lawful) (valid : Validator) (hvalid : ValidatorOK valid)
    (kr : Keyring) (msg : Bytes) (r : Decrypt.Result)
    (hread : Decrypt.openBytes P valid kr msg = .ok r) (e : Err) (h : r.err = some e) :
    Err.isPanic e = false := by
  obtain ⟨hr, ps, hrd, rfl⟩ := dec_openBytes_ok hread
  exact dec_no_panic P hP valid hvalid kr hr ps (readEnc_tail msg hr ps hrd).no_panic e h

/-- **Signcryption, every byte string** (any keyring, any resolver). -/
theorem C15_signcrypt_open_no_panic_bytes (P : Prims) (kr : Keyring) (res : Signcrypt.Resolver) (msg : Bytes)
    (r : Signcrypt.Result) (hread : Signcrypt.openBytes P kr res msg = .ok r) (e : Err) (h : r.err = some e) :
    Err.isPanic e = false := by
  obtain ⟨hr, ps, hrd, rfl⟩ := sc_openBytes_ok hread
  exact sc_no_panic P kr res hr ps (readSigncrypt_tail msg hr ps hrd).no_panic e h

/-- **Attached signatures, every byte string.** -/
theorem C15_verify_no_panic_bytes (P : Prims) (valid : Validator) (hvalid : ValidatorOK valid)
    (kr : Keyring) (msg : Bytes) (r : Sign.Result)
    (hread : Sign.verifyBytes P valid kr msg = .ok r) (e : Err) (h : r.err = some e) :
    Err.isPanic e = false := by
  obtain ⟨hr, ps, hrd, rfl⟩ := sig_verifyBytes_ok hread
  exact ver_no_panic P valid hvalid kr hr ps (readSig_tail msg hr ps hrd).no_panic e h

/-- **Detached signatures, every signature byte string and every message.** -/
theorem C15_verify_detached_no_panic_bytes (P : Prims) (valid : Validator) (kr : Keyring) (sigMsg msg : Bytes)
    (r : Except Err Bytes) (hread : Sign.verifyDetachedBytes P valid kr sigMsg msg = .ok r) (e : Err)
    (h : r = .error e) : Err.isPanic e = false := by
  obtain ⟨hr, sr, hrd, rfl⟩ := sig_verifyDetachedBytes_ok hread
  exact det_no_panic P valid kr hr sr msg (readDetached_plain sigMsg hr sr hrd).no_panic e h

/-- what a front end hands to a receiver ends in a clean end of input or in a
    plain decode error, whatever the bytes: the hypothesis `htail` / `hsr` of
    `C15_*_no_panic` holds for every byte string -/
theorem C15_front_tails_plain (msg : Bytes) :
    (∀ hr ps, Front.readEnc msg = .ok (hr, ps) → ps.tail = .eof ∨ ps.tail = .err .decodeError) ∧
    (∀ hr ps, Front.readSigncrypt msg = .ok (hr, ps) → ps.tail = .eof ∨ ps.tail = .err .decodeError) ∧
    (∀ hr ps, Front.readSig msg = .ok (hr, ps) → ps.tail = .eof ∨ ps.tail = .err .decodeError) ∧
    (∀ hr sr, Front.readDetached msg = .ok (hr, sr) →
      ∀ e, sr = .none e → e = .unexpectedEOF ∨ e = .decodeError) :=
  ⟨readEnc_tail msg, readSigncrypt_tail msg, readSig_tail msg, readDetached_plain msg⟩

/-- **The front end is total, and `unmodelled` needs both readers to give up**:
    every byte string is read, or `Wire` calls it unmodelled (with the reason
    reported) and `Codec` does not claim to know it either. -/
theorem C15_front_unmodelled_only_if_both (msg : Bytes) :
    ((∃ x, Front.readEnc msg = .ok x) ∨
      ∃ w w', Front.readEnc msg = .error w ∧ Wire.splitEnc msg = .unmodelled w ∧ Codec.splitEnc msg = .error w') ∧
    ((∃ x, Front.readSigncrypt msg = .ok x) ∨
      ∃ w w', Front.readSigncrypt msg = .error w ∧ Wire.splitSigncrypt msg = .unmodelled w ∧
        Codec.splitSigncrypt msg = .error w') ∧
    ((∃ x, Front.readSig msg = .ok x) ∨
      ∃ w w', Front.readSig msg = .error w ∧ Wire.splitSig msg = .unmodelled w ∧ Codec.splitSig msg = .error w') := by
  refine ⟨?_, ?_, ?_⟩
  · cases h : Front.readEnc msg with
    | ok x => exact Or.inl ⟨x, rfl⟩
    | error w => obtain ⟨a, w', b⟩ := orCodec_error h; exact Or.inr ⟨w, w', rfl, a, b⟩
  · cases h : Front.readSigncrypt msg with
    | ok x => exact Or.inl ⟨x, rfl⟩
    | error w => obtain ⟨a, w', b⟩ := orCodec_error h; exact Or.inr ⟨w, w', rfl, a, b⟩
  · cases h : Front.readSig msg with
    | ok x => exact Or.inl ⟨x, rfl⟩
    | error w => obtain ⟨a, w', b⟩ := orCodec_error h; exact Or.inr ⟨w, w', rfl, a, b⟩

/-- where the spec-shaped reader answers, the front end is that reader -/
theorem C15_front_is_wire_where_modelled (msg : Bytes) (x : HeaderRead EncHeader × PStream EncBlock)
    (h : Wire.splitEnc msg = .ok x) : Front.readEnc msg = .ok x :=
  orCodec_of_wire h

/-! ## a concrete hostile byte string (kernel-evaluated)

  An attached-signature message whose payload packet is a FIXMAP where the
  packet array is expected: `82 c3 c4 01 09 c4 01 41 07` = map of 2 pairs, which
  go-codec reads as the 4 flat elements `true, bin[09], bin[41], 7` of the V2
  block (`final`, `signature`, `payload_chunk`, one surplus element swallowed).
  The spec-shaped reader calls it unmodelled; the front end reads it through
  `Codec`; the verifier refuses the signature — an error, no panic. -/

def hostileSigMsg : Bytes :=
  headerPacket (Msgpack.encode (Sign.header v2 [1] mtAttached [2]).toVal) ++
    [0x82, 0xc3, 0xc4, 0x01, 0x09, 0xc4, 0x01, 0x41, 0x07]

/-- a keyring that knows every signer -/
def anyRing : Keyring := ⟨fun _ => (-1, none), fun _ => none, [], fun _ => none, fun k => some k⟩

example : (match Wire.splitSig hostileSigMsg with | .unmodelled _ => true | .ok _ => false) = true := by decide

example : (Front.readSig hostileSigMsg).toOption.map (fun x => (x.2.items, x.2.tail)) =
    some ([some ⟨[9], [0x41], true⟩], .eof) := by decide

example : (Sign.verifyBytes Toy.prims knownMajor anyRing hostileSigMsg).toOption.map (fun r => (r.released, r.err)) =
    some ([], some .badSignature) := by decide

/-- the hypotheses of `C15_verify_no_panic_bytes` are met by this instance -/
example : ∀ r, Sign.verifyBytes Toy.prims knownMajor anyRing hostileSigMsg = .ok r →
    ∀ e, r.err = some e → Err.isPanic e = false :=
  fun r hr e he => C15_verify_no_panic_bytes Toy.prims knownMajor knownMajor_ok anyRing hostileSigMsg r hr e he

/-- an empty fixmap as the whole header (`c4 01 80`): every field stays zero, the
    format name is refused — for every keyring -/
example (kr : Keyring) : (Decrypt.openBytes Toy.prims knownMajor kr [0xc4, 0x01, 0x80]).toOption.map
    (fun r => (r.released, r.err)) = some ([], some .notASaltpackMessage) := by rfl

end Saltpack.Props.C15
