/-
  Property C16, extension (iii) — the dispatcher
  `ClassifyEncryptedStreamAndMakeDecoder`: "returns the same plaintext and
  identities as the direct entry point for the detected mode".

  `Dispatch.dispatch` mirrors the Go control flow: classify (`bufio.NewReader`,
  4096 bytes), map `ErrShortSliceOrBuffer` to itself and every other
  classification error to `ErrNotASaltpackMessage`, then build — over the SAME
  reader, i.e. from byte 0 — `NewDecryptStream` / `NewDearmor62DecryptStream`
  (`CheckKnownMajorVersion`) for encryption, `NewSigncryptOpenStream` /
  `NewDearmor62SigncryptOpenStream` for signcryption, `ErrWrongMessageType`
  otherwise; the outcome is that decoder read to its end.  The direct entry
  points are the existing receiver models (`Decrypt.openStream`,
  `Signcrypt.openStream` behind `Wire.split…`; the armored ones behind
  `Armor.open62 (some mtEncryption)`), about which C02/C04/C11/C13 speak.
  Correspondence: `dispatch.model` (genuine, truncated, bit-flipped, trailing,
  wrong-frame, re-flowed armored and binary messages of all four modes, under
  five fragmentations) and `dispatch.machine` (through the bufio machine over
  scripts, including a fault inside the classified range).

  Partial: for ARMORED input that the armor layer rejects, model and code are
  compared as ok-versus-error only (a streamed armored message that fails late may
  already have released plaintext; `Armor.openPure` documents the same limit).
-/
import Saltpack.Proofs.Dispatch

namespace Saltpack.Props.C16
open Saltpack Saltpack.Classify Saltpack.Dispatch Saltpack.Stream Saltpack.Bufio Saltpack.Proofs
open Saltpack.Proofs.BufioP Saltpack.Proofs.DispatchP

/-- **The dispatcher's outcome equals that of the direct entry point named by the
    verdict, on the same bytes** (for every primitive instance, keyring, resolver
    and stream): binary/armored × encryption/signcryption; attached and detached
    signatures are refused with `ErrWrongMessageType` -/
theorem C16_dispatch_direct (P : Prims) (kr : Keyring) (res : Signcrypt.Resolver) (all : Bytes)
    (arm : Bool) (b : Bytes) (t : Int) (v : Version)
    (h : classifyStream defaultBufSize all = .ok (arm, b, t, v)) :
    (t = mtEncryption → arm = false → dispatch P kr res all = ⟨false, t, v, decryptStream P kr all⟩) ∧
    (t = mtEncryption → arm = true → dispatch P kr res all = ⟨true, t, v, dearmor62DecryptStream P kr all⟩) ∧
    (t = mtSigncryption → arm = false → dispatch P kr res all = ⟨false, t, v, signcryptOpenStream P kr res all⟩) ∧
    (t = mtSigncryption → arm = true →
      dispatch P kr res all = ⟨true, t, v, dearmor62SigncryptOpenStream P kr res all⟩) ∧
    (t = mtAttached ∨ t = mtDetached → dispatch P kr res all = refuse .wrongMessageType) :=
  dispatch_direct P kr res all arm b t v h

/-- **non-saltpack and too-short input is refused** (nothing released, no key
    object called: the outcome is `.fail`) -/
theorem C16_dispatch_refuses (P : Prims) (kr : Keyring) (res : Signcrypt.Resolver) (all : Bytes) :
    (classifyStream defaultBufSize all = .notSaltpack → dispatch P kr res all = refuse .notASaltpackMessage) ∧
    (classifyStream defaultBufSize all = .eof → dispatch P kr res all = refuse .notASaltpackMessage) ∧
    (classifyStream defaultBufSize all = .short → dispatch P kr res all = refuse .shortSliceOrBuffer) :=
  dispatch_refuses P kr res all

/-- **genuine binary messages** (header start of `C16_binary_correct`): an
    encryption message goes to `NewDecryptStream`, a signcryption message to
    `NewSigncryptOpenStream`, signatures are refused -/
theorem C16_dispatch_genuine_binary (P : Prims) (kr : Keyring) (res : Signcrypt.Resolver)
    (btag atag tail : Bytes) (hb : IsBinTag btag) (ha : IsArrTag atag)
    (ma mi t : Nat) (hma : ma < 128) (hmi : mi < 128) (ht : isMode (t : Int) = true)
    (hlen : 23 ≤ (btag ++ atag ++ Msgpack.encode (.str Gen.c_sp_FormatName) ++ Msgpack.encode (.arr [.int ma, .int mi]) ++
      Msgpack.encode (.int t) ++ tail).length) :
    let msg := btag ++ atag ++ Msgpack.encode (.str Gen.c_sp_FormatName) ++ Msgpack.encode (.arr [.int ma, .int mi]) ++
      Msgpack.encode (.int t) ++ tail
    ((t : Int) = mtEncryption → dispatch P kr res msg = ⟨false, mtEncryption, ⟨ma, mi⟩, decryptStream P kr msg⟩) ∧
    ((t : Int) = mtSigncryption → dispatch P kr res msg = ⟨false, mtSigncryption, ⟨ma, mi⟩, signcryptOpenStream P kr res msg⟩) ∧
    ((t : Int) = mtAttached ∨ (t : Int) = mtDetached → dispatch P kr res msg = refuse .wrongMessageType) :=
  dispatch_genuine_binary P kr res btag atag tail hb ha ma mi t hma hmi ht hlen

/-- **the decoder is built over the same reader, from byte 0**: the dispatcher on
    the bufio machine over a scripted source (at least one buffer of bytes, any
    fragmentation, any read size of the decoder) is the pure dispatcher on the
    bytes of the source -/
theorem C16_dispatch_machine (P : Prims) (kr : Keyring) (res : Signcrypt.Resolver) (src : Source) (cap fuel : Nat)
    (hp : Progress src) (hcap : 0 < cap) (hfull : defaultBufSize ≤ (total src).1.length)
    (hfuel : (total src).1.length + 1 ≤ fuel) :
    dispatchM P kr res cap fuel src = dispatch P kr res (total src).1 :=
  dispatchM_eq P kr res src cap fuel hp hcap hfull hfuel

/-- a reader error inside the classified range: "not a saltpack message", no decoder -/
theorem C16_dispatch_machine_error (P : Prims) (kr : Keyring) (res : Signcrypt.Resolver) (src : Source) (cap fuel : Nat)
    (hp : Progress src) (x : Err) (hx : (total src).2 = .err x) (hshort : (total src).1.length < defaultBufSize) :
    dispatchM P kr res cap fuel src = refuse .notASaltpackMessage :=
  dispatchM_error P kr res src cap fuel hp x hx hshort

/-! ## non-vacuity -/
example : classifyStream defaultBufSize [1, 2, 3] = .eof := by decide
example : ∃ all arm b t v, classifyStream defaultBufSize all = .ok (arm, b, t, v) ∧ t = mtEncryption ∧ arm = false :=
  ⟨[0xc4, 0x40, 0x96, 0xa8] ++ Gen.c_sp_FormatName ++ [0x92, 2, 0, 0, 0xc4, 0x20] ++ List.replicate 14 7,
    false, [], 0, ⟨2, 0⟩, by decide +kernel, rfl, rfl⟩

end Saltpack.Props.C16
