/-
  Property C16, extension (iii) — the dispatcher
  `ClassifyEncryptedStreamAndMakeDecoder`: "returns the same plaintext and
  identities as the direct entry point for the detected mode".

  `Dispatch.dispatchEnd` mirrors the Go control flow: classify (`bufio.NewReader`,
  4096 bytes), map `ErrShortSliceOrBuffer` to itself and every other
  classification error to `ErrNotASaltpackMessage`, then build — over the SAME
  reader, i.e. from byte 0 — `NewDecryptStream` / `NewDearmor62DecryptStream`
  (`CheckKnownMajorVersion`) for encryption, `NewSigncryptOpenStream` /
  `NewDearmor62SigncryptOpenStream` for signcryption, `ErrWrongMessageType`
  otherwise; the outcome is that decoder read to the END of the reader: all its
  bytes and its final condition (`Dispatch.End`: a clean EOF or a read error).

  What is a THEOREM here and what a definition (audit finding #5):
  * `…_def` theorems restate the model's own `switch` (they are unfoldings; that
    the Go code has this control flow is the correspondence's business:
    `dispatch.model`, `dispatch.shapes`, `dispatch.machine`, `classify.dispatch`);
  * `C16_dispatch_direct` / `_genuine_binary` / `_identities` compare the
    dispatcher with the byte-level receivers of `Model/Front.lean` —
    `Decrypt.openBytes`, `Signcrypt.openBytes`, the models of
    `NewDecryptStream(bytes.NewReader(msg))` / `NewSigncryptOpenStream(…)` read to
    the end, about which the `C02/C04/C15/C17 …_bytes` theorems speak and which are
    driven by their own streams (`enc.open`, `sc.open`) — not with a private copy;
  * `C16_dispatch_machine*` tie the dispatcher over the bufio machine (every
    fragmentation, data-with-EOF, data-with-error, a read error after the
    classified range, any initial reader state) to the pure dispatcher on the
    bytes and the final condition of the source.

  Partial: for ARMORED input that the armor layer rejects, and for an armored
  stream whose source ends in an error, model and code are compared as
  ok-versus-error only (a streamed armored message that fails late may already
  have released plaintext; `Armor.openPure` documents the same limit).  The
  brand returned by the armored decoders is not part of `Dispatch.Result`.
-/
import Saltpack.Proofs.Dispatch

namespace Saltpack.Props.C16
open Saltpack Saltpack.Classify Saltpack.Dispatch Saltpack.Stream Saltpack.Bufio Saltpack.Proofs
open Saltpack.Proofs.BufioP Saltpack.Proofs.DispatchP

/-- the model's `switch msgType`, restated (an unfolding of `Dispatch.build`):
    which decoder is built for which verdict, over the bytes `all` and the final
    condition `e` of the reader -/
theorem C16_dispatch_switch_def (P : Prims) (kr : Keyring) (res : Signcrypt.Resolver) (size : Nat) (all : Bytes) (e : End)
    (arm : Bool) (b : Bytes) (t : Int) (v : Version) (h : classifyStream size all = .ok (arm, b, t, v)) :
    (t = mtEncryption → dispatchEnd P kr res size all e =
      ⟨arm, t, v, if arm then dearmor62DecryptStream P kr all e else decryptStream P kr all e⟩) ∧
    (t = mtSigncryption → dispatchEnd P kr res size all e =
      ⟨arm, t, v, if arm then dearmor62SigncryptOpenStream P kr res all e else signcryptOpenStream P kr res all e⟩) ∧
    (t = mtAttached ∨ t = mtDetached → dispatchEnd P kr res size all e = refuse .wrongMessageType) := by
  unfold dispatchEnd
  rw [h]
  refine ⟨?_, ?_, ?_⟩
  · rintro rfl; exact build_enc P kr res arm b v all e
  · rintro rfl; exact build_sc P kr res arm b v all e
  · rintro (rfl | rfl)
    · exact build_other P kr res arm b _ v all e mt_distinct.2.1 mt_distinct.2.2.1
    · exact build_other P kr res arm b _ v all e mt_distinct.2.2.2.1 mt_distinct.2.2.2.2

/-- the model's refusals, restated (an unfolding): non-saltpack, EOF and
    too-short verdicts build no decoder — nothing released, no key object
    called: the outcome is `.fail` — whatever the reader ends with -/
theorem C16_dispatch_refuses_def (P : Prims) (kr : Keyring) (res : Signcrypt.Resolver) (size : Nat) (all : Bytes) (e : End) :
    (classifyStream size all = .notSaltpack → dispatchEnd P kr res size all e = refuse .notASaltpackMessage) ∧
    (classifyStream size all = .eof → dispatchEnd P kr res size all e = refuse .notASaltpackMessage) ∧
    (classifyStream size all = .short → dispatchEnd P kr res size all e = refuse .shortSliceOrBuffer) :=
  dispatch_refuses P kr res size all e

/-- **The dispatcher's outcome on the bytes `all` of a cleanly ending source IS
    the outcome of the byte-level receiver of the mode the classifier reports**
    (for every primitive instance, keyring, resolver and byte string):
    binary → `Decrypt.openBytes` (with `CheckKnownMajorVersion`) / `Signcrypt.openBytes`
    on the same bytes; armored → `Armor.open62` under the ENCRYPTED MESSAGE frame
    checks, then the same receivers on the payload; the whole receiver result —
    released bytes, error, `mki` resp. sender, key-object calls — is equal.
    Attached and detached signatures are refused with `ErrWrongMessageType`. -/
theorem C16_dispatch_direct (P : Prims) (kr : Keyring) (res : Signcrypt.Resolver) (all : Bytes)
    (arm : Bool) (b : Bytes) (t : Int) (v : Version)
    (h : classifyStream defaultBufSize all = .ok (arm, b, t, v)) :
    (t = mtEncryption → arm = false →
      dispatch P kr res all = ⟨false, t, v, outEnc (Decrypt.openBytes P knownMajor kr all)⟩) ∧
    (t = mtEncryption → arm = true →
      dispatch P kr res all = ⟨true, t, v,
        match Armor.open62 (some mtEncryption) all with
        | .error e => .armorFail e
        | .ok o => outEnc (Decrypt.openBytes P knownMajor kr o.payload)⟩) ∧
    (t = mtSigncryption → arm = false →
      dispatch P kr res all = ⟨false, t, v, outSc (Signcrypt.openBytes P kr res all)⟩) ∧
    (t = mtSigncryption → arm = true →
      dispatch P kr res all = ⟨true, t, v,
        match Armor.open62 (some mtEncryption) all with
        | .error e => .armorFail e
        | .ok o => outSc (Signcrypt.openBytes P kr res o.payload)⟩) ∧
    (t = mtAttached ∨ t = mtDetached → dispatch P kr res all = refuse .wrongMessageType) :=
  dispatch_direct P kr res all arm b t v h

/-- the same, spelled out for plaintext and identities: whenever the byte-level
    receiver answers `r`, the dispatcher's decoder answers `r` — same released
    bytes, same error, same `mki` (encryption) resp. same sender (signcryption) -/
theorem C16_dispatch_identities (P : Prims) (kr : Keyring) (res : Signcrypt.Resolver) (all : Bytes)
    (b : Bytes) (t : Int) (v : Version) (h : classifyStream defaultBufSize all = .ok (false, b, t, v)) :
    (∀ r, t = mtEncryption → Decrypt.openBytes P knownMajor kr all = .ok r →
      ∃ d, (dispatch P kr res all).out = .enc d ∧ d.released = r.released ∧ d.mki = r.mki ∧ d.err = r.err ∧
        d.calls = r.calls) ∧
    (∀ r, t = mtSigncryption → Signcrypt.openBytes P kr res all = .ok r →
      ∃ d, (dispatch P kr res all).out = .sc d ∧ d.released = r.released ∧ d.sender = r.sender ∧ d.err = r.err ∧
        d.calls = r.calls) := by
  obtain ⟨h1, _, h3, _, _⟩ := dispatch_direct P kr res all false b t v h
  refine ⟨fun r ht hr => ⟨r, ?_, rfl, rfl, rfl, rfl⟩, fun r ht hr => ⟨r, ?_, rfl, rfl, rfl, rfl⟩⟩
  · rw [h1 ht rfl, hr]; rfl
  · rw [h3 ht rfl, hr]; rfl

/-- **genuine binary messages** (header start of `C16_binary_correct`): an
    encryption message is handed to `Decrypt.openBytes`, a signcryption message to
    `Signcrypt.openBytes`, signatures are refused -/
theorem C16_dispatch_genuine_binary (P : Prims) (kr : Keyring) (res : Signcrypt.Resolver)
    (btag atag tail : Bytes) (hb : IsBinTag btag) (ha : IsArrTag atag)
    (ma mi t : Nat) (hma : ma < 128) (hmi : mi < 128) (ht : isMode (t : Int) = true)
    (hlen : 23 ≤ (btag ++ atag ++ Msgpack.encode (.str Gen.c_sp_FormatName) ++ Msgpack.encode (.arr [.int ma, .int mi]) ++
      Msgpack.encode (.int t) ++ tail).length) :
    let msg := btag ++ atag ++ Msgpack.encode (.str Gen.c_sp_FormatName) ++ Msgpack.encode (.arr [.int ma, .int mi]) ++
      Msgpack.encode (.int t) ++ tail
    ((t : Int) = mtEncryption →
      dispatch P kr res msg = ⟨false, mtEncryption, ⟨ma, mi⟩, outEnc (Decrypt.openBytes P knownMajor kr msg)⟩) ∧
    ((t : Int) = mtSigncryption →
      dispatch P kr res msg = ⟨false, mtSigncryption, ⟨ma, mi⟩, outSc (Signcrypt.openBytes P kr res msg)⟩) ∧
    ((t : Int) = mtAttached ∨ (t : Int) = mtDetached → dispatch P kr res msg = refuse .wrongMessageType) :=
  dispatch_genuine_binary P kr res btag atag tail hb ha ma mi t hma hmi ht hlen

/-- what a read error at the end of the source does to the decoder's packet
    stream: the items are unchanged; a clean tail (the read that would have met
    `io.EOF`) becomes a decode error, an erroneous tail stays -/
theorem C16_decoder_end_error {β : Type} (ps : PStream β) :
    (withEnd .err ps).items = ps.items ∧
    (withEnd .err ps).tail = (match ps.tail with | .eof => .err .decodeError | t => t) ∧
    withEnd .eof ps = ps :=
  ⟨(withEnd_err ps).1, (withEnd_err ps).2, withEnd_eof ps⟩

/-- **the decoder is built over the same reader and reads it to its end —
    bytes AND final condition**: `bufio.NewReader(source)` over a scripted source
    (every fragmentation, data-with-EOF, data-with-error; no `(0, nil)` reads), any
    read size of the decoder.  If the source holds at least one buffer (4096
    bytes) — whatever it ends with, a read error AFTER the classified range
    included — or ends in a sticky EOF (any length), the machine dispatcher is the
    pure dispatcher on the source's bytes and final condition: with a final read
    error the decoder meets it where the bytes end (`C16_decoder_end_error`; the
    real code released 6000 bytes and then returned `msgpack decode error … boom`) -/
theorem C16_dispatch_machine (P : Prims) (kr : Keyring) (res : Signcrypt.Resolver) (src : Source) (cap fuel : Nat)
    (hp : Progress src) (hcap : 0 < cap) (hfuel : (total src).1.length + 1 ≤ fuel)
    (hcase : defaultBufSize ≤ (total src).1.length ∨ ((total src).2 = .eof ∧ EofSticky src)) :
    dispatchSrc P kr res cap fuel src =
      dispatchEnd P kr res defaultBufSize (total src).1 (End.of (.src (total src).2)) :=
  dispatchSrc_eq P kr res src cap fuel hp hcap hfuel hcase

/-- **streams that end in EOF, of ANY length** (the lift of
    `C16_classify_then_drain_eof`; almost every real message is shorter than the
    4096-byte buffer): the machine dispatcher is `dispatch` on the source's bytes,
    i.e. (`C16_dispatch_direct`) the byte-level receiver of the detected mode -/
theorem C16_dispatch_machine_eof (P : Prims) (kr : Keyring) (res : Signcrypt.Resolver) (src : Source) (cap fuel : Nat)
    (hp : Progress src) (hst : EofSticky src) (heof : (total src).2 = .eof) (hcap : 0 < cap)
    (hfuel : (total src).1.length + 1 ≤ fuel) :
    dispatchSrc P kr res cap fuel src = dispatch P kr res (total src).1 :=
  dispatchSrc_eof P kr res src cap fuel hp hst heof hcap hfuel

/-- a reader error inside the classified range (a source that ends in an error
    before 4096 bytes): "not a saltpack message", no decoder -/
theorem C16_dispatch_machine_error (P : Prims) (kr : Keyring) (res : Signcrypt.Resolver) (src : Source) (cap fuel : Nat)
    (hp : Progress src) (x : Err) (hx : (total src).2 = .err x) (hshort : (total src).1.length < defaultBufSize) :
    dispatchSrc P kr res cap fuel src = refuse .notASaltpackMessage :=
  dispatchSrc_error P kr res src cap fuel hp x hx hshort

/-- **any initial reader state** — the case `bufio.NewReader(source)` returns
    `source` itself because it already is a `*bufio.Reader` with a buffer of at
    least 4096 bytes (audit finding #13): with its own size `s.size` (so
    `Peek(stream.Size())` peeks more), its buffered bytes and stored condition.
    `view s` = what that reader will still deliver. -/
theorem C16_dispatch_machine_state (P : Prims) (kr : Keyring) (res : Signcrypt.Resolver) (cap fuel : Nat) (s : BState)
    (hi : Inv s) (hsz : 0 < s.size) (hcap : 0 < cap) (hfuel : (view s).1.length + 1 ≤ fuel)
    (hcase : s.size ≤ (view s).1.length ∨ ((view s).2 = .src .eof ∧ StickyInv s ∧ (view s).1.length < s.size)) :
    dispatchM P kr res cap fuel s = dispatchEnd P kr res s.size (view s).1 (End.of (view s).2) :=
  dispatchM_state P kr res cap fuel s hi hsz hcap hfuel hcase

/-- …and a stored or coming read error within its classified range: refused -/
theorem C16_dispatch_machine_state_error (P : Prims) (kr : Keyring) (res : Signcrypt.Resolver) (cap fuel : Nat) (s : BState)
    (hi : Inv s) (all : Bytes) (x : Err) (hv : view s = (all, .src (.err x))) (hshort : all.length < s.size) :
    dispatchM P kr res cap fuel s = refuse .notASaltpackMessage :=
  dispatchM_state_error P kr res cap fuel s hi all x hv hshort

/-! ## non-vacuity -/
example : classifyStream defaultBufSize [1, 2, 3] = .eof := by decide
example : ∃ all arm b t v, classifyStream defaultBufSize all = .ok (arm, b, t, v) ∧ t = mtEncryption ∧ arm = false :=
  ⟨[0xc4, 0x40, 0x96, 0xa8] ++ Gen.c_sp_FormatName ++ [0x92, 2, 0, 0, 0xc4, 0x20] ++ List.replicate 14 7,
    false, [], 0, ⟨2, 0⟩, by decide +kernel, rfl, rfl⟩

/-- a source of 5000 bytes in two deliveries that ends in a read error AFTER the
    classified range meets the hypotheses of `C16_dispatch_machine` (first
    disjunct); its final condition is an error -/
example : let src : Source := [(List.replicate 4000 7, none), (List.replicate 1000 7, some (.err .ioError))]
    Progress src ∧ defaultBufSize ≤ (total src).1.length ∧ End.of (.src (total src).2) = .err := by
  refine ⟨?_, by decide +kernel, by decide +kernel⟩
  intro p hp
  simp only [List.mem_cons, List.not_mem_nil, or_false] at hp
  rcases hp with rfl | rfl
  · exact Or.inl (by decide +kernel)
  · exact Or.inr (by simp)

/-- a short EOF-ended script meets those of `C16_dispatch_machine_eof` -/
example : let src : Source := [([66, 69], none), ([71, 73, 78], some .eof)]
    Progress src ∧ EofSticky src ∧ (total src).2 = .eof := by
  refine ⟨?_, ?_, by decide⟩
  · intro p hp
    simp only [List.mem_cons, List.not_mem_nil, or_false] at hp
    rcases hp with rfl | rfl <;> simp
  · intro p hp; cases hp

/-- a used 8192-byte reader (3 bytes buffered, more to come) meets `Inv` -/
example : Inv { size := 8192, src := [([1, 2], some .eof)], buf := [9, 9, 9], err := none } :=
  { prog := by intro p hp; simp only [List.mem_cons, List.not_mem_nil, or_false] at hp; subst hp; simp,
    fits := by decide, nofull := by simp }

end Saltpack.Props.C16
