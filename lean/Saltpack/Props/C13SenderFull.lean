/-
  Property C13 — write-split independence of the WHOLE sender streams at byte
  level, UNCONDITIONALLY (closes the `_partial` statements of
  Props/C13Sender.lean, which spoke only about runs whose calls report success).

  Over a never-failing writer (`GoodWriter wr good`: an invariant of the writer
  under which every underlying `Write` succeeds; for the scripted writer `Wr`
  the exhausted fault script, `sink = []`, i.e. `({} : Wr)`):

    * the constructor always succeeds;
    * for EVERY plaintext and EVERY split into `Write`s, what reaches the
      writer is the header packet followed by the packets of the all-at-once
      chunk plan of the concatenation up to the first packet number the packet
      function refuses (`planOkBytes`; `ErrPacketOverflow` at 2^64−1 packets is the
      only refusal of the three instances) — so any two splits of the same
      plaintext leave the SAME bytes, no hypothesis on what the calls returned;
    * when the all-at-once form exists (`oneShot … = .ok M`, resp.
      `Encrypt.sealWith … = .ok M` etc.) every `Write` returns `(len p, nil)`,
      `Close` returns nil and exactly `M` is at the writer.

  Proofs: Proofs/SenderStreamTotal.lean.  Checked against the real constructors
  by the correspondence streams `sender.split.*`.
-/
import Saltpack.Proofs.SenderStreamTotal

namespace Saltpack.Props.C13
open Saltpack Saltpack.Sender Saltpack.Proofs.SenderP

/-- the scripted writer with an exhausted fault script is a never-failing writer -/
theorem C13_scripted_writer_never_fails : GoodWriter Wr.write (fun w => w.sink = []) := wr_good

/-- **Totality and the bytes of every run over a never-failing writer**, any
    configuration meeting the side conditions the three instances meet
    (`C14_codec_pieces_segment`, `C14_packet_functions_refuse_by_number`):
    the constructor succeeds; the bytes at the writer after `Close` are the
    header packet and `planOkBytes` of the plan of the concatenated plaintext; if
    the all-at-once plan has bytes `B`, every call reports success. -/
theorem C13_sender_stream_total {ω : Type} (wr : ω → Bytes → Bool × ω) (obs : ω → Bytes) (good : ω → Prop)
    (hw : ObsWriter wr obs) (hg : GoodWriter wr good) (cfg : Cfg) (hp : ∀ b, (cfg.pieces b).flatten = b)
    (hb : 0 < cfg.bs) (hif : IndexFail cfg.pkt) (v : Version) (hv : cfg.v1shape = (v == v1))
    (w0 : ω) (hw0 : good w0) (headerBytes : Bytes) (ws : List Bytes) :
    (PSt.init wr cfg.pieces w0 headerBytes).1 = true ∧
    obs ((PSt.writes wr cfg (PSt.init wr cfg.pieces w0 headerBytes).2 ws).2.close wr cfg).2.codec.w =
      obs w0 ++ headerPacket headerBytes ++ planOkBytes cfg.pkt (Encrypt.chunkPlan v cfg.bs ws.flatten) 0 ∧
    (∀ B, planBytes cfg.pkt (Encrypt.chunkPlan v cfg.bs ws.flatten) 0 = .ok B →
      (PSt.writes wr cfg (PSt.init wr cfg.pieces w0 headerBytes).2 ws).1 = ws.map (fun p => (p.length, none)) ∧
      ((PSt.writes wr cfg (PSt.init wr cfg.pieces w0 headerBytes).2 ws).2.close wr cfg).1 = none) :=
  run_good wr obs good hw hg cfg hp hb hif v hv w0 hw0 headerBytes ws

/-- `planOkBytes` is the all-at-once body when that exists -/
theorem C13_okBytes_is_plan (pkt : Nat → Bytes → Bool → Except Err Bytes) (pl : List (Bytes × Bool)) (B : Bytes)
    (h : planBytes pkt pl 0 = .ok B) : planOkBytes pkt pl 0 = B := planOkBytes_of_ok pkt pl 0 B h

/-- **Two splits of the same plaintext, same bytes — unconditionally**: no
    hypothesis on what the calls returned, and also when a packet number is
    refused on the way. -/
theorem C13_sender_stream_independent {ω : Type} (wr : ω → Bytes → Bool × ω) (obs : ω → Bytes) (good : ω → Prop)
    (hw : ObsWriter wr obs) (hg : GoodWriter wr good) (cfg : Cfg) (hp : ∀ b, (cfg.pieces b).flatten = b)
    (hb : 0 < cfg.bs) (hif : IndexFail cfg.pkt) (v : Version) (hv : cfg.v1shape = (v == v1))
    (w0 : ω) (hw0 : good w0) (headerBytes : Bytes) (ws ws' : List Bytes) (hsame : ws.flatten = ws'.flatten) :
    obs ((PSt.writes wr cfg (PSt.init wr cfg.pieces w0 headerBytes).2 ws).2.close wr cfg).2.codec.w =
      obs ((PSt.writes wr cfg (PSt.init wr cfg.pieces w0 headerBytes).2 ws').2.close wr cfg).2.codec.w := by
  rw [(run_good wr obs good hw hg cfg hp hb hif v hv w0 hw0 headerBytes ws).2.1,
    (run_good wr obs good hw hg cfg hp hb hif v hv w0 hw0 headerBytes ws').2.1, hsame]

/-- when the all-at-once form `M` exists: every call of every split reports
    success and the writer holds exactly `M` (after what it held before) -/
theorem C13_sender_stream_is_oneShot {ω : Type} (wr : ω → Bytes → Bool × ω) (obs : ω → Bytes) (good : ω → Prop)
    (hw : ObsWriter wr obs) (hg : GoodWriter wr good) (cfg : Cfg) (hp : ∀ b, (cfg.pieces b).flatten = b)
    (hb : 0 < cfg.bs) (hif : IndexFail cfg.pkt) (v : Version) (hv : cfg.v1shape = (v == v1))
    (w0 : ω) (hw0 : good w0) (headerBytes : Bytes) (ws : List Bytes) (M : Bytes)
    (hM : oneShot cfg v headerBytes ws.flatten = .ok M) :
    (PSt.init wr cfg.pieces w0 headerBytes).1 = true ∧
    (PSt.writes wr cfg (PSt.init wr cfg.pieces w0 headerBytes).2 ws).1 = ws.map (fun p => (p.length, none)) ∧
    ((PSt.writes wr cfg (PSt.init wr cfg.pieces w0 headerBytes).2 ws).2.close wr cfg).1 = none ∧
    obs ((PSt.writes wr cfg (PSt.init wr cfg.pieces w0 headerBytes).2 ws).2.close wr cfg).2.codec.w = obs w0 ++ M :=
  run_good_oneShot wr obs good hw hg cfg hp hb hif v hv w0 hw0 headerBytes ws M hM

/-! ## the three instances over the scripted writer that never fails, `({} : Wr)` -/

/-- **encryptStream = Seal, for every split**: if `Encrypt.sealWith` of the
    concatenated plaintext is `M`, the stream constructed over a never-failing
    writer succeeds in the constructor, in every `Write` (returning the length
    of its argument) and in `Close`, and the writer holds exactly `M`. -/
theorem C13_encrypt_stream_is_seal (P : Prims) (bs : Nat) (hb : 0 < bs) (pieces : Bytes → List Bytes)
    (hp : ∀ b, (pieces b).flatten = b) (v : Version) (sender : Option Bytes) (rs : List Encrypt.Recipient)
    (eph pk : Bytes) (hbytes : Bytes) (cfg : Cfg) (hs : encryptSetup P bs pieces v sender rs eph pk = .ok (hbytes, cfg))
    (ws : List Bytes) (M : Bytes) (hM : Encrypt.sealWith P bs v sender rs eph pk ws.flatten = .ok M) :
    (PSt.init Wr.write cfg.pieces ({} : Wr) hbytes).1 = true ∧
    (PSt.writes Wr.write cfg (PSt.init Wr.write cfg.pieces ({} : Wr) hbytes).2 ws).1 =
      ws.map (fun p => (p.length, none)) ∧
    ((PSt.writes Wr.write cfg (PSt.init Wr.write cfg.pieces ({} : Wr) hbytes).2 ws).2.close Wr.write cfg).1 = none ∧
    ((PSt.writes Wr.write cfg (PSt.init Wr.write cfg.pieces ({} : Wr) hbytes).2 ws).2.close Wr.write cfg).2.codec.w.bytes
      = M := by
  have hcfg := encryptSetup_cfg P bs pieces v sender rs eph pk hbytes cfg hs
  obtain ⟨hb', cfg', hs', hone⟩ := (sealWith_iff_oneShot P bs pieces v sender rs eph pk ws.flatten M).1 hM
  rw [hs] at hs'
  injection hs' with hs'
  obtain ⟨rfl, rfl⟩ := Prod.mk.inj hs'
  have := run_good_oneShot Wr.write Wr.bytes _ wr_obs wr_good cfg (by rw [hcfg.2.1]; exact hp)
    (by rw [hcfg.1]; exact hb) hcfg.2.2.2 v hcfg.2.2.1 ({} : Wr) rfl hbytes ws M hone
  simpa [Wr.bytes] using this

/-- **encryptStream, two splits, same bytes — unconditionally** -/
theorem C13_encrypt_stream_independent (P : Prims) (bs : Nat) (hb : 0 < bs) (pieces : Bytes → List Bytes)
    (hp : ∀ b, (pieces b).flatten = b) (v : Version) (sender : Option Bytes) (rs : List Encrypt.Recipient)
    (eph pk : Bytes) (hbytes : Bytes) (cfg : Cfg) (hs : encryptSetup P bs pieces v sender rs eph pk = .ok (hbytes, cfg))
    (ws ws' : List Bytes) (hsame : ws.flatten = ws'.flatten) :
    ((PSt.writes Wr.write cfg (PSt.init Wr.write cfg.pieces ({} : Wr) hbytes).2 ws).2.close Wr.write cfg).2.codec.w.bytes =
    ((PSt.writes Wr.write cfg (PSt.init Wr.write cfg.pieces ({} : Wr) hbytes).2 ws').2.close Wr.write cfg).2.codec.w.bytes := by
  have hcfg := encryptSetup_cfg P bs pieces v sender rs eph pk hbytes cfg hs
  exact C13_sender_stream_independent Wr.write Wr.bytes _ wr_obs wr_good cfg (by rw [hcfg.2.1]; exact hp)
    (by rw [hcfg.1]; exact hb) hcfg.2.2.2 v hcfg.2.2.1 ({} : Wr) rfl hbytes ws ws' hsame

/-- **signAttachedStream = Sign (attached), for every split** -/
theorem C13_sign_stream_is_attached (P : Prims) (bs : Nat) (hb : 0 < bs) (pieces : Bytes → List Bytes)
    (hp : ∀ b, (pieces b).flatten = b) (v : Version) (signer nonce : Bytes) (hbytes : Bytes) (cfg : Cfg)
    (hs : signSetup P bs pieces v signer nonce = .ok (hbytes, cfg))
    (ws : List Bytes) (M : Bytes) (hM : Sign.attachedWith P bs v signer nonce ws.flatten = .ok M) :
    (PSt.init Wr.write cfg.pieces ({} : Wr) hbytes).1 = true ∧
    (PSt.writes Wr.write cfg (PSt.init Wr.write cfg.pieces ({} : Wr) hbytes).2 ws).1 =
      ws.map (fun p => (p.length, none)) ∧
    ((PSt.writes Wr.write cfg (PSt.init Wr.write cfg.pieces ({} : Wr) hbytes).2 ws).2.close Wr.write cfg).1 = none ∧
    ((PSt.writes Wr.write cfg (PSt.init Wr.write cfg.pieces ({} : Wr) hbytes).2 ws).2.close Wr.write cfg).2.codec.w.bytes
      = M := by
  have hcfg := signSetup_cfg P bs pieces v signer nonce hbytes cfg hs
  obtain ⟨hb', cfg', hs', hone⟩ := (attachedWith_iff_oneShot P bs pieces v signer nonce ws.flatten M).1 hM
  rw [hs] at hs'
  injection hs' with hs'
  obtain ⟨rfl, rfl⟩ := Prod.mk.inj hs'
  have := run_good_oneShot Wr.write Wr.bytes _ wr_obs wr_good cfg (by rw [hcfg.2.1]; exact hp)
    (by rw [hcfg.1]; exact hb) hcfg.2.2.2 v hcfg.2.2.1 ({} : Wr) rfl hbytes ws M hone
  simpa [Wr.bytes] using this

/-- signAttachedStream, two splits, same bytes — unconditionally -/
theorem C13_sign_stream_independent (P : Prims) (bs : Nat) (hb : 0 < bs) (pieces : Bytes → List Bytes)
    (hp : ∀ b, (pieces b).flatten = b) (v : Version) (signer nonce : Bytes) (hbytes : Bytes) (cfg : Cfg)
    (hs : signSetup P bs pieces v signer nonce = .ok (hbytes, cfg))
    (ws ws' : List Bytes) (hsame : ws.flatten = ws'.flatten) :
    ((PSt.writes Wr.write cfg (PSt.init Wr.write cfg.pieces ({} : Wr) hbytes).2 ws).2.close Wr.write cfg).2.codec.w.bytes =
    ((PSt.writes Wr.write cfg (PSt.init Wr.write cfg.pieces ({} : Wr) hbytes).2 ws').2.close Wr.write cfg).2.codec.w.bytes := by
  have hcfg := signSetup_cfg P bs pieces v signer nonce hbytes cfg hs
  exact C13_sender_stream_independent Wr.write Wr.bytes _ wr_obs wr_good cfg (by rw [hcfg.2.1]; exact hp)
    (by rw [hcfg.1]; exact hb) hcfg.2.2.2 v hcfg.2.2.1 ({} : Wr) rfl hbytes ws ws' hsame

/-- **signcryptSealStream = SigncryptSeal, for every split** -/
theorem C13_signcrypt_stream_is_seal (P : Prims) (bs : Nat) (hb : 0 < bs) (pieces : Bytes → List Bytes)
    (hp : ∀ b, (pieces b).flatten = b) (sender : Option Bytes) (rs : List Signcrypt.Recipient)
    (eph pk : Bytes) (hbytes : Bytes) (cfg : Cfg) (hs : signcryptSetup P bs pieces sender rs eph pk = .ok (hbytes, cfg))
    (ws : List Bytes) (M : Bytes) (hM : Signcrypt.sealWith P bs sender rs eph pk ws.flatten = .ok M) :
    (PSt.init Wr.write cfg.pieces ({} : Wr) hbytes).1 = true ∧
    (PSt.writes Wr.write cfg (PSt.init Wr.write cfg.pieces ({} : Wr) hbytes).2 ws).1 =
      ws.map (fun p => (p.length, none)) ∧
    ((PSt.writes Wr.write cfg (PSt.init Wr.write cfg.pieces ({} : Wr) hbytes).2 ws).2.close Wr.write cfg).1 = none ∧
    ((PSt.writes Wr.write cfg (PSt.init Wr.write cfg.pieces ({} : Wr) hbytes).2 ws).2.close Wr.write cfg).2.codec.w.bytes
      = M := by
  have hcfg := signcryptSetup_cfg P bs pieces sender rs eph pk hbytes cfg hs
  obtain ⟨hb', cfg', hs', hone⟩ := (scSealWith_iff_oneShot P bs pieces sender rs eph pk ws.flatten M).1 hM
  rw [hs] at hs'
  injection hs' with hs'
  obtain ⟨rfl, rfl⟩ := Prod.mk.inj hs'
  have := run_good_oneShot Wr.write Wr.bytes _ wr_obs wr_good cfg (by rw [hcfg.2.1]; exact hp)
    (by rw [hcfg.1]; exact hb) hcfg.2.2.2 v2 hcfg.2.2.1 ({} : Wr) rfl hbytes ws M hone
  simpa [Wr.bytes] using this

/-- signcryptSealStream, two splits, same bytes — unconditionally -/
theorem C13_signcrypt_stream_independent (P : Prims) (bs : Nat) (hb : 0 < bs) (pieces : Bytes → List Bytes)
    (hp : ∀ b, (pieces b).flatten = b) (sender : Option Bytes) (rs : List Signcrypt.Recipient)
    (eph pk : Bytes) (hbytes : Bytes) (cfg : Cfg) (hs : signcryptSetup P bs pieces sender rs eph pk = .ok (hbytes, cfg))
    (ws ws' : List Bytes) (hsame : ws.flatten = ws'.flatten) :
    ((PSt.writes Wr.write cfg (PSt.init Wr.write cfg.pieces ({} : Wr) hbytes).2 ws).2.close Wr.write cfg).2.codec.w.bytes =
    ((PSt.writes Wr.write cfg (PSt.init Wr.write cfg.pieces ({} : Wr) hbytes).2 ws').2.close Wr.write cfg).2.codec.w.bytes := by
  have hcfg := signcryptSetup_cfg P bs pieces sender rs eph pk hbytes cfg hs
  exact C13_sender_stream_independent Wr.write Wr.bytes _ wr_obs wr_good cfg (by rw [hcfg.2.1]; exact hp)
    (by rw [hcfg.1]; exact hb) hcfg.2.2.2 v2 hcfg.2.2.1 ({} : Wr) rfl hbytes ws ws' hsame

/-- **signDetachedStream = SignDetached, for every split**: over a never-failing
    writer everything reports success and the writer holds `Sign.detachedWith`
    of the concatenation -/
theorem C13_detached_stream_is_detached (P : Prims) (pieces : Bytes → List Bytes) (hp : ∀ b, (pieces b).flatten = b)
    (v : Version) (signer nonce : Bytes) (hbytes : Bytes) (sp : Bytes → Bytes)
    (hs : detachedSetup P v signer nonce = .ok (hbytes, sp)) (ws : List Bytes) :
    (DSt.init Wr.write pieces ({} : Wr) hbytes).1 = true ∧
    (DSt.writes (DSt.init Wr.write pieces ({} : Wr) hbytes).2 ws).1 = ws.map (fun p => (p.length, none)) ∧
    ((DSt.writes (DSt.init Wr.write pieces ({} : Wr) hbytes).2 ws).2.close Wr.write pieces sp).1 = none ∧
    Sign.detachedWith P v signer nonce ws.flatten =
      .ok ((DSt.writes (DSt.init Wr.write pieces ({} : Wr) hbytes).2 ws).2.close Wr.write pieces sp).2.codec.w.bytes := by
  obtain ⟨h1, h2, h3, h4⟩ := det_good Wr.write Wr.bytes _ wr_obs wr_good pieces hp sp ({} : Wr) rfl hbytes ws
  refine ⟨h1, h2, h3, ?_⟩
  rw [h4]
  exact (detachedWith_iff P v signer nonce ws.flatten _).2 ⟨hbytes, sp, hs, by simp [Wr.bytes]⟩

/-! ## non-vacuity -/

private def toy : Cfg :=
  { bs := 2, v1shape := false, hasErr := true,
    pkt := fun i c f => .ok ([UInt8.ofNat i, if f then 1 else 0] ++ c), pieces := fun b => b.map ([·]) }

/-- a packet function that refuses packet numbers ≥ 2 (stands for `ErrPacketOverflow`) -/
private def toyOverflow : Cfg :=
  { toy with pkt := fun i c f => if i < 2 then .ok ([UInt8.ofNat i, if f then 1 else 0] ++ c) else .error .packetOverflow }

private def run (cfg : Cfg) (ws : List Bytes) : Bool × List (Nat × Option Err) × Option Err × Bytes :=
  let i := PSt.init Wr.write cfg.pieces ({} : Wr) [7]
  let r := PSt.writes Wr.write cfg i.2 ws
  let c := r.2.close Wr.write cfg
  (i.1, r.1, c.1, c.2.codec.w.bytes)

example : run toy [[1], [], [2, 3], [4], [], [5], []] =
    (true, [(1, none), (0, none), (2, none), (1, none), (0, none), (1, none), (0, none)], none,
      [0xc4, 1, 7, 0, 0, 1, 2, 1, 0, 3, 4, 2, 1, 5]) := by decide
example : oneShot toy v2 [7] [1, 2, 3, 4, 5] = .ok [0xc4, 1, 7, 0, 0, 1, 2, 1, 0, 3, 4, 2, 1, 5] := by decide
/-- with refusals: the calls fail (differently per split), the BYTES agree and are `planOkBytes` -/
example : (run toyOverflow [[1, 2, 3, 4, 5, 6, 7]]).2.2.2 = [0xc4, 1, 7, 0, 0, 1, 2, 1, 0, 3, 4] := by decide
example : (run toyOverflow [[1, 2, 3], [4, 5], [6], [7]]).2.2.2 = [0xc4, 1, 7, 0, 0, 1, 2, 1, 0, 3, 4] := by decide
example : planOkBytes toyOverflow.pkt (Encrypt.chunkPlan v2 2 [1, 2, 3, 4, 5, 6, 7]) 0 = [0, 0, 1, 2, 1, 0, 3, 4] := by decide
example : IndexFail toyOverflow.pkt := by
  intro i c f e h c' f'
  by_cases hi : i < 2
  · simp [toyOverflow, hi] at h
  · exact ⟨.packetOverflow, by simp [toyOverflow, hi]⟩

end Saltpack.Props.C13
