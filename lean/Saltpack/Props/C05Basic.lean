/-
  Property C05 with the library's OWN keyring (package `basic`, model
  Saltpack/Model/Basic.lean): `Verify` with ANY `basic.Keyring` returns exactly
  the signed message and the signer's key.  Statements only.

  A basic keyring's `LookupSigningPublicKey(kid)` copies `kid` into a 32-byte
  array and returns it: it never consults the keys imported with
  `ImportSigningKey`, and it never returns nil.  So the round trip needs NO
  hypothesis on the keyring — and, the other side of the same coin,
  `C05_no_sender_key` never applies: a basic keyring "knows" every signer, it
  is the caller who must compare the returned key with the one expected
  (`C05_basic_accepts_any_signer`).
-/
import Saltpack.Proofs.BasicRT
import Saltpack.Props.C05
import Saltpack.Toy

namespace Saltpack.Props.C05
open Saltpack Saltpack.Basic Saltpack.Encrypt Saltpack.Proofs.BasicRing

/-- `LookupSigningPublicKey` of a basic keyring: the 32-byte copy of the kid,
    whatever the keyring holds; in particular the key itself for a 32-byte kid -/
theorem C05_basic_lookup (k : Basic.Keyring) (order : List SecretKey) (kid : Bytes) :
    (k.toRing order).lookupSigningPublicKey kid = some (kidToPublicKey kid) ∧
    (kid.length = 32 → (k.toRing order).lookupSigningPublicKey kid = some kid) :=
  ⟨rfl, toRing_lookupSig k order⟩

/-- importing signing keys changes no answer of the keyring -/
theorem C05_basic_import_irrelevant (k : Basic.Keyring) (pub sec : Bytes) (order : List SecretKey) :
    (k.importSigningKey pub sec).toRing order = k.toRing order := by
  have hl : ∀ kids o, (k.importSigningKey pub sec).lookupFrom kids o = k.lookupFrom kids o := by
    intro kids
    induction kids with
    | nil => intro o; rfl
    | cons kid rest ih =>
      intro o
      simp only [Basic.Keyring.lookupFrom]
      rw [ih]
      rfl
  simp only [Basic.Keyring.toRing, Basic.Keyring.lookupBoxSecretKey, hl]
  rfl

/-- **Round trip with any basic keyring** (empty, or holding whatever keys):
    for every message, both versions, every chunk size, signing key and header
    nonce -/
theorem C05_roundtrip_basic (P : Prims) (hP : P.Lawful) (bs : Nat) (hbs : 0 < bs)
    (v : Version) (hv : v = v1 ∨ v = v2) (signer nonce msg : Bytes)
    (k : Basic.Keyring) (order : List SecretKey)
    (h : SigHeader) (hb : Bytes) (blks : List SigBlock)
    (hs : Sign.attachedPackets P bs v signer nonce msg = .ok (h, hb, blks)) :
    Sign.verifyAll P knownMajor (k.toRing order) (.ok hb h) ⟨blks.map some, .eof⟩ = .ok (P.sigPub signer, msg) :=
  C05_roundtrip P hP bs hbs v hv signer nonce msg (k.toRing order) (basic_knows_signer P hP k order signer) h hb blks hs

/-- …on the emitted BYTES -/
theorem C05_roundtrip_bytes_basic (P : Prims) (hP : P.Lawful) (bs : Nat) (hbs : 0 < bs) (hbs32 : bs < 2 ^ 32)
    (v : Version) (hv : v = v1 ∨ v = v2) (signer nonce msg : Bytes) (hn : nonce.length + 92 < 2 ^ 32)
    (k : Basic.Keyring) (order : List SecretKey)
    (out : Bytes) (hout : Sign.attachedWith P bs v signer nonce msg = .ok out) :
    ∃ hr ps, Wire.splitSig out = .ok (hr, ps) ∧
      Sign.verifyAll P knownMajor (k.toRing order) hr ps = .ok (P.sigPub signer, msg) :=
  C05_roundtrip_bytes P hP bs hbs hbs32 v hv signer nonce msg hn (k.toRing order) (basic_knows_signer P hP k order signer)
    out hout

/-- …and armored -/
theorem C05_roundtrip_armored_basic (P : Prims) (hP : P.Lawful) (bs : Nat) (hbs : 0 < bs) (hbs32 : bs < 2 ^ 32)
    (v : Version) (hv : v = v1 ∨ v = v2) (signer nonce msg : Bytes) (hn : nonce.length + 92 < 2 ^ 32)
    (k : Basic.Keyring) (order : List SecretKey)
    (brand : Bytes) (hbr : Proofs.BrandOK brand)
    (out : Bytes) (hout : Sign.attachedWith P bs v signer nonce msg = .ok out) :
    ∃ r hr ps, Armor.open62 (some mtAttached) (Armor.seal62 mtAttached brand out) = .ok r ∧
      r.payload = out ∧ r.brand = brand ∧
      Wire.splitSig r.payload = .ok (hr, ps) ∧
      Sign.verifyAll P knownMajor (k.toRing order) hr ps = .ok (P.sigPub signer, msg) :=
  C05_roundtrip_armored P hP bs hbs hbs32 v hv signer nonce msg hn (k.toRing order)
    (basic_knows_signer P hP k order signer) brand hbr out hout

/-- **a basic keyring accepts any signer**: for every header that passes
    validation — whoever signed, whatever the packets — the keyring's lookup
    succeeds (never `noSenderKey`) and the signer `NewVerifyStream` reports is
    the 32-byte copy of the header's signer field; comparing it with the signer
    one expects is the caller's business -/
theorem C05_basic_accepts_any_signer (P : Prims) (valid : Validator) (k : Basic.Keyring) (order : List SecretKey)
    (hb : Bytes) (h : SigHeader) (ps : PStream SigBlock) (hv : Sign.validate valid h mtAttached = .ok ()) :
    (Sign.verifyStream P valid (k.toRing order) (.ok hb h) ps).signer = some (kidToPublicKey h.senderPublic) := by
  unfold Sign.verifyStream
  simp only [hv, Basic.Keyring.toRing, Basic.Keyring.lookupSigningPublicKey]
  split <;> rfl

/-! ## non-vacuity -/

/-- sign with `[5]`, verify with an EMPTY basic keyring and with one into which
    an unrelated signing key was imported: the message and the signer's key -/
example : ∃ h hb blks,
    Sign.attachedPackets Toy.prims 4 v2 [5] [0, 1] [1, 2, 3, 4, 5] = .ok (h, hb, blks) ∧
    Sign.verifyAll Toy.prims knownMajor Basic.Keyring.empty.ring (.ok hb h) ⟨blks.map some, .eof⟩ =
      .ok (Toy.prims.sigPub [5], [1, 2, 3, 4, 5]) ∧
    Sign.verifyAll Toy.prims knownMajor (Basic.Keyring.empty.importSigningKey (Toy.prims.sigPub [6]) [6]).ring (.ok hb h)
      ⟨blks.map some, .eof⟩ = .ok (Toy.prims.sigPub [5], [1, 2, 3, 4, 5]) := by
  obtain ⟨h, hb, blks, hs, _⟩ := C05_sign_total Toy.prims 4 v2 (Or.inr rfl) [5] [0, 1] [1, 2, 3, 4, 5]
  exact ⟨h, hb, blks, hs,
    C05_roundtrip_basic Toy.prims Toy.lawful 4 (by decide) v2 (Or.inr rfl) [5] [0, 1] [1, 2, 3, 4, 5] _ _ h hb blks hs,
    C05_roundtrip_basic Toy.prims Toy.lawful 4 (by decide) v2 (Or.inr rfl) [5] [0, 1] [1, 2, 3, 4, 5] _ _ h hb blks hs⟩

end Saltpack.Props.C05
