/-
  Property C16, extension (i) — prefix stability of the ARMORED classifier once
  the first base62 block is present, and of the binary classifier.

  `IsSaltpackArmoredPrefix` normalises the text, matches the frame expression up
  to its period, captures the alphanumeric/space run after it, base62-decodes the
  captured characters block by block and hands ALL decoded bytes to
  `IsSaltpackBinarySlice`.  Stability of a definite verdict under extension of
  the text is FALSE in general (four concrete counterexamples below, each checked
  on the real code, see notes/ext-d.md):

  * the characters after the last full block are decoded as a SHORT final block;
    when the text grows they become part of a longer block and decode to other
    bytes.  A header whose fields reach beyond the first 32 decoded bytes (legal
    MessagePack with non-minimal widths) is therefore classified differently on a
    prefix and on its extension (`C16_armored_unstable_mode`: signcryption, then
    encryption; `C16_armored_unstable_not`: "not saltpack", then encryption);
  * `strings.TrimSpace` strips Unicode white space: a prefix that ends inside the
    UTF-8 encoding of such a rune is normalised differently from its extension
    (`C16_armored_unstable_utf8_front`, `…_back`).

  The true statement, proved here for ALL texts: an ASCII prefix `p` that shows
  the frame, its period and one full block whose 32 decoded bytes alone decide the
  binary verdict is classified like every extension `p ++ q` (arbitrary bytes
  `q`).  "Decide" holds in particular whenever the binary classifier answers with
  a mode on the first block (`C16_binary_ok_stable`) — which is the case for every
  header a spec-following sender writes (17 bytes).
-/
import Saltpack.Proofs.ClassifyStable

namespace Saltpack.Props.C16
open Saltpack Saltpack.Classify Saltpack.Msgpack Saltpack.Proofs Saltpack.Proofs.ClsStable

/-- **Binary, stability of a verdict**: a mode/version answer on a slice is the
    answer on every extension of the slice (all inputs, also hostile ones) -/
theorem C16_binary_ok_stable (b e : Bytes) (t : Int) (v : Version) (h : binarySlice b = .ok (t, v)) :
    binarySlice (b ++ e) = .ok (t, v) :=
  bin_ok_stable b e t v h

/-- the generic parser under it: an object read from the front of `b` is read,
    to the same value, from the front of every extension -/
theorem C16_parse_extension (b : Bytes) (v : Val) (r e : Bytes) (h : parse1 b = .ok (v, r)) :
    parse1 (b ++ e) = .ok (v, r ++ e) :=
  MpMono.parse1_mono b v r e h

/-- **Armored, prefix stability once the first block is present.**  `p`: ASCII
    text whose normal form matches the frame expression (`brand`, frame type
    `typStr`, captured run `payload`) and whose captured characters decode to at
    least 32 bytes (the code's own condition); `hset`: the first decoded block
    alone decides the binary verdict.  Then every extension — by arbitrary bytes —
    gets the verdict of `p`. -/
theorem C16_armored_prefix_stable (p q : Bytes) (hp : ∀ c ∈ p, c < 128) (brand typStr payload : Bytes)
    (h : matchHeader (Armor.trimSpace (Armor.collapse p)) = some (brand, typStr, payload))
    (h32 : 32 ≤ (decOf payload).length)
    (hset : ∀ e, binarySlice (firstBlockOf payload ++ e) = binarySlice (firstBlockOf payload)) :
    armoredPrefix (p ++ q) = armoredPrefix p :=
  arm_block_stable p q hp brand typStr payload h h32 hset

/-- the verdict in that situation is never "short": it is what the frame label and
    the binary classifier (on the decoded bytes) conclude -/
theorem C16_armored_block_verdict (p brand typStr payload : Bytes)
    (h : matchHeader (Armor.trimSpace (Armor.collapse p)) = some (brand, typStr, payload))
    (h32 : 32 ≤ (decOf payload).length) :
    armoredPrefix p = conclude brand typStr (binarySlice (decOf payload)) :=
  arm_block_verdict p brand typStr payload h h32

/-- **a mode/version carried by the first block never changes**: if the binary
    classifier answers `r` on the first decoded block, then `p` and every
    extension are classified `r` under that frame (or both "not saltpack" when
    the frame label contradicts the mode) -/
theorem C16_armored_ok_stable (p q : Bytes) (hp : ∀ c ∈ p, c < 128) (brand typStr payload : Bytes)
    (h : matchHeader (Armor.trimSpace (Armor.collapse p)) = some (brand, typStr, payload))
    (h32 : 32 ≤ (decOf payload).length)
    (r : Int × Version) (hok : binarySlice (firstBlockOf payload) = .ok r) :
    armoredPrefix (p ++ q) = conclude brand typStr (.ok r) ∧ armoredPrefix p = conclude brand typStr (.ok r) :=
  arm_ok_stable p q hp brand typStr payload h h32 r hok

/-- the normal form of an ASCII prefix is a prefix of the normal form of every
    extension (the step that fails for non-ASCII prefixes) -/
theorem C16_norm_prefix (p q : Bytes) (hp : ∀ c ∈ p, c < 128) (hne : Armor.trimSpace (Armor.collapse p) ≠ []) :
    ∃ x, Armor.trimSpace (Armor.collapse (p ++ q)) = Armor.trimSpace (Armor.collapse p) ++ x :=
  norm_append p q hp hne

/-- the header expression on an extension: same brand, same frame type, the
    captured run grows -/
theorem C16_header_extension (s brand t pl x : Bytes) (h : matchHeader s = some (brand, t, pl)) :
    ∃ rest, pl = rest.takeWhile okc ∧ matchHeader (s ++ x) = some (brand, t, (rest ++ x).takeWhile okc) :=
  matchHeader_append s brand t pl x h

/-! ## the counterexamples (stability is false without the hypotheses) -/

/-- `BEGIN SALTPACK ENCRYPTED MESSAGE. ` + the block of a 32-byte header start
    `c6 00000040 dd 00000006 db 00000008 "saltpack" 92 ce 00000002 cd 0000` (the
    mode byte is byte 32) -/
def cePrefix : Bytes := "BEGIN SALTPACK ENCRYPTED MESSAGE. kx161UDnMIA4ddB3Vp9eTheOHnFkYmrJ596yPSuMi7E".toUTF8.toList

/-- **unstable mode**: the trailing `03` is a short block (one byte, 3 =
    signcryption); with one more character `03z` decodes to `00 f7` and the
    message is an encryption message -/
theorem C16_armored_unstable_mode :
    armoredPrefix (cePrefix ++ [48, 51]) = .ok ([], 3, ⟨2, 0⟩) ∧
    armoredPrefix (cePrefix ++ [48, 51] ++ [122]) = .ok ([], 0, ⟨2, 0⟩) := by
  decide +kernel

/-- **"not saltpack" is not final**: a version array that is cut off by the end of
    the first block, and complete after the second -/
def ceNotPrefix : Bytes :=
  "BEGIN SALTPACK ENCRYPTED MESSAGE. ".toUTF8.toList ++
    Basex.encode Gen.base62Std.strict ([0xc4, 0x40, 0x96, 0xa8] ++ Gen.c_sp_FormatName ++
      [0x9f, 2, 0, 0xcf, 0, 0, 0, 0, 0, 0, 0, 0, 0xcf, 0, 0, 0, 0, 0, 0, 0])

theorem C16_armored_unstable_not :
    armoredPrefix ceNotPrefix = .notSaltpack ∧
    armoredPrefix (ceNotPrefix ++ Basex.encode Gen.base62Std.strict (List.replicate 32 0)) = .ok ([], 0, ⟨2, 0⟩) := by
  decide +kernel

/-- **UTF-8 white space, front**: `c2` is "not saltpack"; `c2 a0` (a no-break
    space) in front of an armored message is trimmed away -/
theorem C16_armored_unstable_utf8_front :
    armoredPrefix [0xc2] = .notSaltpack ∧
    armoredPrefix ([0xc2] ++ [0xa0] ++ "BEGIN".toUTF8.toList) = .short := by
  decide +kernel

/-- **UTF-8 white space, back**: `BEGIN e2 80` is "not saltpack", `BEGIN e2 80 80`
    (an en quad) is "short" -/
theorem C16_armored_unstable_utf8_back :
    armoredPrefix ("BEGIN".toUTF8.toList ++ [0xe2, 0x80]) = .notSaltpack ∧
    armoredPrefix ("BEGIN".toUTF8.toList ++ [0xe2, 0x80] ++ [0x80]) = .short := by
  decide +kernel

/-! ## non-vacuity -/

/-- a genuine frame and first block (header `c4 40 96 a8 "saltpack" 92 02 00 00 …`):
    all hypotheses of `C16_armored_ok_stable` hold -/
def okPrefix : Bytes :=
  "BEGIN KEYBASE SALTPACK ENCRYPTED MESSAGE. ".toUTF8.toList ++
    Basex.encode Gen.base62Std.strict ([0xc4, 0x40, 0x96, 0xa8] ++ Gen.c_sp_FormatName ++
      [0x92, 2, 0, 0, 0xc4, 0x20] ++ List.replicate 14 7)

def okPayload : Bytes := okPrefix.drop 41

example : okPrefix.all (fun c => c < 128) = true ∧
    matchHeader (Armor.trimSpace (Armor.collapse okPrefix)) =
        some ("KEYBASE".toUTF8.toList, Gen.c_sp_EncryptionArmorString, okPayload) ∧
      32 ≤ (decOf okPayload).length ∧ binarySlice (firstBlockOf okPayload) = .ok (0, ⟨2, 0⟩) := by
  decide +kernel

end Saltpack.Props.C16
