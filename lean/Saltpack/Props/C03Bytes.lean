/-
  C03 (signcryption round trip) on the emitted BYTES through the byte-level
  receiver `Signcrypt.openBytes` (Model/Front.lean) — the transfer of
  `C03_roundtrip_box_bytes*` / `C03_roundtrip_sym_bytes*` (stated for the
  spec-shaped split `Wire.splitSigncrypt`) to the Codec-first front end
  (repair R1): on what `Signcrypt.sealWith` emits go-codec's typed reader gives
  the same header read and packets as the spec-shaped one (`C09_bridge_seal_signcrypt`).

  Statements only; proofs in Saltpack/Proofs/CodecBytesFront.lean, WireRT.lean, RingRT.lean.
-/
import Saltpack.Props.C03
import Saltpack.Proofs.CodecBytesFront

namespace Saltpack.Props.C03
open Saltpack Saltpack.Encrypt Saltpack.Proofs

/-- **The transfer**: a `Wire`-split all-at-once opening of a signcrypted message
    is the byte-level receiver's result on these bytes -/
theorem C03_bytes_front_of_wire (P : Prims) (hP : P.Lawful) (bs : Nat) (hbs : 0 < bs) (hbs32 : bs + 80 < 2 ^ 32)
    (sender : Option Bytes) (rs : List Signcrypt.Recipient) (eph payloadKey pt : Bytes)
    (hpk : payloadKey.length = 32) (L : Nat) (hL32 : 32 ≤ L)
    (hid : ∀ key ident, Signcrypt.Recipient.sym key ident ∈ rs → ident.length ≤ L)
    (hsmall : 145 + rs.length * (L + 63) < 2 ^ 32)
    (msg : Bytes) (hmsg : Signcrypt.sealWith P bs sender rs eph payloadKey pt = .ok msg)
    (kr : Keyring) (res : Signcrypt.Resolver) (snd : Option Bytes) (pt' : Bytes)
    (hw : ∃ hr ps, Wire.splitSigncrypt msg = .ok (hr, ps) ∧ Signcrypt.openAll P kr res hr ps = .ok (snd, pt')) :
    ∃ r, Signcrypt.openBytes P kr res msg = .ok r ∧ r.err = none ∧ r.released = pt' ∧ r.sender = snd :=
  sc_bytes_front_of_wire P hP bs hbs hbs32 sender rs eph payloadKey pt hpk L hL32 hid hsmall msg hmsg kr res snd pt' hw

/-- on a signcrypted message the front end reads exactly what the spec-shaped reader reads -/
theorem C03_front_is_wire_on_sealed (P : Prims) (hP : P.Lawful) (bs : Nat) (hbs : 0 < bs) (hbs32 : bs + 80 < 2 ^ 32)
    (sender : Option Bytes) (rs : List Signcrypt.Recipient) (eph payloadKey pt : Bytes)
    (hpk : payloadKey.length = 32) (L : Nat) (hL32 : 32 ≤ L)
    (hid : ∀ key ident, Signcrypt.Recipient.sym key ident ∈ rs → ident.length ≤ L)
    (hsmall : 145 + rs.length * (L + 63) < 2 ^ 32)
    (msg : Bytes) (hmsg : Signcrypt.sealWith P bs sender rs eph payloadKey pt = .ok msg)
    (x : HeaderRead EncHeader × PStream SigncryptBlock) (hw : Wire.splitSigncrypt msg = .ok x) :
    Codec.splitSigncrypt msg = .ok x ∧ Front.readSigncrypt msg = .ok x :=
  front_of_wire_sealed_signcrypt P hP bs hbs hbs32 sender rs eph payloadKey pt hpk L hL32 hid hsmall msg hmsg x hw

/-- **Round trip on the emitted bytes through the front end — box-key recipient,
    any keyring holding the key, with or without a resolver**
    (`C03_roundtrip_box_bytes_ring` transferred) -/
theorem C03_roundtrip_box_bytes_ring_front (P : Prims) (hP : P.Lawful) (bs : Nat) (hbs : 0 < bs) (hbs32 : bs + 80 < 2 ^ 32)
    (sender : Option Bytes) (rs : List Signcrypt.Recipient) (eph payloadKey pt : Bytes)
    (hpk : payloadKey.length = 32)
    (hsender : ∀ s, sender = some s → ¬ ((P.sigPub s).all (· == 0)))
    (hblocks : (Encrypt.chunkPlan v2 bs pt).length < 2 ^ 64 - 1)
    (sks : List Bytes) (res : Signcrypt.Resolver)
    (i : Nat) (hi : i < rs.length) (sk : Bytes) (hmem : sk ∈ sks) (hsk : rs.getD i default = .box (P.boxPub sk))
    (hnc : ∀ s ∈ sks, ∀ j, j ≤ i → j < rs.length →
      Signcrypt.keyIdentifier P (Signcrypt.derivedKeyFromBoxKeys P (P.boxPub eph) s) j =
        Decrypt.kidOf ((Signcrypt.header P sender eph payloadKey rs).receivers.getD j default) →
      rs.getD j default = .box (P.boxPub s))
    (L : Nat) (hL32 : 32 ≤ L)
    (hid : ∀ key ident, Signcrypt.Recipient.sym key ident ∈ rs → ident.length ≤ L)
    (hsmall : 145 + rs.length * (L + 63) < 2 ^ 32)
    (msg : Bytes) (hmsg : Signcrypt.sealWith P bs sender rs eph payloadKey pt = .ok msg) :
    ∃ r, Signcrypt.openBytes P (faithfulKeyring P sks) res msg = .ok r ∧ r.err = none ∧ r.released = pt ∧
      r.sender = sender.map P.sigPub :=
  sc_bytes_front_of_wire P hP bs hbs hbs32 sender rs eph payloadKey pt hpk L hL32 hid hsmall msg hmsg _ _ _ _
    (C03_roundtrip_box_bytes_ring P hP bs hbs hbs32 sender rs eph payloadKey pt hpk hsender hblocks sks res i hi sk hmem
      hsk hnc L hL32 hid hsmall msg hmsg)

/-- … keyring = exactly the recipient's key (`C03_roundtrip_box_bytes` transferred) -/
theorem C03_roundtrip_box_bytes_front (P : Prims) (hP : P.Lawful) (bs : Nat) (hbs : 0 < bs) (hbs32 : bs + 80 < 2 ^ 32)
    (sender : Option Bytes) (rs : List Signcrypt.Recipient) (eph payloadKey pt : Bytes)
    (hpk : payloadKey.length = 32)
    (hsender : ∀ s, sender = some s → ¬ ((P.sigPub s).all (· == 0)))
    (hblocks : (Encrypt.chunkPlan v2 bs pt).length < 2 ^ 64 - 1)
    (i : Nat) (hi : i < rs.length) (sk : Bytes) (hsk : rs.getD i default = .box (P.boxPub sk))
    (hnc : ∀ j, j < i → Signcrypt.keyIdentifier P (Signcrypt.derivedKeyFromBoxKeys P (P.boxPub eph) sk) j ≠
        Decrypt.kidOf ((Signcrypt.header P sender eph payloadKey rs).receivers.getD j default))
    (L : Nat) (hL32 : 32 ≤ L)
    (hid : ∀ key ident, Signcrypt.Recipient.sym key ident ∈ rs → ident.length ≤ L)
    (hsmall : 145 + rs.length * (L + 63) < 2 ^ 32)
    (msg : Bytes) (hmsg : Signcrypt.sealWith P bs sender rs eph payloadKey pt = .ok msg) :
    ∃ r, Signcrypt.openBytes P (faithfulKeyring P [sk]) none msg = .ok r ∧ r.err = none ∧ r.released = pt ∧
      r.sender = sender.map P.sigPub :=
  sc_bytes_front_of_wire P hP bs hbs hbs32 sender rs eph payloadKey pt hpk L hL32 hid hsmall msg hmsg _ _ _ _
    (C03_roundtrip_box_bytes P hP bs hbs hbs32 sender rs eph payloadKey pt hpk hsender hblocks i hi sk hsk hnc
      L hL32 hid hsmall msg hmsg)

/-- … symmetric-key recipients, keyring of foreign box keys and a resolver
    (`C03_roundtrip_sym_bytes_ring` transferred) -/
theorem C03_roundtrip_sym_bytes_ring_front (P : Prims) (hP : P.Lawful) (bs : Nat) (hbs : 0 < bs) (hbs32 : bs + 80 < 2 ^ 32)
    (sender : Option Bytes) (rs : List Signcrypt.Recipient) (eph payloadKey pt : Bytes)
    (hpk : payloadKey.length = 32)
    (hsender : ∀ s, sender = some s → ¬ ((P.sigPub s).all (· == 0)))
    (hblocks : (Encrypt.chunkPlan v2 bs pt).length < 2 ^ 64 - 1)
    (sks : List Bytes)
    (hfor : ∀ s ∈ sks, ∀ j, j < (Signcrypt.header P sender eph payloadKey rs).receivers.length →
      Signcrypt.keyIdentifier P (Signcrypt.derivedKeyFromBoxKeys P (P.boxPub eph) s) j ≠
        Decrypt.kidOf ((Signcrypt.header P sender eph payloadKey rs).receivers.getD j default))
    (f : List Bytes → Except Err (List (Option Bytes))) (keys : List (Option Bytes))
    (hf : f ((Signcrypt.header P sender eph payloadKey rs).receivers.map Decrypt.kidOf) = .ok keys)
    (hlen : keys.length = rs.length)
    (htrue : ∀ (j : Nat) (k : Bytes), keys[j]? = some (some k) → ∃ ident, rs[j]? = some (Signcrypt.Recipient.sym k ident))
    (hsome : ∃ (j : Nat) (k : Bytes), keys[j]? = some (some k))
    (L : Nat) (hL32 : 32 ≤ L)
    (hid : ∀ key ident, Signcrypt.Recipient.sym key ident ∈ rs → ident.length ≤ L)
    (hsmall : 145 + rs.length * (L + 63) < 2 ^ 32)
    (msg : Bytes) (hmsg : Signcrypt.sealWith P bs sender rs eph payloadKey pt = .ok msg) :
    ∃ r, Signcrypt.openBytes P (faithfulKeyring P sks) (some f) msg = .ok r ∧ r.err = none ∧ r.released = pt ∧
      r.sender = sender.map P.sigPub :=
  sc_bytes_front_of_wire P hP bs hbs hbs32 sender rs eph payloadKey pt hpk L hL32 hid hsmall msg hmsg _ _ _ _
    (C03_roundtrip_sym_bytes_ring P hP bs hbs hbs32 sender rs eph payloadKey pt hpk hsender hblocks sks hfor f keys hf
      hlen htrue hsome L hL32 hid hsmall msg hmsg)

/-- … and symmetric-key recipients, empty keyring (`C03_roundtrip_sym_bytes` transferred) -/
theorem C03_roundtrip_sym_bytes_front (P : Prims) (hP : P.Lawful) (bs : Nat) (hbs : 0 < bs) (hbs32 : bs + 80 < 2 ^ 32)
    (sender : Option Bytes) (rs : List Signcrypt.Recipient) (eph payloadKey pt : Bytes)
    (hpk : payloadKey.length = 32)
    (hsender : ∀ s, sender = some s → ¬ ((P.sigPub s).all (· == 0)))
    (hblocks : (Encrypt.chunkPlan v2 bs pt).length < 2 ^ 64 - 1)
    (f : List Bytes → Except Err (List (Option Bytes))) (keys : List (Option Bytes))
    (hf : f ((Signcrypt.header P sender eph payloadKey rs).receivers.map Decrypt.kidOf) = .ok keys)
    (hlen : keys.length = rs.length)
    (htrue : ∀ (j : Nat) (k : Bytes), keys[j]? = some (some k) → ∃ ident, rs[j]? = some (Signcrypt.Recipient.sym k ident))
    (hsome : ∃ (j : Nat) (k : Bytes), keys[j]? = some (some k))
    (L : Nat) (hL32 : 32 ≤ L)
    (hid : ∀ key ident, Signcrypt.Recipient.sym key ident ∈ rs → ident.length ≤ L)
    (hsmall : 145 + rs.length * (L + 63) < 2 ^ 32)
    (msg : Bytes) (hmsg : Signcrypt.sealWith P bs sender rs eph payloadKey pt = .ok msg) :
    ∃ r, Signcrypt.openBytes P (faithfulKeyring P []) (some f) msg = .ok r ∧ r.err = none ∧ r.released = pt ∧
      r.sender = sender.map P.sigPub :=
  sc_bytes_front_of_wire P hP bs hbs hbs32 sender rs eph payloadKey pt hpk L hL32 hid hsmall msg hmsg _ _ _ _
    (C03_roundtrip_sym_bytes P hP bs hbs hbs32 sender rs eph payloadKey pt hpk hsender hblocks f keys hf hlen htrue hsome
      L hL32 hid hsmall msg hmsg)

end Saltpack.Props.C03
