/-
  Property C14 — I/O faults are reported, never swallowed.  Statements only;
  proofs in Saltpack/Proofs/StreamLemmas.lean and by unfolding the stream
  machines of Model/Stream.lean.

  Write side: the BaseX encoder stream (the layer every armored encoder writes
  through) is proved sticky and reporting, for an ARBITRARY underlying writer
  (`Sink`: which of its writes fail): `Close` returns success only if exactly
  the encoding of everything written reached the writer
  (`C14_basex_close_ok_means_all_written`), and every failing underlying write
  is reported by the call it happens in and by `Close`
  (`C14_basex_fault_reported`).  The other write paths (go-codec's
  `Encode`, `bytes.Buffer`, the armor spacer) and the whole read stack are
  covered by fault injection at EVERY k-th underlying call of EVERY stream kind
  on every run, per call against the model where a model exists (BaseX encoder,
  armor reader stack) and by the property's predicate on the implementation.
-/
import Saltpack.Proofs.StreamLemmas
import Saltpack.Proofs.ChunkReaderAll
import Saltpack.Proofs.PunctAll
import Saltpack.Proofs.ArmorStackFaults

namespace Saltpack.Props.C14
open Saltpack Saltpack.Stream Saltpack.Proofs

/-- once an underlying write failed, every later `Write` and `Close` report it -/
theorem C14_basex_encoder_sticky (s : EncState) (hf : s.failed = true) (p : Bytes) :
    (s.write p).2.1 = false ∧ (s.write p).2.2.failed = true ∧ s.close.1 = false :=
  encStream_sticky s hf p

/-- a `Write` that reports success has seen no failing underlying write -/
theorem C14_basex_write_reports (s : EncState) (p : Bytes) :
    (s.write p).2.2.failed = true → (s.write p).2.1 = false ∨ s.failed = true :=
  encStream_write_reports s p

/-- `Close` never reports success after a failed underlying write -/
theorem C14_basex_close_reports (s : EncState) : s.close.2.failed = true → s.close.1 = false :=
  encStream_close_reports s

/-- hence: if `Close` reports success after a sequence of `Write`s that all
    reported success, no underlying write failed -/
theorem C14_basex_success_means_written (ws : List Bytes) (s0 : EncState) (h0 : s0.failed = false) :
    let s1 := ws.foldl (fun (s : EncState) w => (s.write w).2.2) s0
    s1.close.1 = true → s1.close.2.failed = false := by
  intro s1 hc
  cases h : s1.close.2.failed with
  | false => rfl
  | true =>
    have := encStream_close_reports s1 h
    rw [hc] at this
    exact absurd this (by decide)

/-- **`Close` never reports success for a message that was not completely
    written** — stated on what reached the underlying writer, not on the model's
    sticky flag: for a well-formed encoding, ANY underlying writer (`sink`: the
    list of which of its writes fail) and ANY sequence of `Write`s (whatever
    they returned), if `Close` returns no error then the concatenation of the
    successful underlying writes is exactly the one-shot encoding of
    everything that was written. -/
theorem C14_basex_close_ok_means_all_written (enc : Basex.Enc) (he : enc.WF) (sink : Sink) (ws : List Bytes) :
    let s1 := ws.foldl (fun (s : EncState) w => (s.write w).2.2) ({ enc := enc, sink := sink } : EncState)
    s1.close.1 = true → s1.close.2.written.flatten = Basex.encode enc ws.flatten :=
  encStream_close_ok_all_written enc he sink ws

/-- **Every failing underlying write is reported** (the dual): `consumed` is the
    part of the sink used up between two points — one entry per underlying
    write, `true` = that write failed.  (1) A `Write` during which a failing
    entry was consumed returns an error.  (2) If a failing entry was consumed
    anywhere between the creation of the encoder and the end of `Close` — in
    any `Write` or in `Close` itself — then `Close` returns an error.  Hence
    "some `Write` returned an error or `Close` did", and always `Close`. -/
theorem C14_basex_fault_reported (enc : Basex.Enc) (sink : Sink) (ws : List Bytes) :
    (∀ (s : EncState) (p : Bytes) (consumed : List Bool),
      s.sink = consumed ++ (s.write p).2.2.sink → true ∈ consumed → (s.write p).2.1 = false) ∧
    (let s1 := ws.foldl (fun (s : EncState) w => (s.write w).2.2) ({ enc := enc, sink := sink } : EncState)
     ∀ consumed : List Bool, sink = consumed ++ s1.close.2.sink → true ∈ consumed → s1.close.1 = false) :=
  ⟨fun s p consumed hc ht => encStream_write_fault_reported s p consumed hc ht,
   fun consumed hc ht => encStream_fault_reported enc sink ws consumed hc ht⟩

/-- the sink is only ever consumed from the front, one entry per underlying
    write (so `consumed` above always exists and is unique) -/
theorem C14_basex_sink_consumed (enc : Basex.Enc) (sink : Sink) (ws : List Bytes) :
    let s1 := ws.foldl (fun (s : EncState) w => (s.write w).2.2) ({ enc := enc, sink := sink } : EncState)
    ∃ consumed : List Bool, sink = consumed ++ s1.close.2.sink ∧ s1.close.2.failed = consumed.contains true := by
  intro s1
  obtain ⟨c, h1, h2⟩ := (consumes_fold ws ({ enc := enc, sink := sink } : EncState)).trans (consumes_close _)
  exact ⟨c, h1, by simpa using h2⟩

/-- read side, BaseX decoder: an error is sticky — once reported, every later
    `Read` reports it again and releases nothing.  (A ONE-STEP fact about a
    single call; the whole-stream statement — a reader fault is never turned
    into a clean end, after any fragments and for any buffer sizes — is
    `C14_armor_fault_never_clean`.) -/
theorem C14_decoder_sticky (par : Armor.Params) (ex : Armor.Expect) (cap : Nat) (d : DState) (e : RErr)
    (h : d.err = some e) : dRead par ex cap d = ([], some e, d) := by
  unfold dRead
  simp [h]

/-- read side, chunk reader: the terminal condition is sticky -/
theorem C14_chunk_reader_sticky (cap : Nat) (s : CRState Source)
    (hwf : ∀ p ∈ s.chunker, p.1 = [] → p.2 ≠ none) (d : Bytes) (x : RErr) (s' : CRState Source)
    (h : crRead Proofs.scriptNext cap (s.chunker.length + 3) s [] = (d, some x, s')) :
    crRead Proofs.scriptNext cap (s'.chunker.length + 3) s' [] = ([], some x, s') :=
  (crRead_terminal cap s hwf d x s' h).2

/-- read side, punctuated reader (after the D6 fix): an error of the underlying
    reader that arrives without data is handed on as it is.  (A ONE-STEP fact
    about a single `Read` in an idle state; the whole-stream statement is
    `C14_punct_reports`, and through the chunk reader and the armor stack
    `C14_chunk_reader_reports`, `C14_armor_fault_never_clean`.) -/
theorem C14_punct_propagates (cap : Nat) (s : PState) (e : RErr) (rest : Source)
    (h1 : s.thisSegment = []) (h2 : s.nextSegment = []) (h3 : s.errNextRead = none)
    (hsrc : s.src = ([], some e) :: rest) :
    (pRead cap s).1 = [] ∧ (pRead cap s).2.1 = some e := by
  unfold pRead
  simp [h1, h2, h3, hsrc, srcRead]

/-- …and one that arrives together with data is remembered and reported on the
    next call that has nothing else to deliver (sticky from then on).  (Again a
    ONE-STEP fact: that the remembered error is in fact reported after all
    remaining data, for every schedule of buffer sizes, is the whole-stream
    theorem `C14_punct_reports`.) -/
theorem C14_punct_remembers (cap : Nat) (s : PState) (e : RErr)
    (h1 : s.thisSegment = []) (h2 : s.nextSegment = []) (h3 : s.errNextRead = some e) :
    pRead cap s = ([], some e, s) := by
  unfold pRead
  simp [h1, h2, h3]

/-- **A reader fault reaches the caller of the chunk reader unchanged**: whatever
    condition the chunker ends with — in particular a non-EOF error of the
    underlying reader handed up by `getNextChunk` — is the condition the last
    `Read` reports, for every schedule of buffer sizes, after exactly the chunks
    that preceded it (never a clean end-of-message instead). -/
theorem C14_chunk_reader_reports {σ : Type} (next : σ → Bytes × Option RErr × σ)
    (σ0 : σ) (n : Nat) (cs : List Bytes) (z : Err)
    (htr : chunkTrace next n σ0 = (cs, some (.err z))) (hne : ∀ c ∈ cs.dropLast, c ≠ [])
    (caps : List Nat) (hcaps : ∀ c ∈ caps, 0 < c)
    (inner : Nat) (hi : n + 1 ≤ inner) (fuel : Nat) (hf : cs.flatten.length + 1 ≤ fuel) :
    (crReadAll next caps inner fuel 0 { chunker := σ0 } []).2.1 = some (.err z) ∧
    (crReadAll next caps inner fuel 0 { chunker := σ0 } []).1 = cs.flatten :=
  let r := crReadAll_eq next σ0 n cs (.err z) htr hne caps hcaps inner hi fuel hf
  ⟨r.2.1, r.1⟩

/-- **…and the punctuated reader never turns a fault into an end of input**: if
    the underlying reader's deliveries end in a non-EOF error `z` (alone or
    together with data, after any fragments) and no period is left, reading on
    with any buffer sizes hands out all remaining data and then reports exactly
    `z`. -/
theorem C14_punct_reports (caps : List Nat) (hpos : ∀ c ∈ caps, 0 < c) (s : PState) (hwf : s.WF)
    (fuel : Nat) (hfuel : s.cost < fuel) (k : Nat) (t : Bytes) (z : Err)
    (ht : s.text = (t, .err z)) (hnp : Armor.period ∉ t) :
    ∃ s1, pReadSeg caps fuel k s [] = (t, some (.err z), s1) :=
  let ⟨s1, h, _, _⟩ := (pReadSeg_eq caps hpos s hwf fuel hfuel k t (.err z) ht).2 hnp
  ⟨s1, h⟩

/-- **The armor reader stack never turns a reader fault into a clean end**:
    the underlying reader delivers data (non-empty reads) and then a non-EOF
    error `z` — alone or together with data `dd` — and ANYTHING afterwards
    (`post` arbitrary: the error persisting, the reader recovering, …); for every
    schedule of positive buffer sizes the stack ends with an error, and what it
    released before is a prefix of what the text delivered so far allows.
    (`z ≠ ErrPunctuated`: a reader that itself returns saltpack's internal
    sentinel is taken for a period — counterexample in the proof file.) -/
theorem C14_armor_fault_never_clean (par : Armor.Params) (hpar : par.enc.WF) (expect : Armor.Expect)
    (pre post : Source) (dd : Bytes) (z : Err) (hpre : DataOnly pre) (hz : z ≠ .punctuated)
    (caps : List Nat) (hcaps : ∀ c ∈ caps, 0 < c) (fuel : Nat) (hfuel : (dataOf pre ++ dd).length + 1 ≤ fuel) :
    ∃ released e d,
      readAll par expect caps fuel 0 (newDecoder (pre ++ (dd, some (.err z)) :: post)) [] = (released, some e, d) ∧
      released <+: faultRelease par expect (dataOf pre ++ dd) :=
  fault_never_clean_shape par hpar expect pre post dd z hpre hz caps hcaps fuel hfuel

/-- …and those released bytes are comparable with what a fault-free read of any
    continuation of the text releases (nothing but a prefix of the payload) -/
theorem C14_armor_fault_release_comparable (par : Armor.Params) (hpar : par.enc.WF) (expect : Armor.Expect)
    (src src' : Source) (T X : Bytes) (z : Err) (hpre : SrcPre src) (hsrc : srcText src = (T, .err z))
    (hz : z ≠ .punctuated) (hok' : SrcOK src') (hsrc' : srcText src' = (T ++ X, .eof))
    (caps caps' : List Nat) (hcaps : ∀ c ∈ caps, 0 < c) (hcaps' : ∀ c ∈ caps', 0 < c)
    (fuel fuel' : Nat) (hfuel : T.length + 1 ≤ fuel) (hfuel' : (T ++ X).length + 1 ≤ fuel') :
    (readAll par expect caps fuel 0 (newDecoder src) []).1 <+: (readAll par expect caps' fuel' 0 (newDecoder src') []).1 ∨
    (readAll par expect caps' fuel' 0 (newDecoder src') []).1 <+: (readAll par expect caps fuel 0 (newDecoder src) []).1 :=
  released_prefix_comparable_fault par hpar expect src src' T X z hpre hsrc hz hok' hsrc' caps caps' hcaps hcaps' fuel fuel' hfuel hfuel'

/-! ## non-vacuity -/
example : (({ enc := Gen.base62Std, sink := [true] } : EncState).write (List.replicate 32 7)).2.1 = false := by decide
-- a writer whose second write fails: the first block got through, `Close` reports the failure
example :
    let s1 := [List.replicate 32 7, List.replicate 33 9].foldl (fun (s : EncState) w => (s.write w).2.2)
      ({ enc := Gen.base62Std, sink := [false, true] } : EncState)
    s1.close.1 = false ∧ s1.close.2.written.length = 1 := by decide
-- a writer that never fails within the run: `Close` succeeds (the hypothesis of
-- `C14_basex_close_ok_means_all_written` is satisfiable with a non-trivial sink)
example :
    let s1 := [List.replicate 32 7, [1]].foldl (fun (s : EncState) w => (s.write w).2.2)
      ({ enc := Gen.base62Std, sink := [false, false, true] } : EncState)
    s1.close.1 = true := by decide

end Saltpack.Props.C14
