/-
  Property C04 — signcryption: released plaintext was signed by the named
  sender, in order.  Statements only; proofs in Saltpack/Proofs/Receiver.lean,
  Authentic.lean.
-/
import Saltpack.Proofs.Receiver
import Saltpack.Proofs.Authentic
import Saltpack.Proofs.Attribution
import Saltpack.Toy

namespace Saltpack.Props.C04
open Saltpack Saltpack.Proofs

theorem C04_released_is_accepted_prefix (P : Prims) (s : Signcrypt.State)
    (items : List (Option SigncryptBlock)) (tail : Tail) (n : Nat) :
    ∃ bs : List SigncryptBlock, (bs.map some) <+: items ∧
      Chain (Sc.accept P s) (·.final) n bs (Signcrypt.run P s items tail n).bytes :=
  Sc.run_prefix P s items tail n

theorem C04_clean_end_iff_complete (P : Prims) (s : Signcrypt.State)
    (items : List (Option SigncryptBlock)) (tail : Tail) (n : Nat) :
    (Signcrypt.run P s items tail n).err = none ↔
      ∃ bs : List SigncryptBlock, items = bs.map some ∧ tail = .eof ∧
        Complete (Sc.accept P s) (·.final) n bs (Signcrypt.run P s items tail n).bytes :=
  Sc.run_ok_iff P s items tail n

theorem C04_all_at_once_only_if_clean (P : Prims) (kr : Keyring) (res : Signcrypt.Resolver)
    (hr : HeaderRead EncHeader) (ps : PStream SigncryptBlock) (snd : Option Bytes) (pt : Bytes)
    (h : Signcrypt.openAll P kr res hr ps = .ok (snd, pt)) :
    (Signcrypt.openStream P kr res hr ps).err = none ∧ (Signcrypt.openStream P kr res hr ps).released = pt := by
  unfold Signcrypt.openAll at h
  generalize Signcrypt.openStream P kr res hr ps = r at h
  obtain ⟨sg, rel, err, calls⟩ := r
  cases err <;> simp_all

/-- an accepted packet of a named sender opens, under the nonce made of header
    hash, final flag and packet number, to signature ‖ chunk, and the signature
    verifies under the sender's key on
    domain ‖ header hash ‖ nonce ‖ final byte ‖ SHA-512(chunk) -/
theorem C04_accept_binds (P : Prims) (s : Signcrypt.State) (spk : Bytes) (hs : s.sender = some spk)
    (b : SigncryptBlock) (seqno : Nat) (c : Bytes) (h : Sc.accept P s b seqno = some c) :
    ∃ sig, sig.length = 64 ∧
      P.sbOpen s.payloadKey (Nonce.chunkSigncryption s.headerHash b.final (seqno - 1)) b.ct = some (sig ++ c) ∧
      P.verify spk (signcryptionSignatureInput P s.headerHash
          (Nonce.chunkSigncryption s.headerHash b.final (seqno - 1)) b.final c) sig = true ∧
      blockNumberOK (seqno - 1) = true :=
  Sc.accept_binds P s spk hs b seqno c h

/-- the nonce carries the final bit and the chunk number -/
theorem C04_nonce_binds (hh : Bytes) (hl : hh.length = 64) (f f' : Bool) (i j : Nat)
    (hi : i < 2 ^ 64) (hj : j < 2 ^ 64)
    (h : Nonce.chunkSigncryption hh f i = Nonce.chunkSigncryption hh f' j) : f = f' ∧ i = j :=
  chunkSigncryption_inj hh hl f f' i j hi hj h

/-- empty chunks are accepted only as the sole, final chunk -/
theorem C04_empty_only_sole_final (P : Prims) (s : Signcrypt.State) (b : SigncryptBlock) (seqno : Nat)
    (h : Sc.accept P s b seqno = some []) : seqno - 1 = 0 ∧ b.final = true :=
  Sc.accept_empty P s b seqno h

/-- **What `AuthSc.BreakIn P s spk H items` is** (definitional unfolding).  It
    is ANCHORED to the receiver state `s` and the packets `items` of the run
    (`Reaches`: see `C02_reaches_def` — every earlier item was a packet accepted
    at its position and not final):

    * *signature forgery in this run*: the sender is named (`s.sender = some spk`),
      the run reaches its `i`-th packet `b` and accepts it as packet number
      `i + 1`, releasing `c`; `b.ct` opens, under the receiver's payload key and
      the nonce of (header hash, `b.final`, `i`), to `sig ‖ c` with a 64-byte
      `sig` that verifies under `spk` on
      domain ‖ header hash ‖ nonce ‖ final byte ‖ hash(`c`) — an input the owner
      of `spk` never signed (no chunk of a message in `H`); or
    * *hash collision in this run*: the chunk `c` released for such a packet and
      the chunk `c'` the honest sender signed at that very position `i`, with
      that very final flag, in the message of `H` with this header hash, are
      DIFFERENT chunks with the SAME hash. -/
theorem C04_break_def (P : Prims) (s : Signcrypt.State) (spk : Bytes) (H : List AuthSc.Event)
    (items : List (Option SigncryptBlock)) :
    AuthSc.BreakIn P s spk H items ↔
      (∃ (i : Nat) (b : SigncryptBlock) (c sig : Bytes),
        s.sender = some spk ∧
        Reaches (Sc.accept P s) (·.final) items i b ∧
        Sc.accept P s b (i + 1) = some c ∧
        sig.length = 64 ∧
        P.sbOpen s.payloadKey (Nonce.chunkSigncryption s.headerHash b.final i) b.ct = some (sig ++ c) ∧
        P.verify spk (signcryptionSignatureInput P s.headerHash
          (Nonce.chunkSigncryption s.headerHash b.final i) b.final c) sig = true ∧
        ¬ ∃ e ∈ H, ∃ k c' f', e.plan[k]? = some (c', f') ∧
            signcryptionSignatureInput P s.headerHash
                (Nonce.chunkSigncryption s.headerHash b.final i) b.final c =
              signcryptionSignatureInput P e.headerHash (Nonce.chunkSigncryption e.headerHash f' k) f' c') ∨
      (∃ (i : Nat) (b : SigncryptBlock) (c : Bytes),
        Reaches (Sc.accept P s) (·.final) items i b ∧
        Sc.accept P s b (i + 1) = some c ∧
        ∃ e ∈ H, e.headerHash = s.headerHash ∧ ∃ c', e.plan[i]? = some (c', b.final) ∧
          c ≠ c' ∧ P.hash c = P.hash c') :=
  Iff.rfl

/-- **The reduction, named sender** — against an adversary who knows the payload
    key (nothing is assumed about it): released bytes are the first `m` chunks of
    ONE message the sender signcrypted under this very header hash (which covers
    the recipient list), all of it iff the run ends cleanly; or nothing is
    released and the run fails; or `AuthSc.BreakIn P s spk H items` (see
    `C04_break_def`): a signature forgery or a hash collision exhibited by a
    packet THIS run reached and accepted.  (For an anonymous sender no signature
    is checked: integrity then rests on the secretbox alone, i.e. only against
    parties lacking the payload key, as the property says.)

    `BreakIn` is not always true: `C04_break_not_trivial`, `C04_tampered_runs_fail`.

    `H`: all messages the owner of `spk` ever signcrypted.  `hlen`: their header
    hashes are 64 bytes.  `hplan` is asked ONLY of the messages with this header
    hash.  ASSUMPTION `hone` (explicit hypothesis): at most one of them has this
    header hash — freshness of the sender's ephemeral key and payload key, which
    the header covers, plus collision resistance of the header hash. -/
theorem C04_authentic_or_break (P : Prims) (hP : P.Lawful) (s : Signcrypt.State) (spk : Bytes)
    (hs : s.sender = some spk) (hhl : s.headerHash.length = 64)
    (H : List AuthSc.Event)
    (hlen : ∀ e ∈ H, e.headerHash.length = 64)
    (hplan : ∀ e ∈ H, e.headerHash = s.headerHash → PlanOK e.plan ∧ e.plan.length < 2 ^ 64)
    (hone : ∀ e ∈ H, ∀ e' ∈ H, e.headerHash = s.headerHash → e'.headerHash = s.headerHash → e = e')
    (items : List (Option SigncryptBlock)) (tail : Tail) :
    let r := Signcrypt.run P s items tail 1
    r.bytes = [] ∧ r.err ≠ none ∨
    (∃ e ∈ H, e.headerHash = s.headerHash ∧ ∃ m, m ≤ e.plan.length ∧ r.bytes = planPrefix e.plan m ∧
        (r.err = none → m = e.plan.length)) ∨
    AuthSc.BreakIn P s spk H items :=
  AuthSc.authentic_or_break P hP s spk hs hhl H hlen hplan hone items tail

/-- a packet that figures in a break is a packet OF THIS RUN, at its index -/
theorem C04_break_in_items (P : Prims) (s : Signcrypt.State) (spk : Bytes) (H : List AuthSc.Event)
    (items : List (Option SigncryptBlock)) (h : AuthSc.BreakIn P s spk H items) :
    ∃ i b c, items[i]? = some (some b) ∧ some b ∈ items ∧ i < items.length ∧
      Sc.accept P s b (i + 1) = some c := by
  rcases h with ⟨i, b, c, _, _, hr, ha, _⟩ | ⟨i, b, c, hr, ha, _⟩ <;>
    exact ⟨i, b, c, hr.1, hr.mem, hr.lt, ha⟩

/-- **Attribution.** Whenever a signcryption header is accepted: the payload key
    came out of one of the header's recipient entries, opened under a key derived
    from one of the receiver's own box secret keys (with matching identifier) or
    a symmetric key its resolver supplied for that entry; the sender the receiver
    reports (`st.sender`, under which every packet's signature must verify —
    `C04_accept_binds`) is the keyring's answer for the content of the sender
    secretbox under that payload key, and "anonymous" is reported exactly when
    that content is all zero. -/
theorem C04_attribution (P : Prims) (kr : Keyring) (res : Signcrypt.Resolver) (hh : Bytes)
    (h : EncHeader) (log : List KeyCall) (st : Signcrypt.State)
    (hok : Signcrypt.processHeader P kr res hh h = (log, .ok st)) :
    Signcrypt.validate h = .ok () ∧ st.headerHash = hh ∧ st.payloadKey.length = 32 ∧
    (∃ senderKey, P.sbOpen st.payloadKey Nonce.senderKeySecretBox h.senderSecretbox = some senderKey ∧
      (st.sender = none ↔ senderKey.all (· == 0) = true) ∧
      (∀ spk, st.sender = some spk → kr.lookupSigningPublicKey senderKey = some spk)) ∧
    ∃ eph, kr.importBoxEphemeralKey h.ephemeral = some eph ∧
      ∃ r i dk, h.receivers[i]? = some r ∧
        P.sbOpen dk (Nonce.payloadKeyBoxV2 i) r.box = some st.payloadKey ∧
        ((∃ sk, sk ∈ kr.getAllBoxSecretKeys ∧ dk = Signcrypt.derivedKeyFromBoxKeys P eph sk ∧
            Signcrypt.keyIdentifier P dk i = Decrypt.kidOf r) ∨
         (∃ f keys k, res = some f ∧ f (h.receivers.map Decrypt.kidOf) = .ok keys ∧
            keys[i]? = some (some k) ∧ dk = Signcrypt.symDerivedKey P eph k)) :=
  signcrypt_attribution P kr res hh h log st hok

/-! ## non-vacuity, and non-triviality of the reduction's third disjunct -/
example : Toy.prims.Lawful := Toy.lawful
example : Demo.prims.Lawful := Demo.lawful

/-- the honest two-packet run (chunks "A", "B", named sender) of the
    demonstration primitives ends cleanly and releases the plaintext … -/
theorem C04_honest_run :
    Signcrypt.run Demo.prims Demo.Sc.s [some Demo.Sc.b0, some Demo.Sc.b1] .eof 1 = ⟨[65, 66], none⟩ :=
  Demo.Sc.honest_run

/-- … and for it the anchored break is FALSE: the third disjunct of
    `C04_authentic_or_break` is not always true. -/
theorem C04_break_not_trivial :
    ¬ AuthSc.BreakIn Demo.prims Demo.Sc.s Demo.Sc.spk [Demo.Sc.e0] [some Demo.Sc.b0, some Demo.Sc.b1] :=
  Demo.Sc.honest_not_break

/-- tampered runs — packets swapped; a byte of the signed chunk inside the
    ciphertext changed — land in the FIRST disjunct -/
theorem C04_tampered_runs_fail :
    (let r := Signcrypt.run Demo.prims Demo.Sc.s [some Demo.Sc.b1, some Demo.Sc.b0] .eof 1
     r.bytes = [] ∧ r.err ≠ none) ∧
    (let r := Signcrypt.run Demo.prims Demo.Sc.s
        [some { Demo.Sc.b0 with ct := Demo.Sc.b0.ct.set 80 67 }, some Demo.Sc.b1] .eof 1
     r.bytes = [] ∧ r.err ≠ none) := by
  refine ⟨Demo.Sc.swapped_run, ?_⟩
  show (Signcrypt.run Demo.prims Demo.Sc.s _ .eof 1).bytes = [] ∧ _
  rw [Demo.Sc.altered_run]; exact ⟨rfl, by simp⟩

/-- a truncated run lands in the SECOND disjunct with `m = 1 < 2` and an error -/
theorem C04_truncated_run :
    Signcrypt.run Demo.prims Demo.Sc.s [some Demo.Sc.b0] .eof 1 = ⟨[65], some .unexpectedEOF⟩ :=
  Demo.Sc.truncated_run

end Saltpack.Props.C04
