/-
  Property C04 — signcryption: released plaintext was signed by the named
  sender, in order.  Statements only; proofs in Saltpack/Proofs/Receiver.lean,
  Authentic.lean.
-/
import Saltpack.Proofs.Receiver
import Saltpack.Proofs.Authentic
import Saltpack.Proofs.Attribution
import Saltpack.Toy

namespace Saltpack.Props.C04
open Saltpack Saltpack.Proofs

theorem C04_released_is_accepted_prefix (P : Prims) (s : Signcrypt.State)
    (items : List (Option SigncryptBlock)) (tail : Tail) (n : Nat) :
    ∃ bs : List SigncryptBlock, (bs.map some) <+: items ∧
      Chain (Sc.accept P s) (·.final) n bs (Signcrypt.run P s items tail n).bytes :=
  Sc.run_prefix P s items tail n

theorem C04_clean_end_iff_complete (P : Prims) (s : Signcrypt.State)
    (items : List (Option SigncryptBlock)) (tail : Tail) (n : Nat) :
    (Signcrypt.run P s items tail n).err = none ↔
      ∃ bs : List SigncryptBlock, items = bs.map some ∧ tail = .eof ∧
        Complete (Sc.accept P s) (·.final) n bs (Signcrypt.run P s items tail n).bytes :=
  Sc.run_ok_iff P s items tail n

theorem C04_all_at_once_only_if_clean (P : Prims) (kr : Keyring) (res : Signcrypt.Resolver)
    (hr : HeaderRead EncHeader) (ps : PStream SigncryptBlock) (snd : Option Bytes) (pt : Bytes)
    (h : Signcrypt.openAll P kr res hr ps = .ok (snd, pt)) :
    (Signcrypt.openStream P kr res hr ps).err = none ∧ (Signcrypt.openStream P kr res hr ps).released = pt := by
  unfold Signcrypt.openAll at h
  generalize Signcrypt.openStream P kr res hr ps = r at h
  obtain ⟨sg, rel, err, calls⟩ := r
  cases err <;> simp_all

/-- an accepted packet of a named sender opens, under the nonce made of header
    hash, final flag and packet number, to signature ‖ chunk, and the signature
    verifies under the sender's key on
    domain ‖ header hash ‖ nonce ‖ final byte ‖ SHA-512(chunk) -/
theorem C04_accept_binds (P : Prims) (s : Signcrypt.State) (spk : Bytes) (hs : s.sender = some spk)
    (b : SigncryptBlock) (seqno : Nat) (c : Bytes) (h : Sc.accept P s b seqno = some c) :
    ∃ sig, sig.length = 64 ∧
      P.sbOpen s.payloadKey (Nonce.chunkSigncryption s.headerHash b.final (seqno - 1)) b.ct = some (sig ++ c) ∧
      P.verify spk (signcryptionSignatureInput P s.headerHash
          (Nonce.chunkSigncryption s.headerHash b.final (seqno - 1)) b.final c) sig = true ∧
      blockNumberOK (seqno - 1) = true :=
  Sc.accept_binds P s spk hs b seqno c h

/-- the nonce carries the final bit and the chunk number -/
theorem C04_nonce_binds (hh : Bytes) (hl : hh.length = 64) (f f' : Bool) (i j : Nat)
    (hi : i < 2 ^ 64) (hj : j < 2 ^ 64)
    (h : Nonce.chunkSigncryption hh f i = Nonce.chunkSigncryption hh f' j) : f = f' ∧ i = j :=
  chunkSigncryption_inj hh hl f f' i j hi hj h

/-- empty chunks are accepted only as the sole, final chunk -/
theorem C04_empty_only_sole_final (P : Prims) (s : Signcrypt.State) (b : SigncryptBlock) (seqno : Nat)
    (h : Sc.accept P s b seqno = some []) : seqno - 1 = 0 ∧ b.final = true :=
  Sc.accept_empty P s b seqno h

/-- **The reduction, named sender** — against an adversary who knows the payload
    key (nothing is assumed about it): released bytes are the first `m` chunks of
    ONE message the sender signcrypted under this very header hash (which covers
    the recipient list), all of it iff the run ends cleanly; or nothing is
    released and the run fails; or a signature forgery / hash collision is
    exhibited.  (For an anonymous sender no signature is checked: integrity then
    rests on the secretbox alone, i.e. only against parties lacking the payload
    key, as the property says.) -/
theorem C04_authentic_or_break (P : Prims) (hP : P.Lawful) (s : Signcrypt.State) (spk : Bytes)
    (hs : s.sender = some spk) (hhl : s.headerHash.length = 64)
    (H : List AuthSc.Event)
    (hplan : ∀ e ∈ H, PlanOK e.plan ∧ e.plan.length < 2 ^ 64 ∧ e.headerHash.length = 64)
    (hone : ∀ e ∈ H, ∀ e' ∈ H, e.headerHash = e'.headerHash → e = e')
    (items : List (Option SigncryptBlock)) (tail : Tail) :
    let r := Signcrypt.run P s items tail 1
    r.bytes = [] ∧ r.err ≠ none ∨
    (∃ e ∈ H, e.headerHash = s.headerHash ∧ ∃ m, m ≤ e.plan.length ∧ r.bytes = planPrefix e.plan m ∧
        (r.err = none → m = e.plan.length)) ∨
    AuthSc.Break P spk H :=
  AuthSc.authentic_or_break P hP s spk hs hhl H hplan hone items tail

/-- **Attribution.** Whenever a signcryption header is accepted: the payload key
    came out of one of the header's recipient entries, opened under a key derived
    from one of the receiver's own box secret keys (with matching identifier) or
    a symmetric key its resolver supplied for that entry; the sender the receiver
    reports (`st.sender`, under which every packet's signature must verify —
    `C04_accept_binds`) is the keyring's answer for the content of the sender
    secretbox under that payload key, and "anonymous" is reported exactly when
    that content is all zero. -/
theorem C04_attribution (P : Prims) (kr : Keyring) (res : Signcrypt.Resolver) (hh : Bytes)
    (h : EncHeader) (log : List KeyCall) (st : Signcrypt.State)
    (hok : Signcrypt.processHeader P kr res hh h = (log, .ok st)) :
    Signcrypt.validate h = .ok () ∧ st.headerHash = hh ∧ st.payloadKey.length = 32 ∧
    (∃ senderKey, P.sbOpen st.payloadKey Nonce.senderKeySecretBox h.senderSecretbox = some senderKey ∧
      (st.sender = none ↔ senderKey.all (· == 0) = true) ∧
      (∀ spk, st.sender = some spk → kr.lookupSigningPublicKey senderKey = some spk)) ∧
    ∃ eph, kr.importBoxEphemeralKey h.ephemeral = some eph ∧
      ∃ r i dk, h.receivers[i]? = some r ∧
        P.sbOpen dk (Nonce.payloadKeyBoxV2 i) r.box = some st.payloadKey ∧
        ((∃ sk, sk ∈ kr.getAllBoxSecretKeys ∧ dk = Signcrypt.derivedKeyFromBoxKeys P eph sk ∧
            Signcrypt.keyIdentifier P dk i = Decrypt.kidOf r) ∨
         (∃ f keys k, res = some f ∧ f (h.receivers.map Decrypt.kidOf) = .ok keys ∧
            keys[i]? = some (some k) ∧ dk = Signcrypt.symDerivedKey P eph k)) :=
  signcrypt_attribution P kr res hh h log st hok

example : Toy.prims.Lawful := Toy.lawful

end Saltpack.Props.C04
