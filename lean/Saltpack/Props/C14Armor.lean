/-
  Property C14 — I/O faults are reported, never swallowed, "so Close never
  reports success for a message that was not completely written": the BARE
  armor encoder stream (`NewArmor62EncoderStream`, public API; armor.go
  `armorEncoderStream.Write` / `spaceAndOutputBuffer` / `Close` after fix
  5ad1caa, defect D13) as the per-call machine `Sender.FArm`
  (Model/SenderStream.lean) over the scripted writer `Wr`, whose k-th `Write`
  fails as `sink` says.  Checked call by call, with the caller carrying on after
  errors, against the real `NewArmor62EncoderStream` by the correspondence
  stream `sender.fault.armorbare` (harness/cmd/corr/ext_B_armor.go).
  Statements only; proofs in Proofs/ArmorWriterFaults.lean, Proofs/SenderStreamArmor.lean.

  Every theorem holds for EVERY payload, every split into `Write`s (empty ones
  included), every fault script, and whatever the individual calls returned —
  `FArm.calls` runs all the calls regardless (a retrying caller).
-/
import Saltpack.Proofs.ArmorWriterFaults

namespace Saltpack.Props.C14
open Saltpack Saltpack.Sender Saltpack.Proofs Saltpack.Proofs.SenderP

/-! ## sticky -/

/-- **sticky**: a call during which an underlying write failed leaves the stream
    failed (`s.err` set); a failed stream refuses every later call — any sequence
    of `Write`s and `Close`s returns `(0, error)` each — and nothing changes any
    more: not the writer, not the buffer, not the encoder -/
theorem C14_armor_stream_sticky (a : FArm) (b : Bytes) :
    ((a.write b).2.w.faults ≠ a.w.faults → (a.write b).2.failed = true) ∧
    (a.close.2.w.faults ≠ a.w.faults → a.close.2.failed = true) ∧
    (a.failed = true → ∀ ops : List (Option Bytes), FArm.calls a ops = (ops.map (fun _ => (0, false)), a)) :=
  ⟨(farm_fault_sets_flag a b).1, (farm_fault_sets_flag a b).2, fun h ops => farm_calls_failed ops a h⟩

/-- …along whole runs: constructor, then ANY calls `ops1` (whatever they
    returned); if by then an underlying write has failed, every later call of
    `ops2` returns an error and nothing more reaches the writer -/
theorem C14_armor_stream_sticky_run (par : Armor.Params) (hdr ftr : Bytes) (sink : Stream.Sink)
    (ops1 ops2 : List (Option Bytes)) :
    let i := FArm.init par hdr ftr ({ sink := sink } : Wr)
    let a := (FArm.calls i.2 ops1).2
    i.1 = true → a.w.faults ≠ 0 →
      FArm.calls a ops2 = (ops2.map (fun _ => (0, false)), a) ∧ (FArm.calls a ops2).2.w.bytes = a.w.bytes := by
  intro i a hi hne
  have h0 := (farm_init_sim par hdr ftr sink hi).2.2
  have hf : a.failed = true := farm_calls_fault_flag 0 ops1 i.2 (fun h => absurd h0 h) hne
  have := farm_calls_failed ops2 a hf
  exact ⟨this, by rw [this]⟩

/-- a stream that has not failed: a call ends failed iff it returns an error, and
    it returns an error iff exactly one underlying write failed in it (the
    first: the call stops there) -/
theorem C14_armor_stream_error_iff_fault (a : FArm) (b : Bytes) (he : a.EncOk) (hf : a.failed = false) :
    (a.write b).2.failed = !(a.write b).1 ∧ a.close.2.failed = !a.close.1 ∧
    (a.write b).2.w.faults = a.w.faults + (if (a.write b).1 then 0 else 1) ∧
    a.close.2.w.faults = a.w.faults + (if a.close.1 then 0 else 1) := by
  have h1 := farm_write_faults a b
  have h2 := farm_close_faults a
  rw [(farm_encOk_write a b he).1, hf] at h1
  rw [(farm_encOk_close a he).1, hf] at h2
  exact ⟨farm_write_flag a b hf, farm_close_flag a hf, by simpa using h1, by simpa using h2⟩

/-- the byte count: a refused `Write` returns 0; any other returns `len(b)` —
    also the one in which `spaceAndOutputBuffer` fails (`return n, err`) -/
theorem C14_armor_write_count (a : FArm) (b : Bytes) (he : a.EncOk) :
    (a.failed = true → a.writeN b = (0, false, a)) ∧ (a.failed = false → (a.writeN b).1 = b.length) :=
  ⟨farm_writeN_failed a b, farm_writeN_count a b he⟩

/-! ## `Close` never reports success for a message that was not completely written -/

/-- **the second clause of C14, literally**: constructor over a writer that
    fails as `sink` says, the payload `ws.flatten` split over `Write`s as `ws`
    says, the caller ignoring what the `Write`s return, then `Close`.  If `Close`
    returns success, then NO underlying write failed — not one, in no call — and
    what reached the writer is exactly the armored text of everything that was
    passed to `Write`. -/
theorem C14_armor_close_ok_means_all_written (par : Armor.Params) (he : par.enc.WF) (hw : 0 < par.bytesPerWord)
    (hdr ftr : Bytes) (sink : Stream.Sink) (ws : List Bytes) :
    let i := FArm.init par hdr ftr ({ sink := sink } : Wr)
    let c := (FArm.calls i.2 (ws.map some)).2.close
    i.1 = true → c.1 = true → c.2.w.faults = 0 ∧ c.2.w.bytes = Armor.sealText par hdr ftr ws.flatten := by
  intro i c hi hc
  have h := (farm_run_close par he hw hdr ftr sink ws hi).1
  rw [← farm_calls_writes] at h
  exact h hc

/-- …for the shipped parameters: `NewArmor62EncoderStream(w, typ, brand)` -/
theorem C14_armor62_close_ok_means_all_written (typ : Int) (brand : Bytes) (sink : Stream.Sink) (ws : List Bytes) :
    let i := FArm.init62 typ brand ({ sink := sink } : Wr)
    let c := (FArm.calls i.2 (ws.map some)).2.close
    i.1 = true → c.1 = true → c.2.w.faults = 0 ∧ c.2.w.bytes = Armor.seal62 typ brand ws.flatten :=
  C14_armor_close_ok_means_all_written Armor.params62 (Basex.Enc.wf_of_check _ (by decide)) (by decide) _ _ sink ws

/-- **on failure: a prefix, never a text with a word or a separator missing in
    the middle** — whatever failed and whatever the calls returned, after the
    `Write`s and after `Close` the writer holds a prefix of the complete armored
    text of everything passed to `Write` -/
theorem C14_armor_failure_prefix (par : Armor.Params) (he : par.enc.WF) (hw : 0 < par.bytesPerWord)
    (hdr ftr : Bytes) (sink : Stream.Sink) (ws : List Bytes) :
    let i := FArm.init par hdr ftr ({ sink := sink } : Wr)
    let r := (FArm.calls i.2 (ws.map some)).2
    i.1 = true →
      r.w.bytes <+: Armor.sealText par hdr ftr ws.flatten ∧
      r.close.2.w.bytes <+: Armor.sealText par hdr ftr ws.flatten := by
  intro i r hi
  have h1 := farm_run_prefix par he hw hdr ftr sink ws hi
  have h2 := (farm_run_close par he hw hdr ftr sink ws hi).2
  rw [← farm_calls_writes] at h1 h2
  exact ⟨h1, h2⟩

theorem C14_armor62_failure_prefix (typ : Int) (brand : Bytes) (sink : Stream.Sink) (ws : List Bytes) :
    let i := FArm.init62 typ brand ({ sink := sink } : Wr)
    let r := (FArm.calls i.2 (ws.map some)).2
    i.1 = true →
      r.w.bytes <+: Armor.seal62 typ brand ws.flatten ∧ r.close.2.w.bytes <+: Armor.seal62 typ brand ws.flatten :=
  C14_armor_failure_prefix Armor.params62 (Basex.Enc.wf_of_check _ (by decide)) (by decide) _ _ sink ws

/-! ## non-vacuity (toy parameters `toyArm`: words of 2 characters, lines of 2 words, base62;
     header "H", footer "F"; kernel-evaluated) -/

/-- constructor, calls, what the calls returned, what reached the writer, how many underlying writes failed -/
def bareRun (par : Armor.Params) (hdr ftr : Bytes) (sink : Stream.Sink) (ops : List (Option Bytes)) :
    Bool × List (Nat × Bool) × Bytes × Nat :=
  let i := FArm.init par hdr ftr ({ sink := sink } : Wr)
  let r := FArm.calls i.2 ops
  (i.1, r.1, r.2.w.bytes, r.2.w.faults)

-- no fault: the hypotheses of `C14_armor_close_ok_means_all_written` are met (constructor and Close succeed) …
example : bareRun toyArm [72] [70] [] [some [1], some [], some [2, 3], none] =
    (true, [(1, true), (0, true), (2, true), (0, true)], Armor.sealText toyArm [72] [70] [1, 2, 3], 0) := by decide
-- … = "H. 00 HB\nL. F.\n"
example : Armor.sealText toyArm [72] [70] [1, 2, 3] = [72, 46, 32, 48, 48, 32, 72, 66, 10, 76, 46, 32, 70, 46, 10] := by
  decide
/-- 32 bytes = one BaseX block of base62: the encoder hands 43 characters to the buffer, 21 words go out in the `Write` -/
def pl32 : Bytes := List.replicate 32 7

-- ONE TRANSIENT fault (the 3rd underlying write, the separator after the first word, fails; every
-- later write would succeed): the Write in which it happens returns (32, error); the caller carries
-- on: the next Write returns (0, error), Close returns an error (before fix 5ad1caa it returned
-- success, for a text without that separator: the excluded behaviour), a second Close too; nothing
-- more is written: "H. " and the first word
example : bareRun toyArm [72] [70] [false, false, true] [some pl32, some [4], none, none] =
    (true, [(32, false), (0, false), (0, false), (0, false)],
     (Armor.sealText toyArm [72] [70] (pl32 ++ [4])).take 5, 1) := by decide
-- a sticky failure of the writer from the 2nd write on: ONE failed write only, everything else is refused above it
example : bareRun toyArm [72] [70] [false, true, true, true, true, true] [some pl32, some [4], none] =
    (true, [(32, false), (0, false), (0, false)], [72, 46, 32], 1) := by decide
-- a Write that would only buffer (no underlying write) is refused after the fault as well
example : (bareRun toyArm [72] [70] [false, true] [some pl32, some []]).2.1 = [(32, false), (0, false)] := by decide
-- small payloads stay in the encoder until Close; a fault in Close (the 2nd write: the last, only word):
-- Close returns an error, a second Close is refused, a prefix is at the writer
example : bareRun toyArm [72] [70] [false, true] [some [1, 2, 3], some [4], none, none] =
    (true, [(3, true), (1, true), (0, false), (0, false)], [72, 46, 32], 1) := by decide
-- a fault in the very last write (pad + ". F.\n"): the body is there, the footer is not, Close returns an error
example : (bareRun toyArm [72] [70] [false, false, false, false, false, false, true] [some [1, 2, 3], none]).2 =
    ([(3, true), (0, false)], (Armor.sealText toyArm [72] [70] [1, 2, 3]).take 10, 1) := by decide
-- the constructor fails: no stream
example : (bareRun toyArm [72] [70] [true] []).1 = false := by decide
-- the hypotheses of the Armor62 form are satisfiable: `params62` is well formed (used above) and a
-- run with the shipped parameters succeeds
example : (FArm.init62 0 [] ({} : Wr)).1 = true := by decide

end Saltpack.Props.C14
