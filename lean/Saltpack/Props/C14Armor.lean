/-
  Property C14 — I/O faults are reported, never swallowed, "so Close never
  reports success for a message that was not completely written": the BARE
  armor encoder stream (`NewArmor62EncoderStream`, public API; armor.go
  `armorEncoderStream.Write` / `spaceAndOutputBuffer` / `Close` after fix
  5ad1caa, defect D13) as the per-call machine `Sender.FArm`
  (Model/SenderStream.lean) over the scripted writer `Wr`, whose k-th `Write`
  fails as `sink` says.  Checked call by call, with the caller carrying on after
  errors, against the real `NewArmor62EncoderStream` by the correspondence
  stream `sender.fault.armorbare` (harness/cmd/corr/ext_B_armor.go).
  Statements only; proofs in Proofs/ArmorWriterFaults.lean, Proofs/SenderStreamArmor.lean.

  Every theorem holds for EVERY payload, every split into `Write`s (empty ones
  included), every fault script, and whatever the individual calls returned —
  `FArm.calls` runs all the calls regardless (a retrying caller).
-/
import Saltpack.Proofs.ArmorWriterFaults
import Saltpack.Proofs.ArmoredSenderWritten
import Saltpack.Proofs.SenderStreamWhole

namespace Saltpack.Props.C14
open Saltpack Saltpack.Sender Saltpack.Proofs Saltpack.Proofs.SenderP

/-! ## sticky -/

/-- **sticky**: a call during which an underlying write failed leaves the stream
    failed (`s.err` set); a failed stream refuses every later call — any sequence
    of `Write`s and `Close`s returns `(0, error)` each — and nothing changes any
    more: not the writer, not the buffer, not the encoder.  (For a SINGLE call
    the third conjunct is the first line of `Write`/`Close` unfolded — `if s.err
    != nil { return 0, s.err }`; its content is the induction over arbitrary call
    sequences, and `C14_armor_stream_sticky_run` ties `failed` to "an underlying
    write has failed" along runs from the constructor.) -/
theorem C14_armor_stream_sticky (a : FArm) (b : Bytes) :
    ((a.write b).2.w.faults ≠ a.w.faults → (a.write b).2.failed = true) ∧
    (a.close.2.w.faults ≠ a.w.faults → a.close.2.failed = true) ∧
    (a.failed = true → ∀ ops : List (Option Bytes), FArm.calls a ops = (ops.map (fun _ => (0, false)), a)) :=
  ⟨(farm_fault_sets_flag a b).1, (farm_fault_sets_flag a b).2, fun h ops => farm_calls_failed ops a h⟩

/-- …along whole runs: constructor, then ANY calls `ops1` (whatever they
    returned); if by then an underlying write has failed, every later call of
    `ops2` returns an error and nothing more reaches the writer -/
theorem C14_armor_stream_sticky_run (par : Armor.Params) (hdr ftr : Bytes) (sink : Stream.Sink) (part : List Nat)
    (ops1 ops2 : List (Option Bytes)) :
    let i := FArm.init par hdr ftr ({ sink := sink, part := part } : Wr)
    let a := (FArm.calls i.2 ops1).2
    i.1 = true → a.w.faults ≠ 0 →
      FArm.calls a ops2 = (ops2.map (fun _ => (0, false)), a) ∧ (FArm.calls a ops2).2.w.bytes = a.w.bytes := by
  intro i a hi hne
  have h0 := (farm_init_sim par hdr ftr sink part hi).2.2
  have hf : a.failed = true := farm_calls_fault_flag 0 ops1 i.2 (fun h => absurd h0 h) hne
  have := farm_calls_failed ops2 a hf
  exact ⟨this, by rw [this]⟩

/-- a stream that has not failed: a call ends failed iff it returns an error, and
    it returns an error iff exactly one underlying write failed in it (the
    first: the call stops there) -/
theorem C14_armor_stream_error_iff_fault (a : FArm) (b : Bytes) (he : a.EncOk) (hf : a.failed = false) :
    (a.write b).2.failed = !(a.write b).1 ∧ a.close.2.failed = !a.close.1 ∧
    (a.write b).2.w.faults = a.w.faults + (if (a.write b).1 then 0 else 1) ∧
    a.close.2.w.faults = a.w.faults + (if a.close.1 then 0 else 1) := by
  have h1 := farm_write_faults a b
  have h2 := farm_close_faults a
  rw [(farm_encOk_write a b he).1, hf] at h1
  rw [(farm_encOk_close a he).1, hf] at h2
  exact ⟨farm_write_flag a b hf, farm_close_flag a hf, by simpa using h1, by simpa using h2⟩

/-- the byte count: a refused `Write` returns 0 (first conjunct: the first line
    of `Write` unfolded, stated for completeness); any other returns `len(b)` —
    also the one in which `spaceAndOutputBuffer` fails (`return n, err`) -/
theorem C14_armor_write_count (a : FArm) (b : Bytes) (he : a.EncOk) :
    (a.failed = true → a.writeN b = (0, false, a)) ∧ (a.failed = false → (a.writeN b).1 = b.length) :=
  ⟨farm_writeN_failed a b, farm_writeN_count a b he⟩

/-! ## `Close` never reports success for a message that was not completely written -/

/-- **the second clause of C14, literally**: constructor over a writer that
    fails as `sink` says, the payload `ws.flatten` split over `Write`s as `ws`
    says, the caller ignoring what the `Write`s return, then `Close`.  If `Close`
    returns success, then NO underlying write failed — not one, in no call — and
    what reached the writer is exactly the armored text of everything that was
    passed to `Write`. -/
theorem C14_armor_close_ok_means_all_written (par : Armor.Params) (he : par.enc.WF) (hw : 0 < par.bytesPerWord)
    (hdr ftr : Bytes) (sink : Stream.Sink) (part : List Nat) (ws : List Bytes) :
    let i := FArm.init par hdr ftr ({ sink := sink, part := part } : Wr)
    let c := (FArm.calls i.2 (ws.map some)).2.close
    i.1 = true → c.1 = true → c.2.w.faults = 0 ∧ c.2.w.bytes = Armor.sealText par hdr ftr ws.flatten := by
  intro i c hi hc
  have h := (farm_run_close par he hw hdr ftr sink part ws hi).1
  rw [← farm_calls_writes] at h
  exact h hc

/-- …for the shipped parameters: `NewArmor62EncoderStream(w, typ, brand)` -/
theorem C14_armor62_close_ok_means_all_written (typ : Int) (brand : Bytes) (sink : Stream.Sink) (part : List Nat) (ws : List Bytes) :
    let i := FArm.init62 typ brand ({ sink := sink, part := part } : Wr)
    let c := (FArm.calls i.2 (ws.map some)).2.close
    i.1 = true → c.1 = true → c.2.w.faults = 0 ∧ c.2.w.bytes = Armor.seal62 typ brand ws.flatten :=
  C14_armor_close_ok_means_all_written Armor.params62 (Basex.Enc.wf_of_check _ (by decide)) (by decide) _ _ sink part ws

/-- **on failure: a prefix, never a text with a word or a separator missing in
    the middle** — whatever failed and whatever the calls returned, after the
    `Write`s and after `Close` the writer holds a prefix of the complete armored
    text of everything passed to `Write` -/
theorem C14_armor_failure_prefix (par : Armor.Params) (he : par.enc.WF) (hw : 0 < par.bytesPerWord)
    (hdr ftr : Bytes) (sink : Stream.Sink) (part : List Nat) (ws : List Bytes) :
    let i := FArm.init par hdr ftr ({ sink := sink, part := part } : Wr)
    let r := (FArm.calls i.2 (ws.map some)).2
    i.1 = true →
      r.w.bytes <+: Armor.sealText par hdr ftr ws.flatten ∧
      r.close.2.w.bytes <+: Armor.sealText par hdr ftr ws.flatten := by
  intro i r hi
  have h1 := farm_run_prefix par he hw hdr ftr sink part ws hi
  have h2 := (farm_run_close par he hw hdr ftr sink part ws hi).2
  rw [← farm_calls_writes] at h1 h2
  exact ⟨h1, h2⟩

theorem C14_armor62_failure_prefix (typ : Int) (brand : Bytes) (sink : Stream.Sink) (part : List Nat) (ws : List Bytes) :
    let i := FArm.init62 typ brand ({ sink := sink, part := part } : Wr)
    let r := (FArm.calls i.2 (ws.map some)).2
    i.1 = true →
      r.w.bytes <+: Armor.seal62 typ brand ws.flatten ∧ r.close.2.w.bytes <+: Armor.seal62 typ brand ws.flatten :=
  C14_armor_failure_prefix Armor.params62 (Basex.Enc.wf_of_check _ (by decide)) (by decide) _ _ sink part ws

/-! ## the armored SENDERS (`NewEncryptArmor62Stream`, `NewSignArmor62Stream`,
     `NewSigncryptArmor62SealStream`): packet stream → go-codec → armor encoder stream →
     faulting writer, `closeForwarder`.  Success means written, through both layers. -/

/-- **success means written, armored**: if the armor constructor, the packet
    stream's constructor, every `Write` and `Close` (`closeForwarder`: packet
    stream, then armor stream) reported success, then no underlying write failed
    and the writer holds exactly the Armor62 text of the all-at-once binary
    message for the concatenated plaintext -/
theorem C14_armored_success_means_written (cfg : Cfg) (hp : ∀ b, (cfg.pieces b).flatten = b) (hb : 0 < cfg.bs)
    (hif : IndexFail cfg.pkt) (v : Version) (hv : cfg.v1shape = (v == v1)) (typ : Int) (brand : Bytes)
    (sink : Stream.Sink) (part : List Nat) (headerBytes : Bytes) (ws : List Bytes) :
    let a := FArm.init62 typ brand ({ sink := sink, part := part } : Wr)
    let i := PSt.init FArm.write cfg.pieces a.2 headerBytes
    let r := PSt.writes FArm.write cfg i.2 ws
    let c := armoredClose cfg r.2
    a.1 = true → i.1 = true → (∀ x ∈ r.1, x.2 = none) → c.1 = none →
      ∃ M, oneShot cfg v headerBytes ws.flatten = .ok M ∧
        c.2.codec.w.w.bytes = Armor.seal62 typ brand M ∧ c.2.codec.w.w.faults = 0 := by
  intro a i r c ha hi hws hc
  exact armored_success cfg hp hb hif v hv Armor.params62 (Basex.Enc.wf_of_check _ (by decide)) (by decide)
    (Armor.header typ brand) (Armor.footer typ brand) sink part headerBytes ws ha hi hws hc

/-- **`closeForwarder.Close` returned nil ⇒ completely written, armored** — the
    property's second clause with NO hypothesis on what the packet stream's
    constructor and the `Write`s returned (only that the armor constructor
    returned a stream at all): the packet stream's constructor succeeded, every
    `Write` returned `(len p, nil)`, no underlying write failed and the writer
    holds exactly the Armor62 text of the all-at-once binary message -/
theorem C14_armored_close_ok_means_written (cfg : Cfg) (hp : ∀ b, (cfg.pieces b).flatten = b) (hb : 0 < cfg.bs)
    (hif : IndexFail cfg.pkt) (v : Version) (hv : cfg.v1shape = (v == v1)) (typ : Int) (brand : Bytes)
    (sink : Stream.Sink) (part : List Nat) (headerBytes : Bytes) (ws : List Bytes) :
    let a := FArm.init62 typ brand ({ sink := sink, part := part } : Wr)
    let i := PSt.init FArm.write cfg.pieces a.2 headerBytes
    let r := PSt.writes FArm.write cfg i.2 ws
    let c := armoredClose cfg r.2
    a.1 = true → c.1 = none →
      i.1 = true ∧ (∀ x ∈ r.1, x.2 = none) ∧
      ∃ M, oneShot cfg v headerBytes ws.flatten = .ok M ∧
        c.2.codec.w.w.bytes = Armor.seal62 typ brand M ∧ c.2.codec.w.w.faults = 0 := by
  intro a i r c ha hc
  obtain ⟨hi, hws⟩ := armored_close_ok_all_ok cfg hp hb hif a.2 headerBytes ws hc
  exact ⟨hi, hws, C14_armored_success_means_written cfg hp hb hif v hv typ brand sink part headerBytes ws ha hi hws hc⟩

/-- `NewEncryptArmor62Stream` + `Write`* + `Close`: every call reported success ⇒
    the writer holds `Armor.seal62 typ brand` of `Encrypt.sealWith` of the
    concatenated plaintext -/
theorem C14_encrypt_armored_success_means_written (P : Prims) (bs : Nat) (hb : 0 < bs) (pieces : Bytes → List Bytes)
    (hp : ∀ b, (pieces b).flatten = b) (v : Version) (sender : Option Bytes) (rs : List Encrypt.Recipient)
    (eph pk : Bytes) (hbytes : Bytes) (cfg : Cfg) (hs : encryptSetup P bs pieces v sender rs eph pk = .ok (hbytes, cfg))
    (typ : Int) (brand : Bytes) (sink : Stream.Sink) (part : List Nat) (ws : List Bytes) :
    let a := FArm.init62 typ brand ({ sink := sink, part := part } : Wr)
    let i := PSt.init FArm.write cfg.pieces a.2 hbytes
    let r := PSt.writes FArm.write cfg i.2 ws
    let c := armoredClose cfg r.2
    a.1 = true → i.1 = true → (∀ x ∈ r.1, x.2 = none) → c.1 = none →
      ∃ M, Encrypt.sealWith P bs v sender rs eph pk ws.flatten = .ok M ∧
        c.2.codec.w.w.bytes = Armor.seal62 typ brand M := by
  intro a i r c ha hi hws hc
  have hcfg := encryptSetup_cfg P bs pieces v sender rs eph pk hbytes cfg hs
  obtain ⟨M, hM, ho, _⟩ := C14_armored_success_means_written cfg (by rw [hcfg.2.1]; exact hp) (by rw [hcfg.1]; exact hb)
    hcfg.2.2.2 v hcfg.2.2.1 typ brand sink part hbytes ws ha hi hws hc
  exact ⟨M, (sealWith_iff_oneShot P bs pieces v sender rs eph pk ws.flatten M).2 ⟨hbytes, cfg, hs, hM⟩, ho⟩

/-- `NewSignArmor62Stream` likewise: `Sign.attachedWith` -/
theorem C14_sign_armored_success_means_written (P : Prims) (bs : Nat) (hb : 0 < bs) (pieces : Bytes → List Bytes)
    (hp : ∀ b, (pieces b).flatten = b) (v : Version) (signer nonce : Bytes) (hbytes : Bytes) (cfg : Cfg)
    (hs : signSetup P bs pieces v signer nonce = .ok (hbytes, cfg))
    (typ : Int) (brand : Bytes) (sink : Stream.Sink) (part : List Nat) (ws : List Bytes) :
    let a := FArm.init62 typ brand ({ sink := sink, part := part } : Wr)
    let i := PSt.init FArm.write cfg.pieces a.2 hbytes
    let r := PSt.writes FArm.write cfg i.2 ws
    let c := armoredClose cfg r.2
    a.1 = true → i.1 = true → (∀ x ∈ r.1, x.2 = none) → c.1 = none →
      ∃ M, Sign.attachedWith P bs v signer nonce ws.flatten = .ok M ∧
        c.2.codec.w.w.bytes = Armor.seal62 typ brand M := by
  intro a i r c ha hi hws hc
  have hcfg := signSetup_cfg P bs pieces v signer nonce hbytes cfg hs
  obtain ⟨M, hM, ho, _⟩ := C14_armored_success_means_written cfg (by rw [hcfg.2.1]; exact hp) (by rw [hcfg.1]; exact hb)
    hcfg.2.2.2 v hcfg.2.2.1 typ brand sink part hbytes ws ha hi hws hc
  exact ⟨M, (attachedWith_iff_oneShot P bs pieces v signer nonce ws.flatten M).2 ⟨hbytes, cfg, hs, hM⟩, ho⟩

/-- `NewSigncryptArmor62SealStream` likewise: `Signcrypt.sealWith` -/
theorem C14_signcrypt_armored_success_means_written (P : Prims) (bs : Nat) (hb : 0 < bs) (pieces : Bytes → List Bytes)
    (hp : ∀ b, (pieces b).flatten = b) (sender : Option Bytes) (rs : List Signcrypt.Recipient) (eph pk : Bytes)
    (hbytes : Bytes) (cfg : Cfg) (hs : signcryptSetup P bs pieces sender rs eph pk = .ok (hbytes, cfg))
    (typ : Int) (brand : Bytes) (sink : Stream.Sink) (part : List Nat) (ws : List Bytes) :
    let a := FArm.init62 typ brand ({ sink := sink, part := part } : Wr)
    let i := PSt.init FArm.write cfg.pieces a.2 hbytes
    let r := PSt.writes FArm.write cfg i.2 ws
    let c := armoredClose cfg r.2
    a.1 = true → i.1 = true → (∀ x ∈ r.1, x.2 = none) → c.1 = none →
      ∃ M, Signcrypt.sealWith P bs sender rs eph pk ws.flatten = .ok M ∧
        c.2.codec.w.w.bytes = Armor.seal62 typ brand M := by
  intro a i r c ha hi hws hc
  have hcfg := signcryptSetup_cfg P bs pieces sender rs eph pk hbytes cfg hs
  obtain ⟨M, hM, ho, _⟩ := C14_armored_success_means_written cfg (by rw [hcfg.2.1]; exact hp) (by rw [hcfg.1]; exact hb)
    hcfg.2.2.2 v2 hcfg.2.2.1 typ brand sink part hbytes ws ha hi hws hc
  exact ⟨M, (scSealWith_iff_oneShot P bs pieces sender rs eph pk ws.flatten M).2 ⟨hbytes, cfg, hs, hM⟩, ho⟩

/-- the three armored packet senders, `Close` alone: `NewEncryptArmor62Stream` /
    `NewSignArmor62Stream` / `NewSigncryptArmor62SealStream` + `Write`* + `Close`
    = nil ⇒ the writer holds `Armor.seal62 typ brand` of `Encrypt.sealWith` /
    `Sign.attachedWith` / `Signcrypt.sealWith` of the concatenated plaintext -/
theorem C14_armored_senders_close_ok_means_written (P : Prims) (bs : Nat) (hb : 0 < bs) (pieces : Bytes → List Bytes)
    (hp : ∀ b, (pieces b).flatten = b) (typ : Int) (brand : Bytes) (sink : Stream.Sink) (part : List Nat) (ws : List Bytes)
    (hbytes : Bytes) (cfg : Cfg)
    (ha : (FArm.init62 typ brand ({ sink := sink, part := part } : Wr)).1 = true)
    (hc : (armoredClose cfg (PSt.writes FArm.write cfg
      (PSt.init FArm.write cfg.pieces (FArm.init62 typ brand ({ sink := sink, part := part } : Wr)).2 hbytes).2 ws).2).1 = none) :
    let out := (armoredClose cfg (PSt.writes FArm.write cfg
      (PSt.init FArm.write cfg.pieces (FArm.init62 typ brand ({ sink := sink, part := part } : Wr)).2 hbytes).2 ws).2).2.codec.w.w.bytes
    (∀ v sender rs eph pk, encryptSetup P bs pieces v sender rs eph pk = .ok (hbytes, cfg) →
      ∃ M, Encrypt.sealWith P bs v sender rs eph pk ws.flatten = .ok M ∧ out = Armor.seal62 typ brand M) ∧
    (∀ v signer nonce, signSetup P bs pieces v signer nonce = .ok (hbytes, cfg) →
      ∃ M, Sign.attachedWith P bs v signer nonce ws.flatten = .ok M ∧ out = Armor.seal62 typ brand M) ∧
    (∀ sender rs eph pk, signcryptSetup P bs pieces sender rs eph pk = .ok (hbytes, cfg) →
      ∃ M, Signcrypt.sealWith P bs sender rs eph pk ws.flatten = .ok M ∧ out = Armor.seal62 typ brand M) := by
  intro out
  refine ⟨fun v sender rs eph pk hs => ?_, fun v signer nonce hs => ?_, fun sender rs eph pk hs => ?_⟩
  · have hcfg := encryptSetup_cfg P bs pieces v sender rs eph pk hbytes cfg hs
    obtain ⟨hi, hws, _⟩ := C14_armored_close_ok_means_written cfg (by rw [hcfg.2.1]; exact hp) (by rw [hcfg.1]; exact hb)
      hcfg.2.2.2 v hcfg.2.2.1 typ brand sink part hbytes ws ha hc
    exact C14_encrypt_armored_success_means_written P bs hb pieces hp v sender rs eph pk hbytes cfg hs typ brand sink part ws
      ha hi hws hc
  · have hcfg := signSetup_cfg P bs pieces v signer nonce hbytes cfg hs
    obtain ⟨hi, hws, _⟩ := C14_armored_close_ok_means_written cfg (by rw [hcfg.2.1]; exact hp) (by rw [hcfg.1]; exact hb)
      hcfg.2.2.2 v hcfg.2.2.1 typ brand sink part hbytes ws ha hc
    exact C14_sign_armored_success_means_written P bs hb pieces hp v signer nonce hbytes cfg hs typ brand sink part ws
      ha hi hws hc
  · have hcfg := signcryptSetup_cfg P bs pieces sender rs eph pk hbytes cfg hs
    obtain ⟨hi, hws, _⟩ := C14_armored_close_ok_means_written cfg (by rw [hcfg.2.1]; exact hp) (by rw [hcfg.1]; exact hb)
      hcfg.2.2.2 v2 hcfg.2.2.1 typ brand sink part hbytes ws ha hc
    exact C14_signcrypt_armored_success_means_written P bs hb pieces hp sender rs eph pk hbytes cfg hs typ brand sink part ws
      ha hi hws hc

/-! ## non-vacuity (toy parameters `toyArm`: words of 2 characters, lines of 2 words, base62;
     header "H", footer "F"; kernel-evaluated) -/

/-- constructor, calls, what the calls returned, what reached the writer, how many underlying writes failed -/
def bareRun (par : Armor.Params) (hdr ftr : Bytes) (sink : Stream.Sink) (ops : List (Option Bytes)) :
    Bool × List (Nat × Bool) × Bytes × Nat :=
  let i := FArm.init par hdr ftr ({ sink := sink } : Wr)
  let r := FArm.calls i.2 ops
  (i.1, r.1, r.2.w.bytes, r.2.w.faults)

-- no fault: the hypotheses of `C14_armor_close_ok_means_all_written` are met (constructor and Close succeed) …
example : bareRun toyArm [72] [70] [] [some [1], some [], some [2, 3], none] =
    (true, [(1, true), (0, true), (2, true), (0, true)], Armor.sealText toyArm [72] [70] [1, 2, 3], 0) := by decide
-- … = "H. 00 HB\nL. F.\n"
example : Armor.sealText toyArm [72] [70] [1, 2, 3] = [72, 46, 32, 48, 48, 32, 72, 66, 10, 76, 46, 32, 70, 46, 10] := by
  decide
/-- 32 bytes = one BaseX block of base62: the encoder hands 43 characters to the buffer, 21 words go out in the `Write` -/
def pl32 : Bytes := List.replicate 32 7

-- ONE TRANSIENT fault (the 3rd underlying write, the separator after the first word, fails; every
-- later write would succeed): the Write in which it happens returns (32, error); the caller carries
-- on: the next Write returns (0, error), Close returns an error (before fix 5ad1caa it returned
-- success, for a text without that separator: the excluded behaviour), a second Close too; nothing
-- more is written: "H. " and the first word
example : bareRun toyArm [72] [70] [false, false, true] [some pl32, some [4], none, none] =
    (true, [(32, false), (0, false), (0, false), (0, false)],
     (Armor.sealText toyArm [72] [70] (pl32 ++ [4])).take 5, 1) := by decide
-- a sticky failure of the writer from the 2nd write on: ONE failed write only, everything else is refused above it
example : bareRun toyArm [72] [70] [false, true, true, true, true, true] [some pl32, some [4], none] =
    (true, [(32, false), (0, false), (0, false)], [72, 46, 32], 1) := by decide
-- a Write that would only buffer (no underlying write) is refused after the fault as well
example : (bareRun toyArm [72] [70] [false, true] [some pl32, some []]).2.1 = [(32, false), (0, false)] := by decide
-- small payloads stay in the encoder until Close; a fault in Close (the 2nd write: the last, only word):
-- Close returns an error, a second Close is refused, a prefix is at the writer
example : bareRun toyArm [72] [70] [false, true] [some [1, 2, 3], some [4], none, none] =
    (true, [(3, true), (1, true), (0, false), (0, false)], [72, 46, 32], 1) := by decide
-- a fault in the very last write (pad + ". F.\n"): the body is there, the footer is not, Close returns an error
example : (bareRun toyArm [72] [70] [false, false, false, false, false, false, true] [some [1, 2, 3], none]).2 =
    ([(3, true), (0, false)], (Armor.sealText toyArm [72] [70] [1, 2, 3]).take 10, 1) := by decide
-- the constructor fails: no stream
example : (bareRun toyArm [72] [70] [true] []).1 = false := by decide
-- the hypotheses of the Armor62 form are satisfiable: `params62` is well formed (used above) and a
-- run with the shipped parameters succeeds
example : (FArm.init62 0 [] ({} : Wr)).1 = true := by decide

/-! ### …of the armored senders (toy packet stream: blocks of 2 bytes, packet = number ‖ final flag ‖ chunk,
     one armor-stream `Write` per byte; the shipped Armor62 parameters) -/

def toyPCfg : Cfg :=
  { bs := 2, v1shape := false, hasErr := true,
    pkt := fun i c f => .ok ([UInt8.ofNat i, if f then 1 else 0] ++ c), pieces := fun b => b.map ([·]) }

def armoredRun (sink : Stream.Sink) (ws : List Bytes) : Bool × Bool × List (Nat × Option Err) × Option Err × Bytes :=
  let a := FArm.init62 0 [] ({ sink := sink } : Wr)
  let i := PSt.init FArm.write toyPCfg.pieces a.2 [7]
  let r := PSt.writes FArm.write toyPCfg i.2 ws
  let c := armoredClose toyPCfg r.2
  (a.1, i.1, r.1, c.1, c.2.codec.w.w.bytes)

-- no fault: the hypotheses of `C14_armored_success_means_written` are met, the writer holds the
-- Armor62 text of the binary message (header packet c4 01 07, two non-final packets, the final one)
example : armoredRun [] [[1, 2, 3], [4, 5]] =
    (true, true, [(3, none), (2, none)], none,
     Armor.seal62 0 [] [0xc4, 1, 7, 0, 0, 1, 2, 1, 0, 3, 4, 2, 1, 5]) := by decide
-- the 2nd underlying write (the only word, written by the armor stream's Close) fails once: Close reports it
example : (armoredRun [false, true] [[1, 2, 3], [4, 5]]).2.2.2.1 = some .ioError := by decide

end Saltpack.Props.C14
