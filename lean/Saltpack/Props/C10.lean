/-
  Property C10 — BaseX is exact base conversion, and decoding accepts only
  canonical blocks.

  Statements only; proofs refer to Saltpack/Proofs/Basex*.lean.
  Everything is stated for an arbitrary well-formed encoding `e` (`Enc.WF`),
  and `Enc.WF` is established for the four *generated* shipped encodings by
  kernel evaluation at the end (so the float-computed length tables of the
  running code are checked against exact integer arithmetic on every run).
-/
import Saltpack.Proofs.BasexWF
import Saltpack.Proofs.Basex
import Saltpack.Gen.BasexTables

namespace Saltpack.Props.C10
open Saltpack Saltpack.Basex

/-! ## 1. Encoding is the block-wise big-endian positional base conversion -/

/-- A block of `n ≤ blockLen` bytes becomes exactly `EncodedLen n` characters… -/
theorem C10_encodeBlock_length (e : Enc) (bs : Bytes) :
    (encodeBlock e bs).length = e.encLen bs.length :=
  Proofs.encodeBlock_length e bs

/-- …whose digits, read big-endian in base `base`, are the big-endian value of
    the bytes (so no high digit is lost: leading zeros kept, nothing truncated). -/
theorem C10_encodeBlock_value (e : Enc) (he : e.WF) (bs : Bytes) (h : bs.length ≤ e.blockLen) :
    natOfDigits e.base (encodeBlockDigits e bs) = natOfBytes bs ∧
    (∀ d ∈ encodeBlockDigits e bs, d < e.base) :=
  Proofs.encodeBlock_value e he bs h

/-- Output length of the multi-block encoder is `EncodedLen`. -/
theorem C10_encode_length (e : Enc) (he : e.WF) (bs : Bytes) :
    (encode e bs).length = e.encLen bs.length :=
  Proofs.encode_length e he bs

/-- `EncodedLen` on one block is the least number of digits that can hold every
    value of that many bytes; `DecodedLen` the greatest number of bytes whose
    every value fits the digits (exact integer arithmetic, from `WF`). -/
theorem C10_len_helpers_exact (e : Enc) (he : e.WF) :
    (∀ r, r ≤ e.blockLen → 256 ^ r ≤ e.base ^ (e.encLen r) ∧
        (e.encLen r = 0 ∨ e.base ^ (e.encLen r - 1) < 256 ^ r)) ∧
    (∀ c, c ≤ e.charBlockLen → 256 ^ (e.decLen c) ≤ e.base ^ c ∧ e.base ^ c < 256 ^ (e.decLen c + 1)) :=
  Proofs.len_helpers_exact e he

/-! ## 2. Round trip -/

/-- Decoding the encoding returns the original bytes — every byte string, any
    number of blocks, strict or skipping variant. -/
theorem C10_roundtrip (e : Enc) (he : e.WF) (bs : Bytes) :
    decode e (encode e bs) = .ok bs :=
  Proofs.decode_encode e he bs

/-! ## 3. Canonicity: strict decoding accepts only the unique encoding -/

/-- In strict mode, whatever decodes successfully is *the* encoding of the
    result.  Hence foreign characters, non-minimal block lengths and blocks
    whose value overflows the decoded length are all rejected. -/
theorem C10_canonical (e : Enc) (he : e.WF) (hs : e.skip = []) (s : List UInt8) (bs : Bytes) :
    decode e s = .ok bs → encode e bs = s :=
  Proofs.decode_canonical e he hs s bs

/-- Decoding is injective on accepted strings (strict mode). -/
theorem C10_injective (e : Enc) (he : e.WF) (hs : e.skip = []) (s₁ s₂ : List UInt8) (bs : Bytes) :
    decode e s₁ = .ok bs → decode e s₂ = .ok bs → s₁ = s₂ := by
  intro h1 h2
  rw [← C10_canonical e he hs s₁ bs h1, ← C10_canonical e he hs s₂ bs h2]

/-- the three rejection classes, each on its own -/
theorem C10_rejects_foreign (e : Enc) (he : e.WF) (hs : e.skip = []) (s : List UInt8)
    (c : UInt8) (hc : c ∈ s) (hd : e.digit? c = none) : ∃ x, decode e s = .error x :=
  Proofs.decode_rejects_foreign e he hs s c hc hd

theorem C10_rejects_nonminimal (e : Enc) (ds : List Nat) (h : e.validLen ds.length = false) :
    decodeBlockDigits e ds = .error .badLen := by
  simp [decodeBlockDigits, h]

theorem C10_rejects_overflow (e : Enc) (ds : List Nat)
    (h : 256 ^ (e.decLen ds.length) ≤ natOfDigits e.base ds) :
    decodeBlockDigits e ds = .error .badLen := by
  unfold decodeBlockDigits
  split
  · rfl
  · simp [h]

/-! ## 4. The skipping variant is the strict one on the filtered string -/

theorem C10_skipping (e : Enc) (he : e.WF) (s : List UInt8)
    (h : ∀ c ∈ s, (e.digit? c).isSome ∨ e.isSkip c = true) :
    (decode e s).toOption = (decode e.strict (filterSkip e s)).toOption :=
  Proofs.decode_skipping e he s h

/-! ## 5. The shipped encodings (generated from the running code) are well-formed -/

theorem C10_wf_base62Std : Gen.base62Std.WF := Enc.wf_of_check _ (by decide)
theorem C10_wf_base62StdStrict : Gen.base62StdStrict.WF := Enc.wf_of_check _ (by decide)
theorem C10_wf_base58Std : Gen.base58Std.WF := Enc.wf_of_check _ (by decide)
theorem C10_wf_base58StdStrict : Gen.base58StdStrict.WF := Enc.wf_of_check _ (by decide)

theorem C10_strict_is_strict : Gen.base62StdStrict.skip = [] ∧ Gen.base58StdStrict.skip = [] := by decide

/-- the strict twins really are the same encodings without skip characters -/
theorem C10_strict_twins :
    Gen.base62Std.strict = Gen.base62StdStrict ∧ Gen.base58Std.strict = Gen.base58StdStrict := by
  decide

/-! ## non-vacuity -/

example : decode Gen.base62StdStrict (encode Gen.base62StdStrict [0, 255, 7]) = .ok [0, 255, 7] := by decide
/-- the overflow block of defect D1 (`"48"` = 4·62+8 = 256) is rejected, its
    canonical neighbour `"01"` is accepted -/
example : decode Gen.base62StdStrict [52, 56] = .error .badLen := by decide
example : decode Gen.base62StdStrict [48, 49] = .ok [1] := by decide
/-- a one-character block is never valid -/
example : decode Gen.base62StdStrict [48] = .error .badLen := by decide

end Saltpack.Props.C10
