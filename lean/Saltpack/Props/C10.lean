/-
  Property C10 — BaseX is exact base conversion, and decoding accepts only
  canonical blocks.

  Statements only; proofs refer to Saltpack/Proofs/Basex*.lean.
  Everything is stated for an arbitrary well-formed encoding `e` (`Enc.WF`),
  and `Enc.WF` is established for the four *generated* shipped encodings by
  kernel evaluation at the end (so the float-computed length tables of the
  running code are checked against exact integer arithmetic on every run).

  §6–§8 (streaming forms agree with the one-shot forms; proofs in
  Saltpack/Proofs/BasexBlocks.lean, StackBasex.lean, StreamLemmas.lean):
  §6 strict decoding of alphabet characters is compositional at every multiple
  of the character block length (`C10_decoder_append`, `C10_decoder_blocks`,
  failure case `C10_decoder_blocks_error`), and `Basex.decodePrefix` — the
  workhorse of the decoder stream (Model/Stream.lean) and of the classifier —
  is `Basex.decode` (`C10_decodePrefix_is_decode`, `C10_decodePrefix_ok_iff`,
  and on failure the good blocks before the first bad one plus that block's
  error, `C10_decodePrefix_error`); §7 the encoder stream
  (`EncState.write`/`close`) writes `Basex.encode` of the concatenated input
  for every write split (`C10_encoder_stream_is_encode`); §8 the length helpers
  are additive over whole blocks (`C10_len_helpers_multiblock`), are inverse to
  each other (`C10_decLen_encLen`), and give the lengths of `encode` and of a
  strict `decode` for any number of blocks.
-/
import Saltpack.Proofs.BasexWF
import Saltpack.Proofs.Basex
import Saltpack.Proofs.BasexBlocks
import Saltpack.Proofs.StreamLemmas
import Saltpack.Gen.BasexTables

namespace Saltpack.Props.C10
open Saltpack Saltpack.Basex

/-! ## 1. Encoding is the block-wise big-endian positional base conversion -/

/-- A block of `n ≤ blockLen` bytes becomes exactly `EncodedLen n` characters… -/
theorem C10_encodeBlock_length (e : Enc) (bs : Bytes) :
    (encodeBlock e bs).length = e.encLen bs.length :=
  Proofs.encodeBlock_length e bs

/-- …whose digits, read big-endian in base `base`, are the big-endian value of
    the bytes (so no high digit is lost: leading zeros kept, nothing truncated). -/
theorem C10_encodeBlock_value (e : Enc) (he : e.WF) (bs : Bytes) (h : bs.length ≤ e.blockLen) :
    natOfDigits e.base (encodeBlockDigits e bs) = natOfBytes bs ∧
    (∀ d ∈ encodeBlockDigits e bs, d < e.base) :=
  Proofs.encodeBlock_value e he bs h

/-- Output length of the multi-block encoder is `EncodedLen`. -/
theorem C10_encode_length (e : Enc) (he : e.WF) (bs : Bytes) :
    (encode e bs).length = e.encLen bs.length :=
  Proofs.encode_length e he bs

/-- `EncodedLen` on one block is the least number of digits that can hold every
    value of that many bytes; `DecodedLen` the greatest number of bytes whose
    every value fits the digits (exact integer arithmetic, from `WF`). -/
theorem C10_len_helpers_exact (e : Enc) (he : e.WF) :
    (∀ r, r ≤ e.blockLen → 256 ^ r ≤ e.base ^ (e.encLen r) ∧
        (e.encLen r = 0 ∨ e.base ^ (e.encLen r - 1) < 256 ^ r)) ∧
    (∀ c, c ≤ e.charBlockLen → 256 ^ (e.decLen c) ≤ e.base ^ c ∧ e.base ^ c < 256 ^ (e.decLen c + 1)) :=
  Proofs.len_helpers_exact e he

/-! ## 2. Round trip -/

/-- Decoding the encoding returns the original bytes — every byte string, any
    number of blocks, strict or skipping variant. -/
theorem C10_roundtrip (e : Enc) (he : e.WF) (bs : Bytes) :
    decode e (encode e bs) = .ok bs :=
  Proofs.decode_encode e he bs

/-! ## 3. Canonicity: strict decoding accepts only the unique encoding -/

/-- In strict mode, whatever decodes successfully is *the* encoding of the
    result.  Hence foreign characters, non-minimal block lengths and blocks
    whose value overflows the decoded length are all rejected. -/
theorem C10_canonical (e : Enc) (he : e.WF) (hs : e.skip = []) (s : List UInt8) (bs : Bytes) :
    decode e s = .ok bs → encode e bs = s :=
  Proofs.decode_canonical e he hs s bs

/-- Decoding is injective on accepted strings (strict mode). -/
theorem C10_injective (e : Enc) (he : e.WF) (hs : e.skip = []) (s₁ s₂ : List UInt8) (bs : Bytes) :
    decode e s₁ = .ok bs → decode e s₂ = .ok bs → s₁ = s₂ := by
  intro h1 h2
  rw [← C10_canonical e he hs s₁ bs h1, ← C10_canonical e he hs s₂ bs h2]

/-- the three rejection classes, each on its own -/
theorem C10_rejects_foreign (e : Enc) (he : e.WF) (hs : e.skip = []) (s : List UInt8)
    (c : UInt8) (hc : c ∈ s) (hd : e.digit? c = none) : ∃ x, decode e s = .error x :=
  Proofs.decode_rejects_foreign e he hs s c hc hd

theorem C10_rejects_nonminimal (e : Enc) (ds : List Nat) (h : e.validLen ds.length = false) :
    decodeBlockDigits e ds = .error .badLen := by
  simp [decodeBlockDigits, h]

theorem C10_rejects_overflow (e : Enc) (ds : List Nat)
    (h : 256 ^ (e.decLen ds.length) ≤ natOfDigits e.base ds) :
    decodeBlockDigits e ds = .error .badLen := by
  unfold decodeBlockDigits
  split
  · rfl
  · simp [h]

/-! ## 4. The skipping variant is the strict one on the filtered string -/

theorem C10_skipping (e : Enc) (he : e.WF) (s : List UInt8)
    (h : ∀ c ∈ s, (e.digit? c).isSome ∨ e.isSkip c = true) :
    (decode e s).toOption = (decode e.strict (filterSkip e s)).toOption :=
  Proofs.decode_skipping e he s h

/-! ## 5. The shipped encodings (generated from the running code) are well-formed -/

theorem C10_wf_base62Std : Gen.base62Std.WF := Enc.wf_of_check _ (by decide)
theorem C10_wf_base62StdStrict : Gen.base62StdStrict.WF := Enc.wf_of_check _ (by decide)
theorem C10_wf_base58Std : Gen.base58Std.WF := Enc.wf_of_check _ (by decide)
theorem C10_wf_base58StdStrict : Gen.base58StdStrict.WF := Enc.wf_of_check _ (by decide)

theorem C10_strict_is_strict : Gen.base62StdStrict.skip = [] ∧ Gen.base58StdStrict.skip = [] := by decide

/-- the strict twins really are the same encodings without skip characters -/
theorem C10_strict_twins :
    Gen.base62Std.strict = Gen.base62StdStrict ∧ Gen.base58Std.strict = Gen.base58StdStrict := by
  decide

/-! ## 6. Strict decoding is block-wise: any split at multiples of the character
       block length; `decodePrefix` is `decode`

  All statements are about strings of alphabet characters (the decoder stream
  sits behind the filtering reader, which lets nothing else through) and about
  the strict twin `e.strict`, which is what `decodePrefix` calls; for an
  encoding without skip characters `e.strict = e` (`C10_strict_eq_self`), the
  `_noskip` corollaries spell that out.  Only `0 < e.charBlockLen` is needed
  (`Enc.WF.cblock_pos`). -/

/-- an encoding without skip characters is its own strict twin -/
theorem C10_strict_eq_self (e : Enc) (hs : e.skip = []) : e.strict = e :=
  Proofs.strict_eq_self e hs

/-- **Two pieces.**  If the first piece is a whole number of character blocks,
    decoding the concatenation is decoding both pieces and concatenating: it
    succeeds iff both do. -/
theorem C10_decoder_append (e : Enc) (hN : 0 < e.charBlockLen) (a b : List UInt8)
    (hd : ∀ c ∈ a ++ b, (e.digit? c).isSome) (ha : e.charBlockLen ∣ a.length) :
    (decode e.strict (a ++ b)).toOption =
      (decode e.strict a).toOption.bind (fun x => (decode e.strict b).toOption.map (fun y => x ++ y)) :=
  Proofs.decode_strict_append_dvd e hN a b hd ha

/-- **Any number of pieces.**  Split a string of alphabet characters anywhere at
    multiples of the character block length (every piece but the last a whole
    number of blocks — zero blocks allowed —, the last piece arbitrary): the
    one-shot decoding is the concatenation of the decodings of the pieces, and
    fails (`none`) iff the decoding of some piece fails. -/
theorem C10_decoder_blocks (e : Enc) (hN : 0 < e.charBlockLen) (blocks : List (List UInt8))
    (hd : ∀ c ∈ blocks.flatten, (e.digit? c).isSome)
    (hb : ∀ b ∈ blocks.dropLast, e.charBlockLen ∣ b.length) :
    (decode e.strict blocks.flatten).toOption =
      (blocks.mapM (fun b => (decode e.strict b).toOption)).map List.flatten :=
  Proofs.decode_strict_blocks e hN blocks hd hb

/-- the failure case of `C10_decoder_blocks` on its own -/
theorem C10_decoder_blocks_error (e : Enc) (hN : 0 < e.charBlockLen) (blocks : List (List UInt8))
    (hd : ∀ c ∈ blocks.flatten, (e.digit? c).isSome)
    (hb : ∀ b ∈ blocks.dropLast, e.charBlockLen ∣ b.length) :
    (∃ x, decode e.strict blocks.flatten = .error x) ↔ ∃ b ∈ blocks, ∃ x, decode e.strict b = .error x :=
  Proofs.decode_strict_blocks_error e hN blocks hd hb

theorem C10_decoder_blocks_noskip (e : Enc) (hN : 0 < e.charBlockLen) (hs : e.skip = [])
    (blocks : List (List UInt8))
    (hd : ∀ c ∈ blocks.flatten, (e.digit? c).isSome)
    (hb : ∀ b ∈ blocks.dropLast, e.charBlockLen ∣ b.length) :
    (decode e blocks.flatten).toOption = (blocks.mapM (fun b => (decode e b).toOption)).map List.flatten := by
  have h := C10_decoder_blocks e hN blocks hd hb
  rw [C10_strict_eq_self e hs] at h
  exact h

/-- **`decodePrefix` is `decode`** on alphabet strings (with enough fuel; the
    model calls it with `s.length + 1`): the whole decoding and no error when
    `decode` succeeds, an error when it fails. -/
theorem C10_decodePrefix_is_decode (e : Enc) (hN : 0 < e.charBlockLen) (s : List UInt8)
    (hd : ∀ c ∈ s, (e.digit? c).isSome) (fuel : Nat) (hf : s.length < fuel) :
    (∀ y, decode e.strict s = .ok y → decodePrefix e fuel s = (y, none)) ∧
    ((∃ x, decode e.strict s = .error x) → ∃ pre x, decodePrefix e fuel s = (pre, some x)) :=
  Proofs.decodePrefix_is_decode e hN s hd fuel hf

/-- …and conversely: `decodePrefix` reports no error exactly when `decode`
    succeeds, with the same bytes -/
theorem C10_decodePrefix_ok_iff (e : Enc) (hN : 0 < e.charBlockLen) (s : List UInt8)
    (hd : ∀ c ∈ s, (e.digit? c).isSome) (fuel : Nat) (hf : s.length < fuel) (y : Bytes) :
    decodePrefix e fuel s = (y, none) ↔ decode e.strict s = .ok y :=
  Proofs.decodePrefix_ok_iff e hN s hd fuel hf y

/-- the failure case in full: the bytes that come with the error are the
    decoding of the `k` whole blocks before the first failing block, and the
    error is that block's -/
theorem C10_decodePrefix_error (e : Enc) (hN : 0 < e.charBlockLen) (s : List UInt8)
    (hd : ∀ c ∈ s, (e.digit? c).isSome) (fuel : Nat) (hf : s.length < fuel) (pre : Bytes) (x : Basex.Err)
    (h : decodePrefix e fuel s = (pre, some x)) :
    ∃ k, k * e.charBlockLen < s.length ∧
      decode e.strict (s.take (k * e.charBlockLen)) = .ok pre ∧
      decode e.strict ((s.drop (k * e.charBlockLen)).take e.charBlockLen) = .error x :=
  Proofs.decodePrefix_error e hN fuel s hd hf pre x h

theorem C10_decodePrefix_is_decode_noskip (e : Enc) (hN : 0 < e.charBlockLen) (hs : e.skip = [])
    (s : List UInt8) (hd : ∀ c ∈ s, (e.digit? c).isSome) (fuel : Nat) (hf : s.length < fuel) :
    (∀ y, decode e s = .ok y → decodePrefix e fuel s = (y, none)) ∧
    ((∃ x, decode e s = .error x) → ∃ pre x, decodePrefix e fuel s = (pre, some x)) := by
  have h := C10_decodePrefix_is_decode e hN s hd fuel hf
  rw [C10_strict_eq_self e hs] at h
  exact h

/-! ## 7. The encoder stream is the one-shot encoder -/

/-- **BaseX encoder stream = one-shot encoding**: however the input is split
    over `Write` calls (empty writes included), after `Close` (which reports
    success) the concatenation of what reached the underlying writer is
    `encode` of the concatenated input.  (Same statement as
    `C13_basex_encoder_independent`.) -/
theorem C10_encoder_stream_is_encode (enc : Basex.Enc) (he : enc.WF) (ws : List Bytes) :
    let s1 := ws.foldl (fun (s : Stream.EncState) w => (s.write w).2.2) ({ enc := enc } : Stream.EncState)
    let r := s1.close
    r.1 = true ∧ r.2.written.flatten = Basex.encode enc ws.flatten :=
  Proofs.encStream_any_split enc he ws

/-! ## 8. The length helpers over several blocks -/

/-- `EncodedLen` / `DecodedLen` are additive over whole blocks: `q` byte blocks
    are `q` character blocks, plus the helper's answer on what is left (for
    `r ≤ blockLen` resp. `r ≤ charBlockLen` that answer is the exact one of
    `C10_len_helpers_exact`; the statement holds for every `r`). -/
theorem C10_len_helpers_multiblock (e : Enc) (he : e.WF) (q r : Nat) :
    e.encLen (q * e.blockLen + r) = q * e.charBlockLen + e.encLen r ∧
    e.decLen (q * e.charBlockLen + r) = q * e.blockLen + e.decLen r :=
  ⟨Proofs.encLen_add_blocks e he.block_pos q r, Proofs.decLen_add_blocks e he.cblock_pos q r⟩

/-- whole blocks go to whole blocks -/
theorem C10_len_helpers_whole_blocks (e : Enc) (he : e.WF) (q : Nat) :
    e.encLen (q * e.blockLen) = q * e.charBlockLen ∧ e.decLen (q * e.charBlockLen) = q * e.blockLen :=
  ⟨Proofs.encLen_blocks he q, Proofs.decLen_blocks he q⟩

/-- `DecodedLen (EncodedLen n) = n`, any number of blocks -/
theorem C10_decLen_encLen (e : Enc) (he : e.WF) (n : Nat) : e.decLen (e.encLen n) = n :=
  Proofs.decLen_encLen_all he n

/-- the encoder's output length, by blocks -/
theorem C10_encode_length_multiblock (e : Enc) (he : e.WF) (bs : Bytes) (q r : Nat)
    (h : bs.length = q * e.blockLen + r) :
    (encode e bs).length = q * e.charBlockLen + e.encLen r := by
  rw [C10_encode_length e he, h, (C10_len_helpers_multiblock e he q r).1]

/-- the strict decoder's output length is `DecodedLen` of the input length -/
theorem C10_decode_length (e : Enc) (he : e.WF) (hs : e.skip = []) (s : List UInt8) (bs : Bytes)
    (h : decode e s = .ok bs) : bs.length = e.decLen s.length :=
  Proofs.decode_length e he hs s bs h

/-! ## non-vacuity -/

example : decode Gen.base62StdStrict (encode Gen.base62StdStrict [0, 255, 7]) = .ok [0, 255, 7] := by decide
/-- the overflow block of defect D1 (`"48"` = 4·62+8 = 256) is rejected, its
    canonical neighbour `"01"` is accepted -/
example : decode Gen.base62StdStrict [52, 56] = .error .badLen := by decide
example : decode Gen.base62StdStrict [48, 49] = .ok [1] := by decide
/-- a one-character block is never valid -/
example : decode Gen.base62StdStrict [48] = .error .badLen := by decide

/-! ### §6–§8 -/

/-- one full block of `'0'` then the two-character block `"01"`: piecewise and
    one-shot -/
example :
    decode Gen.base62StdStrict (List.replicate 43 48 ++ [48, 49]) = .ok (List.replicate 32 0 ++ [1]) ∧
    decode Gen.base62StdStrict (List.replicate 43 48) = .ok (List.replicate 32 0) ∧
    decode Gen.base62StdStrict [48, 49] = .ok [1] := by decide
/-- the hypotheses of `C10_decoder_blocks` are satisfiable (three pieces: one
    block, no block, a final short block), and so is its failure case -/
example :
    (decode Gen.base62StdStrict.strict [List.replicate 43 48, [], [48, 49]].flatten).toOption =
      ([List.replicate 43 48, [], [48, 49]].mapM
        (fun b => (decode Gen.base62StdStrict.strict b).toOption)).map List.flatten :=
  C10_decoder_blocks Gen.base62StdStrict (by decide) _ (by decide) (by decide)
example : ∃ b ∈ [List.replicate 43 48, [52, 56]], ∃ x, decode Gen.base62StdStrict.strict b = .error x :=
  (C10_decoder_blocks_error Gen.base62StdStrict (by decide) [List.replicate 43 48, [52, 56]]
    (by decide) (by decide)).mp ⟨.badLen, by decide⟩
/-- the block-boundary hypothesis is needed: `"01"` decodes, its pieces `"0"`, `"1"` do not -/
example : decode Gen.base62StdStrict ([48] ++ [49]) = .ok [1] ∧
    decode Gen.base62StdStrict [48] = .error .badLen ∧ decode Gen.base62StdStrict [49] = .error .badLen := by
  decide
/-- `decodePrefix`: success, and failure in the second block (first block's
    bytes, second block's error) -/
example : decodePrefix Gen.base62StdStrict 46 (List.replicate 43 48 ++ [48, 49]) =
    (List.replicate 32 0 ++ [1], none) := by decide
example : decodePrefix Gen.base62StdStrict 46 (List.replicate 43 48 ++ [52, 56]) =
    (List.replicate 32 0, some .badLen) := by decide
example : ∃ k, k * Gen.base62StdStrict.charBlockLen < (List.replicate 43 48 ++ [52, 56] : List UInt8).length ∧
    decode Gen.base62StdStrict.strict ((List.replicate 43 48 ++ [52, 56] : List UInt8).take
      (k * Gen.base62StdStrict.charBlockLen)) = .ok (List.replicate 32 0) ∧
    decode Gen.base62StdStrict.strict (((List.replicate 43 48 ++ [52, 56] : List UInt8).drop
      (k * Gen.base62StdStrict.charBlockLen)).take Gen.base62StdStrict.charBlockLen) = .error .badLen :=
  C10_decodePrefix_error Gen.base62StdStrict (by decide) (List.replicate 43 48 ++ [52, 56]) (by decide)
    46 (by decide) (List.replicate 32 0) .badLen (by decide)
/-- the encoder stream over a block boundary (31 + 3 bytes, an empty write in between) -/
example :
    let ws : List Bytes := [List.replicate 31 7, [], [1, 2, 3]]
    let s1 := ws.foldl (fun (s : Stream.EncState) w => (s.write w).2.2)
      ({ enc := Gen.base62StdStrict } : Stream.EncState)
    s1.close.1 = true ∧ s1.close.2.written.length = 2 ∧
    s1.close.2.written.flatten = encode Gen.base62StdStrict (List.replicate 31 7 ++ [1, 2, 3]) := by decide
/-- lengths: 67 = 2·32 + 3 bytes ↦ 2·43 + 5 characters and back; 35 bytes ↦ 43 + 5 characters -/
example : Gen.base62StdStrict.encLen 67 = 2 * 43 + 5 ∧ Gen.base62StdStrict.decLen 91 = 2 * 32 + 3 ∧
    Gen.base62StdStrict.encLen 3 = 5 ∧ Gen.base62StdStrict.decLen 5 = 3 := by decide
example : (encode Gen.base62StdStrict (List.replicate 35 0)).length = 1 * 43 + 5 := by decide
example : Gen.base62StdStrict.strict = Gen.base62StdStrict := by decide

end Saltpack.Props.C10
