/-
  C09 (spec-valid messages are accepted) — through the model's OWN decoder
  (Model/Codec.lean = go-codec's typed decoding): what a spec-following sender
  encodes for a version pair, a signcryption packet and a V1 signature packet
  — WITH the extra trailing elements the specification reserves — is decoded
  to exactly the fields, and agrees with the typed views of Model/Packets.lean
  (so the C09 `…_extras` theorems transfer to the byte-level decoder).

  The extras must be encodable and nest at most 99 deep: go-codec refuses deeper
  ones (`C15_codec_depth_limit`), the old typed views did not know that.

  Partial: the headers, the encryption packets and the V2 signature packet are
  tied by the correspondence (`codec.list.genuine`, `.mutations`, `.confusion`),
  their theorems are not written yet (notes/ext-f.md).
-/
import Saltpack.Proofs.CodecTypes
import Saltpack.Proofs.AnyChunking

namespace Saltpack.Props.C09
open Saltpack Saltpack.Msgpack Saltpack.Codec Saltpack.Proofs Saltpack.Proofs.CodecP

/-- the version pair with extras, in any `toarray` struct that contains it -/
theorem C09_codec_version (fuel rem : Nat) (ma mi : Int) (hma : -(2 ^ 63 : Int) ≤ ma ∧ ma < (2 ^ 63 : Int))
    (hmi : -(2 ^ 63 : Int) ≤ mi ∧ mi < (2 ^ 63 : Int)) (ex : List Val) (hex : ExtrasOK ex fuel rem)
    (hlen : ex.length + 2 < 2 ^ 32) (v0 : Version) (r : Bytes) :
    decVersion fuel rem v0 (encode (.arr ([.int ma, .int mi] ++ ex)) ++ r) = .ok (⟨ma, mi⟩, r) :=
  decVersion_encode fuel rem ma mi hma hmi ex hex hlen v0 r

/-- the signcryption packet with extras, as the receiver's `mps.Read` sees it;
    it is what the typed view says -/
theorem C09_codec_signcrypt_packet (ct : Bytes) (hct : ct.length < 2 ^ 32) (f : Bool) (ex : List Val)
    (hex : TopExtras ex) (hlen : ex.length + 2 < 2 ^ 32) (r : Bytes) :
    decSigncryptBlock (encode (.arr ([.bin ct, .bool f] ++ ex)) ++ r) = .ok (⟨ct, f⟩, r) ∧
    viewSigncryptBlock (.arr ([.bin ct, .bool f] ++ ex)) = some ⟨ct, f⟩ :=
  ⟨decSigncryptBlock_encode ct hct f ex hex hlen r, viewSigncryptBlock_extras ct f ex⟩

/-- the V1 attached-signature packet with extras -/
theorem C09_codec_sig_packet_v1 (sg ch : Bytes) (hsg : sg.length < 2 ^ 32) (hch : ch.length < 2 ^ 32) (ex : List Val)
    (hex : TopExtras ex) (hlen : ex.length + 2 < 2 ^ 32) (r : Bytes) :
    decSigBlockV1 (encode (.arr ([.bin sg, .bin ch] ++ ex)) ++ r) = .ok (⟨sg, ch, false⟩, r) ∧
    viewSigBlock 1 (.arr ([.bin sg, .bin ch] ++ ex)) = some ⟨sg, ch, false⟩ :=
  ⟨decSigBlockV1_encode sg ch hsg hch ex hex hlen r, viewSigBlock_v1_extras sg ch ex⟩

/-- non-vacuity: extras that meet the hypotheses (the reference sender's `extraVals 2`) -/
example : TopExtras [.int 7, .str [120]] := by
  refine ⟨?_, by decide⟩
  intro v hv
  simp only [List.mem_cons, List.mem_nil_iff, or_false] at hv
  rcases hv with rfl | rfl
  · exact ValWF.int _ (by decide) (by decide)
  · exact ValWF.str _ (by decide)

example : decSigncryptBlock (encode (.arr ([.bin [1, 2], .bool true] ++ [.int 7, .str [120]])) ++ [9]) = .ok (⟨[1, 2], true⟩, [9]) := by
  decide

end Saltpack.Props.C09
