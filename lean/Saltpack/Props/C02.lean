/-
  Property C02 — encryption: only plaintext authenticated for this recipient is
  ever released.  Statements only; proofs in Saltpack/Proofs/Receiver.lean
  (stream logic, binding) and Authentic.lean (the reduction).

  Everything is stated for an ARBITRARY packet stream (`items`, `tail`): whatever
  go-codec makes of the attacker's bytes, it is some such stream, so truncation
  (also at packet boundaries), reordering, duplication, omission, splicing,
  header/flag/version edits and re-encodings are all covered at once.
-/
import Saltpack.Proofs.Receiver
import Saltpack.Proofs.Authentic
import Saltpack.Proofs.Attribution
import Saltpack.Toy

namespace Saltpack.Props.C02
open Saltpack Saltpack.Proofs

/-- **Level A (in order, no gaps).** What a decrypting receiver releases is the
    concatenation of the chunks of an accepted *prefix* of the packets, numbered
    consecutively from the first payload packet. -/
theorem C02_released_is_accepted_prefix (P : Prims) (s : Decrypt.State)
    (items : List (Option EncBlock)) (tail : Tail) (n : Nat) :
    ∃ bs : List EncBlock, (bs.map some) <+: items ∧
      Chain (Dec.accept P s) (Decrypt.blockFinal s.version) n bs (Decrypt.run P s items tail n).bytes :=
  Dec.run_prefix P s items tail n

/-- **Level A (complete iff clean).** The run ends without error iff the packets
    are exactly a complete message — every packet accepted at its position, only
    the last one final — and the input ends cleanly right after it. -/
theorem C02_clean_end_iff_complete (P : Prims) (s : Decrypt.State)
    (items : List (Option EncBlock)) (tail : Tail) (n : Nat) :
    (Decrypt.run P s items tail n).err = none ↔
      ∃ bs : List EncBlock, items = bs.map some ∧ tail = .eof ∧
        Complete (Dec.accept P s) (Decrypt.blockFinal s.version) n bs (Decrypt.run P s items tail n).bytes :=
  Dec.run_ok_iff P s items tail n

/-- the all-at-once form returns plaintext only if the stream form ended cleanly -/
theorem C02_all_at_once_only_if_clean (P : Prims) (valid : Validator) (kr : Keyring)
    (hr : HeaderRead EncHeader) (ps : PStream EncBlock) (m : MKI) (pt : Bytes)
    (h : Decrypt.openAll P valid kr hr ps = .ok (m, pt)) :
    (Decrypt.openStream P valid kr hr ps).err = none ∧ (Decrypt.openStream P valid kr hr ps).released = pt := by
  unfold Decrypt.openAll at h
  generalize Decrypt.openStream P valid kr hr ps = r at h
  obtain ⟨mk, rel, err, calls⟩ := r
  cases err <;> cases mk <;> simp_all

/-- **Level B (binding).** An accepted packet carries, at the receiver's
    position, the HMAC under the receiver's MAC key of
    hash(header hash ‖ nonce(packet number) ‖ [final byte] ‖ ciphertext); its chunk
    is the opening of that ciphertext under the payload key and that nonce. -/
theorem C02_accept_binds (P : Prims) (s : Decrypt.State) (b : EncBlock) (seqno : Nat) (c : Bytes)
    (h : Dec.accept P s b seqno = some c) :
    ∃ ph, payloadHash P s.version s.headerHash (Nonce.chunkSecretBox (seqno - 1)) b.ct
            (Decrypt.blockFinal s.version b) = .ok ph ∧
      b.auths[s.position]? = some (payloadAuthenticator P s.macKey ph) ∧
      P.sbOpen s.payloadKey (Nonce.chunkSecretBox (seqno - 1)) b.ct = some c ∧
      blockNumberOK (seqno - 1) = true :=
  Dec.accept_binds P s b seqno c h

/-- the MACed string determines header hash, packet number, final flag and
    ciphertext uniquely -/
theorem C02_mac_input_unique (hh hh' ct ct' : Bytes) (f f' : Bool) (i j : Nat)
    (h1 : hh.length = 64) (h2 : hh'.length = 64) (hi : i < 2 ^ 64) (hj : j < 2 ^ 64)
    (h : hh ++ Nonce.chunkSecretBox i ++ finalByte f ++ ct = hh' ++ Nonce.chunkSecretBox j ++ finalByte f' ++ ct') :
    hh = hh' ∧ i = j ∧ f = f' ∧ ct = ct' := by
  have hl : ∀ k, (Nonce.chunkSecretBox k).length = 24 := fun k => by
    simp [Nonce.chunkSecretBox, be64_length]; decide
  obtain ⟨a, b, c, d⟩ := macInput_inj_v2 hh hh' _ _ ct ct' f f' h1 h2 (hl i) (hl j) h
  exact ⟨a, chunkSecretBox_inj i j hi hj b, c, d⟩

/-- **The reduction.** Whatever packets arrive, relative to any history `H` of
    honest messages: nothing is released and the run fails; or what is released
    is the first `m` chunks of ONE honest message with this very header hash —
    all of it iff the run ends cleanly; or a `Break` is exhibited by that very
    run (a valid authenticator on a payload hash no honest sender MACed under the
    receiver's MAC key, or a hash collision).  The adversary may know the payload
    key (a co-recipient): only the MAC key matters. -/
theorem C02_authentic_or_break (P : Prims) (hP : P.Lawful) (s : Decrypt.State)
    (hv : s.version.major = 1 ∨ s.version.major = 2) (hhl : s.headerHash.length = 64)
    (H : List AuthEnc.Event)
    (hplan : ∀ e ∈ H, PlanOK e.plan ∧ e.plan.length < 2 ^ 64 - 1 ∧ e.headerHash.length = 64)
    (hv1 : s.version.major = 1 → ∀ e ∈ H, ∀ p ∈ e.plan, (p.1 = [] ↔ p.2 = true))
    (hkey : ∀ e ∈ H, e.headerHash = s.headerHash → e.payloadKey = s.payloadKey)
    (hone : ∀ e ∈ H, ∀ e' ∈ H, e.headerHash = e'.headerHash → e = e')
    (items : List (Option EncBlock)) (tail : Tail) :
    let r := Decrypt.run P s items tail 1
    r.bytes = [] ∧ r.err ≠ none ∨
    (∃ e ∈ H, e.headerHash = s.headerHash ∧ ∃ m, m ≤ e.plan.length ∧ r.bytes = planPrefix e.plan m ∧
        (r.err = none → m = e.plan.length)) ∨
    AuthEnc.Break P s H :=
  AuthEnc.authentic_or_break P hP s hv hhl H hplan hv1 hkey hone items tail

/-! ## attribution: whose MAC key it is -/

/-- **Attribution.** Whenever a header is accepted, for every keyring: the
    sender the receiver reports is the content of the header's sender secretbox
    under the payload key it unboxed from its OWN recipient entry (the entry the
    keyring matched, or a hidden entry one of its secret keys opened), looked up
    in the keyring (or the ephemeral key itself for an anonymous sender) — and
    the MAC key under which every later packet must authenticate
    (`C02_accept_binds`) is `computeMACKeyReceiver` of the receiver's secret key
    with exactly that reported sender key (V2: and the ephemeral key), this
    header hash and this recipient position. -/
theorem C02_attribution (P : Prims) (valid : Validator) (kr : Keyring) (hh : Bytes) (h : EncHeader)
    (log : List KeyCall) (st : Decrypt.State)
    (hok : Decrypt.processHeader P valid kr hh h = (log, .ok st)) :
    Decrypt.validate valid h = .ok () ∧
    ∃ eph sk pk pos senderKey,
      kr.importBoxEphemeralKey h.ephemeral = some eph ∧
      st.payloadKey = pk ∧ st.headerHash = hh ∧ st.position = pos ∧ st.version = h.version ∧
      st.mki.receiverKey = sk ∧
      P.sbOpen pk Nonce.senderKeySecretBox h.senderSecretbox = some senderKey ∧ senderKey.length = 32 ∧
      st.mki.senderIsAnon = (h.ephemeral == senderKey) ∧
      (st.mki.senderIsAnon = false → kr.lookupBoxPublicKey senderKey = some st.mki.senderKey) ∧
      (st.mki.senderIsAnon = true → st.mki.senderKey = eph) ∧
      (Decrypt.macKeyReceiver P h.version pos sk st.mki.senderKey eph hh).2 = .ok st.macKey ∧
      pk.length = 32 ∧
      ∃ r nonce, h.receivers[pos]? = some r ∧ Nonce.payloadKeyBox h.version pos = .ok nonce ∧
        P.unbox sk eph nonce r.box = some pk ∧
        (st.mki.receiverIsAnon = false →
          (∃ k, r.kid = some k ∧ k ≠ []) ∧
          ∃ i, kr.lookupBoxSecretKey st.mki.namedReceivers = (i, some sk) ∧ 0 ≤ i ∧
            (Decrypt.visibleIndices h.receivers)[i.toNat]? = some pos ∧
            st.mki.namedReceivers[i.toNat]? = some (Decrypt.kidOf r)) ∧
        (st.mki.receiverIsAnon = true →
          Decrypt.isHidden r = true ∧ sk ∈ kr.getAllBoxSecretKeys) :=
  decrypt_attribution P valid kr hh h log st hok

/-- the MAC key, spelled out (V1 / V2) -/
theorem C02_mackey_v1 (P : Prims) (valid : Validator) (kr : Keyring) (hh : Bytes) (h : EncHeader)
    (log : List KeyCall) (st : Decrypt.State)
    (hok : Decrypt.processHeader P valid kr hh h = (log, .ok st)) (hv : h.version.major = 1) :
    st.macKey = macKeySingle P st.mki.receiverKey st.mki.senderKey (Nonce.macKeyBoxV1 hh) :=
  decrypt_mackey_v1 P valid kr hh h log st hok hv

theorem C02_mackey_v2 (P : Prims) (valid : Validator) (kr : Keyring) (hh : Bytes) (h : EncHeader)
    (log : List KeyCall) (st : Decrypt.State)
    (hok : Decrypt.processHeader P valid kr hh h = (log, .ok st)) (hv : h.version.major = 2) :
    ∃ eph, kr.importBoxEphemeralKey h.ephemeral = some eph ∧
      st.macKey = sum512Truncate256 P
        (macKeySingle P st.mki.receiverKey st.mki.senderKey (Nonce.macKeyBoxV2 hh false st.position) ++
         macKeySingle P st.mki.receiverKey eph (Nonce.macKeyBoxV2 hh true st.position)) :=
  decrypt_mackey_v2 P valid kr hh h log st hok hv

/-- …and it is the key the sender whose public key is reported computes for this
    recipient (lawful primitives: Diffie–Hellman commutes), so `C02_accept_binds`
    + `C02_authentic_or_break` speak about packets MACed by the holder of the
    reported sender's secret key (or of the receiver's own) -/
theorem C02_sender_receiver_agree_v1 (P : Prims) (hP : P.Lawful) (valid : Validator) (kr : Keyring)
    (hh : Bytes) (h : EncHeader) (log : List KeyCall) (st : Decrypt.State)
    (hok : Decrypt.processHeader P valid kr hh h = (log, .ok st)) (hv : h.version = v1)
    (senderSecret ephSecret recipientPub : Bytes)
    (hs : st.mki.senderKey = P.boxPub senderSecret)
    (hr : P.boxPub st.mki.receiverKey = recipientPub) :
    Encrypt.macKeySender P h.version st.position senderSecret ephSecret recipientPub hh = .ok st.macKey :=
  sender_and_receiver_agree_v1 P hP valid kr hh h log st hok hv senderSecret ephSecret recipientPub hs hr

theorem C02_sender_receiver_agree_v2 (P : Prims) (hP : P.Lawful) (valid : Validator) (kr : Keyring)
    (hh : Bytes) (h : EncHeader) (log : List KeyCall) (st : Decrypt.State)
    (hok : Decrypt.processHeader P valid kr hh h = (log, .ok st)) (hv : h.version = v2)
    (senderSecret ephSecret recipientPub : Bytes)
    (hs : st.mki.senderKey = P.boxPub senderSecret)
    (he : kr.importBoxEphemeralKey h.ephemeral = some (P.boxPub ephSecret))
    (hr : P.boxPub st.mki.receiverKey = recipientPub) :
    Encrypt.macKeySender P h.version st.position senderSecret ephSecret recipientPub hh = .ok st.macKey :=
  sender_and_receiver_agree_v2 P hP valid kr hh h log st hok hv senderSecret ephSecret recipientPub hs he hr

/-! ## non-vacuity -/
example : Toy.prims.Lawful := Toy.lawful
/-- the honest plans of the sender model satisfy `PlanOK` -/
example (v : Version) (bs : Nat) (pt : Bytes) : PlanOK (Encrypt.chunkPlan v bs pt) :=
  chunkPlan_final v bs pt

end Saltpack.Props.C02
