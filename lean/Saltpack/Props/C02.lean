/-
  Property C02 — encryption: only plaintext authenticated for this recipient is
  ever released.  Statements only; proofs in Saltpack/Proofs/Receiver.lean
  (stream logic, binding) and Authentic.lean (the reduction).

  Everything is stated for an ARBITRARY packet stream (`items`, `tail`): whatever
  go-codec makes of the attacker's bytes, it is some such stream, so truncation
  (also at packet boundaries), reordering, duplication, omission, splicing,
  header/flag/version edits and re-encodings are all covered at once.
-/
import Saltpack.Proofs.Receiver
import Saltpack.Proofs.Authentic
import Saltpack.Proofs.Attribution
import Saltpack.Toy

namespace Saltpack.Props.C02
open Saltpack Saltpack.Proofs

/-- **Level A (in order, no gaps).** What a decrypting receiver releases is the
    concatenation of the chunks of an accepted *prefix* of the packets, numbered
    consecutively from the first payload packet. -/
theorem C02_released_is_accepted_prefix (P : Prims) (s : Decrypt.State)
    (items : List (Option EncBlock)) (tail : Tail) (n : Nat) :
    ∃ bs : List EncBlock, (bs.map some) <+: items ∧
      Chain (Dec.accept P s) (Decrypt.blockFinal s.version) n bs (Decrypt.run P s items tail n).bytes :=
  Dec.run_prefix P s items tail n

/-- **Level A (complete iff clean).** The run ends without error iff the packets
    are exactly a complete message — every packet accepted at its position, only
    the last one final — and the input ends cleanly right after it. -/
theorem C02_clean_end_iff_complete (P : Prims) (s : Decrypt.State)
    (items : List (Option EncBlock)) (tail : Tail) (n : Nat) :
    (Decrypt.run P s items tail n).err = none ↔
      ∃ bs : List EncBlock, items = bs.map some ∧ tail = .eof ∧
        Complete (Dec.accept P s) (Decrypt.blockFinal s.version) n bs (Decrypt.run P s items tail n).bytes :=
  Dec.run_ok_iff P s items tail n

/-- the all-at-once form returns plaintext only if the stream form ended cleanly -/
theorem C02_all_at_once_only_if_clean (P : Prims) (valid : Validator) (kr : Keyring)
    (hr : HeaderRead EncHeader) (ps : PStream EncBlock) (m : MKI) (pt : Bytes)
    (h : Decrypt.openAll P valid kr hr ps = .ok (m, pt)) :
    (Decrypt.openStream P valid kr hr ps).err = none ∧ (Decrypt.openStream P valid kr hr ps).released = pt := by
  unfold Decrypt.openAll at h
  generalize Decrypt.openStream P valid kr hr ps = r at h
  obtain ⟨mk, rel, err, calls⟩ := r
  cases err <;> cases mk <;> simp_all

/-- **Level B (binding).** An accepted packet carries, at the receiver's
    position, the HMAC under the receiver's MAC key of
    hash(header hash ‖ nonce(packet number) ‖ [final byte] ‖ ciphertext); its chunk
    is the opening of that ciphertext under the payload key and that nonce. -/
theorem C02_accept_binds (P : Prims) (s : Decrypt.State) (b : EncBlock) (seqno : Nat) (c : Bytes)
    (h : Dec.accept P s b seqno = some c) :
    ∃ ph, payloadHash P s.version s.headerHash (Nonce.chunkSecretBox (seqno - 1)) b.ct
            (Decrypt.blockFinal s.version b) = .ok ph ∧
      b.auths[s.position]? = some (payloadAuthenticator P s.macKey ph) ∧
      P.sbOpen s.payloadKey (Nonce.chunkSecretBox (seqno - 1)) b.ct = some c ∧
      blockNumberOK (seqno - 1) = true :=
  Dec.accept_binds P s b seqno c h

/-- the MACed string determines header hash, packet number, final flag and
    ciphertext uniquely -/
theorem C02_mac_input_unique (hh hh' ct ct' : Bytes) (f f' : Bool) (i j : Nat)
    (h1 : hh.length = 64) (h2 : hh'.length = 64) (hi : i < 2 ^ 64) (hj : j < 2 ^ 64)
    (h : hh ++ Nonce.chunkSecretBox i ++ finalByte f ++ ct = hh' ++ Nonce.chunkSecretBox j ++ finalByte f' ++ ct') :
    hh = hh' ∧ i = j ∧ f = f' ∧ ct = ct' := by
  have hl : ∀ k, (Nonce.chunkSecretBox k).length = 24 := fun k => by
    simp [Nonce.chunkSecretBox, be64_length]; decide
  obtain ⟨a, b, c, d⟩ := macInput_inj_v2 hh hh' _ _ ct ct' f f' h1 h2 (hl i) (hl j) h
  exact ⟨a, chunkSecretBox_inj i j hi hj b, c, d⟩

/-! ## the reduction -/

/-- **`Reaches`, spelled out**: the run over `items` gets to its `i`-th item
    (0-based), which is the packet `b` — every earlier item is a packet that was
    accepted at its position (packet numbers from 1) and was not final. -/
theorem C02_reaches_def {β : Type} (acc : β → Nat → Option Bytes) (fin : β → Bool)
    (items : List (Option β)) (i : Nat) (b : β) :
    Reaches acc fin items i b ↔
      (items[i]? = some (some b) ∧
        ∀ j, j < i → ∃ b' c', items[j]? = some (some b') ∧ acc b' (j + 1) = some c' ∧ fin b' = false) :=
  Iff.rfl

/-- **What `AuthEnc.BreakIn P s H items` is** (definitional unfolding).  It is
    ANCHORED to the receiver state `s` and the packets `items` of the run:

    * *MAC forgery in this run*: the run reaches its `i`-th packet `b` and
      accepts it as packet number `i + 1`; `b` carries, at the receiver's
      position, the authenticator under the receiver's MAC key of the hash of
      `recvInput s b i` = header hash ‖ nonce(i) ‖ [final byte] ‖ `b.ct` — and no
      honest message in `H` MACed that payload hash under that MAC key; or
    * *hash collision in this run*: for such a reached and accepted packet,
      `recvInput s b i` and the string `honestInput …` an honest sender hashed
      for chunk `k` of a message of `H` (MACed under the receiver's MAC key)
      are DIFFERENT strings with the SAME hash.

    (The un-anchored predicates an earlier version used — "some block somewhere
    carries a valid authenticator on a non-honest hash", "the hash has a
    collision" — are provable outright and are gone.) -/
theorem C02_break_def (P : Prims) (s : Decrypt.State) (H : List AuthEnc.Event)
    (items : List (Option EncBlock)) :
    AuthEnc.BreakIn P s H items ↔
      (∃ (i : Nat) (b : EncBlock) (c : Bytes),
        Reaches (Dec.accept P s) (Decrypt.blockFinal s.version) items i b ∧
        Dec.accept P s b (i + 1) = some c ∧
        b.auths[s.position]? =
          some (payloadAuthenticator P s.macKey (P.hash (AuthEnc.recvInput s b i))) ∧
        ¬ ∃ e ∈ H, e.macKey = s.macKey ∧ ∃ k c' f', e.plan[k]? = some (c', f') ∧
            P.hash (AuthEnc.recvInput s b i) = P.hash (AuthEnc.honestInput P s.version e k c' f')) ∨
      (∃ (i : Nat) (b : EncBlock) (c : Bytes),
        Reaches (Dec.accept P s) (Decrypt.blockFinal s.version) items i b ∧
        Dec.accept P s b (i + 1) = some c ∧
        ∃ e ∈ H, e.macKey = s.macKey ∧ ∃ k c' f', e.plan[k]? = some (c', f') ∧
          AuthEnc.recvInput s b i ≠ AuthEnc.honestInput P s.version e k c' f' ∧
          P.hash (AuthEnc.recvInput s b i) = P.hash (AuthEnc.honestInput P s.version e k c' f')) :=
  Iff.rfl

/-- the two hashed strings, spelled out (V2; V1 has no final byte) -/
theorem C02_inputs_def (P : Prims) (s : Decrypt.State) (hv : s.version.major = 2) (b : EncBlock) (i : Nat)
    (e : AuthEnc.Event) (k : Nat) (c : Bytes) (f : Bool) :
    AuthEnc.recvInput s b i = s.headerHash ++ Nonce.chunkSecretBox i ++ finalByte b.final ++ b.ct ∧
    AuthEnc.honestInput P s.version e k c f =
      e.headerHash ++ Nonce.chunkSecretBox k ++ finalByte f ++ P.sbSeal e.payloadKey (Nonce.chunkSecretBox k) c := by
  have h21 : ¬ ((2 : Int) = 1) := by decide
  simp [AuthEnc.recvInput, AuthEnc.honestInput, Decrypt.blockFinal, hv, h21]

/-- **The reduction.** Whatever packets arrive, relative to any history `H` of
    honest messages: nothing is released and the run fails; or what is released
    is the first `m` chunks of ONE honest message with this very header hash and
    MAC key — all of it iff the run ends cleanly; or `AuthEnc.BreakIn P s H items`
    (see `C02_break_def`): a MAC forgery or a hash collision exhibited by a
    packet THIS run reached and accepted.  The adversary may know the payload
    key (a co-recipient): only the MAC key matters.

    `BreakIn` is not always true: `C02_break_not_trivial` below refutes it for a
    concrete honest run, and `C02_tampered_runs_fail` shows tampered runs landing
    in the first disjunct.  Nor is it always false: `C02_break_can_hold`.

    Hypotheses.  `hv`, `hhl`: true of every state `processHeader` returns (with
    lawful primitives).  `hlen`: honest header hashes are 64 bytes.  `hplan`,
    `hv1`: asked ONLY of the honest messages with this header hash (the rest of
    the history may mix V1 and V2).

    ASSUMPTIONS, kept as explicit hypotheses:
    * `hkey`: an honest message with this header hash used the payload key the
      receiver derived.  For a receiver that processed the honest header itself
      this is PROVED (`C02_hkey_of_honest_header`); passing from "same header
      hash" to "same header" is collision resistance of the header hash.
    * `hone`: at most one honest message has this header hash — freshness of the
      sender's randomness (ephemeral key and payload key go into the header) plus
      collision resistance of the header hash. -/
theorem C02_authentic_or_break (P : Prims) (hP : P.Lawful) (s : Decrypt.State)
    (hv : s.version.major = 1 ∨ s.version.major = 2) (hhl : s.headerHash.length = 64)
    (H : List AuthEnc.Event)
    (hlen : ∀ e ∈ H, e.headerHash.length = 64)
    (hplan : ∀ e ∈ H, e.headerHash = s.headerHash → PlanOK e.plan ∧ e.plan.length < 2 ^ 64 - 1)
    (hv1 : s.version.major = 1 → ∀ e ∈ H, e.headerHash = s.headerHash → ∀ p ∈ e.plan, (p.1 = [] ↔ p.2 = true))
    (hkey : ∀ e ∈ H, e.headerHash = s.headerHash → e.payloadKey = s.payloadKey)
    (hone : ∀ e ∈ H, ∀ e' ∈ H, e.headerHash = s.headerHash → e'.headerHash = s.headerHash → e = e')
    (items : List (Option EncBlock)) (tail : Tail) :
    let r := Decrypt.run P s items tail 1
    r.bytes = [] ∧ r.err ≠ none ∨
    (∃ e ∈ H, (e.headerHash = s.headerHash ∧ e.macKey = s.macKey) ∧
      ∃ m, m ≤ e.plan.length ∧ r.bytes = planPrefix e.plan m ∧ (r.err = none → m = e.plan.length)) ∨
    AuthEnc.BreakIn P s H items :=
  AuthEnc.authentic_or_break P hP s hv hhl H hlen hplan hv1 hkey hone items tail

/-- a packet that figures in a break is a packet OF THIS RUN, at its index -/
theorem C02_break_in_items (P : Prims) (s : Decrypt.State) (H : List AuthEnc.Event)
    (items : List (Option EncBlock)) (h : AuthEnc.BreakIn P s H items) :
    ∃ i b c, items[i]? = some (some b) ∧ some b ∈ items ∧ i < items.length ∧
      Dec.accept P s b (i + 1) = some c := by
  rcases h with ⟨i, b, c, hr, ha, _⟩ | ⟨i, b, c, hr, ha, _⟩ <;>
    exact ⟨i, b, c, hr.1, hr.mem, hr.lt, ha⟩

/-- **`hkey`, derived for the honest header**: a receiver that accepts the header
    an honest sender built (faithful import of the ephemeral key; the secret key
    that opened the entry is the one the sender addressed there) derives the
    sender's payload key. -/
theorem C02_hkey_of_honest_header (P : Prims) (hP : P.Lawful) (valid : Validator) (kr : Keyring)
    {v : Version} (hv : v = v1 ∨ v = v2) (sender : Option Bytes) (rs : List Encrypt.Recipient)
    (ephSec pk hh : Bytes) (h : EncHeader) (hhdr : Encrypt.header P v sender ephSec pk rs = .ok h)
    (log : List KeyCall) (st : Decrypt.State)
    (hok : Decrypt.processHeader P valid kr hh h = (log, .ok st))
    (himp : kr.importBoxEphemeralKey (P.boxPub ephSec) = some (P.boxPub ephSec))
    (hsk : ∀ r, rs[st.position]? = some r → r.pub = P.boxPub st.mki.receiverKey) :
    st.payloadKey = pk :=
  hkey_of_honest_header P hP valid kr hv sender rs ephSec pk hh h hhdr log st hok himp hsk

/-! ## attribution: whose MAC key it is -/

/-- **Attribution.** Whenever a header is accepted, for every keyring: the
    sender the receiver reports is the content of the header's sender secretbox
    under the payload key it unboxed from its OWN recipient entry (the entry the
    keyring matched, or a hidden entry one of its secret keys opened), looked up
    in the keyring (or the ephemeral key itself for an anonymous sender) — and
    the MAC key under which every later packet must authenticate
    (`C02_accept_binds`) is `computeMACKeyReceiver` of the receiver's secret key
    with exactly that reported sender key (V2: and the ephemeral key), this
    header hash and this recipient position. -/
theorem C02_attribution (P : Prims) (valid : Validator) (kr : Keyring) (hh : Bytes) (h : EncHeader)
    (log : List KeyCall) (st : Decrypt.State)
    (hok : Decrypt.processHeader P valid kr hh h = (log, .ok st)) :
    Decrypt.validate valid h = .ok () ∧
    ∃ eph sk pk pos senderKey,
      kr.importBoxEphemeralKey h.ephemeral = some eph ∧
      st.payloadKey = pk ∧ st.headerHash = hh ∧ st.position = pos ∧ st.version = h.version ∧
      st.mki.receiverKey = sk ∧
      P.sbOpen pk Nonce.senderKeySecretBox h.senderSecretbox = some senderKey ∧ senderKey.length = 32 ∧
      st.mki.senderIsAnon = (h.ephemeral == senderKey) ∧
      (st.mki.senderIsAnon = false → kr.lookupBoxPublicKey senderKey = some st.mki.senderKey) ∧
      (st.mki.senderIsAnon = true → st.mki.senderKey = eph) ∧
      (Decrypt.macKeyReceiver P h.version pos sk st.mki.senderKey eph hh).2 = .ok st.macKey ∧
      pk.length = 32 ∧
      ∃ r nonce, h.receivers[pos]? = some r ∧ Nonce.payloadKeyBox h.version pos = .ok nonce ∧
        P.unbox sk eph nonce r.box = some pk ∧
        (st.mki.receiverIsAnon = false →
          (∃ k, r.kid = some k ∧ k ≠ []) ∧
          ∃ i, kr.lookupBoxSecretKey st.mki.namedReceivers = (i, some sk) ∧ 0 ≤ i ∧
            (Decrypt.visibleIndices h.receivers)[i.toNat]? = some pos ∧
            st.mki.namedReceivers[i.toNat]? = some (Decrypt.kidOf r)) ∧
        (st.mki.receiverIsAnon = true →
          Decrypt.isHidden r = true ∧ sk ∈ kr.getAllBoxSecretKeys) :=
  decrypt_attribution P valid kr hh h log st hok

/-- the MAC key, spelled out (V1 / V2) -/
theorem C02_mackey_v1 (P : Prims) (valid : Validator) (kr : Keyring) (hh : Bytes) (h : EncHeader)
    (log : List KeyCall) (st : Decrypt.State)
    (hok : Decrypt.processHeader P valid kr hh h = (log, .ok st)) (hv : h.version.major = 1) :
    st.macKey = macKeySingle P st.mki.receiverKey st.mki.senderKey (Nonce.macKeyBoxV1 hh) :=
  decrypt_mackey_v1 P valid kr hh h log st hok hv

theorem C02_mackey_v2 (P : Prims) (valid : Validator) (kr : Keyring) (hh : Bytes) (h : EncHeader)
    (log : List KeyCall) (st : Decrypt.State)
    (hok : Decrypt.processHeader P valid kr hh h = (log, .ok st)) (hv : h.version.major = 2) :
    ∃ eph, kr.importBoxEphemeralKey h.ephemeral = some eph ∧
      st.macKey = sum512Truncate256 P
        (macKeySingle P st.mki.receiverKey st.mki.senderKey (Nonce.macKeyBoxV2 hh false st.position) ++
         macKeySingle P st.mki.receiverKey eph (Nonce.macKeyBoxV2 hh true st.position)) :=
  decrypt_mackey_v2 P valid kr hh h log st hok hv

/-- …and it is the key the sender whose public key is reported computes for this
    recipient (lawful primitives: Diffie–Hellman commutes), so `C02_accept_binds`
    + `C02_authentic_or_break` speak about packets MACed by the holder of the
    reported sender's secret key (or of the receiver's own) -/
theorem C02_sender_receiver_agree_v1 (P : Prims) (hP : P.Lawful) (valid : Validator) (kr : Keyring)
    (hh : Bytes) (h : EncHeader) (log : List KeyCall) (st : Decrypt.State)
    (hok : Decrypt.processHeader P valid kr hh h = (log, .ok st)) (hv : h.version = v1)
    (senderSecret ephSecret recipientPub : Bytes)
    (hs : st.mki.senderKey = P.boxPub senderSecret)
    (hr : P.boxPub st.mki.receiverKey = recipientPub) :
    Encrypt.macKeySender P h.version st.position senderSecret ephSecret recipientPub hh = .ok st.macKey :=
  sender_and_receiver_agree_v1 P hP valid kr hh h log st hok hv senderSecret ephSecret recipientPub hs hr

theorem C02_sender_receiver_agree_v2 (P : Prims) (hP : P.Lawful) (valid : Validator) (kr : Keyring)
    (hh : Bytes) (h : EncHeader) (log : List KeyCall) (st : Decrypt.State)
    (hok : Decrypt.processHeader P valid kr hh h = (log, .ok st)) (hv : h.version = v2)
    (senderSecret ephSecret recipientPub : Bytes)
    (hs : st.mki.senderKey = P.boxPub senderSecret)
    (he : kr.importBoxEphemeralKey h.ephemeral = some (P.boxPub ephSecret))
    (hr : P.boxPub st.mki.receiverKey = recipientPub) :
    Encrypt.macKeySender P h.version st.position senderSecret ephSecret recipientPub hh = .ok st.macKey :=
  sender_and_receiver_agree_v2 P hP valid kr hh h log st hok hv senderSecret ephSecret recipientPub hs he hr

/-! ## non-vacuity, and non-triviality of the reduction's third disjunct -/
example : Toy.prims.Lawful := Toy.lawful
example : Demo.prims.Lawful := Demo.lawful

/-- the honest two-packet run (V2, chunks "A", "B") of the demonstration
    primitives ends cleanly and releases the plaintext … -/
theorem C02_honest_run :
    Decrypt.run Demo.prims Demo.Enc.s [some Demo.Enc.b0, some Demo.Enc.b1] .eof 1 = ⟨[65, 66], none⟩ :=
  Demo.Enc.honest_run

/-- … and for it the anchored break is FALSE: the third disjunct of
    `C02_authentic_or_break` is not always true. -/
theorem C02_break_not_trivial :
    ¬ AuthEnc.BreakIn Demo.prims Demo.Enc.s [Demo.Enc.e0] [some Demo.Enc.b0, some Demo.Enc.b1] :=
  Demo.Enc.honest_not_break

/-- tampered runs — packets swapped; a ciphertext byte changed — land in the
    FIRST disjunct: nothing is released and the run fails -/
theorem C02_tampered_runs_fail :
    (let r := Decrypt.run Demo.prims Demo.Enc.s [some Demo.Enc.b1, some Demo.Enc.b0] .eof 1
     r.bytes = [] ∧ r.err ≠ none) ∧
    (let r := Decrypt.run Demo.prims Demo.Enc.s
        [some { Demo.Enc.b0 with ct := Demo.Enc.b0.ct.set 16 66 }, some Demo.Enc.b1] .eof 1
     r.bytes = [] ∧ r.err ≠ none) := by
  refine ⟨?_, ?_⟩
  · show (Decrypt.run Demo.prims Demo.Enc.s [some Demo.Enc.b1, some Demo.Enc.b0] .eof 1).bytes = [] ∧ _
    rw [Demo.Enc.swapped_run]; exact ⟨rfl, by simp⟩
  · show (Decrypt.run Demo.prims Demo.Enc.s _ .eof 1).bytes = [] ∧ _
    rw [Demo.Enc.flipped_run]; exact ⟨rfl, by simp⟩

/-- a truncated run lands in the SECOND disjunct with `m = 1 < 2` and an error -/
theorem C02_truncated_run :
    Decrypt.run Demo.prims Demo.Enc.s [some Demo.Enc.b0] .eof 1 = ⟨[65], some .unexpectedEOF⟩ :=
  Demo.Enc.truncated_run

/-- the third disjunct is not always false either: `Toy.prims` (HMAC ignores the
    message, secretbox tag ignores the counter) accepts the swapped message, and
    for that run the break is the only true disjunct -/
theorem C02_break_can_hold :
    Decrypt.run Toy.prims Demo.ToyEnc.s [some Demo.ToyEnc.b1, some Demo.ToyEnc.b0] .eof 1
      = ⟨[66], some .trailingGarbage⟩ ∧
    AuthEnc.BreakIn Toy.prims Demo.ToyEnc.s [Demo.ToyEnc.e0] [some Demo.ToyEnc.b1, some Demo.ToyEnc.b0] :=
  ⟨Demo.ToyEnc.swapped_run, Demo.ToyEnc.swapped_break⟩

/-- the honest plans of the sender model satisfy `PlanOK` -/
example (v : Version) (bs : Nat) (pt : Bytes) : PlanOK (Encrypt.chunkPlan v bs pt) :=
  chunkPlan_final v bs pt

end Saltpack.Props.C02
