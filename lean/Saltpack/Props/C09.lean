/-
  Property C09 — every message a spec-following sender can produce is accepted.
  Statements only; proofs in Saltpack/Proofs/AnyChunking.lean (+ PlanLemmas).

  The receivers are agnostic to everything the specifications leave to the
  sender or reserve for the future: chunk sizes (ANY valid chunk plan, not only
  the 1 MiB one the Go sender uses), the minor version, and extra trailing list
  elements in headers, recipient pairs and payload packets.  The independent
  reference sender of Saltpack/Model/Spec.lean (written from specs/*.md with its
  own constants) exercises all of these against the real receivers on every run.
-/
import Saltpack.Proofs.AnyChunking

namespace Saltpack.Props.C09
open Saltpack Saltpack.Encrypt Saltpack.Proofs Saltpack.Msgpack

/-- the Go sender's own plan is one of the valid plans (so C01/C03/C05 are
    instances of the theorems below) -/
theorem C09_go_plan_is_valid (v : Version) (hv : v = v1 ∨ v = v2) (bs : Nat) (hb : 0 < bs) (pt : Bytes) :
    ValidPlan v (chunkPlan v bs pt) :=
  chunkPlan_valid v hv bs hb pt

/-- **Encryption, any chunking**: any cut of the plaintext into chunks with the
    final marker on the last one (V1: empty terminator; V2: no empty chunk except
    for the empty message) is opened to the concatenation of the chunks, with the
    right sender and recipient attribution, at every recipient position. -/
theorem C09_accepts_encryption (P : Prims) (hP : P.Lawful)
    (v : Version) (hv : v = v1 ∨ v = v2)
    (sender : Option Bytes) (rs : List Recipient) (eph payloadKey : Bytes)
    (plan : List (Bytes × Bool)) (hplan : ValidPlan v plan)
    (hpk : payloadKey.length = 32)
    (hnamed : ∀ s, sender = some s → P.boxPub s ≠ P.boxPub eph)
    (hpub : ∀ r ∈ rs, r.hidden = false → r.pub ≠ [])
    (hblocks : plan.length < 2 ^ 64 - 1)
    (i : Nat) (hi : i < rs.length) (sk : Bytes) (hsk : (rs.getD i default).pub = P.boxPub sk)
    (hns : NoSpuriousOpen P v eph payloadKey rs i sk)
    (h : EncHeader) (hb : Bytes) (blks : List EncBlock)
    (hseal : sealPacketsPlan P v sender rs eph payloadKey plan = .ok (h, hb, blks)) :
    ∃ mki, Decrypt.openAll P knownMajor (faithfulKeyring P [sk]) (.ok hb h) ⟨blks.map some, .eof⟩ =
        .ok (mki, (plan.map (·.1)).flatten) ∧
      mki.senderKey = P.boxPub (sender.getD eph) ∧ mki.senderIsAnon = sender.isNone ∧ mki.receiverKey = sk :=
  enc_roundtrip_plan P hP v hv sender rs eph payloadKey plan hplan hpk hnamed hpub hblocks i hi sk hsk hns h hb blks hseal

/-- **Attached signatures, any chunking and any minor version** -/
theorem C09_accepts_attached (P : Prims) (hP : P.Lawful)
    (v : Version) (hv : v = v1 ∨ v = v2) (minor : Int) (signer nonce : Bytes)
    (plan : List (Bytes × Bool)) (hplan : ValidPlan v plan)
    (kr : Keyring) (hk : kr.lookupSigningPublicKey (P.sigPub signer) = some (P.sigPub signer))
    (h : SigHeader) (hb : Bytes) (blks : List SigBlock)
    (hs : Sign.attachedPacketsPlan P v minor signer nonce plan = .ok (h, hb, blks)) :
    Sign.verifyAll P knownMajor kr (.ok hb h) ⟨blks.map some, .eof⟩ =
      .ok (P.sigPub signer, (plan.map (·.1)).flatten) :=
  sign_roundtrip_plan P hP v hv minor signer nonce plan hplan kr hk h hb blks hs

/-- **Signcryption, any chunking** -/
theorem C09_accepts_signcryption (P : Prims) (hP : P.Lawful)
    (sender : Option Bytes) (rs : List Signcrypt.Recipient) (eph payloadKey : Bytes)
    (plan : List (Bytes × Bool)) (hplan : ValidPlan v2 plan)
    (hpk : payloadKey.length = 32)
    (hsender : ∀ s, sender = some s → ¬ ((P.sigPub s).all (· == 0)))
    (hblocks : plan.length < 2 ^ 64 - 1)
    (i : Nat) (hi : i < rs.length) (sk : Bytes) (hsk : rs.getD i default = .box (P.boxPub sk))
    (h : EncHeader) (hb : Bytes) (blks : List SigncryptBlock)
    (hseal : Signcrypt.sealPacketsPlan P sender rs eph payloadKey plan = .ok (h, hb, blks))
    (hnc : ∀ j, j < i → Signcrypt.keyIdentifier P (Signcrypt.derivedKeyFromBoxKeys P (P.boxPub eph) sk) j ≠
        Decrypt.kidOf (h.receivers.getD j default)) :
    Signcrypt.openAll P (faithfulKeyring P [sk]) none (.ok hb h) ⟨blks.map some, .eof⟩ =
      .ok (sender.map P.sigPub, (plan.map (·.1)).flatten) :=
  sc_roundtrip_plan P hP sender rs eph payloadKey plan hplan hpk hsender hblocks i hi sk hsk h hb blks hseal hnc

/-! ## forward compatibility -/

/-- minor versions newer than the library knows: the shipped validator looks at
    the major version only -/
theorem C09_minor_ignored (ma mi mi' : Int) : knownMajor ⟨ma, mi⟩ = knownMajor ⟨ma, mi'⟩ :=
  knownMajor_ignores_minor ma mi mi'

/-- extra trailing list elements are ignored in the version pair… -/
theorem C09_version_extras (ma mi : Int) (ex : List Val) :
    viewVersion (.arr ([.int ma, .int mi] ++ ex)) = some ⟨ma, mi⟩ :=
  viewVersion_extras ma mi ex

/-- …in the headers… -/
theorem C09_header_extras (h : EncHeader) (ex : List Val) :
    (match h.toVal with
     | .arr fields => viewEncHeader (.arr (fields ++ ex))
     | _ => none) = some h :=
  viewEncHeader_extras h ex

theorem C09_sig_header_extras (h : SigHeader) (ex : List Val) :
    (match h.toVal with
     | .arr fields => viewSigHeader (.arr (fields ++ ex))
     | _ => none) = some h :=
  viewSigHeader_extras h ex

/-- …in every recipient pair… -/
theorem C09_recipient_extras (r : RecvKeys) (ex : List Val) :
    viewRecvKeys (.arr ([optBin r.kid, .bin r.box] ++ ex)) = some r :=
  viewRecvKeys_extras r ex

/-- …and in every payload packet of every mode and version -/
theorem C09_packet_extras (auths : List Bytes) (ct sig chunk : Bytes) (f : Bool) (ex : List Val)
    (ha : auths ≠ []) (hl : ∀ a ∈ auths, a.length = 32) :
    viewEncBlock 2 (.arr ([.bool f, .arr (auths.map .bin), .bin ct] ++ ex)) = some ⟨auths, ct, f⟩ ∧
    viewEncBlock 1 (.arr ([.arr (auths.map .bin), .bin ct] ++ ex)) = some ⟨auths, ct, false⟩ ∧
    viewSigncryptBlock (.arr ([.bin ct, .bool f] ++ ex)) = some ⟨ct, f⟩ ∧
    viewSigBlock 2 (.arr ([.bool f, .bin sig, .bin chunk] ++ ex)) = some ⟨sig, chunk, f⟩ ∧
    viewSigBlock 1 (.arr ([.bin sig, .bin chunk] ++ ex)) = some ⟨sig, chunk, false⟩ :=
  ⟨viewEncBlock_v2_extras auths ct f ex ha hl, viewEncBlock_v1_extras auths ct ex ha hl,
   viewSigncryptBlock_extras ct f ex, viewSigBlock_v2_extras sig chunk f ex, viewSigBlock_v1_extras sig chunk ex⟩

/-! ## non-vacuity: one-byte chunks are a valid plan -/
example : ValidPlan v2 [([1], false), ([2], false), ([3], true)] :=
  ⟨⟨[([1], false), ([2], false)], [3], rfl, by decide⟩, by decide, by decide⟩

end Saltpack.Props.C09
