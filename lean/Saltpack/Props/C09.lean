/-
  Property C09 — every message a spec-following sender can produce is accepted.
  Statements only; proofs in Saltpack/Proofs/AnyChunking.lean (+ PlanLemmas),
  RingEnc.lean / RingSig.lean (any keyring, any minor version, any header bytes)
  and ExtrasRT.lean (the reference sender's bytes, end to end).

  The receivers are agnostic to everything the specifications leave to the
  sender or reserve for the future: chunk sizes (ANY valid chunk plan, not only
  the 1 MiB one the Go sender uses), the minor version, and extra trailing list
  elements in headers, recipient pairs and payload packets.

  Two layers of statements:

  * `C09_accepts_{encryption,attached,detached,signcryption}` — packet level:
    the sender is described relationally (the header fields of the code model's
    sender under version `[major, minor]` for ANY `minor`; ANY header bytes `hb`
    — a real sender hashes the header it sends, extras included, and the receiver
    uses the bytes only through their hash; MAC keys / signatures / packets
    computed from the hash of those bytes).  The code model's own senders
    (`sealPacketsPlan`, `attachedPacketsPlan`, …: minor 0, `hb = encode h.toVal`)
    are instances: `C09_accepts_*_model`.
  * `C09_accepts_*_with_extras` — end to end on BYTES: what the independent
    reference sender `Spec.encodePlan / attachedPlan / detached / signcryptPlan`
    emits for options `o` (any minor, extras in header / recipient pairs /
    packets) is split by the receiver's MessagePack reader (`Wire.split*`) and
    accepted with the right result.
-/
import Saltpack.Proofs.AnyChunking
import Saltpack.Proofs.ExtrasRT
import Saltpack.Toy

namespace Saltpack.Props.C09
open Saltpack Saltpack.Encrypt Saltpack.Proofs Saltpack.Msgpack

/-- the Go sender's own plan is one of the valid plans (so C01/C03/C05 are
    instances of the theorems below) -/
theorem C09_go_plan_is_valid (v : Version) (hv : v = v1 ∨ v = v2) (bs : Nat) (hb : 0 < bs) (pt : Bytes) :
    ValidPlan v (chunkPlan v bs pt) :=
  chunkPlan_valid v hv bs hb pt

/-! ## encryption -/

/-- **Encryption: any chunking, any minor version, any header bytes, any
    keyring that holds a recipient's key.**
    Sender: recipients `rs` passing `checkEncryptReceivers`; header fields `h0`
    as `Encrypt.header` computes them, sent under version `[v.major, minor]` for
    an ARBITRARY `minor`; header bytes `hb` ARBITRARY (whatever the sender put on
    the wire and hashed — e.g. the header with extra trailing elements; the
    typed view of those bytes is the header handed to the receiver); MAC keys and
    payload packets computed from `hash hb` for any cut of the plaintext into
    chunks with the final marker on the last one (V1: empty terminator; V2: no
    empty chunk except for the empty message).
    Receiver: `CheckKnownMajorVersion`, keyring `sks` holding the key of recipient
    `i` among any other keys.
    The message opens to the concatenation of the chunks, with the true sender,
    as some recipient `i'` whose key `sk'` is in the ring (see
    `C01_roundtrip_ring` for which one; `C09_accepts_encryption_unique` for
    `i' = i`).
    (Statement strengthened: formerly `sealPacketsPlan` — minor 0, canonical
    header bytes — and the single-key ring; that form is
    `C09_accepts_encryption_model`.) -/
theorem C09_accepts_encryption (P : Prims) (hP : P.Lawful)
    (v : Version) (hv : v = v1 ∨ v = v2) (minor : Int)
    (sender : Option Bytes) (rs : List Recipient) (eph payloadKey : Bytes)
    (plan : List (Bytes × Bool)) (hplan : ValidPlan v plan)
    (hpk : payloadKey.length = 32)
    (hnamed : ∀ s, sender = some s → P.boxPub s ≠ P.boxPub eph)
    (hpub : ∀ r ∈ rs, r.hidden = false → r.pub ≠ [])
    (sks : List Bytes) (i : Nat) (hi : i < rs.length) (sk : Bytes) (hmem : sk ∈ sks)
    (hsk : (rs.getD i default).pub = P.boxPub sk)
    (hns : RingNoSpuriousOpen P v eph payloadKey rs sks)
    (hcr : checkReceivers rs = .ok ())
    (h0 : EncHeader) (hhdr : header P v sender eph payloadKey rs = .ok h0)
    (hb : Bytes) (mks : List Bytes) (blks : List EncBlock)
    (hmk : macKeysSender P v (sender.getD eph) eph (P.hash hb) rs 0 = .ok mks)
    (hblk : blockStructs P v payloadKey (P.hash hb) mks plan 0 = .ok blks) :
    ∃ i' sk', i' < rs.length ∧ sk' ∈ sks ∧ (rs.getD i' default).pub = P.boxPub sk' ∧
      Decrypt.openAll P knownMajor (faithfulKeyring P sks)
          (.ok hb { h0 with version := ⟨v.major, minor⟩ }) ⟨blks.map some, .eof⟩ =
        .ok ({ senderKey := P.boxPub (sender.getD eph), senderIsAnon := sender.isNone,
               receiverKey := sk', receiverIsAnon := (rs.getD i' default).hidden,
               namedReceivers := (rs.filter (fun r => !r.hidden)).map (·.pub),
               numAnonReceivers := if (rs.getD i' default).hidden then (rs.filter (·.hidden)).length else 0 },
             (plan.map (·.1)).flatten) := by
  have hver : h0.version = v := (header_spec P hv sender eph payloadKey rs h0 hhdr).2.1
  rw [← withMinor_eq h0 hver minor]
  exact enc_roundtrip_ring P hP v hv minor sender rs eph payloadKey plan hplan.final hplan.empty_v1 hplan.empty_v2
    hpk hnamed hpub sks i hi sk hmem hsk hns _ hb blks ⟨hcr, ⟨h0, hhdr, rfl⟩, mks, hmk, hblk⟩

/-- …with the exact key information when the ring holds one recipient's key only -/
theorem C09_accepts_encryption_unique (P : Prims) (hP : P.Lawful)
    (v : Version) (hv : v = v1 ∨ v = v2) (minor : Int)
    (sender : Option Bytes) (rs : List Recipient) (eph payloadKey : Bytes)
    (plan : List (Bytes × Bool)) (hplan : ValidPlan v plan)
    (hpk : payloadKey.length = 32)
    (hnamed : ∀ s, sender = some s → P.boxPub s ≠ P.boxPub eph)
    (hpub : ∀ r ∈ rs, r.hidden = false → r.pub ≠ [])
    (sks : List Bytes) (i : Nat) (hi : i < rs.length) (sk : Bytes) (hmem : sk ∈ sks)
    (hsk : (rs.getD i default).pub = P.boxPub sk)
    (honly : ∀ s ∈ sks, ∀ j, j < rs.length → (rs.getD j default).pub = P.boxPub s → j = i ∧ s = sk)
    (hns : RingNoSpuriousOpen P v eph payloadKey rs sks)
    (hcr : checkReceivers rs = .ok ())
    (h0 : EncHeader) (hhdr : header P v sender eph payloadKey rs = .ok h0)
    (hb : Bytes) (mks : List Bytes) (blks : List EncBlock)
    (hmk : macKeysSender P v (sender.getD eph) eph (P.hash hb) rs 0 = .ok mks)
    (hblk : blockStructs P v payloadKey (P.hash hb) mks plan 0 = .ok blks) :
    Decrypt.openAll P knownMajor (faithfulKeyring P sks)
        (.ok hb { h0 with version := ⟨v.major, minor⟩ }) ⟨blks.map some, .eof⟩ =
      .ok ({ senderKey := P.boxPub (sender.getD eph), senderIsAnon := sender.isNone,
             receiverKey := sk, receiverIsAnon := (rs.getD i default).hidden,
             namedReceivers := (rs.filter (fun r => !r.hidden)).map (·.pub),
             numAnonReceivers := if (rs.getD i default).hidden then (rs.filter (·.hidden)).length else 0 },
           (plan.map (·.1)).flatten) := by
  have hver : h0.version = v := (header_spec P hv sender eph payloadKey rs h0 hhdr).2.1
  rw [← withMinor_eq h0 hver minor]
  exact enc_roundtrip_ring_unique P hP v hv minor sender rs eph payloadKey plan hplan.final hplan.empty_v1
    hplan.empty_v2 hpk hnamed hpub sks i hi sk hmem hsk honly hns _ hb blks ⟨hcr, ⟨h0, hhdr, rfl⟩, mks, hmk, hblk⟩

/-- the code model's own sender `sealPacketsPlan` (minor 0, canonical header
    bytes) and the single-key ring: the previous form of `C09_accepts_encryption` -/
theorem C09_accepts_encryption_model (P : Prims) (hP : P.Lawful)
    (v : Version) (hv : v = v1 ∨ v = v2)
    (sender : Option Bytes) (rs : List Recipient) (eph payloadKey : Bytes)
    (plan : List (Bytes × Bool)) (hplan : ValidPlan v plan)
    (hpk : payloadKey.length = 32)
    (hnamed : ∀ s, sender = some s → P.boxPub s ≠ P.boxPub eph)
    (hpub : ∀ r ∈ rs, r.hidden = false → r.pub ≠ [])
    (hblocks : plan.length < 2 ^ 64 - 1)
    (i : Nat) (hi : i < rs.length) (sk : Bytes) (hsk : (rs.getD i default).pub = P.boxPub sk)
    (hns : NoSpuriousOpen P v eph payloadKey rs i sk)
    (h : EncHeader) (hb : Bytes) (blks : List EncBlock)
    (hseal : sealPacketsPlan P v sender rs eph payloadKey plan = .ok (h, hb, blks)) :
    ∃ mki, Decrypt.openAll P knownMajor (faithfulKeyring P [sk]) (.ok hb h) ⟨blks.map some, .eof⟩ =
        .ok (mki, (plan.map (·.1)).flatten) ∧
      mki.senderKey = P.boxPub (sender.getD eph) ∧ mki.senderIsAnon = sender.isNone ∧ mki.receiverKey = sk :=
  enc_roundtrip_plan P hP v hv sender rs eph payloadKey plan hplan hpk hnamed hpub hblocks i hi sk hsk hns h hb blks hseal

/-- `Spec.encodePlan` taken apart: the header packet carries the encoding of
    `Extras.encHeaderVal` (the header WITH its extras — these are the bytes that
    are hashed), followed by the encoded packets -/
theorem C09_spec_encryption_bytes (P : Prims) (layout : Nat) (o : Spec.Opts) (sender : Option Bytes)
    (rs : List Recipient) (eph pk : Bytes) (pl : List (Bytes × Bool)) :
    Spec.encodePlan P layout o sender rs eph pk pl =
      headerPacket (encode (Extras.encHeaderVal P layout o sender rs eph pk)) ++
        (pl.zipIdx.map (fun x => Extras.encPacketVal P layout o pk
          (P.hash (encode (Extras.encHeaderVal P layout o sender rs eph pk)))
          (rs.zipIdx.map (fun (r, i) => Spec.encMacKey P layout (sender.getD eph) eph r.pub
            (P.hash (encode (Extras.encHeaderVal P layout o sender rs eph pk))) i)) x.2 x.1.1 x.1.2)).flatMap encode :=
  Extras.encodePlan_eq P layout o sender rs eph pk pl

/-- **Encryption END TO END with extras and any minor version**: the BYTES the
    reference sender emits for options `o` — `SpecFollowing o`: genuine format
    name, the layout's major version, the mode's number; everything else free:
    `o.minor`, `o.headerExtras`, `o.recvExtras`, `o.packetExtras` (`ExtrasWF o`:
    encodable values) — for any valid chunk plan, are split by the receiver's
    MessagePack reader and opened by any keyring holding a recipient's key.
    The header hash both sides use is the hash of the header bytes WITH extras.
    Size hypotheses: everything fits MessagePack's 32-bit lengths. -/
theorem C09_accepts_encryption_with_extras (P : Prims) (hP : P.Lawful) (v : Version) (hv : v = v1 ∨ v = v2)
    (o : Spec.Opts) (ho : SpecFollowing o) (hx : ExtrasWF o)
    (sender : Option Bytes) (rs : List Recipient) (eph payloadKey : Bytes)
    (plan : List (Bytes × Bool)) (hplan : ValidPlan v plan)
    (hcr : checkReceivers rs = .ok ())
    (hpk : payloadKey.length = 32)
    (hnamed : ∀ s, sender = some s → P.boxPub s ≠ P.boxPub eph)
    (hpub : ∀ r ∈ rs, r.hidden = false → r.pub ≠ [])
    (hpubLen : ∀ r ∈ rs, r.pub.length < 2 ^ 32)
    (hchunks : ∀ p ∈ plan, p.1.length + 16 < 2 ^ 32) (hblocks : plan.length ≤ 2 ^ 64 - 1)
    (hhb : (encode (Extras.encHeaderVal P (layoutOf v) o sender rs eph payloadKey)).length < 2 ^ 32)
    (sks : List Bytes) (i : Nat) (hi : i < rs.length) (sk : Bytes) (hmem : sk ∈ sks)
    (hsk : (rs.getD i default).pub = P.boxPub sk)
    (hns : RingNoSpuriousOpen P v eph payloadKey rs sks) :
    ∃ hr ps, Wire.splitEnc (Spec.encodePlan P (layoutOf v) o sender rs eph payloadKey plan) = .ok (hr, ps) ∧
      ∃ i' sk', i' < rs.length ∧ sk' ∈ sks ∧ (rs.getD i' default).pub = P.boxPub sk' ∧
        Decrypt.openAll P knownMajor (faithfulKeyring P sks) hr ps =
          .ok ({ senderKey := P.boxPub (sender.getD eph), senderIsAnon := sender.isNone,
                 receiverKey := sk', receiverIsAnon := (rs.getD i' default).hidden,
                 namedReceivers := (rs.filter (fun r => !r.hidden)).map (·.pub),
                 numAnonReceivers := if (rs.getD i' default).hidden then (rs.filter (·.hidden)).length else 0 },
               (plan.map (·.1)).flatten) :=
  spec_enc_accepted P hP v hv o ho hx sender rs eph payloadKey plan hplan hcr hpk hnamed hpub hpubLen hchunks hblocks
    hhb sks i hi sk hmem hsk hns

/-! ## attached signatures -/

/-- **Attached signatures: any chunking, any minor version, any header bytes.**
    Sender: header `Sign.header [v.major, minor] signerPub attached nonce` for an
    ARBITRARY `minor`; header bytes `hb` ARBITRARY (hashed as sent); packets
    signed over `hash hb`.
    (Statement strengthened: formerly `attachedPacketsPlan`, i.e.
    `hb = encode h.toVal`; that form is `C09_accepts_attached_model`.) -/
theorem C09_accepts_attached (P : Prims) (hP : P.Lawful)
    (v : Version) (hv : v = v1 ∨ v = v2) (minor : Int) (signer nonce : Bytes)
    (plan : List (Bytes × Bool)) (hplan : ValidPlan v plan)
    (kr : Keyring) (hk : kr.lookupSigningPublicKey (P.sigPub signer) = some (P.sigPub signer))
    (hb : Bytes) (blks : List SigBlock)
    (hblk : Sign.blockStructs P v signer (P.hash hb) plan 0 = .ok blks) :
    Sign.verifyAll P knownMajor kr
        (.ok hb (Sign.header ⟨v.major, minor⟩ (P.sigPub signer) mtAttached nonce)) ⟨blks.map some, .eof⟩ =
      .ok (P.sigPub signer, (plan.map (·.1)).flatten) :=
  sign_roundtrip_gen P hP v hv minor signer nonce plan hplan.final hplan.empty_v1 hplan.empty_v2 kr hk _ hb blks
    ⟨rfl, hblk⟩

/-- the code model's own sender `attachedPacketsPlan` (canonical header bytes):
    the previous form of `C09_accepts_attached` -/
theorem C09_accepts_attached_model (P : Prims) (hP : P.Lawful)
    (v : Version) (hv : v = v1 ∨ v = v2) (minor : Int) (signer nonce : Bytes)
    (plan : List (Bytes × Bool)) (hplan : ValidPlan v plan)
    (kr : Keyring) (hk : kr.lookupSigningPublicKey (P.sigPub signer) = some (P.sigPub signer))
    (h : SigHeader) (hb : Bytes) (blks : List SigBlock)
    (hs : Sign.attachedPacketsPlan P v minor signer nonce plan = .ok (h, hb, blks)) :
    Sign.verifyAll P knownMajor kr (.ok hb h) ⟨blks.map some, .eof⟩ =
      .ok (P.sigPub signer, (plan.map (·.1)).flatten) :=
  sign_roundtrip_plan P hP v hv minor signer nonce plan hplan kr hk h hb blks hs

/-- **Attached signatures END TO END with extras and any minor version** (the
    reference sender's bytes; cf. `C09_accepts_encryption_with_extras`) -/
theorem C09_accepts_attached_with_extras (P : Prims) (hP : P.Lawful) (v : Version) (hv : v = v1 ∨ v = v2)
    (o : Spec.Opts) (ho : SpecFollowing o) (hx : ExtrasWF o)
    (signer nonce : Bytes) (plan : List (Bytes × Bool)) (hplan : ValidPlan v plan)
    (hn : nonce.length < 2 ^ 32) (hchunks : ∀ p ∈ plan, p.1.length < 2 ^ 32)
    (hhb : (encode (Extras.sigHeaderVal (layoutOf v) o Spec.sModeAttached (P.sigPub signer) nonce)).length < 2 ^ 32)
    (kr : Keyring) (hk : kr.lookupSigningPublicKey (P.sigPub signer) = some (P.sigPub signer)) :
    ∃ hr ps, Wire.splitSig (Spec.attachedPlan P (layoutOf v) o signer nonce plan) = .ok (hr, ps) ∧
      Sign.verifyAll P knownMajor kr hr ps = .ok (P.sigPub signer, (plan.map (·.1)).flatten) :=
  spec_sig_accepted P hP v hv o ho hx signer nonce plan hplan hn hchunks hhb kr hk

/-! ## detached signatures -/

/-- **Detached signatures: any minor version, any header bytes.**  A signature
    over `hash(hash hb ‖ msg)` by `signer` verifies against `msg` under a header
    `[v.major, minor]` for an ARBITRARY `minor`, whatever bytes `hb` carried the
    header (e.g. with extra trailing elements). -/
theorem C09_accepts_detached (P : Prims) (hP : P.Lawful)
    (v : Version) (hv : v = v1 ∨ v = v2) (minor : Int) (signer nonce msg hb : Bytes)
    (kr : Keyring) (hk : kr.lookupSigningPublicKey (P.sigPub signer) = some (P.sigPub signer)) :
    Sign.verifyDetached P knownMajor kr
        (.ok hb (Sign.header ⟨v.major, minor⟩ (P.sigPub signer) mtDetached nonce))
        (.sig (P.sign signer (detachedSignatureInput P (P.hash hb) msg))) msg = .ok (P.sigPub signer) :=
  detached_roundtrip_gen P hP v hv minor signer nonce msg hb kr hk

/-- **Detached signatures END TO END with extras and any minor version**: the
    reference sender's bytes split into header and signature object, and the
    signature verifies against the message -/
theorem C09_accepts_detached_with_extras (P : Prims) (hP : P.Lawful) (v : Version) (hv : v = v1 ∨ v = v2)
    (o : Spec.Opts) (ho : SpecFollowing o) (hx : ExtrasWF o)
    (signer nonce msg : Bytes) (hn : nonce.length < 2 ^ 32)
    (hhb : (encode (Extras.sigHeaderVal (layoutOf v) o Spec.sModeDetached (P.sigPub signer) nonce)).length < 2 ^ 32)
    (kr : Keyring) (hk : kr.lookupSigningPublicKey (P.sigPub signer) = some (P.sigPub signer)) :
    ∃ hr sr, Wire.splitDetached (Spec.detached P (layoutOf v) o signer nonce msg) = .ok (hr, sr) ∧
      Sign.verifyDetached P knownMajor kr hr sr msg = .ok (P.sigPub signer) :=
  spec_detached_accepted P hP v hv o ho hx signer nonce msg hn hhb kr hk

/-! ## signcryption -/

/-- **Signcryption (box-key recipient): any chunking, any minor version, any
    header bytes, any keyring that holds the recipient's key, with or without a
    resolver.**  Sender: recipients passing `checkSigncryptReceivers`; the header
    `Signcrypt.header` computes, sent under version `[2, minor]` for an ARBITRARY
    `minor`; header bytes `hb` ARBITRARY; packets computed from `hash hb`.
    `hnc`: up to position `i` a ring key's derived identifier equals a header
    identifier only for the entry made for that key (cf. `C03_roundtrip_box_ring`).
    (Statement strengthened: formerly `Signcrypt.sealPacketsPlan` and the
    single-key ring; that form is `C09_accepts_signcryption_model`.) -/
theorem C09_accepts_signcryption (P : Prims) (hP : P.Lawful) (minor : Int)
    (sender : Option Bytes) (rs : List Signcrypt.Recipient) (eph payloadKey : Bytes)
    (plan : List (Bytes × Bool)) (hplan : ValidPlan v2 plan)
    (hpk : payloadKey.length = 32)
    (hsender : ∀ s, sender = some s → ¬ ((P.sigPub s).all (· == 0)))
    (hblocks : plan.length < 2 ^ 64 - 1)
    (sks : List Bytes) (res : Signcrypt.Resolver)
    (i : Nat) (hi : i < rs.length) (sk : Bytes) (hmem : sk ∈ sks) (hsk : rs.getD i default = .box (P.boxPub sk))
    (hcr : Signcrypt.checkReceivers rs [] = .ok ())
    (hb : Bytes) (blks : List SigncryptBlock)
    (hblk : Signcrypt.blockStructs P sender payloadKey (P.hash hb) plan 0 = .ok blks)
    (hnc : ∀ s ∈ sks, ∀ j, j ≤ i → j < rs.length →
      Signcrypt.keyIdentifier P (Signcrypt.derivedKeyFromBoxKeys P (P.boxPub eph) s) j =
        Decrypt.kidOf ((Signcrypt.header P sender eph payloadKey rs).receivers.getD j default) →
      rs.getD j default = .box (P.boxPub s)) :
    Signcrypt.openAll P (faithfulKeyring P sks) res
        (.ok hb { Signcrypt.header P sender eph payloadKey rs with version := ⟨2, minor⟩ }) ⟨blks.map some, .eof⟩ =
      .ok (sender.map P.sigPub, (plan.map (·.1)).flatten) :=
  sc_roundtrip_box_ring P hP minor sender rs eph payloadKey plan hplan.final (hplan.empty_v2 rfl) hpk hsender hblocks
    sks res i hi sk hmem hsk _ hb blks ⟨hcr, rfl, hblk⟩ hnc

/-- the code model's own sender `Signcrypt.sealPacketsPlan` and the single-key
    ring: the previous form of `C09_accepts_signcryption` -/
theorem C09_accepts_signcryption_model (P : Prims) (hP : P.Lawful)
    (sender : Option Bytes) (rs : List Signcrypt.Recipient) (eph payloadKey : Bytes)
    (plan : List (Bytes × Bool)) (hplan : ValidPlan v2 plan)
    (hpk : payloadKey.length = 32)
    (hsender : ∀ s, sender = some s → ¬ ((P.sigPub s).all (· == 0)))
    (hblocks : plan.length < 2 ^ 64 - 1)
    (i : Nat) (hi : i < rs.length) (sk : Bytes) (hsk : rs.getD i default = .box (P.boxPub sk))
    (h : EncHeader) (hb : Bytes) (blks : List SigncryptBlock)
    (hseal : Signcrypt.sealPacketsPlan P sender rs eph payloadKey plan = .ok (h, hb, blks))
    (hnc : ∀ j, j < i → Signcrypt.keyIdentifier P (Signcrypt.derivedKeyFromBoxKeys P (P.boxPub eph) sk) j ≠
        Decrypt.kidOf (h.receivers.getD j default)) :
    Signcrypt.openAll P (faithfulKeyring P [sk]) none (.ok hb h) ⟨blks.map some, .eof⟩ =
      .ok (sender.map P.sigPub, (plan.map (·.1)).flatten) :=
  sc_roundtrip_plan P hP sender rs eph payloadKey plan hplan hpk hsender hblocks i hi sk hsk h hb blks hseal hnc

/-- **Signcryption END TO END with extras and any minor version** (the reference
    sender's bytes; cf. `C09_accepts_encryption_with_extras`) -/
theorem C09_accepts_signcryption_with_extras (P : Prims) (hP : P.Lawful)
    (o : Spec.Opts) (ho : SpecFollowing o) (hx : ExtrasWF o)
    (sender : Option Bytes) (rs : List Signcrypt.Recipient) (eph payloadKey : Bytes)
    (plan : List (Bytes × Bool)) (hplan : ValidPlan v2 plan)
    (hcr : Signcrypt.checkReceivers rs [] = .ok ())
    (hpk : payloadKey.length = 32)
    (hsender : ∀ s, sender = some s → ¬ ((P.sigPub s).all (· == 0)))
    (hidLen : ∀ key ident, Signcrypt.Recipient.sym key ident ∈ rs → ident.length < 2 ^ 32)
    (hchunks : ∀ p ∈ plan, p.1.length + 80 < 2 ^ 32) (hblocks : plan.length < 2 ^ 64 - 1)
    (hhb : (encode (Extras.scHeaderVal P o sender rs eph payloadKey)).length < 2 ^ 32)
    (sks : List Bytes) (res : Signcrypt.Resolver)
    (i : Nat) (hi : i < rs.length) (sk : Bytes) (hmem : sk ∈ sks) (hsk : rs.getD i default = .box (P.boxPub sk))
    (hnc : ∀ s ∈ sks, ∀ j, j ≤ i → j < rs.length →
      Signcrypt.keyIdentifier P (Signcrypt.derivedKeyFromBoxKeys P (P.boxPub eph) s) j =
        Decrypt.kidOf ((Signcrypt.header P sender eph payloadKey rs).receivers.getD j default) →
      rs.getD j default = .box (P.boxPub s)) :
    ∃ hr ps, Wire.splitSigncrypt (Spec.signcryptPlan P o sender rs eph payloadKey plan) = .ok (hr, ps) ∧
      Signcrypt.openAll P (faithfulKeyring P sks) res hr ps =
        .ok (sender.map P.sigPub, (plan.map (·.1)).flatten) :=
  spec_signcrypt_accepted P hP o ho hx sender rs eph payloadKey plan hplan hcr hpk hsender hidLen hchunks hblocks hhb
    sks res i hi sk hmem hsk hnc

/-! ## forward compatibility, view level -/

/-- minor versions newer than the library knows: the shipped validator looks at
    the major version only -/
theorem C09_minor_ignored (ma mi mi' : Int) : knownMajor ⟨ma, mi⟩ = knownMajor ⟨ma, mi'⟩ :=
  knownMajor_ignores_minor ma mi mi'

/-- extra trailing list elements are ignored in the version pair… -/
theorem C09_version_extras (ma mi : Int) (ex : List Val) :
    viewVersion (.arr ([.int ma, .int mi] ++ ex)) = some ⟨ma, mi⟩ :=
  viewVersion_extras ma mi ex

/-- …in the headers… -/
theorem C09_header_extras (h : EncHeader) (ex : List Val) :
    (match h.toVal with
     | .arr fields => viewEncHeader (.arr (fields ++ ex))
     | _ => none) = some h :=
  viewEncHeader_extras h ex

theorem C09_sig_header_extras (h : SigHeader) (ex : List Val) :
    (match h.toVal with
     | .arr fields => viewSigHeader (.arr (fields ++ ex))
     | _ => none) = some h :=
  viewSigHeader_extras h ex

/-- …in every recipient pair… -/
theorem C09_recipient_extras (r : RecvKeys) (ex : List Val) :
    viewRecvKeys (.arr ([optBin r.kid, .bin r.box] ++ ex)) = some r :=
  viewRecvKeys_extras r ex

/-- …and in every payload packet of every mode and version -/
theorem C09_packet_extras (auths : List Bytes) (ct sig chunk : Bytes) (f : Bool) (ex : List Val)
    (ha : auths ≠ []) (hl : ∀ a ∈ auths, a.length = 32) :
    viewEncBlock 2 (.arr ([.bool f, .arr (auths.map .bin), .bin ct] ++ ex)) = some ⟨auths, ct, f⟩ ∧
    viewEncBlock 1 (.arr ([.arr (auths.map .bin), .bin ct] ++ ex)) = some ⟨auths, ct, false⟩ ∧
    viewSigncryptBlock (.arr ([.bin ct, .bool f] ++ ex)) = some ⟨ct, f⟩ ∧
    viewSigBlock 2 (.arr ([.bool f, .bin sig, .bin chunk] ++ ex)) = some ⟨sig, chunk, f⟩ ∧
    viewSigBlock 1 (.arr ([.bin sig, .bin chunk] ++ ex)) = some ⟨sig, chunk, false⟩ :=
  ⟨viewEncBlock_v2_extras auths ct f ex ha hl, viewEncBlock_v1_extras auths ct ex ha hl,
   viewSigncryptBlock_extras ct f ex, viewSigBlock_v2_extras sig chunk f ex, viewSigBlock_v1_extras sig chunk ex⟩

/-! ## non-vacuity -/

/-- one-byte chunks are a valid plan -/
example : ValidPlan v2 [([1], false), ([2], false), ([3], true)] :=
  ⟨⟨[([1], false), ([2], false)], [3], rfl, by decide⟩, by decide, by decide⟩

/-- options with minor version 7 and extras everywhere -/
def toyOpts : Spec.Opts :=
  { minor := 7, headerExtras := [.int 1, .str [120]], recvExtras := [.nil], packetExtras := [.bool true, .int (-3)] }

theorem toyOpts_following : SpecFollowing toyOpts := ⟨rfl, rfl, rfl⟩

theorem toyOpts_wf : ExtrasWF toyOpts := by
  refine ⟨?_, by decide, ?_, by decide, ?_, by decide, by decide, by decide⟩
  · intro x hx
    have : x = .int 1 ∨ x = .str [120] := by simpa [toyOpts] using hx
    rcases this with rfl | rfl
    · exact ValWF.int _ (by decide) (by decide)
    · exact ValWF.str _ (by decide)
  · intro x hx
    have : x = .nil := by simpa [toyOpts] using hx
    subst this
    exact ValWF.nil
  · intro x hx
    have : x = .bool true ∨ x = .int (-3) := by simpa [toyOpts] using hx
    rcases this with rfl | rfl
    · exact ValWF.bool _
    · exact ValWF.int _ (by decide) (by decide)

/-- **`C09_accepts_attached_with_extras` instantiated** (toy primitives, V2,
    minor version 7, extras in header and packets, one-byte chunks): the
    reference sender's bytes split and verify to the message `[1, 2, 3]` -/
example (kr : Keyring) (hk : kr.lookupSigningPublicKey (Toy.prims.sigPub [5]) = some (Toy.prims.sigPub [5])) :
    ∃ hr ps, Wire.splitSig (Spec.attachedPlan Toy.prims 2 toyOpts [5] (zeros 16)
        [([1], false), ([2], false), ([3], true)]) = .ok (hr, ps) ∧
      Sign.verifyAll Toy.prims knownMajor kr hr ps = .ok (Toy.prims.sigPub [5], [1, 2, 3]) :=
  C09_accepts_attached_with_extras Toy.prims Toy.lawful v2 (Or.inr rfl) toyOpts toyOpts_following toyOpts_wf
    [5] (zeros 16) [([1], false), ([2], false), ([3], true)]
    ⟨⟨[([1], false), ([2], false)], [3], rfl, by decide⟩, by decide, by decide⟩
    (by decide) (by decide) (by decide +kernel) kr hk

/-- toy recipients: a hidden one, then a visible one -/
def toyRs : List Recipient := [⟨Toy.prims.boxPub [4], true⟩, ⟨Toy.prims.boxPub [3], false⟩]

/-- **`C09_accepts_encryption_with_extras` instantiated** (toy primitives, V2,
    minor version 7, extras in header, recipient pairs and packets, one-byte
    chunks, a ring with a foreign key before the recipient's key): the reference
    sender's bytes split and open to `[1, 2, 3]` with the sender `[1]` -/
example : ∃ hr ps, Wire.splitEnc (Spec.encodePlan Toy.prims 2 toyOpts (some [1]) toyRs [2] (Toy.pad 32 [9])
        [([1], false), ([2], false), ([3], true)]) = .ok (hr, ps) ∧
      ∃ mki, Decrypt.openAll Toy.prims knownMajor (faithfulKeyring Toy.prims [[7], [3]]) hr ps =
        .ok (mki, [1, 2, 3]) ∧ mki.senderKey = Toy.prims.boxPub [1] := by
  obtain ⟨hr, ps, hsplit, i', sk', _, _, _, hopen⟩ :=
    C09_accepts_encryption_with_extras Toy.prims Toy.lawful v2 (Or.inr rfl) toyOpts toyOpts_following toyOpts_wf
      (some [1]) toyRs [2] (Toy.pad 32 [9]) [([1], false), ([2], false), ([3], true)]
      ⟨⟨[([1], false), ([2], false)], [3], rfl, by decide⟩, by decide, by decide⟩
      (by decide) (by decide) (by intro s hs; cases hs; decide) (by decide) (by decide) (by decide) (by decide)
      (by decide +kernel) [[7], [3]] 1 (by decide) [3] (by decide) (by decide)
      (by
        apply RingNoSpuriousOpen.of_foreign
        intro s hs j hj hhid hne n hn
        have hs' : s = [7] ∨ s = [3] := by simpa using hs
        have hj' : j = 0 ∨ j = 1 := by
          have : j < 2 := hj
          omega
        have hn' : n = Nonce.payloadKeyBoxV2 j := by
          simp only [Nonce.payloadKeyBox, show v2.major = 2 from rfl, show ¬ ((2 : Int) = 1) by decide,
            if_true, if_false, Except.ok.injEq] at hn
          exact hn.symm
        subst hn'
        rcases hs' with rfl | rfl <;> rcases hj' with rfl | rfl <;>
          first
            | decide
            | exact absurd hhid (by decide))
  exact ⟨hr, ps, hsplit, _, hopen, rfl⟩

end Saltpack.Props.C09
