/-
  Property C05 — attached signatures round trip to the exact message and signer.

  Statements only; proofs in Saltpack/Proofs/RoundTripSig.lean, ChunkPlan.lean.
  The theorems are about the packet structures the sender model builds
  (`Sign.attachedPackets`); `Sign.attachedWith` is exactly their MessagePack
  encoding, which the correspondence compares byte-for-byte with `Sign` /
  `NewSignStream` of the implementation, and Props/Wire relates bytes and
  structures (`parse ∘ encode = id`).
-/
import Saltpack.Proofs.RoundTripSig
import Saltpack.Proofs.MsgpackRT
import Saltpack.Proofs.WireRT
import Saltpack.Proofs.ArmoredRT
import Saltpack.Toy

namespace Saltpack.Props.C05
open Saltpack Saltpack.Encrypt

/-- **Round trip.** For every message, both versions, every chunk size, every
    signing key and header nonce: a keyring that knows the signer verifies the
    signed message to exactly the original bytes and returns the signer's key. -/
theorem C05_roundtrip (P : Prims) (hP : P.Lawful) (bs : Nat) (hbs : 0 < bs)
    (v : Version) (hv : v = v1 ∨ v = v2) (signer nonce msg : Bytes)
    (kr : Keyring) (hk : kr.lookupSigningPublicKey (P.sigPub signer) = some (P.sigPub signer))
    (h : SigHeader) (hb : Bytes) (blks : List SigBlock)
    (hs : Sign.attachedPackets P bs v signer nonce msg = .ok (h, hb, blks)) :
    Sign.verifyAll P knownMajor kr (.ok hb h) ⟨blks.map some, .eof⟩ = .ok (P.sigPub signer, msg) :=
  Proofs.sign_roundtrip P hP bs hbs v hv signer nonce msg kr hk h hb blks hs

/-- a keyring that does not know the signer gets `noSenderKey` and no bytes -/
theorem C05_no_sender_key (P : Prims) (bs : Nat)
    (v : Version) (hv : v = v1 ∨ v = v2) (signer nonce msg : Bytes)
    (kr : Keyring) (hk : kr.lookupSigningPublicKey (P.sigPub signer) = none)
    (h : SigHeader) (hb : Bytes) (blks : List SigBlock)
    (hs : Sign.attachedPackets P bs v signer nonce msg = .ok (h, hb, blks)) :
    Sign.verifyAll P knownMajor kr (.ok hb h) ⟨blks.map some, .eof⟩ = .error .noSenderKey ∧
    (Sign.verifyStream P knownMajor kr (.ok hb h) ⟨blks.map some, .eof⟩).released = [] :=
  Proofs.sign_no_key P bs v hv signer nonce msg kr hk h hb blks hs

/-- signing never fails for a supported version (so the round trip is not vacuous) -/
theorem C05_sign_total (P : Prims) (bs : Nat) (v : Version) (hv : v = v1 ∨ v = v2)
    (signer nonce msg : Bytes) :
    ∃ h hb blks, Sign.attachedPackets P bs v signer nonce msg = .ok (h, hb, blks) ∧
      blks.length = (chunkPlan v bs msg).length :=
  Proofs.attachedPackets_ok P bs v hv signer nonce msg

/-- chunking: the chunks concatenate to the message, none exceeds a block,
    exactly the last packet carries the final marker -/
theorem C05_chunking (v : Version) (bs : Nat) (hb : 0 < bs) (msg : Bytes) :
    ((chunkPlan v bs msg).map (·.1)).flatten = msg ∧
    (∀ p ∈ chunkPlan v bs msg, p.1.length ≤ bs) ∧
    (∃ pre c, chunkPlan v bs msg = pre ++ [(c, true)] ∧ ∀ p ∈ pre, p.2 = false) :=
  ⟨Proofs.chunkPlan_flatten v bs msg, Proofs.chunkPlan_size v bs hb msg, Proofs.chunkPlan_final v bs msg⟩

/-- streaming and all-at-once forms agree: `Verify` returns exactly what reading
    `NewVerifyStream` to the end releases, and only if that ended cleanly -/
theorem C05_forms_agree (P : Prims) (valid : Validator) (kr : Keyring) (hr : HeaderRead SigHeader)
    (ps : PStream SigBlock) (k m : Bytes) :
    Sign.verifyAll P valid kr hr ps = .ok (k, m) ↔
      (Sign.verifyStream P valid kr hr ps).err = none ∧ (Sign.verifyStream P valid kr hr ps).signer = some k ∧
      (Sign.verifyStream P valid kr hr ps).released = m := by
  unfold Sign.verifyAll
  generalize Sign.verifyStream P valid kr hr ps = r
  obtain ⟨sg, rel, err⟩ := r
  cases err <;> cases sg <;> simp
  all_goals (try (constructor <;> (rintro ⟨rfl, rfl⟩; exact ⟨rfl, rfl⟩)))

/-- binary form = structures: the bytes `Sign` emits parse back into the
    header bytes and packets (MessagePack round trip) -/
theorem C05_wire (v : Msgpack.Val) (hv : Proofs.ValWF v) (rest : Bytes) :
    Msgpack.parse1 (Msgpack.encode v ++ rest) = .ok (v, rest) :=
  Proofs.parse1_encode v hv rest

/-- **Round trip on the emitted BYTES**: what `Sign` emits, split as a
    verifier's MessagePack stream splits it, verifies to exactly the message and
    the signer's key -/
theorem C05_roundtrip_bytes (P : Prims) (hP : P.Lawful) (bs : Nat) (hbs : 0 < bs) (hbs32 : bs < 2 ^ 32)
    (v : Version) (hv : v = v1 ∨ v = v2) (signer nonce msg : Bytes) (hn : nonce.length + 92 < 2 ^ 32)
    (kr : Keyring) (hk : kr.lookupSigningPublicKey (P.sigPub signer) = some (P.sigPub signer))
    (out : Bytes) (hout : Sign.attachedWith P bs v signer nonce msg = .ok out) :
    ∃ hr ps, Wire.splitSig out = .ok (hr, ps) ∧
      Sign.verifyAll P knownMajor kr hr ps = .ok (P.sigPub signer, msg) :=
  Proofs.sign_roundtrip_bytes P hP bs hbs hbs32 v hv signer nonce msg hn kr hk out hout

/-- **Armored round trip** (`SignArmor62` ∘ `Dearmor62Verify`, model level): the
    armored text dearmors, with validated `BEGIN/END [brand] SALTPACK SIGNED
    MESSAGE` frames (`C11_roundtrip`), to exactly the binary message and the
    brand, and that payload verifies to the message and the signer's key. -/
theorem C05_roundtrip_armored (P : Prims) (hP : P.Lawful) (bs : Nat) (hbs : 0 < bs) (hbs32 : bs < 2 ^ 32)
    (v : Version) (hv : v = v1 ∨ v = v2) (signer nonce msg : Bytes) (hn : nonce.length + 92 < 2 ^ 32)
    (kr : Keyring) (hk : kr.lookupSigningPublicKey (P.sigPub signer) = some (P.sigPub signer))
    (brand : Bytes) (hbr : Proofs.BrandOK brand)
    (out : Bytes) (hout : Sign.attachedWith P bs v signer nonce msg = .ok out) :
    ∃ r hr ps, Armor.open62 (some mtAttached) (Armor.seal62 mtAttached brand out) = .ok r ∧
      r.payload = out ∧ r.brand = brand ∧
      Wire.splitSig r.payload = .ok (hr, ps) ∧
      Sign.verifyAll P knownMajor kr hr ps = .ok (P.sigPub signer, msg) :=
  Proofs.sign_armored_roundtrip P hP bs hbs hbs32 v hv signer nonce msg hn kr hk brand hbr out hout

/-- **Attached signatures under any minor version and any header bytes**
    (forward compatibility of the verifier; the general form behind
    `C05_roundtrip`, cf. `C09_accepts_attached`): a header `[v.major, minor]` for
    an arbitrary `minor`, carried by arbitrary bytes `hb` (hashed as sent), with
    packets signed over `hash hb`, verifies to the message of the Go sender's
    chunk plan. -/
theorem C05_roundtrip_any_minor (P : Prims) (hP : P.Lawful) (bs : Nat) (hbs : 0 < bs)
    (v : Version) (hv : v = v1 ∨ v = v2) (minor : Int) (signer nonce msg : Bytes)
    (kr : Keyring) (hk : kr.lookupSigningPublicKey (P.sigPub signer) = some (P.sigPub signer))
    (hb : Bytes) (blks : List SigBlock)
    (hblk : Sign.blockStructs P v signer (P.hash hb) (chunkPlan v bs msg) 0 = .ok blks) :
    Sign.verifyAll P knownMajor kr
        (.ok hb (Sign.header ⟨v.major, minor⟩ (P.sigPub signer) mtAttached nonce)) ⟨blks.map some, .eof⟩ =
      .ok (P.sigPub signer, msg) := by
  have hplan := Proofs.chunkPlan_valid v hv bs hbs msg
  have := Proofs.sign_roundtrip_gen P hP v hv minor signer nonce (chunkPlan v bs msg) hplan.final hplan.empty_v1
    hplan.empty_v2 kr hk _ hb blks ⟨rfl, hblk⟩
  rwa [Proofs.chunkPlan_flatten] at this

/-! ## non-vacuity: the hypotheses are met by the toy primitives -/
example : Toy.prims.Lawful := Toy.lawful

end Saltpack.Props.C05
