/-
  Property C13 — write-split independence of the WHOLE sender streams at byte
  level, header packet included (Model/SenderStream.lean: constructor, `Write`*,
  `Close` of `encryptStream` / `signcryptSealStream` / `signAttachedStream` /
  `signDetachedStream` as state machines over an underlying writer), as a
  corollary of `C14_sender_success_means_written`: the bytes a successful run
  leaves at the writer are the all-at-once output of the CONCATENATED plaintext
  (`Sender.oneShot` = `Encrypt.sealWith` / `Sign.attachedWith` /
  `Signcrypt.sealWith`, whose chunk plan is the one `C13_write_independent`
  speaks about), whatever the split — empty writes included.
  Checked against the real constructors by the correspondence streams
  `sender.split.*`.

  PARTIAL in one respect (hence the name): the statements are about runs whose
  calls REPORT success.  That over a never-failing writer every call does
  report success whenever the all-at-once form exists (no `ErrPacketOverflow`)
  is not proved here (the proof would thread the final plaintext through the
  `Write` loop to show that no packet number is refused); the correspondence
  observes it on every case.
-/
import Saltpack.Proofs.SenderStreamInst

namespace Saltpack.Props.C13
open Saltpack Saltpack.Sender Saltpack.Proofs.SenderP

/-- **Two splits of the same plaintext, same bytes** (any underlying writer):
    if both runs report success in every call, what the writer accepted is the
    same — the all-at-once output of the concatenation — and every `Write`
    returned the length of its argument. -/
theorem C13_sender_stream_independent_partial {ω : Type} (wr : ω → Bytes → Bool × ω) (obs : ω → Bytes)
    (hw : ObsWriter wr obs) (cfg : Cfg) (hp : ∀ b, (cfg.pieces b).flatten = b) (hb : 0 < cfg.bs)
    (hif : IndexFail cfg.pkt) (v : Version) (hv : cfg.v1shape = (v == v1)) (w0 : ω) (headerBytes : Bytes)
    (ws ws' : List Bytes) (hsame : ws.flatten = ws'.flatten)
    (hi : (PSt.init wr cfg.pieces w0 headerBytes).1 = true)
    (hws : ∀ x ∈ (PSt.writes wr cfg (PSt.init wr cfg.pieces w0 headerBytes).2 ws).1, x.2 = none)
    (hc : ((PSt.writes wr cfg (PSt.init wr cfg.pieces w0 headerBytes).2 ws).2.close wr cfg).1 = none)
    (hws' : ∀ x ∈ (PSt.writes wr cfg (PSt.init wr cfg.pieces w0 headerBytes).2 ws').1, x.2 = none)
    (hc' : ((PSt.writes wr cfg (PSt.init wr cfg.pieces w0 headerBytes).2 ws').2.close wr cfg).1 = none) :
    obs ((PSt.writes wr cfg (PSt.init wr cfg.pieces w0 headerBytes).2 ws).2.close wr cfg).2.codec.w =
      obs ((PSt.writes wr cfg (PSt.init wr cfg.pieces w0 headerBytes).2 ws').2.close wr cfg).2.codec.w ∧
    ∃ M, oneShot cfg v headerBytes ws.flatten = .ok M ∧
      obs ((PSt.writes wr cfg (PSt.init wr cfg.pieces w0 headerBytes).2 ws).2.close wr cfg).2.codec.w = obs w0 ++ M := by
  obtain ⟨B, hB, ho, _⟩ := run_success wr obs hw cfg hp hb hif v hv w0 headerBytes ws hi hws hc
  obtain ⟨B', hB', ho', _⟩ := run_success wr obs hw cfg hp hb hif v hv w0 headerBytes ws' hi hws' hc'
  rw [← hsame, hB] at hB'
  injection hB' with hB'
  refine ⟨by rw [ho, ho', hB'], headerPacket headerBytes ++ B, by simp [oneShot, hB], by rw [ho, List.append_assoc]⟩

/-- the stream = the all-at-once sender, for encryption: a successful run over
    the scripted writer leaves exactly `Encrypt.sealWith` of the concatenated
    plaintext, so any two splits give identical messages, identical in form to
    the all-at-once result -/
theorem C13_encrypt_stream_is_seal_partial (P : Prims) (bs : Nat) (hb : 0 < bs) (pieces : Bytes → List Bytes)
    (hp : ∀ b, (pieces b).flatten = b) (v : Version) (sender : Option Bytes) (rs : List Encrypt.Recipient)
    (eph pk : Bytes) (hbytes : Bytes) (cfg : Cfg) (hs : encryptSetup P bs pieces v sender rs eph pk = .ok (hbytes, cfg))
    (ws : List Bytes)
    (hi : (PSt.init Wr.write cfg.pieces ({} : Wr) hbytes).1 = true)
    (hws : ∀ x ∈ (PSt.writes Wr.write cfg (PSt.init Wr.write cfg.pieces ({} : Wr) hbytes).2 ws).1, x.2 = none)
    (hc : ((PSt.writes Wr.write cfg (PSt.init Wr.write cfg.pieces ({} : Wr) hbytes).2 ws).2.close Wr.write cfg).1 = none) :
    Encrypt.sealWith P bs v sender rs eph pk ws.flatten =
      .ok ((PSt.writes Wr.write cfg (PSt.init Wr.write cfg.pieces ({} : Wr) hbytes).2 ws).2.close Wr.write cfg).2.codec.w.bytes := by
  have hcfg := encryptSetup_cfg P bs pieces v sender rs eph pk hbytes cfg hs
  obtain ⟨B, hB, ho, _⟩ := run_success Wr.write Wr.bytes wr_obs cfg (by rw [hcfg.2.1]; exact hp)
    (by rw [hcfg.1]; exact hb) hcfg.2.2.2 v hcfg.2.2.1 ({} : Wr) hbytes ws hi hws hc
  rw [ho]
  exact (sealWith_iff_oneShot P bs pieces v sender rs eph pk ws.flatten _).2
    ⟨hbytes, cfg, hs, by simp [oneShot, hB, Wr.bytes]⟩

/-- the detached-signature stream: any split, same signature packet — `Write`
    only extends the hashed message, the run is `Sign.detachedWith` of the
    concatenation (UNCONDITIONALLY a prefix of it; all of it when the constructor
    and `Close` report success) -/
theorem C13_detached_stream_independent (pieces : Bytes → List Bytes) (hbytes : Bytes) (sp : Bytes → Bytes)
    (sink : Stream.Sink) (part : List Nat) (ws ws' : List Bytes) (hsame : ws.flatten = ws'.flatten) :
    (DSt.writes (DSt.init Wr.write pieces ({ sink := sink, part := part } : Wr) hbytes).2 ws).2.close Wr.write pieces sp =
      (DSt.writes (DSt.init Wr.write pieces ({ sink := sink, part := part } : Wr) hbytes).2 ws').2.close Wr.write pieces sp := by
  rw [(det_writes ws _).1, (det_writes ws' _).1, hsame]

/-! ## non-vacuity: three splits of [1,2,3,4,5] (toy configuration: 2-byte blocks) -/

private def toy : Cfg :=
  { bs := 2, v1shape := false, hasErr := true,
    pkt := fun i c f => .ok ([UInt8.ofNat i, if f then 1 else 0] ++ c), pieces := fun b => b.map ([·]) }

private def run (ws : List Bytes) : Bool × List (Nat × Option Err) × Option Err × Bytes :=
  let i := PSt.init Wr.write toy.pieces ({} : Wr) [7]
  let r := PSt.writes Wr.write toy i.2 ws
  let c := r.2.close Wr.write toy
  (i.1, r.1, c.1, c.2.codec.w.bytes)

example : (run [[1, 2, 3, 4, 5]]).2.2 = (none, [0xc4, 1, 7, 0, 0, 1, 2, 1, 0, 3, 4, 2, 1, 5]) := by decide
example : (run [[1], [], [2, 3], [4], [], [5], []]).2.2 = (run [[1, 2, 3, 4, 5]]).2.2 := by decide
example : (run [[1, 2], [3, 4], [5]]).2.2 = (run [[1, 2, 3, 4, 5]]).2.2 := by decide
example : oneShot toy v2 [7] [1, 2, 3, 4, 5] = .ok [0xc4, 1, 7, 0, 0, 1, 2, 1, 0, 3, 4, 2, 1, 5] := by decide

end Saltpack.Props.C13
