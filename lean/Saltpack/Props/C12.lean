/-
  Property C12 — abuse resistance: long-term secret keys only touch
  saltpack-specific inputs.  Statements only; proofs in Saltpack/Proofs/Calls.lean
  and Saltpack/Proofs/CallsExact.lean.

  Model functions that use a long-term key return the log of the calls they make
  on the application's key objects (operation, nonce, message), in program
  order; the correspondence compares these logs entry by entry with what
  logging key objects record around the real code, on genuine, mutated and
  forged input.
-/
import Saltpack.Proofs.Calls
import Saltpack.Proofs.CallsExact
import Saltpack.Gen.Inventory
import Saltpack.Toy

namespace Saltpack.Props.C12
open Saltpack Saltpack.Proofs

/-- **Call-site inventory** (regenerated from /repo's source on every run): every
    place where the library calls `Box`, `Unbox`, `Precompute` or `Sign` on an
    application key object — the sites the model's call logs account for.  A new
    site, or one that moves, breaks this obligation before any input is needed. -/
theorem C12_key_call_sites : Gen.keyCallSites = ["sp.computeMACKeySingle:Box", "sp.decryptStream.tryHiddenReceivers:Precompute", "sp.decryptStream.tryHiddenReceivers:Unbox", "sp.decryptStream.tryVisibleReceivers:Unbox", "sp.derivedEphemeralKeyFromBoxKeys:Box", "sp.encryptStream.init:Box", "sp.encryptStream.init:Precompute", "sp.signAttachedStream.computeSig:Sign", "sp.signDetachedStream.Close:Sign", "sp.signcryptSealStream.signcryptBlock:Sign"] := rfl

/-! ## receivers -/

/-- **Receivers (encryption), exact form.** Whatever header `h` (with bytes
    `hb`) and packets arrive and whatever the keyring answers, every call on a
    long-term key object is one of:

    * `Unbox` / shared `Unbox`: the nonce is `Nonce.payloadKeyBox h.version j` —
      the function of a recipient *index* `j` below the header's recipient
      count — and the ciphertext is the box of the header's `j`-th entry; the
      peer key is the header's ephemeral key as imported by the keyring.  No
      nonce byte and no other ciphertext is taken from the message;
    * `Box`: of the fixed 32 zero bytes, under a MAC-key nonce of the header
      hash `P.hash hb` (V1: its first 24 bytes; V2: `macKeyBoxV2` of a recipient
      index below the recipient count);
    * `Precompute` of a keyring secret key with the imported ephemeral key;

    and nothing else (no shared `Box`, no `Sign`). -/
theorem C12_decrypt_calls (P : Prims) (valid : Validator) (kr : Keyring) (hb : Bytes) (h : EncHeader)
    (ps : PStream EncBlock) :
    ∀ c ∈ (Decrypt.openStream P valid kr (.ok hb h) ps).calls,
      match c with
      | .unbox _ pk n ct =>
        kr.importBoxEphemeralKey h.ephemeral = some pk ∧
        ∃ j, j < h.receivers.length ∧ Nonce.payloadKeyBox h.version j = .ok n ∧
          ct = (h.receivers.getD j default).box
      | .sharedUnbox sk pk n ct =>
        sk ∈ kr.getAllBoxSecretKeys ∧ kr.importBoxEphemeralKey h.ephemeral = some pk ∧
        ∃ j, j < h.receivers.length ∧ Nonce.payloadKeyBox h.version j = .ok n ∧
          ct = (h.receivers.getD j default).box
      | .box _ _ n m =>
        m = zeros 32 ∧ ∃ j, j < h.receivers.length ∧
          ((h.version.major = 1 ∧ n = Nonce.macKeyBoxV1 (P.hash hb)) ∨
           (h.version.major = 2 ∧ ∃ e : Bool, n = Nonce.macKeyBoxV2 (P.hash hb) e j))
      | .precompute sk pk =>
        sk ∈ kr.getAllBoxSecretKeys ∧ kr.importBoxEphemeralKey h.ephemeral = some pk
      | .sharedBox _ _ _ _ => False
      | .sign _ _ => False := by
  intro c hc
  have := dec_calls_exact P valid kr hb h ps c hc
  cases c <;> exact this

/-- the index in the MAC-key nonces is the position of the matched entry: in a
    successful `processHeader` (state `st`), every `Box` of the log is of 32 zero
    bytes under V1: the first 24 bytes of the header hash, V2:
    `macKeyBoxV2 hh e st.position` -/
theorem C12_decrypt_mac_nonce_index (P : Prims) (valid : Validator) (kr : Keyring) (hh : Bytes) (h : EncHeader)
    (log : List KeyCall) (st : Decrypt.State)
    (hres : Decrypt.processHeader P valid kr hh h = (log, .ok st)) :
    ∀ sk pk n m, KeyCall.box sk pk n m ∈ log →
      m = zeros 32 ∧ st.position < h.receivers.length ∧
      ((h.version.major = 1 ∧ n = Nonce.macKeyBoxV1 hh) ∨
       (h.version.major = 2 ∧ ∃ e : Bool, n = Nonce.macKeyBoxV2 hh e st.position)) :=
  processHeader_box_position P valid kr hh h log st hres

/-- without a decodable header no key object is touched at all -/
theorem C12_decrypt_no_header_no_calls (P : Prims) (valid : Validator) (kr : Keyring)
    (hr : HeaderRead EncHeader) (ps : PStream EncBlock) (hno : ∀ hb h, hr ≠ .ok hb h) :
    (Decrypt.openStream P valid kr hr ps).calls = [] :=
  dec_calls_no_header P valid kr hr ps hno

/-- corollary (the former, weaker form of `C12_decrypt_calls`): every unbox
    nonce has the *shape* of a payload-key-box nonce -/
theorem C12_decrypt_calls_shape (P : Prims) (valid : Validator) (kr : Keyring) (hr : HeaderRead EncHeader)
    (ps : PStream EncBlock) :
    ∀ c ∈ (Decrypt.openStream P valid kr hr ps).calls, DecCallOK c :=
  dec_calls_ok P valid kr hr ps

/-- the admissible unbox nonces are fixed strings: the V1 one is a constant, the
    V2 one a constant prefix followed by an 8-byte counter -/
theorem C12_nonce_shapes :
    Nonce.payloadKeyBoxV1 = Gen.lit_sp_nonceForPayloadKeyBox_0 ∧
    (∀ i, Nonce.payloadKeyBoxV2 i = Gen.lit_sp_nonceForPayloadKeyBoxV2_0 ++ be64 i) ∧
    Gen.lit_sp_nonceForPayloadKeyBox_0.length = 24 ∧ Gen.lit_sp_nonceForPayloadKeyBoxV2_0.length = 16 := by
  refine ⟨rfl, fun _ => rfl, by decide, by decide⟩

/-- **Receivers (signcryption).** The box secret keys are used only to box 32
    zero bytes under the fixed `saltpack_derived_sboxkey` nonce. -/
theorem C12_signcrypt_open_calls (P : Prims) (kr : Keyring) (res : Signcrypt.Resolver)
    (hr : HeaderRead EncHeader) (ps : PStream SigncryptBlock) :
    ∀ c ∈ (Signcrypt.openStream P kr res hr ps).calls,
      ∃ sk pk, c = .box sk pk Nonce.derivedSharedKey (zeros 32) :=
  sc_calls_ok P kr res hr ps

/-- exact form: the whole log is empty, or exactly one such `Box` per box secret
    key of the keyring, in keyring order, against the header's ephemeral key as
    imported — never an unbox, never a nonce or ciphertext from the message -/
theorem C12_signcrypt_open_calls_exact (P : Prims) (kr : Keyring) (res : Signcrypt.Resolver)
    (hb : Bytes) (h : EncHeader) (ps : PStream SigncryptBlock) :
    (Signcrypt.openStream P kr res (.ok hb h) ps).calls = [] ∨
    ∃ eph, kr.importBoxEphemeralKey h.ephemeral = some eph ∧
      (Signcrypt.openStream P kr res (.ok hb h) ps).calls =
        kr.getAllBoxSecretKeys.map (fun sk => KeyCall.box sk eph Nonce.derivedSharedKey (zeros 32)) :=
  sc_calls_exact P kr res hb h ps

/-! ## senders: what is boxed and signed -/

/-- **Senders.** A sender's long-term box key only boxes 32 zero bytes. -/
theorem C12_sender_box_calls (v : Version) (sender : Option Bytes) (hh : Bytes) (rs : List Encrypt.Recipient) (i : Nat) :
    ∀ c ∈ Encrypt.senderCalls v sender hh rs i, ∃ sk pk n, c = .box sk pk n (zeros 32) :=
  sender_calls_ok v sender hh rs i

/-- **Signing keys, attached — exact input.** Every signing call is for the
    `k`-th element `(ch, f)` of the chunk plan and signs the attached domain
    string followed by
    V1: `SHA-512(hh ‖ be64 (i+k) ‖ ch)`, V2: `SHA-512(hh ‖ be64 (i+k) ‖ final byte ‖ ch)`
    — hash material over the header hash `hh`, never raw caller bytes (a sender
    that signed `domain ‖ msg` for a 64-byte caller message does not satisfy
    this).  `hh` is the hash of the emitted header bytes, which contain the
    fresh nonce: see `C12_sender_log_coherent_attached`. -/
theorem C12_attached_sign_inputs (P : Prims) (v : Version) (signer hh : Bytes)
    (plan : List (Bytes × Bool)) (i : Nat) :
    ∀ c ∈ Sign.signCalls P v signer hh plan i,
      ∃ k ch f, plan[k]? = some (ch, f) ∧ (v.major = 1 ∨ v.major = 2) ∧
        c = .sign signer (Gen.c_sp_signatureAttachedString ++
              (if v.major = 1 then P.hash (hh ++ be64 (i + k) ++ ch)
               else P.hash (hh ++ be64 (i + k) ++ finalByte f ++ ch))) :=
  attached_sign_inputs_exact P v signer hh plan i

/-- the same, index-aligned: for a version with major 1 or 2 the log is exactly
    one call per planned chunk, in order, the `k`-th for packet number `i + k` -/
theorem C12_attached_sign_inputs_indexed (P : Prims) (v : Version) (hv : v.major = 1 ∨ v.major = 2)
    (signer hh : Bytes) (plan : List (Bytes × Bool)) (i : Nat) :
    Sign.signCalls P v signer hh plan i =
      (plan.zipIdx i).map (fun p => KeyCall.sign signer
        (Gen.c_sp_signatureAttachedString ++
          (if v.major = 1 then P.hash (hh ++ be64 p.2 ++ p.1.1)
           else P.hash (hh ++ be64 p.2 ++ finalByte p.1.2 ++ p.1.1)))) :=
  attached_signCalls_index P v hv signer hh plan i

/-- corollary: a domain string followed by exactly 64 bytes -/
theorem C12_attached_sign_inputs_len (P : Prims) (hP : P.Lawful) (v : Version) (signer hh : Bytes)
    (plan : List (Bytes × Bool)) (i : Nat) :
    ∀ c ∈ Sign.signCalls P v signer hh plan i,
      ∃ d, d.length = 64 ∧ c = .sign signer (Gen.c_sp_signatureAttachedString ++ d) :=
  attached_sign_inputs P hP v signer hh plan i

/-- **detached — exact input**: domain string ‖ `SHA-512(header hash ‖ message)` -/
theorem C12_detached_sign_input (P : Prims) (hh msg : Bytes) :
    detachedSignatureInput P hh msg = Gen.c_sp_signatureDetachedString ++ P.hash (hh ++ msg) :=
  detached_sign_input_exact P hh msg

theorem C12_detached_sign_input_len (P : Prims) (hP : P.Lawful) (hh msg : Bytes) :
    ∃ d, d.length = 64 ∧ detachedSignatureInput P hh msg = Gen.c_sp_signatureDetachedString ++ d :=
  detached_sign_input P hP hh msg

/-- **signcryption — exact input**: for the `k`-th chunk `(ch, f)` of the plan:
    domain string ‖ header hash ‖ chunk nonce of `(f, i+k)` ‖ final byte ‖ `SHA-512(ch)`.
    Never raw caller- or attacker-chosen bytes. -/
theorem C12_signcrypt_sign_inputs (P : Prims) (sender : Option Bytes) (hh : Bytes)
    (plan : List (Bytes × Bool)) (i : Nat) :
    ∀ c ∈ Signcrypt.signCalls P sender hh plan i,
      ∃ s k ch f, sender = some s ∧ plan[k]? = some (ch, f) ∧
        c = .sign s (Gen.c_sp_signatureEncryptedString ++
              (hh ++ Nonce.chunkSigncryption hh f (i + k) ++ finalByte f ++ P.hash ch)) :=
  signcrypt_sign_inputs_exact P sender hh plan i

/-- the same, index-aligned (named sender): exactly one call per planned chunk -/
theorem C12_signcrypt_sign_inputs_indexed (P : Prims) (s hh : Bytes) (plan : List (Bytes × Bool)) (i : Nat) :
    Signcrypt.signCalls P (some s) hh plan i =
      (plan.zipIdx i).map (fun p => KeyCall.sign s
        (Gen.c_sp_signatureEncryptedString ++
          (hh ++ Nonce.chunkSigncryption hh p.1.2 p.2 ++ finalByte p.1.2 ++ P.hash p.1.1))) :=
  signcrypt_signCalls_index P s hh plan i

/-- corollary: 64 + 24 + 1 + 64 bytes after the domain string -/
theorem C12_signcrypt_sign_inputs_len (P : Prims) (hP : P.Lawful) (sender : Option Bytes) (hh : Bytes)
    (hhl : hh.length = 64) (plan : List (Bytes × Bool)) (i : Nat) :
    ∀ c ∈ Signcrypt.signCalls P sender hh plan i,
      ∃ s d, sender = some s ∧ d.length = 64 + 24 + 1 + 64 ∧
        c = .sign s (Gen.c_sp_signatureEncryptedString ++ d) :=
  signcrypt_sign_inputs P hP sender hh hhl plan i

/-! ## senders: the logs list exactly the key operations of the sender models

  `Sign.signCalls`, `Signcrypt.signCalls`, `Encrypt.senderCalls` are recursions
  written next to the functions that build the packets.  These theorems tie
  them to the packets: every signature / MAC key in an emitted message is the
  result of the corresponding logged call, one call per packet / recipient, in
  order, and the logs contain nothing else. -/

/-- the value a logged call returns -/
theorem C12_call_results (P : Prims) (k inp sk pk n m : Bytes) :
    Calls.sigOf P (.sign k inp) = P.sign k inp ∧ Calls.boxOf P (.box sk pk n m) = P.box sk pk n m ∧
    (∀ b, Calls.macKeyOfBox b = (b.drop 16).take 32) :=
  ⟨rfl, rfl, fun _ => rfl⟩

/-- **attached**: `Sign` emits header `h` (carrying the fresh `nonce`), header
    bytes `hb` and blocks `blks`; block `k` is ⟨result of the `k`-th logged call,
    `k`-th chunk, `k`-th flag⟩, the log being taken under `P.hash hb` -/
theorem C12_sender_log_coherent_attached (P : Prims) (bs : Nat) (v : Version) (signer nonce msg : Bytes)
    (h : SigHeader) (hb : Bytes) (blks : List SigBlock)
    (hok : Sign.attachedPackets P bs v signer nonce msg = .ok (h, hb, blks)) :
    h = Sign.header v (P.sigPub signer) mtAttached nonce ∧ h.nonce = nonce ∧ hb = Msgpack.encode h.toVal ∧
    (Sign.signCalls P v signer (P.hash hb) (Encrypt.chunkPlan v bs msg) 0).length = (Encrypt.chunkPlan v bs msg).length ∧
    blks = List.zipWith (fun c p => (⟨Calls.sigOf P c, p.1, p.2⟩ : SigBlock))
      (Sign.signCalls P v signer (P.hash hb) (Encrypt.chunkPlan v bs msg) 0) (Encrypt.chunkPlan v bs msg) :=
  attachedPackets_coherent P bs v signer nonce msg h hb blks hok

/-- the same for any plan and start number (the recursion itself) -/
theorem C12_sender_log_coherent_attached_blocks (P : Prims) (v : Version) (signer hh : Bytes)
    (plan : List (Bytes × Bool)) (i : Nat) (blks : List SigBlock)
    (h : Sign.blockStructs P v signer hh plan i = .ok blks) :
    (Sign.signCalls P v signer hh plan i).length = plan.length ∧
    blks = List.zipWith (fun c p => (⟨Calls.sigOf P c, p.1, p.2⟩ : SigBlock))
      (Sign.signCalls P v signer hh plan i) plan :=
  sign_blockStructs_coherent P v signer hh plan i blks h

/-- **detached**: the one signature of the message is the result of the one
    logged call, whose input is bound to the hash of the emitted header bytes -/
theorem C12_sender_log_coherent_detached (P : Prims) (v : Version) (signer nonce msg m : Bytes)
    (hok : Sign.detachedWith P v signer nonce msg = .ok m) :
    ∃ hb, hb = Msgpack.encode (Sign.header v (P.sigPub signer) mtDetached nonce).toVal ∧
      m = headerPacket hb ++ Msgpack.encBin
        (Calls.sigOf P (.sign signer (Gen.c_sp_signatureDetachedString ++ P.hash (P.hash hb ++ msg)))) :=
  detachedWith_coherent P v signer nonce msg m hok

/-- **signcryption, named sender**: block `k` of the emitted message is the
    secretbox, under the chunk nonce, of (result of the `k`-th logged call ‖
    chunk `k`), the log being taken under the hash of the emitted header bytes -/
theorem C12_sender_log_coherent_signcrypt (P : Prims) (bsz : Nat) (s : Bytes) (rs : List Signcrypt.Recipient)
    (eph pk pt : Bytes) (h : EncHeader) (hb : Bytes) (blks : List SigncryptBlock)
    (hok : Signcrypt.sealPackets P bsz (some s) rs eph pk pt = .ok (h, hb, blks)) :
    h = Signcrypt.header P (some s) eph pk rs ∧ hb = Msgpack.encode h.toVal ∧
    (Signcrypt.signCalls P (some s) (P.hash hb) (Encrypt.chunkPlan v2 bsz pt) 0).length
      = (Encrypt.chunkPlan v2 bsz pt).length ∧
    blks = List.zipWith
      (fun c p => (⟨P.sbSeal pk (Nonce.chunkSigncryption (P.hash hb) p.1.2 p.2) (Calls.sigOf P c ++ p.1.1), p.1.2⟩ : SigncryptBlock))
      (Signcrypt.signCalls P (some s) (P.hash hb) (Encrypt.chunkPlan v2 bsz pt) 0)
      ((Encrypt.chunkPlan v2 bsz pt).zipIdx 0) :=
  signcrypt_sealPackets_coherent P bsz s rs eph pk pt h hb blks hok

theorem C12_sender_log_coherent_signcrypt_blocks (P : Prims) (s pk hh : Bytes)
    (plan : List (Bytes × Bool)) (i : Nat) (bs : List SigncryptBlock)
    (h : Signcrypt.blockStructs P (some s) pk hh plan i = .ok bs) :
    (Signcrypt.signCalls P (some s) hh plan i).length = plan.length ∧
    bs = List.zipWith
      (fun c p => (⟨P.sbSeal pk (Nonce.chunkSigncryption hh p.1.2 p.2) (Calls.sigOf P c ++ p.1.1), p.1.2⟩ : SigncryptBlock))
      (Signcrypt.signCalls P (some s) hh plan i) (plan.zipIdx i) :=
  signcrypt_blockStructs_coherent P s pk hh plan i bs h

/-- anonymous signcryption: no signing call at all, 64 zero bytes in the slot -/
theorem C12_sender_log_coherent_signcrypt_anon (P : Prims) (pk hh : Bytes)
    (plan : List (Bytes × Bool)) (i : Nat) (bs : List SigncryptBlock)
    (h : Signcrypt.blockStructs P none pk hh plan i = .ok bs) :
    Signcrypt.signCalls P none hh plan i = [] ∧
    bs = (plan.zipIdx i).map
      (fun p => (⟨P.sbSeal pk (Nonce.chunkSigncryption hh p.1.2 p.2) (zeros 64 ++ p.1.1), p.1.2⟩ : SigncryptBlock)) :=
  signcrypt_blockStructs_coherent_anon P pk hh plan i bs h

/-- **encryption V1, named sender `s`**: the `k`-th MAC key is bytes 16..48 of
    the result of the `k`-th logged `Box` -/
theorem C12_sender_log_coherent_encrypt_v1 (P : Prims) (s eSecret hh : Bytes) (rs : List Encrypt.Recipient) (i : Nat)
    (mks : List Bytes) (h : Encrypt.macKeysSender P v1 s eSecret hh rs i = .ok mks) :
    mks = (Encrypt.senderCalls v1 (some s) hh rs i).map (fun c => Calls.macKeyOfBox (Calls.boxOf P c)) :=
  macKeysSender_coherent_v1 P s eSecret hh rs i mks h

/-- **encryption V2, named sender `s`**: one logged `Box` per recipient; the
    `k`-th MAC key is `SHA-512(bytes 16..48 of the k-th logged Box ‖ the MAC key
    of the ephemeral key for recipient k)[:32]` -/
theorem C12_sender_log_coherent_encrypt_v2 (P : Prims) (s eSecret hh : Bytes) (rs : List Encrypt.Recipient) (i : Nat)
    (mks : List Bytes) (h : Encrypt.macKeysSender P v2 s eSecret hh rs i = .ok mks) :
    (Encrypt.senderCalls v2 (some s) hh rs i).length = rs.length ∧
    mks = List.zipWith
      (fun c p => sum512Truncate256 P (Calls.macKeyOfBox (Calls.boxOf P c) ++
          macKeySingle P eSecret p.1.pub (Nonce.macKeyBoxV2 hh true p.2)))
      (Encrypt.senderCalls v2 (some s) hh rs i) (rs.zipIdx i) :=
  macKeysSender_coherent_v2 P s eSecret hh rs i mks h

/-- an anonymous sender has no long-term key: nothing is logged -/
theorem C12_sender_log_coherent_encrypt_anon (v : Version) (hh : Bytes) (rs : List Encrypt.Recipient) (i : Nat) :
    Encrypt.senderCalls v none hh rs i = [] :=
  senderCalls_anon v hh rs i

/-- `Seal`'s packets: the MAC keys behind the emitted authenticators are
    `macKeysSender` under the hash of the emitted header bytes -/
theorem C12_sender_log_coherent_encrypt_packets (P : Prims) (bsz : Nat) (v : Version) (sender : Option Bytes)
    (rs : List Encrypt.Recipient) (eph pk pt : Bytes) (h : EncHeader) (hb : Bytes) (blks : List EncBlock)
    (hok : Encrypt.sealPackets P bsz v sender rs eph pk pt = .ok (h, hb, blks)) :
    Encrypt.header P v sender eph pk rs = .ok h ∧ hb = Msgpack.encode h.toVal ∧
    ∃ mks, Encrypt.macKeysSender P v (sender.getD eph) eph (P.hash hb) rs 0 = .ok mks ∧
      Encrypt.blockStructs P v pk (P.hash hb) mks (Encrypt.chunkPlan v bsz pt) 0 = .ok blks :=
  sealPackets_coherent P bsz v sender rs eph pk pt h hb blks hok

/-- the log the correspondence compares (`sealRandCalls`) is `senderCalls` under
    the hash of the header bytes of the very message `sealRand` emits, for the
    recipient order that message uses -/
theorem C12_sender_log_coherent_seal (P : Prims) (bsz : Nat) (v : Version) (sender : Option Bytes)
    (rs : List Encrypt.Recipient) (eph : Encrypt.EphSource) (src : Rand.Source) (pt m : Bytes) (rest : Rand.Source)
    (h : Encrypt.sealRand P bsz v sender rs eph src pt = .ok (m, rest)) :
    ∃ js src1 ephSec pk hd hb blks body,
      Encrypt.shuffleDraws (rs.length - 1) src (src.length + 1) = .ok (js, src1) ∧
      Encrypt.sealPackets P bsz v sender (Rand.shuffle js rs) ephSec pk pt = .ok (hd, hb, blks) ∧
      Encrypt.encodeBlocks v blks = .ok body ∧ m = headerPacket hb ++ body ∧
      Encrypt.sealRandCalls P v sender rs eph src =
        .ok (Encrypt.senderCalls v sender (P.hash hb) (Rand.shuffle js rs) 0) :=
  sealRand_calls_coherent P bsz v sender rs eph src pt m rest h

/-! ## non-vacuity -/

example : Toy.prims.Lawful := Toy.lawful
/-- the predicate is not trivially true: an unbox under a message-derived nonce
    would violate it -/
example : ¬ DecCallOK (.unbox [] [] [1, 2, 3] []) := by
  simp only [DecCallOK, PayloadKeyNonce]
  rintro (h | ⟨i, h⟩)
  · exact absurd (congrArg List.length h) (by decide)
  · have := congrArg List.length h
    simp [Nonce.payloadKeyBoxV2, be64_length] at this

/-- the exact form excludes what the shape form allows: an unbox whose nonce has
    the right 16-byte prefix but a counter that is not a recipient index of the
    header (here: counter 7, one recipient) -/
example (kr : Keyring) (hh : Bytes) (sk pk : Bytes) :
    let h : EncHeader := { formatName := [], version := v2, typ := 0, ephemeral := [],
                           senderSecretbox := [], receivers := [⟨none, [9]⟩] }
    DecCallOK (.unbox sk pk (Nonce.payloadKeyBoxV2 7) [9]) ∧
    ¬ DecCallExact kr hh h (.unbox sk pk (Nonce.payloadKeyBoxV2 7) [9]) := by
  intro h
  refine ⟨Or.inr ⟨7, rfl⟩, ?_⟩
  rintro ⟨_, j, hj, hn, _⟩
  have hj0 : j = 0 := by
    have : h.receivers.length = 1 := rfl
    omega
  subst hj0
  have hn' : Nonce.payloadKeyBoxV2 0 = Nonce.payloadKeyBoxV2 7 := by
    have : Nonce.payloadKeyBox h.version 0 = .ok (Nonce.payloadKeyBoxV2 0) := rfl
    rw [this] at hn
    cases hn
  exact absurd (payloadKeyBoxV2_inj 0 7 (by decide) (by decide) hn') (by decide)

/-- the receiver log is not empty: a keyring with one secret key against a V2
    header with two hidden entries — one precomputation, then one shared unbox
    per entry, under the nonce of the entry's *index*, of the entry's box -/
example :
    (Decrypt.openStream Toy.prims (fun _ => true)
        (⟨fun _ => (-1, none), fun _ => none, [[5]], fun e => some e, fun _ => none⟩ : Keyring)
        (.ok [0] { formatName := Gen.c_sp_FormatName, version := v2, typ := mtEncryption, ephemeral := [1],
                   senderSecretbox := [], receivers := [⟨none, [9]⟩, ⟨none, [8]⟩] })
        ⟨[], .eof⟩).calls =
      [.precompute [5] [1], .sharedUnbox [5] [1] (Nonce.payloadKeyBoxV2 0) [9],
       .sharedUnbox [5] [1] (Nonce.payloadKeyBoxV2 1) [8]] := by decide

/-- the logs are not empty: one attached-signature call per planned chunk -/
example : (Sign.signCalls Toy.prims v2 [1] [2] [([3], false), ([4], true)] 0).length = 2 := by decide

end Saltpack.Props.C12
