/-
  Property C12 — abuse resistance: long-term secret keys only touch
  saltpack-specific inputs.  Statements only; proofs in Saltpack/Proofs/Calls.lean.

  Model functions that use a long-term key return the log of the calls they make
  on the application's key objects (operation, nonce, message), in program
  order; the correspondence compares these logs entry by entry with what
  logging key objects record around the real code, on genuine, mutated and
  forged input.
-/
import Saltpack.Proofs.Calls
import Saltpack.Gen.Inventory
import Saltpack.Toy

namespace Saltpack.Props.C12
open Saltpack Saltpack.Proofs

/-- **Call-site inventory** (regenerated from /repo's source on every run): every
    place where the library calls `Box`, `Unbox`, `Precompute` or `Sign` on an
    application key object — the sites the model's call logs account for.  A new
    site, or one that moves, breaks this obligation before any input is needed. -/
theorem C12_key_call_sites : Gen.keyCallSites = ["sp.computeMACKeySingle:Box", "sp.decryptStream.tryHiddenReceivers:Precompute", "sp.decryptStream.tryHiddenReceivers:Unbox", "sp.decryptStream.tryVisibleReceivers:Unbox", "sp.derivedEphemeralKeyFromBoxKeys:Box", "sp.encryptStream.init:Box", "sp.encryptStream.init:Precompute", "sp.signAttachedStream.computeSig:Sign", "sp.signDetachedStream.Close:Sign", "sp.signcryptSealStream.signcryptBlock:Sign"] := rfl

/-- **Receivers (encryption).** Whatever header and packets arrive and whatever
    the keyring answers: every box the long-term secret key is asked to open is
    opened under the V1 constant or `saltpack_recipsb ‖ be64(index)` — a function
    of the recipient *index*, never of message bytes; every other use is boxing
    the fixed 32 zero bytes (MAC-key derivation) or a precomputation. -/
theorem C12_decrypt_calls (P : Prims) (valid : Validator) (kr : Keyring) (hr : HeaderRead EncHeader)
    (ps : PStream EncBlock) :
    ∀ c ∈ (Decrypt.openStream P valid kr hr ps).calls, DecCallOK c :=
  dec_calls_ok P valid kr hr ps

/-- the admissible unbox nonces are fixed strings: the V1 one is a constant, the
    V2 one a constant prefix followed by an 8-byte counter -/
theorem C12_nonce_shapes :
    Nonce.payloadKeyBoxV1 = Gen.lit_sp_nonceForPayloadKeyBox_0 ∧
    (∀ i, Nonce.payloadKeyBoxV2 i = Gen.lit_sp_nonceForPayloadKeyBoxV2_0 ++ be64 i) ∧
    Gen.lit_sp_nonceForPayloadKeyBox_0.length = 24 ∧ Gen.lit_sp_nonceForPayloadKeyBoxV2_0.length = 16 := by
  refine ⟨rfl, fun _ => rfl, by decide, by decide⟩

/-- **Receivers (signcryption).** The box secret keys are used only to box 32
    zero bytes under the fixed `saltpack_derived_sboxkey` nonce. -/
theorem C12_signcrypt_open_calls (P : Prims) (kr : Keyring) (res : Signcrypt.Resolver)
    (hr : HeaderRead EncHeader) (ps : PStream SigncryptBlock) :
    ∀ c ∈ (Signcrypt.openStream P kr res hr ps).calls,
      ∃ sk pk, c = .box sk pk Nonce.derivedSharedKey (zeros 32) :=
  sc_calls_ok P kr res hr ps

/-- **Senders.** A sender's long-term box key only boxes 32 zero bytes. -/
theorem C12_sender_box_calls (v : Version) (sender : Option Bytes) (hh : Bytes) (rs : List Encrypt.Recipient) (i : Nat) :
    ∀ c ∈ Encrypt.senderCalls v sender hh rs i, ∃ sk pk n, c = .box sk pk n (zeros 32) :=
  sender_calls_ok v sender hh rs i

/-- **Signing keys** are asked to sign only: a domain-separation string followed
    by fixed-length hash material — attached: 64 bytes = SHA-512 over the header
    hash (which covers the fresh random header nonce), the packet number, the
    final flag and the chunk; -/
theorem C12_attached_sign_inputs (P : Prims) (hP : P.Lawful) (v : Version) (signer hh : Bytes)
    (plan : List (Bytes × Bool)) (i : Nat) :
    ∀ c ∈ Sign.signCalls P v signer hh plan i,
      ∃ d, d.length = 64 ∧ c = .sign signer (Gen.c_sp_signatureAttachedString ++ d) :=
  attached_sign_inputs P hP v signer hh plan i

/-- detached: 64 bytes = SHA-512(header hash ‖ message); -/
theorem C12_detached_sign_input (P : Prims) (hP : P.Lawful) (hh msg : Bytes) :
    ∃ d, d.length = 64 ∧ detachedSignatureInput P hh msg = Gen.c_sp_signatureDetachedString ++ d :=
  detached_sign_input P hP hh msg

/-- signcryption: 64 + 24 + 1 + 64 bytes = header hash ‖ nonce ‖ final ‖ SHA-512(chunk).
    Never raw caller- or attacker-chosen bytes. -/
theorem C12_signcrypt_sign_inputs (P : Prims) (hP : P.Lawful) (sender : Option Bytes) (hh : Bytes)
    (hhl : hh.length = 64) (plan : List (Bytes × Bool)) (i : Nat) :
    ∀ c ∈ Signcrypt.signCalls P sender hh plan i,
      ∃ s d, sender = some s ∧ d.length = 64 + 24 + 1 + 64 ∧
        c = .sign s (Gen.c_sp_signatureEncryptedString ++ d) :=
  signcrypt_sign_inputs P hP sender hh hhl plan i

example : Toy.prims.Lawful := Toy.lawful
/-- the predicate is not trivially true: an unbox under a message-derived nonce
    would violate it -/
example : ¬ DecCallOK (.unbox [] [] [1, 2, 3] []) := by
  simp only [DecCallOK, PayloadKeyNonce]
  rintro (h | ⟨i, h⟩)
  · exact absurd (congrArg List.length h) (by decide)
  · have := congrArg List.length h
    simp [Nonce.payloadKeyBoxV2, be64_length] at this

end Saltpack.Props.C12
