/-
  Property C20 — independent operations may run concurrently without
  interference.

  Two parts:
  * `C20_frame`: the *generated* effect summary of /repo (extractor: SSA of every
    non-test function outside `init`/`NewEncoding` and the `basic` keyring's own
    Import/Generate/New mutators) contains no store, map update, foreign
    pointer-receiver call or interface invocation whose target is rooted in a
    package-level variable or reached through ANY pointer to a `basex.Encoding`
    or a `basic.Keyring` — wherever that pointer came from (a parameter, a field
    such as `encoder.enc` or `armorParams.Encoding`, a call result): the shared
    state is read-only after construction.  Re-checked by the kernel on every run.
  * `C20_globals_known`: the *generated* list of package-level variables is,
    entry for entry, the list written out here (error values, the four shipped
    encodings, the armor parameters, the eight frame-checker function values) —
    a new, renamed or removed global breaks this obligation before any input is
    needed, however it is named.
  * `C20_schedule_independent` / `C20_schedules_agree`: GENERIC facts about
    interleavings (nothing saltpack-specific in them): in a machine where
    threads interleave atomic steps over private state and a shared state that,
    by the TYPE of `step`, no step can write, every schedule gives each thread
    exactly the state of its solo run.  They say what "no interference" means
    once the shared state is read-only; that saltpack's shared state IS
    read-only after construction is the content of `C20_frame` alone (and of the
    race-detector runs), not of these two theorems.
  What this cannot exhibit (labelled partial in MANIFEST): soundness of the
  static write-set extraction (aliasing through interfaces, stdlib internals)
  and the Go memory model itself; the thorough tier adds a race-detector run.
-/
import Saltpack.Gen.Inventory

namespace Saltpack.Props.C20

/-- the shared write set of the current source tree is empty -/
theorem C20_frame : Saltpack.Gen.sharedWrites = [] := by decide


/-- **The package-level variables are exactly these** (regenerated from /repo's
    typed AST on every run; compared entry by entry, so a new mutable global
    fails here whatever its name — no name-prefix filter): the BaseX error
    value and the four shipped encodings (`*basex.Encoding`, written only by
    `NewEncoding` during package initialisation — outside the effect summary's
    scope by construction, and never afterwards: `C20_frame`), the armor
    parameters, the `Err…` sentinel values, and the eight frame-checker
    function values. -/
theorem C20_globals_known : Saltpack.Gen.globals = ["basex.Base58StdEncoding", "basex.Base58StdEncodingStrict", "basex.Base62StdEncoding", "basex.Base62StdEncodingStrict", "basex.ErrInvalidEncodingLength", "sp.Armor62Params", "sp.ErrBadBoxKey", "sp.ErrBadEphemeralKey", "sp.ErrBadLookup", "sp.ErrBadReceivers", "sp.ErrBadSenderKeySecretbox", "sp.ErrBadSignature", "sp.ErrBadSymmetricKey", "sp.ErrDecryptionFailed", "sp.ErrFailedToReadHeaderBytes", "sp.ErrInsufficientRandomness", "sp.ErrNoDecryptionKey", "sp.ErrNotASaltpackMessage", "sp.ErrOverflow", "sp.ErrPacketOverflow", "sp.ErrPunctuated", "sp.ErrShortSliceOrBuffer", "sp.ErrTrailingGarbage", "sp.ErrUnexpectedEmptyBlock", "sp.ErrWrongNumberOfKeys", "sp.armor62DetachedSignatureFrameChecker", "sp.armor62DetachedSignatureHeaderChecker", "sp.armor62EncryptionFrameChecker", "sp.armor62EncryptionHeaderChecker", "sp.armor62SignatureFrameChecker", "sp.armor62SignatureHeaderChecker", "sp.armor62SigncryptionFrameChecker", "sp.armor62SigncryptionHeaderChecker"] := rfl

/-- **No lock, pool, atomic, channel, hash or buffer state is reachable from a
    package-level variable** (regenerated from the types of /repo on every run):
    the effect summary sees stores and calls; a `sync.Pool` or a mutex-guarded
    cache hung on a shared `*basex.Encoding` mutates through methods of a foreign
    package instead, and is caught here by its TYPE. -/
theorem C20_no_sync_in_shared : Saltpack.Gen.sharedHazards = [] := by decide

/-- the expected shape of all memory reachable from package-level variables -/
def expectedSharedShapes : List String := ["basex.Base58StdEncoding : *basex.Encoding=struct{encode []byte; decodeMap [256]*math/big.Int; skipMap [256]bool; base256BlockLen int; baseXBlockLen int; base int; logOfBase float64; baseBig *math/big.Int; skipBytes string}", "basex.Base58StdEncodingStrict : *basex.Encoding=struct{encode []byte; decodeMap [256]*math/big.Int; skipMap [256]bool; base256BlockLen int; baseXBlockLen int; base int; logOfBase float64; baseBig *math/big.Int; skipBytes string}", "basex.Base62StdEncoding : *basex.Encoding=struct{encode []byte; decodeMap [256]*math/big.Int; skipMap [256]bool; base256BlockLen int; baseXBlockLen int; base int; logOfBase float64; baseBig *math/big.Int; skipBytes string}", "basex.Base62StdEncodingStrict : *basex.Encoding=struct{encode []byte; decodeMap [256]*math/big.Int; skipMap [256]bool; base256BlockLen int; baseXBlockLen int; base int; logOfBase float64; baseBig *math/big.Int; skipBytes string}", "basex.ErrInvalidEncodingLength : error", "sp.Armor62Params : sp.armorParams=struct{BytesPerWord int; WordsPerLine int; Punctuation byte; Encoding *basex.Encoding=struct{encode []byte; decodeMap [256]*math/big.Int; skipMap [256]bool; base256BlockLen int; baseXBlockLen int; base int; logOfBase float64; baseBig *math/big.Int; skipBytes string}}", "sp.ErrBadBoxKey : error", "sp.ErrBadEphemeralKey : error", "sp.ErrBadLookup : error", "sp.ErrBadReceivers : error", "sp.ErrBadSenderKeySecretbox : error", "sp.ErrBadSignature : error", "sp.ErrBadSymmetricKey : error", "sp.ErrDecryptionFailed : error", "sp.ErrFailedToReadHeaderBytes : error", "sp.ErrInsufficientRandomness : error", "sp.ErrNoDecryptionKey : error", "sp.ErrNotASaltpackMessage : error", "sp.ErrOverflow : error", "sp.ErrPacketOverflow : error", "sp.ErrPunctuated : error", "sp.ErrShortSliceOrBuffer : error", "sp.ErrTrailingGarbage : error", "sp.ErrUnexpectedEmptyBlock : error", "sp.ErrWrongNumberOfKeys : error", "sp.armor62DetachedSignatureFrameChecker : sp.FrameChecker=func", "sp.armor62DetachedSignatureHeaderChecker : sp.HeaderChecker=func", "sp.armor62EncryptionFrameChecker : sp.FrameChecker=func", "sp.armor62EncryptionHeaderChecker : sp.HeaderChecker=func", "sp.armor62SignatureFrameChecker : sp.FrameChecker=func", "sp.armor62SignatureHeaderChecker : sp.HeaderChecker=func", "sp.armor62SigncryptionFrameChecker : sp.FrameChecker=func", "sp.armor62SigncryptionHeaderChecker : sp.HeaderChecker=func"]

/-- **The shared state has exactly this shape**: own struct types expanded field
    by field, so a new field of `basex.Encoding` or `armorParams` (a cache, a
    scratch buffer, a pool) fails here before any schedule is needed; the fields
    present are the immutable-after-construction tables `C20_frame` speaks about. -/
theorem C20_shared_shape : Saltpack.Gen.sharedShapes = expectedSharedShapes := rfl

/-- the byte-list rendering of the same names (kept for kernel-reducible
    checks) is in step with it, character for character -/
theorem C20_globals_bytes_in_step :
    Saltpack.Gen.globalsBytes.map (·.map UInt8.toNat) =
      Saltpack.Gen.globals.map (fun s => s.toList.map Char.toNat) := by
  decide

/-- an interleaved machine: `step t g s` is one atomic step of thread `t` on its
    private state `s`, reading the shared state `g` — and, by its type, unable
    to change it (that is what `C20_frame` establishes for the code) -/
def runSched {G σ : Type} (step : Nat → G → σ → σ) (g : G) : List Nat → (Nat → σ) → (Nat → σ)
  | [], st => st
  | t :: rest, st => runSched step g rest (fun u => if u = t then step t g (st t) else st u)

def iter {σ : Type} (f : σ → σ) : Nat → σ → σ
  | 0, s => s
  | n + 1, s => iter f n (f s)

/-- **every schedule gives each thread the result of its solo run**: thread `t`
    ends in the state obtained by applying its own step as many times as it was
    scheduled, regardless of what the other threads did in between.
    A generic fact about any `step` of this type — steps that CANNOT write the
    shared state `g`; it holds for every such machine and says nothing about
    saltpack by itself.  The saltpack-specific premise (the code's steps are of
    this kind: the regenerated SSA effect summary is empty) is `C20_frame`. -/
theorem C20_schedule_independent {G σ : Type} (step : Nat → G → σ → σ) (g : G)
    (sched : List Nat) (st : Nat → σ) (t : Nat) :
    runSched step g sched st t = iter (step t g) (sched.count t) (st t) := by
  induction sched generalizing st with
  | nil => simp [runSched, iter]
  | cons u rest ih =>
    rw [runSched, ih]
    by_cases h : u = t
    · subst h
      simp [List.count_cons_self, iter]
    · have h' : ¬ t = u := fun e => h e.symm
      simp [List.count_cons, h, h', iter]

/-- in particular two schedules with the same per-thread step counts agree
    (equally generic; see `C20_schedule_independent`) -/
theorem C20_schedules_agree {G σ : Type} (step : Nat → G → σ → σ) (g : G)
    (s1 s2 : List Nat) (st : Nat → σ) (t : Nat) (h : s1.count t = s2.count t) :
    runSched step g s1 st t = runSched step g s2 st t := by
  rw [C20_schedule_independent, C20_schedule_independent, h]

/-! ## non-vacuity -/
example : runSched (fun t (g : Nat) s => s + g + t) 10 [0, 1, 0] (fun _ => 0) 0 = 20 := by decide
example : Saltpack.Gen.globals.length = 33 := by decide

end Saltpack.Props.C20
