/-
  Property C20 — independent operations may run concurrently without
  interference.

  Two parts:
  * `C20_frame`: the *generated* effect summary of /repo (extractor: SSA of every
    non-test function outside `init`/`NewEncoding`) contains no store, map
    update or receiver-mutating `math/big` call whose target is rooted in a
    package-level variable or in a `*basex.Encoding` — the shared state is
    read-only after construction.  Re-checked by the kernel on every run.
  * `C20_schedule_independent`: in a machine where threads interleave atomic
    steps over private state and a shared state that no step writes, every
    schedule gives each thread exactly the state of its solo run.
  What this cannot exhibit (labelled partial in MANIFEST): soundness of the
  static write-set extraction (aliasing through interfaces, stdlib internals)
  and the Go memory model itself; the thorough tier adds a race-detector run.
-/
import Saltpack.Gen.Inventory

namespace Saltpack.Props.C20

/-- the shared write set of the current source tree is empty -/
theorem C20_frame : Saltpack.Gen.sharedWrites = [] := by decide


/-- error values, the shipped encodings, the armor parameters, the frame-checker
    function values -/
def allowedGlobal (g : List UInt8) : Bool :=
  g.take 6 == [115, 112, 46, 69, 114, 114] ||            -- "sp.Err"
  g.take 9 == [98, 97, 115, 101, 120, 46, 69, 114, 114] || -- "basex.Err"
  g.take 10 == [115, 112, 46, 97, 114, 109, 111, 114, 54, 50] || -- "sp.armor62"
  g == [115, 112, 46, 65, 114, 109, 111, 114, 54, 50, 80, 97, 114, 97, 109, 115] || -- "sp.Armor62Params"
  g.take 15 == [98, 97, 115, 101, 120, 46, 66, 97, 115, 101, 53, 56, 83, 116, 100] || -- "basex.Base58Std"
  g.take 15 == [98, 97, 115, 101, 120, 46, 66, 97, 115, 101, 54, 50, 83, 116, 100]    -- "basex.Base62Std"

/-- the package-level variables are exactly of the kinds the summary reasons
    about -/
theorem C20_globals_known : Saltpack.Gen.globalsBytes.all allowedGlobal = true := by decide

/-- an interleaved machine: `step t g s` is one atomic step of thread `t` on its
    private state `s`, reading the shared state `g` — and, by its type, unable
    to change it (that is what `C20_frame` establishes for the code) -/
def runSched {G σ : Type} (step : Nat → G → σ → σ) (g : G) : List Nat → (Nat → σ) → (Nat → σ)
  | [], st => st
  | t :: rest, st => runSched step g rest (fun u => if u = t then step t g (st t) else st u)

def iter {σ : Type} (f : σ → σ) : Nat → σ → σ
  | 0, s => s
  | n + 1, s => iter f n (f s)

/-- **every schedule gives each thread the result of its solo run**: thread `t`
    ends in the state obtained by applying its own step as many times as it was
    scheduled, regardless of what the other threads did in between -/
theorem C20_schedule_independent {G σ : Type} (step : Nat → G → σ → σ) (g : G)
    (sched : List Nat) (st : Nat → σ) (t : Nat) :
    runSched step g sched st t = iter (step t g) (sched.count t) (st t) := by
  induction sched generalizing st with
  | nil => simp [runSched, iter]
  | cons u rest ih =>
    rw [runSched, ih]
    by_cases h : u = t
    · subst h
      simp [List.count_cons_self, iter]
    · have h' : ¬ t = u := fun e => h e.symm
      simp [List.count_cons, h, h', iter]

/-- in particular two schedules with the same per-thread step counts agree -/
theorem C20_schedules_agree {G σ : Type} (step : Nat → G → σ → σ) (g : G)
    (s1 s2 : List Nat) (st : Nat → σ) (t : Nat) (h : s1.count t = s2.count t) :
    runSched step g s1 st t = runSched step g s2 st t := by
  rw [C20_schedule_independent, C20_schedule_independent, h]

/-! ## non-vacuity -/
example : runSched (fun t (g : Nat) s => s + g + t) 10 [0, 1, 0] (fun _ => 0) 0 = 20 := by decide
example : Saltpack.Gen.globalsBytes ≠ [] := by decide

end Saltpack.Props.C20
